/-
  Lemmas.RetrieveDelta — the delta loop of `Model.Retrieve` (one 6-bit window
  per step, `NEED(S_DELTA_TAG)` between the windows, possibly suspended and
  resumed in between) against the bit-by-bit reference `Spec.Delta.syms` on
  the unread bits: composition of `RetrieveValues.deltaWindow_value` along a
  run of `toTop`, by induction on the amount of input.
-/
import LbzVerif.Lemmas.RetrieveValues
import LbzVerif.Lemmas.RetrieveFast

set_option linter.unusedSimpArgs false

namespace LbzVerif.Lemmas.RetrieveDelta
open LbzVerif LbzVerif.Model.Retrieve LbzVerif.Lemmas.RetrieveBits LbzVerif.Lemmas.RetrieveValues
open LbzVerif.Lemmas.RetrieveSplit LbzVerif.Lemmas.RetrieveFast

/-- Everything but the bit buffer, `pc`, and the delta-loop variables
(`j`, `code_len`) is the same. -/
structure SameRest (a b : St) : Prop where
  rand : b.rand = a.rand
  bwtIdx : b.bwtIdx = a.bwtIdx
  big : b.big = a.big
  small : b.small = a.small
  alphaSize : b.alphaSize = a.alphaSize
  t : b.t = a.t
  g : b.g = a.g
  numTrees : b.numTrees = a.numTrees
  numSel : b.numSel = a.numSel
  selector : b.selector = a.selector
  mtf : b.mtf = a.mtf
  trees : b.trees = a.trees
  cmap : b.cmap = a.cmap
  run : b.run = a.run

theorem sameRest_refl (a : St) : SameRest a a := ⟨rfl, rfl, rfl, rfl, rfl, rfl, rfl, rfl, rfl, rfl, rfl, rfl, rfl, rfl⟩

theorem sameRest_trans {a b c : St} (h1 : SameRest a b) (h2 : SameRest b c) : SameRest a c :=
  ⟨h2.rand.trans h1.rand, h2.bwtIdx.trans h1.bwtIdx, h2.big.trans h1.big, h2.small.trans h1.small,
   h2.alphaSize.trans h1.alphaSize, h2.t.trans h1.t, h2.g.trans h1.g, h2.numTrees.trans h1.numTrees,
   h2.numSel.trans h1.numSel, h2.selector.trans h1.selector, h2.mtf.trans h1.mtf,
   h2.trees.trans h1.trees, h2.cmap.trans h1.cmap, h2.run.trans h1.run⟩

/-- `deltaWindow` as an equation for the next state. -/
theorem deltaWindow_next (st : St) (ws : List Nat) (h6 : 6 ≤ st.w) (inv : BufInv st.v st.w)
    (c' : Nat) (hs : Model.Delta.stepLen st.clCur (Model.Delta.peek6 (bitsOf st ws)) = some c') :
    ∃ st', deltaWindow st = .cont st' ∧ BufInv st'.v st'.w ∧ st'.w < st.w ∧
      bitsOf st' ws = (bitsOf st ws).drop (Model.Delta.tL (Model.Delta.peek6 (bitsOf st ws))) ∧
      st'.clCur = c' ∧ st'.pc = .deltaTag ∧ SameRest st st' ∧
      (if Model.Delta.tL (Model.Delta.peek6 (bitsOf st ws)) ≠ 6
       then st'.j = st.j + 1 ∧ st'.clAcc = c' :: st.clAcc
       else st'.j = st.j ∧ st'.clAcc = st.clAcc) := by
  have hk : peek st 6 = Model.Delta.peek6 (bitsOf st ws) := peek6_value st ws h6 inv
  generalize Model.Delta.peek6 (bitsOf st ws) = k at hk hs
  obtain ⟨b1, b2, b3, b4, b5, b6, hwin⟩ := Lemmas.Delta.win6_cases (bitsOf st ws)
  have hkk : k = Model.Delta.toNum [b1, b2, b3, b4, b5, b6] := by
    rw [← hk, peek6_value st ws h6 inv]; unfold Model.Delta.peek6; rw [hwin]
  have hl1 : 1 ≤ Model.Delta.tL k := by
    rw [hkk]; exact (Lemmas.Delta.core_facts 0 (by omega) b1 b2 b3 b4 b5 b6).1
  have hl6 : Model.Delta.tL k ≤ 6 := by rw [hkk]; exact tL_le6 b1 b2 b3 b4 b5 b6
  unfold deltaWindow
  simp only [hk, hs]
  by_cases hl : Model.Delta.tL k ≠ 6
  · rw [if_pos hl]
    have hd : dump ({ st with j := st.j + 1, clAcc := c' :: st.clAcc, clCur := c' } : St) (Model.Delta.tL k) =
        some { ({ st with j := st.j + 1, clAcc := c' :: st.clAcc, clCur := c' } : St) with
          v := dumpV st.v (Model.Delta.tL k), w := st.w - Model.Delta.tL k } := by
      unfold dump
      rw [if_neg (by show ¬ (Model.Delta.tL k = 0 ∨ st.w < Model.Delta.tL k); omega)]
    rw [hd]
    obtain ⟨e, i⟩ := dump_bitsOf _ _ _ ws hd (by exact inv)
    refine ⟨_, rfl, i, ?_, e, rfl, rfl, ⟨rfl, rfl, rfl, rfl, rfl, rfl, rfl, rfl, rfl, rfl, rfl, rfl, rfl, rfl⟩, ?_⟩
    · show st.w - Model.Delta.tL k < st.w; omega
    · rw [if_pos hl]; exact ⟨rfl, rfl⟩
  · rw [if_neg hl]
    have hd : dump ({ st with clCur := c' } : St) (Model.Delta.tL k) =
        some { ({ st with clCur := c' } : St) with
          v := dumpV st.v (Model.Delta.tL k), w := st.w - Model.Delta.tL k } := by
      unfold dump
      rw [if_neg (by show ¬ (Model.Delta.tL k = 0 ∨ st.w < Model.Delta.tL k); omega)]
    rw [hd]
    obtain ⟨e, i⟩ := dump_bitsOf _ _ _ ws hd (by exact inv)
    refine ⟨_, rfl, i, ?_, e, rfl, rfl, ⟨rfl, rfl, rfl, rfl, rfl, rfl, rfl, rfl, rfl, rfl, rfl, rfl, rfl, rfl⟩, ?_⟩
    · show st.w - Model.Delta.tL k < st.w; omega
    · rw [if_neg hl]; exact ⟨rfl, rfl⟩

/-- `toTop` ended the call without success. -/
def Rejected (o : Out) : Prop := ∃ r s rest, o = .halt r s rest ∧ r ≠ .ok
/-- `toTop` ran out of words. -/
def Suspended (o : Out) : Prop := ∃ s, o = .susp s

/-- The delta loop has run to its end from `st`: all `alpha_size` lengths of
the current table are recorded. -/
structure LoopDone (st st' : St) (lens' : List Nat) : Prop where
  pc : st'.pc = .deltaTag
  j : st'.j = st.alphaSize
  acc : st'.clAcc = lens'.reverse ++ st.clAcc
  rest : SameRest st st'

theorem loopDone_refill (st : St) (x : Nat) (st' : St) (l : List Nat)
    (h : LoopDone (refill st x) st' l) : LoopDone st st' l :=
  ⟨h.pc, h.j, h.acc, ⟨h.rest.rand, h.rest.bwtIdx, h.rest.big, h.rest.small, h.rest.alphaSize,
    h.rest.t, h.rest.g, h.rest.numTrees, h.rest.numSel, h.rest.selector, h.rest.mtf, h.rest.trees,
    h.rest.cmap, h.rest.run⟩⟩

theorem syms_succ (n c : Nat) (bits : List Bool) :
    Spec.Delta.syms (n + 1) c bits =
      match Spec.Delta.sym c bits with
      | none => none
      | some (c', r) =>
        match Spec.Delta.syms n c' r with
        | none => none
        | some (ls, r') => some (c' :: ls, r') := rfl

/-- **The suspendable delta loop is the bit-by-bit reference.**  From any
state at `NEED(S_DELTA_TAG)` (in particular a resumed one) with a legal buffer,
whatever words follow: if the reference `Spec.Delta.syms` reads the remaining
`alpha_size - j` lengths from the unread bits, the machine — unless it runs out
of words first — arrives at the end of the loop with exactly those lengths
recorded and exactly the reference's unread bits; if the reference rejects
(a value leaves 1…20, or the bits end), the machine never gets past the loop:
it answers ERR_DELTA or runs out of words. -/
theorem delta_loop : ∀ (m : Nat) (st : St) (ws : List Nat), 64 * ws.length + st.w ≤ m →
    st.pc = .deltaTag → BufInv st.v st.w → st.clCur < 32 → st.j ≤ st.alphaSize →
    (∀ lens' B', Spec.Delta.syms (st.alphaSize - st.j) st.clCur (bitsOf st ws) = some (lens', B') →
      (∃ st' ws', toTop st ws = toTop st' ws' ∧ LoopDone st st' lens' ∧ bitsOf st' ws' = B' ∧
        BufInv st'.v st'.w) ∨ Suspended (toTop st ws)) ∧
    (Spec.Delta.syms (st.alphaSize - st.j) st.clCur (bitsOf st ws) = none →
      Rejected (toTop st ws) ∨ Suspended (toTop st ws)) := by
  intro m
  induction m using Nat.strongRecOn with
  | _ m ih =>
  intro st ws hm hpc inv hc hj
  have hnorm : normPc st = st := by unfold normPc; rw [if_neg (by rw [hpc]; simp)]
  by_cases hfin : st.j = st.alphaSize
  · -- nothing left to read
    have h0 : st.alphaSize - st.j = 0 := by omega
    rw [h0]
    constructor
    · intro lens' B' h
      simp only [Spec.Delta.syms, Option.some.injEq, Prod.mk.injEq] at h
      obtain ⟨h1, h2⟩ := h
      subst h1; subst h2
      exact Or.inl ⟨st, ws, rfl, ⟨hpc, hfin, by simp, sameRest_refl st⟩, rfl, inv⟩
    · intro h; simp [Spec.Delta.syms] at h
  · obtain ⟨n, hn⟩ : ∃ n, st.alphaSize - st.j = n + 1 := ⟨st.alphaSize - st.j - 1, by omega⟩
    rw [hn]
    by_cases hw : st.w < 32
    · -- NEED has to fetch
      cases ws with
      | nil =>
        have hs : toTop st [] = .susp st := by rw [toTop_at_need st hw hnorm]
        exact ⟨fun _ _ _ => Or.inr ⟨st, hs⟩, fun _ => Or.inr ⟨st, hs⟩⟩
      | cons x ws1 =>
        have ht : toTop st (x :: ws1) = toTop (refill st x) ws1 := by rw [toTop_at_need st hw hnorm]
        have hb : bitsOf (refill st x) ws1 = bitsOf st (x :: ws1) := by
          obtain ⟨_, k, e⟩ := sufC_refill st x ws1 hw inv
          obtain ⟨e', _⟩ := refill_bits st.v st.w x hw inv
          unfold bitsOf
          show bufBits (refillV st.v st.w x) (st.w + 32) ++ _ = _
          rw [e']; simp [List.flatMap_cons]
        have hinv' : BufInv (refill st x).v (refill st x).w := (refill_bits st.v st.w x hw inv).2
        have := ih (64 * ws1.length + (st.w + 32)) (by simp only [List.length_cons] at hm; omega)
          (refill st x) ws1 (Nat.le_refl _) hpc hinv' hc hj
        rw [hb] at this
        have hn' : (refill st x).alphaSize - (refill st x).j = n + 1 := hn
        rw [hn'] at this
        rw [ht]
        obtain ⟨t1, t2⟩ := this
        refine ⟨fun l B hh => ?_, t2⟩
        cases t1 l B hh with
        | inl hok =>
          obtain ⟨st2, ws2, e1, hd, e2, i2⟩ := hok
          exact Or.inl ⟨st2, ws2, e1, loopDone_refill st x st2 l hd, e2, i2⟩
        | inr hsu => exact Or.inr hsu
    · -- one window
      have hw32 : 32 ≤ st.w := by omega
      have hstep : step st = deltaWindow st := by
        unfold step; rw [hpc]; unfold stepDeltaTag; rw [if_pos (by omega)]
      have ht : toTop st ws = afterStep st.w ws (deltaWindow st) := by
        rw [toTop_step' st ws hw32, hstep]
      have hBlen : 32 ≤ (bitsOf st ws).length := by
        unfold bitsOf; rw [List.length_append, bufBits_length]; omega
      rw [syms_succ, Lemmas.Delta.sym_eq_winModel st.clCur hc (bitsOf st ws)]
      unfold Lemmas.Delta.winModel
      cases hs : Model.Delta.stepLen st.clCur (Model.Delta.peek6 (bitsOf st ws)) with
      | none =>
        have hv := deltaWindow_value st ws (by omega) inv
        simp only [hs] at hv
        have hr : toTop st ws = .halt (.err Gen.ERR_DELTA) St.blank ws := by rw [ht, hv]; rfl
        simp only [Lemmas.Delta.applyW]
        exact ⟨fun _ _ h => (by cases h), fun _ => Or.inl ⟨_, _, _, hr, (by simp)⟩⟩
      | some c' =>
        obtain ⟨st', hdw, inv', hlt, hbits, hcur, hpc', hsame, hjacc⟩ :=
          deltaWindow_next st ws (by omega) inv c' hs
        have hc' : c' < 32 := (Lemmas.Delta.facts st.clCur hc (bitsOf st ws)).2 c' hs
        have hl6 : Model.Delta.tL (Model.Delta.peek6 (bitsOf st ws)) ≤ 6 := by
          obtain ⟨b1, b2, b3, b4, b5, b6, hwin⟩ := Lemmas.Delta.win6_cases (bitsOf st ws)
          unfold Model.Delta.peek6; rw [hwin]; exact tL_le6 b1 b2 b3 b4 b5 b6
        have ht' : toTop st ws = toTop st' ws := by
          rw [ht, hdw]; simp only [afterStep]; rw [if_pos hlt]
        have hmeas : 64 * ws.length + st'.w < m := by omega
        have hcur' : st'.clCur < 32 := by rw [hcur]; exact hc'
        simp only
        by_cases hl : Model.Delta.tL (Model.Delta.peek6 (bitsOf st ws)) ≠ 6
        · -- the symbol is finished
          rw [if_pos hl] at hjacc ⊢
          obtain ⟨hj', hacc'⟩ := hjacc
          simp only [Lemmas.Delta.applyW]
          rw [if_pos (by omega)]
          simp only
          have hIH := ih _ hmeas st' ws (Nat.le_refl _) hpc' inv' hcur'
            (by rw [hj', hsame.alphaSize]; omega)
          have htodo : st'.alphaSize - st'.j = n := by rw [hj', hsame.alphaSize]; omega
          rw [htodo, hbits, hcur] at hIH
          obtain ⟨ih1, ih2⟩ := hIH
          constructor
          · intro lens' B' h
            cases hsy : Spec.Delta.syms n c' ((bitsOf st ws).drop (Model.Delta.tL (Model.Delta.peek6 (bitsOf st ws)))) with
            | none => rw [hsy] at h; cases h
            | some p =>
              obtain ⟨ls, r'⟩ := p
              rw [hsy] at h
              simp only [Option.some.injEq, Prod.mk.injEq] at h
              obtain ⟨h1, h2⟩ := h
              subst h1; subst h2
              cases ih1 ls r' hsy with
              | inl hok =>
                obtain ⟨st2, ws2, e1, hd, e2, i2⟩ := hok
                refine Or.inl ⟨st2, ws2, ht'.trans e1, ⟨hd.pc, ?_, ?_, sameRest_trans hsame hd.rest⟩, e2, i2⟩
                · rw [hd.j, hsame.alphaSize]
                · rw [hd.acc, hacc']; simp
              | inr hsu =>
                obtain ⟨s, hs'⟩ := hsu
                exact Or.inr ⟨s, ht'.trans hs'⟩
          · intro h
            cases hsy : Spec.Delta.syms n c' ((bitsOf st ws).drop (Model.Delta.tL (Model.Delta.peek6 (bitsOf st ws)))) with
            | some p => rw [hsy] at h; cases h
            | none =>
              cases ih2 hsy with
              | inl hrej =>
                obtain ⟨r, s, rest, e, hne⟩ := hrej
                exact Or.inl ⟨r, s, rest, ht'.trans e, hne⟩
              | inr hsu =>
                obtain ⟨s, hs'⟩ := hsu
                exact Or.inr ⟨s, ht'.trans hs'⟩
        · -- three steps without terminator: same symbol, next window
          have hl' : Model.Delta.tL (Model.Delta.peek6 (bitsOf st ws)) = 6 := by omega
          rw [if_neg hl] at hjacc ⊢
          obtain ⟨hj', hacc'⟩ := hjacc
          simp only [Lemmas.Delta.applyW]
          rw [if_pos (by omega)]
          have hIH := ih _ hmeas st' ws (Nat.le_refl _) hpc' inv' hcur'
            (by rw [hj', hsame.alphaSize]; exact hj)
          have htodo : st'.alphaSize - st'.j = n + 1 := by rw [hj', hsame.alphaSize]; exact hn
          rw [htodo, hbits, hcur, hl', syms_succ] at hIH
          obtain ⟨ih1, ih2⟩ := hIH
          constructor
          · intro lens' B' h
            cases ih1 lens' B' h with
            | inl hok =>
              obtain ⟨st2, ws2, e1, hd, e2, i2⟩ := hok
              refine Or.inl ⟨st2, ws2, ht'.trans e1, ⟨hd.pc, ?_, ?_, sameRest_trans hsame hd.rest⟩, e2, i2⟩
              · rw [hd.j, hsame.alphaSize]
              · rw [hd.acc, hacc']
            | inr hsu =>
              obtain ⟨s, hs'⟩ := hsu
              exact Or.inr ⟨s, ht'.trans hs'⟩
          · intro h
            cases ih2 h with
            | inl hrej =>
              obtain ⟨r, s, rest, e, hne⟩ := hrej
              exact Or.inl ⟨r, s, rest, ht'.trans e, hne⟩
            | inr hsu =>
              obtain ⟨s, hs'⟩ := hsu
              exact Or.inr ⟨s, ht'.trans hs'⟩

end LbzVerif.Lemmas.RetrieveDelta
