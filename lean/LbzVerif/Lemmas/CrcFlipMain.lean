/-
  Lemmas.CrcFlipMain — the stored CRC fields of a bzip2 file, as found by the
  reference walk (`crcFields`), and: flipping any bit of any of them in a file
  the reference accepts makes the reference reject, with the CRC reason
  (`decodeFile_flip`).
-/
import LbzVerif.Lemmas.ExpandSpec
import LbzVerif.Lemmas.ExpandTop
import LbzVerif.Lemmas.ExpandMain
import LbzVerif.Lemmas.ExpandLocal
import LbzVerif.Lemmas.ExpandPos
import LbzVerif.Lemmas.CrcFlipBits
import LbzVerif.Lemmas.CrcFlipBlock

namespace LbzVerif.Lemmas.CrcFlipMain
open LbzVerif LbzVerif.Basic LbzVerif.Spec.Bzip2
open LbzVerif.Lemmas.ExpandSpec LbzVerif.Lemmas.ExpandLocal LbzVerif.Lemmas.ExpandPos
open LbzVerif.Lemmas.CrcFlipBits LbzVerif.Lemmas.CrcFlipBlock

/-- A stored CRC field: `pos` = bit offset (from the start of the file, bit 0 = most significant
bit of byte 0) of the first of its 32 bits. -/
inductive Field
  /-- the CRC of a block: the 32 bits after the block's 48-bit magic -/
  | block (pos : Nat)
  /-- the combined CRC of a stream: the 32 bits after the 48-bit end-of-stream magic -/
  | stream (pos : Nat)
  deriving DecidableEq, Repr

def Field.pos : Field → Nat
  | .block p => p
  | .stream p => p

/-- why the reference rejects when the field is damaged -/
def Field.reason : Field → Reject
  | .block _ => .blockCrc
  | .stream _ => .streamCrc

/-- The CRC fields the reference walk (`Spec.Bzip2.decodeStreams` / `decodeBlocks`) meets from a
given point on, in file order.  `mode = some level`: inside a stream of that level, `bits`
(first bit at offset `pos`) start at a block magic or at the end-of-stream magic; `mode = none`:
after a stream and its padding (trailing-data rule).  Same steps, same sub-parsers
(`takeNat`, `parseBlock`, `headerLevel`) and same offsets (`b.endBit`, `pos + 80` + padding) as
the reference; it records `pos + 48` at every block magic and every end-of-stream magic.  One
unit of fuel per step (every step consumes at least 32 bits). -/
def fieldsGo : Nat → Option Nat → Nat → Bits → List Field
  | 0, _, _, _ => []
  | n + 1, some level, pos, bits =>
    match takeNat 48 bits with
    | none => []
    | some (mg, b1) =>
      if mg = blockMagic then
        match parseBlock level pos b1 with
        | .error _ => []
        | .ok (b, b2) => .block (pos + 48) :: fieldsGo n (some level) b.endBit b2
      else if mg = eosMagic then
        match takeNat 32 b1 with
        | none => []
        | some (_, b2) =>
          .stream (pos + 48) ::
            fieldsGo n none (pos + 80 + (8 - (pos + 80) % 8) % 8) (b2.drop ((8 - (pos + 80) % 8) % 8))
      else []
  | n + 1, none, pos, bits =>
    match takeNat 32 bits with
    | none => []
    | some (w, rest) =>
      match headerLevel w with
      | none => []
      | some level => fieldsGo n (some level) (pos + 32) rest

/-- **The stored CRC fields of a file**, in file order: one `block` entry per block of every
stream, one `stream` entry per stream (also for streams without blocks). -/
def crcFields (x : List UInt8) : List Field :=
  match takeNat 32 (bytesToBits x) with
  | none => []
  | some (w, bits) =>
    match headerLevel w with
    | none => []
    | some level => fieldsGo (8 * x.length + 1) (some level) 32 bits

/-! ### error variants of the one-step equations -/

theorem midStream_block_err (fS fB fb level pos : Nat) (bits b1 b2 : Bits) (cc : UInt32) (acc : Acc)
    (b : Block) (e : Reject)
    (h48 : takeNat 48 bits = some (blockMagic, b1)) (hp : parseBlock level pos b1 = .ok (b, b2))
    (hd : decodeBlock b = .error e) :
    midStream fS fB (fb + 1) level pos bits cc acc = .error e := by
  unfold midStream
  rw [decodeBlocks]
  simp only [h48, if_true, hp, Bool.false_eq_true, if_false, hd]

theorem midStream_eos_err (fS fB fb level pos : Nat) (bits b1 b2 : Bits) (cc : UInt32) (acc : Acc)
    (stored : Nat)
    (h48 : takeNat 48 bits = some (eosMagic, b1)) (h32 : takeNat 32 b1 = some (stored, b2))
    (hne : stored ≠ cc.toNat) :
    midStream fS fB (fb + 1) level pos bits cc acc = .error .streamCrc := by
  unfold midStream
  rw [decodeBlocks]
  have hmg : eosMagic ≠ blockMagic := by decide
  simp only [h48, hmg, if_false, if_true, h32, hne]

/-! ### the walk -/

/-- The statement proved by induction on the fuel of `fieldsGo`. -/
def FlipAt (n : Nat) : Prop :=
  (∀ (fS fB fb level pos : Nat) (bits : Bits) (cc : UInt32) (A a : Acc),
    midStream fS fB fb level pos bits cc A = .ok a →
    ∀ f ∈ fieldsGo n (some level) pos bits, pos + 48 ≤ f.pos ∧
      ∀ k, k < 32 →
        midStream fS fB fb level pos (flipAt bits (f.pos - pos + k)) cc A = .error f.reason) ∧
  (∀ (fS fB pos : Nat) (bits : Bits) (A a : Acc),
    tailStream fS fB pos bits A = .ok a →
    ∀ f ∈ fieldsGo n none pos bits, pos + 80 ≤ f.pos ∧
      ∀ k, k < 32 →
        tailStream fS fB pos (flipAt bits (f.pos - pos + k)) A = .error f.reason)

theorem flip_main : ∀ n, FlipAt n := by
  intro n
  induction n with
  | zero =>
    constructor
    · intro fS fB fb level pos bits cc A a _ f hf
      simp [fieldsGo] at hf
    · intro fS fB pos bits A a _ f hf
      simp [fieldsGo] at hf
  | succ n ih =>
    constructor
    · intro fS fB fb level pos bits cc A a hmid f hf
      obtain ⟨fb', rfl, hcase⟩ := midStream_ok_cases fS fB fb level pos bits cc A a hmid
      rcases hcase with ⟨b1, b, b2, d, h48, hp, hd, hmid'⟩ | ⟨b1, b2, h48, h32, htail⟩
      · -- a block
        have hlen48 := takeNat_length h48
        have hpos := parseBlock_pos level pos b1 b b2 hp
        have hlen2 := (parseBlock_ok).2 b b2 hp
        simp only [fieldsGo, h48, if_true, hp, List.mem_cons] at hf
        rcases hf with rfl | hf
        · -- this block's CRC
          refine ⟨Nat.le_refl _, ?_⟩
          intro k hk
          show midStream fS fB (fb' + 1) level pos (flipAt bits (pos + 48 - pos + k)) cc A = _
          have e : pos + 48 - pos + k = 48 + k := by omega
          rw [e]
          have t48 := takeNat_flip_after 48 bits _ b1 h48 k
          obtain ⟨r, hcrc32, _⟩ := Lemmas.ExpandMain.parseBlock_crc level pos b1 b b2 hp
          obtain ⟨v', t32, hv'⟩ := takeNat_flip 32 b1 _ r hcrc32 k hk
          obtain ⟨_, hp'⟩ := parseBlock_crc_indep level pos b1 (flipAt b1 k) _ v' r b b2 hcrc32 t32 hp
          exact midStream_block_err fS fB fb' level pos _ _ b2 cc A _ _ t48 hp'
            (decodeBlock_crc_changed b d v' hd hv')
        · -- a later field
          obtain ⟨hb, hflip⟩ := (ih.1 fS fB fb' level b.endBit b2 _ _ a hmid') f hf
          refine ⟨by omega, ?_⟩
          intro k hk
          obtain ⟨Cp, hb1, hloc⟩ := parseBlock_local level pos b1 b b2 hp
          have hCp : Cp.length + b2.length = b1.length := by
            rw [hb1, List.length_append]
          have e : f.pos - pos + k = 48 + (Cp.length + (f.pos - b.endBit + k)) := by omega
          rw [e]
          have t48 := takeNat_flip_after 48 bits _ b1 h48 (Cp.length + (f.pos - b.endBit + k))
          have hp' : parseBlock level pos (flipAt b1 (Cp.length + (f.pos - b.endBit + k))) =
              .ok (b, flipAt b2 (f.pos - b.endBit + k)) := by
            rw [hb1, flipAt_append_right]
            exact hloc _
          rw [midStream_block fS fB fb' level pos _ _ _ cc A b d t48 hp' hd]
          exact hflip k hk
      · -- the end of the stream
        have hlen48 := takeNat_length h48
        have hlen32 := takeNat_length h32
        have hmg : eosMagic ≠ blockMagic := by decide
        simp only [fieldsGo, h48, hmg, if_false, if_true, h32, List.mem_cons] at hf
        rcases hf with rfl | hf
        · refine ⟨Nat.le_refl _, ?_⟩
          intro k hk
          show midStream fS fB (fb' + 1) level pos (flipAt bits (pos + 48 - pos + k)) cc A = _
          have e : pos + 48 - pos + k = 48 + k := by omega
          rw [e]
          have t48 := takeNat_flip_after 48 bits _ b1 h48 k
          obtain ⟨v', t32, hv'⟩ := takeNat_flip 32 b1 _ b2 h32 k hk
          exact midStream_eos_err fS fB fb' level pos _ _ b2 cc A v' t48 t32 hv'
        · obtain ⟨hb, hflip⟩ := (ih.2 fS fB _ _ A a htail) f hf
          refine ⟨by omega, ?_⟩
          intro k hk
          have e : f.pos - pos + k = 48 + (32 + ((8 - (pos + 80) % 8) % 8 +
              (f.pos - (pos + 80 + (8 - (pos + 80) % 8) % 8) + k))) := by omega
          rw [e]
          have t48 := takeNat_flip_after 48 bits _ b1 h48
            (32 + ((8 - (pos + 80) % 8) % 8 + (f.pos - (pos + 80 + (8 - (pos + 80) % 8) % 8) + k)))
          have t32 := takeNat_flip_after 32 b1 _ b2 h32
            ((8 - (pos + 80) % 8) % 8 + (f.pos - (pos + 80 + (8 - (pos + 80) % 8) % 8) + k))
          rw [midStream_eos fS fB fb' level pos _ _ _ cc A t48 t32, flipAt_drop]
          exact hflip k hk
    · intro fS fB pos bits A a htail f hf
      rcases tailStream_ok_cases fS fB pos bits A a htail with ⟨_, hnone⟩ | ⟨w, rest, level', fS', h32, hl, rfl, hmid⟩
      · exfalso
        cases h32 : takeNat 32 bits with
        | none => simp [fieldsGo, h32] at hf
        | some r =>
          obtain ⟨w, rest⟩ := r
          have := hnone w rest h32
          simp [fieldsGo, h32, this] at hf
      · simp only [fieldsGo, h32, hl] at hf
        obtain ⟨hb, hflip⟩ := (ih.1 fS' fB fB level' (pos + 32) rest 0 A a hmid) f hf
        refine ⟨by omega, ?_⟩
        intro k hk
        have e : f.pos - pos + k = 32 + (f.pos - (pos + 32) + k) := by omega
        rw [e]
        have t32 := takeNat_flip_after 32 bits _ rest h32 (f.pos - (pos + 32) + k)
        rw [tailStream_header fS' fB pos _ _ A w level' t32 hl]
        exact hflip k hk

/-! ### whole files -/

/-- the header of a file that has one, in the reference's terms -/
theorem header_take (x : List UInt8) (hh : Lemmas.Copy.hasHeader x = true) :
    ∃ w, takeNat 32 (bytesToBits x) = some (w, bytesToBits (x.drop 4)) ∧
      headerLevel w = some (Lemmas.Copy.headerLevel x) := by
  match x, hh with
  | b0 :: b1 :: b2 :: b3 :: rest, hh =>
    simp only [Lemmas.Copy.hasHeader, Bool.and_eq_true, beq_iff_eq, Nat.ble_eq] at hh
    obtain ⟨⟨⟨h0, h1⟩, h2⟩, h3, h4⟩ := hh
    refine ⟨_, Lemmas.ExpandTop.takeNat32_bytes b0 b1 b2 b3 rest, ?_⟩
    rw [headerLevel_some_iff]
    simp only [Lemmas.Copy.headerLevel]
    omega

/-- **decodeFile_flip.**  In a file the reference accepts, flipping any bit of any stored CRC
field makes the reference reject it, for the CRC reason of that field. -/
theorem decodeFile_flip (x y : List UInt8) (h : decodeFile x = .ok y) (f : Field)
    (hf : f ∈ crcFields x) (k : Nat) (hk : k < 32) :
    80 ≤ f.pos ∧ decodeFile (flipBit x (f.pos + k)) = .error f.reason := by
  by_cases hh : Lemmas.Copy.hasHeader x = true
  · obtain ⟨w, htake, hlvl⟩ := header_take x hh
    unfold decodeFile at h
    rw [Lemmas.ExpandTop.walkFile_header x hh, decodeStreams_succ] at h
    cases hw : midStream x.length (x.length + 1) (x.length + 1) (Lemmas.Copy.headerLevel x) (0 + 32)
        (bytesToBits (x.drop 4)) 0 {} with
    | error e => rw [hw] at h; cases h
    | ok a =>
      unfold crcFields at hf
      rw [htake] at hf
      simp only [hlvl] at hf
      obtain ⟨hb, hflip⟩ := ((flip_main _).1 _ _ _ _ _ _ _ _ a hw) f hf
      refine ⟨by omega, ?_⟩
      have hx4 : 4 ≤ x.length := by
        have := takeNat_length htake
        rw [bytesToBits_length] at this
        omega
      have hne : (flipBit x (f.pos + k)).isEmpty = false := by
        have := flipBit_length x (f.pos + k)
        cases hx' : flipBit x (f.pos + k) with
        | nil => rw [hx'] at this; simp at this; omega
        | cons _ _ => rfl
      have e : f.pos + k = 32 + (f.pos - (0 + 32) + k) := by omega
      have t32 : takeNat 32 (bytesToBits (flipBit x (f.pos + k))) =
          some (w, flipAt (bytesToBits (x.drop 4)) (f.pos - (0 + 32) + k)) := by
        rw [bytesToBits_flipBit, e]
        exact takeNat_flip_after 32 _ _ _ htake _
      unfold decodeFile
      rw [Lemmas.ExpandTop.walkFile_of_take _ w _ _ hne t32 hlvl, flipBit_length, decodeStreams_succ,
        hflip k hk]
  · exfalso
    have hf' : Lemmas.Copy.hasHeader x = false := by
      cases hx : Lemmas.Copy.hasHeader x with
      | true => exact absurd hx hh
      | false => rfl
    obtain ⟨e, he⟩ := Lemmas.ExpandTop.walkFile_noheader x hf'
    unfold decodeFile at h
    rw [he] at h
    cases h

/-! ### what the recorded positions are -/

/-- the 48-bit magic in front of a field -/
def Field.magic : Field → Nat
  | .block _ => blockMagic
  | .stream _ => eosMagic

theorem takeNat_drop {n : Nat} {bits rest : Bits} {v : Nat} (h : takeNat n bits = some (v, rest)) :
    rest = bits.drop n := by
  obtain ⟨C, hb, hl, _⟩ := takeNat_local n bits v rest h
  rw [hb, ← hl, List.drop_append_length]

theorem shift_drop (bits sub : Bits) (d : Nat) (hsub : sub = bits.drop d) (i j m : Nat)
    (h : takeNat 48 (sub.drop i) = some (m, sub.drop j)) :
    takeNat 48 (bits.drop (d + i)) = some (m, bits.drop (d + j)) := by
  subst hsub
  rw [List.drop_drop, List.drop_drop] at h
  exact h

/-- **Every recorded position is where it says**: relative to a walk state (`bits` starting at
offset `pos`), a recorded field lies inside `bits`, is preceded by its 48-bit magic and followed
by at least its 32 bits. -/
theorem fieldsGo_magic : ∀ (n : Nat) (mode : Option Nat) (pos : Nat) (bits : Bits) (f : Field),
    f ∈ fieldsGo n mode pos bits →
    pos + 48 ≤ f.pos ∧ f.pos + 32 ≤ pos + bits.length ∧
    takeNat 48 (bits.drop (f.pos - 48 - pos)) = some (f.magic, bits.drop (f.pos - pos)) := by
  intro n
  induction n with
  | zero => intro mode pos bits f hf; simp [fieldsGo] at hf
  | succ n ih =>
    intro mode pos bits f hf
    cases mode with
    | some level =>
      cases h48 : takeNat 48 bits with
      | none => simp [fieldsGo, h48] at hf
      | some r =>
        obtain ⟨mg, b1⟩ := r
        have hlen48 := takeNat_length h48
        have hb1 := takeNat_drop h48
        by_cases hb : mg = blockMagic
        · subst hb
          cases hp : parseBlock level pos b1 with
          | error e => simp [fieldsGo, h48, hp] at hf
          | ok r =>
            obtain ⟨b, b2⟩ := r
            simp only [fieldsGo, h48, if_true, hp, List.mem_cons] at hf
            obtain ⟨_, _, h73⟩ := Lemmas.ExpandMain.parseBlock_crc level pos b1 b b2 hp
            have hpos := parseBlock_pos level pos b1 b b2 hp
            rcases hf with rfl | hf
            · refine ⟨Nat.le_refl _, by show pos + 48 + 32 ≤ _; omega, ?_⟩
              show takeNat 48 (bits.drop (pos + 48 - 48 - pos)) = some (blockMagic, bits.drop (pos + 48 - pos))
              have e1 : pos + 48 - 48 - pos = 0 := by omega
              have e2 : pos + 48 - pos = 48 := by omega
              rw [e1, e2, List.drop_zero, ← hb1]
              exact h48
            · obtain ⟨a1, a2, a3⟩ := ih (some level) b.endBit b2 f hf
              obtain ⟨Cp, hCp, _⟩ := parseBlock_local level pos b1 b b2 hp
              have hl : Cp.length + b2.length = b1.length := by rw [hCp, List.length_append]
              have hb2 : b2 = bits.drop (b.endBit - pos) := by
                have : b.endBit - pos = 48 + Cp.length := by omega
                rw [this, ← List.drop_drop, ← hb1, hCp, List.drop_append_length]
              refine ⟨by omega, by omega, ?_⟩
              rw [hb2, List.drop_drop, List.drop_drop] at a3
              have e1 : b.endBit - pos + (f.pos - 48 - b.endBit) = f.pos - 48 - pos := by omega
              have e2 : b.endBit - pos + (f.pos - b.endBit) = f.pos - pos := by omega
              rw [e1, e2] at a3
              exact a3
        · by_cases he : mg = eosMagic
          · subst he
            cases h32 : takeNat 32 b1 with
            | none => simp [fieldsGo, h48, hb, h32] at hf
            | some r =>
              obtain ⟨st, b2⟩ := r
              have hlen32 := takeNat_length h32
              have hb2 := takeNat_drop h32
              simp only [fieldsGo, h48, hb, if_false, if_true, h32, List.mem_cons] at hf
              rcases hf with rfl | hf
              · refine ⟨Nat.le_refl _, by show pos + 48 + 32 ≤ _; omega, ?_⟩
                show takeNat 48 (bits.drop (pos + 48 - 48 - pos)) = some (eosMagic, bits.drop (pos + 48 - pos))
                have e1 : pos + 48 - 48 - pos = 0 := by omega
                have e2 : pos + 48 - pos = 48 := by omega
                rw [e1, e2, List.drop_zero, ← hb1]
                exact h48
              · obtain ⟨a1, a2, a3⟩ := ih none _ _ f hf
                rw [List.length_drop] at a2
                refine ⟨by omega, by omega, ?_⟩
                have hsub : List.drop ((8 - (pos + 80) % 8) % 8) b2 =
                    List.drop (80 + (8 - (pos + 80) % 8) % 8) bits := by
                  rw [hb2, hb1, List.drop_drop, List.drop_drop]
                  congr 1
                  omega
                have a4 := shift_drop bits _ _ hsub _ _ _ a3
                have e1 : 80 + (8 - (pos + 80) % 8) % 8 +
                    (f.pos - 48 - (pos + 80 + (8 - (pos + 80) % 8) % 8)) = f.pos - 48 - pos := by omega
                have e2 : 80 + (8 - (pos + 80) % 8) % 8 +
                    (f.pos - (pos + 80 + (8 - (pos + 80) % 8) % 8)) = f.pos - pos := by omega
                rw [e1, e2] at a4
                exact a4
          · simp [fieldsGo, h48, hb, he] at hf
    | none =>
      cases h32 : takeNat 32 bits with
      | none => simp [fieldsGo, h32] at hf
      | some r =>
        obtain ⟨w, rest⟩ := r
        have hlen32 := takeNat_length h32
        have hrest := takeNat_drop h32
        cases hl : headerLevel w with
        | none => simp [fieldsGo, h32, hl] at hf
        | some level =>
          simp only [fieldsGo, h32, hl] at hf
          obtain ⟨a1, a2, a3⟩ := ih (some level) (pos + 32) rest f hf
          refine ⟨by omega, by omega, ?_⟩
          rw [hrest, List.drop_drop, List.drop_drop] at a3
          have e1 : 32 + (f.pos - 48 - (pos + 32)) = f.pos - 48 - pos := by omega
          have e2 : 32 + (f.pos - (pos + 32)) = f.pos - pos := by omega
          rw [e1, e2] at a3
          exact a3

/-- **The positions of `crcFields` in the file itself**: every recorded field lies inside the
file, directly behind a 48-bit block magic resp. end-of-stream magic. -/
theorem crcFields_magic (x : List UInt8) (f : Field) (hf : f ∈ crcFields x) :
    80 ≤ f.pos ∧ f.pos + 32 ≤ 8 * x.length ∧
    takeNat 48 ((bytesToBits x).drop (f.pos - 48)) = some (f.magic, (bytesToBits x).drop f.pos) := by
  unfold crcFields at hf
  cases h32 : takeNat 32 (bytesToBits x) with
  | none => rw [h32] at hf; simp at hf
  | some r =>
    obtain ⟨w, bits⟩ := r
    rw [h32] at hf
    simp only at hf
    have hlen := takeNat_length h32
    rw [bytesToBits_length] at hlen
    have hbits := takeNat_drop h32
    cases hl : headerLevel w with
    | none => rw [hl] at hf; simp at hf
    | some level =>
      rw [hl] at hf
      simp only at hf
      obtain ⟨a1, a2, a3⟩ := fieldsGo_magic _ _ _ _ f hf
      refine ⟨by omega, by omega, ?_⟩
      rw [hbits, List.drop_drop, List.drop_drop] at a3
      have e1 : 32 + (f.pos - 48 - 32) = f.pos - 48 := by omega
      have e2 : 32 + (f.pos - 32) = f.pos := by omega
      rw [e1, e2] at a3
      exact a3

/-- The fuel of `fieldsGo` in `crcFields` is enough: any two fuels above the number of bits give
the same list (every step consumes at least 32 bits). -/
theorem fieldsGo_fuel : ∀ (n n' : Nat) (mode : Option Nat) (pos : Nat) (bits : Bits),
    bits.length < n → bits.length < n' → fieldsGo n mode pos bits = fieldsGo n' mode pos bits := by
  intro n
  induction n with
  | zero => intro n' mode pos bits h; omega
  | succ n ih =>
    intro n' mode pos bits h h'
    obtain ⟨m', rfl⟩ : ∃ m', n' = m' + 1 := ⟨n' - 1, by omega⟩
    cases mode with
    | some level =>
      cases h48 : takeNat 48 bits with
      | none => simp [fieldsGo, h48]
      | some r =>
        obtain ⟨mg, b1⟩ := r
        have hlen48 := takeNat_length h48
        by_cases hb : mg = blockMagic
        · subst hb
          cases hp : parseBlock level pos b1 with
          | error e => simp [fieldsGo, h48, hp]
          | ok r =>
            obtain ⟨b, b2⟩ := r
            have hlen2 := (parseBlock_ok).2 b b2 hp
            simp only [fieldsGo, h48, if_true, hp]
            rw [ih m' (some level) b.endBit b2 (by omega) (by omega)]
        · by_cases he : mg = eosMagic
          · subst he
            cases h32 : takeNat 32 b1 with
            | none => simp [fieldsGo, h48, hb, h32]
            | some r =>
              obtain ⟨st, b2⟩ := r
              have hlen32 := takeNat_length h32
              simp only [fieldsGo, h48, hb, if_false, if_true, h32]
              have hd : (b2.drop ((8 - (pos + 80) % 8) % 8)).length ≤ b2.length := by
                rw [List.length_drop]; omega
              rw [ih m' none _ _ (by omega) (by omega)]
          · simp [fieldsGo, h48, hb, he]
    | none =>
      cases h32 : takeNat 32 bits with
      | none => simp [fieldsGo, h32]
      | some r =>
        obtain ⟨w, rest⟩ := r
        have hlen32 := takeNat_length h32
        cases hl : headerLevel w with
        | none => simp [fieldsGo, h32, hl]
        | some level =>
          simp only [fieldsGo, h32, hl]
          exact ih m' (some level) (pos + 32) rest (by omega) (by omega)

end LbzVerif.Lemmas.CrcFlipMain
