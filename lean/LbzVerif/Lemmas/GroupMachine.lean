/-
  Lemmas.GroupMachine — the group loop of `Model.Retrieve` (slow branch:
  `selectTree`, then `NEED(S_PREFIX)` + table lookup + symbol action per
  symbol, possibly suspended) computes `GroupDefs.groupsRef` on the unread
  bits: same verdict, same run state, same unread bits — unless the words run
  out (W17).  Same "iff with escape" pattern as `RetrieveDelta.delta_loop`.
-/
import LbzVerif.Lemmas.GroupDefs
import LbzVerif.Lemmas.TreeSound
import LbzVerif.Lemmas.RetrieveHeader

set_option linter.unusedSimpArgs false

namespace LbzVerif.Lemmas.GroupMachine
open LbzVerif LbzVerif.Model.Retrieve LbzVerif.Spec.Prefix
open LbzVerif.Model.MtfDec (RunSt)
open LbzVerif.Model
open LbzVerif.Lemmas.RetrieveBits LbzVerif.Lemmas.RetrieveValues LbzVerif.Lemmas.RetrieveSplit
open LbzVerif.Lemmas.RetrieveFast LbzVerif.Lemmas.RetrieveDelta LbzVerif.Lemmas.RetrieveTables
open LbzVerif.Lemmas.GroupDefs LbzVerif.Lemmas.TreeSoundArith LbzVerif.Lemmas.TreeSound
open LbzVerif.Lemmas.TransmitSym

/-! ### one symbol -/

theorem window_code (lens : List Nat) (v l r i : Nat) (h : Dec lens (v / 2 ^ 44) l r i) :
    v >>> (64 - l) = canonCode lens i := by
  rw [h.code, Nat.shiftRight_eq_div_pow, Nat.div_div_eq_div_mul]
  congr 1
  unfold width
  rw [← Nat.pow_add]
  congr 1
  have := h.l20
  omega

theorem window_lt (v w : Nat) (inv : BufInv v w) (hw : w ≤ 63) : v < 2 ^ 64 - 1 := by
  have h0 : v.testBit 0 = false := inv.lo 0 (by omega)
  have hlt := buf_lt v w inv
  apply Classical.byContradiction
  intro hn
  have : v = 2 ^ 64 - 1 := by omega
  rw [this] at h0
  revert h0
  decide

/-- On a legal buffer with at least 32 (at most 63) live bits the table lookup
and the oracle's bit-by-bit decoder read the same symbol from the unread bits. -/
theorem window_decode (lens : List Nat) (hc : Complete lens) (hn : lens.length ≤ 258) (v w : Nat)
    (inv : BufInv v w) (hw32 : 32 ≤ w) (hw63 : w ≤ 63) (R : List Bool) :
    ∃ i l p, Canon.lookup (Canon.mkTree lens) v = some (Canon.renumber lens.length i, l) ∧ 1 ≤ l ∧ l ≤ 20 ∧
      Spec.Bzip2.decodeSym (Spec.Bzip2.mkCode lens) 0 (bufBits v w ++ R) =
        .ok (i, p, (bufBits v w ++ R).drop l) := by
  obtain ⟨l, r, i, hd, hl⟩ := lookup_sound lens hc hn v (window_lt v w inv hw63)
  have l20 := hd.l20
  refine ⟨i, l, 0 + l, hl, hd.l1, l20, ?_⟩
  have hsplit : bufBits v w = Basic.natToBits lens[i]! (canonCode lens i) ++ (bufBits v w).drop l := by
    rw [hd.len, ← window_code lens v l r i hd, ← take_bits v w l (by omega) inv, List.take_append_drop]
  rw [List.drop_append_of_le_length (by rw [bufBits_length]; omega)]
  conv => lhs; rw [hsplit, List.append_assoc]
  have := decodeSym_canon lens hc i hd.i_lt 0 ((bufBits v w).drop l ++ R)
  rw [hd.len] at this
  rw [hd.len]
  exact this

/-! ### one group -/

/-- What `toTop` makes of a group, in terms of `groupRef`'s outcome. -/
def GroupOk (st1 : St) (o : Out) : GOut → Prop
  | .top rs' B' => ∃ v' w' ws', o = .top { slowSt st1 0 v' w' rs' with g := st1.g + 1 } ws' ∧
      BufInv v' w' ∧ w' ≤ 63 ∧ bufBits v' w' ++ ws'.flatMap wordBits = B'
  | .eob rs' B' => ∃ (σ : St) (ws' : List Nat) (r : Halt) (s : St), eobFinish σ = .done r s ∧
      o = .halt r s ws' ∧ σ.run = rs' ∧ σ.rand = st1.rand ∧ σ.bwtIdx = st1.bwtIdx ∧
      BufInv σ.v σ.w ∧ bitsOf σ ws' = B'
  | .stop r => ∃ ws', o = .halt r St.blank ws'
  | .trunc => False

/-- If the run over the group ends with unread bits `B'`, fewer than 32 of them. -/
def Short : GOut → Prop
  | .top _ B' => B'.length < 32
  | .eob _ B' => B'.length < 32
  | _ => True

theorem groupRef_len (lens : List Nat) : ∀ (k : Nat) (rs : RunSt) (B : List Bool),
    match groupRef lens k rs B with
    | .top _ B' => B'.length ≤ B.length
    | .eob _ B' => B'.length ≤ B.length
    | _ => True := by
  intro k
  induction k with
  | zero => intro rs B; rw [groupRef]; exact Nat.le_refl _
  | succ k ih =>
    intro rs B
    rw [groupRef]
    cases hd : Spec.Bzip2.decodeSym (Spec.Bzip2.mkCode lens) 0 B with
    | error e => trivial
    | ok q =>
      obtain ⟨i, p, B1⟩ := q
      have hl := (@Spec.Bzip2.decodeSym_ok (Spec.Bzip2.mkCode lens) 0 B).2 _ _ _ hd
      simp only
      cases hs : symStep rs (Canon.renumber lens.length i) with
      | eob => exact hl
      | stop r => trivial
      | cont rs' =>
        simp only
        have := ih rs' B1
        cases hg : groupRef lens k rs' B1 with
        | top a b => rw [hg] at this; exact Nat.le_trans this hl
        | eob a b => rw [hg] at this; exact Nat.le_trans this hl
        | stop r => trivial
        | trunc => trivial

theorem short_of_len (lens : List Nat) (k : Nat) (rs : RunSt) (B : List Bool) (h : B.length < 32) :
    Short (groupRef lens k rs B) := by
  have := groupRef_len lens k rs B
  cases hg : groupRef lens k rs B with
  | top a b => rw [hg] at this; exact Nat.lt_of_le_of_lt this h
  | eob a b => rw [hg] at this; exact Nat.lt_of_le_of_lt this h
  | stop r => trivial
  | trunc => trivial

theorem group_machine (lens : List Nat) (hc : Complete lens) (hn : lens.length ≤ 258) :
    ∀ (m : Nat) (st1 : St) (j v w : Nat) (ws : List Nat) (rs : RunSt),
      64 * ws.length + w ≤ m → st1.trees.getD st1.t none = some (Canon.mkTree lens) →
      j < Gen.GROUP_SIZE → BufInv v w → w ≤ 63 →
      (Suspended (toTop (slowSt st1 j v w rs) ws) ∧
          Short (groupRef lens (Gen.GROUP_SIZE - j) rs (bufBits v w ++ ws.flatMap wordBits))) ∨
        GroupOk st1 (toTop (slowSt st1 j v w rs) ws)
          (groupRef lens (Gen.GROUP_SIZE - j) rs (bufBits v w ++ ws.flatMap wordBits)) := by
  intro m
  induction m using Nat.strongRecOn with
  | _ m ih =>
  intro st1 j v w ws rs hm hT hj inv hw63
  have hgs : Gen.GROUP_SIZE = 50 := rfl
  have hnorm : normPc (slowSt st1 j v w rs) = slowSt st1 j v w rs := normPc_prefix _ rfl
  by_cases hw : w < 32
  · cases ws with
    | nil =>
      refine Or.inl ⟨⟨_, by rw [toTop_at_need _ (by exact hw) hnorm]⟩, ?_⟩
      apply short_of_len
      simp [bufBits_length]; exact hw
    | cons x ws1 =>
      have ht : toTop (slowSt st1 j v w rs) (x :: ws1) =
          toTop (slowSt st1 j (refillV v w x) (w + 32) rs) ws1 := by
        rw [toTop_at_need _ (by exact hw) hnorm]; rfl
      obtain ⟨eb, inv'⟩ := refill_bits v w x hw inv
      have hb : bufBits v w ++ (x :: ws1).flatMap wordBits =
          bufBits (refillV v w x) (w + 32) ++ ws1.flatMap wordBits := by
        rw [eb, List.flatMap_cons, List.append_assoc]
      rw [ht, hb]
      exact ih (64 * ws1.length + (w + 32)) (by simp only [List.length_cons] at hm; omega)
        st1 j _ _ ws1 rs (Nat.le_refl _) hT hj inv' (by omega)
  · have hw32 : 32 ≤ w := by omega
    obtain ⟨i, l, p, hlook, l1, l20, hdec⟩ :=
      window_decode lens hc hn v w inv hw32 hw63 (ws.flatMap wordBits)
    obtain ⟨k, hk⟩ : ∃ k, Gen.GROUP_SIZE - j = k + 1 := ⟨Gen.GROUP_SIZE - j - 1, by omega⟩
    rw [slow_sym st1 _ hT j v w ws rs hw32, hlook, hk, groupRef, hdec]
    simp only
    rw [if_neg (by omega)]
    obtain ⟨ebits, inv'⟩ := dump_bits v w l (by omega) inv
    have hb' : (bufBits v w ++ ws.flatMap wordBits).drop l =
        bufBits (dumpV v l) (w - l) ++ ws.flatMap wordBits := by
      rw [List.drop_append_of_le_length (by rw [bufBits_length]; omega), ebits]
    cases hsym : symStep rs (Canon.renumber lens.length i) with
    | eob =>
      right
      simp only
      obtain ⟨r, s, he⟩ := eobFinish_done (slowSt st1 j (dumpV v l) (w - l) rs)
      rw [he]
      exact ⟨slowSt st1 j (dumpV v l) (w - l) rs, ws, r, s, he, rfl, rfl, rfl, rfl, inv', hb'.symm⟩
    | stop r => exact Or.inr ⟨ws, rfl⟩
    | cont rs' =>
      simp only
      by_cases hj1 : j + 1 < Gen.GROUP_SIZE
      · rw [if_pos hj1, hb']
        have hk' : Gen.GROUP_SIZE - (j + 1) = k := by omega
        have := ih (64 * ws.length + (w - l)) (by omega) st1 (j + 1) (dumpV v l) (w - l) ws rs'
          (Nat.le_refl _) hT hj1 inv' (by omega)
        rw [hk'] at this
        exact this
      · rw [if_neg hj1]
        have hk0 : k = 0 := by omega
        subst hk0
        right
        rw [groupRef]
        exact ⟨dumpV v l, w - l, ws, rfl, inv', by omega, hb'.symm⟩

/-! ### the group loop -/

/-- What `groups` makes of the loop, in terms of `groupsRef`'s outcome. -/
def GroupsOk (st : St) (o : RunOut) : GsOut → Prop
  | .ok rs' B' => ∃ (σ : St) (ws' : List Nat) (r : Halt) (s : St), eobFinish σ = .done r s ∧
      o = .halt r s ws' ∧ σ.run = rs' ∧ σ.rand = st.rand ∧ σ.bwtIdx = st.bwtIdx ∧
      BufInv σ.v σ.w ∧ bitsOf σ ws' = B'
  | .stop r => ∃ ws', o = .halt r St.blank ws'
  | .trunc => False

/-- The state at the top of the group loop against the reference's view:
`tabs` the tables, `js` the selector codes still to use, `M` the MTF list of
table numbers. -/
structure GInv (tabs : List (List Nat)) (st : St) (js M : List Nat) : Prop where
  trees : ∀ t, t < tabs.length → st.trees.getD t none = (Canon.makeTree (tabs.getD t [])).2
  mtf : st.mtf = M.map (fun t => treeCode t (tabs.getD t [])) ++
    List.replicate (Gen.MAX_TREES - M.length) 0
  sel : ∀ k, k < js.length → st.selector.getD (st.g + k) 0 = js.getD k 0
  n : js.length = st.numSel - st.g
  inv : BufInv st.v st.w
  w63 : st.w ≤ 63

theorem verdict_ok_iff (lens : List Nat) (hr : ∀ l ∈ lens, 1 ≤ l ∧ l ≤ 20) (hn : lens.length ≤ 258) :
    Canon.verdict lens = .ok ↔ Complete lens := by
  have hk := Lemmas.PrefixTree.kraftSum_eq lens hr hn
  have hM : (1 : Nat) <<< Canon.MAXL = 2 ^ 20 := by rw [Nat.one_shiftLeft]; rfl
  unfold Canon.verdict
  simp only [hk, hM]
  constructor
  · intro h
    refine ⟨?_, hr⟩
    apply Classical.byContradiction
    intro hne
    rw [if_neg hne] at h
    split at h <;> cases h
  · intro h
    rw [if_pos h.1]

theorem treeCode_complete (t : Nat) (lens : List Nat) (hr : ∀ l ∈ lens, 1 ≤ l ∧ l ≤ 20)
    (hn : lens.length ≤ 258) (hc : Complete lens) :
    treeCode t lens = t ∧ (Canon.makeTree lens).2 = some (Canon.mkTree lens) := by
  have hv := (verdict_ok_iff lens hr hn).mpr hc
  unfold treeCode Canon.makeTree
  rw [hv]
  exact ⟨rfl, rfl⟩

theorem treeCode_incomplete (t : Nat) (lens : List Nat) (hr : ∀ l ∈ lens, 1 ≤ l ∧ l ≤ 20)
    (hn : lens.length ≤ 258) (hc : ¬ Complete lens) : Gen.MAX_TREES ≤ treeCode t lens := by
  have hv : Canon.verdict lens ≠ .ok := fun h => hc ((verdict_ok_iff lens hr hn).mp h)
  unfold treeCode Canon.makeTree
  cases hvv : Canon.verdict lens with
  | ok => exact absurd hvv hv
  | incomplete => show Gen.MAX_TREES ≤ Gen.ERR_INCOMPLT; decide
  | oversubscribed => show Gen.MAX_TREES ≤ Gen.ERR_PREFIX; decide

theorem map_eraseIdx {α β : Type} (f : α → β) : ∀ (l : List α) (i : Nat),
    (l.map f).eraseIdx i = (l.eraseIdx i).map f := by
  intro l
  induction l with
  | nil => intro i; rfl
  | cons a t ih =>
    intro i
    cases i with
    | zero => rfl
    | succ i => simp only [List.map_cons, List.eraseIdx_cons_succ, ih]

/-- If the loop ends with unread bits `B'`, fewer than 32 of them. -/
def ShortS : GsOut → Prop
  | .ok _ B' => B'.length < 32
  | _ => True

theorem groupsRef_len (tabs : List (List Nat)) : ∀ (js M : List Nat) (rs : RunSt) (B : List Bool),
    match groupsRef tabs js M rs B with
    | .ok _ B' => B'.length ≤ B.length
    | _ => True := by
  intro js
  induction js with
  | nil => intro M rs B; rw [groupsRef]; trivial
  | cons j js ih =>
    intro M rs B
    rw [groupsRef]
    cases Spec.Bzip2.moveToFront M j with
    | none => trivial
    | some q =>
      obtain ⟨t, M'⟩ := q
      simp only
      by_cases hc : Complete (tabs.getD t [])
      · rw [if_pos hc]
        have hl := groupRef_len (tabs.getD t []) Gen.GROUP_SIZE rs B
        cases hg : groupRef (tabs.getD t []) Gen.GROUP_SIZE rs B with
        | top a b =>
          rw [hg] at hl
          simp only
          have := ih M' a b
          cases hgs : groupsRef tabs js M' a b with
          | ok x y => rw [hgs] at this; exact Nat.le_trans this hl
          | stop r => trivial
          | trunc => trivial
        | eob a b => rw [hg] at hl; exact hl
        | stop r => trivial
        | trunc => trivial
      · rw [if_neg hc]; trivial

theorem shortS_of_len (tabs : List (List Nat)) (js M : List Nat) (rs : RunSt) (B : List Bool)
    (h : B.length < 32) : ShortS (groupsRef tabs js M rs B) := by
  have := groupsRef_len tabs js M rs B
  cases hg : groupsRef tabs js M rs B with
  | ok a b => rw [hg] at this; exact Nat.lt_of_le_of_lt this h
  | stop r => trivial
  | trunc => trivial

theorem groups_machine (tabs : List (List Nat)) (htl : tabs.length ≤ Gen.MAX_TREES)
    (hT : ∀ l ∈ tabs, l.length ≤ 258 ∧ ∀ x ∈ l, 1 ≤ x ∧ x ≤ 20) :
    ∀ (js : List Nat) (st : St) (ws : List Nat) (M : List Nat), GInv tabs st js M →
      (∀ t ∈ M, t < tabs.length) → (∀ j ∈ js, j < M.length) → M.length ≤ Gen.MAX_TREES →
      ((∃ s, groups false js.length st ws = .susp s) ∧
          ShortS (groupsRef tabs js M st.run (bitsOf st ws))) ∨
        GroupsOk st (groups false js.length st ws) (groupsRef tabs js M st.run (bitsOf st ws)) := by
  intro js
  induction js with
  | nil =>
    intro st ws M _ _ _ _
    right
    rw [groupsRef]
    exact ⟨ws, rfl⟩
  | cons j js ih =>
    intro st ws M hI hM hJ hM6
    have hjM : j < M.length := hJ j (List.mem_cons_self ..)
    have hsel0 : st.selector.getD st.g 0 = j := by
      have := hI.sel 0 (by simp)
      simpa using this
    have htm : M[j] < tabs.length := hM _ (List.getElem_mem hjM)
    have hmem : tabs.getD M[j] [] ∈ tabs := by
      rw [List.getD_eq_getElem?_getD, List.getElem?_eq_getElem htm]
      exact List.getElem_mem htm
    obtain ⟨hl258, hlr⟩ := hT _ hmem
    have hmtfj : st.mtf.getD j 0 = treeCode M[j] (tabs.getD M[j] []) := by
      rw [hI.mtf, List.getD_eq_getElem?_getD,
        List.getElem?_append_left (by rw [List.length_map]; exact hjM), List.getElem?_map,
        List.getElem?_eq_getElem hjM]
      rfl
    have hmv : Spec.Bzip2.moveToFront M j = some (M[j], M[j] :: M.eraseIdx j) := by
      unfold Spec.Bzip2.moveToFront
      rw [List.getElem?_eq_getElem hjM]
    rw [List.length_cons, groups, groupsRef, hmv]
    simp only
    by_cases hcpl : Complete (tabs.getD M[j] [])
    · obtain ⟨htc, hmk⟩ := treeCode_complete M[j] _ hlr hl258 hcpl
      rw [if_pos hcpl]
      have hselT : selectTree st =
          .ok { st with t := M[j], mtf := M[j] :: st.mtf.eraseIdx j } := by
        unfold selectTree
        simp only [hsel0, hmtfj, htc]
        rw [if_neg (by omega)]
      rw [hselT]
      simp only [Bool.false_eq_true, false_and, if_false]
      have hT1 : ({ st with t := M[j], mtf := M[j] :: st.mtf.eraseIdx j } : St).trees.getD
          ({ st with t := M[j], mtf := M[j] :: st.mtf.eraseIdx j } : St).t none =
          some (Canon.mkTree (tabs.getD M[j] [])) := by
        show st.trees.getD M[j] none = _
        rw [hI.trees _ htm, hmk]
      have hg := group_machine _ hcpl hl258 _ { st with t := M[j], mtf := M[j] :: st.mtf.eraseIdx j }
        0 st.v st.w ws st.run (Nat.le_refl _) hT1 (by decide) hI.inv hI.w63
      have hst : ({ ({ st with t := M[j], mtf := M[j] :: st.mtf.eraseIdx j } : St) with
          pc := Pc.prefix, j := 0 } : St) =
          slowSt { st with t := M[j], mtf := M[j] :: st.mtf.eraseIdx j } 0 st.v st.w st.run := rfl
      rw [hst]
      have hbits : bufBits st.v st.w ++ ws.flatMap wordBits = bitsOf st ws := rfl
      rw [Nat.sub_zero, hbits] at hg
      cases hgr : groupRef (tabs.getD M[j] []) Gen.GROUP_SIZE st.run (bitsOf st ws) with
      | trunc =>
        rw [hgr] at hg
        cases hg with
        | inl hsu => obtain ⟨⟨s, e⟩, _⟩ := hsu; left; exact ⟨⟨s, by rw [e]⟩, trivial⟩
        | inr hf => exact absurd hf id
      | stop r =>
        rw [hgr] at hg
        cases hg with
        | inl hsu => obtain ⟨⟨s, e⟩, _⟩ := hsu; left; exact ⟨⟨s, by rw [e]⟩, trivial⟩
        | inr hok => obtain ⟨ws', e⟩ := hok; right; exact ⟨ws', by rw [e]⟩
      | eob rs' B' =>
        rw [hgr] at hg
        cases hg with
        | inl hsu => obtain ⟨⟨s, e⟩, hsh⟩ := hsu; left; exact ⟨⟨s, by rw [e]⟩, hsh⟩
        | inr hok =>
          obtain ⟨σ, ws', r, s, he, e, h1, h2, h3, h4, h5⟩ := hok
          right
          exact ⟨σ, ws', r, s, he, by rw [e], h1, h2, h3, h4, h5⟩
      | top rs' B' =>
        rw [hgr] at hg
        cases hg with
        | inl hsu =>
          obtain ⟨⟨s, e⟩, hsh⟩ := hsu
          left
          exact ⟨⟨s, by rw [e]⟩, shortS_of_len tabs js _ rs' B' hsh⟩
        | inr hok =>
          obtain ⟨v', w', ws', e, inv', hw', hb'⟩ := hok
          rw [e]
          simp only
          have hI2 : GInv tabs ({ slowSt { st with t := M[j], mtf := M[j] :: st.mtf.eraseIdx j } 0 v' w' rs'
              with g := st.g + 1 } : St) js (M[j] :: M.eraseIdx j) := by
            refine ⟨hI.trees, ?_, ?_, ?_, inv', hw'⟩
            · show M[j] :: st.mtf.eraseIdx j = _
              rw [hI.mtf, List.eraseIdx_append_of_lt_length (by rw [List.length_map]; exact hjM),
                map_eraseIdx, List.map_cons, htc, List.length_cons,
                List.length_eraseIdx_of_lt hjM, List.cons_append]
              congr 3
              omega
            · intro k hk
              have := hI.sel (k + 1) (by simp; omega)
              show st.selector.getD (st.g + 1 + k) 0 = _
              rw [show st.g + 1 + k = st.g + (k + 1) by omega, this]
              rfl
            · have := hI.n
              simp only [List.length_cons] at this
              show js.length = st.numSel - (st.g + 1)
              omega
          have hM2 : ∀ t ∈ M[j] :: M.eraseIdx j, t < tabs.length := by
            intro t ht
            rcases List.mem_cons.mp ht with h | h
            · rw [h]; exact htm
            · exact hM t (List.mem_of_mem_eraseIdx h)
          have hlen2 : (M[j] :: M.eraseIdx j).length = M.length := by
            rw [List.length_cons, List.length_eraseIdx_of_lt hjM]; omega
          have := ih _ ws' (M[j] :: M.eraseIdx j) hI2 hM2
            (fun j' hj' => by rw [hlen2]; exact hJ j' (List.mem_cons_of_mem _ hj'))
            (by rw [hlen2]; exact hM6)
          have hb2 : bitsOf ({ slowSt { st with t := M[j], mtf := M[j] :: st.mtf.eraseIdx j } 0 v' w' rs'
              with g := st.g + 1 } : St) ws' = B' := hb'
          have hrun : ({ slowSt { st with t := M[j], mtf := M[j] :: st.mtf.eraseIdx j } 0 v' w' rs'
              with g := st.g + 1 } : St).run = rs' := rfl
          rw [hb2, hrun] at this
          cases this with
          | inl hsu => exact Or.inl hsu
          | inr hok2 =>
            right
            cases hgs : groupsRef tabs js (M[j] :: M.eraseIdx j) rs' B' with
            | trunc => rw [hgs] at hok2; exact absurd hok2 id
            | stop r => rw [hgs] at hok2; exact hok2
            | ok rs2 B2 => rw [hgs] at hok2; exact hok2
    · rw [if_neg hcpl]
      have hge := treeCode_incomplete M[j] _ hlr hl258 hcpl
      have hselT : selectTree st = .error (.err (treeCode M[j] (tabs.getD M[j] []))) := by
        unfold selectTree
        simp only [hsel0, hmtfj]
        rw [if_pos hge]
      rw [hselT]
      right
      exact ⟨ws, rfl⟩

end LbzVerif.Lemmas.GroupMachine
