/-
  Lemmas.ExpandStep — one iteration of `Model.Expand.go` on the level of the
  unread bits (`go_word`, `go_eof`, `go_ok_word`), the values of 16-bit chunks
  of 48- and 32-bit fields (`split48`, `split32`), and the parser automaton
  `Gen.parseStep` state by state (`ps_*`).
-/
import LbzVerif.Lemmas.ExpandBits
import LbzVerif.Lemmas.RetrieveTables
import LbzVerif.Lemmas.TransmitBits

namespace LbzVerif.Lemmas.ExpandStep
open LbzVerif LbzVerif.Model.Expand LbzVerif.Lemmas.RetrieveBits LbzVerif.Basic
open LbzVerif.Lemmas.ExpandBits

/-- What `go` does once a word has been consumed: `r` = the answer of `Gen.parseStep`,
`c2` = the bitstream after `bits_dump(16)`. -/
def after (m f : Nat) (r : Gen.ParseSt × Option Nat) (c2 : Cur) (acc : List UInt8) :
    Except Err (List UInt8) :=
  match r.2 with
  | none => go m f r.1 (if r.1.align then alignC c2 else c2) acc
  | some rv =>
    if rv = Gen.RV_OK then
      match blockAt r.1.hdBs100k r.1.hdCrc (if r.1.align then alignC c2 else c2) with
      | .error e => .error e
      | .ok (out, c4) => go m f r.1 c4 (acc ++ out)
    else if rv = Gen.RV_FINISH then
      finishCheck m r.1.garbage (if r.1.align then alignC c2 else c2) acc
    else .error (failCode rv)

/-- The verdict of `parse()` at end of input. -/
def atEof (m : Nat) (p : Gen.ParseSt) (c : Cur) (acc : List UInt8) : Except Err (List UInt8) :=
  if (Gen.parseAtEof p).2 = Gen.RV_FINISH then finishCheck m (Gen.parseAtEof p).1.garbage c acc
  else .error (failCode (Gen.parseAtEof p).2)

theorem go_succ (m f : Nat) (p : Gen.ParseSt) (c : Cur) (acc : List UInt8) :
    go m (f + 1) p c acc =
      match need16 c with
      | none => atEof m p c acc
      | some c1 => after m f (Gen.parseStep { p with align := false } (c1.v >>> 48)) (dumpC c1 16) acc := by
  rw [go]
  cases need16 c with
  | none => rfl
  | some c1 =>
    simp only [after]
    cases (Gen.parseStep { p with align := false } (c1.v >>> 48)).2 <;> rfl

/-- Fewer than 16 unread bits: `bits_need` says FINISH. -/
theorem go_eof (m f : Nat) (p : Gen.ParseSt) (c : Cur) (acc : List UInt8) (inv : BufInv c.v c.w)
    (h : (bitsC c).length < 16) : go m (f + 1) p c acc = atEof m p c acc := by
  rw [go_succ]
  have := read16 c inv
  cases hn : need16 c with
  | none => rfl
  | some c1 => rw [hn] at this; simp only at this; omega

/-- At least 16 unread bits: the automaton gets the next 16 bits as its word. -/
theorem go_word (m f : Nat) (p : Gen.ParseSt) (c : Cur) (acc : List UInt8) (inv : BufInv c.v c.w)
    (h : 16 ≤ (bitsC c).length) :
    ∃ c2, bitsC c2 = (bitsC c).drop 16 ∧ BufInv c2.v c2.w ∧ c2.w ≤ 48 ∧
      go m (f + 1) p c acc =
        after m f (Gen.parseStep { p with align := false } (bitsToNat ((bitsC c).take 16))) c2 acc := by
  have hr := read16 c inv
  cases hn : need16 c with
  | none => rw [hn] at hr; simp only at hr; omega
  | some c1 =>
    rw [hn] at hr
    obtain ⟨_, a1, a2, a3, a4⟩ := hr
    refine ⟨dumpC c1 16, a2, a3, a4, ?_⟩
    rw [go_succ, hn]
    simp only
    rw [a1]

/-- `go` answered `ok`: the fuel was positive and one of the two cases above happened. -/
theorem go_ok_cases (m f : Nat) (p : Gen.ParseSt) (c : Cur) (acc y : List UInt8)
    (inv : BufInv c.v c.w) (h : go m f p c acc = .ok y) :
    ∃ f', f = f' + 1 ∧
      (((bitsC c).length < 16 ∧ atEof m p c acc = .ok y) ∨
       (16 ≤ (bitsC c).length ∧ ∃ c2, bitsC c2 = (bitsC c).drop 16 ∧ BufInv c2.v c2.w ∧ c2.w ≤ 48 ∧
          after m f' (Gen.parseStep { p with align := false } (bitsToNat ((bitsC c).take 16))) c2 acc
            = .ok y)) := by
  cases f with
  | zero => rw [go] at h; cases h
  | succ f' =>
    refine ⟨f', rfl, ?_⟩
    by_cases h16 : (bitsC c).length < 16
    · left
      rw [go_eof m f' p c acc inv h16] at h
      exact ⟨h16, h⟩
    · right
      obtain ⟨c2, b1, b2, b3, b4⟩ := go_word m f' p c acc inv (by omega)
      rw [b4] at h
      exact ⟨by omega, c2, b1, b2, b3, h⟩

/-! ### 16-bit chunks of the fixed-width fields -/

theorem bitsToNat_append (a b : Bits) : bitsToNat (a ++ b) = bitsToNat a * 2 ^ b.length + bitsToNat b := by
  induction a with
  | nil => simp [bitsToNat, bitsToNatAux]
  | cons x a ih =>
    rw [List.cons_append, Lemmas.TransmitBits.bitsToNat_cons, Lemmas.TransmitBits.bitsToNat_cons, ih,
      List.length_append, Nat.pow_add]
    have : 2 ^ a.length * 2 ^ b.length * bit x = 2 ^ a.length * bit x * 2 ^ b.length := by
      rw [Nat.mul_assoc, Nat.mul_assoc, Nat.mul_comm (bit x)]
    rw [Nat.add_mul, this]
    omega

theorem bitsToNat_take_lt (R : Bits) (k : Nat) : bitsToNat (R.take k) < 2 ^ k := by
  have := Lemmas.TransmitBits.bitsToNat_lt (R.take k)
  have hl : (R.take k).length ≤ k := by rw [List.length_take]; exact Nat.min_le_left _ _
  calc bitsToNat (R.take k) < 2 ^ (R.take k).length := this
    _ ≤ 2 ^ k := Nat.pow_le_pow_right (by omega) hl

/-- The three 16-bit words of a 48-bit field. -/
theorem split48 (R : Bits) (h : 48 ≤ R.length) :
    takeNat 48 R = some (bitsToNat (R.take 16) * 2 ^ 32 + bitsToNat ((R.drop 16).take 16) * 2 ^ 16 +
      bitsToNat ((R.drop 32).take 16), R.drop 48) := by
  rw [Lemmas.RetrieveTables.takeNat_eq 48 R h]
  congr 2
  have e : R.take 48 = R.take 16 ++ ((R.drop 16).take 16 ++ (R.drop 32).take 16) := by
    have h1 : R.take 48 = R.take 16 ++ (R.drop 16).take 32 := by
      rw [show (48 : Nat) = 16 + 32 from rfl, List.take_add]
    have h2 : (R.drop 16).take 32 = (R.drop 16).take 16 ++ ((R.drop 16).drop 16).take 16 := by
      rw [show (32 : Nat) = 16 + 16 from rfl, List.take_add]
    rw [h1, h2, List.drop_drop]
  rw [e, bitsToNat_append, bitsToNat_append]
  have l1 : ((R.drop 32).take 16).length = 16 := by rw [List.length_take, List.length_drop]; omega
  have l2 : ((R.drop 16).take 16).length = 16 := by rw [List.length_take, List.length_drop]; omega
  rw [List.length_append, l1, l2]
  have : (2 : Nat) ^ (16 + 16) = 2 ^ 16 * 2 ^ 16 := by rw [Nat.pow_add]
  omega

/-- The two 16-bit words of a 32-bit field. -/
theorem split32 (R : Bits) (h : 32 ≤ R.length) :
    takeNat 32 R = some (bitsToNat (R.take 16) * 2 ^ 16 + bitsToNat ((R.drop 16).take 16), R.drop 32) := by
  rw [Lemmas.RetrieveTables.takeNat_eq 32 R h]
  congr 2
  have e : R.take 32 = R.take 16 ++ (R.drop 16).take 16 := by
    rw [show (32 : Nat) = 16 + 16 from rfl, List.take_add]
  rw [e, bitsToNat_append]
  have l2 : ((R.drop 16).take 16).length = 16 := by rw [List.length_take, List.length_drop]; omega
  rw [l2]

/-! ### the automaton, state by state -/

/-- `computed_crc = (computed_crc << 1) ^ (computed_crc >> 31) ^ hd->crc` on `uint32_t`. -/
def crcUpd (cc crc : Nat) : Nat :=
  ((((cc <<< 1) % 4294967296) ^^^ (cc >>> 31)) ^^^ crc) % 4294967296

/-- `(stored_crc << 16) | word` on `uint32_t`. -/
def join (hi lo : Nat) : Nat := ((((hi % 4294967296) <<< 16) % 4294967296) ||| lo) % 4294967296

theorem ps0 (p : Gen.ParseSt) (wd : Nat) (hs : p.state = 0) :
    Gen.parseStep p wd = if wd = 16986 then ({ p with state := 1 }, none)
      else ({ p with hdBs100k := 4294967295, hdCrc := 0, state := 48, garbage := 16 }, some 2) := by
  unfold Gen.parseStep
  simp only [hs]
  simp (config := {decide := true}) only [if_false, if_true, decide_eq_true_eq, ne_eq, ite_not]
  try simp only [@eq_comm Nat _ wd]

theorem ps1 (p : Gen.ParseSt) (wd : Nat) (hs : p.state = 1) :
    Gen.parseStep p wd = if 26673 ≤ wd ∧ wd ≤ 26681 then ({ p with bs100k := wd &&& 15, state := 2 }, none)
      else ({ p with hdBs100k := 4294967295, hdCrc := 0, state := 48, garbage := 32 }, some 2) := by
  unfold Gen.parseStep
  simp only [hs]
  simp (config := {decide := true}) only [if_false, if_true]
  by_cases h : 26673 ≤ wd ∧ wd ≤ 26681
  · rw [if_pos h, if_neg (by simp; omega)]
  · rw [if_neg h, if_pos (by simp; omega)]

theorem ps2 (p : Gen.ParseSt) (wd : Nat) (hs : p.state = 2) :
    Gen.parseStep p wd = if wd = 6002 then ({ p with state := 7 }, none)
      else if wd = 12609 then ({ p with state := 3 }, none) else (p, some 4) := by
  unfold Gen.parseStep
  simp only [hs]
  simp (config := {decide := true}) only [if_false, if_true, decide_eq_true_eq, ne_eq, ite_not]
  try simp only [@eq_comm Nat _ wd]

theorem ps3 (p : Gen.ParseSt) (wd : Nat) (hs : p.state = 3) :
    Gen.parseStep p wd = if wd = 22822 then ({ p with state := 4 }, none) else (p, some 4) := by
  unfold Gen.parseStep
  simp only [hs]
  simp (config := {decide := true}) only [if_false, if_true, decide_eq_true_eq, ne_eq, ite_not]
  try simp only [@eq_comm Nat _ wd]

theorem ps4 (p : Gen.ParseSt) (wd : Nat) (hs : p.state = 4) :
    Gen.parseStep p wd = if wd = 21337 then ({ p with state := 5 }, none) else (p, some 4) := by
  unfold Gen.parseStep
  simp only [hs]
  simp (config := {decide := true}) only [if_false, if_true, decide_eq_true_eq, ne_eq, ite_not]
  try simp only [@eq_comm Nat _ wd]

theorem ps5 (p : Gen.ParseSt) (wd : Nat) (hs : p.state = 5) :
    Gen.parseStep p wd = ({ p with storedCrc := wd % 4294967296, state := 6 }, none) := by
  unfold Gen.parseStep
  simp only [hs]
  simp (config := {decide := true}) only [if_false, if_true]

theorem ps6 (p : Gen.ParseSt) (wd : Nat) (hs : p.state = 6) :
    Gen.parseStep p wd =
      ({ p with hdCrc := (((p.storedCrc <<< 16) % 4294967296) ||| wd) % 4294967296,
                hdBs100k := p.bs100k,
                computedCrc := crcUpd p.computedCrc ((((p.storedCrc <<< 16) % 4294967296) ||| wd) % 4294967296),
                state := 2 }, some 0) := by
  unfold Gen.parseStep crcUpd
  simp only [hs]
  simp (config := {decide := true}) only [if_false, if_true]

theorem ps7 (p : Gen.ParseSt) (wd : Nat) (hs : p.state = 7) :
    Gen.parseStep p wd = if wd = 17720 then ({ p with state := 8 }, none) else (p, some 4) := by
  unfold Gen.parseStep
  simp only [hs]
  simp (config := {decide := true}) only [if_false, if_true, decide_eq_true_eq, ne_eq, ite_not]
  try simp only [@eq_comm Nat _ wd]

theorem ps8 (p : Gen.ParseSt) (wd : Nat) (hs : p.state = 8) :
    Gen.parseStep p wd = if wd = 20624 then ({ p with state := 9 }, none) else (p, some 4) := by
  unfold Gen.parseStep
  simp only [hs]
  simp (config := {decide := true}) only [if_false, if_true, decide_eq_true_eq, ne_eq, ite_not]
  try simp only [@eq_comm Nat _ wd]

theorem ps9 (p : Gen.ParseSt) (wd : Nat) (hs : p.state = 9) :
    Gen.parseStep p wd = ({ p with storedCrc := wd % 4294967296, state := 10 }, none) := by
  unfold Gen.parseStep
  simp only [hs]
  simp (config := {decide := true}) only [if_false, if_true]

theorem ps10 (p : Gen.ParseSt) (wd : Nat) (hs : p.state = 10) (hm : p.streamMode = false) :
    Gen.parseStep p wd =
      if (((p.storedCrc <<< 16) % 4294967296) ||| wd) % 4294967296 = p.computedCrc then
        ({ p with storedCrc := (((p.storedCrc <<< 16) % 4294967296) ||| wd) % 4294967296,
                  computedCrc := 0, align := true, state := 0 }, none)
      else ({ p with storedCrc := (((p.storedCrc <<< 16) % 4294967296) ||| wd) % 4294967296 }, some 16) := by
  unfold Gen.parseStep
  simp only [hs, hm]
  simp (config := {decide := true}) only [if_false, if_true, decide_eq_true_eq, ne_eq, ite_not]

/-- `word & 15` for the words "h1" … "h9". -/
theorem level_of_word (w : Nat) (h1 : 26673 ≤ w) (h2 : w ≤ 26681) : w &&& 15 = w - 26672 := by
  have : w &&& 15 = w % 16 := Nat.and_two_pow_sub_one_eq_mod w 4
  omega

/-- End of input inside a stream is ERR_EOF. -/
theorem eof_instream (p : Gen.ParseSt) (h0 : p.state ≠ 0) (h1 : p.state ≠ 1) :
    Gen.parseAtEof p = (p, Gen.ERR_EOF) := by
  unfold Gen.parseAtEof Gen.PS_STREAM_MAGIC_1 Gen.PS_STREAM_MAGIC_2
  rw [if_neg h0, if_neg h1]

end LbzVerif.Lemmas.ExpandStep
