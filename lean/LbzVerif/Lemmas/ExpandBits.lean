/-
  Lemmas.ExpandBits — the parser bitstream of `Model.Expand` (`Cur`: 64-bit
  buffer + unread words) is a FIFO of the bits of the zero-padded input:

  * `bitsC c` = the unread bits; `need16` / `>>> 48` / `dumpC 16` read exactly
    the next 16 of them (`read16`), `alignC` drops `|bits| % 8` of them
    (`align_bits`), `need16 = none` iff fewer than 16 are left;
  * the words of the padded input hold the bits of the input followed by
    `8 · missing` zero bits (`toWords_bits`, `padded_bits`);
  * `finishCheck` is the test "the garbage starts at or before the real end of
    the data" (`finishCheck_eq`).
-/
import LbzVerif.Model.Expand
import LbzVerif.Lemmas.RetrieveValues
import LbzVerif.Lemmas.SpecBasic

namespace LbzVerif.Lemmas.ExpandBits
open LbzVerif LbzVerif.Model.Expand LbzVerif.Lemmas.RetrieveBits LbzVerif.Basic
open LbzVerif.Model.Retrieve (refillV dumpV)

/-- The unread bits of a bitstream. -/
def bitsC (c : Cur) : List Bool := bufBits c.v c.w ++ c.ws.flatMap wordBits

theorem bitsC_eq_bitsOf (c : Cur) :
    bitsC c = bitsOf (Model.Retrieve.St.start c.v c.w) c.ws := rfl

theorem wordBits_length (x : Nat) : (wordBits x).length = 32 := by simp [wordBits]

theorem flatMap_wordBits_length (ws : List Nat) : (ws.flatMap wordBits).length = 32 * ws.length := by
  induction ws with
  | nil => rfl
  | cons x ws ih => rw [List.flatMap_cons, List.length_append, ih, wordBits_length, List.length_cons]; omega

theorem bitsC_length (c : Cur) : (bitsC c).length = c.size := by
  unfold bitsC Cur.size
  rw [List.length_append, bufBits_length, flatMap_wordBits_length]

/-! ### reading 16 bits -/

theorem need16_none (c : Cur) (h : need16 c = none) : c.size < 16 := by
  unfold need16 at h
  split at h
  · cases h
  · split at h
    · rename_i hws
      unfold Cur.size; rw [hws]; simp; omega
    · cases h

theorem need16_some (c c1 : Cur) (inv : BufInv c.v c.w) (h : need16 c = some c1) :
    bitsC c1 = bitsC c ∧ BufInv c1.v c1.w ∧ 16 ≤ c1.w := by
  unfold need16 at h
  split at h
  · injection h with h; subst h; exact ⟨rfl, inv, by assumption⟩
  · split at h
    · cases h
    · rename_i hw x ws hws
      injection h with h; subst h
      obtain ⟨e, i⟩ := refill_bits c.v c.w x (by omega) inv
      refine ⟨?_, i, by simp⟩
      unfold bitsC
      simp only
      rw [e, hws, List.flatMap_cons, List.append_assoc]

theorem bitsToNat_natToBits (n x : Nat) (h : x < 2 ^ n) : bitsToNat (natToBits n x) = x := by
  unfold bitsToNat
  rw [bitsToNatAux_natToBits]
  simp only [Nat.zero_mul, Nat.zero_add]
  exact Nat.mod_eq_of_lt h

/-- `bits_peek(bs, 16)` and `bits_dump(bs, 16)` on a buffer with at least 16 live bits. -/
theorem word16 (c : Cur) (inv : BufInv c.v c.w) (h16 : 16 ≤ c.w) :
    c.v >>> 48 = bitsToNat ((bitsC c).take 16) ∧ bitsC (dumpC c 16) = (bitsC c).drop 16 ∧
    BufInv (dumpC c 16).v (dumpC c 16).w ∧ (dumpC c 16).w ≤ 48 := by
  have hw := inv.wle
  obtain ⟨e, i⟩ := dump_bits c.v c.w 16 h16 inv
  refine ⟨?_, ?_, i, ?_⟩
  · unfold bitsC
    rw [List.take_append_of_le_length (by rw [bufBits_length]; exact h16),
      Lemmas.RetrieveValues.take_bits c.v c.w 16 h16 inv,
      bitsToNat_natToBits _ _ (Lemmas.RetrieveValues.peek_lt c.v c.w 16 inv (by omega))]
  · unfold bitsC dumpC
    simp only
    rw [List.drop_append_of_le_length (by rw [bufBits_length]; exact h16), e]
  · show c.w - 16 ≤ 48
    omega

/-- One pass of `bits_need(16)`, `bits_peek(16)`, `bits_dump(16)`. -/
theorem read16 (c : Cur) (inv : BufInv c.v c.w) :
    match need16 c with
    | none => (bitsC c).length < 16
    | some c1 =>
      16 ≤ (bitsC c).length ∧ c1.v >>> 48 = bitsToNat ((bitsC c).take 16) ∧
      bitsC (dumpC c1 16) = (bitsC c).drop 16 ∧
      BufInv (dumpC c1 16).v (dumpC c1 16).w ∧ (dumpC c1 16).w ≤ 48 := by
  cases h : need16 c with
  | none => simp only; rw [bitsC_length]; exact need16_none c h
  | some c1 =>
    simp only
    obtain ⟨e, i, h16⟩ := need16_some c c1 inv h
    obtain ⟨a1, a2, a3, a4⟩ := word16 c1 i h16
    rw [e] at a1 a2
    refine ⟨?_, a1, a2, a3, a4⟩
    rw [← e, bitsC_length]; unfold Cur.size; omega

/-- `bits_align`: drops the bits up to the next byte boundary (counted from the end of the
padded input, which is a whole number of bytes). -/
theorem align_bits (c : Cur) (inv : BufInv c.v c.w) :
    bitsC (alignC c) = (bitsC c).drop ((bitsC c).length % 8) ∧
    BufInv (alignC c).v (alignC c).w ∧ (alignC c).w ≤ c.w := by
  have hk : c.w % 8 ≤ c.w := Nat.mod_le _ _
  obtain ⟨e, i⟩ := dump_bits c.v c.w (c.w % 8) hk inv
  have hl : (bitsC c).length % 8 = c.w % 8 := by
    rw [bitsC_length]; unfold Cur.size; omega
  refine ⟨?_, i, ?_⟩
  · rw [hl]
    unfold bitsC alignC dumpC
    simp only
    rw [List.drop_append_of_le_length (by rw [bufBits_length]; exact hk), e]
  · show c.w - c.w % 8 ≤ c.w
    omega

/-! ### the padded input as words -/

theorem testBit_byte_hi (a : UInt8) (k : Nat) (h : 8 ≤ k) : a.toNat.testBit k = false := by
  apply Nat.testBit_lt_two_pow
  calc a.toNat < 2 ^ 8 := a.toNat_lt
    _ ≤ 2 ^ k := Nat.pow_le_pow_right (by omega) h

theorem wordBits_word (a b c d : UInt8) :
    wordBits (word a b c d) = byteToBits a ++ byteToBits b ++ byteToBits c ++ byteToBits d := by
  have e : List.range 32 = [0, 1, 2, 3, 4, 5, 6, 7, 8, 9, 10, 11, 12, 13, 14, 15, 16, 17, 18, 19,
      20, 21, 22, 23, 24, 25, 26, 27, 28, 29, 30, 31] := by decide
  unfold wordBits word byteToBits
  rw [e]
  simp [Nat.testBit_or, Nat.testBit_shiftLeft, testBit_byte_hi]

theorem toWords_bits : ∀ (n : Nat) (l : List UInt8), l.length = 4 * n →
    (toWords l).flatMap wordBits = bytesToBits l := by
  intro n
  induction n with
  | zero =>
    intro l h
    have : l = [] := List.length_eq_zero_iff.mp (by omega)
    subst this
    simp [toWords, bytesToBits_nil]
  | succ n ih =>
    intro l h
    match l, h with
    | a :: b :: c :: d :: rest, h =>
      have hr : rest.length = 4 * n := by simp only [List.length_cons] at h; omega
      rw [toWords, List.flatMap_cons, ih rest hr, wordBits_word]
      simp only [bytesToBits_cons, List.append_assoc]

theorem toWords_length : ∀ (n : Nat) (l : List UInt8), l.length = 4 * n → (toWords l).length = n := by
  intro n
  induction n with
  | zero =>
    intro l h
    have : l = [] := List.length_eq_zero_iff.mp (by omega)
    subst this; rfl
  | succ n ih =>
    intro l h
    match l, h with
    | a :: b :: c :: d :: rest, h =>
      have hr : rest.length = 4 * n := by simp only [List.length_cons] at h; omega
      rw [toWords, List.length_cons, ih rest hr]

theorem missingOf_lt (n : Nat) : missingOf n < 4 := by unfold missingOf; omega

theorem padded_length (rest : List UInt8) :
    (padded rest).length = 4 * ((rest.length + 3) / 4) := by
  unfold padded missingOf
  rw [List.length_append, List.length_replicate]
  omega

theorem bytesToBits_zeros (k : Nat) :
    bytesToBits (List.replicate k (0 : UInt8)) = List.replicate (8 * k) false := by
  induction k with
  | zero => simp [bytesToBits_nil]
  | succ k ih =>
    rw [List.replicate_succ, bytesToBits_cons, ih]
    have : byteToBits 0 = List.replicate 8 false := by decide
    rw [this, List.replicate_append_replicate]
    congr 1; omega

/-- The words handed to the decompressor hold the bits of the input, then `8·missing` zeros. -/
theorem padded_bits (rest : List UInt8) :
    (toWords (padded rest)).flatMap wordBits =
      bytesToBits rest ++ List.replicate (8 * missingOf rest.length) false := by
  rw [toWords_bits _ _ (padded_length rest)]
  unfold padded
  rw [bytesToBits_append, bytesToBits_zeros]

/-! ### the FINISH test -/

/-- `finishCheck` accepts iff at least `8·missing` padded bits remain from the start of the
garbage, i.e. iff the last stream ends at or before the real end of the data. -/
theorem finishCheck_eq (m g : Nat) (c : Cur) (acc : List UInt8) (hm : m < 4) :
    finishCheck m g c acc =
      if c.size + g < 8 * m then .error (.data Gen.ERR_EOF) else .ok acc := by
  unfold finishCheck Cur.size
  simp only
  by_cases h32 : 32 ≤ c.w + g
  · simp only [h32, if_true]
    rw [if_neg (by simp), if_neg (by omega)]
  · simp only [h32, if_false]
    cases hws : c.ws with
    | nil =>
      simp only [List.isEmpty_nil, true_and, List.length_nil, Nat.mul_zero, Nat.add_zero]
    | cons x ws =>
      simp only [List.isEmpty_cons, Bool.false_eq_true, false_and, if_false, List.length_cons]
      rw [if_neg (by omega)]

end LbzVerif.Lemmas.ExpandBits
