/-
  LbzVerif.Lemmas.ExpandPos — the bit positions tracked by the reference parser
  are ACCURATE: for every sub-parser that threads a position,

      f … pos bits … = ok (…, pos', rest)  →  pos' + rest.length = pos + bits.length

  i.e. the position advances by exactly the number of bits consumed.  Hence
  `Block.endBit` is the offset of the first bit after the block
  (`parseBlock_pos`) and the offset returned by the block loop is the offset
  of the first bit it did not consume (`decodeBlocks_pos`).
-/
import LbzVerif.Spec.Bzip2
import LbzVerif.Lemmas.SpecBasic

namespace LbzVerif.Lemmas.ExpandPos

open LbzVerif.Basic LbzVerif.Spec.Bzip2

/-! ### bitmap -/

theorem readBitmapRows_pos (big : Nat) (rows : List Nat) (pos : Nat) (bits : Bits)
    (u : List UInt8) (p : Nat) (rest : Bits)
    (h : readBitmapRows big rows pos bits = some (u, p, rest)) :
    p + rest.length = pos + bits.length := by
  induction rows generalizing pos bits u p with
  | nil =>
    simp only [readBitmapRows, Option.some.injEq, Prod.mk.injEq] at h
    obtain ⟨rfl, rfl, rfl⟩ := h
    rfl
  | cons i rows ih =>
    simp only [readBitmapRows] at h
    split at h
    · split at h
      · cases h
      · rename_i small bits1 h1
        split at h
        · cases h
        · rename_i u' p' r' h2
          simp only [Option.some.injEq, Prod.mk.injEq] at h
          obtain ⟨rfl, rfl, rfl⟩ := h
          have l1 := takeNat_length h1
          have l2 := ih _ _ _ _ h2
          omega
    · exact ih _ _ _ _ h

/-! ### selectors -/

/-- `readUnary` started at count `k` and returning index `j` consumed `j - k`
    one-bits and the terminating zero bit. -/
theorem readUnary_pos (g k : Nat) (bits : Bits) (j : Nat) (rest : Bits)
    (h : readUnary g k bits = .ok (j, rest)) :
    rest.length + (j - k) + 1 = bits.length ∧ k ≤ j := by
  induction bits generalizing k with
  | nil => simp [readUnary] at h
  | cons b bs ih =>
    cases b with
    | false =>
      simp only [readUnary, Except.ok.injEq, Prod.mk.injEq] at h
      obtain ⟨rfl, rfl⟩ := h
      simp
    | true =>
      simp only [readUnary] at h
      split at h
      · have := ih _ h
        simp only [List.length_cons]
        omega
      · cases h

theorem readSelectorMtf_pos (g n pos : Nat) (bits : Bits) (acc a : Array Nat) (p : Nat)
    (rest : Bits) (h : readSelectorMtf g n pos bits acc = .ok (a, p, rest)) :
    p + rest.length = pos + bits.length := by
  induction n generalizing pos bits acc with
  | zero =>
    simp only [readSelectorMtf, Except.ok.injEq, Prod.mk.injEq] at h
    obtain ⟨rfl, rfl, rfl⟩ := h
    rfl
  | succ n ih =>
    simp only [readSelectorMtf] at h
    split at h
    · cases h
    · rename_i j bits1 h1
      have l1 := readUnary_pos _ _ _ _ _ h1
      have l2 := ih _ _ _ h
      omega

/-! ### code lengths -/

theorem readLen_pos' (cur pos : Nat) (bits : Bits) (l p : Nat) (rest : Bits)
    (h : readLen cur pos bits = .ok (l, p, rest)) :
    p + rest.length = pos + bits.length := by
  have := readLen_pos h
  omega

theorem readLens_pos (n cur pos : Nat) (bits : Bits) (acc a : Array Nat) (p : Nat)
    (rest : Bits) (h : readLens n cur pos bits acc = .ok (a, p, rest)) :
    p + rest.length = pos + bits.length := by
  induction n generalizing cur pos bits acc with
  | zero =>
    simp only [readLens, Except.ok.injEq, Prod.mk.injEq] at h
    obtain ⟨rfl, rfl, rfl⟩ := h
    rfl
  | succ n ih =>
    simp only [readLens] at h
    split at h
    · cases h
    · rename_i len pos1 bits1 h1
      have l1 := readLen_pos' _ _ _ _ _ _ h1
      have l2 := ih _ _ _ _ h
      omega

theorem readTable_pos (alpha pos : Nat) (bits : Bits) (t : List Nat) (p : Nat) (rest : Bits)
    (h : readTable alpha pos bits = .ok (t, p, rest)) :
    p + rest.length = pos + bits.length := by
  unfold readTable at h
  split at h
  · cases h
  · rename_i st bits1 h1
    split at h
    · split at h
      · cases h
      · rename_i lens pos2 bits2 h2
        simp only [Except.ok.injEq, Prod.mk.injEq] at h
        obtain ⟨rfl, rfl, rfl⟩ := h
        have l1 := takeNat_length h1
        have l2 := readLens_pos _ _ _ _ _ _ _ _ h2
        omega
    · cases h

theorem readTables_pos (alpha n pos : Nat) (bits : Bits) (acc : Array (List Nat))
    (t : List (List Nat)) (p : Nat) (rest : Bits)
    (h : readTables alpha n pos bits acc = .ok (t, p, rest)) :
    p + rest.length = pos + bits.length := by
  induction n generalizing pos bits acc with
  | zero =>
    simp only [readTables, Except.ok.injEq, Prod.mk.injEq] at h
    obtain ⟨rfl, rfl, rfl⟩ := h
    rfl
  | succ n ih =>
    simp only [readTables] at h
    split at h
    · cases h
    · rename_i t1 pos1 bits1 h1
      have l1 := readTable_pos _ _ _ _ _ _ h1
      have l2 := ih _ _ _ h
      omega

/-! ### prefix-coded symbols -/

theorem decodeRank_pos (counts : List Nat) (code first index pos : Nat) (bits : Bits)
    (r p : Nat) (rest : Bits)
    (h : decodeRank counts code first index pos bits = .ok (r, p, rest)) :
    p + rest.length = pos + bits.length := by
  fun_induction decodeRank counts code first index pos bits with
  | case1 => cases h
  | case2 => cases h
  | case3 c counts code first index pos b bits code' hin =>
    simp only [Except.ok.injEq, Prod.mk.injEq] at h
    obtain ⟨rfl, rfl, rfl⟩ := h
    simp only [List.length_cons]
    omega
  | case4 c counts code first index pos b bits code' hnin ih =>
    have := ih h
    simp only [List.length_cons]
    omega

theorem decodeSym_pos (c : Code) (pos : Nat) (bits : Bits) (s p : Nat) (rest : Bits)
    (h : decodeSym c pos bits = .ok (s, p, rest)) :
    p + rest.length = pos + bits.length := by
  unfold decodeSym at h
  split at h
  · cases h
  · rename_i r pos1 bits1 h1
    split at h
    · cases h
    · simp only [Except.ok.injEq, Prod.mk.injEq] at h
      obtain ⟨rfl, rfl, rfl⟩ := h
      exact decodeRank_pos _ _ _ _ _ _ _ _ _ h1

theorem decodeGroup_pos (c : Code) (eob k pos : Nat) (bits : Bits) (acc : Array Nat)
    (d : Bool) (p : Nat) (rest : Bits) (a : Array Nat)
    (h : decodeGroup c eob k pos bits acc = .ok (d, p, rest, a)) :
    p + rest.length = pos + bits.length := by
  induction k generalizing pos bits acc with
  | zero =>
    simp only [decodeGroup, Except.ok.injEq, Prod.mk.injEq] at h
    obtain ⟨rfl, rfl, rfl, rfl⟩ := h
    rfl
  | succ k ih =>
    simp only [decodeGroup] at h
    split at h
    · cases h
    · rename_i s pos1 bits1 h1
      have l1 := decodeSym_pos _ _ _ _ _ _ h1
      split at h
      · simp only [Except.ok.injEq, Prod.mk.injEq] at h
        obtain ⟨rfl, rfl, rfl, rfl⟩ := h
        exact l1
      · have l2 := ih _ _ _ h
        omega

theorem decodeGroups_pos (codes : Array Code) (eob : Nat) (sels : List Nat)
    (nUsed pos : Nat) (bits : Bits) (acc : Array Nat)
    (n p : Nat) (rest : Bits) (a : Array Nat)
    (h : decodeGroups codes eob sels nUsed pos bits acc = .ok (n, p, rest, a)) :
    p + rest.length = pos + bits.length := by
  induction sels generalizing nUsed pos bits acc with
  | nil => simp [decodeGroups] at h
  | cons s sels ih =>
    simp only [decodeGroups] at h
    split at h
    · cases h
    · rename_i c hc
      split at h
      · cases h
      · split at h
        · cases h
        · rename_i pos1 bits1 acc1 h1
          simp only [Except.ok.injEq, Prod.mk.injEq] at h
          obtain ⟨rfl, rfl, rfl, rfl⟩ := h
          exact decodeGroup_pos _ _ _ _ _ _ _ _ _ _ h1
        · rename_i pos1 bits1 acc1 h1
          have l1 := decodeGroup_pos _ _ _ _ _ _ _ _ _ _ h1
          have l2 := ih _ _ _ _ h
          omega

/-! ### the whole block -/

/-- Everything `parseBlock` says about positions and the two fields it copies
    from its arguments. -/
theorem parseBlock_all (level start : Nat) (bits : Bits) (b : Block) (rest : Bits)
    (h : parseBlock level start bits = .ok (b, rest)) :
    b.endBit + rest.length = start + 48 + bits.length ∧ b.level = level ∧ b.startBit = start := by
  unfold parseBlock at h
  split at h
  · cases h
  rename_i crc bits1 h1
  split at h
  · cases h
  rename_i rnd bits2 h2
  split at h
  · cases h
  rename_i op bits3 h3
  split at h
  · cases h
  rename_i big bits4 h4
  split at h
  · cases h
  rename_i used pos5 bits5 h5
  split at h
  · cases h
  rename_i hused
  split at h
  · cases h
  rename_i ng bits6 h6
  split at h
  · cases h
  rename_i hng
  split at h
  · cases h
  rename_i ns bits7 h7
  split at h
  · cases h
  rename_i hns
  split at h
  · cases h
  rename_i selMtf pos8 bits8 h8
  split at h
  · cases h
  rename_i selectors h9
  dsimp only at h
  split at h
  · cases h
  rename_i tables pos10 bits10 h10
  split at h
  · cases h
  rename_i nUsed pos11 bits11 syms h11
  simp only [Except.ok.injEq, Prod.mk.injEq] at h
  obtain ⟨rfl, rfl⟩ := h
  have l1 := takeNat_length h1
  have l2 := takeNat_length h2
  have l3 := takeNat_length h3
  have l4 := takeNat_length h4
  have l5 := readBitmapRows_pos _ _ _ _ _ _ _ h5
  have l6 := takeNat_length h6
  have l7 := takeNat_length h7
  have l8 := readSelectorMtf_pos _ _ _ _ _ _ _ _ h8
  have l10 := readTables_pos _ _ _ _ _ _ _ _ h10
  have l11 := decodeGroups_pos _ _ _ _ _ _ _ _ _ _ _ h11
  refine ⟨?_, rfl, rfl⟩
  dsimp only
  omega

/-- `bits` are the bits AFTER the 48-bit block magic whose first bit is at offset `start`
    (so the first bit of `bits` is at offset start + 48). -/
theorem parseBlock_pos (level start : Nat) (bits : Bits) (b : Block) (rest : Bits)
    (h : parseBlock level start bits = .ok (b, rest)) :
    b.endBit + rest.length = start + 48 + bits.length :=
  (parseBlock_all level start bits b rest h).1

theorem parseBlock_fields (level start : Nat) (bits : Bits) (b : Block) (rest : Bits)
    (h : parseBlock level start bits = .ok (b, rest)) :
    b.level = level ∧ b.startBit = start :=
  (parseBlock_all level start bits b rest h).2

/-! ### the block loop -/

/-- the block loop: `pos` is the offset of the first bit of `bits` -/
theorem decodeBlocks_pos (strict : Bool) (level fuel pos : Nat) (bits : Bits) (cc : UInt32)
    (out : Array UInt8) (reps : Array BlockReport) (p : Nat) (rest : Bits) (s : Nat)
    (o : Array UInt8) (r : Array BlockReport)
    (h : decodeBlocks strict level fuel pos bits cc out reps = .ok (p, rest, s, o, r)) :
    p + rest.length = pos + bits.length := by
  fun_induction decodeBlocks strict level fuel pos bits cc out reps with
  | case1 => cases h
  | case2 => cases h
  | case3 => cases h
  | case4 => cases h
  | case5 => cases h
  | case6 =>
    rename_i hb _ _ _ _ h1 ih
    have l1 := takeNat_length h1
    have l2 := parseBlock_pos _ _ _ _ _ hb
    have l3 := ih h
    omega
  | case7 => cases h
  | case8 =>
    rename_i h1 _ h2
    have l1 := takeNat_length h1
    have l2 := takeNat_length h2
    simp only [Except.ok.injEq, Prod.mk.injEq] at h
    obtain ⟨rfl, rfl, _⟩ := h
    omega
  | case9 => cases h
  | case10 => cases h

end LbzVerif.Lemmas.ExpandPos
