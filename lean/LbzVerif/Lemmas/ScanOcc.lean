/-
  Lemmas.ScanOcc — from `findAcc 0` to the Spec notions `occursAt` /
  `firstOcc`, and the final assembly of `scan_correct`.
-/
import LbzVerif.Lemmas.ScanLoop

namespace LbzVerif.Lemmas.ScanOcc

open LbzVerif.Model.Scan LbzVerif.Spec.Scan LbzVerif.Lemmas.ScanBits
  LbzVerif.Lemmas.ScanAuto LbzVerif.Lemmas.ScanMiniTab LbzVerif.Lemmas.ScanLoop

/-- `occursAt` in suffix form. -/
theorem occursAt_iff (bits : List Bool) (i : Nat) :
    occursAt bits i ↔ 80 ≤ i ∧ i ≤ bits.length ∧ P <:+ bits.take (i - 32) := by
  unfold occursAt trailLen
  constructor
  · rintro ⟨hi, pre, post, he, hp⟩
    have hlen : i = pre.length + 48 + 32 := by
      have := congrArg List.length he
      simp [P_length, hp] at this
      omega
    refine ⟨by omega, hi, ?_⟩
    have : bits.take (i - 32) = pre ++ P := by
      have h1 : bits.take (i - 32) = (bits.take i).take (i - 32) := by
        rw [List.take_take]; congr 1; omega
      rw [h1, he, List.take_append]
      have h2 : (pre ++ P).length = i - 32 := by simp [P_length]; omega
      rw [List.take_of_length_le (by omega), h2]
      simp
    rw [this]
    exact List.suffix_append _ _
  · rintro ⟨h80, hi, pre, hpre⟩
    refine ⟨hi, pre, (bits.drop (i - 32)).take 32, ?_, ?_⟩
    · rw [hpre]
      have : bits.take i = bits.take (i - 32 + 32) := by congr 1; omega
      rw [this, List.take_add]
    · simp; omega

/-- Length of a prefix that ends with the pattern. -/
theorem suffix_len (bits : List Bool) (k : Nat) (h : P <:+ bits.take k) : 48 ≤ k := by
  have := h.length_le
  simp [P_length] at this
  omega

/-- `findAcc 0` against the Spec. -/
theorem findAcc_zero_occ (tail : List Bool) :
    match findAcc 0 tail with
    | some k =>
      if k + 32 ≤ tail.length then firstOcc tail (k + 32)
      else ∀ i, ¬ occursAt tail i
    | none => ∀ i, ¬ occursAt tail i := by
  have h := findAcc_zero tail
  cases hf : findAcc 0 tail with
  | some k =>
    rw [hf] at h
    obtain ⟨h1, h2⟩ := h
    have hk := suffix_len tail k h1
    simp only
    split
    · rename_i hfit
      refine ⟨(occursAt_iff _ _).mpr ⟨by omega, hfit, by simpa using h1⟩, ?_⟩
      intro j hj
      obtain ⟨j1, j2, j3⟩ := (occursAt_iff _ _).mp hj
      rcases Nat.lt_or_ge (j - 32) k with hlt | hge
      · exact absurd j3 (h2 _ hlt)
      · omega
    · rename_i hfit
      intro i hi
      obtain ⟨j1, j2, j3⟩ := (occursAt_iff _ _).mp hi
      rcases Nat.lt_or_ge (i - 32) k with hlt | hge
      · exact absurd j3 (h2 _ hlt)
      · omega
  | none =>
    rw [hf] at h
    simp only
    intro i hi
    obtain ⟨j1, j2, j3⟩ := (occursAt_iff _ _).mp hi
    exact h (i - 32) (by omega) j3

/-- Assembly. -/
theorem scan_correct' (bs : BS) (skip : Nat) (hc : Consistent bs) :
    (∃ i, firstOcc ((rem bs).drop (effStart bs skip)) i ∧ (scan bs skip).1 = .ok ∧
        Consistent (scan bs skip).2 ∧ (scan bs skip).2.words = bs.words ∧
        rem (scan bs skip).2 = ((rem bs).drop (effStart bs skip)).drop i) ∨
    ((∀ i, ¬ occursAt ((rem bs).drop (effStart bs skip)) i) ∧
        scan bs skip = (.more, consumed bs)) := by
  have hs := scan_spec bs skip hc
  obtain ⟨s1, s2, s3⟩ := skipPhase_spec bs skip hc
  have ho := findAcc_zero_occ ((rem bs).drop (effStart bs skip))
  have hcons : consumed (skipPhase bs skip) = consumed bs := by simp [consumed, s3]
  unfold Outcome at hs
  cases hf : findAcc 0 ((rem bs).drop (effStart bs skip)) with
  | some k =>
    rw [hf] at hs ho
    simp only at hs ho
    rw [s2] at hs
    by_cases hfit : k + 32 ≤ ((rem bs).drop (effStart bs skip)).length
    · rw [if_pos hfit] at hs ho
      obtain ⟨r1, r2, r3, r4⟩ := hs
      exact Or.inl ⟨k + 32, ho, r1, r2, by rw [r3, s3], r4⟩
    · rw [if_neg hfit] at hs ho
      exact Or.inr ⟨ho, by rw [hs, hcons]⟩
  | none =>
    rw [hf] at hs ho
    simp only at hs ho
    exact Or.inr ⟨ho, by rw [hs, hcons]⟩

end LbzVerif.Lemmas.ScanOcc
