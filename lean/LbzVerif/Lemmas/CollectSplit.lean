/-
  Lemmas.CollectSplit — `Model.collect` is the reference machine on well-formed
  states; the reference machine (hence `collect`) does not see buffer
  boundaries.
-/
import LbzVerif.Lemmas.CollectCanon

namespace LbzVerif.Model

/-- States in which `collect` may be entered (they are the states it leaves
behind, see `canon_inv`): capacity positive, run length below the maximum, and
room left in the block unless it has been declared full — in particular room
for the count byte of a run of four or more. -/
def CollectState.Inv (s : CollectState) : Prop :=
  1 ≤ s.cap ∧
  match s.rle with
  | .full => True
  | .idle => s.block.length < s.cap
  | .run r _ => 1 ≤ r ∧ r < MAX_RUN_LENGTH ∧ s.block.length < s.cap

theorem init_inv (cap : Nat) (h : 1 ≤ cap) : (init cap).Inv := by
  simp only [CollectState.Inv, init, List.length_nil]; exact ⟨h, by omega⟩

/-- `collect` in terms of the reference machine. -/
def collectCanon (s : CollectState) (buf : List UInt8) : CollectState × Nat × Bool :=
  let r := canon s.cap s.block s.rle s.crc buf
  (r.1, buf.length - r.2, r.1.rle == .full)

theorem canon_full (cap : Nat) (blk : List UInt8) (crc : UInt32) (p : List UInt8) :
    canon cap blk .full crc p = done cap blk .full crc p := by
  cases p with
  | nil => simp [canon]
  | cons x p => simp [canon, stepByte]

theorem collect_eq_canon (s : CollectState) (hs : s.Inv) (buf : List UInt8) :
    collect s buf = collectCanon s buf := by
  obtain ⟨hcap, hi⟩ := hs
  unfold collect collectCanon
  cases hr : s.rle with
  | full =>
    simp only [canon_full, done]
    cases s; simp_all
  | idle => simp only [state0_eq_canon s.cap hcap]
  | run r c =>
    rw [hr] at hi
    simp only [finishRun_eq_canon s.cap hcap c buf r s.block s.crc hi.1 hi.2.1 (fun _ => by omega)]

/-! ### basic facts about `canon` -/

theorem canon_cap (cap : Nat) (p : List UInt8) : ∀ blk rle crc,
    (canon cap blk rle crc p).1.cap = cap := by
  induction p with
  | nil => intro blk rle crc; simp only [canon]; split <;> rfl
  | cons x p ih =>
    intro blk rle crc
    simp only [canon]
    split
    · rfl
    · split
      · rfl
      · exact ih _ _ _

theorem canon_left_le (cap : Nat) (p : List UInt8) : ∀ blk rle crc,
    (canon cap blk rle crc p).2 ≤ p.length := by
  induction p with
  | nil => intro blk rle crc; simp only [canon]; split <;> simp [done]
  | cons x p ih =>
    intro blk rle crc
    simp only [canon]
    split
    · simp [done]
    · split
      · simp [done]
      · have := ih ‹_› ‹_› (crcStep crc x)
        simp only [List.length_cons]; omega

/-- not full on return ⇒ the whole buffer was consumed -/
theorem canon_notfull_left (cap : Nat) (p : List UInt8) : ∀ blk rle crc,
    (canon cap blk rle crc p).1.rle ≠ .full → (canon cap blk rle crc p).2 = 0 := by
  induction p with
  | nil => intro blk rle crc; simp only [canon]; split <;> simp [done]
  | cons x p ih =>
    intro blk rle crc
    simp only [canon]
    split
    · simp [done]
    · split
      · simp [done]
      · exact ih _ _ _

/-- run length within bounds (nothing to say for `full`/`idle`) -/
def Rle.BoundsOK : Rle → Prop
  | .run r _ => 1 ≤ r ∧ r < MAX_RUN_LENGTH
  | _ => True

theorem stepByte_next_inv (cap : Nat) (blk : List UInt8) (rle : Rle) (x : UInt8)
    (blk' : List UInt8) (rle' : Rle) (hr : rle.BoundsOK)
    (h : stepByte cap blk rle x = .next blk' rle') : rle' ≠ .full ∧ rle'.BoundsOK := by
  have hm : MAX_RUN_LENGTH = 259 := rfl
  unfold stepByte at h
  cases rle with
  | full => simp at h
  | idle =>
    simp only [Step.next.injEq] at h
    obtain ⟨_, rfl⟩ := h
    simp only [Rle.BoundsOK]; exact ⟨by simp, by omega⟩
  | run r c =>
    simp only [Rle.BoundsOK] at h hr
    split at h
    · split at h
      · split at h
        · simp at h
        · simp only [Step.next.injEq] at h
          obtain ⟨_, rfl⟩ := h
          simp only [Rle.BoundsOK]; exact ⟨by simp, by omega⟩
      · simp only [Step.next.injEq] at h
        obtain ⟨_, rfl⟩ := h
        simp only [Rle.BoundsOK]; exact ⟨by simp, by omega⟩
    · split at h
      · split at h
        · simp only [Step.next.injEq] at h
          obtain ⟨_, rfl⟩ := h
          exact ⟨by simp, trivial⟩
        · simp only [Step.next.injEq] at h
          obtain ⟨_, rfl⟩ := h
          simp only [Rle.BoundsOK]; exact ⟨by simp, by omega⟩
      · split at h
        · simp at h
        · simp only [Step.next.injEq] at h
          obtain ⟨_, rfl⟩ := h
          simp only [Rle.BoundsOK]; exact ⟨by simp, by omega⟩

/-- the state `canon` leaves behind is again well-formed -/
theorem canon_inv (cap : Nat) (hcap : 1 ≤ cap) (p : List UInt8) : ∀ blk rle crc,
    rle.BoundsOK → (canon cap blk rle crc p).1.Inv := by
  induction p with
  | nil =>
    intro blk rle crc hr
    simp only [canon]
    split
    · exact ⟨hcap, trivial⟩
    · rename_i hn
      refine ⟨hcap, ?_⟩
      simp only [done]
      cases rle with
      | full => trivial
      | idle => simp only; omega
      | run r c => simp only [Rle.BoundsOK] at hr ⊢; omega
  | cons x p ih =>
    intro blk rle crc hr
    simp only [canon]
    split
    · exact ⟨hcap, trivial⟩
    · split
      · exact ⟨hcap, trivial⟩
      · rename_i blk' rle' hstep
        exact ih _ _ _ (stepByte_next_inv cap blk rle x blk' rle' hr hstep).2

theorem inv_run_bounds (s : CollectState) (hs : s.Inv) : s.rle.BoundsOK := by
  obtain ⟨_, hi⟩ := hs
  cases hr : s.rle with
  | full => trivial
  | idle => trivial
  | run r c => rw [hr] at hi; exact ⟨hi.1, hi.2.1⟩

/-! ### buffer boundaries are invisible -/

theorem canon_append (cap : Nat) (a b : List UInt8) : ∀ blk rle crc,
    canon cap blk rle crc (a ++ b) =
      (let r := canon cap blk rle crc a
       if r.1.rle = .full then (r.1, r.2 + b.length)
       else canon cap r.1.block r.1.rle r.1.crc b) := by
  induction a with
  | nil =>
    intro blk rle crc
    simp only [List.nil_append, canon]
    by_cases hn : blk.length ≥ cap
    · simp only [hn, if_true, done, List.length_nil, Nat.zero_add]
      cases b with
      | nil => simp [canon, hn, done]
      | cons y b => simp [canon, hn, done]
    · simp only [hn, if_false, done]
      cases rle with
      | full => simp [canon_full, done]
      | idle => simp
      | run r c => simp
  | cons x a ih =>
    intro blk rle crc
    simp only [List.cons_append, canon]
    by_cases hn : blk.length ≥ cap
    · simp [hn, done]; omega
    · simp only [hn, if_false]
      cases hstep : stepByte cap blk rle x with
      | stop blk' => simp [done]; omega
      | next blk' rle' => simp only; exact ih _ _ _

/-- The split law for the reference form of `collect`. -/
theorem collectCanon_append (s : CollectState) (a b : List UInt8) :
    collectCanon s (a ++ b) =
      (let ra := collectCanon s a
       if ra.2.2 then ra
       else
         let rb := collectCanon ra.1 b
         (rb.1, ra.2.1 + rb.2.1, rb.2.2)) := by
  unfold collectCanon
  simp only [canon_append]
  by_cases hf : (canon s.cap s.block s.rle s.crc a).1.rle = .full
  · simp only [hf, if_true, beq_self_eq_true, List.length_append]
    congr 2
    omega
  · have hb : ((canon s.cap s.block s.rle s.crc a).1.rle == Rle.full) = false := by
      simpa using hf
    have h0 := canon_notfull_left s.cap a s.block s.rle s.crc hf
    have hc := canon_cap s.cap a s.block s.rle s.crc
    have hl := canon_left_le (canon s.cap s.block s.rle s.crc a).1.cap b
      (canon s.cap s.block s.rle s.crc a).1.block (canon s.cap s.block s.rle s.crc a).1.rle
      (canon s.cap s.block s.rle s.crc a).1.crc
    simp only [hf, hb, if_false, Bool.false_eq_true, hc, List.length_append, h0, Nat.sub_zero]
    rw [hc] at hl
    congr 2
    omega

theorem collect_inv (s : CollectState) (hs : s.Inv) (buf : List UInt8) :
    (collect s buf).1.Inv := by
  rw [collect_eq_canon s hs]
  exact canon_inv s.cap hs.1 buf _ _ _ (inv_run_bounds s hs)

theorem collect_append (s : CollectState) (hs : s.Inv) (a b : List UInt8) :
    collect s (a ++ b) =
      (let ra := collect s a
       if ra.2.2 then ra
       else
         let rb := collect ra.1 b
         (rb.1, ra.2.1 + rb.2.1, rb.2.2)) := by
  have hi := collect_inv s hs a
  rw [collect_eq_canon s hs] at hi ⊢
  rw [collect_eq_canon s hs a]
  simp only
  rw [collect_eq_canon _ hi]
  exact collectCanon_append s a b

theorem collect_nil (s : CollectState) (hs : s.Inv) :
    collect s [] = (s, 0, s.rle == .full) := by
  rw [collect_eq_canon s hs]
  obtain ⟨hcap, hi⟩ := hs
  unfold collectCanon
  simp only [canon]
  cases hr : s.rle with
  | full => cases s; simp_all [done]
  | idle =>
    rw [hr] at hi
    have hn : ¬ s.block.length ≥ s.cap := by simp only at hi; omega
    simp only [hn, if_false, done]
    cases s; simp_all
  | run r c =>
    rw [hr] at hi
    have hn : ¬ s.block.length ≥ s.cap := by simp only at hi; omega
    simp only [hn, if_false, done]
    cases s; simp_all

/-- Handing over buffers one by one is the same as one call on their
concatenation. -/
theorem collectMany_eq_collect_flatten (bufs : List (List UInt8)) :
    ∀ (s : CollectState), s.Inv → collectMany s bufs = collect s bufs.flatten := by
  induction bufs with
  | nil => intro s hs; simp [collectMany, collect_nil s hs]
  | cons b bs ih =>
    intro s hs
    simp only [collectMany, List.flatten_cons]
    rw [collect_append s hs]
    simp only
    split
    · rfl
    · rw [ih _ (collect_inv s hs b)]

end LbzVerif.Model
