/-
  Lemmas.SchedC.Reserve — two invariants behind deadlock freedom (both modes):

  * `SortW`: `trans_q` and `reord_q` are sorted by position (they are
    `pqueue`s), so `peek` is a minimal element;
  * `Reserve`: the reserve behind TRANSM_THRESH —
      `out_slots` + (buffers on their way to the writer) + (slot holders whose
      block is at or before `order`)  ≥  min(TRANSM_THRESH, total_out_slots);
    a block that is not the next one to be written takes an output slot only
    when more than TRANSM_THRESH are free.
-/
import LbzVerif.Lemmas.SchedC.ChainC
import LbzVerif.Lemmas.SchedC.Wake

namespace LbzVerif.Model.SchedC
open LbzVerif.Gen
set_option linter.unusedSimpArgs false

variable {α σ : Type}

/-! ### order facts about positions -/

theorem Pos.lt_asymm {p q : Pos} (h : p.lt q = true) : q.lt p = false := by
  cases hq : q.lt p with
  | false => rfl
  | true => have := Pos.lt_trans h hq; rw [Pos.lt_irrefl] at this; cases this

theorem Pos.le_of_not_lt {p q : Pos} (h : q.lt p = false) : p.le q := by
  cases p; cases q
  simp only [Pos.lt, Bool.or_eq_false_iff, Bool.and_eq_false_iff, decide_eq_false_iff_not] at h
  simp only [Pos.le, Pos.lt, Pos.mk.injEq, Bool.or_eq_true, Bool.and_eq_true, decide_eq_true_eq]
  omega

theorem Pos.not_lt_of_le {p q : Pos} (h : p.le q) : q.lt p = false := by
  rcases h with rfl | h
  · exact Pos.lt_irrefl _
  · exact Pos.lt_asymm h

theorem Pos.le_antisymm {p q : Pos} (h1 : p.le q) (h2 : q.le p) : p = q := by
  rcases h1 with e | h1
  · exact e
  · have := Pos.not_lt_of_le h2; rw [h1] at this; cases this

/-! ### sorted queues -/

/-- ascending (not necessarily strictly) by position -/
def ascW (q : List (WBlk σ)) : Prop := q.Pairwise (fun a b => b.pos.lt a.pos = false)

theorem insW_asc (w : WBlk σ) (q : List (WBlk σ)) (h : ascW q) : ascW (insW w q) := by
  induction q with
  | nil => exact List.pairwise_singleton _ _
  | cons y l ih =>
    obtain ⟨hy, hl⟩ := List.pairwise_cons.mp h
    simp only [insW]
    split
    · next hlt =>
      refine List.pairwise_cons.mpr ⟨?_, h⟩
      intro z hz
      rcases List.mem_cons.mp hz with rfl | hz
      · exact Pos.lt_asymm hlt
      · cases hzw : z.pos.lt w.pos with
        | false => rfl
        | true =>
          have := Pos.lt_trans hzw hlt
          rw [hy z hz] at this; cases this
    · next hlt =>
      refine List.pairwise_cons.mpr ⟨?_, ih hl⟩
      intro z hz
      rcases mem_insW.mp hz with rfl | hz
      · simpa using hlt
      · exact hy z hz

/-- the head of a sorted queue is minimal -/
theorem ascW_head {w : WBlk σ} {q : List (WBlk σ)} (h : ascW (w :: q)) :
    ∀ x ∈ w :: q, w.pos.le x.pos := by
  intro x hx
  rcases List.mem_cons.mp hx with rfl | hx
  · exact Pos.le_refl _
  · exact Pos.le_of_not_lt ((List.pairwise_cons.mp h).1 x hx)

structure SortW (s : State α σ) : Prop where
  tq : ascW s.transQ
  rq : ascW s.reordQ

theorem sortW_core {c : Cfg} {cd : Codec α σ} {s t : State α σ} {k : EndKind}
    (h : Core c cd s k t) (inv : SortW s) : SortW t := by
  obtain ⟨i1, i2⟩ := inv
  cases h with
  | runTransmit i w q hw hn hq hos =>
    exact ⟨by rw [hq] at i1; exact (List.pairwise_cons.mp i1).2, i2⟩
  | runReorder i w q hw hn hq =>
    exact ⟨i1, by rw [hq] at i2; exact (List.pairwise_cons.mp i2).2⟩
  | c2Enq i w hw hf => exact ⟨insW_asc w _ i1, i2⟩
  | t1Enq i w hw hf => exact ⟨i1, insW_asc w _ i2⟩
  | _ => exact ⟨i1, i2⟩

theorem sortW_ends {c : Cfg} {k : EndKind} {t s' : State α σ} (h : Ends c k t s')
    (inv : SortW t) : SortW s' := by
  cases h <;> exact ⟨inv.1, inv.2⟩

theorem sortW_reach {c : Cfg} {cd : Codec α σ} {input : List α} {s : State α σ}
    (h : Reach c cd input s) : SortW s := by
  induction h with
  | init => exact ⟨List.Pairwise.nil, List.Pairwise.nil⟩
  | step l hr hs ih =>
    obtain ⟨k, t, hc, he⟩ := step_rel hs
    exact sortW_ends he (sortW_core hc ih)

/-! ### the reserve -/

/-- the block is at or before `o` -/
def atOrBefore (o : Pos) (w : WBlk σ) : Bool := !(o.lt w.pos)

/-- 1 for a transmitting worker whose block is at or before `o` -/
def t1Ind (o : Pos) : WPhase α σ → Nat
  | .t1 w => if atOrBefore o w then 1 else 0
  | _ => 0

/-- output slots that will come back without needing another slot -/
def slotsDue (s : State α σ) : Nat :=
  s.outputQ.length + optCount s.wr + wsum (t1Ind s.order) s.ws +
    s.reordQ.countP (atOrBefore s.order)

def Reserve (c : Cfg) (s : State α σ) : Prop :=
  min TRANSM_THRESH c.totalOut ≤ s.outSlots + slotsDue s

theorem atOrBefore_mono {o o' : Pos} (h : o.lt o' = true) (w : WBlk σ)
    (hw : atOrBefore o w = true) : atOrBefore o' w = true := by
  simp only [atOrBefore, Bool.not_eq_true'] at hw ⊢
  cases h' : o'.lt w.pos with
  | false => rfl
  | true => have := Pos.lt_trans h h'; rw [hw] at this; cases this

theorem wsum_mono {f g : WPhase α σ → Nat} (h : ∀ p, f p ≤ g p) (ws : List (WPhase α σ)) :
    wsum f ws ≤ wsum g ws := by
  induction ws with
  | nil => exact Nat.le_refl _
  | cons p l ih =>
    simp only [wsum, List.map_cons, List.sum_cons] at ih ⊢
    have := h p; omega

theorem t1Ind_mono {o o' : Pos} (h : o.lt o' = true) (p : WPhase α σ) :
    t1Ind o p ≤ t1Ind o' p := by
  cases p with
  | t1 w =>
    simp only [t1Ind]
    cases hw : atOrBefore o w with
    | false => simp
    | true => simp [atOrBefore_mono h w hw]
  | _ => simp [t1Ind]

theorem countP_insW (p : WBlk σ → Bool) (w : WBlk σ) (l : List (WBlk σ)) :
    (insW w l).countP p = l.countP p + (if p w = true then 1 else 0) := by
  rw [(insW_perm w l).countP_eq, List.countP_cons]

theorem t1Ind_blind (o : Pos) : Blind (t1Ind (α := α) (σ := σ) o) := rfl

theorem reserve_init (c : Cfg) (input : List α) : Reserve c (init (σ := σ) c input) := by
  simp only [Reserve, init, initWith, reselect, slotsDue]
  omega

theorem reserve_ends {c : Cfg} {k : EndKind} {t s' : State α σ} (h : Ends c k t s')
    (inv : Reserve c t) : Reserve c s' := by
  cases h with
  | unlock hw =>
    have := wsum_wake (t1Ind_blind (α := α) (σ := σ) t.order) hw
    simp only [Reserve, slotsDue] at inv ⊢
    rw [this]; exact inv
  | resel => exact inv
  | plain => exact inv

theorem reserve_core {c : Cfg} {cd : Codec α σ} {s t : State α σ} {k : EndKind}
    (h : Core c cd s k t) (inv : Reserve c s) (sel : SelInv c s) (oi : OrderInv s) :
    Reserve c t := by
  simp only [Reserve, slotsDue] at inv ⊢
  have seti : ∀ {i : Nat} {q : WPhase α σ} (p : WPhase α σ), s.ws[i]? = some q →
      wsum (t1Ind s.order) (s.ws.set i p) + t1Ind s.order q =
        wsum (t1Ind s.order) s.ws + t1Ind s.order p :=
    fun p h => wsum_set _ s.ws _ p _ h
  cases h with
  | rTake hr hi => exact inv
  | rDeliver hr hi hl => exact inv
  | rEmpty hr hi => exact inv
  | rEof hr hl => exact inv
  | wTake b q hw hq =>
    simp only [hw, hq, optCount, List.length_cons] at inv ⊢; omega
  | wDone b hw hl =>
    simp only [hw, optCount] at inv ⊢; omega
  | acquire i hw hl =>
    have e := seti .atHead hw; simp only [t1Ind] at e
    simp only [setW]; omega
  | spurious i hw =>
    have e := seti .ready hw; simp only [t1Ind] at e
    simp only [setW]; omega
  | runWait i hw hn hf =>
    have e := seti .waiting hw; simp only [t1Ind] at e
    simp only [setW]; omega
  | runExit i hw hn hf =>
    have e := seti .exited hw; simp only [t1Ind] at e
    have b := wsum_broadcast (t1Ind_blind (α := α) (σ := σ) s.order) (s.ws.set i .exited)
    simp only []; omega
  | runCollect i ib q hw hn hq hwu =>
    have e := seti (.c1 ib) hw; simp only [t1Ind] at e
    simp only [setW]; omega
  | runCollectSeq i hw hn hg =>
    have e := seti (.s1 s.unfinished s.collQ.head?) hw; simp only [t1Ind] at e
    simp only [setW]; omega
  | runTransmit i w q hw hn hq hos =>
    have e := seti (.t1 w) hw; simp only [t1Ind] at e
    have hrdy : cCanTransmit (view c s) = true := selectTask_ready (sel.symm.trans hn)
    simp only [cCanTransmit, view, hq, headIs, Bool.and_eq_true, Bool.or_eq_true,
      decide_eq_true_eq, List.isEmpty_cons, Bool.not_false, true_and] at hrdy
    simp only [setW]
    cases hb : atOrBefore s.order w with
    | true => simp only [hb, if_true] at e; omega
    | false =>
      simp only [hb, Bool.false_eq_true, if_false] at e
      rcases hrdy with h | ⟨_, h⟩
      · omega
      · exfalso
        simp only [atOrBefore, h, Pos.lt_irrefl, Bool.not_false] at hb
        cases hb
  | runReorder i w q hw hn hq =>
    have hrdy : cCanReorder (view c s) = true := selectTask_ready (sel.symm.trans hn)
    have hpos : w.pos = s.order := by
      simp only [cCanReorder, view, hq, headIs, Bool.and_eq_true, decide_eq_true_eq] at hrdy
      exact hrdy.2
    have hok : s.order.lt w.next = true := by
      have := oi.qR w (by rw [hq]; exact List.mem_cons_self)
      rw [← hpos]; exact this
    have hwb : atOrBefore s.order w = true := by
      simp only [atOrBefore, ← hpos, Pos.lt_irrefl, Bool.not_false]
    have m1 := wsum_mono (t1Ind_mono (α := α) (σ := σ) hok) s.ws
    have m2 : q.countP (atOrBefore s.order) ≤ q.countP (atOrBefore w.next) :=
      List.countP_mono_left (fun x _ hx => atOrBefore_mono hok x hx)
    simp only [hq, List.countP_cons, hwb, if_true] at inv
    simp only [List.length_append, List.length_cons, List.length_nil]
    omega
  | c1Requeue i ib hw hl hf =>
    have e := seti (.c2 ⟨ib.pos, ib.pos.incMinor, (collectOn cd cd.init ib.data).1⟩) hw
    simp only [t1Ind] at e
    simp only [setW]; omega
  | c1Release i ib hw hl =>
    have e := seti (.c2 ⟨ib.pos, ib.pos.incMajor, (collectOn cd cd.init ib.data).1⟩) hw
    simp only [t1Ind] at e
    simp only [setW]; omega
  | c2Enq i w hw hf =>
    have e := seti .atHead hw; simp only [t1Ind] at e
    simp only [setW]; omega
  | t1Enq i w hw hf =>
    have e := seti .atHead hw; simp only [t1Ind] at e
    simp only [setW, countP_insW]; omega
  | s1Requeue i wo ib hw hl hf =>
    have e := seti (.s2 ⟨(wo.getD ⟨ib.pos, ib.pos, cd.init⟩).pos,
      (wo.getD ⟨ib.pos, ib.pos, cd.init⟩).next.incMinor,
      (collectOn cd (wo.getD ⟨ib.pos, ib.pos, cd.init⟩).enc ib.data).1⟩
      (collectOn cd (wo.getD ⟨ib.pos, ib.pos, cd.init⟩).enc ib.data).2.2) hw
    simp only [t1Ind] at e
    simp only [setW]; omega
  | s1Release i wo ib hw hl =>
    have e := seti (.s2 ⟨(wo.getD ⟨ib.pos, ib.pos, cd.init⟩).pos,
      (wo.getD ⟨ib.pos, ib.pos, cd.init⟩).next.incMajor,
      (collectOn cd (wo.getD ⟨ib.pos, ib.pos, cd.init⟩).enc ib.data).1⟩
      (collectOn cd (wo.getD ⟨ib.pos, ib.pos, cd.init⟩).enc ib.data).2.2) hw
    simp only [t1Ind] at e
    simp only [setW]; omega
  | s1Flush i w hw hf =>
    have e := seti (.c2 w) hw; simp only [t1Ind] at e
    simp only [setW]; omega
  | s2Full i w hw hf =>
    have e := seti (.c2 w) hw; simp only [t1Ind] at e
    simp only [setW]; omega
  | s2Part i w hw hf =>
    have e := seti .atHead hw; simp only [t1Ind] at e
    simp only [setW]; omega

theorem reserve_reach {c : Cfg} {cd : Codec α σ} {input : List α} {s : State α σ}
    (h : Reach c cd input s) : Reserve c s := by
  induction h with
  | init => exact reserve_init c input
  | step l hr hs ih =>
    obtain ⟨k, t, hc, he⟩ := step_rel hs
    exact reserve_ends he (reserve_core hc ih (inv1_reach hr).sel (order_reach hr))

end LbzVerif.Model.SchedC
