/-
  Lemmas.SchedC.ShapeS — shape invariant of SEQUENTIAL mode (`ultra = true`):
  `coll_q` is strictly sorted by chunk number, every queued / held in_blk is
  older than the chunks still to be read, the in_blk held by the token holder
  is older than everything queued (so re-queuing puts it back at the head), and
  the flush path of `do_collect_seq` (`iblk == NULL`) is only taken when
  nothing is left to collect.
-/
import LbzVerif.Lemmas.SchedC.OutputN

namespace LbzVerif.Model.SchedC
open LbzVerif.Gen

variable {α σ : Type}

/-! ### the token holder is unique -/

theorem tok_unique {ws : List (WPhase α σ)} {i : Nat} {q : WPhase α σ}
    (hs : (ws.map WPhase.tok).sum ≤ 1) (hi : ws[i]? = some q) (hq : q.tok = 1)
    (r : WPhase α σ) : ∀ p ∈ ws.set i r, p = r ∨ p.tok = 0 := by
  intro p hp
  have e := wsum_set WPhase.tok ws i .ready q hi
  simp only [wsum] at e
  rw [hq] at e
  have hr0 : WPhase.tok (WPhase.ready : WPhase α σ) = 0 := rfl
  rw [hr0] at e
  have h0 : ((ws.set i .ready).map WPhase.tok).sum = 0 := by omega
  have hset : ws.set i r = (ws.set i .ready).set i r := by simp
  rw [hset] at hp
  rcases mem_set' hp with h | h
  · exact .inl h
  · right
    have := mem_le_wsum WPhase.tok h
    omega

theorem tok_zero_of_token {ws : List (WPhase α σ)} (hs : (ws.map WPhase.tok).sum = 0) :
    ∀ p ∈ ws, p.tok = 0 := by
  intro p hp
  have := mem_le_wsum WPhase.tok hp
  omega

/-! ### `insI` at the two ends -/

theorem insI_last (x : IBlk α) (l : List (IBlk α)) (h : ∀ y ∈ l, x.pos.lt y.pos = false) :
    insI x l = l ++ [x] := by
  induction l with
  | nil => rfl
  | cons y l ih =>
    simp only [insI, h y List.mem_cons_self, Bool.false_eq_true, if_false, List.cons_append]
    rw [ih (fun z hz => h z (List.mem_cons_of_mem _ hz))]

theorem insI_first (x : IBlk α) (l : List (IBlk α)) (h : ∀ y ∈ l, x.pos.lt y.pos = true) :
    insI x l = x :: l := by
  cases l with
  | nil => rfl
  | cons y l => simp only [insI, h y List.mem_cons_self, if_true]

/-! ### the invariant -/

structure ShapeS (s : State α σ) : Prop where
  noC1 : ∀ p ∈ s.ws, ∀ ib, p ≠ .c1 ib
  sorted : s.collQ.Pairwise (fun a b => a.pos.major < b.pos.major)
  qLt : ∀ ib ∈ s.collQ, ib.pos.major < s.nextId
  held : ∀ p ∈ s.ws, ∀ wo ib, p = .s1 wo (some ib) →
    ib.pos.major < s.nextId ∧ ∀ jb ∈ s.collQ, ib.pos.major < jb.pos.major
  flush : ∀ p ∈ s.ws, ∀ wo, p = .s1 wo none → s.eof = true ∧ s.collQ = []

theorem shapeS_init (c : Cfg) (input : List α) : ShapeS (init (σ := σ) c input) := by
  have hm : ∀ p ∈ (init (σ := σ) c input).ws, p = .ready := by
    intro p hp
    simp only [init, initWith, reselect, List.mem_replicate] at hp
    exact hp.2
  refine ⟨?_, ?_, ?_, ?_, ?_⟩
  · intro p hp ib h; rw [hm p hp] at h; cases h
  · simp [init, initWith, reselect]
  · intro ib h; simp [init, initWith, reselect] at h
  · intro p hp wo ib h; rw [hm p hp] at h; cases h
  · intro p hp wo h; rw [hm p hp] at h; cases h

theorem shapeS_ends {c : Cfg} {k : EndKind} {t s' : State α σ} (h : Ends c k t s')
    (inv : ShapeS t) : ShapeS s' := by
  cases h with
  | unlock hw =>
    refine ⟨?_, inv.2, inv.3, ?_, ?_⟩
    · intro p hp ib h
      rcases mem_wake hw hp with rfl | hm
      · cases h
      · exact inv.1 p hm ib h
    · intro p hp wo ib h
      rcases mem_wake hw hp with rfl | hm
      · cases h
      · exact inv.4 p hm wo ib h
    · intro p hp wo h
      rcases mem_wake hw hp with rfl | hm
      · cases h
      · exact inv.5 p hm wo h
  | resel => exact ⟨inv.1, inv.2, inv.3, inv.4, inv.5⟩
  | plain => exact inv

section
variable {c : Cfg} {cd : Codec α σ} {s t : State α σ} {k : EndKind}

/-- a phase that is neither `c1` nor `s1` -/
def WPhase.plainPh : WPhase α σ → Prop
  | .c1 _ | .s1 _ _ => False
  | _ => True

/-- replacing worker `i`'s phase by a plain one keeps the three per-worker
    clauses -/
theorem shapeS_set_plain {ws : List (WPhase α σ)} {nextId : Nat} {eof : Bool}
    {q : List (IBlk α)}
    (h1 : ∀ p ∈ ws, ∀ ib, p ≠ .c1 ib)
    (h4 : ∀ p ∈ ws, ∀ wo ib, p = .s1 wo (some ib) →
      ib.pos.major < nextId ∧ ∀ jb ∈ q, ib.pos.major < jb.pos.major)
    (h5 : ∀ p ∈ ws, ∀ wo, p = .s1 wo none → eof = true ∧ q = [])
    (i : Nat) (r : WPhase α σ) (hr : r.plainPh) :
    (∀ p ∈ ws.set i r, ∀ ib, p ≠ .c1 ib) ∧
    (∀ p ∈ ws.set i r, ∀ wo ib, p = .s1 wo (some ib) →
      ib.pos.major < nextId ∧ ∀ jb ∈ q, ib.pos.major < jb.pos.major) ∧
    (∀ p ∈ ws.set i r, ∀ wo, p = .s1 wo none → eof = true ∧ q = []) := by
  refine ⟨?_, ?_, ?_⟩
  · intro p hp ib h
    rcases mem_set' hp with rfl | hm
    · subst h; exact hr
    · exact h1 p hm ib h
  · intro p hp wo ib h
    rcases mem_set' hp with rfl | hm
    · subst h; exact absurd hr (by simp [WPhase.plainPh])
    · exact h4 p hm wo ib h
  · intro p hp wo h
    rcases mem_set' hp with rfl | hm
    · subst h; exact absurd hr (by simp [WPhase.plainPh])
    · exact h5 p hm wo h

theorem shapeS_core (hu : c.ultra = true) (h : Core c cd s k t)
    (inv : ShapeS s) (cons : Conserved c s) (sel : SelInv c s) (rdi : ReaderInv s) :
    ShapeS t := by
  obtain ⟨i1, i2, i3, i4, i5⟩ := inv
  have htok := cons.token
  cases h with
  | rTake hr hi => exact ⟨i1, i2, i3, i4, i5⟩
  | rDeliver hr hi hl =>
    have hlast : insI ⟨⟨s.nextId, 0⟩, s.input.take c.inGranul⟩ s.collQ =
        s.collQ ++ [⟨⟨s.nextId, 0⟩, s.input.take c.inGranul⟩] := by
      apply insI_last
      intro y hy
      have := i3 y hy
      simp only [Pos.lt, Bool.or_eq_false_iff, Bool.and_eq_false_iff, decide_eq_false_iff_not]
      omega
    refine ⟨i1, ?_, ?_, ?_, ?_⟩
    · show (insI _ s.collQ).Pairwise _
      rw [hlast, List.pairwise_append]
      refine ⟨i2, List.pairwise_singleton _ _, ?_⟩
      intro a ha b hb
      simp only [List.mem_singleton] at hb; subst hb
      exact i3 a ha
    · intro ib hib
      show ib.pos.major < s.nextId + 1
      rcases mem_insI.mp hib with rfl | h
      · show s.nextId < s.nextId + 1; omega
      · have := i3 ib h; omega
    · intro p hp wo ib h
      obtain ⟨a, b⟩ := i4 p hp wo ib h
      refine ⟨by show ib.pos.major < s.nextId + 1; omega, ?_⟩
      intro jb hjb
      rcases mem_insI.mp hjb with rfl | h'
      · exact a
      · exact b jb h'
    · intro p hp wo h
      have he := (i5 p hp wo h).1
      have := rdi.eofDone he
      rw [hr] at this; cases this
  | rEmpty hr hi => exact ⟨i1, i2, i3, i4, i5⟩
  | rEof hr hl =>
    refine ⟨i1, i2, i3, i4, ?_⟩
    intro p hp wo h
    exact ⟨rfl, (i5 p hp wo h).2⟩
  | wTake b q hw hq => exact ⟨i1, i2, i3, i4, i5⟩
  | wDone b hw hl => exact ⟨i1, i2, i3, i4, i5⟩
  | runReorder i w q hw hn hq => exact ⟨i1, i2, i3, i4, i5⟩
  | acquire i hw hl =>
    obtain ⟨a, b, d⟩ := shapeS_set_plain i1 i4 i5 i .atHead trivial
    exact ⟨a, i2, i3, b, d⟩
  | spurious i hw =>
    obtain ⟨a, b, d⟩ := shapeS_set_plain i1 i4 i5 i .ready trivial
    exact ⟨a, i2, i3, b, d⟩
  | runWait i hw hn hf =>
    obtain ⟨a, b, d⟩ := shapeS_set_plain i1 i4 i5 i .waiting trivial
    exact ⟨a, i2, i3, b, d⟩
  | runExit i hw hn hf =>
    obtain ⟨a, b, d⟩ := shapeS_set_plain i1 i4 i5 i .exited trivial
    refine ⟨?_, i2, i3, ?_, ?_⟩
    · intro p hp ib h
      rcases mem_broadcast hp with rfl | hm
      · cases h
      · exact a p hm ib h
    · intro p hp wo ib h
      rcases mem_broadcast hp with rfl | hm
      · cases h
      · exact b p hm wo ib h
    · intro p hp wo h
      rcases mem_broadcast hp with rfl | hm
      · cases h
      · exact d p hm wo h
  | runCollect i ib q hw hn hq hwu =>
    have hrdy : cCanCollect (view c s) = true := selectTask_ready (sel.symm.trans hn)
    simp [cCanCollect, view, hu] at hrdy
  | runTransmit i w q hw hn hq hos =>
    obtain ⟨a, b, d⟩ := shapeS_set_plain i1 i4 i5 i (.t1 w) trivial
    exact ⟨a, i2, i3, b, d⟩
  | c1Requeue i ib hw hl hf => exact absurd rfl (i1 _ (List.mem_of_getElem? hw) ib)
  | c1Release i ib hw hl => exact absurd rfl (i1 _ (List.mem_of_getElem? hw) ib)
  | c2Enq i w hw hf =>
    obtain ⟨a, b, d⟩ := shapeS_set_plain i1 i4 i5 i .atHead trivial
    exact ⟨a, i2, i3, b, d⟩
  | t1Enq i w hw hf =>
    obtain ⟨a, b, d⟩ := shapeS_set_plain i1 i4 i5 i .atHead trivial
    exact ⟨a, i2, i3, b, d⟩
  | runCollectSeq i hw hn hg =>
    have hrdy : cCanCollectSeq (view c s) = true := selectTask_ready (sel.symm.trans hn)
    simp only [cCanCollectSeq, view, Bool.and_eq_true, Bool.or_eq_true, Bool.not_eq_true',
      List.isEmpty_eq_false_iff] at hrdy
    have htk : s.collectToken = true := hrdy.1.1.2
    have hsum : (s.ws.map WPhase.tok).sum = 0 := by
      rw [htk] at htok; simp only [boolCount] at htok; omega
    have hz := tok_zero_of_token hsum
    refine ⟨?_, ?_, ?_, ?_, ?_⟩
    · intro p hp ib h
      rcases mem_set' hp with rfl | hm
      · cases h
      · exact i1 p hm ib h
    · show s.collQ.tail.Pairwise _
      exact i2.tail
    · intro ib hib; exact i3 ib (List.mem_of_mem_tail hib)
    · intro p hp wo ib h
      rcases mem_set' hp with rfl | hm
      · simp only [WPhase.s1.injEq] at h
        obtain ⟨_, hh⟩ := h
        cases hq : s.collQ with
        | nil => rw [hq] at hh; cases hh
        | cons y l =>
          rw [hq] at hh
          simp only [List.head?_cons, Option.some.injEq] at hh
          subst hh
          refine ⟨i3 _ (by rw [hq]; exact List.mem_cons_self), ?_⟩
          intro jb hjb
          show _ < _
          rw [hq] at i2
          simp only [List.tail_cons] at hjb
          exact (List.pairwise_cons.mp i2).1 jb hjb
      · have := hz p hm; subst h; simp [WPhase.tok] at this
    · intro p hp wo h
      rcases mem_set' hp with rfl | hm
      · simp only [WPhase.s1.injEq] at h
        obtain ⟨_, hh⟩ := h
        cases hq : s.collQ with
        | cons y l => rw [hq] at hh; cases hh
        | nil =>
          refine ⟨?_, rfl⟩
          rcases hrdy.1.2 with h' | h'
          · exact absurd hq h'
          · exact h'.1
      · have := hz p hm; subst h; simp [WPhase.tok] at this
  | s1Requeue i wo ib hw hl hf =>
    have hsum : (s.ws.map WPhase.tok).sum ≤ 1 := by omega
    have huniq := tok_unique hsum hw rfl
    obtain ⟨hlt, hall⟩ := i4 _ (List.mem_of_getElem? hw) wo ib rfl
    have hfirst : insI ⟨ib.pos.incMinor,
        (collectOn cd (wo.getD ⟨ib.pos, ib.pos, cd.init⟩).enc ib.data).2.1⟩ s.collQ =
        ⟨ib.pos.incMinor, (collectOn cd (wo.getD ⟨ib.pos, ib.pos, cd.init⟩).enc ib.data).2.1⟩ ::
          s.collQ := by
      apply insI_first
      intro y hy
      have := hall y hy
      simp only [Pos.lt, Pos.incMinor, Bool.or_eq_true, decide_eq_true_eq]
      exact .inl (decide_eq_true this)
    refine ⟨?_, ?_, ?_, ?_, ?_⟩
    · intro p hp ib' h
      rcases mem_set' hp with rfl | hm
      · cases h
      · exact i1 p hm ib' h
    · show (insI _ s.collQ).Pairwise _
      rw [hfirst]
      exact List.pairwise_cons.mpr ⟨fun y hy => hall y hy, i2⟩
    · intro jb hjb
      rcases mem_insI.mp hjb with rfl | h
      · exact hlt
      · exact i3 jb h
    · intro p hp wo' ib' h
      rcases huniq _ p hp with rfl | h0
      · cases h
      · subst h; simp [WPhase.tok] at h0
    · intro p hp wo' h
      rcases huniq _ p hp with rfl | h0
      · cases h
      · subst h; simp [WPhase.tok] at h0
  | s1Release i wo ib hw hl =>
    obtain ⟨a, b, d⟩ := shapeS_set_plain i1 i4 i5 i
      (.s2 ⟨(wo.getD ⟨ib.pos, ib.pos, cd.init⟩).pos,
            (wo.getD ⟨ib.pos, ib.pos, cd.init⟩).next.incMajor,
            (collectOn cd (wo.getD ⟨ib.pos, ib.pos, cd.init⟩).enc ib.data).1⟩
           (collectOn cd (wo.getD ⟨ib.pos, ib.pos, cd.init⟩).enc ib.data).2.2) trivial
    exact ⟨a, i2, i3, b, d⟩
  | s1Flush i w hw hf =>
    obtain ⟨a, b, d⟩ := shapeS_set_plain i1 i4 i5 i (.c2 w) trivial
    exact ⟨a, i2, i3, b, d⟩
  | s2Full i w hw hf =>
    obtain ⟨a, b, d⟩ := shapeS_set_plain i1 i4 i5 i (.c2 w) trivial
    exact ⟨a, i2, i3, b, d⟩
  | s2Part i w hw hf =>
    obtain ⟨a, b, d⟩ := shapeS_set_plain i1 i4 i5 i .atHead trivial
    exact ⟨a, i2, i3, b, d⟩

end

theorem shapeS_reach {c : Cfg} {cd : Codec α σ} {input : List α} {s : State α σ}
    (hu : c.ultra = true) (h : Reach c cd input s) : ShapeS s := by
  induction h with
  | init => exact shapeS_init c input
  | step l hr hs ih =>
    obtain ⟨k, t, hc, he⟩ := step_rel hs
    exact shapeS_ends he
      (shapeS_core hu hc ih (inv1_reach hr).cons (inv1_reach hr).sel (reader_reach hr))

end LbzVerif.Model.SchedC
