/-
  Lemmas.SchedC.OutputS — SEQUENTIAL mode (`ultra = true`): the multiset of
  blocks "handed over + in flight + still to be made by `do_collect_seq` from
  the pending encoder, the in_blk being collected, `coll_q` and the unread
  input" is always the canonical block list `seqBlocks none (cutChunks …)`.
-/
import LbzVerif.Lemmas.SchedC.ShapeS

namespace LbzVerif.Model.SchedC
open LbzVerif.Gen
set_option linter.unusedSimpArgs false

variable {α σ : Type}

/-! ### unfolding `seqBlocks` -/

theorem seqBlocks_nil (cd : Codec α σ) (cur : Option (WBlk σ)) :
    seqBlocks cd cur [] = cur.toList := by
  rw [seqBlocks.eq_def]; cases cur <;> rfl

/-- for a `Codec.OK` collector, an in_blk that is not exhausted means the block
    is full and (if the encoder was fresh) some bytes were taken: the `else []`
    branch of `seqBlocks` is dead -/
theorem requeue_cond (cd : Codec α σ) (ok : cd.OK) (wo : Option (WBlk σ)) (ib : IBlk α)
    (hl : (collectOn cd (wo.getD ⟨ib.pos, ib.pos, cd.init⟩).enc ib.data).2.1 ≠ []) :
    (collectOn cd (wo.getD ⟨ib.pos, ib.pos, cd.init⟩).enc ib.data).2.2 = true ∧
    ((collectOn cd (wo.getD ⟨ib.pos, ib.pos, cd.init⟩).enc ib.data).2.1.length <
      ib.data.length ∨ wo.isSome = true) := by
  have hfull : (collectOn cd (wo.getD ⟨ib.pos, ib.pos, cd.init⟩).enc ib.data).2.2 = true := by
    cases hh : (collectOn cd (wo.getD ⟨ib.pos, ib.pos, cd.init⟩).enc ib.data).2.2 with
    | true => rfl
    | false =>
      exfalso
      have := ok.notFull (wo.getD ⟨ib.pos, ib.pos, cd.init⟩).enc ib.data
        (by simpa [collectOn] using hh)
      apply hl
      simp only [collectOn]
      exact List.drop_eq_nil_of_le this
  have hd : ib.data ≠ [] := by
    intro h0; apply hl; simp [collectOn, h0]
  refine ⟨hfull, ?_⟩
  cases wo with
  | some w => right; rfl
  | none =>
    left
    have h1 := ok.fresh ib.data hd
    have : 0 < ib.data.length := List.length_pos_iff.mpr hd
    simp only [Option.getD_none, collectOn, List.length_drop]
    omega

/-- the in_blk is not exhausted: (for a `Codec.OK` collector) the block is
    full, it is emitted, and the rest of the in_blk is collected next -/
theorem seqBlocks_requeue (cd : Codec α σ) (ok : cd.OK) (wo : Option (WBlk σ)) (ib : IBlk α)
    (Q : List (IBlk α))
    (hl : (collectOn cd (wo.getD ⟨ib.pos, ib.pos, cd.init⟩).enc ib.data).2.1 ≠ []) :
    (collectOn cd (wo.getD ⟨ib.pos, ib.pos, cd.init⟩).enc ib.data).2.2 = true ∧
    seqBlocks cd wo (ib :: Q) =
      ⟨(wo.getD ⟨ib.pos, ib.pos, cd.init⟩).pos, (wo.getD ⟨ib.pos, ib.pos, cd.init⟩).next.incMinor,
        (collectOn cd (wo.getD ⟨ib.pos, ib.pos, cd.init⟩).enc ib.data).1⟩ ::
      seqBlocks cd none
        (⟨ib.pos.incMinor, (collectOn cd (wo.getD ⟨ib.pos, ib.pos, cd.init⟩).enc ib.data).2.1⟩ :: Q) := by
  obtain ⟨hfull, hcond⟩ := requeue_cond cd ok wo ib hl
  refine ⟨hfull, ?_⟩
  rw [seqBlocks]
  simp only [hl, hfull, hcond, ne_eq, not_false_eq_true, and_self, ↓reduceDIte, ↓reduceIte]

/-- the in_blk is exhausted: the block is emitted if full, else stays pending -/
theorem seqBlocks_release (cd : Codec α σ) (wo : Option (WBlk σ)) (ib : IBlk α)
    (Q : List (IBlk α))
    (hl : (collectOn cd (wo.getD ⟨ib.pos, ib.pos, cd.init⟩).enc ib.data).2.1 = []) :
    seqBlocks cd wo (ib :: Q) =
      if (collectOn cd (wo.getD ⟨ib.pos, ib.pos, cd.init⟩).enc ib.data).2.2 = true then
        ⟨(wo.getD ⟨ib.pos, ib.pos, cd.init⟩).pos, (wo.getD ⟨ib.pos, ib.pos, cd.init⟩).next.incMajor,
          (collectOn cd (wo.getD ⟨ib.pos, ib.pos, cd.init⟩).enc ib.data).1⟩ :: seqBlocks cd none Q
      else
        seqBlocks cd (some ⟨(wo.getD ⟨ib.pos, ib.pos, cd.init⟩).pos,
          (wo.getD ⟨ib.pos, ib.pos, cd.init⟩).next.incMajor,
          (collectOn cd (wo.getD ⟨ib.pos, ib.pos, cd.init⟩).enc ib.data).1⟩) Q := by
  rw [seqBlocks]
  simp only [hl, ne_eq, not_true_eq_false, ↓reduceIte]

/-! ### what each phase stands for -/

/-- in_blks still to be collected, in collection order -/
def pendQ (c : Cfg) (s : State α σ) : List (IBlk α) := s.collQ ++ future c s

/-- blocks a worker phase stands for, given the pending in_blks `Q` -/
def remP (cd : Codec α σ) (Q : List (IBlk α)) : WPhase α σ → List (WBlk σ)
  | .s1 wo (some ib) => seqBlocks cd wo (ib :: Q)
  | .s1 wo none => wo.toList
  | .s2 w true => w :: seqBlocks cd none Q
  | .s2 w false => seqBlocks cd (some w) Q
  | .c2 w | .t1 w => [w]
  | _ => []

/-- blocks the free token stands for -/
def remT (cd : Codec α σ) (Q : List (IBlk α)) : Bool → Option (WBlk σ) → List (WBlk σ)
  | true, unf => seqBlocks cd unf Q
  | false, _ => []

noncomputable def cntS (cd : Codec α σ) (Q : List (IBlk α)) (x : WBlk σ)
    (ws : List (WPhase α σ)) : Nat :=
  wsum (fun p => cnt x (remP cd Q p)) ws

theorem cntS_set (cd : Codec α σ) (Q : List (IBlk α)) (x : WBlk σ) {ws : List (WPhase α σ)}
    {i : Nat} {q : WPhase α σ} (p : WPhase α σ) (h : ws[i]? = some q) :
    cntS cd Q x (ws.set i p) + cnt x (remP cd Q q) = cntS cd Q x ws + cnt x (remP cd Q p) :=
  wsum_set (fun p => cnt x (remP cd Q p)) ws i p q h

theorem cntS_wake (cd : Codec α σ) (Q : List (IBlk α)) (x : WBlk σ) {ws ws' : List (WPhase α σ)}
    (h : Wake ws ws') : cntS cd Q x ws' = cntS cd Q x ws :=
  wsum_wake (f := fun p => cnt x (remP cd Q p)) rfl h

theorem cntS_broadcast (cd : Codec α σ) (Q : List (IBlk α)) (x : WBlk σ)
    (ws : List (WPhase α σ)) : cntS cd Q x (broadcast ws) = cntS cd Q x ws :=
  wsum_broadcast (f := fun p => cnt x (remP cd Q p)) rfl ws

/-- only the token holder's contribution depends on the pending in_blks -/
theorem cntS_indep (cd : Codec α σ) (Q Q' : List (IBlk α)) (x : WBlk σ)
    (ws : List (WPhase α σ)) (h : ∀ p ∈ ws, p.tok = 0) : cntS cd Q x ws = cntS cd Q' x ws := by
  induction ws with
  | nil => rfl
  | cons p l ih =>
    have hp := h p List.mem_cons_self
    have hl := ih (fun q hq => h q (List.mem_cons_of_mem _ hq))
    simp only [cntS, wsum, List.map_cons, List.sum_cons] at hl ⊢
    rw [hl]
    cases p <;> simp [WPhase.tok] at hp <;> simp [remP]

/-- … so when worker `i` holds the token, the others' contributions do not
    depend on `Q` -/
theorem cntS_move (cd : Codec α σ) (Q Q' : List (IBlk α)) (x : WBlk σ)
    {ws : List (WPhase α σ)} {i : Nat} {q : WPhase α σ} (p : WPhase α σ)
    (hs : (ws.map WPhase.tok).sum ≤ 1) (hi : ws[i]? = some q) (hq : q.tok = 1) :
    cntS cd Q' x (ws.set i p) + cnt x (remP cd Q q) = cntS cd Q x ws + cnt x (remP cd Q' p) := by
  have e1 := cntS_set cd Q x .ready hi
  have hi' : (ws.set i .ready)[i]? = some .ready := by
    have hlt : i < ws.length := by
      rcases Nat.lt_or_ge i ws.length with h | h
      · exact h
      · rw [List.getElem?_eq_none h] at hi; cases hi
    simp [hlt]
  have e2 := cntS_set cd Q' x p hi'
  have hz : ∀ r ∈ ws.set i .ready, r.tok = 0 := by
    intro r hr
    rcases tok_unique hs hi hq .ready r hr with rfl | h
    · rfl
    · exact h
  have e3 := cntS_indep cd Q Q' x _ hz
  simp only [List.set_set] at e2
  have hr0 : ∀ Q, cnt x (remP cd Q (WPhase.ready : WPhase α σ)) = 0 := fun _ => rfl
  rw [hr0] at e1 e2
  simp only [cntS] at e1 e2 e3 ⊢
  omega

/-! ### the counting invariant -/

def OutS (c : Cfg) (cd : Codec α σ) (input : List α) (s : State α σ) : Prop :=
  ∀ x, cnt x s.handed + cnt x s.transQ + cnt x s.reordQ + cntS cd (pendQ c s) x s.ws +
      cnt x (remT cd (pendQ c s) s.collectToken s.unfinished) = cnt x (canon c cd input)

theorem outS_init (c : Cfg) (cd : Codec α σ) (input : List α) (hu : c.ultra = true) :
    OutS c cd input (init c input) := by
  intro x
  have hw : ∀ Q, cntS cd Q x (List.replicate c.n (WPhase.ready : WPhase α σ)) = 0 :=
    fun Q => replicate_sum0 (fun p => cnt x (remP cd Q p)) c.n rfl
  simp only [init, initWith, reselect, pendQ, future, canon, hu, cnt, hw, remT, if_true,
    List.nil_append]
  omega

theorem outS_ends {c : Cfg} {cd : Codec α σ} {input : List α} {k : EndKind} {t s' : State α σ}
    (h : Ends c k t s') (inv : OutS c cd input t) : OutS c cd input s' := by
  cases h with
  | unlock hw =>
    intro x; have := inv x
    simpa [pendQ, future, remT, cntS_wake cd _ x hw] using this
  | resel => exact inv
  | plain => exact inv

section
variable {c : Cfg} {cd : Codec α σ} {input : List α} {s t : State α σ} {k : EndKind}

theorem outS_core (ok : cd.OK) (hu : c.ultra = true) (hg : 0 < c.inGranul)
    (h : Core c cd s k t) (sh : ShapeS s) (cons : Conserved c s) (sel : SelInv c s)
    (rdi : ReaderInv s) (inv : OutS c cd input s) : OutS c cd input t := by
  intro x
  have I := inv x
  have htok := cons.token
  have hsum : (s.ws.map WPhase.tok).sum ≤ 1 := by omega
  cases h with
  | rTake hr hi => exact I
  | rDeliver hr hi hl =>
    have hf : future c s = ⟨⟨s.nextId, 0⟩, s.input.take c.inGranul⟩ ::
        cutChunks c.inGranul (s.nextId + 1) (s.input.drop c.inGranul) :=
      cutChunks_cons _ _ _ hi hg
    have hlast : insI ⟨⟨s.nextId, 0⟩, s.input.take c.inGranul⟩ s.collQ =
        s.collQ ++ [⟨⟨s.nextId, 0⟩, s.input.take c.inGranul⟩] := by
      apply insI_last
      intro y hy
      have := sh.qLt y hy
      simp only [Pos.lt, Bool.or_eq_false_iff, Bool.and_eq_false_iff, decide_eq_false_iff_not]
      omega
    have hQ : insI ⟨⟨s.nextId, 0⟩, s.input.take c.inGranul⟩ s.collQ ++
        cutChunks c.inGranul (s.nextId + 1) (s.input.drop c.inGranul) = pendQ c s := by
      rw [hlast, pendQ, hf]; simp
    simp only [pendQ, future, remT] at I ⊢
    simp only [pendQ, future] at hQ
    rw [hQ]
    exact I
  | rEmpty hr hi => exact I
  | rEof hr hl => exact I
  | wTake b q hw hq => exact I
  | wDone b hw hl => exact I
  | runReorder i w q hw hn hq =>
    simp only [hq, cnt] at I
    simp only [pendQ, future, remT, cnt_append, cnt] at I ⊢
    omega
  | acquire i hw hl =>
    have e := cntS_set cd (pendQ c s) x (.atHead) hw
    simp only [remP, cnt] at e
    simp only [setW, pendQ, future, remT] at I e ⊢
    omega
  | spurious i hw =>
    have e := cntS_set cd (pendQ c s) x (.ready) hw
    simp only [remP, cnt] at e
    simp only [setW, pendQ, future, remT] at I e ⊢
    omega
  | runWait i hw hn hf =>
    have e := cntS_set cd (pendQ c s) x (.waiting) hw
    simp only [remP, cnt] at e
    simp only [setW, pendQ, future, remT] at I e ⊢
    omega
  | runExit i hw hn hf =>
    have e := cntS_set cd (pendQ c s) x .exited hw
    simp only [remP, cnt] at e
    simp only [pendQ, future, remT, cntS_broadcast] at I e ⊢
    omega
  | runCollect i ib q hw hn hq hwu =>
    have hrdy : cCanCollect (view c s) = true := selectTask_ready (sel.symm.trans hn)
    simp [cCanCollect, view, hu] at hrdy
  | runTransmit i w q hw hn hq hos =>
    have e := cntS_set cd (pendQ c s) x (.t1 w) hw
    simp only [remP, cnt] at e
    simp only [hq, cnt] at I
    simp only [setW, pendQ, future, remT, cnt] at I e ⊢
    omega
  | c1Requeue i ib hw hl hf => exact absurd rfl (sh.noC1 _ (List.mem_of_getElem? hw) ib)
  | c1Release i ib hw hl => exact absurd rfl (sh.noC1 _ (List.mem_of_getElem? hw) ib)
  | c2Enq i w hw hf =>
    have e := cntS_set cd (pendQ c s) x .atHead hw
    simp only [remP, cnt] at e
    simp only [setW, pendQ, future, remT, cnt_insW, cnt] at I e ⊢
    omega
  | t1Enq i w hw hf =>
    have e := cntS_set cd (pendQ c s) x .atHead hw
    simp only [remP, cnt] at e
    simp only [setW, pendQ, future, remT, cnt_insW, cnt] at I e ⊢
    omega
  | runCollectSeq i hw hn hg' =>
    have hrdy : cCanCollectSeq (view c s) = true := selectTask_ready (sel.symm.trans hn)
    simp only [cCanCollectSeq, view, Bool.and_eq_true, Bool.or_eq_true, Bool.not_eq_true',
      List.isEmpty_eq_false_iff] at hrdy
    have htk : s.collectToken = true := hrdy.1.1.2
    have hsum0 : (s.ws.map WPhase.tok).sum = 0 := by
      rw [htk] at htok; simp only [boolCount] at htok; omega
    have hz := tok_zero_of_token hsum0
    cases hq : s.collQ with
    | cons ib q =>
      -- the head of `coll_q` is collected next
      have hz' : ∀ p ∈ s.ws.set i (.s1 s.unfinished (some ib)), p = .s1 s.unfinished (some ib) ∨
          p.tok = 0 := by
        intro p hp
        rcases mem_set' hp with h | h
        · exact .inl h
        · exact .inr (hz p h)
      have e := cntS_set cd (q ++ future c s) x (.s1 s.unfinished (some ib)) hw
      have e3 := cntS_indep cd (pendQ c s) (q ++ future c s) x _ hz
      have hat : (WPhase.atHead : WPhase α σ).tok = 0 := rfl
      simp only [remP, cnt] at e
      simp only [setW, pendQ, future, remT, htk, hq, if_true, List.tail_cons, List.head?_cons,
        List.cons_append, cnt, Bool.false_eq_true, if_false] at I e e3 ⊢
      omega
    | nil =>
      -- flush path: `eof`, nothing pending
      have heof : s.eof = true := by
        rcases hrdy.1.2 with h' | h'
        · exact absurd hq h'
        · exact h'.1
      have hin : s.input = [] := rdi.noInput (.inr (rdi.eofDone heof))
      have hfut : future c s = [] := by simp only [future, hin, cutChunks_nil]
      have e := cntS_set cd (pendQ c s) x (.s1 s.unfinished none) hw
      simp only [remP, cnt] at e
      simp only [setW, pendQ, future, remT, htk, hq, hin, cutChunks_nil, if_true, List.tail_nil,
        List.head?_nil, List.nil_append, seqBlocks_nil, cnt, Bool.false_eq_true, if_false]
        at I e ⊢
      omega
  | s1Requeue i wo ib hw hl hf =>
    obtain ⟨hlt, hall⟩ := sh.held _ (List.mem_of_getElem? hw) wo ib rfl
    have hfirst : insI ⟨ib.pos.incMinor,
        (collectOn cd (wo.getD ⟨ib.pos, ib.pos, cd.init⟩).enc ib.data).2.1⟩ s.collQ =
        ⟨ib.pos.incMinor, (collectOn cd (wo.getD ⟨ib.pos, ib.pos, cd.init⟩).enc ib.data).2.1⟩ ::
          s.collQ := by
      apply insI_first
      intro y hy
      have := hall y hy
      simp only [Pos.lt, Pos.incMinor, Bool.or_eq_true]
      exact .inl (decide_eq_true this)
    obtain ⟨hfull, hsb⟩ := seqBlocks_requeue cd ok wo ib (pendQ c s) hl
    have htk : s.collectToken = false := by
      cases hh : s.collectToken with
      | false => rfl
      | true =>
        have := mem_le_wsum WPhase.tok (List.mem_of_getElem? hw)
        rw [hh] at htok; simp only [boolCount, WPhase.tok] at htok this; omega
    have e := cntS_move cd (pendQ c s)
      (⟨ib.pos.incMinor, (collectOn cd (wo.getD ⟨ib.pos, ib.pos, cd.init⟩).enc ib.data).2.1⟩ ::
        pendQ c s) x
      (.s2 ⟨(wo.getD ⟨ib.pos, ib.pos, cd.init⟩).pos,
            (wo.getD ⟨ib.pos, ib.pos, cd.init⟩).next.incMinor,
            (collectOn cd (wo.getD ⟨ib.pos, ib.pos, cd.init⟩).enc ib.data).1⟩
           (collectOn cd (wo.getD ⟨ib.pos, ib.pos, cd.init⟩).enc ib.data).2.2) hsum hw rfl
    rw [hfull] at e
    simp only [remP, hsb, cnt] at e
    simp only [setW, pendQ, future, remT, htk, hfirst, hfull, List.cons_append,
      Bool.false_eq_true, if_false, cnt] at I e ⊢
    omega
  | s1Release i wo ib hw hl =>
    have hsb := seqBlocks_release cd wo ib (pendQ c s) hl
    have e := cntS_set cd (pendQ c s) x
      (.s2 ⟨(wo.getD ⟨ib.pos, ib.pos, cd.init⟩).pos,
            (wo.getD ⟨ib.pos, ib.pos, cd.init⟩).next.incMajor,
            (collectOn cd (wo.getD ⟨ib.pos, ib.pos, cd.init⟩).enc ib.data).1⟩
           (collectOn cd (wo.getD ⟨ib.pos, ib.pos, cd.init⟩).enc ib.data).2.2) hw
    cases hfl : (collectOn cd (wo.getD ⟨ib.pos, ib.pos, cd.init⟩).enc ib.data).2.2 with
    | true =>
      rw [hfl] at e hsb
      simp only [remP, hsb, if_true, cnt] at e
      simp only [setW, pendQ, future, remT, hfl] at I e ⊢
      omega
    | false =>
      rw [hfl] at e hsb
      simp only [remP, hsb, Bool.false_eq_true, if_false, cnt] at e
      simp only [setW, pendQ, future, remT, hfl] at I e ⊢
      omega
  | s1Flush i w hw hf =>
    obtain ⟨heof, hcq⟩ := sh.flush _ (List.mem_of_getElem? hw) (some w) rfl
    have hin : s.input = [] := rdi.noInput (.inr (rdi.eofDone heof))
    have htk : s.collectToken = false := by
      cases hh : s.collectToken with
      | false => rfl
      | true =>
        have := mem_le_wsum WPhase.tok (List.mem_of_getElem? hw)
        rw [hh] at htok; simp only [boolCount, WPhase.tok] at htok this; omega
    have hunf := cons.unf htk
    have e := cntS_set cd (pendQ c s) x (.c2 w) hw
    simp only [remP, Option.toList, cnt] at e
    simp only [setW, pendQ, future, remT, htk, hunf, hcq, hin, cutChunks_nil, List.append_nil,
      seqBlocks_nil, Option.toList, if_true, Bool.false_eq_true, if_false, cnt] at I e ⊢
    omega
  | s2Full i w hw hf =>
    have htk : s.collectToken = false := by
      cases hh : s.collectToken with
      | false => rfl
      | true =>
        have := mem_le_wsum WPhase.tok (List.mem_of_getElem? hw)
        rw [hh] at htok; simp only [boolCount, WPhase.tok] at htok this; omega
    have hunf := cons.unf htk
    have e := cntS_set cd (pendQ c s) x (.c2 w) hw
    simp only [remP, cnt] at e
    simp only [setW, pendQ, future, remT, htk, hunf, if_true, Bool.false_eq_true, if_false, cnt]
      at I e ⊢
    omega
  | s2Part i w hw hf =>
    have htk : s.collectToken = false := by
      cases hh : s.collectToken with
      | false => rfl
      | true =>
        have := mem_le_wsum WPhase.tok (List.mem_of_getElem? hw)
        rw [hh] at htok; simp only [boolCount, WPhase.tok] at htok this; omega
    have e := cntS_set cd (pendQ c s) x .atHead hw
    simp only [remP, cnt] at e
    simp only [setW, pendQ, future, remT, htk, if_true, Bool.false_eq_true, if_false, cnt]
      at I e ⊢
    omega

end

theorem outS_reach {c : Cfg} {cd : Codec α σ} {input : List α} {s : State α σ}
    (ok : cd.OK) (hu : c.ultra = true) (hg : 0 < c.inGranul) (h : Reach c cd input s) :
    OutS c cd input s := by
  induction h with
  | init => exact outS_init c cd input hu
  | step l hr hs ih =>
    obtain ⟨k, t, hc, he⟩ := step_rel hs
    have i1 := inv1_reach hr
    exact outS_ends he
      (outS_core ok hu hg hc (shapeS_reach hu hr) i1.cons i1.sel (reader_reach hr) ih)

theorem cntS_zero_of_units (cd : Codec α σ) (Q : List (IBlk α)) (x : WBlk σ)
    (ws : List (WPhase α σ)) (h : ∀ p ∈ ws, p.units = 0) : cntS cd Q x ws = 0 := by
  induction ws with
  | nil => rfl
  | cons p l ih =>
    have hp := h p List.mem_cons_self
    have hl := ih (fun q hq => h q (List.mem_cons_of_mem _ hq))
    simp only [cntS, wsum, List.map_cons, List.sum_cons] at hl ⊢
    rw [hl]
    cases p <;> simp [WPhase.units] at hp <;> simp [remP, cnt]

/-- sequential mode: when `can_terminate()` holds, what was handed to the
    sink is a permutation of the canonical block list -/
theorem handed_perm_canon_S {c : Cfg} {cd : Codec α σ} {input : List α} {s : State α σ}
    (ok : cd.OK) (hu : c.ultra = true) (hg : 0 < c.inGranul) (h : Reach c cd input s)
    (hf : finished c s = true) : s.handed.Perm (canon c cd input) := by
  have r := restores_of_finished (inv1_reach h).cons (inv1_reach h).sel (reader_reach h) hf
  obtain ⟨htk, hunf, hc, ht, hr, _, _, _, _, _, _, _, hin, _, hunits⟩ := r
  have o := outS_reach ok hu hg h
  apply perm_of_cnt
  intro x
  have := o x
  simp only [hc, ht, hr, pendQ, future, hin, cutChunks_nil, remT, htk, hunf, if_true,
    List.append_nil, seqBlocks_nil, Option.toList, cnt,
    cntS_zero_of_units cd _ x s.ws hunits] at this
  omega

end LbzVerif.Model.SchedC
