/-
  Lemmas.SchedC.StepRel — `Model.SchedC.step` as an inductive relation with
  explicit post-states: every transition is a `Core` update (the body of one
  atomic section) followed by the way the section `Ends` (`sched_unlock`:
  select + signal; `select_task()` only; or nothing).  All invariant proofs
  go by cases on these two relations.
-/
import LbzVerif.Lemmas.SchedC.Basic

namespace LbzVerif.Model.SchedC

variable {α σ : Type}

/-- how an atomic section ends -/
inductive EndKind where
  /-- `sched_unlock()`: `select_task()`, `xsignal` if a task is ready or the
      process finished -/
  | unlock
  /-- `run()` returned to `worker_thread_proc`: `select_task()`, mutex kept -/
  | resel
  /-- no scheduler epilogue (other mutex, `xwait`, exit, mutex acquisition) -/
  | plain
  deriving DecidableEq, Repr

inductive Ends (c : Cfg) : EndKind → State α σ → State α σ → Prop where
  | unlock {t : State α σ} {ws' : List (WPhase α σ)} : Wake t.ws ws' →
      Ends c .unlock t { t with nextTask := selectTask (view c t), ws := ws' }
  | resel {t : State α σ} : Ends c .resel t (reselect c t)
  | plain {t : State α σ} : Ends c .plain t t

/-- the body of one atomic section -/
inductive Core (c : Cfg) (cd : Codec α σ) (s : State α σ) : EndKind → State α σ → Prop where
  | rTake : s.rd = .idle → 0 < s.inSlots →
      Core c cd s .plain { s with rd := .hold, inSlots := s.inSlots - 1 }
  | rDeliver : s.rd = .hold → s.input ≠ [] → lockFree s = true →
      Core c cd s .unlock
        { s with input := s.input.drop c.inGranul
                 collQ := insI ⟨⟨s.nextId, 0⟩, s.input.take c.inGranul⟩ s.collQ
                 nextId := s.nextId + 1
                 rd := if (s.input.take c.inGranul).length < c.inGranul then .eofPending
                       else .idle }
  | rEmpty : s.rd = .hold → s.input = [] →
      Core c cd s .plain { s with rd := .eofPending, inSlots := s.inSlots + 1 }
  | rEof : s.rd = .eofPending → lockFree s = true →
      Core c cd s .unlock { s with eof := true, rd := .done }
  | wTake (b : WBlk σ) (q : List (WBlk σ)) : s.wr = none → s.outputQ = b :: q →
      Core c cd s .plain { s with wr := some b, outputQ := q }
  | wDone (b : WBlk σ) : s.wr = some b → lockFree s = true →
      Core c cd s .unlock
        { s with wr := none, outSlots := s.outSlots + 1, written := s.written ++ [b] }
  | acquire (i : Nat) : s.ws[i]? = some .ready → lockFree s = true →
      Core c cd s .plain (setW s i .atHead)
  | spurious (i : Nat) : s.ws[i]? = some .waiting → Core c cd s .plain (setW s i .ready)
  | runCollect (i : Nat) (ib : IBlk α) (q : List (IBlk α)) : s.ws[i]? = some .atHead →
      s.nextTask = some .collect → s.collQ = ib :: q → s.workUnits ≠ 0 →
      Core c cd s .unlock (setW { s with collQ := q, workUnits := s.workUnits - 1 } i (.c1 ib))
  | runCollectSeq (i : Nat) : s.ws[i]? = some .atHead → s.nextTask = some .collectSeq →
      (s.unfinished.isNone && s.workUnits == 0) = false →
      Core c cd s .unlock
        (setW { s with unfinished := none
                       workUnits := if s.unfinished.isNone then s.workUnits - 1 else s.workUnits
                       collQ := s.collQ.tail, collectToken := false }
          i (.s1 s.unfinished s.collQ.head?))
  | runTransmit (i : Nat) (w : WBlk σ) (q : List (WBlk σ)) : s.ws[i]? = some .atHead →
      s.nextTask = some .transmit → s.transQ = w :: q → s.outSlots ≠ 0 →
      Core c cd s .unlock (setW { s with transQ := q, outSlots := s.outSlots - 1 } i (.t1 w))
  | runReorder (i : Nat) (w : WBlk σ) (q : List (WBlk σ)) : s.ws[i]? = some .atHead →
      s.nextTask = some .reorder → s.reordQ = w :: q →
      Core c cd s .resel
        { s with reordQ := q, order := w.next, outputQ := s.outputQ ++ [w]
                 handed := s.handed ++ [w] }
  | runWait (i : Nat) : s.ws[i]? = some .atHead → s.nextTask = none → finished c s = false →
      Core c cd s .plain (setW s i .waiting)
  | runExit (i : Nat) : s.ws[i]? = some .atHead → s.nextTask = none → finished c s = true →
      Core c cd s .plain { s with ws := broadcast (s.ws.set i .exited) }
  | c1Requeue (i : Nat) (ib : IBlk α) : s.ws[i]? = some (.c1 ib) →
      (collectOn cd cd.init ib.data).2.1 ≠ [] → lockFree s = true →
      Core c cd s .unlock
        (setW { s with collQ := insI ⟨ib.pos.incMinor, (collectOn cd cd.init ib.data).2.1⟩ s.collQ }
          i (.c2 ⟨ib.pos, ib.pos.incMinor, (collectOn cd cd.init ib.data).1⟩))
  | c1Release (i : Nat) (ib : IBlk α) : s.ws[i]? = some (.c1 ib) →
      (collectOn cd cd.init ib.data).2.1 = [] →
      Core c cd s .plain
        (setW { s with inSlots := s.inSlots + 1 } i
          (.c2 ⟨ib.pos, ib.pos.incMajor, (collectOn cd cd.init ib.data).1⟩))
  | c2Enq (i : Nat) (w : WBlk σ) : s.ws[i]? = some (.c2 w) → lockFree s = true →
      Core c cd s .resel (setW { s with transQ := insW w s.transQ } i .atHead)
  | t1Enq (i : Nat) (w : WBlk σ) : s.ws[i]? = some (.t1 w) → lockFree s = true →
      Core c cd s .resel
        (setW { s with workUnits := s.workUnits + 1, reordQ := insW w s.reordQ } i .atHead)
  | s1Requeue (i : Nat) (wo : Option (WBlk σ)) (ib : IBlk α) :
      s.ws[i]? = some (.s1 wo (some ib)) →
      (collectOn cd (wo.getD ⟨ib.pos, ib.pos, cd.init⟩).enc ib.data).2.1 ≠ [] →
      lockFree s = true →
      Core c cd s .unlock
        (setW { s with collQ := insI ⟨ib.pos.incMinor,
                  (collectOn cd (wo.getD ⟨ib.pos, ib.pos, cd.init⟩).enc ib.data).2.1⟩ s.collQ }
          i (.s2 ⟨(wo.getD ⟨ib.pos, ib.pos, cd.init⟩).pos,
                  (wo.getD ⟨ib.pos, ib.pos, cd.init⟩).next.incMinor,
                  (collectOn cd (wo.getD ⟨ib.pos, ib.pos, cd.init⟩).enc ib.data).1⟩
                 (collectOn cd (wo.getD ⟨ib.pos, ib.pos, cd.init⟩).enc ib.data).2.2))
  | s1Release (i : Nat) (wo : Option (WBlk σ)) (ib : IBlk α) :
      s.ws[i]? = some (.s1 wo (some ib)) →
      (collectOn cd (wo.getD ⟨ib.pos, ib.pos, cd.init⟩).enc ib.data).2.1 = [] →
      Core c cd s .plain
        (setW { s with inSlots := s.inSlots + 1 }
          i (.s2 ⟨(wo.getD ⟨ib.pos, ib.pos, cd.init⟩).pos,
                  (wo.getD ⟨ib.pos, ib.pos, cd.init⟩).next.incMajor,
                  (collectOn cd (wo.getD ⟨ib.pos, ib.pos, cd.init⟩).enc ib.data).1⟩
                 (collectOn cd (wo.getD ⟨ib.pos, ib.pos, cd.init⟩).enc ib.data).2.2))
  | s1Flush (i : Nat) (w : WBlk σ) : s.ws[i]? = some (.s1 (some w) none) → lockFree s = true →
      Core c cd s .unlock (setW { s with collectToken := true } i (.c2 w))
  | s2Full (i : Nat) (w : WBlk σ) : s.ws[i]? = some (.s2 w true) → lockFree s = true →
      Core c cd s .unlock (setW { s with collectToken := true } i (.c2 w))
  | s2Part (i : Nat) (w : WBlk σ) : s.ws[i]? = some (.s2 w false) → lockFree s = true →
      Core c cd s .resel (setW { s with collectToken := true, unfinished := some w } i .atHead)

/-- one transition as a relation -/
def StepRel (c : Cfg) (cd : Codec α σ) (s s' : State α σ) : Prop :=
  ∃ k t, Core c cd s k t ∧ Ends c k t s'

theorem ends_of_unlock {c : Cfg} {t s' : State α σ} {k : Nat} (h : unlock c t k = some s') :
    Ends c .unlock t s' := by
  obtain ⟨ws', hw, rfl⟩ := unlock_spec h
  exact .unlock hw

/-- every transition of the executable model is a `Core` followed by `Ends`;
    spurious wake-ups are exactly `Core.spurious`. -/
theorem step_rel {c : Cfg} {cd : Codec α σ} {s s' : State α σ} {l : Label}
    (h : step c cd s l = some s') : StepRel c cd s s' := by
  cases l with
  | rTake =>
    simp only [step] at h
    split at h
    · next hc => cases h; exact ⟨_, _, .rTake hc.1 hc.2, .plain⟩
    · cases h
  | rDeliver k =>
    simp only [step] at h
    split at h
    · next hc => exact ⟨_, _, .rDeliver hc.1 hc.2.1 hc.2.2, ends_of_unlock h⟩
    · cases h
  | rEmpty =>
    simp only [step] at h
    split at h
    · next hc => cases h; exact ⟨_, _, .rEmpty hc.1 hc.2, .plain⟩
    · cases h
  | rEof k =>
    simp only [step] at h
    split at h
    · next hc => exact ⟨_, _, .rEof hc.1 hc.2, ends_of_unlock h⟩
    · cases h
  | wTake =>
    simp only [step] at h
    split at h
    · next b q hw hq => cases h; exact ⟨_, _, .wTake b q hw hq, .plain⟩
    · cases h
  | wDone k =>
    simp only [step] at h
    split at h
    · next b hw =>
      split at h
      · next hl => exact ⟨_, _, .wDone b hw hl, ends_of_unlock h⟩
      · cases h
    · cases h
  | acquire i =>
    simp only [step] at h
    split at h
    · next hw =>
      split at h
      · next hl => cases h; exact ⟨_, _, .acquire i hw hl, .plain⟩
      · cases h
    · cases h
  | spurious i =>
    simp only [step] at h
    split at h
    · next hw => cases h; exact ⟨_, _, .spurious i hw, .plain⟩
    · cases h
  | run i k =>
    simp only [step] at h
    split at h
    · next hw =>
      unfold runHead at h
      split at h
      · next t ht =>
        cases t with
        | collect =>
          simp only [runTask] at h
          split at h
          · cases h
          · next ib q hq =>
            split at h
            · cases h
            · next hwu => exact ⟨_, _, .runCollect i ib q hw ht hq hwu, ends_of_unlock h⟩
        | collectSeq =>
          simp only [runTask] at h
          split at h
          · cases h
          · next hg =>
            exact ⟨_, _, .runCollectSeq i hw ht (by simpa using hg), ends_of_unlock h⟩
        | transmit =>
          simp only [runTask] at h
          split at h
          · cases h
          · next w q hq =>
            split at h
            · cases h
            · next hos => exact ⟨_, _, .runTransmit i w q hw ht hq hos, ends_of_unlock h⟩
        | reorder =>
          simp only [runTask] at h
          split at h
          · cases h
          · next w q hq => cases h; exact ⟨_, _, .runReorder i w q hw ht hq, .resel⟩
      · next ht =>
        split at h
        · next hf => cases h; exact ⟨_, _, .runExit i hw ht hf, .plain⟩
        · next hf => cases h; exact ⟨_, _, .runWait i hw ht (by simpa using hf), .plain⟩
    · cases h
  | cont i k =>
    simp only [step] at h
    split at h
    · next p hw =>
      cases p with
      | ready => simp [contTask] at h
      | waiting => simp [contTask] at h
      | atHead => simp [contTask] at h
      | exited => simp [contTask] at h
      | c1 ib =>
        simp only [contTask] at h
        split at h
        · next hl =>
          split at h
          · next hf => exact ⟨_, _, .c1Requeue i ib hw hl hf, ends_of_unlock h⟩
          · cases h
        · next hl => cases h; exact ⟨_, _, .c1Release i ib hw (by simpa using hl), .plain⟩
      | c2 w =>
        simp only [contTask] at h
        split at h
        · next hf => cases h; exact ⟨_, _, .c2Enq i w hw hf, .resel⟩
        · cases h
      | t1 w =>
        simp only [contTask] at h
        split at h
        · next hf => cases h; exact ⟨_, _, .t1Enq i w hw hf, .resel⟩
        · cases h
      | s1 wo ibo =>
        cases ibo with
        | some ib =>
          simp only [contTask] at h
          split at h
          · next hl =>
            split at h
            · next hf => exact ⟨_, _, .s1Requeue i wo ib hw hl hf, ends_of_unlock h⟩
            · cases h
          · next hl => cases h; exact ⟨_, _, .s1Release i wo ib hw (by simpa using hl), .plain⟩
        | none =>
          cases wo with
          | none => simp [contTask] at h
          | some w =>
            simp only [contTask] at h
            split at h
            · next hf => exact ⟨_, _, .s1Flush i w hw hf, ends_of_unlock h⟩
            · cases h
      | s2 w full =>
        cases full with
        | true =>
          simp only [contTask] at h
          split at h
          · next hf => exact ⟨_, _, .s2Full i w hw hf, ends_of_unlock h⟩
          · cases h
        | false =>
          simp only [contTask] at h
          split at h
          · next hf => cases h; exact ⟨_, _, .s2Part i w hw hf, .resel⟩
          · cases h
    · cases h

end LbzVerif.Model.SchedC
