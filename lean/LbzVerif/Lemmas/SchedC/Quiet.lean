/-
  Lemmas.SchedC.Quiet — a quiet state (mutex free, every worker in `xwait`,
  reader stalled or done, writer idle) is NOT reachable: the block at position
  `order` is the head of `reord_q`, or the head of `trans_q` (and the reserve
  leaves it an output slot), or still to be collected (and a work unit is
  free), or not yet read (and an input slot is free), or nothing is left (and
  `can_terminate()` holds) — in each case a guard holds or the process has
  finished, against the no-lost-wake-up invariant.
-/
import LbzVerif.Lemmas.SchedC.Enabled
import LbzVerif.Lemmas.SchedC.UnitN
import LbzVerif.Lemmas.SchedC.SuffixS

namespace LbzVerif.Model.SchedC
open LbzVerif.Gen
set_option linter.unusedSimpArgs false

variable {α σ : Type}

/-! ### helpers -/

theorem sum_pos_exists {β : Type} (f : β → Nat) (l : List β) (h : 0 < (l.map f).sum) :
    ∃ a ∈ l, 0 < f a := by
  induction l with
  | nil => simp at h
  | cons a l ih =>
    simp only [List.map_cons, List.sum_cons] at h
    by_cases ha : 0 < f a
    · exact ⟨a, List.mem_cons_self, ha⟩
    · obtain ⟨b, hb, hfb⟩ := ih (by omega)
      exact ⟨b, List.mem_cons_of_mem _ hb, hfb⟩

theorem mem_le_sum_map {β : Type} (f : β → Nat) {l : List β} {a : β} (h : a ∈ l) :
    f a ≤ (l.map f).sum := by
  induction l with
  | nil => cases h
  | cons b l ih =>
    simp only [List.map_cons, List.sum_cons]
    rcases List.mem_cons.mp h with rfl | hm
    · omega
    · have := ih hm; omega

theorem chunkBlocks_head (cd : Codec α σ) (pos : Pos) (data : List α) :
    ∃ b ∈ chunkBlocks cd pos data, b.pos = pos := by
  rw [chunkBlocks]
  split
  · exact ⟨_, List.mem_cons_self, rfl⟩
  · exact ⟨_, List.mem_cons_self, rfl⟩

theorem sorted_pos_inj {l : List (WBlk σ)} (h : l.Pairwise (fun x y => x.pos.lt y.pos = true))
    {x y : WBlk σ} (hx : x ∈ l) (hy : y ∈ l) (e : x.pos = y.pos) : x = y := by
  induction l with
  | nil => cases hx
  | cons a l ih =>
    obtain ⟨ha, hl⟩ := List.pairwise_cons.mp h
    rcases List.mem_cons.mp hx with rfl | hx'
    · rcases List.mem_cons.mp hy with rfl | hy'
      · rfl
      · have := ha y hy'; rw [e, Pos.lt_irrefl] at this; cases this
    · rcases List.mem_cons.mp hy with rfl | hy'
      · have := ha x hx'; rw [e, Pos.lt_irrefl] at this; cases this
      · exact ih hl hx' hy'

theorem sorted_cnt_le_one {l : List (WBlk σ)} (h : l.Pairwise (fun x y => x.pos.lt y.pos = true))
    (x : WBlk σ) : cnt x l ≤ 1 := by
  induction l with
  | nil => simp [cnt]
  | cons a l ih =>
    obtain ⟨ha, hl⟩ := List.pairwise_cons.mp h
    simp only [cnt]
    by_cases e : a = x
    · subst e
      have : cnt a l = 0 := by
        cases hc : cnt a l with
        | zero => rfl
        | succ n =>
          have hm := mem_of_cnt_pos (x := a) (l := l) (by omega)
          have := ha a hm; rw [Pos.lt_irrefl] at this; cases this
      simp [this]
    · simp only [e, if_false]; have := ih hl; omega

theorem seqBlocks_eq_nil (cd : Codec α σ) (ok : cd.OK) (cur : Option (WBlk σ))
    (ibs : List (IBlk α)) : seqBlocks cd cur ibs = [] → cur = none ∧ ibs = [] := by
  induction cur, ibs using seqBlocks.induct cd with
  | case1 => intro _; exact ⟨rfl, rfl⟩
  | case2 w => intro h; rw [seqBlocks] at h; cases h
  | case3 cur ib rest w0 r hl hc ih =>
    intro h
    rw [seqBlocks] at h
    simp only [w0, r] at hl hc
    simp only [hl, hc, ne_eq, not_false_eq_true, and_self, ↓reduceDIte, ↓reduceIte] at h
    cases h
  | case4 cur ib rest w0 r hl hc =>
    intro _
    simp only [w0, r] at hl hc
    exact absurd (requeue_cond cd ok cur ib hl) hc
  | case5 cur ib rest w0 r hl hfull ih =>
    intro h
    rw [seqBlocks] at h
    simp only [w0, r] at hl hfull
    simp only [hl, hfull, ↓reduceIte] at h
    cases h
  | case6 cur ib rest w0 r hl w hfull ih =>
    intro h
    rw [seqBlocks] at h
    simp only [w0, r, w] at hl hfull ih
    simp only [hl, hfull, ↓reduceIte] at h
    have := (ih h).1
    cases this

theorem wsum_all_waiting (f : WPhase α σ → Nat) (hf : f .waiting = 0) {ws : List (WPhase α σ)}
    (h : ∀ p ∈ ws, p = .waiting) : wsum f ws = 0 := by
  induction ws with
  | nil => rfl
  | cons a l ih =>
    have := ih (fun p hp => h p (List.mem_cons_of_mem _ hp))
    simp only [wsum, List.map_cons, List.sum_cons] at this ⊢
    rw [h a List.mem_cons_self, hf, this]

theorem cutChunks_eq_nil {g id : Nat} {input : List α} (hg : 0 < g)
    (h : cutChunks g id input = []) : input = [] := by
  by_cases e : input = []
  · exact e
  · rw [cutChunks_cons g id input e hg] at h; cases h

/-! ### what is in flight, as the rest of the canonical chain -/

/-- `canon = handed ++ rest`, `rest` is a chain from `order`, and `rest` is
    (as a multiset) what is in flight: `fl x` -/
structure RestOf (c : Cfg) (cd : Codec α σ) (input : List α) (s : State α σ)
    (fl : WBlk σ → Nat) (rest : List (WBlk σ)) : Prop where
  split : canon c cd input = s.handed ++ rest
  chain : ∃ e, Chain s.order rest e
  count : ∀ x, cnt x rest = fl x

theorem restOf_of_count {c : Cfg} {cd : Codec α σ} {input : List α} {s : State α σ}
    (ok : cd.OK) (h : Reach c cd input s) (fl : WBlk σ → Nat)
    (hc : ∀ x, cnt x s.handed + fl x = cnt x (canon c cd input)) :
    ∃ rest, RestOf c cd input s fl rest := by
  obtain ⟨e, hcan⟩ := canon_chain c cd ok input
  have hh := (order_reach h).chain
  obtain ⟨rest, hr, hch⟩ := chain_prefix hcan hh (by
    intro x hx
    have := cnt_pos_of_mem hx
    have := hc x
    exact mem_of_cnt_pos (by omega))
  refine ⟨rest, hr, ⟨e, hch⟩, ?_⟩
  intro x
  have := hc x
  rw [hr, cnt_append] at this
  omega

section
variable {c : Cfg} {cd : Codec α σ} {input : List α} {s : State α σ}

/-- facts common to both modes in a quiet state -/
structure QuietFacts (c : Cfg) (s : State α σ) : Prop where
  nRe : ∀ z ∈ s.reordQ, z.pos ≠ s.order
  nTr : ∀ z ∈ s.transQ, z.pos ≠ s.order
  units : s.workUnits + s.transQ.length + optCount s.unfinished = c.n
  slots : s.outSlots + s.reordQ.length = c.totalOut
  chunks : s.inSlots + s.collQ.length = c.totalIn
  token : s.collectToken = true
  nColl : cCanCollect (view c s) = false
  nSeq : cCanCollectSeq (view c s) = false
  nFin : finished c s = false

theorem quiet_facts (h : Reach c cd input s) (q : Quiet s) (hout : 1 ≤ c.totalOut)
    (below : ∀ x, x ∈ s.transQ ∨ x ∈ s.reordQ → s.order.le x.pos) : QuietFacts c s := by
  obtain ⟨hsel, hnf⟩ := quiet_idle h q
  have cons := (inv1_reach h).cons
  have srt := sortW_reach h
  have rsv := reserve_reach h
  -- no guard holds
  have hnone : ∀ t ∈ taskOrder, t.ready (view c s) = false := by
    intro t ht
    have := List.find?_eq_none.mp hsel t ht
    simpa using this
  rw [taskOrder_eq] at hnone
  have g1 := hnone .collectSeq (by simp)
  have g2 := hnone .reorder (by simp)
  have g3 := hnone .transmit (by simp)
  have g4 := hnone .collect (by simp)
  simp only [Task.ready] at g1 g2 g3 g4
  -- conservation with everybody waiting
  have zu := wsum_all_waiting (α := α) (σ := σ) WPhase.units rfl q.allWait
  have zs := wsum_all_waiting (α := α) (σ := σ) WPhase.slots rfl q.allWait
  have zc := wsum_all_waiting (α := α) (σ := σ) WPhase.chunks rfl q.allWait
  have zt := wsum_all_waiting (α := α) (σ := σ) WPhase.tok rfl q.allWait
  have cu := cons.units
  have cs := cons.slots
  have cc := cons.chunks
  have ct := cons.token
  simp only [wsum] at zu zs zc zt
  have o0 : optCount (none : Option (WBlk σ)) = 0 := rfl
  simp only [unitHolders, slotHolders, chunkHolders, zu, zs, zc, q.wr, q.outQ, o0,
    List.length_nil] at cu cs cc
  have hrdc : s.rd.chunks = 0 := by
    rcases q.reader with e | ⟨e, _⟩ <;> rw [e] <;> rfl
  have htok : s.collectToken = true := by
    cases hh : s.collectToken with
    | true => rfl
    | false => rw [hh, zt] at ct; simp [boolCount] at ct
  -- nothing in `reord_q` is at `order`
  have nRe : ∀ z ∈ s.reordQ, z.pos ≠ s.order := by
    intro z hz e
    cases hq : s.reordQ with
    | nil => rw [hq] at hz; cases hz
    | cons w l =>
      have hmin := ascW_head (by rw [← hq]; exact srt.rq) z (by rw [← hq]; exact hz)
      have hlow := below w (.inr (by rw [hq]; exact List.mem_cons_self))
      have : w.pos = s.order := Pos.le_antisymm (e ▸ hmin) hlow
      simp [cCanReorder, view, hq, headIs, this] at g2
  -- hence the reserve is all in `out_slots`
  have hdue : slotsDue s = 0 := by
    have z1 := wsum_all_waiting (α := α) (σ := σ) (t1Ind s.order) rfl q.allWait
    have z2 : s.reordQ.countP (atOrBefore s.order) = 0 := by
      apply List.countP_eq_zero.mpr
      intro z hz hb
      simp only [atOrBefore, Bool.not_eq_true'] at hb
      have hlow := below z (.inr hz)
      exact nRe z hz (Pos.le_antisymm (Pos.le_of_not_lt hb) hlow)
    simp only [slotsDue, q.outQ, q.wr, optCount, z1, z2, List.length_nil]
  have hos : 1 ≤ s.outSlots := by
    have := rsv
    simp only [Reserve, hdue, TRANSM_THRESH] at this
    omega
  have nTr : ∀ z ∈ s.transQ, z.pos ≠ s.order := by
    intro z hz e
    cases hq : s.transQ with
    | nil => rw [hq] at hz; cases hz
    | cons w l =>
      have hmin := ascW_head (by rw [← hq]; exact srt.tq) z (by rw [← hq]; exact hz)
      have hlow := below w (.inl (by rw [hq]; exact List.mem_cons_self))
      have : w.pos = s.order := Pos.le_antisymm (e ▸ hmin) hlow
      have hpos : decide (s.outSlots > 0) = true := by simp; omega
      simp [cCanTransmit, view, hq, headIs, this, hpos] at g3
  exact ⟨nRe, nTr, by omega, by omega, by rw [hrdc] at cc; omega, htok, g4, g1, hnf⟩

/-- when nothing is in flight and the reader cannot go on, `can_terminate()` -/
theorem quiet_drained (h : Reach c cd input s) (q : Quiet s) (f : QuietFacts c s)
    (hin : 1 ≤ c.totalIn) (hc : s.collQ = []) (ht : s.transQ = []) (hr : s.reordQ = [])
    (hu : s.unfinished = none) : False := by
  have wk := wake_reach h
  have hrd : s.rd = .done := by
    rcases q.reader with e | ⟨_, e⟩
    · exact e
    · have := f.chunks; rw [hc, e] at this; simp at this; omega
  have heof := wk.doneEof hrd
  have hun := f.units
  have hsl := f.slots
  rw [ht, hu] at hun
  rw [hr] at hsl
  simp only [List.length_nil, optCount] at hun hsl
  have : finished c s = true := by
    simp only [finished, cCanTerminate, view, heof, hc, List.isEmpty_nil, Bool.and_self,
      Bool.true_and, Bool.and_eq_true, decide_eq_true_eq]
    omega
  rw [f.nFin] at this; cases this

/-! ### non-sequential mode -/

theorem quiet_unreachable_N (ok : cd.OK) (hu : c.ultra = false) (hg : 0 < c.inGranul)
    (hn : 1 ≤ c.n) (hin : 1 ≤ c.totalIn) (hout : 1 ≤ c.totalOut)
    (h : Reach c cd input s) (q : Quiet s) : False := by
  have ni := nInv_reach ok hu hg hn h
  have on := (outN_reach ok hu hg h).2
  have zw : ∀ x, cntW cd x s.ws = 0 := fun x =>
    cntW_zero_of_units cd x s.ws (fun p hp => by rw [q.allWait p hp]; rfl)
  obtain ⟨rest, ro⟩ := restOf_of_count ok h
    (fun x => cnt x s.transQ + cnt x s.reordQ + cntI cd x s.collQ + cntI cd x (future c s))
    (by intro x; have := on x; rw [zw x] at this; omega)
  obtain ⟨e, hch⟩ := ro.chain
  have hlow : ∀ x ∈ rest, s.order.le x.pos := (chain_pairwise hch).2
  have hsorted := (chain_pairwise hch).1
  have inRest : ∀ x, 0 < cnt x s.transQ + cnt x s.reordQ + cntI cd x s.collQ +
      cntI cd x (future c s) → x ∈ rest := fun x hx => mem_of_cnt_pos (by rw [ro.count x]; exact hx)
  have f := quiet_facts h q hout (by
    intro x hx
    apply hlow x (inRest x _)
    rcases hx with hx | hx
    · have := cnt_pos_of_mem hx; omega
    · have := cnt_pos_of_mem hx; omega)
  -- the head block of an in_blk of `coll_q` is in flight
  have headIn : ∀ ib ∈ s.collQ, ∃ b, b.pos = ib.pos ∧ 0 < cntI cd b s.collQ := by
    intro ib hib
    obtain ⟨b, hb, hp⟩ := chunkBlocks_head cd ib.pos ib.data
    refine ⟨b, hp, ?_⟩
    have h1 : 0 < cnt b (cb cd ib) := cnt_pos_of_mem hb
    simp only [cntI]
    have : cnt b (cb cd ib) ≤ (s.collQ.map (fun ib => cnt b (cb cd ib))).sum :=
      mem_le_sum_map (fun ib => cnt b (cb cd ib)) hib
    omega
  cases hrest : rest with
  | nil =>
    -- nothing in flight
    have zero : ∀ x, cnt x s.transQ + cnt x s.reordQ + cntI cd x s.collQ +
        cntI cd x (future c s) = 0 := by
      intro x; rw [← ro.count x, hrest]; rfl
    have hcq : s.collQ = [] := by
      cases hq : s.collQ with
      | nil => rfl
      | cons ib l =>
        obtain ⟨b, _, hb⟩ := headIn ib (by rw [hq]; exact List.mem_cons_self)
        have := zero b; omega
    have htq : s.transQ = [] := by
      cases hq : s.transQ with
      | nil => rfl
      | cons w l =>
        have := zero w; rw [hq] at this; simp [cnt] at this
    have hrq : s.reordQ = [] := by
      cases hq : s.reordQ with
      | nil => rfl
      | cons w l =>
        have := zero w; rw [hq] at this; simp [cnt] at this
    exact quiet_drained h q f hin hcq htq hrq ni.unf
  | cons y rest' =>
    have hy : y ∈ rest := by rw [hrest]; exact List.mem_cons_self
    have hypos : y.pos = s.order := by rw [hrest] at hch; exact hch.1
    have hyc := ro.count y
    have hy1 : 0 < cnt y rest := cnt_pos_of_mem hy
    have hyT : cnt y s.transQ = 0 := by
      cases hc : cnt y s.transQ with
      | zero => rfl
      | succ n => exact absurd hypos (f.nTr y (mem_of_cnt_pos (by omega)))
    have hyR : cnt y s.reordQ = 0 := by
      cases hc : cnt y s.reordQ with
      | zero => rfl
      | succ n => exact absurd hypos (f.nRe y (mem_of_cnt_pos (by omega)))
    by_cases hyC : 0 < cntI cd y s.collQ
    · -- the block at `order` is still to be collected from `coll_q`
      obtain ⟨ib, hib, hyib⟩ := sum_pos_exists _ _ hyC
      have hyin : y ∈ cb cd ib := mem_of_cnt_pos hyib
      have hible : ib.pos.le y.pos := ((chunkBlocks_sorted cd ib.pos ib.data).2 y hyin).2
      cases hq : s.collQ with
      | nil => rw [hq] at hib; cases hib
      | cons ib0 l =>
        have hwu : s.workUnits = 0 := by
          have := f.nColl
          simp only [cCanCollect, view, hu, hq, Bool.not_false, List.isEmpty_cons, Bool.true_and,
            decide_eq_false_iff_not] at this
          omega
        have hmin : ib0.pos.le ib.pos := by
          have hs := ni.asc; rw [hq] at hs
          rcases List.mem_cons.mp (by rw [hq] at hib; exact hib) with rfl | hm
          · exact Pos.le_refl _
          · exact Pos.le_of_not_lt ((List.pairwise_cons.mp hs).1 ib hm)
        obtain ⟨b0, hb0p, hb0c⟩ := headIn ib0 (by rw [hq]; exact List.mem_cons_self)
        have hb0 : b0 ∈ rest := inRest b0 (by omega)
        -- every `trans_q` entry is strictly after `ib0`
        have hall : ∀ x ∈ s.transQ, ib0.pos.lt x.pos = true := by
          intro x hx
          have hxr : x ∈ rest := inRest x (by have := cnt_pos_of_mem hx; omega)
          have hle : ib0.pos.le x.pos :=
            Pos.le_trans hmin (Pos.le_trans hible (hypos ▸ hlow x hxr))
          rcases hle with e | hl
          · exfalso
            have hxb : x = b0 := sorted_pos_inj hsorted hxr hb0 (by rw [hb0p]; exact e.symm)
            subst hxb
            have h1 := ro.count x
            have h2 := sorted_cnt_le_one hsorted x
            have h3 := cnt_pos_of_mem hx
            omega
          · exact hl
        have hcnt : s.transQ.countP (fun w => ib0.pos.lt w.pos) = s.transQ.length :=
          List.countP_eq_length.mpr (fun x hx => hall x hx)
        have hunit := ni.unit ib0 (by rw [hq]; exact List.mem_cons_self)
        have zh := wsum_all_waiting (α := α) (σ := σ) (hInd ib0.pos) rfl q.allWait
        have hun := f.units
        rw [ni.unf] at hun
        simp only [cntHold, hcnt, zh, optCount] at hunit hun
        omega
    · -- the block at `order` belongs to a chunk not yet read
      have hyF : 0 < cntI cd y (future c s) := by omega
      obtain ⟨fb, hfb, hyfb⟩ := sum_pos_exists _ _ hyF
      have hyin : y ∈ cb cd fb := mem_of_cnt_pos hyfb
      have hmaj : y.pos.major = fb.pos.major := ((chunkBlocks_sorted cd fb.pos fb.data).2 y hyin).1
      have hfid : s.nextId ≤ fb.pos.major := ((cutChunks_sorted c.inGranul s.nextId s.input).2 fb hfb).1
      have hinp : s.input ≠ [] := by
        intro e; simp only [future, e, cutChunks_nil] at hfb; cases hfb
      have hrd : s.rd = .idle ∧ s.inSlots = 0 := by
        rcases q.reader with e | e
        · exact absurd ((reader_reach h).noInput (.inr e)) hinp
        · exact e
      have hclen : s.collQ.length = c.totalIn := by have := f.chunks; omega
      cases hq : s.collQ with
      | nil => rw [hq] at hclen; simp at hclen; omega
      | cons ib0 l =>
        obtain ⟨b0, hb0p, hb0c⟩ := headIn ib0 (by rw [hq]; exact List.mem_cons_self)
        have hb0 : b0 ∈ rest := inRest b0 (by omega)
        have h1 := hlow b0 hb0
        have h2 := ni.qLt ib0 (by rw [hq]; exact List.mem_cons_self)
        have : b0.pos.lt s.order = true := by
          apply Pos.lt_of_major
          rw [hb0p, ← hypos, hmaj]; omega
        rw [Pos.not_lt_of_le h1] at this; cases this

/-! ### sequential mode -/

theorem quiet_unreachable_S (ok : cd.OK) (hu : c.ultra = true) (hg : 0 < c.inGranul)
    (hn : 1 ≤ c.n) (hin : 1 ≤ c.totalIn) (hout : 1 ≤ c.totalOut)
    (h : Reach c cd input s) (q : Quiet s) : False := by
  have os := outS_reach ok hu hg h
  obtain ⟨P, hP⟩ := sufS_reach ok hu hg h
  have cons := (inv1_reach h).cons
  have zt := wsum_all_waiting (α := α) (σ := σ) WPhase.tok rfl q.allWait
  have htok : s.collectToken = true := by
    have ct := cons.token
    simp only [wsum] at zt
    cases hh : s.collectToken with
    | true => rfl
    | false => rw [hh, zt] at ct; simp [boolCount] at ct
  have zw : ∀ x, cntS cd (pendQ c s) x s.ws = 0 := fun x =>
    cntS_zero_of_units cd _ x s.ws (fun p hp => by rw [q.allWait p hp]; rfl)
  have hRl : Rl c cd s = seqBlocks cd s.unfinished (pendQ c s) := by
    have : Rw cd (pendQ c s) s.ws = [] :=
      Rw_tok0 cd _ (fun r hr => by rw [q.allWait r hr]; rfl)
    simp only [Rl, this, htok, remT, List.nil_append]
  obtain ⟨rest, ro⟩ := restOf_of_count ok h
    (fun x => cnt x s.transQ + cnt x s.reordQ + cnt x (seqBlocks cd s.unfinished (pendQ c s)))
    (by intro x; have := os x; rw [zw x, htok] at this; simp only [remT] at this; omega)
  obtain ⟨e, hch⟩ := ro.chain
  have hlow : ∀ x ∈ rest, s.order.le x.pos := (chain_pairwise hch).2
  have hsorted := (chain_pairwise hch).1
  have inRest : ∀ x, 0 < cnt x s.transQ + cnt x s.reordQ +
      cnt x (seqBlocks cd s.unfinished (pendQ c s)) → x ∈ rest :=
    fun x hx => mem_of_cnt_pos (by rw [ro.count x]; exact hx)
  have f := quiet_facts h q hout (by
    intro x hx
    apply hlow x (inRest x _)
    rcases hx with hx | hx
    · have := cnt_pos_of_mem hx; omega
    · have := cnt_pos_of_mem hx; omega)
  have futNil : s.rd = .done → future c s = [] := by
    intro e
    simp only [future, (reader_reach h).noInput (.inr e), cutChunks_nil]
  have rdDone : s.collQ = [] → s.rd = .done := by
    intro hc
    rcases q.reader with e | ⟨_, e⟩
    · exact e
    · have := f.chunks; rw [hc, e] at this; simp at this; omega
  cases hrest : rest with
  | nil =>
    have zero : ∀ x, cnt x s.transQ + cnt x s.reordQ +
        cnt x (seqBlocks cd s.unfinished (pendQ c s)) = 0 := by
      intro x; rw [← ro.count x, hrest]; rfl
    have hsb : seqBlocks cd s.unfinished (pendQ c s) = [] := by
      cases hq : seqBlocks cd s.unfinished (pendQ c s) with
      | nil => rfl
      | cons w l => have := zero w; rw [hq] at this; simp [cnt] at this
    obtain ⟨hunf, hQ⟩ := seqBlocks_eq_nil cd ok _ _ hsb
    have hcq : s.collQ = [] := by
      simp only [pendQ, List.append_eq_nil_iff] at hQ; exact hQ.1
    have htq : s.transQ = [] := by
      cases hq : s.transQ with
      | nil => rfl
      | cons w l => have := zero w; rw [hq] at this; simp [cnt] at this
    have hrq : s.reordQ = [] := by
      cases hq : s.reordQ with
      | nil => rfl
      | cons w l => have := zero w; rw [hq] at this; simp [cnt] at this
    exact quiet_drained h q f hin hcq htq hrq hunf
  | cons y rest' =>
    have hy : y ∈ rest := by rw [hrest]; exact List.mem_cons_self
    have hypos : y.pos = s.order := by rw [hrest] at hch; exact hch.1
    have hyc := ro.count y
    have hy1 : 0 < cnt y rest := cnt_pos_of_mem hy
    have hyT : cnt y s.transQ = 0 := by
      cases hc : cnt y s.transQ with
      | zero => rfl
      | succ n => exact absurd hypos (f.nTr y (mem_of_cnt_pos (by omega)))
    have hyR : cnt y s.reordQ = 0 := by
      cases hc : cnt y s.reordQ with
      | zero => rfl
      | succ n => exact absurd hypos (f.nRe y (mem_of_cnt_pos (by omega)))
    have hyS : y ∈ seqBlocks cd s.unfinished (pendQ c s) := mem_of_cnt_pos (by omega)
    have hns := f.nSeq
    simp only [cCanCollectSeq, view, hu, htok, Bool.and_self, Bool.true_and] at hns
    cases hq : s.collQ with
    | nil =>
      -- end of input: the pending block has to be flushed
      have hrd := rdDone hq
      have heof := (wake_reach h).doneEof hrd
      have hQ : pendQ c s = [] := by simp only [pendQ, hq, futNil hrd, List.append_nil]
      rw [hQ, seqBlocks_nil] at hyS
      cases hun : s.unfinished with
      | none => rw [hun] at hyS; cases hyS
      | some w => simp [hq, heof, hun] at hns
    | cons ib0 l =>
      have hfacts : s.workUnits = 0 ∧ s.unfinished = none := by
        cases hun : s.unfinished with
        | some w => simp [hq, hun] at hns
        | none =>
          simp [hq, hun] at hns
          exact ⟨by omega, rfl⟩
      obtain ⟨hwu, hunf⟩ := hfacts
      have hlen : s.transQ.length = c.n := by
        have := f.units; rw [hunf] at this; simp only [optCount] at this; omega
      cases htq : s.transQ with
      | nil => rw [htq] at hlen; simp at hlen; omega
      | cons x l' =>
        have hx : x ∈ s.transQ := by rw [htq]; exact List.mem_cons_self
        have hxr : x ∈ rest := inRest x (by have := cnt_pos_of_mem hx; omega)
        have hxc : x ∈ canon c cd input := by rw [ro.split]; exact List.mem_append_right _ hxr
        have hcs := canon_sorted c cd input
        rw [hP, hRl] at hxc hcs
        rcases List.mem_append.mp hxc with hxP | hxS
        · -- made before `y`, yet not before `order`
          have := (List.pairwise_append.mp hcs).2.2 x hxP y hyS
          rw [hypos, Pos.not_lt_of_le (hlow x hxr)] at this; cases this
        · have h1 := ro.count x
          have h2 := sorted_cnt_le_one hsorted x
          have h3 := cnt_pos_of_mem hx
          have h4 := cnt_pos_of_mem hxS
          omega

end

/-- **quiet states are unreachable** -/
theorem quiet_unreachable {c : Cfg} {cd : Codec α σ} {input : List α} {s : State α σ}
    (ok : cd.OK) (hg : 0 < c.inGranul) (hn : 1 ≤ c.n) (hin : 1 ≤ c.totalIn)
    (hout : 1 ≤ c.totalOut) (h : Reach c cd input s) : ¬ Quiet s := by
  intro q
  cases hu : c.ultra with
  | true => exact quiet_unreachable_S ok hu hg hn hin hout h q
  | false => exact quiet_unreachable_N ok hu hg hn hin hout h q

end LbzVerif.Model.SchedC
