/-
  Lemmas.SchedC.XIO — `xread` fills a chunk completely whatever the
  fragmentation of `read()`; `xwrite` writes exactly the buffer whatever the
  short writes; hence the reader's chunk list is the canonical cut.
-/
import LbzVerif.Model.SchedC

namespace LbzVerif.Model.SchedC

variable {α : Type}

theorem xread_eq (src : List α) (vacant : Nat) (frags : List Nat) :
    xread src vacant frags = (src.take vacant, src.drop vacant) := by
  induction frags generalizing src vacant with
  | nil => rfl
  | cons f fs ih =>
    simp only [xread]
    split
    · next h => subst h; simp
    · split
      · next h => subst h; simp
      · next hv hs =>
        have hr1 : min (max 1 f) (min vacant src.length) ≤ vacant := by omega
        rw [ih]
        generalize min (max 1 f) (min vacant src.length) = r at *
        have hv' : vacant = r + (vacant - r) := by omega
        refine Prod.ext ?_ ?_
        · show src.take r ++ (src.drop r).take (vacant - r) = src.take vacant
          conv => rhs; rw [hv']
          exact (List.take_add).symm
        · show (src.drop r).drop (vacant - r) = src.drop vacant
          rw [List.drop_drop]; congr 1; omega

theorem xwrite_eq (buf : List α) (frags : List Nat) : xwrite buf frags = buf := by
  induction frags generalizing buf with
  | nil => rfl
  | cons f fs ih =>
    simp only [xwrite]
    split
    · next h => exact h.symm
    · rw [ih]; exact List.take_append_drop _ _

theorem cutChunks_nil (g id : Nat) : cutChunks (α := α) g id [] = [] := by
  rw [cutChunks]; simp

theorem cutChunks_cons (g id : Nat) (src : List α) (h : src ≠ []) (hg : 0 < g) :
    cutChunks g id src = ⟨⟨id, 0⟩, src.take g⟩ :: cutChunks g (id + 1) (src.drop g) := by
  rw [cutChunks]; simp [h, hg]

theorem readChunks_eq (g : Nat) (hg : 0 < g) (frags : Nat → List Nat) (fuel id : Nat)
    (src : List α) (hf : src.length < fuel) :
    readChunks g frags fuel id src = cutChunks g id src := by
  induction fuel generalizing id src with
  | zero => omega
  | succ fuel ih =>
    simp only [readChunks, xread_eq]
    by_cases hs : src = []
    · subst hs; simp [cutChunks_nil]
    · have htk : src.take g ≠ [] := by
        cases src with
        | nil => exact absurd rfl hs
        | cons a l =>
          cases g with
          | zero => omega
          | succ g => simp
      rw [if_neg htk, cutChunks_cons g id src hs hg]
      split
      · next hlt =>
        have : src.drop g = [] := by
          simp only [List.length_take] at hlt
          apply List.drop_eq_nil_of_le; omega
        rw [this, cutChunks_nil]
      · next hlt =>
        have hpos : 0 < src.length := List.length_pos_iff.mpr hs
        rw [ih]
        simp only [List.length_drop]; omega

end LbzVerif.Model.SchedC
