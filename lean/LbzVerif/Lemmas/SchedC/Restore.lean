/-
  Lemmas.SchedC.Restore — reader-side invariant and "a finished run has put
  everything back" (used by C11 conservation-at-termination and C18).
-/
import LbzVerif.Lemmas.SchedC.Order

namespace LbzVerif.Model.SchedC
open LbzVerif.Gen

variable {α σ : Type}

/-- `eof` is set only by the reader's last action, after the input is exhausted. -/
structure ReaderInv (s : State α σ) : Prop where
  eofDone : s.eof = true → s.rd = .done
  noInput : s.rd = .eofPending ∨ s.rd = .done → s.input = []

theorem reader_init (c : Cfg) (input : List α) : ReaderInv (init (σ := σ) c input) := by
  constructor
  · intro h; simp [init, initWith, reselect] at h
  · intro h; simp [init, initWith, reselect] at h

theorem reader_ends {c : Cfg} {k : EndKind} {t s' : State α σ} (h : Ends c k t s')
    (inv : ReaderInv t) : ReaderInv s' := by
  cases h with
  | unlock hw => exact ⟨inv.1, inv.2⟩
  | resel => exact ⟨inv.1, inv.2⟩
  | plain => exact inv

theorem reader_core {c : Cfg} {cd : Codec α σ} {s t : State α σ} {k : EndKind}
    (h : Core c cd s k t) (inv : ReaderInv s) : ReaderInv t := by
  obtain ⟨i1, i2⟩ := inv
  cases h with
  | rTake hr hi =>
    refine ⟨fun h => ?_, fun h => ?_⟩
    · have := i1 h; rw [hr] at this; cases this
    · simp at h
  | rDeliver hr hi hl =>
    refine ⟨fun h => ?_, fun h => ?_⟩
    · have := i1 h; rw [hr] at this; cases this
    · show s.input.drop c.inGranul = []
      by_cases hlt : (s.input.take c.inGranul).length < c.inGranul
      · simp only [List.length_take] at hlt
        apply List.drop_eq_nil_of_le; omega
      · have h' : (if (s.input.take c.inGranul).length < c.inGranul then RPhase.eofPending
            else RPhase.idle) = .eofPending ∨ (if (s.input.take c.inGranul).length < c.inGranul
            then RPhase.eofPending else RPhase.idle) = .done := h
        rw [if_neg hlt] at h'
        rcases h' with h' | h' <;> cases h' 
  | rEmpty hr hi =>
    refine ⟨fun h => ?_, fun _ => hi⟩
    have := i1 h; rw [hr] at this; cases this
  | rEof hr hl => exact ⟨fun _ => rfl, fun _ => i2 (.inl hr)⟩
  | wTake b q hw hq => exact ⟨i1, i2⟩
  | wDone b hw hl => exact ⟨i1, i2⟩
  | acquire i hw hl => exact ⟨i1, i2⟩
  | spurious i hw => exact ⟨i1, i2⟩
  | runWait i hw hn hf => exact ⟨i1, i2⟩
  | runExit i hw hn hf => exact ⟨i1, i2⟩
  | runCollect i ib q hw hn hq hwu => exact ⟨i1, i2⟩
  | runCollectSeq i hw hn hg => exact ⟨i1, i2⟩
  | runTransmit i w q hw hn hq hos => exact ⟨i1, i2⟩
  | runReorder i w q hw hn hq => exact ⟨i1, i2⟩
  | c1Requeue i ib hw hl hf => exact ⟨i1, i2⟩
  | c1Release i ib hw hl => exact ⟨i1, i2⟩
  | c2Enq i w hw hf => exact ⟨i1, i2⟩
  | t1Enq i w hw hf => exact ⟨i1, i2⟩
  | s1Requeue i wo ib hw hl hf => exact ⟨i1, i2⟩
  | s1Release i wo ib hw hl => exact ⟨i1, i2⟩
  | s1Flush i w hw hf => exact ⟨i1, i2⟩
  | s2Full i w hw hf => exact ⟨i1, i2⟩
  | s2Part i w hw hf => exact ⟨i1, i2⟩

theorem reader_reach {c : Cfg} {cd : Codec α σ} {input : List α} {s : State α σ}
    (h : Reach c cd input s) : ReaderInv s := by
  induction h with
  | init => exact reader_init c input
  | step l hr hs ih =>
    obtain ⟨k, t, hc, he⟩ := step_rel hs
    exact reader_ends he (reader_core hc ih)

theorem tok_le_units (ws : List (WPhase α σ)) :
    (ws.map WPhase.tok).sum ≤ (ws.map WPhase.units).sum := by
  induction ws with
  | nil => simp
  | cons p l ih =>
    simp only [List.map_cons, List.sum_cons]
    have : p.tok ≤ p.units := by cases p <;> simp [WPhase.tok, WPhase.units]
    omega

theorem chunks_le_units (ws : List (WPhase α σ)) :
    (ws.map WPhase.chunks).sum ≤ (ws.map WPhase.units).sum := by
  induction ws with
  | nil => simp
  | cons p l ih =>
    simp only [List.map_cons, List.sum_cons]
    have : p.chunks ≤ p.units := by
      cases p with
      | s1 a b => cases b <;> simp [WPhase.chunks, WPhase.units]
      | _ => simp [WPhase.chunks, WPhase.units]
    omega

theorem mem_le_wsum (f : WPhase α σ → Nat) {ws : List (WPhase α σ)} {p : WPhase α σ}
    (hp : p ∈ ws) : f p ≤ (ws.map f).sum := by
  induction ws with
  | nil => cases hp
  | cons q l ih =>
    simp only [List.map_cons, List.sum_cons]
    rcases List.mem_cons.mp hp with rfl | h
    · omega
    · have := ih h; omega

theorem taskOrder_eq : taskOrder = [.collectSeq, .reorder, .transmit, .collect] := by decide

/-- What `can_terminate()` implies in a state satisfying the conservation laws. -/
theorem restores_of_finished {c : Cfg} {s : State α σ} (inv : Conserved c s)
    (sel : SelInv c s) (rdi : ReaderInv s) (hf : finished c s = true) :
    s.collectToken = true ∧ s.unfinished = none ∧ s.collQ = [] ∧ s.transQ = [] ∧
    s.reordQ = [] ∧ s.outputQ = [] ∧ s.wr = none ∧ s.workUnits = c.n ∧
    s.outSlots = c.totalOut ∧ s.inSlots = c.totalIn ∧ s.eof = true ∧ s.rd = .done ∧
    s.input = [] ∧ s.nextTask = none ∧
    (∀ p ∈ s.ws, p.units = 0) := by
  obtain ⟨i1, i2, i3, i4, i5, i6⟩ := inv
  simp only [finished, cCanTerminate, view, Bool.and_eq_true,
    List.isEmpty_iff] at hf
  obtain ⟨⟨⟨heof, hcoll⟩, hwu⟩, hos⟩ := hf
  have hwu := of_decide_eq_true hwu
  have hos := of_decide_eq_true hos
  simp only [unitHolders, slotHolders, chunkHolders] at i2 i3 i4
  have hu0 : (s.ws.map WPhase.units).sum = 0 := by omega
  have htr : s.transQ.length = 0 := by omega
  have hunf : optCount s.unfinished = 0 := by omega
  have hre : s.reordQ.length = 0 := by omega
  have hoq : s.outputQ.length = 0 := by omega
  have hwr : optCount s.wr = 0 := by omega
  have htok := tok_le_units s.ws
  have hch := chunks_le_units s.ws
  have hrd := rdi.eofDone heof
  have hunf' : s.unfinished = none := by
    cases h : s.unfinished with
    | none => rfl
    | some w => rw [h] at hunf; simp [optCount] at hunf
  have hwr' : s.wr = none := by
    cases h : s.wr with
    | none => rfl
    | some w => rw [h] at hwr; simp [optCount] at hwr
  have htk : s.collectToken = true := by
    cases h : s.collectToken with
    | true => rfl
    | false => rw [h] at i5; simp only [boolCount] at i5; omega
  have htr' := List.eq_nil_of_length_eq_zero htr
  have hre' := List.eq_nil_of_length_eq_zero hre
  refine ⟨htk, hunf', hcoll, htr', hre', List.eq_nil_of_length_eq_zero hoq, hwr', hwu, hos, ?_,
    heof, hrd, rdi.noInput (.inr hrd), ?_, ?_⟩
  · rw [hrd, hcoll] at i4; simp [RPhase.chunks] at i4; omega
  · rw [sel]
    simp [selectTask, taskOrder_eq, Task.ready, cCanCollectSeq, cCanReorder, cCanTransmit,
      cCanCollect, view, hcoll, htr', hre', hunf']
  · intro p hp
    have := mem_le_wsum WPhase.units hp
    omega

end LbzVerif.Model.SchedC
