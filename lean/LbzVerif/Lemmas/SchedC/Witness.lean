/-
  Lemmas.SchedC.Witness — concrete reachable states used by the non-vacuity
  examples of C03 / C11 / C13 / C18 (a 5-byte input cut into 3 chunks and 3
  blocks, two workers, generated slot totals).
-/
import LbzVerif.Lemmas.SchedC.Restore

namespace LbzVerif.Model.SchedC

/-- a small concrete collector: byte `1` ends the block after it. -/
def wcollect : List Nat → List Nat → Nat → List Nat × Nat × Bool
  | st, [], k => (st, k, false)
  | st, b :: r, k => if b = 1 then (st ++ [b], k + 1, true) else wcollect (st ++ [b]) r (k + 1)

def wCodec : Codec Nat (List Nat) := { init := [], collect := fun st r => wcollect st r 0 }

/-- follow a list of labels -/
def runLabels {α σ} (c : Cfg) (cd : Codec α σ) (s : State α σ) : List Label → Option (State α σ)
  | [] => some s
  | l :: ls => (step c cd s l).bind (fun s' => runLabels c cd s' ls)

theorem reach_of_run {α σ} {c : Cfg} {cd : Codec α σ} {input : List α} {s s' : State α σ}
    (ls : List Label) (hr : Reach c cd input s) (h : runLabels c cd s ls = some s') :
    Reach c cd input s' := by
  induction ls generalizing s with
  | nil => simp only [runLabels, Option.some.injEq] at h; subst h; exact hr
  | cons l ls ih =>
    simp only [runLabels] at h
    cases hs : step c cd s l with
    | none => simp [hs] at h
    | some s1 => rw [hs] at h; exact ih (.step l hr hs) h

/-- 2 workers, non-sequential, slot totals from the generated
    `set_memory_constraints`, chunk size 2 -/
def wCfg : Cfg := { Cfg.ofGen 2 1 false with inGranul := 2 }
def wInput : List Nat := [0, 1, 0, 1, 0]

open Label in
/-- a complete run: 3 chunks, 3 blocks, both workers exit -/
def wFinalPath : List Label :=
  [rTake, rDeliver 0, rTake, rDeliver 0, rTake, rDeliver 0, rEof 0, acquire 0, run 0 0, cont 0 0,
   cont 0 0, run 0 0, cont 0 0, run 0 0, wTake, run 0 0, wDone 0, cont 0 0, cont 0 0, run 0 0,
   cont 0 0, run 0 0, wTake, run 0 0, wDone 0, cont 0 0, cont 0 0, run 0 0, cont 0 0, run 0 0,
   wTake, run 0 0, wDone 0, acquire 0, run 0 0, acquire 1, run 1 0]

open Label in
/-- a state in the middle of a run (see `wMid_facts`) -/
def wMidPath : List Label :=
  [rTake, rDeliver 0, rTake, rDeliver 0, rTake, rDeliver 0, acquire 0, run 0 0, acquire 1,
   cont 0 0, run 1 0, cont 0 0, run 0 0, cont 0 0, run 0 0, run 0 0, cont 0 0, cont 0 0, run 0 0,
   cont 0 0, cont 1 0]

def wFinal : State Nat (List Nat) := (runLabels wCfg wCodec (init wCfg wInput) wFinalPath).getD (init wCfg wInput)
def wMid : State Nat (List Nat) := (runLabels wCfg wCodec (init wCfg wInput) wMidPath).getD (init wCfg wInput)

theorem wFinal_run : runLabels wCfg wCodec (init wCfg wInput) wFinalPath = some wFinal := by decide
theorem wMid_run : runLabels wCfg wCodec (init wCfg wInput) wMidPath = some wMid := by decide

theorem wFinal_reach : Reach wCfg wCodec wInput wFinal := reach_of_run _ .init wFinal_run
theorem wMid_reach : Reach wCfg wCodec wInput wMid := reach_of_run _ .init wMid_run

theorem wFinal_facts : isFinal wFinal = true ∧ finished wCfg wFinal = true ∧
    wFinal.handed.map (·.pos) = [⟨0, 0⟩, ⟨1, 0⟩, ⟨2, 0⟩] ∧
    wFinal.written.map (·.enc) = [[0, 1], [0, 1], [0]] := by decide

/-- out-of-order situation: (0,0) handed over, (2,0) waits in `reord_q` for
    (1,0), which worker 1 is still encoding -/
theorem wMid_facts : wMid.handed.map (·.pos) = [⟨0, 0⟩] ∧ wMid.reordQ.map (·.pos) = [⟨2, 0⟩] ∧
    wMid.workUnits = 1 ∧ wMid.outSlots = 4 ∧ wMid.inSlots = 4 ∧ unitHolders wMid = 1 ∧
    slotHolders wMid = 2 ∧ isFinal wMid = false := by decide

end LbzVerif.Model.SchedC
