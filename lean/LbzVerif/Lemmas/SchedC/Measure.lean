/-
  Lemmas.SchedC.Measure — a termination measure for the compression scheduler.

  `mu s = (live s, 3 * work s + phase s)` ordered lexicographically:
    * `live`  = number of workers that have not exited;
    * `work`  = an upper bound on the sections (atomic transitions of reader,
                writer and of workers inside tasks) still to be executed: every
                byte of input, every in_blk, every work_blk is weighted by the
                pipeline stages it still has to pass;
    * `phase` = what the workers outside tasks still do on their own
                (`ready` → take the mutex → look at `next_task` → `xwait`).
  EVERY transition except a spurious wake-up strictly decreases `mu`
  (`step_measure`); a spurious wake-up leaves `live` and `work` alone and adds 2
  to `phase`.  Hypotheses: the collector facts `Codec.OK`, a positive chunk
  size, and `next_task = select_task()` (holds in reachable states).
-/
import LbzVerif.Lemmas.SchedC.Wake
import LbzVerif.Lemmas.SchedC.OutputS

namespace LbzVerif.Model.SchedC
open LbzVerif.Gen
set_option linter.unusedSimpArgs false

variable {α σ : Type}

/-! ### weights -/

/-- an in_blk held by a worker: `12 · bytes + 12` -/
def ibPot (ib : IBlk α) : Nat := 12 * ib.data.length + 12
/-- an in_blk in `coll_q`: one more (it still has to be dequeued) -/
def ibQ (ib : IBlk α) : Nat := ibPot ib + 1

def rdPot : RPhase → Nat
  | .idle => 3
  | .hold => 2
  | .eofPending => 1
  | .done => 0

/-- sections still to be executed for what a worker carries -/
def taskPot : WPhase α σ → Nat
  | .c1 ib => ibPot ib
  | .c2 _ => 6
  | .t1 _ => 4
  | .s1 wo ibo => 9 * optCount wo + (match ibo with | some ib => ibPot ib | none => 0)
  | .s2 _ true => 7
  | .s2 _ false => 11
  | _ => 0

def phasePot : WPhase α σ → Nat
  | .ready => 2
  | .atHead => 1
  | _ => 0

def liveW : WPhase α σ → Nat
  | .exited => 0
  | _ => 1

def work (s : State α σ) : Nat :=
  28 * s.input.length + rdPot s.rd + (s.collQ.map ibQ).sum + 5 * s.transQ.length +
    3 * s.reordQ.length + 2 * s.outputQ.length + optCount s.wr + 10 * optCount s.unfinished +
    wsum taskPot s.ws

def live (s : State α σ) : Nat := wsum liveW s.ws
def phase (s : State α σ) : Nat := wsum phasePot s.ws
def phi (s : State α σ) : Nat := 3 * work s + phase s

/-- the measure -/
def mu (s : State α σ) : Nat × Nat := (live s, phi s)

/-- what the epilogue of a section may still add -/
def kcost : EndKind → Nat
  | .unlock => 3
  | _ => 1

theorem taskPot_blind : Blind (taskPot (α := α) (σ := σ)) := rfl
theorem liveW_blind : Blind (liveW (α := α) (σ := σ)) := rfl

theorem wsum3 {ws : List (WPhase α σ)} {i : Nat} {q : WPhase α σ} (p : WPhase α σ)
    (h : ws[i]? = some q) :
    wsum taskPot (ws.set i p) + taskPot q = wsum taskPot ws + taskPot p ∧
    wsum phasePot (ws.set i p) + phasePot q = wsum phasePot ws + phasePot p ∧
    wsum liveW (ws.set i p) + liveW q = wsum liveW ws + liveW p :=
  ⟨wsum_set _ ws i p q h, wsum_set _ ws i p q h, wsum_set _ ws i p q h⟩

/-! ### the epilogue -/

theorem phase_wake {ws ws' : List (WPhase α σ)} (h : Wake ws ws') :
    wsum phasePot ws' ≤ wsum phasePot ws + 2 := by
  rcases h with rfl | ⟨k, hk, rfl⟩
  · omega
  · have := wsum_set phasePot ws k .ready .waiting hk
    simp only [phasePot] at this; omega

theorem ends_measure {c : Cfg} {k : EndKind} {t s' : State α σ} (h : EndsS c k t s') :
    live s' = live t ∧ phi s' + 1 ≤ 3 * work t + phase t + kcost k := by
  cases h with
  | unlock hw =>
    have h1 := wsum_wake (liveW_blind (α := α) (σ := σ)) hw.wake
    have h2 := wsum_wake (taskPot_blind (α := α) (σ := σ)) hw.wake
    have h3 := phase_wake hw.wake
    simp only [live, phi, work, phase, kcost] at *
    refine ⟨h1, ?_⟩
    omega
  | resel => exact ⟨rfl, by simp only [phi, reselect, work, phase, kcost]; omega⟩
  | plain => exact ⟨rfl, by simp only [phi, kcost]; omega⟩

/-! ### the body -/

section
variable {c : Cfg} {cd : Codec α σ} {s t : State α σ} {k : EndKind}

theorem sum_tail_head (f : IBlk α → Nat) (l : List (IBlk α)) :
    (l.tail.map f).sum + (match l.head? with | some ib => f ib | none => 0) = (l.map f).sum := by
  cases l <;> simp <;> omega

theorem core_measure (ok : cd.OK) (hg : 0 < c.inGranul) (sel : SelInv c s)
    (h : Core c cd s k t) (hns : NotSpurShape s t) :
    live t < live s ∨
    (live t = live s ∧ 3 * work t + phase t + kcost k ≤ 3 * work s + phase s) := by
  cases h with
  | rTake hr hi =>
    right; refine ⟨rfl, ?_⟩
    simp only [work, phase, kcost, hr, rdPot]; omega
  | rDeliver hr hi hl =>
    right; refine ⟨rfl, ?_⟩
    have hpos : 0 < s.input.length := List.length_pos_iff.mpr hi
    have hz : ∀ (p : Prop) [Decidable p], rdPot (if p then RPhase.eofPending else RPhase.idle) ≤ 3 := by
      intro p _; split <;> simp [rdPot]
    have := hz ((s.input.take c.inGranul).length < c.inGranul)
    simp only [work, phase, kcost, hr, rdPot, sum_map_insI, ibQ, ibPot, List.length_take,
      List.length_drop] at this ⊢
    omega
  | rEmpty hr hi =>
    right; refine ⟨rfl, ?_⟩
    simp only [work, phase, kcost, hr, rdPot]; omega
  | rEof hr hl =>
    right; refine ⟨rfl, ?_⟩
    simp only [work, phase, kcost, hr, rdPot]; omega
  | wTake b q hw hq =>
    right; refine ⟨rfl, ?_⟩
    simp only [work, phase, kcost, hw, hq, optCount, List.length_cons]; omega
  | wDone b hw hl =>
    right; refine ⟨rfl, ?_⟩
    simp only [work, phase, kcost, hw, optCount]; omega
  | runReorder i w q hw hn hq =>
    right; refine ⟨rfl, ?_⟩
    simp only [work, phase, kcost, hq, List.length_cons, List.length_append, List.length_nil]
    omega
  | acquire i hw hl =>
    obtain ⟨e1, e2, e3⟩ := wsum3 .atHead hw
    simp only [taskPot, phasePot, liveW] at e1 e2 e3
    right
    simp only [live, work, phase, kcost, setW]; omega
  | spurious i hw => exact absurd hns (spurious_not_shape hw)
  | runWait i hw hn hf =>
    obtain ⟨e1, e2, e3⟩ := wsum3 .waiting hw
    simp only [taskPot, phasePot, liveW] at e1 e2 e3
    right
    simp only [live, work, phase, kcost, setW]; omega
  | runExit i hw hn hf =>
    obtain ⟨e1, e2, e3⟩ := wsum3 .exited hw
    have b := wsum_broadcast (liveW_blind (α := α) (σ := σ)) (s.ws.set i .exited)
    simp only [taskPot, phasePot, liveW] at e1 e2 e3
    left
    simp only [live]; omega
  | runCollect i ib q hw hn hq hwu =>
    obtain ⟨e1, e2, e3⟩ := wsum3 (.c1 ib) hw
    simp only [taskPot, phasePot, liveW] at e1 e2 e3
    right
    simp only [live, work, phase, kcost, setW, hq, List.map_cons, List.sum_cons, ibQ]; omega
  | runTransmit i w q hw hn hq hos =>
    obtain ⟨e1, e2, e3⟩ := wsum3 (.t1 w) hw
    simp only [taskPot, phasePot, liveW] at e1 e2 e3
    right
    simp only [live, work, phase, kcost, setW, hq, List.length_cons]; omega
  | c1Requeue i ib hw hl hf =>
    obtain ⟨e1, e2, e3⟩ := wsum3 (.c2 ⟨ib.pos, ib.pos.incMinor, (collectOn cd cd.init ib.data).1⟩) hw
    simp only [taskPot, phasePot, liveW] at e1 e2 e3
    have hc := (requeue_cond cd ok none ib hl).2
    simp only [Option.getD_none, Option.isSome_none, Bool.false_eq_true, or_false] at hc
    right
    simp only [live, work, phase, kcost, setW, sum_map_insI, ibQ, ibPot] at e1 ⊢; omega
  | c1Release i ib hw hl =>
    obtain ⟨e1, e2, e3⟩ := wsum3 (.c2 ⟨ib.pos, ib.pos.incMajor, (collectOn cd cd.init ib.data).1⟩) hw
    simp only [taskPot, phasePot, liveW] at e1 e2 e3
    right
    simp only [live, work, phase, kcost, setW, ibPot] at e1 ⊢; omega
  | c2Enq i w hw hf =>
    obtain ⟨e1, e2, e3⟩ := wsum3 .atHead hw
    simp only [taskPot, phasePot, liveW] at e1 e2 e3
    right
    simp only [live, work, phase, kcost, setW, insW_length]; omega
  | t1Enq i w hw hf =>
    obtain ⟨e1, e2, e3⟩ := wsum3 .atHead hw
    simp only [taskPot, phasePot, liveW] at e1 e2 e3
    right
    simp only [live, work, phase, kcost, setW, insW_length]; omega
  | runCollectSeq i hw hn hg' =>
    have hrdy : cCanCollectSeq (view c s) = true := selectTask_ready (sel.symm.trans hn)
    simp only [cCanCollectSeq, view, Bool.and_eq_true, Bool.or_eq_true, Bool.not_eq_true',
      List.isEmpty_eq_false_iff, Option.isSome_map] at hrdy
    right
    cases hq : s.collQ with
    | cons ib q =>
      obtain ⟨e1, e2, e3⟩ := wsum3 (.s1 s.unfinished (some ib)) hw
      simp only [taskPot, phasePot, liveW] at e1 e2 e3
      simp only [live, work, phase, kcost, setW, optCount, hq, List.head?_cons, List.tail_cons,
        List.map_cons, List.sum_cons, ibQ] at e1 ⊢
      omega
    | nil =>
      have hu : s.unfinished.isSome = true := by
        rcases hrdy.1.2 with h' | h'
        · exact absurd hq h'
        · exact h'.2
      cases hun : s.unfinished with
      | none => rw [hun] at hu; cases hu
      | some w =>
        obtain ⟨e1, e2, e3⟩ := wsum3 (.s1 (some w) none) hw
        simp only [taskPot, phasePot, liveW, optCount] at e1 e2 e3
        simp only [live, work, phase, kcost, setW, hq, hun, optCount, List.head?_nil,
          List.tail_nil, List.map_nil, List.sum_nil]
        omega
  | s1Requeue i wo ib hw hl hf =>
    obtain ⟨hfull, hc⟩ := requeue_cond cd ok wo ib hl
    have hle := collectOn_length_le cd (wo.getD ⟨ib.pos, ib.pos, cd.init⟩).enc ib.data
    obtain ⟨e1, e2, e3⟩ := wsum3 (.s2 ⟨(wo.getD ⟨ib.pos, ib.pos, cd.init⟩).pos,
      (wo.getD ⟨ib.pos, ib.pos, cd.init⟩).next.incMinor,
      (collectOn cd (wo.getD ⟨ib.pos, ib.pos, cd.init⟩).enc ib.data).1⟩ true) hw
    simp only [taskPot, phasePot, liveW] at e1 e2 e3
    right
    cases wo with
    | none =>
      simp only [Option.isSome_none, Bool.false_eq_true, or_false] at hc
      simp only [Option.getD_none] at hfull hc hle e1 e2 e3
      simp only [live, work, phase, kcost, setW, sum_map_insI, ibQ, ibPot, optCount, hfull,
        Option.getD_none] at e1 ⊢
      omega
    | some w0 =>
      simp only [Option.getD_some] at hfull hc hle e1 e2 e3
      simp only [live, work, phase, kcost, setW, sum_map_insI, ibQ, ibPot, optCount, hfull,
        Option.getD_some] at e1 ⊢
      omega
  | s1Release i wo ib hw hl =>
    right
    cases hfl : (collectOn cd (wo.getD ⟨ib.pos, ib.pos, cd.init⟩).enc ib.data).2.2 with
    | true =>
      obtain ⟨e1, e2, e3⟩ := wsum3 (.s2 ⟨(wo.getD ⟨ib.pos, ib.pos, cd.init⟩).pos,
        (wo.getD ⟨ib.pos, ib.pos, cd.init⟩).next.incMajor,
        (collectOn cd (wo.getD ⟨ib.pos, ib.pos, cd.init⟩).enc ib.data).1⟩ true) hw
      simp only [taskPot, phasePot, liveW] at e1 e2 e3
      cases wo <;>
        simp only [live, work, phase, kcost, setW, ibPot, optCount] at e1 ⊢ <;> omega
    | false =>
      obtain ⟨e1, e2, e3⟩ := wsum3 (.s2 ⟨(wo.getD ⟨ib.pos, ib.pos, cd.init⟩).pos,
        (wo.getD ⟨ib.pos, ib.pos, cd.init⟩).next.incMajor,
        (collectOn cd (wo.getD ⟨ib.pos, ib.pos, cd.init⟩).enc ib.data).1⟩ false) hw
      simp only [taskPot, phasePot, liveW] at e1 e2 e3
      cases wo <;>
        simp only [live, work, phase, kcost, setW, ibPot, optCount] at e1 ⊢ <;> omega
  | s1Flush i w hw hf =>
    obtain ⟨e1, e2, e3⟩ := wsum3 (.c2 w) hw
    simp only [taskPot, phasePot, liveW, optCount] at e1 e2 e3
    right
    simp only [live, work, phase, kcost, setW]; omega
  | s2Full i w hw hf =>
    obtain ⟨e1, e2, e3⟩ := wsum3 (.c2 w) hw
    simp only [taskPot, phasePot, liveW] at e1 e2 e3
    right
    simp only [live, work, phase, kcost, setW]; omega
  | s2Part i w hw hf =>
    obtain ⟨e1, e2, e3⟩ := wsum3 .atHead hw
    simp only [taskPot, phasePot, liveW] at e1 e2 e3
    right
    -- `unfinished_work` was NULL (the token was taken): not needed, only ≥ 0
    cases hun : s.unfinished <;>
      simp only [live, work, phase, kcost, setW, optCount, hun] at e1 ⊢ <;> omega

end

/-- the order in which `mu` decreases -/
def muLt (a b : Nat × Nat) : Prop := a.1 < b.1 ∨ (a.1 = b.1 ∧ a.2 < b.2)

theorem muLt_wf : WellFounded muLt := by
  refine Subrelation.wf (r := Prod.Lex (· < ·) (· < ·)) ?_
    (Prod.lex Nat.lt_wfRel Nat.lt_wfRel).wf
  intro a b h
  obtain ⟨a1, a2⟩ := a
  obtain ⟨b1, b2⟩ := b
  rcases h with h | ⟨h1, h2⟩
  · exact Prod.Lex.left _ _ h
  · simp only at h1 h2
    subst h1
    exact Prod.Lex.right _ h2

/-- **every transition except a spurious wake-up decreases the measure** -/
theorem step_measure {c : Cfg} {cd : Codec α σ} {s s' : State α σ} {l : Label}
    (ok : cd.OK) (hg : 0 < c.inGranul) (sel : SelInv c s) (hl : l.isSpurious = false)
    (hs : step c cd s l = some s') : muLt (mu s') (mu s) := by
  obtain ⟨k, t, hc, he, hsp⟩ := step_relS hs
  have hns : NotSpurShape s t := by
    rcases hsp with h | h
    · rw [hl] at h; cases h
    · exact h
  obtain ⟨e1, e2⟩ := ends_measure he
  rcases core_measure ok hg sel hc hns with h | ⟨h1, h2⟩
  · left; simp only [mu]; omega
  · right; simp only [mu, phi] at *; omega

/-- a spurious wake-up leaves `live` and `work` alone and adds 2 to `phase` -/
theorem spurious_measure {c : Cfg} {cd : Codec α σ} {s s' : State α σ} {i : Nat}
    (hs : step c cd s (.spurious i) = some s') :
    live s' = live s ∧ work s' = work s ∧ phase s' = phase s + 2 := by
  simp only [step] at hs
  split at hs
  · next hw =>
    cases hs
    obtain ⟨e1, e2, e3⟩ := wsum3 .ready hw
    simp only [taskPot, phasePot, liveW] at e1 e2 e3
    simp only [live, work, phase, setW]
    omega
  · cases hs

end LbzVerif.Model.SchedC
