/-
  Lemmas.SchedC.Progress — enabledness: in a reachable state every thread that
  is not blocked on a condition variable has an enabled transition, and the
  stored `next_task` can always be run (its guard — generated — implies the
  preconditions of the task body: non-empty queue, a unit / slot to take).
-/
import LbzVerif.Lemmas.SchedC.Restore

namespace LbzVerif.Model.SchedC
open LbzVerif.Gen

variable {α σ : Type}

theorem signal_some (ws : List (WPhase α σ)) : ∃ k ws', signal ws k = some ws' := by
  by_cases h : ws.any (·.isWaiting) = true
  · obtain ⟨p, hp, hw⟩ := List.any_eq_true.mp h
    obtain ⟨k, hk⟩ := List.getElem?_of_mem hp
    have : p = .waiting := by cases p <;> simp [WPhase.isWaiting] at hw ⊢
    subst this
    exact ⟨k, ws.set k .ready, by simp [signal, h, hk]⟩
  · exact ⟨0, ws, by simp [signal, h]⟩

theorem unlock_some (c : Cfg) (s : State α σ) : ∃ k s', unlock c s k = some s' := by
  unfold unlock
  dsimp only
  by_cases hc : ((reselect c s).nextTask.isSome || finished c (reselect c s)) = true
  · obtain ⟨k, ws', hk⟩ := signal_some (reselect c s).ws
    exact ⟨k, _, by rw [if_pos hc, hk]; rfl⟩
  · exact ⟨0, _, by rw [if_neg hc]⟩

/-- a worker at the loop head can always take its step: the stored
    `next_task` is runnable (queue non-empty, resource available), or it waits,
    or it exits. -/
theorem head_enabled {c : Cfg} {s : State α σ} (sel : SelInv c s) (i : Nat) :
    ∃ k s', runHead c s i k = some s' := by
  unfold runHead
  cases hn : s.nextTask with
  | none =>
    simp only
    split
    · exact ⟨0, _, rfl⟩
    · exact ⟨0, _, rfl⟩
  | some t =>
    have hrdy := selectTask_ready (sel.symm.trans hn)
    cases t with
    | collect =>
      simp only [Task.ready, cCanCollect, view, Bool.and_eq_true, Bool.not_eq_true',
        decide_eq_true_eq, List.isEmpty_eq_false_iff] at hrdy
      obtain ⟨⟨_, hq⟩, hwu⟩ := hrdy
      have hwu := of_decide_eq_true hwu
      cases hq' : s.collQ with
      | nil => exact absurd hq' hq
      | cons ib q =>
        obtain ⟨k, s', hk⟩ := unlock_some c
          (setW { s with collQ := q, workUnits := s.workUnits - 1 } i (.c1 ib))
        refine ⟨k, s', ?_⟩
        simp only [runTask, hq']
        rw [if_neg (by omega)]; exact hk
    | collectSeq =>
      simp only [Task.ready, cCanCollectSeq, view, Bool.and_eq_true, Bool.or_eq_true,
        decide_eq_true_eq, Option.isSome_map] at hrdy
      obtain ⟨_, hwu⟩ := hrdy
      obtain ⟨k, s', hk⟩ := unlock_some c
        (setW { s with unfinished := none
                       workUnits := if s.unfinished.isNone then s.workUnits - 1 else s.workUnits
                       collQ := s.collQ.tail, collectToken := false }
          i (.s1 s.unfinished s.collQ.head?))
      refine ⟨k, s', ?_⟩
      simp only [runTask]
      have : (s.unfinished.isNone && s.workUnits == 0) = false := by
        rcases hwu with h | h
        · have h := of_decide_eq_true h
          have : (s.workUnits == 0) = false := by simp; omega
          simp [this]
        · cases hu : s.unfinished <;> simp [hu] at h ⊢
      rw [this]; exact hk
    | transmit =>
      simp only [Task.ready, cCanTransmit, view, Bool.and_eq_true, Bool.not_eq_true',
        Bool.or_eq_true, decide_eq_true_eq, List.isEmpty_eq_false_iff] at hrdy
      obtain ⟨hq, hos⟩ := hrdy
      cases hq' : s.transQ with
      | nil => exact absurd hq' hq
      | cons w q =>
        obtain ⟨k, s', hk⟩ := unlock_some c
          (setW { s with transQ := q, outSlots := s.outSlots - 1 } i (.t1 w))
        refine ⟨k, s', ?_⟩
        simp only [runTask, hq']
        have : s.outSlots ≠ 0 := by
          rcases hos with h | h
          · have h := of_decide_eq_true h; omega
          · have h := of_decide_eq_true h.1; omega
        rw [if_neg this]; exact hk
    | reorder =>
      simp only [Task.ready, cCanReorder, view, Bool.and_eq_true, Bool.not_eq_true',
        List.isEmpty_eq_false_iff] at hrdy
      cases hq' : s.reordQ with
      | nil => exact absurd hq' hrdy.1
      | cons w q =>
        have : (runTask c s i 0 .reorder).isSome = true := by simp [runTask, hq']
        obtain ⟨s', hs'⟩ := Option.isSome_iff_exists.mp this
        exact ⟨0, s', hs'⟩

/-- a thread is *active*: it is not blocked on a condition variable (worker in
    `xwait`, reader with no free input slot, writer with nothing to write) and
    has not finished. -/
def Active (s : State α σ) : Prop :=
  (∃ p ∈ s.ws, p.isWaiting = false ∧ p.isExited = false) ∨
  s.rd = .hold ∨ s.rd = .eofPending ∨ (s.rd = .idle ∧ 0 < s.inSlots) ∨
  s.wr.isSome ∨ s.outputQ ≠ []

/-- workers never sit in the impossible phase `s1 none none`
    (`assert(iblk != NULL)` in `do_collect_seq`) -/
def NoBadS1 (s : State α σ) : Prop := ∀ p ∈ s.ws, p ≠ .s1 none none

end LbzVerif.Model.SchedC
