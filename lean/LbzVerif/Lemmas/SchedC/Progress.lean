/-
  Lemmas.SchedC.Progress — (placeholder, filled in below) progress lemmas.
-/
import LbzVerif.Lemmas.SchedC.Restore

namespace LbzVerif.Model.SchedC
end LbzVerif.Model.SchedC
