/-
  Lemmas.SchedC.UnitN — NON-sequential mode: a work unit is always available
  for the minimal `coll_q` entry, in the following sense: for every in_blk in
  `coll_q`, the unit holders whose block lies strictly AFTER it number at most
  `num_worker - 1`.  (An in_blk is dequeued only when it is minimal, and the
  worker that re-queues the rest of an in_blk holds a unit for a block before
  it.)  Plus: `coll_q` is sorted, everything in flight is older than the next
  chunk to be read, `unfinished_work` stays NULL.
-/
import LbzVerif.Lemmas.SchedC.Reserve
import LbzVerif.Lemmas.SchedC.OutputN

namespace LbzVerif.Model.SchedC
open LbzVerif.Gen
set_option linter.unusedSimpArgs false

variable {α σ : Type}

def ascI (q : List (IBlk α)) : Prop := q.Pairwise (fun a b => b.pos.lt a.pos = false)

theorem insI_asc (w : IBlk α) (q : List (IBlk α)) (h : ascI q) : ascI (insI w q) := by
  induction q with
  | nil => exact List.pairwise_singleton _ _
  | cons y l ih =>
    obtain ⟨hy, hl⟩ := List.pairwise_cons.mp h
    simp only [insI]
    split
    · next hlt =>
      refine List.pairwise_cons.mpr ⟨?_, h⟩
      intro z hz
      rcases List.mem_cons.mp hz with rfl | hz
      · exact Pos.lt_asymm hlt
      · cases hzw : z.pos.lt w.pos with
        | false => rfl
        | true =>
          have := Pos.lt_trans hzw hlt
          rw [hy z hz] at this; cases this
    · next hlt =>
      refine List.pairwise_cons.mpr ⟨?_, ih hl⟩
      intro z hz
      rcases mem_insI.mp hz with rfl | hz
      · simpa using hlt
      · exact hy z hz

/-- position of the block a unit-holding worker works on -/
def holdPos : WPhase α σ → Option Pos
  | .c1 ib => some ib.pos
  | .c2 w | .t1 w => some w.pos
  | _ => none

/-- 1 for a unit holder whose block is strictly after `p` -/
def hInd (p : Pos) (ph : WPhase α σ) : Nat :=
  match holdPos ph with
  | some q => if p.lt q then 1 else 0
  | none => 0

/-- unit holders strictly after `p` -/
def cntHold (s : State α σ) (p : Pos) : Nat :=
  s.transQ.countP (fun w => p.lt w.pos) + wsum (hInd p) s.ws

theorem hInd_blind (p : Pos) : Blind (hInd (α := α) (σ := σ) p) := rfl

theorem hInd_le_units (p : Pos) (ph : WPhase α σ) : hInd p ph ≤ ph.units := by
  cases ph <;> simp [hInd, holdPos, WPhase.units] <;> split <;> omega

/-- a unit holder that is not counted leaves room -/
theorem hold_room {ws : List (WPhase α σ)} {i : Nat} {q : WPhase α σ} (p : Pos)
    (h : ws[i]? = some q) (h0 : hInd p q = 0) (h1 : q.units = 1) :
    wsum (hInd p) ws + 1 ≤ wsum WPhase.units ws := by
  have e1 := wsum_set (hInd p) ws i .ready q h
  have e2 := wsum_set WPhase.units ws i .ready q h
  have m := wsum_mono (hInd_le_units (α := α) (σ := σ) p) (ws.set i .ready)
  have r1 : hInd p (WPhase.ready : WPhase α σ) = 0 := rfl
  have r2 : (WPhase.ready : WPhase α σ).units = 0 := rfl
  rw [h0, r1] at e1
  rw [h1, r2] at e2
  omega

structure NInv (c : Cfg) (s : State α σ) : Prop where
  asc : ascI s.collQ
  qLt : ∀ ib ∈ s.collQ, ib.pos.major < s.nextId
  tLt : ∀ w ∈ s.transQ, w.pos.major < s.nextId
  hLt : ∀ p ∈ s.ws, ∀ q, holdPos p = some q → q.major < s.nextId
  unf : s.unfinished = none
  unit : ∀ ib ∈ s.collQ, cntHold s ib.pos + 1 ≤ c.n

theorem nInv_init (c : Cfg) (input : List α) : NInv c (init (σ := σ) c input) := by
  have hm : ∀ p ∈ (init (σ := σ) c input).ws, p = .ready := by
    intro p hp
    simp only [init, initWith, reselect, List.mem_replicate] at hp
    exact hp.2
  refine ⟨List.Pairwise.nil, ?_, ?_, ?_, rfl, ?_⟩
  · intro ib h; simp [init, initWith, reselect] at h
  · intro ib h; simp [init, initWith, reselect] at h
  · intro p hp q h; rw [hm p hp] at h; cases h
  · intro ib h; simp [init, initWith, reselect] at h

theorem nInv_ends {c : Cfg} {k : EndKind} {t s' : State α σ} (h : Ends c k t s')
    (inv : NInv c t) : NInv c s' := by
  cases h with
  | unlock hw =>
    refine ⟨inv.1, inv.2, inv.3, ?_, inv.5, ?_⟩
    · intro p hp q h
      rcases mem_wake hw hp with rfl | hm
      · cases h
      · exact inv.4 p hm q h
    · intro ib hib
      have := inv.6 ib hib
      simp only [cntHold] at this ⊢
      rw [wsum_wake (hInd_blind _) hw]; exact this
  | resel => exact ⟨inv.1, inv.2, inv.3, inv.4, inv.5, inv.6⟩
  | plain => exact inv

/-- nothing in flight is at or after the next chunk: no holder is after it -/
theorem cntHold_fresh {s : State α σ} (tLt : ∀ w ∈ s.transQ, w.pos.major < s.nextId)
    (hLt : ∀ p ∈ s.ws, ∀ q, holdPos p = some q → q.major < s.nextId) :
    cntHold s ⟨s.nextId, 0⟩ = 0 := by
  have h1 : s.transQ.countP (fun w => (⟨s.nextId, 0⟩ : Pos).lt w.pos) = 0 := by
    apply List.countP_eq_zero.mpr
    intro w hw
    have := tLt w hw
    simp only [Pos.lt, Bool.or_eq_true, Bool.and_eq_true, decide_eq_true_eq, not_or, not_and]
    omega
  have h2 : ∀ ws : List (WPhase α σ), (∀ p ∈ ws, ∀ q, holdPos p = some q → q.major < s.nextId) →
      wsum (hInd ⟨s.nextId, 0⟩) ws = 0 := by
    intro ws
    induction ws with
    | nil => intro _; rfl
    | cons p l ih =>
      intro h
      have hl := ih (fun r hr => h r (List.mem_cons_of_mem _ hr))
      simp only [wsum, List.map_cons, List.sum_cons] at hl ⊢
      rw [hl]
      have hp := h p List.mem_cons_self
      simp only [hInd]
      cases hh : holdPos p with
      | none => rfl
      | some q =>
        have := hp q hh
        simp only [Pos.lt, Bool.or_eq_true, Bool.and_eq_true, decide_eq_true_eq]
        rw [if_neg (by omega)]
  simp only [cntHold, h1, h2 s.ws hLt]

section
variable {c : Cfg} {cd : Codec α σ} {s t : State α σ} {k : EndKind}

theorem hLt_set {ws : List (WPhase α σ)} {n : Nat}
    (h : ∀ p ∈ ws, ∀ q, holdPos p = some q → q.major < n) (i : Nat) (p : WPhase α σ)
    (hp : ∀ q, holdPos p = some q → q.major < n) :
    ∀ r ∈ ws.set i p, ∀ q, holdPos r = some q → q.major < n := by
  intro r hr q hq
  rcases mem_set' hr with rfl | hm
  · exact hp q hq
  · exact h r hm q hq

theorem nInv_core (hu : c.ultra = false) (hn : 1 ≤ c.n) (h : Core c cd s k t)
    (inv : NInv c s) (sh : ShapeN s) (cons : Conserved c t) (sel : SelInv c s) :
    NInv c t := by
  obtain ⟨i1, i2, i3, i4, i5, i6⟩ := inv
  have noS : ∀ {i : Nat} {p : WPhase α σ}, s.ws[i]? = some p → p.tok = 0 :=
    fun h => sh.noSeq _ (List.mem_of_getElem? h)
  have seti : ∀ (x : Pos) {i : Nat} {q : WPhase α σ} (p : WPhase α σ), s.ws[i]? = some q →
      wsum (hInd x) (s.ws.set i p) + hInd x q = wsum (hInd x) s.ws + hInd x p :=
    fun x _ _ p h => wsum_set _ s.ws _ p _ h
  have nohold : ∀ p : WPhase α σ, holdPos p = none → ∀ q, holdPos p = some q → q.major < s.nextId :=
    fun p hp q hq => by rw [hp] at hq; cases hq
  cases h with
  | rTake hr hi => exact ⟨i1, i2, i3, i4, i5, i6⟩
  | rDeliver hr hi hl =>
    refine ⟨insI_asc _ _ i1, ?_, ?_, ?_, i5, ?_⟩
    · intro ib hib
      show ib.pos.major < s.nextId + 1
      rcases mem_insI.mp hib with rfl | h
      · show s.nextId < s.nextId + 1; omega
      · have := i2 ib h; omega
    · intro w hw; have := i3 w hw; show _ < s.nextId + 1; omega
    · intro p hp q hq; have := i4 p hp q hq; show _ < s.nextId + 1; omega
    · intro ib hib
      rcases mem_insI.mp hib with rfl | h
      · have := cntHold_fresh i3 i4
        simp only [cntHold] at this ⊢
        omega
      · exact i6 ib h
  | rEmpty hr hi => exact ⟨i1, i2, i3, i4, i5, i6⟩
  | rEof hr hl => exact ⟨i1, i2, i3, i4, i5, i6⟩
  | wTake b q hw hq => exact ⟨i1, i2, i3, i4, i5, i6⟩
  | wDone b hw hl => exact ⟨i1, i2, i3, i4, i5, i6⟩
  | runReorder i w q hw hn' hq => exact ⟨i1, i2, i3, i4, i5, i6⟩
  | acquire i hw hl =>
    refine ⟨i1, i2, i3, hLt_set i4 i _ (nohold _ rfl), i5, ?_⟩
    intro ib hib
    have e := seti ib.pos .atHead hw
    have := i6 ib hib
    simp only [cntHold, setW, hInd, holdPos] at e this ⊢
    omega
  | spurious i hw =>
    refine ⟨i1, i2, i3, hLt_set i4 i _ (nohold _ rfl), i5, ?_⟩
    intro ib hib
    have e := seti ib.pos .ready hw
    have := i6 ib hib
    simp only [cntHold, setW, hInd, holdPos] at e this ⊢
    omega
  | runWait i hw hn' hf =>
    refine ⟨i1, i2, i3, hLt_set i4 i _ (nohold _ rfl), i5, ?_⟩
    intro ib hib
    have e := seti ib.pos .waiting hw
    have := i6 ib hib
    simp only [cntHold, setW, hInd, holdPos] at e this ⊢
    omega
  | runExit i hw hn' hf =>
    refine ⟨i1, i2, i3, ?_, i5, ?_⟩
    · intro p hp q hq
      rcases mem_broadcast hp with rfl | hm
      · cases hq
      · exact hLt_set i4 i _ (nohold _ rfl) p hm q hq
    · intro ib hib
      have e := seti ib.pos .exited hw
      have b := wsum_broadcast (hInd_blind (α := α) (σ := σ) ib.pos) (s.ws.set i .exited)
      have := i6 ib hib
      simp only [cntHold, hInd, holdPos] at e b this ⊢
      omega
  | runCollect i ib q hw hn' hq hwu =>
    rw [hq] at i1 i2 i6
    obtain ⟨ha, hb⟩ := List.pairwise_cons.mp i1
    refine ⟨hb, fun x hx => i2 x (List.mem_cons_of_mem _ hx), i3, ?_, i5, ?_⟩
    · apply hLt_set i4
      intro q' hq'
      simp only [holdPos, Option.some.injEq] at hq'
      subst hq'
      exact i2 ib List.mem_cons_self
    · intro x hx
      have e := seti x.pos (.c1 ib) hw
      have := i6 x (List.mem_cons_of_mem _ hx)
      have h0 : hInd x.pos (WPhase.c1 ib : WPhase α σ) = 0 := by
        simp only [hInd, holdPos, ha x hx, Bool.false_eq_true, if_false]
      have h1 : hInd x.pos (WPhase.atHead : WPhase α σ) = 0 := rfl
      rw [h0, h1] at e
      simp only [cntHold, setW] at this ⊢
      omega
  | runCollectSeq i hw hn' hg' =>
    have hrdy : cCanCollectSeq (view c s) = true := selectTask_ready (sel.symm.trans hn')
    simp [cCanCollectSeq, view, hu] at hrdy
  | runTransmit i w q hw hn' hq hos =>
    rw [hq] at i3
    refine ⟨i1, i2, fun x hx => i3 x (List.mem_cons_of_mem _ hx), ?_, i5, ?_⟩
    · apply hLt_set i4
      intro q' hq'
      simp only [holdPos, Option.some.injEq] at hq'
      subst hq'
      exact i3 w List.mem_cons_self
    · intro x hx
      have e := seti x.pos (.t1 w) hw
      have := i6 x hx
      have h1 : hInd x.pos (WPhase.atHead : WPhase α σ) = 0 := rfl
      rw [h1] at e
      simp only [cntHold, setW, hq, List.countP_cons, hInd, holdPos] at e this ⊢
      omega
  | c1Requeue i ib hw hl hf =>
    have hibLt : ib.pos.major < s.nextId := i4 _ (List.mem_of_getElem? hw) ib.pos rfl
    refine ⟨insI_asc _ _ i1, ?_, i3, ?_, i5, ?_⟩
    · intro x hx
      rcases mem_insI.mp hx with rfl | h
      · exact hibLt
      · exact i2 x h
    · apply hLt_set i4
      intro q' hq'
      simp only [holdPos, Option.some.injEq] at hq'
      subst hq'; exact hibLt
    · intro x hx
      rcases mem_insI.mp hx with rfl | h
      · -- the re-queued rest: the re-queuing worker holds a unit for an earlier block
        have hget : (s.ws.set i (WPhase.c2 ⟨ib.pos, ib.pos.incMinor,
            (collectOn cd cd.init ib.data).1⟩))[i]? =
            some (WPhase.c2 ⟨ib.pos, ib.pos.incMinor, (collectOn cd cd.init ib.data).1⟩) := by
          have hlt : i < s.ws.length := by
            rcases Nat.lt_or_ge i s.ws.length with h' | h'
            · exact h'
            · rw [List.getElem?_eq_none h'] at hw; cases hw
          simp [hlt]
        have room := hold_room ib.pos.incMinor hget
          (by simp only [hInd, holdPos, Pos.lt_asymm (Pos.lt_incMinor ib.pos), Bool.false_eq_true,
                if_false]) rfl
        have hu' := cons.units
        have hcp : s.transQ.countP (fun w => ib.pos.incMinor.lt w.pos) ≤ s.transQ.length :=
          List.countP_le_length
        simp only [unitHolders, setW] at hu'
        simp only [wsum] at room
        simp only [cntHold, setW, wsum]
        omega
      · have e := seti x.pos (.c2 ⟨ib.pos, ib.pos.incMinor, (collectOn cd cd.init ib.data).1⟩) hw
        have := i6 x h
        simp only [cntHold, setW, hInd, holdPos] at e this ⊢
        omega
  | c1Release i ib hw hl =>
    have hibLt : ib.pos.major < s.nextId := i4 _ (List.mem_of_getElem? hw) ib.pos rfl
    refine ⟨i1, i2, i3, ?_, i5, ?_⟩
    · apply hLt_set i4
      intro q' hq'
      simp only [holdPos, Option.some.injEq] at hq'
      subst hq'; exact hibLt
    · intro x hx
      have e := seti x.pos (.c2 ⟨ib.pos, ib.pos.incMajor, (collectOn cd cd.init ib.data).1⟩) hw
      have := i6 x hx
      simp only [cntHold, setW, hInd, holdPos] at e this ⊢
      omega
  | c2Enq i w hw hf =>
    have hwLt : w.pos.major < s.nextId := i4 _ (List.mem_of_getElem? hw) w.pos rfl
    refine ⟨i1, i2, ?_, hLt_set i4 i _ (nohold _ rfl), i5, ?_⟩
    · intro x hx
      rcases mem_insW.mp hx with rfl | h
      · exact hwLt
      · exact i3 x h
    · intro x hx
      have e := seti x.pos .atHead hw
      have := i6 x hx
      simp only [cntHold, setW, hInd, holdPos, countP_insW] at e this ⊢
      omega
  | t1Enq i w hw hf =>
    refine ⟨i1, i2, i3, hLt_set i4 i _ (nohold _ rfl), i5, ?_⟩
    intro x hx
    have e := seti x.pos .atHead hw
    have := i6 x hx
    have h1 : hInd x.pos (WPhase.atHead : WPhase α σ) = 0 := rfl
    rw [h1] at e
    simp only [cntHold, setW] at e this ⊢
    omega
  | s1Requeue i wo ib hw hl hf => exact absurd (noS hw) (by simp [WPhase.tok])
  | s1Release i wo ib hw hl => exact absurd (noS hw) (by simp [WPhase.tok])
  | s1Flush i w hw hf => exact absurd (noS hw) (by simp [WPhase.tok])
  | s2Full i w hw hf => exact absurd (noS hw) (by simp [WPhase.tok])
  | s2Part i w hw hf => exact absurd (noS hw) (by simp [WPhase.tok])

end

theorem nInv_reach {c : Cfg} {cd : Codec α σ} {input : List α} {s : State α σ}
    (ok : cd.OK) (hu : c.ultra = false) (hg : 0 < c.inGranul) (hn : 1 ≤ c.n)
    (h : Reach c cd input s) : NInv c s := by
  induction h with
  | init => exact nInv_init c input
  | step l hr hs ih =>
    obtain ⟨k, t, hc, he⟩ := step_rel hs
    have i1 := inv1_reach hr
    have ct := conserved_core hc i1.cons i1.sel
    exact nInv_ends he (nInv_core hu hn hc ih (outN_reach ok hu hg hr).1 ct i1.sel)

end LbzVerif.Model.SchedC
