/-
  Lemmas.SchedC.Order — what is handed to `sink_write_buffer` follows the
  `next` chain from (0,0) (strictly increasing, gap-free, `order` = end of the
  chain) and the writer writes in hand-over order; inductive invariant.
-/
import LbzVerif.Lemmas.SchedC.Conserve

namespace LbzVerif.Model.SchedC
open LbzVerif.Gen

variable {α σ : Type}

/-- the work_blk a worker carries -/
def WPhase.wblk : WPhase α σ → Option (WBlk σ)
  | .c2 w | .t1 w | .s2 w _ | .s1 (some w) _ => some w
  | _ => none

/-- `pos < next` -/
def WOk (w : WBlk σ) : Prop := w.pos.lt w.next = true

theorem Pos.lt_incMinor (p : Pos) : p.lt p.incMinor = true := by
  simp [Pos.lt, Pos.incMinor]
theorem Pos.lt_incMajor (p : Pos) : p.lt p.incMajor = true := by
  simp [Pos.lt, Pos.incMajor]
theorem Pos.lt_incMinor_of_lt {p q : Pos} (h : p.lt q = true) : p.lt q.incMinor = true := by
  cases p; cases q
  simp only [Pos.incMinor]
  simp only [Pos.lt, Bool.or_eq_true, Bool.and_eq_true, decide_eq_true_eq] at h ⊢
  omega
theorem Pos.lt_incMajor_of_lt {p q : Pos} (h : p.lt q = true) : p.lt q.incMajor = true := by
  cases p; cases q
  simp only [Pos.incMajor]
  simp only [Pos.lt, Bool.or_eq_true, Bool.and_eq_true, decide_eq_true_eq] at h ⊢
  omega
theorem Pos.lt_trans {p q r : Pos} (h : p.lt q = true) (h2 : q.lt r = true) : p.lt r = true := by
  simp only [Pos.lt, Bool.or_eq_true, Bool.and_eq_true, decide_eq_true_eq] at h h2 ⊢
  omega
theorem Pos.lt_irrefl (p : Pos) : p.lt p = false := by
  simp [Pos.lt]

theorem chain_snoc {a b : Pos} {ws : List (WBlk σ)} {w : WBlk σ} (h : Chain a ws b)
    (hp : w.pos = b) (hw : WOk w) : Chain a (ws ++ [w]) w.next := by
  induction ws generalizing a with
  | nil => simp only [Chain] at h; subst h; exact ⟨hp, hw, rfl⟩
  | cons x l ih => exact ⟨h.1, h.2.1, ih h.2.2⟩

theorem mem_insW {x w : WBlk σ} {l : List (WBlk σ)} : x ∈ insW w l ↔ x = w ∨ x ∈ l := by
  rw [(insW_perm w l).mem_iff]; simp

theorem mem_insI {x w : IBlk α} {l : List (IBlk α)} : x ∈ insI w l ↔ x = w ∨ x ∈ l := by
  rw [(insI_perm w l).mem_iff]; simp

theorem mem_wake {ws ws' : List (WPhase α σ)} (h : Wake ws ws') {p : WPhase α σ} (hp : p ∈ ws') :
    p = .ready ∨ p ∈ ws := by
  rcases h with rfl | ⟨k, _, rfl⟩
  · exact .inr hp
  · rcases List.mem_or_eq_of_mem_set hp with h | h
    · exact .inr h
    · exact .inl h

theorem mem_broadcast {ws : List (WPhase α σ)} {p : WPhase α σ} (hp : p ∈ broadcast ws) :
    p = .ready ∨ p ∈ ws := by
  simp only [broadcast, List.mem_map] at hp
  obtain ⟨q, hq, rfl⟩ := hp
  split
  · exact .inl rfl
  · exact .inr hq

theorem mem_set' {ws : List (WPhase α σ)} {i : Nat} {p q : WPhase α σ} (h : q ∈ ws.set i p) :
    q = p ∨ q ∈ ws := by
  rcases List.mem_or_eq_of_mem_set h with h | h
  · exact .inr h
  · exact .inl h

structure OrderInv (s : State α σ) : Prop where
  chain : Chain ⟨0, 0⟩ s.handed s.order
  fifo : s.handed = s.written ++ s.wr.toList ++ s.outputQ
  qT : ∀ w ∈ s.transQ, WOk w
  qR : ∀ w ∈ s.reordQ, WOk w
  unf : ∀ w, s.unfinished = some w → WOk w
  held : ∀ p ∈ s.ws, ∀ w, p.wblk = some w → WOk w

theorem order_init (c : Cfg) (input : List α) : OrderInv (init (σ := σ) c input) := by
  refine ⟨rfl, rfl, ?_, ?_, ?_, ?_⟩
  · intro w h; simp [init, initWith, reselect] at h
  · intro w h; simp [init, initWith, reselect] at h
  · intro w h; simp [init, initWith, reselect] at h
  · intro p hp w hw
    simp only [init, initWith, reselect, List.mem_replicate] at hp
    rw [hp.2] at hw; simp [WPhase.wblk] at hw

theorem order_ends {c : Cfg} {k : EndKind} {t s' : State α σ} (h : Ends c k t s')
    (inv : OrderInv t) : OrderInv s' := by
  cases h with
  | unlock hw =>
    refine ⟨inv.chain, inv.fifo, inv.qT, inv.qR, inv.unf, ?_⟩
    intro p hp w hpw
    rcases mem_wake hw hp with rfl | hm
    · simp [WPhase.wblk] at hpw
    · exact inv.held p hm w hpw
  | resel => exact ⟨inv.chain, inv.fifo, inv.qT, inv.qR, inv.unf, inv.held⟩
  | plain => exact inv

section
variable {c : Cfg} {cd : Codec α σ} {s t : State α σ} {k : EndKind}

/-- replacing worker `i`'s phase by one that carries `none` or an OK block -/
theorem held_set {ws : List (WPhase α σ)} (hh : ∀ p ∈ ws, ∀ w, p.wblk = some w → WOk w)
    (i : Nat) (p : WPhase α σ) (hp : ∀ w, p.wblk = some w → WOk w) :
    ∀ q ∈ ws.set i p, ∀ w, q.wblk = some w → WOk w := by
  intro q hq w hw
  rcases mem_set' hq with rfl | hm
  · exact hp w hw
  · exact hh q hm w hw

theorem order_core (h : Core c cd s k t) (inv : OrderInv s) (sel : SelInv c s) :
    OrderInv t := by
  obtain ⟨i1, i2, i3, i4, i5, i6⟩ := inv
  have none_ok : ∀ p : WPhase α σ, p.wblk = none → ∀ w, p.wblk = some w → WOk w := by
    intro p hp w hw; rw [hp] at hw; cases hw
  cases h with
  | rTake hr hi => exact ⟨i1, i2, i3, i4, i5, i6⟩
  | rDeliver hr hi hl => exact ⟨i1, i2, i3, i4, i5, i6⟩
  | rEmpty hr hi => exact ⟨i1, i2, i3, i4, i5, i6⟩
  | rEof hr hl => exact ⟨i1, i2, i3, i4, i5, i6⟩
  | wTake b q hw hq =>
    refine ⟨i1, ?_, i3, i4, i5, i6⟩
    simp only [hw, hq] at i2; simpa using i2
  | wDone b hw hl =>
    refine ⟨i1, ?_, i3, i4, i5, i6⟩
    simp only [hw] at i2; simpa using i2
  | acquire i hw hl => exact ⟨i1, i2, i3, i4, i5, held_set i6 i _ (none_ok _ rfl)⟩
  | spurious i hw => exact ⟨i1, i2, i3, i4, i5, held_set i6 i _ (none_ok _ rfl)⟩
  | runWait i hw hn hf => exact ⟨i1, i2, i3, i4, i5, held_set i6 i _ (none_ok _ rfl)⟩
  | runExit i hw hn hf =>
    refine ⟨i1, i2, i3, i4, i5, ?_⟩
    intro p hp w hpw
    rcases mem_broadcast hp with rfl | hm
    · simp [WPhase.wblk] at hpw
    · exact held_set i6 i _ (none_ok _ rfl) p hm w hpw
  | runCollect i ib q hw hn hq hwu => exact ⟨i1, i2, i3, i4, i5, held_set i6 i _ (none_ok _ rfl)⟩
  | runCollectSeq i hw hn hg =>
    refine ⟨i1, i2, i3, i4, ?_, held_set i6 i _ ?_⟩
    · intro w h; cases h
    · intro w hw'
      cases hu : s.unfinished with
      | none => simp [hu, WPhase.wblk] at hw'
      | some w' =>
        simp only [hu, WPhase.wblk, Option.some.injEq] at hw'
        subst hw'; exact i5 _ hu
  | runTransmit i w q hw hn hq hos =>
    refine ⟨i1, i2, ?_, i4, i5, held_set i6 i _ ?_⟩
    · intro x hx; exact i3 x (by rw [hq]; exact List.mem_cons_of_mem _ hx)
    · intro x hx; simp only [WPhase.wblk, Option.some.injEq] at hx
      subst hx; exact i3 _ (by rw [hq]; exact List.mem_cons_self)
  | runReorder i w q hw hn hq =>
    have hrdy : cCanReorder (view c s) = true := selectTask_ready (sel.symm.trans hn)
    have hpos : w.pos = s.order := by
      simp only [cCanReorder, view, hq, headIs, Bool.and_eq_true, decide_eq_true_eq] at hrdy
      exact hrdy.2
    have hok : WOk w := i4 w (by rw [hq]; exact List.mem_cons_self)
    refine ⟨chain_snoc i1 hpos hok, ?_, i3, ?_, i5, i6⟩
    · show s.handed ++ [w] = s.written ++ s.wr.toList ++ (s.outputQ ++ [w])
      rw [i2]; simp
    · intro x hx; exact i4 x (by rw [hq]; exact List.mem_cons_of_mem _ hx)
  | c1Requeue i ib hw hl hf =>
    refine ⟨i1, i2, i3, i4, i5, held_set i6 i _ ?_⟩
    intro x hx; simp only [WPhase.wblk, Option.some.injEq] at hx
    subst hx; exact Pos.lt_incMinor _
  | c1Release i ib hw hl =>
    refine ⟨i1, i2, i3, i4, i5, held_set i6 i _ ?_⟩
    intro x hx; simp only [WPhase.wblk, Option.some.injEq] at hx
    subst hx; exact Pos.lt_incMajor _
  | c2Enq i w hw hf =>
    have hok : WOk w := i6 _ (List.mem_of_getElem? hw) w rfl
    refine ⟨i1, i2, ?_, i4, i5, held_set i6 i _ (none_ok _ rfl)⟩
    intro x hx; rcases mem_insW.mp hx with rfl | h
    · exact hok
    · exact i3 x h
  | t1Enq i w hw hf =>
    have hok : WOk w := i6 _ (List.mem_of_getElem? hw) w rfl
    refine ⟨i1, i2, i3, ?_, i5, held_set i6 i _ (none_ok _ rfl)⟩
    intro x hx; rcases mem_insW.mp hx with rfl | h
    · exact hok
    · exact i4 x h
  | s1Requeue i wo ib hw hl hf =>
    refine ⟨i1, i2, i3, i4, i5, held_set i6 i _ ?_⟩
    intro x hx; simp only [WPhase.wblk, Option.some.injEq] at hx
    subst hx
    cases wo with
    | none => exact Pos.lt_incMinor _
    | some w' =>
      exact Pos.lt_incMinor_of_lt (i6 _ (List.mem_of_getElem? hw) w' rfl)
  | s1Release i wo ib hw hl =>
    refine ⟨i1, i2, i3, i4, i5, held_set i6 i _ ?_⟩
    intro x hx; simp only [WPhase.wblk, Option.some.injEq] at hx
    subst hx
    cases wo with
    | none => exact Pos.lt_incMajor _
    | some w' =>
      exact Pos.lt_incMajor_of_lt (i6 _ (List.mem_of_getElem? hw) w' rfl)
  | s1Flush i w hw hf =>
    have hok : WOk w := i6 _ (List.mem_of_getElem? hw) w rfl
    refine ⟨i1, i2, i3, i4, i5, held_set i6 i _ ?_⟩
    intro x hx; simp only [WPhase.wblk, Option.some.injEq] at hx
    subst hx; exact hok
  | s2Full i w hw hf =>
    have hok : WOk w := i6 _ (List.mem_of_getElem? hw) w rfl
    refine ⟨i1, i2, i3, i4, i5, held_set i6 i _ ?_⟩
    intro x hx; simp only [WPhase.wblk, Option.some.injEq] at hx
    subst hx; exact hok
  | s2Part i w hw hf =>
    have hok : WOk w := i6 _ (List.mem_of_getElem? hw) w rfl
    refine ⟨i1, i2, i3, i4, ?_, held_set i6 i _ (none_ok _ rfl)⟩
    intro x hx; simp only [setW, Option.some.injEq] at hx
    subst hx; exact hok

end

theorem order_reach {c : Cfg} {cd : Codec α σ} {input : List α} {s : State α σ}
    (h : Reach c cd input s) : OrderInv s := by
  induction h with
  | init => exact order_init c input
  | step l hr hs ih =>
    obtain ⟨k, t, hc, he⟩ := step_rel hs
    exact order_ends he (order_core hc ih (inv1_reach hr).sel)

/-- positions along a chain are strictly increasing -/
theorem chain_pairwise {a b : Pos} {ws : List (WBlk σ)} (h : Chain a ws b) :
    ws.Pairwise (fun x y => x.pos.lt y.pos = true) ∧ (∀ x ∈ ws, a = x.pos ∨ a.lt x.pos = true) := by
  induction ws generalizing a with
  | nil => exact ⟨List.Pairwise.nil, by simp⟩
  | cons w l ih =>
    obtain ⟨h1, h2, h3⟩ := h
    obtain ⟨p, q⟩ := ih h3
    have hall : ∀ x ∈ l, w.pos.lt x.pos = true := by
      intro x hx
      rcases q x hx with e | e
      · rw [← e]; exact h2
      · exact Pos.lt_trans h2 e
    refine ⟨List.Pairwise.cons hall p, ?_⟩
    intro x hx
    rcases List.mem_cons.mp hx with rfl | hx
    · exact .inl h1.symm
    · exact .inr (h1 ▸ hall x hx)

end LbzVerif.Model.SchedC
