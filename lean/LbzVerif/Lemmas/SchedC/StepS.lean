/-
  Lemmas.SchedC.StepS — `step` as `Core` + a STRONG description of how the
  section ends: `EndsS` keeps the fact that `sched_unlock` signals exactly when
  `next_task != NULL || finished()` and that a signal wakes a waiter whenever
  there is one (`Ends` of StepRel.lean forgets both).  Needed for the
  no-lost-wake-up invariant and the termination measure.
-/
import LbzVerif.Lemmas.SchedC.StepRel

namespace LbzVerif.Model.SchedC

variable {α σ : Type}

/-- what `xsignal` in `sched_unlock` does to the workers -/
def SigWake (c : Cfg) (t : State α σ) (ws' : List (WPhase α σ)) : Prop :=
  if (selectTask (view c t)).isSome || finished c t then
    ((∀ p ∈ t.ws, p.isWaiting = false) ∧ ws' = t.ws) ∨
    (∃ k, t.ws[k]? = some .waiting ∧ ws' = t.ws.set k .ready)
  else ws' = t.ws

inductive EndsS (c : Cfg) : EndKind → State α σ → State α σ → Prop where
  | unlock {t : State α σ} {ws' : List (WPhase α σ)} : SigWake c t ws' →
      EndsS c .unlock t { t with nextTask := selectTask (view c t), ws := ws' }
  | resel {t : State α σ} : EndsS c .resel t (reselect c t)
  | plain {t : State α σ} : EndsS c .plain t t

theorem SigWake.wake {c : Cfg} {t : State α σ} {ws' : List (WPhase α σ)} (h : SigWake c t ws') :
    Wake t.ws ws' := by
  unfold SigWake at h
  split at h
  · rcases h with ⟨_, h⟩ | ⟨k, hk, h⟩
    · exact .inl h
    · exact .inr ⟨k, hk, h⟩
  · exact .inl h

theorem EndsS.ends {c : Cfg} {k : EndKind} {t s' : State α σ} (h : EndsS c k t s') :
    Ends c k t s' := by
  cases h with
  | unlock hw => exact .unlock hw.wake
  | resel => exact .resel
  | plain => exact .plain

theorem signal_spec {ws ws' : List (WPhase α σ)} {k : Nat} (h : signal ws k = some ws') :
    ((∀ p ∈ ws, p.isWaiting = false) ∧ ws' = ws) ∨
    (∃ k, ws[k]? = some .waiting ∧ ws' = ws.set k .ready) := by
  unfold signal at h
  split at h
  · split at h
    · next heq => right; exact ⟨k, heq, by simpa using h.symm⟩
    · simp at h
  · next hn =>
    left
    refine ⟨?_, by simpa using h.symm⟩
    intro p hp
    cases hw : p.isWaiting with
    | false => rfl
    | true => exact absurd (List.any_eq_true.mpr ⟨p, hp, hw⟩) hn

theorem endsS_of_unlock {c : Cfg} {t s' : State α σ} {k : Nat} (h : unlock c t k = some s') :
    EndsS c .unlock t s' := by
  unfold unlock at h
  dsimp only at h
  by_cases hc : ((reselect c t).nextTask.isSome || finished c (reselect c t)) = true
  · rw [if_pos hc] at h
    cases hs : signal (reselect c t).ws k with
    | none => simp [hs] at h
    | some ws' =>
      simp only [hs, Option.map_some, Option.some.injEq] at h
      subst h
      refine .unlock ?_
      unfold SigWake
      rw [if_pos (by simpa [reselect, finished, view] using hc)]
      exact signal_spec hs
  · rw [if_neg hc] at h
    simp only [Option.some.injEq] at h
    subst h
    have : EndsS c .unlock t { t with nextTask := selectTask (view c t), ws := t.ws } := by
      refine .unlock ?_
      unfold SigWake
      rw [if_neg (by simpa [reselect, finished, view] using hc)]
    exact this

/-! ### telling a spurious wake-up from every other section -/

/-- 1 for a runnable worker that wants the mutex -/
def rdy : WPhase α σ → Nat
  | .ready => 1
  | _ => 0

/-- 1 for a worker that has left -/
def exd : WPhase α σ → Nat
  | .exited => 1
  | _ => 0

/-- what every section except a spurious wake-up satisfies (before its
    `sched_unlock` epilogue): no additional worker became `ready`, or a worker
    exited -/
def NotSpurShape (s t : State α σ) : Prop :=
  (t.ws.map rdy).sum ≤ (s.ws.map rdy).sum ∨ (s.ws.map exd).sum < (t.ws.map exd).sum

theorem rdy_set_le {ws : List (WPhase α σ)} {i : Nat} {q : WPhase α σ} (p : WPhase α σ)
    (h : ws[i]? = some q) (hp : rdy p ≤ rdy q) :
    ((ws.set i p).map rdy).sum ≤ (ws.map rdy).sum := by
  have e := wsum_set rdy ws i p q h
  simp only [wsum] at e; omega

theorem exd_exit {ws : List (WPhase α σ)} {i : Nat} (h : ws[i]? = some .atHead) :
    (ws.map exd).sum < ((broadcast (ws.set i .exited)).map exd).sum := by
  have e := wsum_set exd ws i .exited .atHead h
  have b := wsum_broadcast (f := exd (α := α) (σ := σ)) rfl (ws.set i .exited)
  simp only [wsum, exd] at e b ⊢; omega

theorem spurious_not_shape {s : State α σ} {i : Nat} (h : s.ws[i]? = some .waiting) :
    ¬ NotSpurShape s (setW s i .ready) := by
  have e1 := wsum_set rdy s.ws i .ready .waiting h
  have e2 := wsum_set exd s.ws i .ready .waiting h
  simp only [wsum, rdy, exd] at e1 e2
  simp only [NotSpurShape, setW]
  omega

theorem step_relS {c : Cfg} {cd : Codec α σ} {s s' : State α σ} {l : Label}
    (h : step c cd s l = some s') :
    ∃ k t, Core c cd s k t ∧ EndsS c k t s' ∧ (l.isSpurious = true ∨ NotSpurShape s t) := by
  cases l with
  | rTake =>
    simp only [step] at h
    split at h
    · next hc => cases h; exact ⟨_, _, .rTake hc.1 hc.2, .plain, by first | exact .inl rfl | exact .inr (.inl (Nat.le_refl _)) | exact .inr (.inl (rdy_set_le _ hw (Nat.zero_le _))) | exact .inr (.inr (exd_exit hw))⟩
    · cases h
  | rDeliver k =>
    simp only [step] at h
    split at h
    · next hc => exact ⟨_, _, .rDeliver hc.1 hc.2.1 hc.2.2, endsS_of_unlock h, by first | exact .inl rfl | exact .inr (.inl (Nat.le_refl _)) | exact .inr (.inl (rdy_set_le _ hw (Nat.zero_le _))) | exact .inr (.inr (exd_exit hw))⟩
    · cases h
  | rEmpty =>
    simp only [step] at h
    split at h
    · next hc => cases h; exact ⟨_, _, .rEmpty hc.1 hc.2, .plain, by first | exact .inl rfl | exact .inr (.inl (Nat.le_refl _)) | exact .inr (.inl (rdy_set_le _ hw (Nat.zero_le _))) | exact .inr (.inr (exd_exit hw))⟩
    · cases h
  | rEof k =>
    simp only [step] at h
    split at h
    · next hc => exact ⟨_, _, .rEof hc.1 hc.2, endsS_of_unlock h, by first | exact .inl rfl | exact .inr (.inl (Nat.le_refl _)) | exact .inr (.inl (rdy_set_le _ hw (Nat.zero_le _))) | exact .inr (.inr (exd_exit hw))⟩
    · cases h
  | wTake =>
    simp only [step] at h
    split at h
    · next b q hw hq => cases h; exact ⟨_, _, .wTake b q hw hq, .plain, by first | exact .inl rfl | exact .inr (.inl (Nat.le_refl _)) | exact .inr (.inl (rdy_set_le _ hw (Nat.zero_le _))) | exact .inr (.inr (exd_exit hw))⟩
    · cases h
  | wDone k =>
    simp only [step] at h
    split at h
    · next b hw =>
      split at h
      · next hl => exact ⟨_, _, .wDone b hw hl, endsS_of_unlock h, by first | exact .inl rfl | exact .inr (.inl (Nat.le_refl _)) | exact .inr (.inl (rdy_set_le _ hw (Nat.zero_le _))) | exact .inr (.inr (exd_exit hw))⟩
      · cases h
    · cases h
  | acquire i =>
    simp only [step] at h
    split at h
    · next hw =>
      split at h
      · next hl => cases h; exact ⟨_, _, .acquire i hw hl, .plain, by first | exact .inl rfl | exact .inr (.inl (Nat.le_refl _)) | exact .inr (.inl (rdy_set_le _ hw (Nat.zero_le _))) | exact .inr (.inr (exd_exit hw))⟩
      · cases h
    · cases h
  | spurious i =>
    simp only [step] at h
    split at h
    · next hw => cases h; exact ⟨_, _, .spurious i hw, .plain, by first | exact .inl rfl | exact .inr (.inl (Nat.le_refl _)) | exact .inr (.inl (rdy_set_le _ hw (Nat.zero_le _))) | exact .inr (.inr (exd_exit hw))⟩
    · cases h
  | run i k =>
    simp only [step] at h
    split at h
    · next hw =>
      unfold runHead at h
      split at h
      · next t ht =>
        cases t with
        | collect =>
          simp only [runTask] at h
          split at h
          · cases h
          · next ib q hq =>
            split at h
            · cases h
            · next hwu => exact ⟨_, _, .runCollect i ib q hw ht hq hwu, endsS_of_unlock h, by first | exact .inl rfl | exact .inr (.inl (Nat.le_refl _)) | exact .inr (.inl (rdy_set_le _ hw (Nat.zero_le _))) | exact .inr (.inr (exd_exit hw))⟩
        | collectSeq =>
          simp only [runTask] at h
          split at h
          · cases h
          · next hg =>
            exact ⟨_, _, .runCollectSeq i hw ht (by simpa using hg), endsS_of_unlock h, by first | exact .inl rfl | exact .inr (.inl (Nat.le_refl _)) | exact .inr (.inl (rdy_set_le _ hw (Nat.zero_le _))) | exact .inr (.inr (exd_exit hw))⟩
        | transmit =>
          simp only [runTask] at h
          split at h
          · cases h
          · next w q hq =>
            split at h
            · cases h
            · next hos => exact ⟨_, _, .runTransmit i w q hw ht hq hos, endsS_of_unlock h, by first | exact .inl rfl | exact .inr (.inl (Nat.le_refl _)) | exact .inr (.inl (rdy_set_le _ hw (Nat.zero_le _))) | exact .inr (.inr (exd_exit hw))⟩
        | reorder =>
          simp only [runTask] at h
          split at h
          · cases h
          · next w q hq => cases h; exact ⟨_, _, .runReorder i w q hw ht hq, .resel, by first | exact .inl rfl | exact .inr (.inl (Nat.le_refl _)) | exact .inr (.inl (rdy_set_le _ hw (Nat.zero_le _))) | exact .inr (.inr (exd_exit hw))⟩
      · next ht =>
        split at h
        · next hf => cases h; exact ⟨_, _, .runExit i hw ht hf, .plain, by first | exact .inl rfl | exact .inr (.inl (Nat.le_refl _)) | exact .inr (.inl (rdy_set_le _ hw (Nat.zero_le _))) | exact .inr (.inr (exd_exit hw))⟩
        · next hf => cases h; exact ⟨_, _, .runWait i hw ht (by simpa using hf), .plain, by first | exact .inl rfl | exact .inr (.inl (Nat.le_refl _)) | exact .inr (.inl (rdy_set_le _ hw (Nat.zero_le _))) | exact .inr (.inr (exd_exit hw))⟩
    · cases h
  | cont i k =>
    simp only [step] at h
    split at h
    · next p hw =>
      cases p with
      | ready => simp [contTask] at h
      | waiting => simp [contTask] at h
      | atHead => simp [contTask] at h
      | exited => simp [contTask] at h
      | c1 ib =>
        simp only [contTask] at h
        split at h
        · next hl =>
          split at h
          · next hf => exact ⟨_, _, .c1Requeue i ib hw hl hf, endsS_of_unlock h, by first | exact .inl rfl | exact .inr (.inl (Nat.le_refl _)) | exact .inr (.inl (rdy_set_le _ hw (Nat.zero_le _))) | exact .inr (.inr (exd_exit hw))⟩
          · cases h
        · next hl => cases h; exact ⟨_, _, .c1Release i ib hw (by simpa using hl), .plain, by first | exact .inl rfl | exact .inr (.inl (Nat.le_refl _)) | exact .inr (.inl (rdy_set_le _ hw (Nat.zero_le _))) | exact .inr (.inr (exd_exit hw))⟩
      | c2 w =>
        simp only [contTask] at h
        split at h
        · next hf => cases h; exact ⟨_, _, .c2Enq i w hw hf, .resel, by first | exact .inl rfl | exact .inr (.inl (Nat.le_refl _)) | exact .inr (.inl (rdy_set_le _ hw (Nat.zero_le _))) | exact .inr (.inr (exd_exit hw))⟩
        · cases h
      | t1 w =>
        simp only [contTask] at h
        split at h
        · next hf => cases h; exact ⟨_, _, .t1Enq i w hw hf, .resel, by first | exact .inl rfl | exact .inr (.inl (Nat.le_refl _)) | exact .inr (.inl (rdy_set_le _ hw (Nat.zero_le _))) | exact .inr (.inr (exd_exit hw))⟩
        · cases h
      | s1 wo ibo =>
        cases ibo with
        | some ib =>
          simp only [contTask] at h
          split at h
          · next hl =>
            split at h
            · next hf => exact ⟨_, _, .s1Requeue i wo ib hw hl hf, endsS_of_unlock h, by first | exact .inl rfl | exact .inr (.inl (Nat.le_refl _)) | exact .inr (.inl (rdy_set_le _ hw (Nat.zero_le _))) | exact .inr (.inr (exd_exit hw))⟩
            · cases h
          · next hl => cases h; exact ⟨_, _, .s1Release i wo ib hw (by simpa using hl), .plain, by first | exact .inl rfl | exact .inr (.inl (Nat.le_refl _)) | exact .inr (.inl (rdy_set_le _ hw (Nat.zero_le _))) | exact .inr (.inr (exd_exit hw))⟩
        | none =>
          cases wo with
          | none => simp [contTask] at h
          | some w =>
            simp only [contTask] at h
            split at h
            · next hf => exact ⟨_, _, .s1Flush i w hw hf, endsS_of_unlock h, by first | exact .inl rfl | exact .inr (.inl (Nat.le_refl _)) | exact .inr (.inl (rdy_set_le _ hw (Nat.zero_le _))) | exact .inr (.inr (exd_exit hw))⟩
            · cases h
      | s2 w full =>
        cases full with
        | true =>
          simp only [contTask] at h
          split at h
          · next hf => exact ⟨_, _, .s2Full i w hw hf, endsS_of_unlock h, by first | exact .inl rfl | exact .inr (.inl (Nat.le_refl _)) | exact .inr (.inl (rdy_set_le _ hw (Nat.zero_le _))) | exact .inr (.inr (exd_exit hw))⟩
          · cases h
        | false =>
          simp only [contTask] at h
          split at h
          · next hf => cases h; exact ⟨_, _, .s2Part i w hw hf, .resel, by first | exact .inl rfl | exact .inr (.inl (Nat.le_refl _)) | exact .inr (.inl (rdy_set_le _ hw (Nat.zero_le _))) | exact .inr (.inr (exd_exit hw))⟩
          · cases h
    · cases h

end LbzVerif.Model.SchedC
