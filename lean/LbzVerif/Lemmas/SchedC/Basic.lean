/-
  Lemmas.SchedC.Basic — bookkeeping lemmas about the helpers of
  `Model.SchedC` (`setW`, `signal`, `broadcast`, `unlock`, `reselect`).
-/
import LbzVerif.Model.SchedC

namespace LbzVerif.Model.SchedC

variable {α σ : Type}

/-- sum of a per-worker weight -/
def wsum (f : WPhase α σ → Nat) (ws : List (WPhase α σ)) : Nat := (ws.map f).sum

theorem wsum_set (f : WPhase α σ → Nat) (ws : List (WPhase α σ)) (i : Nat) (p q : WPhase α σ)
    (h : ws[i]? = some q) : wsum f (ws.set i p) + f q = wsum f ws + f p := by
  induction ws generalizing i with
  | nil => simp at h
  | cons a l ih =>
    cases i with
    | zero =>
      simp only [List.getElem?_cons_zero, Option.some.injEq] at h
      subst h
      simp only [wsum, List.set_cons_zero, List.map_cons, List.sum_cons]; omega
    | succ j =>
      simp only [List.getElem?_cons_succ] at h
      have := ih j h
      simp only [wsum, List.set_cons_succ, List.map_cons, List.sum_cons] at this ⊢; omega

/-- `ws'` is `ws` after a `cond_signal`: nothing, or one waiter made ready. -/
def Wake (ws ws' : List (WPhase α σ)) : Prop :=
  ws' = ws ∨ ∃ k, ws[k]? = some .waiting ∧ ws' = ws.set k .ready

theorem signal_wake {ws ws' : List (WPhase α σ)} {k : Nat} (h : signal ws k = some ws') :
    Wake ws ws' := by
  unfold signal at h
  split at h
  · split at h
    · next heq => right; exact ⟨k, heq, by simpa using h.symm⟩
    · simp at h
  · left; simpa using h.symm

/-- a weight that does not distinguish `waiting` from `ready` -/
def Blind (f : WPhase α σ → Nat) : Prop := f .waiting = f .ready

theorem wsum_wake {f : WPhase α σ → Nat} (hf : Blind f) {ws ws' : List (WPhase α σ)}
    (h : Wake ws ws') : wsum f ws' = wsum f ws := by
  rcases h with rfl | ⟨k, hk, rfl⟩
  · rfl
  · have := wsum_set f ws k .ready .waiting hk
    rw [hf] at this; omega

theorem wake_length {ws ws' : List (WPhase α σ)} (h : Wake ws ws') : ws'.length = ws.length := by
  rcases h with rfl | ⟨k, _, rfl⟩ <;> simp

theorem wsum_broadcast {f : WPhase α σ → Nat} (hf : Blind f) (ws : List (WPhase α σ)) :
    wsum f (broadcast ws) = wsum f ws := by
  induction ws with
  | nil => rfl
  | cons a l ih =>
    simp only [wsum, broadcast, List.map_cons, List.sum_cons, List.map_map] at ih ⊢
    rw [ih]
    cases a <;> simp [WPhase.isWaiting, hf.symm]

theorem broadcast_length (ws : List (WPhase α σ)) : (broadcast ws).length = ws.length := by
  simp [broadcast]

theorem units_blind : Blind (WPhase.units (α := α) (σ := σ)) := rfl
theorem slots_blind : Blind (WPhase.slots (α := α) (σ := σ)) := rfl
theorem tok_blind : Blind (WPhase.tok (α := α) (σ := σ)) := rfl
theorem chunks_blind : Blind (WPhase.chunks (α := α) (σ := σ)) := rfl

/-- What `sched_unlock` does to the state: `next_task` is recomputed and at
    most one waiter is woken; nothing else changes. -/
theorem unlock_spec {c : Cfg} {s s' : State α σ} {k : Nat} (h : unlock c s k = some s') :
    ∃ ws', Wake s.ws ws' ∧ s' = { s with nextTask := selectTask (view c s), ws := ws' } := by
  unfold unlock at h
  dsimp only at h
  by_cases hc : ((reselect c s).nextTask.isSome || finished c (reselect c s)) = true
  · rw [if_pos hc] at h
    cases hs : signal (reselect c s).ws k with
    | none => simp [hs] at h
    | some ws' =>
      simp only [hs, Option.map_some, Option.some.injEq] at h
      exact ⟨ws', signal_wake hs, h.symm⟩
  · rw [if_neg hc] at h
    simp only [Option.some.injEq] at h
    exact ⟨s.ws, Or.inl rfl, h.symm⟩

theorem selectTask_ready {v : Gen.CView} {t : Task} (h : selectTask v = some t) :
    t.ready v = true := by
  have := List.find?_some h
  simpa using this

theorem s1_chunks (a : Option (WBlk σ)) (b : Option (IBlk α)) :
    (WPhase.s1 a b).chunks = optCount b := by cases b <;> rfl

theorem tail_head_length {β : Type} (l : List β) : l.tail.length + optCount l.head? = l.length := by
  cases l <;> simp [optCount]

theorem insI_length (x : IBlk α) (l : List (IBlk α)) : (insI x l).length = l.length + 1 := by
  induction l with
  | nil => rfl
  | cons y l ih => simp only [insI]; split <;> simp [ih]

theorem insW_length (x : WBlk σ) (l : List (WBlk σ)) : (insW x l).length = l.length + 1 := by
  induction l with
  | nil => rfl
  | cons y l ih => simp only [insW]; split <;> simp [ih]

theorem insI_perm (x : IBlk α) (l : List (IBlk α)) : (insI x l).Perm (x :: l) := by
  induction l with
  | nil => exact .refl _
  | cons y l ih =>
    simp only [insI]; split
    · exact .refl _
    · exact (List.Perm.cons y ih).trans (List.Perm.swap x y l)

theorem insW_perm (x : WBlk σ) (l : List (WBlk σ)) : (insW x l).Perm (x :: l) := by
  induction l with
  | nil => exact .refl _
  | cons y l ih =>
    simp only [insW]; split
    · exact .refl _
    · exact (List.Perm.cons y ih).trans (List.Perm.swap x y l)

end LbzVerif.Model.SchedC
