/-
  Lemmas.SchedC.Wake — the wake-up discipline of `sched_cond`:

  * `WakeInv.noLost` (no lost wake-up): whenever `sched_mutex` is free and a
    task is ready or the process has finished, some worker has a wake-up
    pending (`ready`) or nobody is in `xwait`;
  * `can_terminate()` is stable, a worker exits only when it holds, and after
    the first exit (`xbroadcast`) nobody waits any more;
  * `do_collect_seq` never meets `wblk == NULL && iblk == NULL`
    (`assert(iblk != NULL)`);
  * the reader is `done` exactly when `eof` is set.
-/
import LbzVerif.Lemmas.SchedC.StepS
import LbzVerif.Lemmas.SchedC.Restore

namespace LbzVerif.Model.SchedC
open LbzVerif.Gen
set_option linter.unusedSimpArgs false

variable {α σ : Type}

/-! ### small facts about worker lists -/

theorem lockFree_false_of_mem {s : State α σ} (h : WPhase.atHead ∈ s.ws) : lockFree s = false := by
  cases hl : lockFree s with
  | false => rfl
  | true =>
    have := List.all_eq_true.mp hl _ h
    simp [WPhase.isAtHead] at this

theorem mem_set_self {ws : List (WPhase α σ)} {i : Nat} {q : WPhase α σ} (p : WPhase α σ)
    (h : ws[i]? = some q) : p ∈ ws.set i p := by
  have hlt : i < ws.length := by
    rcases Nat.lt_or_ge i ws.length with h' | h'
    · exact h'
    · rw [List.getElem?_eq_none h'] at h; cases h
  exact List.mem_iff_getElem.mpr ⟨i, by simpa using hlt, by simp⟩

/-- a member of `ws` other than the replaced entry survives `set` -/
theorem mem_set_of_ne {ws : List (WPhase α σ)} {i : Nat} {q r : WPhase α σ} (p : WPhase α σ)
    (h : ws[i]? = some q) (hr : r ∈ ws) (hne : r ≠ q) : r ∈ ws.set i p := by
  obtain ⟨j, hj⟩ := List.getElem?_of_mem hr
  have hij : i ≠ j := by
    intro e; subst e; rw [h] at hj; exact hne (Option.some.inj hj).symm
  have hjl : j < ws.length := by
    rcases Nat.lt_or_ge j ws.length with h' | h'
    · exact h'
    · rw [List.getElem?_eq_none h'] at hj; cases hj
  apply List.mem_iff_getElem?.mpr
  exact ⟨j, by rw [List.getElem?_set_ne hij]; exact hj⟩

theorem lockFree_set {s : State α σ} {i : Nat} {p q : WPhase α σ} (_h : s.ws[i]? = some q)
    (hp : p.isAtHead = false) (hl : lockFree s = true) :
    (s.ws.set i p).all (fun p => !p.isAtHead) = true := by
  apply List.all_eq_true.mpr
  intro r hr
  rcases mem_set' hr with rfl | hm
  · simp [hp]
  · exact List.all_eq_true.mp hl r hm

theorem broadcast_no_waiting (ws : List (WPhase α σ)) : ∀ p ∈ broadcast ws, p.isWaiting = false := by
  intro p hp
  simp only [broadcast, List.mem_map] at hp
  obtain ⟨q, _, rfl⟩ := hp
  cases hq : q.isWaiting with
  | true => simp [WPhase.isWaiting]
  | false => simpa using hq

theorem mem_broadcast_exited {ws : List (WPhase α σ)} (h : WPhase.exited ∈ ws) :
    WPhase.exited ∈ broadcast ws := by
  simp only [broadcast, List.mem_map]
  exact ⟨.exited, h, by simp [WPhase.isWaiting]⟩

/-! ### `can_terminate()` is stable -/

/-- when `can_terminate()` holds only three things can happen: a woken worker
    takes the mutex, a worker at the loop head exits, a spurious wake-up; none
    changes what the guards read. -/
theorem fin_core {c : Cfg} {cd : Codec α σ} {s t : State α σ} {k : EndKind}
    (cons : Conserved c s) (sel : SelInv c s) (rdi : ReaderInv s) (hf : finished c s = true)
    (h : Core c cd s k t) :
    k = .plain ∧ view c t = view c s ∧
    ((∃ i, s.ws[i]? = some .ready ∧ t.ws = s.ws.set i .atHead) ∨
     (∃ i, s.ws[i]? = some .atHead ∧ t.ws = broadcast (s.ws.set i .exited)) ∨
     (∃ i, s.ws[i]? = some .waiting ∧ t.ws = s.ws.set i .ready)) := by
  obtain ⟨_, _, hcq, htq, hrq, hoq, hwr, _, _, _, _, hrd, _, hnt, hunits⟩ :=
    restores_of_finished cons sel rdi hf
  have nounit : ∀ {i : Nat} {p : WPhase α σ}, s.ws[i]? = some p → p.units = 0 :=
    fun h => hunits _ (List.mem_of_getElem? h)
  cases h with
  | rTake hr hi => rw [hrd] at hr; cases hr
  | rDeliver hr hi hl => rw [hrd] at hr; cases hr
  | rEmpty hr hi => rw [hrd] at hr; cases hr
  | rEof hr hl => rw [hrd] at hr; cases hr
  | wTake b q hw hq => rw [hoq] at hq; cases hq
  | wDone b hw hl => rw [hwr] at hw; cases hw
  | acquire i hw hl => exact ⟨rfl, rfl, .inl ⟨i, hw, rfl⟩⟩
  | spurious i hw => exact ⟨rfl, rfl, .inr (.inr ⟨i, hw, rfl⟩)⟩
  | runCollect i ib q hw hn hq hwu => rw [hnt] at hn; cases hn
  | runCollectSeq i hw hn hg => rw [hnt] at hn; cases hn
  | runTransmit i w q hw hn hq hos => rw [hnt] at hn; cases hn
  | runReorder i w q hw hn hq => rw [hnt] at hn; cases hn
  | runWait i hw hn hf' => rw [hf] at hf'; cases hf'
  | runExit i hw hn hf' => exact ⟨rfl, rfl, .inr (.inl ⟨i, hw, rfl⟩)⟩
  | c1Requeue i ib hw hl hf' => exact absurd (nounit hw) (by simp [WPhase.units])
  | c1Release i ib hw hl => exact absurd (nounit hw) (by simp [WPhase.units])
  | c2Enq i w hw hf' => exact absurd (nounit hw) (by simp [WPhase.units])
  | t1Enq i w hw hf' => exact absurd (nounit hw) (by simp [WPhase.units])
  | s1Requeue i wo ib hw hl hf' => exact absurd (nounit hw) (by simp [WPhase.units])
  | s1Release i wo ib hw hl => exact absurd (nounit hw) (by simp [WPhase.units])
  | s1Flush i w hw hf' => exact absurd (nounit hw) (by simp [WPhase.units])
  | s2Full i w hw hf' => exact absurd (nounit hw) (by simp [WPhase.units])
  | s2Part i w hw hf' => exact absurd (nounit hw) (by simp [WPhase.units])

theorem view_ends {c : Cfg} {k : EndKind} {t s' : State α σ} (h : Ends c k t s') :
    view c s' = view c t := by
  cases h <;> rfl

/-- `can_terminate()` never becomes false again -/
theorem finished_stable {c : Cfg} {cd : Codec α σ} {input : List α} {s s' : State α σ} {l : Label}
    (hr : Reach c cd input s) (hf : finished c s = true) (hs : step c cd s l = some s') :
    finished c s' = true := by
  obtain ⟨k, t, hc, he⟩ := step_rel hs
  have i1 := inv1_reach hr
  obtain ⟨_, hv, _⟩ := fin_core i1.cons i1.sel (reader_reach hr) hf hc
  simp only [finished] at hf ⊢
  rw [view_ends he, hv]; exact hf

/-! ### the invariant -/

structure WakeInv (c : Cfg) (s : State α σ) : Prop where
  noLost : lockFree s = true → (s.nextTask.isSome = true ∨ finished c s = true) →
    WPhase.ready ∈ s.ws ∨ ∀ p ∈ s.ws, p.isWaiting = false
  exitFin : WPhase.exited ∈ s.ws → finished c s = true ∧ ∀ p ∈ s.ws, p.isWaiting = false
  noBad : ∀ p ∈ s.ws, p ≠ .s1 none none
  doneEof : s.rd = .done → s.eof = true

theorem wake_init (c : Cfg) (input : List α) : WakeInv c (init (σ := σ) c input) := by
  have hm : ∀ p ∈ (init (σ := σ) c input).ws, p = .ready := by
    intro p hp
    simp only [init, initWith, reselect, List.mem_replicate] at hp
    exact hp.2
  refine ⟨?_, ?_, ?_, ?_⟩
  · intro _ _; right; intro p hp; rw [hm p hp]; rfl
  · intro h; have := hm _ h; cases this
  · intro p hp h; rw [hm p hp] at h; cases h
  · intro h; simp [init, initWith, reselect] at h

section
variable {c : Cfg} {cd : Codec α σ} {s t s' : State α σ} {k : EndKind}

/-- the clauses that do not involve the signal survive a `Wake` -/
theorem wake_keep {ws ws' : List (WPhase α σ)} (hw : Wake ws ws') :
    (WPhase.exited ∈ ws' → WPhase.exited ∈ ws) ∧
    ((∀ p ∈ ws, p.isWaiting = false) → ∀ p ∈ ws', p.isWaiting = false) ∧
    ((∀ p ∈ ws, p ≠ .s1 none none) → ∀ p ∈ ws', p ≠ .s1 none none) := by
  refine ⟨?_, ?_, ?_⟩
  · intro h
    rcases mem_wake hw h with h' | h'
    · cases h'
    · exact h'
  · intro h p hp
    rcases mem_wake hw hp with rfl | h'
    · rfl
    · exact h p h'
  · intro h p hp
    rcases mem_wake hw hp with rfl | h'
    · intro e; cases e
    · exact h p h'

/-- what `Core` does to the worker list, as far as the wake-up discipline is
    concerned -/
inductive WsEff (c : Cfg) (k : EndKind) (s t : State α σ) : Prop where
  /-- reader / writer sections: workers untouched -/
  | same : t.ws = s.ws → WsEff c k s t
  /-- worker `i` moves from `q` to `p` (not `exited`, not `waiting`, not the bad
      phase); `p = atHead` or the lock state is unchanged (`q` not at head) -/
  | move (i : Nat) (p q : WPhase α σ) : s.ws[i]? = some q → t.ws = s.ws.set i p →
      p ≠ .exited → p.isWaiting = false → p ≠ .s1 none none →
      (p = .atHead ∨ (p.isAtHead = false ∧ q ≠ .ready ∧ (k = .plain → q.isAtHead = false))) →
      WsEff c k s t
  /-- `xwait` -/
  | wait (i : Nat) : s.ws[i]? = some .atHead → t.ws = s.ws.set i .waiting →
      s.nextTask = none → finished c s = false → WsEff c k s t
  /-- exit + `xbroadcast` -/
  | exit (i : Nat) : s.ws[i]? = some .atHead → t.ws = broadcast (s.ws.set i .exited) →
      finished c s = true → WsEff c k s t

theorem core_wsEff (sel : SelInv c s) (h : Core c cd s k t) : WsEff c k s t := by
  cases h with
  | rTake hr hi => exact .same rfl
  | rDeliver hr hi hl => exact .same rfl
  | rEmpty hr hi => exact .same rfl
  | rEof hr hl => exact .same rfl
  | wTake b q hw hq => exact .same rfl
  | wDone b hw hl => exact .same rfl
  | runReorder i w q hw hn hq => exact .same rfl
  | acquire i hw hl =>
    exact .move i .atHead _ hw rfl (by intro h; cases h) rfl (by intro h; cases h) (.inl rfl)
  | spurious i hw =>
    exact .move i .ready _ hw rfl (by intro h; cases h) rfl (by intro h; cases h)
      (.inr ⟨rfl, (by intro h; cases h), (by first | (intro h; cases h; done) | (intro _; rfl))⟩)
  | runWait i hw hn hf => exact .wait i hw rfl hn hf
  | runExit i hw hn hf => exact .exit i hw rfl hf
  | runCollect i ib q hw hn hq hwu =>
    exact .move i _ _ hw rfl (by intro h; cases h) rfl (by intro h; cases h)
      (.inr ⟨rfl, (by intro h; cases h), (by first | (intro h; cases h; done) | (intro _; rfl))⟩)
  | runCollectSeq i hw hn hg =>
    have hrdy : cCanCollectSeq (view c s) = true := selectTask_ready (sel.symm.trans hn)
    simp only [cCanCollectSeq, view, Bool.and_eq_true, Bool.or_eq_true, Bool.not_eq_true',
      List.isEmpty_eq_false_iff, Option.isSome_map] at hrdy
    refine .move i _ _ hw rfl (by intro h; cases h) rfl ?_ (.inr ⟨rfl, (by intro h; cases h), (by first | (intro h; cases h; done) | (intro _; rfl))⟩)
    intro h
    simp only [WPhase.s1.injEq] at h
    obtain ⟨h1, h2⟩ := h
    rcases hrdy.1.2 with h' | h'
    · cases hq : s.collQ with
      | nil => exact h' hq
      | cons a l => rw [hq] at h2; cases h2
    · rw [h1] at h'; cases h'.2
  | runTransmit i w q hw hn hq hos =>
    exact .move i _ _ hw rfl (by intro h; cases h) rfl (by intro h; cases h)
      (.inr ⟨rfl, (by intro h; cases h), (by first | (intro h; cases h; done) | (intro _; rfl))⟩)
  | c1Requeue i ib hw hl hf =>
    exact .move i _ _ hw rfl (by intro h; cases h) rfl (by intro h; cases h)
      (.inr ⟨rfl, (by intro h; cases h), (by first | (intro h; cases h; done) | (intro _; rfl))⟩)
  | c1Release i ib hw hl =>
    exact .move i _ _ hw rfl (by intro h; cases h) rfl (by intro h; cases h)
      (.inr ⟨rfl, (by intro h; cases h), (by first | (intro h; cases h; done) | (intro _; rfl))⟩)
  | c2Enq i w hw hf =>
    exact .move i .atHead _ hw rfl (by intro h; cases h) rfl (by intro h; cases h) (.inl rfl)
  | t1Enq i w hw hf =>
    exact .move i .atHead _ hw rfl (by intro h; cases h) rfl (by intro h; cases h) (.inl rfl)
  | s1Requeue i wo ib hw hl hf =>
    exact .move i _ _ hw rfl (by intro h; cases h) rfl (by intro h; cases h)
      (.inr ⟨rfl, (by intro h; cases h), (by first | (intro h; cases h; done) | (intro _; rfl))⟩)
  | s1Release i wo ib hw hl =>
    exact .move i _ _ hw rfl (by intro h; cases h) rfl (by intro h; cases h)
      (.inr ⟨rfl, (by intro h; cases h), (by first | (intro h; cases h; done) | (intro _; rfl))⟩)
  | s1Flush i w hw hf =>
    exact .move i _ _ hw rfl (by intro h; cases h) rfl (by intro h; cases h)
      (.inr ⟨rfl, (by intro h; cases h), (by first | (intro h; cases h; done) | (intro _; rfl))⟩)
  | s2Full i w hw hf =>
    exact .move i _ _ hw rfl (by intro h; cases h) rfl (by intro h; cases h)
      (.inr ⟨rfl, (by intro h; cases h), (by first | (intro h; cases h; done) | (intro _; rfl))⟩)
  | s2Part i w hw hf =>
    exact .move i .atHead _ hw rfl (by intro h; cases h) rfl (by intro h; cases h) (.inl rfl)

end

section
variable {c : Cfg} {cd : Codec α σ} {s t s' : State α σ} {k : EndKind}

theorem core_plain_view (h : Core c cd s .plain t) :
    view c t = view c s ∧ t.nextTask = s.nextTask := by
  cases h <;> exact ⟨rfl, rfl⟩

theorem core_doneEof (h : Core c cd s k t) (inv : s.rd = .done → s.eof = true) :
    t.rd = .done → t.eof = true := by
  cases h with
  | rTake hr hi => intro h; cases h
  | rDeliver hr hi hl =>
    intro h
    have h' : (if (s.input.take c.inGranul).length < c.inGranul then RPhase.eofPending
      else RPhase.idle) = .done := h
    split at h' <;> cases h'
  | rEmpty hr hi => intro h; cases h
  | rEof hr hl => intro _; rfl
  | _ => exact inv

theorem wake_step (inv : WakeInv c s) (cons : Conserved c s) (sel : SelInv c s)
    (rdi : ReaderInv s) (hc : Core c cd s k t) (he : EndsS c k t s') : WakeInv c s' := by
  have eff := core_wsEff sel hc
  have hview : view c s' = view c t := view_ends he.ends
  have hfin' : finished c s' = finished c t := by simp only [finished, hview]
  -- clauses 2–4 for `t`
  have tNoBad : ∀ p ∈ t.ws, p ≠ .s1 none none := by
    cases eff with
    | same h => rw [h]; exact inv.noBad
    | move i p q hq ht h1 h2 h3 h4 =>
      rw [ht]; intro r hr
      rcases mem_set' hr with rfl | hm
      · exact h3
      · exact inv.noBad r hm
    | wait i hq ht hn hf =>
      rw [ht]; intro r hr
      rcases mem_set' hr with rfl | hm
      · intro e; cases e
      · exact inv.noBad r hm
    | exit i hq ht hf =>
      rw [ht]; intro r hr
      rcases mem_broadcast hr with rfl | hm
      · intro e; cases e
      · rcases mem_set' hm with rfl | hm'
        · intro e; cases e
        · exact inv.noBad r hm'
  have tExit : WPhase.exited ∈ t.ws → finished c t = true ∧ ∀ p ∈ t.ws, p.isWaiting = false := by
    intro hex
    cases eff with
    | same h =>
      rw [h] at hex
      obtain ⟨hf, hnw⟩ := inv.exitFin hex
      obtain ⟨_, hv, _⟩ := fin_core cons sel rdi hf hc
      refine ⟨by simp only [finished, hv] at hf ⊢; exact hf, by rw [h]; exact hnw⟩
    | move i p q hq ht h1 h2 h3 h4 =>
      rw [ht] at hex
      have hex' : WPhase.exited ∈ s.ws := by
        rcases mem_set' hex with e | hm
        · exact absurd e.symm h1
        · exact hm
      obtain ⟨hf, hnw⟩ := inv.exitFin hex'
      obtain ⟨_, hv, _⟩ := fin_core cons sel rdi hf hc
      refine ⟨by simp only [finished, hv] at hf ⊢; exact hf, ?_⟩
      rw [ht]; intro r hr
      rcases mem_set' hr with rfl | hm
      · exact h2
      · exact hnw r hm
    | wait i hq ht hn hf =>
      rw [ht] at hex
      have hex' : WPhase.exited ∈ s.ws := by
        rcases mem_set' hex with e | hm
        · cases e
        · exact hm
      rw [(inv.exitFin hex').1] at hf; cases hf
    | exit i hq ht hf =>
      obtain ⟨_, hv, _⟩ := fin_core cons sel rdi hf hc
      refine ⟨by simp only [finished, hv] at hf ⊢; exact hf, ?_⟩
      rw [ht]; exact broadcast_no_waiting _
  have tDone := core_doneEof hc inv.doneEof
  -- transfer 2–4 through the epilogue
  have hws : Wake t.ws s'.ws ∧ s'.rd = t.rd ∧ s'.eof = t.eof := by
    cases he with
    | unlock hw => exact ⟨hw.wake, rfl, rfl⟩
    | resel => exact ⟨.inl rfl, rfl, rfl⟩
    | plain => exact ⟨.inl rfl, rfl, rfl⟩
  obtain ⟨hwk, hrd, heof⟩ := hws
  obtain ⟨k1, k2, k3⟩ := wake_keep hwk
  refine ⟨?_, ?_, k3 tNoBad, by rw [hrd, heof]; exact tDone⟩
  · -- no lost wake-up
    intro hl hprem
    cases he with
    | unlock hw =>
      have hp : ((selectTask (view c t)).isSome || finished c t) = true := by
        rcases hprem with h | h
        · simp only [Bool.or_eq_true]; exact .inl h
        · simp only [Bool.or_eq_true]; right
          rw [← hfin']; exact h
      unfold SigWake at hw
      rw [if_pos hp] at hw
      rcases hw with ⟨hnw, e⟩ | ⟨j, hj, e⟩
      · right; show ∀ p ∈ _, _; rw [e]; exact hnw
      · left; show WPhase.ready ∈ _; rw [e]; exact mem_set_self _ hj
    | resel =>
      exfalso
      have hat : WPhase.atHead ∈ t.ws := by
        cases hc with
        | runReorder i w q hw hn hq => exact List.mem_of_getElem? hw
        | c2Enq i w hw hf => exact mem_set_self _ hw
        | t1Enq i w hw hf => exact mem_set_self _ hw
        | s2Part i w hw hf => exact mem_set_self _ hw
      have : lockFree (reselect c t) = false := lockFree_false_of_mem (s := reselect c t) hat
      rw [this] at hl; cases hl
    | plain =>
      obtain ⟨hv, hnt⟩ := core_plain_view hc
      have hfs : finished c t = finished c s := by simp only [finished, hv]
      cases eff with
      | same h =>
        have hl' : lockFree s = true := by simp only [lockFree, h] at hl ⊢; exact hl
        rw [hnt, hfs] at hprem
        rw [h]; exact inv.noLost hl' hprem
      | move i p q hq ht h1 h2 h3 h4 =>
        rcases h4 with rfl | ⟨hpa, hqr, hqa⟩
        · have : lockFree t = false :=
            lockFree_false_of_mem (by rw [ht]; exact mem_set_self _ hq)
          rw [this] at hl; cases hl
        · have hl' : lockFree s = true := by
            apply List.all_eq_true.mpr
            intro r hr
            by_cases e : r = q
            · subst e; simp [hqa rfl]
            · have : r ∈ t.ws := by rw [ht]; exact mem_set_of_ne p hq hr e
              exact List.all_eq_true.mp hl r this
          rw [hnt, hfs] at hprem
          rcases inv.noLost hl' hprem with h | h
          · left; rw [ht]; exact mem_set_of_ne p hq h (fun e => hqr e.symm)
          · right; rw [ht]; intro r hr
            rcases mem_set' hr with rfl | hm
            · exact h2
            · exact h r hm
      | wait i hq ht hn hf =>
        rw [hnt, hn, hfs, hf] at hprem
        rcases hprem with h | h <;> cases h
      | exit i hq ht hf =>
        right; rw [ht]; exact broadcast_no_waiting _
  · intro hex
    obtain ⟨a, b⟩ := tExit (k1 hex)
    exact ⟨by rw [hfin']; exact a, k2 b⟩

end

theorem wake_reach {c : Cfg} {cd : Codec α σ} {input : List α} {s : State α σ}
    (h : Reach c cd input s) : WakeInv c s := by
  induction h with
  | init => exact wake_init c input
  | step l hr hs ih =>
    obtain ⟨k, t, hc, he, _⟩ := step_relS hs
    have i1 := inv1_reach hr
    exact wake_step ih i1.cons i1.sel (reader_reach hr) hc he

end LbzVerif.Model.SchedC
