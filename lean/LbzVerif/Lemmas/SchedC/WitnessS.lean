/-
  Lemmas.SchedC.WitnessS — a concrete terminated run in SEQUENTIAL mode
  (`ultra = true`): 7 bytes cut into 4 chunks of 2, three blocks, the first
  ending in the middle of chunk 1 (in_blk re-queued with `++pos.minor`), the
  second spanning chunks 1–2 (`unfinished_work` used), the third flushed at
  end of input; two workers, one of which sleeps and is woken.
-/
import LbzVerif.Lemmas.SchedC.Witness

namespace LbzVerif.Model.SchedC

def sCfg : Cfg := { Cfg.ofGen 2 1 true with inGranul := 2 }
def sInput : List Nat := [0, 0, 1, 0, 0, 1, 0]

open Label in
def sFinalPath : List Label :=
  [acquire 0, run 0 0, acquire 1, run 1 0, rTake, rDeliver 0, acquire 0, run 0 0, cont 0 0,
   cont 0 0, run 0 0, rTake, rDeliver 0, acquire 0, run 0 0, cont 0 0, cont 0 1, cont 0 0,
   run 0 0, cont 0 0, cont 0 0, run 0 0, cont 0 0, run 0 0, run 0 0, acquire 1, run 1 0, rTake,
   rDeliver 0, acquire 0, run 0 0, cont 0 0, cont 0 0, cont 0 0, run 0 0, cont 0 0, run 0 0,
   run 0 0, rTake, rDeliver 0, acquire 0, run 0 0, cont 0 0, cont 0 0, run 0 0, rEof 0,
   acquire 0, run 0 0, cont 0 0, cont 0 0, run 0 0, cont 0 0, run 0 0, run 0 0, wTake, wDone 0,
   wTake, wDone 0, wTake, wDone 0, acquire 0, run 0 0, acquire 1, run 1 0]

def sFinal : State Nat (List Nat) :=
  (runLabels sCfg wCodec (init sCfg sInput) sFinalPath).getD (init sCfg sInput)

theorem sFinal_run : runLabels sCfg wCodec (init sCfg sInput) sFinalPath = some sFinal := by decide

theorem sFinal_reach : Reach sCfg wCodec sInput sFinal := reach_of_run _ .init sFinal_run

theorem sFinal_facts : isFinal sFinal = true ∧ finished sCfg sFinal = true ∧
    sFinal.handed.map (·.pos) = [⟨0, 0⟩, ⟨1, 1⟩, ⟨3, 0⟩] ∧
    sFinal.written.map (·.enc) = [[0, 0, 1], [0, 0, 1], [0]] := by decide

end LbzVerif.Model.SchedC
