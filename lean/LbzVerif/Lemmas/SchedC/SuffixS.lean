/-
  Lemmas.SchedC.SuffixS — SEQUENTIAL mode: the blocks `do_collect_seq` has
  still to make (from the pending encoder, the in_blk being collected,
  `coll_q` and the unread input), AS A LIST, are always a suffix of the
  canonical block list; finishing a block removes the head of that suffix.
  Hence every block already made precedes every block still to be made.
-/
import LbzVerif.Lemmas.SchedC.OutputS

namespace LbzVerif.Model.SchedC
open LbzVerif.Gen
set_option linter.unusedSimpArgs false

variable {α σ : Type}

/-- blocks the token holder still stands for (as `remP`, but nothing for
    workers that merely carry a finished block) -/
def remTok (cd : Codec α σ) (Q : List (IBlk α)) : WPhase α σ → List (WBlk σ)
  | .s1 wo (some ib) => seqBlocks cd wo (ib :: Q)
  | .s1 wo none => wo.toList
  | .s2 w true => w :: seqBlocks cd none Q
  | .s2 w false => seqBlocks cd (some w) Q
  | _ => []

def Rw (cd : Codec α σ) (Q : List (IBlk α)) (ws : List (WPhase α σ)) : List (WBlk σ) :=
  ws.flatMap (remTok cd Q)

/-- the blocks still to be made, in order -/
def Rl (c : Cfg) (cd : Codec α σ) (s : State α σ) : List (WBlk σ) :=
  Rw cd (pendQ c s) s.ws ++ remT cd (pendQ c s) s.collectToken s.unfinished

theorem remTok_tok0 (cd : Codec α σ) (Q : List (IBlk α)) {p : WPhase α σ} (h : p.tok = 0) :
    remTok cd Q p = [] := by
  cases p <;> simp [WPhase.tok] at h <;> rfl

theorem Rw_tok0 (cd : Codec α σ) (Q : List (IBlk α)) {ws : List (WPhase α σ)}
    (h : ∀ r ∈ ws, r.tok = 0) : Rw cd Q ws = [] := by
  induction ws with
  | nil => rfl
  | cons a l ih =>
    simp only [Rw, List.flatMap_cons] at ih ⊢
    rw [remTok_tok0 cd Q (h a List.mem_cons_self), ih (fun r hr => h r (List.mem_cons_of_mem _ hr))]
    rfl

theorem Rw_set_same (cd : Codec α σ) (Q : List (IBlk α)) {ws : List (WPhase α σ)} {i : Nat}
    {q : WPhase α σ} (p : WPhase α σ) (h : ws[i]? = some q) (hq : q.tok = 0) (hp : p.tok = 0) :
    Rw cd Q (ws.set i p) = Rw cd Q ws := by
  induction ws generalizing i with
  | nil => rfl
  | cons a l ih =>
    cases i with
    | zero =>
      simp only [List.getElem?_cons_zero, Option.some.injEq] at h
      subst h
      simp only [Rw, List.set_cons_zero, List.flatMap_cons, remTok_tok0 cd Q hq,
        remTok_tok0 cd Q hp]
    | succ j =>
      simp only [List.getElem?_cons_succ] at h
      have := ih h
      simp only [Rw, List.set_cons_succ, List.flatMap_cons] at this ⊢
      rw [this]

/-- when worker `i` is the token holder, it alone contributes -/
theorem Rw_unique (cd : Codec α σ) (Q : List (IBlk α)) {ws : List (WPhase α σ)} {i : Nat}
    {q : WPhase α σ} (h : ws[i]? = some q) (hz : ∀ r ∈ ws.set i .ready, r.tok = 0)
    (p : WPhase α σ) : Rw cd Q (ws.set i p) = remTok cd Q p := by
  induction ws generalizing i with
  | nil => simp at h
  | cons a l ih =>
    cases i with
    | zero =>
      simp only [List.set_cons_zero] at hz ⊢
      have : Rw cd Q l = [] := Rw_tok0 cd Q (fun r hr => hz r (List.mem_cons_of_mem _ hr))
      simp only [Rw, List.flatMap_cons] at this ⊢
      rw [this, List.append_nil]
    | succ j =>
      simp only [List.getElem?_cons_succ] at h
      simp only [List.set_cons_succ] at hz ⊢
      have ha := remTok_tok0 cd Q (hz a List.mem_cons_self)
      have := ih h (fun r hr => hz r (List.mem_cons_of_mem _ hr))
      simp only [Rw, List.flatMap_cons] at this ⊢
      rw [ha, this, List.nil_append]

theorem Rw_holder (cd : Codec α σ) (Q : List (IBlk α)) {ws : List (WPhase α σ)} {i : Nat}
    {q : WPhase α σ} (h : ws[i]? = some q) (hz : ∀ r ∈ ws.set i .ready, r.tok = 0) :
    Rw cd Q ws = remTok cd Q q := by
  have := Rw_unique cd Q h hz q
  have hs : ws.set i q = ws := by
    apply List.ext_getElem?
    intro j
    by_cases e : i = j
    · subst e
      have hlt : i < ws.length := by
        rcases Nat.lt_or_ge i ws.length with h' | h'
        · exact h'
        · rw [List.getElem?_eq_none h'] at h; cases h
      rw [List.getElem?_set_self hlt, h]
    · rw [List.getElem?_set_ne e]
  rw [hs] at this; exact this

theorem Rw_wake (cd : Codec α σ) (Q : List (IBlk α)) {ws ws' : List (WPhase α σ)}
    (h : Wake ws ws') : Rw cd Q ws' = Rw cd Q ws := by
  rcases h with rfl | ⟨k, hk, rfl⟩
  · rfl
  · exact Rw_set_same cd Q .ready hk rfl rfl

theorem Rw_broadcast (cd : Codec α σ) (Q : List (IBlk α)) (ws : List (WPhase α σ)) :
    Rw cd Q (broadcast ws) = Rw cd Q ws := by
  induction ws with
  | nil => rfl
  | cons a l ih =>
    simp only [Rw, broadcast, List.map_cons, List.flatMap_cons] at ih ⊢
    rw [ih]
    cases a <;> simp [WPhase.isWaiting, remTok]

/-- `Rl` either stays the same or loses its head -/
def RStep (c : Cfg) (cd : Codec α σ) (s t : State α σ) : Prop :=
  Rl c cd t = Rl c cd s ∨ ∃ w, Rl c cd s = w :: Rl c cd t

theorem rstep_ends {c : Cfg} {cd : Codec α σ} {k : EndKind} {t s' : State α σ}
    (h : Ends c k t s') : Rl c cd s' = Rl c cd t := by
  cases h with
  | unlock hw => simp only [Rl, pendQ, future, Rw_wake cd _ hw]
  | resel => rfl
  | plain => rfl

section
variable {c : Cfg} {cd : Codec α σ} {s t : State α σ} {k : EndKind}

theorem rstep_core (ok : cd.OK) (hu : c.ultra = true) (hg : 0 < c.inGranul)
    (h : Core c cd s k t) (sh : ShapeS s) (cons : Conserved c s) (sel : SelInv c s)
    (rdi : ReaderInv s) : RStep c cd s t := by
  have htok := cons.token
  have hsum : (s.ws.map WPhase.tok).sum ≤ 1 := by omega
  have tokfalse : ∀ {i : Nat} {p : WPhase α σ}, s.ws[i]? = some p → p.tok = 1 →
      s.collectToken = false := by
    intro i p hw hp
    cases hh : s.collectToken with
    | false => rfl
    | true =>
      have := mem_le_wsum WPhase.tok (List.mem_of_getElem? hw)
      rw [hh] at htok; simp only [boolCount] at htok; omega
  -- a worker without the token changes phase: nothing happens to `Rl`
  have plainMove : ∀ {i : Nat} {q : WPhase α σ} (p : WPhase α σ) (t' : State α σ),
      s.ws[i]? = some q → q.tok = 0 → p.tok = 0 → t'.ws = s.ws.set i p →
      pendQ c t' = pendQ c s → t'.collectToken = s.collectToken → t'.unfinished = s.unfinished →
      RStep c cd s t' := by
    intro i q p t' hw hq hp e1 e2 e3 e4
    left
    simp only [Rl, e1, e2, e3, e4, Rw_set_same cd _ p hw hq hp]
  cases h with
  | rTake hr hi => exact .inl rfl
  | rDeliver hr hi hl =>
    left
    have hf : future c s = ⟨⟨s.nextId, 0⟩, s.input.take c.inGranul⟩ ::
        cutChunks c.inGranul (s.nextId + 1) (s.input.drop c.inGranul) :=
      cutChunks_cons _ _ _ hi hg
    have hlast : insI ⟨⟨s.nextId, 0⟩, s.input.take c.inGranul⟩ s.collQ =
        s.collQ ++ [⟨⟨s.nextId, 0⟩, s.input.take c.inGranul⟩] := by
      apply insI_last
      intro y hy
      have := sh.qLt y hy
      simp only [Pos.lt, Bool.or_eq_false_iff, Bool.and_eq_false_iff, decide_eq_false_iff_not]
      omega
    have hQ : insI ⟨⟨s.nextId, 0⟩, s.input.take c.inGranul⟩ s.collQ ++
        cutChunks c.inGranul (s.nextId + 1) (s.input.drop c.inGranul) = pendQ c s := by
      rw [hlast, pendQ, hf]; simp
    simp only [Rl, pendQ, future] at hQ ⊢
    rw [hQ]
  | rEmpty hr hi => exact .inl rfl
  | rEof hr hl => exact .inl rfl
  | wTake b q hw hq => exact .inl rfl
  | wDone b hw hl => exact .inl rfl
  | runReorder i w q hw hn hq => exact .inl rfl
  | acquire i hw hl => exact plainMove .atHead _ hw rfl rfl rfl rfl rfl rfl
  | spurious i hw => exact plainMove .ready _ hw rfl rfl rfl rfl rfl rfl
  | runWait i hw hn hf => exact plainMove .waiting _ hw rfl rfl rfl rfl rfl rfl
  | runExit i hw hn hf =>
    left
    simp only [Rl, pendQ, future, Rw_broadcast, Rw_set_same cd _ .exited hw rfl rfl]
  | runCollect i ib q hw hn hq hwu =>
    have hrdy : cCanCollect (view c s) = true := selectTask_ready (sel.symm.trans hn)
    simp [cCanCollect, view, hu] at hrdy
  | runTransmit i w q hw hn hq hos => exact plainMove (.t1 w) _ hw rfl rfl rfl rfl rfl rfl
  | c1Requeue i ib hw hl hf => exact absurd rfl (sh.noC1 _ (List.mem_of_getElem? hw) ib)
  | c1Release i ib hw hl => exact absurd rfl (sh.noC1 _ (List.mem_of_getElem? hw) ib)
  | c2Enq i w hw hf => exact plainMove .atHead _ hw rfl rfl rfl rfl rfl rfl
  | t1Enq i w hw hf => exact plainMove .atHead _ hw rfl rfl rfl rfl rfl rfl
  | runCollectSeq i hw hn hg' =>
    have hrdy : cCanCollectSeq (view c s) = true := selectTask_ready (sel.symm.trans hn)
    simp only [cCanCollectSeq, view, Bool.and_eq_true, Bool.or_eq_true, Bool.not_eq_true',
      List.isEmpty_eq_false_iff] at hrdy
    have htk : s.collectToken = true := hrdy.1.1.2
    have hsum0 : (s.ws.map WPhase.tok).sum = 0 := by
      rw [htk] at htok; simp only [boolCount] at htok; omega
    have hz := tok_zero_of_token hsum0
    have hz' : ∀ r ∈ s.ws.set i .ready, r.tok = 0 := by
      intro r hr
      rcases mem_set' hr with rfl | hm
      · rfl
      · exact hz r hm
    left
    cases hq : s.collQ with
    | cons ib q =>
      simp only [Rl, setW, pendQ, future, hq, htk, List.tail_cons, List.head?_cons,
        List.cons_append, remT, List.append_nil]
      rw [Rw_unique cd _ hw hz', Rw_tok0 cd _ hz]
      rfl
    | nil =>
      have heof : s.eof = true := by
        rcases hrdy.1.2 with h' | h'
        · exact absurd hq h'
        · exact h'.1
      have hin : s.input = [] := rdi.noInput (.inr (rdi.eofDone heof))
      simp only [Rl, setW, pendQ, future, hq, htk, hin, cutChunks_nil, List.tail_nil,
        List.head?_nil, List.append_nil, remT, seqBlocks_nil]
      rw [Rw_unique cd _ hw hz', Rw_tok0 cd _ hz]
      rfl
  | s1Requeue i wo ib hw hl hf =>
    have hz := fun r hr => (tok_unique hsum hw rfl .ready r hr).elim (fun e => e ▸ rfl) id
    have htk := tokfalse hw rfl
    obtain ⟨hlt, hall⟩ := sh.held _ (List.mem_of_getElem? hw) wo ib rfl
    have hfirst : insI ⟨ib.pos.incMinor,
        (collectOn cd (wo.getD ⟨ib.pos, ib.pos, cd.init⟩).enc ib.data).2.1⟩ s.collQ =
        ⟨ib.pos.incMinor, (collectOn cd (wo.getD ⟨ib.pos, ib.pos, cd.init⟩).enc ib.data).2.1⟩ ::
          s.collQ := by
      apply insI_first
      intro y hy
      have := hall y hy
      simp only [Pos.lt, Pos.incMinor, Bool.or_eq_true]
      exact .inl (decide_eq_true this)
    obtain ⟨hfull, hsb⟩ := seqBlocks_requeue cd ok wo ib (pendQ c s) hl
    left
    simp only [Rl, setW, pendQ, future, htk, hfirst, remT, List.append_nil, List.cons_append]
    rw [Rw_unique cd _ hw hz, Rw_holder cd _ hw hz]
    simp only [remTok, hfull]
    simp only [pendQ, future] at hsb
    rw [hsb]
  | s1Release i wo ib hw hl =>
    have hz := fun r hr => (tok_unique hsum hw rfl .ready r hr).elim (fun e => e ▸ rfl) id
    have htk := tokfalse hw rfl
    have hsb := seqBlocks_release cd wo ib (pendQ c s) hl
    left
    simp only [Rl, setW, pendQ, future, htk, remT, List.append_nil]
    rw [Rw_unique cd _ hw hz, Rw_holder cd _ hw hz]
    simp only [pendQ, future] at hsb
    simp only [remTok, hsb]
    cases (collectOn cd (wo.getD ⟨ib.pos, ib.pos, cd.init⟩).enc ib.data).2.2 <;> rfl
  | s1Flush i w hw hf =>
    have hz := fun r hr => (tok_unique hsum hw rfl .ready r hr).elim (fun e => e ▸ rfl) id
    have htk := tokfalse hw rfl
    have hunf := cons.unf htk
    obtain ⟨heof, hcq⟩ := sh.flush _ (List.mem_of_getElem? hw) (some w) rfl
    have hin : s.input = [] := rdi.noInput (.inr (rdi.eofDone heof))
    right
    refine ⟨w, ?_⟩
    simp only [Rl, setW, pendQ, future, htk, hunf, hcq, hin, cutChunks_nil, remT, List.append_nil,
      seqBlocks_nil, Option.toList]
    rw [Rw_unique cd _ hw hz, Rw_holder cd _ hw hz]
    rfl
  | s2Full i w hw hf =>
    have hz := fun r hr => (tok_unique hsum hw rfl .ready r hr).elim (fun e => e ▸ rfl) id
    have htk := tokfalse hw rfl
    have hunf := cons.unf htk
    right
    refine ⟨w, ?_⟩
    simp only [Rl, setW, pendQ, future, htk, hunf, remT, List.append_nil]
    rw [Rw_unique cd _ hw hz, Rw_holder cd _ hw hz]
    rfl
  | s2Part i w hw hf =>
    have hz := fun r hr => (tok_unique hsum hw rfl .ready r hr).elim (fun e => e ▸ rfl) id
    have htk := tokfalse hw rfl
    left
    simp only [Rl, setW, pendQ, future, htk, remT, List.append_nil]
    rw [Rw_unique cd _ hw hz, Rw_holder cd _ hw hz]
    rfl

end

/-- the blocks still to be made are a suffix of the canonical list -/
def SufS (c : Cfg) (cd : Codec α σ) (input : List α) (s : State α σ) : Prop :=
  ∃ P, canon c cd input = P ++ Rl c cd s

theorem sufS_reach {c : Cfg} {cd : Codec α σ} {input : List α} {s : State α σ}
    (ok : cd.OK) (hu : c.ultra = true) (hg : 0 < c.inGranul) (h : Reach c cd input s) :
    SufS c cd input s := by
  induction h with
  | init =>
    refine ⟨[], ?_⟩
    have hw : Rw cd (pendQ c (init (σ := σ) c input)) (init (σ := σ) c input).ws = [] := by
      apply Rw_tok0
      intro r hr
      simp only [init, initWith, reselect, List.mem_replicate] at hr
      rw [hr.2]; rfl
    simp only [Rl, hw, List.nil_append]
    simp only [init, initWith, reselect, pendQ, future, canon, hu, if_true, remT, List.nil_append]
  | step l hr hs ih =>
    obtain ⟨k, t, hc, he⟩ := step_rel hs
    have i1 := inv1_reach hr
    obtain ⟨P, hP⟩ := ih
    rw [SufS, rstep_ends he]
    rcases rstep_core ok hu hg hc (shapeS_reach hu hr) i1.cons i1.sel (reader_reach hr) with e | ⟨w, e⟩
    · exact ⟨P, by rw [e]; exact hP⟩
    · exact ⟨P ++ [w], by rw [hP, e]; simp⟩

end LbzVerif.Model.SchedC
