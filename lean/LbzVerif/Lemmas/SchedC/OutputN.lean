/-
  Lemmas.SchedC.OutputN — the multiset of blocks "handed over + in flight +
  still to be made from the input not yet collected" is always the canonical
  block list; non-sequential mode (`ultra = false`).
-/
import LbzVerif.Lemmas.SchedC.Restore
import LbzVerif.Lemmas.SchedC.XIO

namespace LbzVerif.Model.SchedC
open LbzVerif.Gen

variable {α σ : Type}

/-! ### counting (classical) -/

open Classical in
/-- number of occurrences of `x` in `l` -/
noncomputable def cnt {β : Type} (x : β) : List β → Nat
  | [] => 0
  | y :: l => (if y = x then 1 else 0) + cnt x l

theorem cnt_append {β : Type} (x : β) (l m : List β) : cnt x (l ++ m) = cnt x l + cnt x m := by
  induction l with
  | nil => simp [cnt]
  | cons y l ih => simp only [List.cons_append, cnt, ih]; omega

theorem cnt_eq_count {β : Type} [DecidableEq β] (x : β) (l : List β) : cnt x l = l.count x := by
  induction l with
  | nil => rfl
  | cons y l ih =>
    simp only [cnt, ih, List.count_cons]
    by_cases h : y = x <;> simp [h] <;> omega

theorem perm_of_cnt {β : Type} {l m : List β} (h : ∀ x, cnt x l = cnt x m) : l.Perm m := by
  classical
  rw [List.perm_iff_count]
  intro x; rw [← cnt_eq_count, ← cnt_eq_count]; exact h x

theorem cnt_insW (x w : WBlk σ) (l : List (WBlk σ)) : cnt x (insW w l) = cnt x [w] + cnt x l := by
  induction l with
  | nil => simp [insW, cnt]
  | cons y l ih =>
    simp only [insW]; split
    · simp [cnt]
    · simp only [cnt, ih]; omega

theorem cnt_flatMap {β γ : Type} (x : γ) (f : β → List γ) (l : List β) :
    cnt x (l.flatMap f) = (l.map (fun b => cnt x (f b))).sum := by
  induction l with
  | nil => rfl
  | cons y l ih => simp only [List.flatMap_cons, cnt_append, ih, List.map_cons, List.sum_cons]

theorem sum_map_insI (f : IBlk α → Nat) (w : IBlk α) (l : List (IBlk α)) :
    ((insI w l).map f).sum = f w + (l.map f).sum := by
  have := (insI_perm w l).map f
  rw [this.sum_nat]; simp

/-! ### what each phase / in_blk stands for -/

/-- blocks one in_blk will yield -/
def cb (cd : Codec α σ) (ib : IBlk α) : List (WBlk σ) := chunkBlocks cd ib.pos ib.data

/-- blocks a worker phase stands for -/
def phaseBlocks (cd : Codec α σ) : WPhase α σ → List (WBlk σ)
  | .c1 ib => cb cd ib
  | .c2 w | .t1 w => [w]
  | _ => []

/-- chunks the reader will still deliver -/
def future (c : Cfg) (s : State α σ) : List (IBlk α) := cutChunks c.inGranul s.nextId s.input

/-- `cnt x` of the blocks carried by the workers -/
noncomputable def cntW (cd : Codec α σ) (x : WBlk σ) (ws : List (WPhase α σ)) : Nat :=
  (ws.map (fun p => cnt x (phaseBlocks cd p))).sum

/-- `cnt x` of the blocks a list of in_blks will yield -/
noncomputable def cntI (cd : Codec α σ) (x : WBlk σ) (l : List (IBlk α)) : Nat :=
  (l.map (fun ib => cnt x (cb cd ib))).sum

theorem cntW_set (cd : Codec α σ) (x : WBlk σ) {ws : List (WPhase α σ)} {i : Nat}
    {q : WPhase α σ} (p : WPhase α σ) (h : ws[i]? = some q) :
    cntW cd x (ws.set i p) + cnt x (phaseBlocks cd q) = cntW cd x ws + cnt x (phaseBlocks cd p) :=
  wsum_set (fun p => cnt x (phaseBlocks cd p)) ws i p q h

theorem cntW_wake (cd : Codec α σ) (x : WBlk σ) {ws ws' : List (WPhase α σ)} (h : Wake ws ws') :
    cntW cd x ws' = cntW cd x ws :=
  wsum_wake (f := fun p => cnt x (phaseBlocks cd p)) rfl h

theorem cntW_broadcast (cd : Codec α σ) (x : WBlk σ) (ws : List (WPhase α σ)) :
    cntW cd x (broadcast ws) = cntW cd x ws :=
  wsum_broadcast (f := fun p => cnt x (phaseBlocks cd p)) rfl ws

theorem chunkBlocks_step (cd : Codec α σ) (ok : cd.OK) (pos : Pos) (data : List α)
    (hd : data ≠ []) (hl : (collectOn cd cd.init data).2.1 ≠ []) :
    chunkBlocks cd pos data =
      ⟨pos, pos.incMinor, (collectOn cd cd.init data).1⟩ ::
        chunkBlocks cd pos.incMinor (collectOn cd cd.init data).2.1 := by
  have h1 := ok.fresh data hd
  have hlen : (collectOn cd cd.init data).2.1.length < data.length := by
    simp only [collectOn, List.length_drop]
    have : 0 < data.length := List.length_pos_iff.mpr hd
    omega
  rw [chunkBlocks]
  simp only [hl, hlen, ne_eq, not_false_eq_true, and_self, ↓reduceDIte]

theorem chunkBlocks_last (cd : Codec α σ) (pos : Pos) (data : List α)
    (hl : (collectOn cd cd.init data).2.1 = []) :
    chunkBlocks cd pos data = [⟨pos, pos.incMajor, (collectOn cd cd.init data).1⟩] := by
  rw [chunkBlocks]
  simp [hl]

/-! ### shape invariant (non-sequential mode) -/

structure ShapeN (s : State α σ) : Prop where
  qData : ∀ ib ∈ s.collQ, ib.data ≠ []
  wData : ∀ p ∈ s.ws, ∀ ib, p = .c1 ib → ib.data ≠ []
  noSeq : ∀ p ∈ s.ws, p.tok = 0

theorem shapeN_init (c : Cfg) (input : List α) : ShapeN (init (σ := σ) c input) := by
  refine ⟨?_, ?_, ?_⟩
  · intro ib h; simp [init, initWith, reselect] at h
  · intro p hp ib h
    simp only [init, initWith, reselect, List.mem_replicate] at hp
    rw [hp.2] at h; cases h
  · intro p hp
    simp only [init, initWith, reselect, List.mem_replicate] at hp
    rw [hp.2]; rfl

theorem shapeN_ends {c : Cfg} {k : EndKind} {t s' : State α σ} (h : Ends c k t s')
    (inv : ShapeN t) : ShapeN s' := by
  cases h with
  | unlock hw =>
    refine ⟨inv.1, ?_, ?_⟩
    · intro p hp ib h
      rcases mem_wake hw hp with rfl | hm
      · cases h
      · exact inv.2 p hm ib h
    · intro p hp
      rcases mem_wake hw hp with rfl | hm
      · rfl
      · exact inv.3 p hm
  | resel => exact ⟨inv.1, inv.2, inv.3⟩
  | plain => exact inv

section
variable {c : Cfg} {cd : Codec α σ} {s t : State α σ} {k : EndKind}

theorem shape_set {ws : List (WPhase α σ)} (h2 : ∀ p ∈ ws, ∀ ib, p = .c1 ib → ib.data ≠ [])
    (h3 : ∀ p ∈ ws, p.tok = 0) (i : Nat) (p : WPhase α σ)
    (hp2 : ∀ ib, p = .c1 ib → ib.data ≠ []) (hp3 : p.tok = 0) :
    (∀ q ∈ ws.set i p, ∀ ib, q = .c1 ib → ib.data ≠ []) ∧ (∀ q ∈ ws.set i p, q.tok = 0) := by
  refine ⟨?_, ?_⟩
  · intro q hq ib h
    rcases mem_set' hq with rfl | hm
    · exact hp2 ib h
    · exact h2 q hm ib h
  · intro q hq
    rcases mem_set' hq with rfl | hm
    · exact hp3
    · exact h3 q hm

theorem shapeN_core (hu : c.ultra = false) (hg : 0 < c.inGranul) (h : Core c cd s k t)
    (inv : ShapeN s) (sel : SelInv c s) : ShapeN t := by
  obtain ⟨i1, i2, i3⟩ := inv
  have nc1 : ∀ p : WPhase α σ, (∀ ib, p ≠ .c1 ib) → ∀ ib, p = .c1 ib → ib.data ≠ [] :=
    fun p hp ib h => absurd h (hp ib)
  have noS : ∀ {i : Nat} {p : WPhase α σ}, s.ws[i]? = some p → p.tok = 0 :=
    fun h => i3 _ (List.mem_of_getElem? h)
  cases h with
  | rTake hr hi => exact ⟨i1, i2, i3⟩
  | rDeliver hr hi hl =>
    refine ⟨?_, i2, i3⟩
    intro ib hib
    rcases mem_insI.mp hib with rfl | h
    · show s.input.take c.inGranul ≠ []
      intro h0
      have hlen := congrArg List.length h0
      simp only [List.length_take, List.length_nil] at hlen
      have : 0 < s.input.length := List.length_pos_iff.mpr hi
      omega
    · exact i1 ib h
  | rEmpty hr hi => exact ⟨i1, i2, i3⟩
  | rEof hr hl => exact ⟨i1, i2, i3⟩
  | wTake b q hw hq => exact ⟨i1, i2, i3⟩
  | wDone b hw hl => exact ⟨i1, i2, i3⟩
  | runReorder i w q hw hn hq => exact ⟨i1, i2, i3⟩
  | acquire i hw hl =>
    obtain ⟨a, b⟩ := shape_set i2 i3 i .atHead (nc1 _ (by intro ib h; cases h)) rfl
    exact ⟨i1, a, b⟩
  | spurious i hw =>
    obtain ⟨a, b⟩ := shape_set i2 i3 i .ready (nc1 _ (by intro ib h; cases h)) rfl
    exact ⟨i1, a, b⟩
  | runWait i hw hn hf =>
    obtain ⟨a, b⟩ := shape_set i2 i3 i .waiting (nc1 _ (by intro ib h; cases h)) rfl
    exact ⟨i1, a, b⟩
  | runExit i hw hn hf =>
    obtain ⟨a, b⟩ := shape_set i2 i3 i .exited (nc1 _ (by intro ib h; cases h)) rfl
    refine ⟨i1, ?_, ?_⟩
    · intro p hp ib h
      rcases mem_broadcast hp with rfl | hm
      · cases h
      · exact a p hm ib h
    · intro p hp
      rcases mem_broadcast hp with rfl | hm
      · rfl
      · exact b p hm
  | runCollect i ib q hw hn hq hwu =>
    have hib : ib.data ≠ [] := i1 ib (by rw [hq]; exact List.mem_cons_self)
    obtain ⟨a, b⟩ := shape_set i2 i3 i (.c1 ib) (by intro ib' h; cases h; exact hib) rfl
    refine ⟨?_, a, b⟩
    intro x hx; exact i1 x (by rw [hq]; exact List.mem_cons_of_mem _ hx)
  | runCollectSeq i hw hn hg' =>
    -- impossible: the generated guard `can_collect_seq` requires `ultra`
    have hrdy : cCanCollectSeq (view c s) = true := selectTask_ready (sel.symm.trans hn)
    simp [cCanCollectSeq, view, hu] at hrdy
  | runTransmit i w q hw hn hq hos =>
    obtain ⟨a, b⟩ := shape_set i2 i3 i (.t1 w) (nc1 _ (by intro ib h; cases h)) rfl
    exact ⟨i1, a, b⟩
  | c1Requeue i ib hw hl hf =>
    obtain ⟨a, b⟩ := shape_set i2 i3 i
      (.c2 ⟨ib.pos, ib.pos.incMinor, (collectOn cd cd.init ib.data).1⟩)
      (nc1 _ (by intro ib h; cases h)) rfl
    refine ⟨?_, a, b⟩
    intro x hx
    rcases mem_insI.mp hx with rfl | h
    · exact hl
    · exact i1 x h
  | c1Release i ib hw hl =>
    obtain ⟨a, b⟩ := shape_set i2 i3 i
      (.c2 ⟨ib.pos, ib.pos.incMajor, (collectOn cd cd.init ib.data).1⟩)
      (nc1 _ (by intro ib h; cases h)) rfl
    exact ⟨i1, a, b⟩
  | c2Enq i w hw hf =>
    obtain ⟨a, b⟩ := shape_set i2 i3 i .atHead (nc1 _ (by intro ib h; cases h)) rfl
    exact ⟨i1, a, b⟩
  | t1Enq i w hw hf =>
    obtain ⟨a, b⟩ := shape_set i2 i3 i .atHead (nc1 _ (by intro ib h; cases h)) rfl
    exact ⟨i1, a, b⟩
  | s1Requeue i wo ib hw hl hf => exact absurd (noS hw) (by simp [WPhase.tok])
  | s1Release i wo ib hw hl => exact absurd (noS hw) (by simp [WPhase.tok])
  | s1Flush i w hw hf => exact absurd (noS hw) (by simp [WPhase.tok])
  | s2Full i w hw hf => exact absurd (noS hw) (by simp [WPhase.tok])
  | s2Part i w hw hf => exact absurd (noS hw) (by simp [WPhase.tok])

end

/-! ### the counting invariant -/

/-- for every block `x`: occurrences among (handed, queues, workers, blocks
    still to be made from `coll_q` and from the unread input) = occurrences in
    the canonical list -/
def OutN (c : Cfg) (cd : Codec α σ) (input : List α) (s : State α σ) : Prop :=
  ∀ x, cnt x s.handed + cnt x s.transQ + cnt x s.reordQ + cntW cd x s.ws +
      cntI cd x s.collQ + cntI cd x (future c s) = cnt x (canon c cd input)

theorem outN_init (c : Cfg) (cd : Codec α σ) (input : List α) (hu : c.ultra = false) :
    OutN c cd input (init c input) := by
  intro x
  have hw : cntW cd x (List.replicate c.n (WPhase.ready : WPhase α σ)) = 0 :=
    replicate_sum0 (fun p => cnt x (phaseBlocks cd p)) c.n rfl
  simp only [init, initWith, reselect, future, canon, hu, cnt, hw, cntI, List.map_nil,
    List.sum_nil, Bool.false_eq_true, ↓reduceIte, cnt_flatMap, cb]
  omega

theorem outN_ends {c : Cfg} {cd : Codec α σ} {input : List α} {k : EndKind} {t s' : State α σ}
    (h : Ends c k t s') (inv : OutN c cd input t) : OutN c cd input s' := by
  cases h with
  | unlock hw => intro x; have := inv x; simpa [future, cntW_wake cd x hw] using this
  | resel => exact inv
  | plain => exact inv

section
variable {c : Cfg} {cd : Codec α σ} {input : List α} {s t : State α σ} {k : EndKind}

theorem outN_core (ok : cd.OK) (hu : c.ultra = false) (hg : 0 < c.inGranul)
    (h : Core c cd s k t) (sh : ShapeN s) (sel : SelInv c s) (inv : OutN c cd input s) :
    OutN c cd input t := by
  intro x
  have I := inv x
  have noS : ∀ {i : Nat} {p : WPhase α σ}, s.ws[i]? = some p → p.tok = 0 :=
    fun h => sh.noSeq _ (List.mem_of_getElem? h)
  cases h with
  | rTake hr hi => exact I
  | rDeliver hr hi hl =>
    have hf : future c s = ⟨⟨s.nextId, 0⟩, s.input.take c.inGranul⟩ ::
        cutChunks c.inGranul (s.nextId + 1) (s.input.drop c.inGranul) :=
      cutChunks_cons _ _ _ hi hg
    simp only [hf, cntI, List.map_cons, List.sum_cons] at I
    simp only [future, cntI, sum_map_insI]
    omega
  | rEmpty hr hi => exact I
  | rEof hr hl => exact I
  | wTake b q hw hq => exact I
  | wDone b hw hl => exact I
  | runReorder i w q hw hn hq =>
    simp only [hq, cnt] at I
    simp only [future, cnt_append, cnt]
    simp only [future] at I
    omega
  | acquire i hw hl =>
    have e := cntW_set cd x (.atHead) hw
    simp only [phaseBlocks, cnt] at e
    simp only [setW, future] at I ⊢
    omega
  | spurious i hw =>
    have e := cntW_set cd x (.ready) hw
    simp only [phaseBlocks, cnt] at e
    simp only [setW, future] at I ⊢
    omega
  | runWait i hw hn hf =>
    have e := cntW_set cd x (.waiting) hw
    simp only [phaseBlocks, cnt] at e
    simp only [setW, future] at I ⊢
    omega
  | runExit i hw hn hf =>
    have e := cntW_set cd x .exited hw
    simp only [phaseBlocks, cnt] at e
    simp only [future, cntW_broadcast] at I ⊢
    omega
  | runCollect i ib q hw hn hq hwu =>
    have e := cntW_set cd x (.c1 ib) hw
    simp only [phaseBlocks, cnt] at e
    simp only [hq, cntI, List.map_cons, List.sum_cons] at I
    simp only [setW, future, cntI] at I ⊢
    omega
  | runCollectSeq i hw hn hg' =>
    have hrdy : cCanCollectSeq (view c s) = true := selectTask_ready (sel.symm.trans hn)
    simp [cCanCollectSeq, view, hu] at hrdy
  | runTransmit i w q hw hn hq hos =>
    have e := cntW_set cd x (.t1 w) hw
    simp only [phaseBlocks, cnt] at e
    simp only [hq, cnt] at I
    simp only [setW, future, cnt] at I ⊢
    omega
  | c1Requeue i ib hw hl hf =>
    have e := cntW_set cd x (.c2 ⟨ib.pos, ib.pos.incMinor, (collectOn cd cd.init ib.data).1⟩) hw
    have hd : ib.data ≠ [] := sh.wData _ (List.mem_of_getElem? hw) ib rfl
    simp only [phaseBlocks, cb, chunkBlocks_step cd ok ib.pos ib.data hd hl, cnt] at e
    simp only [setW, future, cntI, sum_map_insI, cb] at I ⊢
    omega
  | c1Release i ib hw hl =>
    have e := cntW_set cd x (.c2 ⟨ib.pos, ib.pos.incMajor, (collectOn cd cd.init ib.data).1⟩) hw
    simp only [phaseBlocks, cb, chunkBlocks_last cd ib.pos ib.data hl, cnt] at e
    simp only [setW, future] at I ⊢
    omega
  | c2Enq i w hw hf =>
    have e := cntW_set cd x .atHead hw
    simp only [phaseBlocks, cnt] at e
    simp only [setW, future, cnt_insW, cnt] at I ⊢
    omega
  | t1Enq i w hw hf =>
    have e := cntW_set cd x .atHead hw
    simp only [phaseBlocks, cnt] at e
    simp only [setW, future, cnt_insW, cnt] at I ⊢
    omega
  | s1Requeue i wo ib hw hl hf => exact absurd (noS hw) (by simp [WPhase.tok])
  | s1Release i wo ib hw hl => exact absurd (noS hw) (by simp [WPhase.tok])
  | s1Flush i w hw hf => exact absurd (noS hw) (by simp [WPhase.tok])
  | s2Full i w hw hf => exact absurd (noS hw) (by simp [WPhase.tok])
  | s2Part i w hw hf => exact absurd (noS hw) (by simp [WPhase.tok])

end

end LbzVerif.Model.SchedC

namespace LbzVerif.Model.SchedC
open LbzVerif.Gen

variable {α σ : Type}

theorem outN_reach {c : Cfg} {cd : Codec α σ} {input : List α} {s : State α σ}
    (ok : cd.OK) (hu : c.ultra = false) (hg : 0 < c.inGranul) (h : Reach c cd input s) :
    ShapeN s ∧ OutN c cd input s := by
  induction h with
  | init => exact ⟨shapeN_init c input, outN_init c cd input hu⟩
  | step l hr hs ih =>
    obtain ⟨k, t, hc, he⟩ := step_rel hs
    have sel := (inv1_reach hr).sel
    exact ⟨shapeN_ends he (shapeN_core hu hg hc ih.1 sel),
      outN_ends he (outN_core ok hu hg hc ih.1 sel ih.2)⟩

theorem cntW_zero_of_units (cd : Codec α σ) (x : WBlk σ) (ws : List (WPhase α σ))
    (h : ∀ p ∈ ws, p.units = 0) : cntW cd x ws = 0 := by
  induction ws with
  | nil => rfl
  | cons p l ih =>
    have hp := h p List.mem_cons_self
    have hl := ih (fun q hq => h q (List.mem_cons_of_mem _ hq))
    simp only [cntW, List.map_cons, List.sum_cons] at hl ⊢
    rw [hl]
    cases p <;> simp [WPhase.units] at hp <;> simp [phaseBlocks, cnt]

/-- non-sequential mode: when `can_terminate()` holds, what was handed to the
    sink is a permutation of the canonical block list -/
theorem handed_perm_canon_N {c : Cfg} {cd : Codec α σ} {input : List α} {s : State α σ}
    (ok : cd.OK) (hu : c.ultra = false) (hg : 0 < c.inGranul) (h : Reach c cd input s)
    (hf : finished c s = true) : s.handed.Perm (canon c cd input) := by
  have r := restores_of_finished (inv1_reach h).cons (inv1_reach h).sel (reader_reach h) hf
  obtain ⟨_, _, hc, ht, hr, _, _, _, _, _, _, _, hin, _, hunits⟩ := r
  have o := (outN_reach ok hu hg h).2
  apply perm_of_cnt
  intro x
  have := o x
  simp only [hc, ht, hr, future, hin, cutChunks_nil, cntI, List.map_nil, List.sum_nil, cnt,
    cntW_zero_of_units cd x s.ws hunits] at this
  omega

/-- two strictly position-sorted lists that are permutations of each other
    are equal -/
theorem eq_of_perm_sorted {l m : List (WBlk σ)} (hp : l.Perm m)
    (hl : l.Pairwise (fun x y => x.pos.lt y.pos = true))
    (hm : m.Pairwise (fun x y => x.pos.lt y.pos = true)) : l = m := by
  refine List.Perm.eq_of_pairwise ?_ hl hm hp
  intro a b _ _ hab hba
  have := Pos.lt_trans hab hba
  rw [Pos.lt_irrefl] at this; cases this

end LbzVerif.Model.SchedC
