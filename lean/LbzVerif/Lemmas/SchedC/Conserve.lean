/-
  Lemmas.SchedC.Conserve — conservation of work units, output slots, input
  slots and of `collect_token`, plus `next_task = select_task(state)`, as an
  inductive invariant of every transition (all `n`, all inputs, all codecs,
  spurious wake-ups included).
-/
import LbzVerif.Lemmas.SchedC.StepRel

namespace LbzVerif.Model.SchedC
open LbzVerif.Gen
set_option linter.unusedSimpArgs false

variable {α σ : Type}

/-- The conservation laws (and the worker count). -/
structure Conserved (c : Cfg) (s : State α σ) : Prop where
  nWorkers : s.ws.length = c.n
  units : s.workUnits + unitHolders s = c.n
  slots : s.outSlots + slotHolders s = c.totalOut
  chunks : s.inSlots + chunkHolders s = c.totalIn
  /-- exactly one of: `collect_token` is set / one worker is inside the
      token-protected part of `do_collect_seq` -/
  token : (s.ws.map WPhase.tok).sum + boolCount s.collectToken = 1
  /-- while the token is taken `unfinished_work` is NULL -/
  unf : s.collectToken = false → s.unfinished = none

/-- `next_task` always equals `select_task()` of the current state (every
    section that changes what the guards read ends in `select_task()`). -/
def SelInv (c : Cfg) (s : State α σ) : Prop := s.nextTask = selectTask (view c s)

theorem replicate_sum0 (f : WPhase α σ → Nat) (n : Nat) (hf : f .ready = 0) :
    ((List.replicate n (WPhase.ready : WPhase α σ)).map f).sum = 0 := by
  induction n with
  | zero => rfl
  | succ n ih => simp [List.replicate_succ, hf, ih]

theorem conserved_init (c : Cfg) (input : List α) : Conserved c (init (σ := σ) c input) := by
  constructor
  · simp [init, initWith, reselect]
  · simp only [init, initWith, reselect, unitHolders, replicate_sum0 _ _ (rfl : WPhase.units (α := α) (σ := σ) .ready = 0)]
    simp [optCount]
  · simp only [init, initWith, reselect, slotHolders, replicate_sum0 _ _ (rfl : WPhase.slots (α := α) (σ := σ) .ready = 0)]
    simp [optCount]
  · simp only [init, initWith, reselect, chunkHolders, replicate_sum0 _ _ (rfl : WPhase.chunks (α := α) (σ := σ) .ready = 0)]
    simp [RPhase.chunks]
  · simp only [init, initWith, reselect, replicate_sum0 _ _ (rfl : WPhase.tok (α := α) (σ := σ) .ready = 0)]
    rfl
  · intro h; rfl

theorem sel_init (c : Cfg) (input : List α) : SelInv c (init (σ := σ) c input) := rfl

theorem conserved_ends {c : Cfg} {k : EndKind} {t s' : State α σ} (h : Ends c k t s')
    (inv : Conserved c t) : Conserved c s' := by
  cases h with
  | unlock hw =>
    have hu := wsum_wake (units_blind (α := α) (σ := σ)) hw
    have hs := wsum_wake (slots_blind (α := α) (σ := σ)) hw
    have hc := wsum_wake (chunks_blind (α := α) (σ := σ)) hw
    have ht := wsum_wake (tok_blind (α := α) (σ := σ)) hw
    have hl := wake_length hw
    obtain ⟨i1, i2, i3, i4, i5, i6⟩ := inv
    simp only [wsum] at hu hs hc ht
    constructor
    · simpa [hl] using i1
    · simpa [unitHolders, hu] using i2
    · simpa [slotHolders, hs] using i3
    · simpa [chunkHolders, hc] using i4
    · simpa [ht] using i5
    · exact i6
  | resel => exact ⟨inv.1, inv.2, inv.3, inv.4, inv.5, inv.6⟩
  | plain => exact inv

/-- a section ending in `select_task()` re-establishes `SelInv` -/
theorem sel_ends {c : Cfg} {k : EndKind} {t s' : State α σ} (h : Ends c k t s')
    (hp : k = .plain → SelInv c t) : SelInv c s' := by
  cases h with
  | unlock hw => rfl
  | resel => rfl
  | plain => exact hp rfl

section
variable {c : Cfg} {cd : Codec α σ} {s t : State α σ} {k : EndKind}

/-- sections without a scheduler epilogue do not touch what the guards read -/
theorem sel_core_plain (h : Core c cd s .plain t) (inv : SelInv c s) : SelInv c t := by
  cases h <;> exact inv

/-- the weight equations for replacing worker `i`'s phase -/
theorem wsum4 {ws : List (WPhase α σ)} {i : Nat} {q : WPhase α σ} (p : WPhase α σ)
    (h : ws[i]? = some q) :
    (ws.set i p).length = ws.length ∧
    ((ws.set i p).map WPhase.units).sum + q.units = (ws.map WPhase.units).sum + p.units ∧
    ((ws.set i p).map WPhase.slots).sum + q.slots = (ws.map WPhase.slots).sum + p.slots ∧
    ((ws.set i p).map WPhase.chunks).sum + q.chunks = (ws.map WPhase.chunks).sum + p.chunks ∧
    ((ws.set i p).map WPhase.tok).sum + q.tok = (ws.map WPhase.tok).sum + p.tok :=
  ⟨by simp, wsum_set _ ws i p q h, wsum_set _ ws i p q h, wsum_set _ ws i p q h,
    wsum_set _ ws i p q h⟩

theorem conserved_core (h : Core c cd s k t) (inv : Conserved c s) (sel : SelInv c s) :
    Conserved c t := by
  obtain ⟨i1, i2, i3, i4, i5, i6⟩ := inv
  simp only [unitHolders, slotHolders, chunkHolders] at i2 i3 i4
  cases h with
  | rTake hr hi =>
    refine ⟨i1, i2, i3, ?_, i5, i6⟩
    simp only [chunkHolders, hr, RPhase.chunks] at i4 ⊢; omega
  | rDeliver hr hi hl =>
    refine ⟨i1, i2, i3, ?_, i5, i6⟩
    have hz : ∀ (p : Prop) [Decidable p],
        (if p then RPhase.eofPending else RPhase.idle).chunks = 0 := by
      intro p _; split <;> rfl
    simp only [hr, RPhase.chunks] at i4
    simp only [chunkHolders, insI_length, hz]
    omega
  | rEmpty hr hi =>
    refine ⟨i1, i2, i3, ?_, i5, i6⟩
    simp only [chunkHolders, hr, RPhase.chunks] at i4 ⊢; omega
  | rEof hr hl =>
    refine ⟨i1, i2, i3, ?_, i5, i6⟩
    simp only [chunkHolders, hr, RPhase.chunks] at i4 ⊢; omega
  | wTake b q hw hq =>
    refine ⟨i1, i2, ?_, i4, i5, i6⟩
    simp only [slotHolders, hw, hq, optCount, List.length_cons] at i3 ⊢; omega
  | wDone b hw hl =>
    refine ⟨i1, i2, ?_, i4, i5, i6⟩
    simp only [slotHolders, hw, optCount] at i3 ⊢; omega
  | runReorder i w q hw hn hq =>
    refine ⟨i1, i2, ?_, i4, i5, i6⟩
    simp only [slotHolders, hq, List.length_cons, List.length_append, List.length_nil] at i3 ⊢
    omega
  | runExit i hw hn hf =>
    obtain ⟨e0, e1, e2, e3, e4⟩ := wsum4 .exited hw
    simp only [WPhase.units, WPhase.slots, WPhase.chunks, WPhase.tok] at e1 e2 e3 e4
    have b1 := wsum_broadcast (units_blind (α := α) (σ := σ)) (s.ws.set i .exited)
    have b2 := wsum_broadcast (slots_blind (α := α) (σ := σ)) (s.ws.set i .exited)
    have b3 := wsum_broadcast (chunks_blind (α := α) (σ := σ)) (s.ws.set i .exited)
    have b4 := wsum_broadcast (tok_blind (α := α) (σ := σ)) (s.ws.set i .exited)
    simp only [wsum] at b1 b2 b3 b4
    refine ⟨by simpa [broadcast_length] using i1, ?_, ?_, ?_, ?_, i6⟩ <;>
      simp only [unitHolders, slotHolders, chunkHolders] <;> omega
  | acquire i hw hl =>
    obtain ⟨e0, e1, e2, e3, e4⟩ := wsum4 (.atHead) hw
    simp only [WPhase.units, WPhase.slots, WPhase.chunks, WPhase.tok] at e1 e2 e3 e4
    refine ⟨by simpa [setW] using i1, ?_, ?_, ?_, ?_, i6⟩ <;>
      simp only [setW, unitHolders, slotHolders, chunkHolders, insI_length, insW_length] <;> omega
  | spurious i hw =>
    obtain ⟨e0, e1, e2, e3, e4⟩ := wsum4 (.ready) hw
    simp only [WPhase.units, WPhase.slots, WPhase.chunks, WPhase.tok] at e1 e2 e3 e4
    refine ⟨by simpa [setW] using i1, ?_, ?_, ?_, ?_, i6⟩ <;>
      simp only [setW, unitHolders, slotHolders, chunkHolders, insI_length, insW_length] <;> omega
  | runWait i hw hn hf =>
    obtain ⟨e0, e1, e2, e3, e4⟩ := wsum4 (.waiting) hw
    simp only [WPhase.units, WPhase.slots, WPhase.chunks, WPhase.tok] at e1 e2 e3 e4
    refine ⟨by simpa [setW] using i1, ?_, ?_, ?_, ?_, i6⟩ <;>
      simp only [setW, unitHolders, slotHolders, chunkHolders, insI_length, insW_length] <;> omega
  | runCollect i ib q hw hn hq hwu =>
    obtain ⟨e0, e1, e2, e3, e4⟩ := wsum4 (.c1 ib) hw
    simp only [WPhase.units, WPhase.slots, WPhase.chunks, WPhase.tok] at e1 e2 e3 e4
    simp only [hq, List.length_cons] at i4
    refine ⟨by simpa [setW] using i1, ?_, ?_, ?_, ?_, i6⟩ <;>
      simp only [setW, unitHolders, slotHolders, chunkHolders, insI_length, insW_length] <;> omega
  | runTransmit i w q hw hn hq hos =>
    obtain ⟨e0, e1, e2, e3, e4⟩ := wsum4 (.t1 w) hw
    simp only [WPhase.units, WPhase.slots, WPhase.chunks, WPhase.tok] at e1 e2 e3 e4
    simp only [hq, List.length_cons] at i2
    refine ⟨by simpa [setW] using i1, ?_, ?_, ?_, ?_, i6⟩ <;>
      simp only [setW, unitHolders, slotHolders, chunkHolders, insI_length, insW_length] <;> omega
  | c1Requeue i ib hw hl hf =>
    obtain ⟨e0, e1, e2, e3, e4⟩ := wsum4 (.c2 ⟨ib.pos, ib.pos.incMinor, (collectOn cd cd.init ib.data).1⟩) hw
    simp only [WPhase.units, WPhase.slots, WPhase.chunks, WPhase.tok] at e1 e2 e3 e4
    refine ⟨by simpa [setW] using i1, ?_, ?_, ?_, ?_, i6⟩ <;>
      simp only [setW, unitHolders, slotHolders, chunkHolders, insI_length, insW_length] <;> omega
  | c1Release i ib hw hl =>
    obtain ⟨e0, e1, e2, e3, e4⟩ := wsum4 (.c2 ⟨ib.pos, ib.pos.incMajor, (collectOn cd cd.init ib.data).1⟩) hw
    simp only [WPhase.units, WPhase.slots, WPhase.chunks, WPhase.tok] at e1 e2 e3 e4
    refine ⟨by simpa [setW] using i1, ?_, ?_, ?_, ?_, i6⟩ <;>
      simp only [setW, unitHolders, slotHolders, chunkHolders, insI_length, insW_length] <;> omega
  | c2Enq i w hw hf =>
    obtain ⟨e0, e1, e2, e3, e4⟩ := wsum4 (.atHead) hw
    simp only [WPhase.units, WPhase.slots, WPhase.chunks, WPhase.tok] at e1 e2 e3 e4
    refine ⟨by simpa [setW] using i1, ?_, ?_, ?_, ?_, i6⟩ <;>
      simp only [setW, unitHolders, slotHolders, chunkHolders, insI_length, insW_length] <;> omega
  | t1Enq i w hw hf =>
    obtain ⟨e0, e1, e2, e3, e4⟩ := wsum4 (.atHead) hw
    simp only [WPhase.units, WPhase.slots, WPhase.chunks, WPhase.tok] at e1 e2 e3 e4
    refine ⟨by simpa [setW] using i1, ?_, ?_, ?_, ?_, i6⟩ <;>
      simp only [setW, unitHolders, slotHolders, chunkHolders, insI_length, insW_length] <;> omega
  | s1Requeue i wo ib hw hl hf =>
    obtain ⟨e0, e1, e2, e3, e4⟩ := wsum4 (.s2 ⟨(wo.getD ⟨ib.pos, ib.pos, cd.init⟩).pos, (wo.getD ⟨ib.pos, ib.pos, cd.init⟩).next.incMinor, (collectOn cd (wo.getD ⟨ib.pos, ib.pos, cd.init⟩).enc ib.data).1⟩ (collectOn cd (wo.getD ⟨ib.pos, ib.pos, cd.init⟩).enc ib.data).2.2) hw
    simp only [WPhase.units, WPhase.slots, WPhase.chunks, WPhase.tok] at e1 e2 e3 e4
    refine ⟨by simpa [setW] using i1, ?_, ?_, ?_, ?_, i6⟩ <;>
      simp only [setW, unitHolders, slotHolders, chunkHolders, insI_length, insW_length] <;> omega
  | s1Release i wo ib hw hl =>
    obtain ⟨e0, e1, e2, e3, e4⟩ := wsum4 (.s2 ⟨(wo.getD ⟨ib.pos, ib.pos, cd.init⟩).pos, (wo.getD ⟨ib.pos, ib.pos, cd.init⟩).next.incMajor, (collectOn cd (wo.getD ⟨ib.pos, ib.pos, cd.init⟩).enc ib.data).1⟩ (collectOn cd (wo.getD ⟨ib.pos, ib.pos, cd.init⟩).enc ib.data).2.2) hw
    simp only [WPhase.units, WPhase.slots, WPhase.chunks, WPhase.tok] at e1 e2 e3 e4
    refine ⟨by simpa [setW] using i1, ?_, ?_, ?_, ?_, i6⟩ <;>
      simp only [setW, unitHolders, slotHolders, chunkHolders, insI_length, insW_length] <;> omega
  | s1Flush i w hw hf =>
    obtain ⟨e0, e1, e2, e3, e4⟩ := wsum4 (.c2 w) hw
    simp only [WPhase.units, WPhase.slots, WPhase.chunks, WPhase.tok] at e1 e2 e3 e4
    have htk : s.collectToken = false := by
      cases hh : s.collectToken with
      | false => rfl
      | true => rw [hh] at i5; simp only [boolCount] at i5; omega
    refine ⟨by simpa [setW] using i1, ?_, ?_, ?_, ?_, ?_⟩
    · simp only [setW, unitHolders]; omega
    · simp only [setW, slotHolders]; omega
    · simp only [setW, chunkHolders]; omega
    · rw [htk] at i5; simp only [setW, boolCount] at i5 ⊢; omega
    · intro hh; simp [setW] at hh
  | s2Full i w hw hf =>
    obtain ⟨e0, e1, e2, e3, e4⟩ := wsum4 (.c2 w) hw
    simp only [WPhase.units, WPhase.slots, WPhase.chunks, WPhase.tok] at e1 e2 e3 e4
    have htk : s.collectToken = false := by
      cases hh : s.collectToken with
      | false => rfl
      | true => rw [hh] at i5; simp only [boolCount] at i5; omega
    refine ⟨by simpa [setW] using i1, ?_, ?_, ?_, ?_, ?_⟩
    · simp only [setW, unitHolders]; omega
    · simp only [setW, slotHolders]; omega
    · simp only [setW, chunkHolders]; omega
    · rw [htk] at i5; simp only [setW, boolCount] at i5 ⊢; omega
    · intro hh; simp [setW] at hh
  | s2Part i w hw hf =>
    obtain ⟨e0, e1, e2, e3, e4⟩ := wsum4 .atHead hw
    simp only [WPhase.units, WPhase.slots, WPhase.chunks, WPhase.tok] at e1 e2 e3 e4
    have htk : s.collectToken = false := by
      cases hh : s.collectToken with
      | false => rfl
      | true => rw [hh] at i5; simp only [boolCount] at i5; omega
    have hun := i6 htk
    refine ⟨by simpa [setW] using i1, ?_, ?_, ?_, ?_, ?_⟩
    · simp only [hun, optCount] at i2
      simp only [setW, unitHolders, optCount]; omega
    · simp only [setW, slotHolders]; omega
    · simp only [setW, chunkHolders]; omega
    · rw [htk] at i5; simp only [setW, boolCount] at i5 ⊢; omega
    · intro hh; simp [setW] at hh
  | runCollectSeq i hw hn hg =>
    obtain ⟨e0, e1, e2, e3, e4⟩ := wsum4 (.s1 s.unfinished s.collQ.head?) hw
    rw [s1_chunks] at e3
    have hth := tail_head_length s.collQ
    simp only [WPhase.units, WPhase.slots, WPhase.chunks, WPhase.tok] at e1 e2 e3 e4
    -- the generated guard `can_collect_seq` holds, so the token is there
    have hrdy : cCanCollectSeq (view c s) = true := by
      have := selectTask_ready (sel.symm.trans hn); exact this
    have htk : s.collectToken = true := by
      simp only [cCanCollectSeq, view, Bool.and_eq_true] at hrdy
      exact hrdy.1.1.2
    refine ⟨by simpa [setW] using i1, ?_, ?_, ?_, ?_, ?_⟩
    · simp only [setW, unitHolders]
      cases hu : s.unfinished with
      | none =>
        simp only [hu, Option.isNone_none, optCount, ↓reduceIte, Bool.true_and, beq_eq_false_iff_ne,
          ne_eq] at hg i2 e1 ⊢
        omega
      | some w =>
        simp only [hu, Option.isNone_some, optCount, Bool.false_eq_true, ↓reduceIte] at i2 e1 ⊢
        omega
    · simp only [setW, slotHolders]; omega
    · simp only [setW, chunkHolders]; omega
    · rw [htk] at i5; simp only [setW, boolCount] at i5 ⊢; omega
    · intro _; rfl

end

/-! ### the invariant holds in every reachable state -/

/-- conservation + `next_task` discipline -/
structure Inv1 (c : Cfg) (s : State α σ) : Prop where
  cons : Conserved c s
  sel : SelInv c s

theorem inv1_step {c : Cfg} {cd : Codec α σ} {s s' : State α σ} (h : StepRel c cd s s')
    (inv : Inv1 c s) : Inv1 c s' := by
  obtain ⟨k, t, hc, he⟩ := h
  refine ⟨conserved_ends he (conserved_core hc inv.cons inv.sel), sel_ends he ?_⟩
  intro hk; subst hk
  exact sel_core_plain hc inv.sel

theorem inv1_reach {c : Cfg} {cd : Codec α σ} {input : List α} {s : State α σ}
    (h : Reach c cd input s) : Inv1 c s := by
  induction h with
  | init => exact ⟨conserved_init c input, sel_init c input⟩
  | step l _ hs ih => exact inv1_step (step_rel hs) ih

/-- capacities: each queue is within the extent given to `pqueue_init`
    (`Cfg.caps`, generated), and `output_q` within its `deque_init` extent. -/
theorem capacity_of_conserved {c : Cfg} {s : State α σ} (inv : Conserved c s) :
    s.collQ.length ≤ c.caps.1 ∧ s.transQ.length ≤ c.caps.2.1 ∧ s.reordQ.length ≤ c.caps.2.2 ∧
      s.outputQ.length ≤ c.totalOut := by
  obtain ⟨i1, i2, i3, i4, _, _⟩ := inv
  simp only [unitHolders, slotHolders, chunkHolders] at i2 i3 i4
  simp only [Cfg.caps, cCaps]
  refine ⟨?_, ?_, ?_, ?_⟩ <;> omega

end LbzVerif.Model.SchedC
