/-
  Lemmas.SchedC.CanonSorted — the canonical block list `canon` is strictly
  sorted by position (both modes).  With `handed.Perm canon` and the `next`
  chain this gives `handed = canon`.
-/
import LbzVerif.Lemmas.SchedC.OutputS

namespace LbzVerif.Model.SchedC
open LbzVerif.Gen

variable {α σ : Type}

/-- `p ≤ q` on positions -/
def Pos.le (p q : Pos) : Prop := p = q ∨ p.lt q = true

theorem Pos.le_refl (p : Pos) : p.le p := .inl rfl

theorem Pos.lt_of_lt_of_le {p q r : Pos} (h : p.lt q = true) (h2 : q.le r) : p.lt r = true := by
  rcases h2 with rfl | h2
  · exact h
  · exact Pos.lt_trans h h2

theorem Pos.lt_of_le_of_lt {p q r : Pos} (h : p.le q) (h2 : q.lt r = true) : p.lt r = true := by
  rcases h with rfl | h
  · exact h2
  · exact Pos.lt_trans h h2

theorem Pos.le_trans {p q r : Pos} (h : p.le q) (h2 : q.le r) : p.le r := by
  rcases h with rfl | h
  · exact h2
  · exact .inr (Pos.lt_of_lt_of_le h h2)

theorem Pos.lt_of_major {p q : Pos} (h : p.major < q.major) : p.lt q = true := by
  simp only [Pos.lt, Bool.or_eq_true, decide_eq_true_eq]; exact .inl h

/-! ### non-sequential mode -/

theorem chunkBlocks_sorted (cd : Codec α σ) (pos : Pos) (data : List α) :
    (chunkBlocks cd pos data).Pairwise (fun x y => x.pos.lt y.pos = true) ∧
    ∀ x ∈ chunkBlocks cd pos data, x.pos.major = pos.major ∧ pos.le x.pos := by
  induction pos, data using chunkBlocks.induct cd with
  | case1 pos data r h ih =>
    rw [chunkBlocks]
    simp only [r] at h
    simp only [h, ne_eq, not_false_eq_true, and_self, ↓reduceDIte]
    obtain ⟨ih1, ih2⟩ := ih
    refine ⟨List.pairwise_cons.mpr ⟨?_, ih1⟩, ?_⟩
    · intro x hx
      exact Pos.lt_of_lt_of_le (Pos.lt_incMinor pos) (ih2 x hx).2
    · intro x hx
      rcases List.mem_cons.mp hx with rfl | hx
      · exact ⟨rfl, Pos.le_refl _⟩
      · obtain ⟨a, b⟩ := ih2 x hx
        exact ⟨a, .inr (Pos.lt_of_lt_of_le (Pos.lt_incMinor pos) b)⟩
  | case2 pos data r h =>
    rw [chunkBlocks]
    simp only [r] at h
    simp only [h, ↓reduceDIte]
    refine ⟨List.pairwise_singleton _ _, ?_⟩
    intro x hx
    simp only [List.mem_singleton] at hx
    subst hx
    exact ⟨rfl, Pos.le_refl _⟩

theorem cutChunks_sorted (g : Nat) (id : Nat) (input : List α) :
    (cutChunks g id input).Pairwise (fun a b => a.pos.major < b.pos.major) ∧
    ∀ ib ∈ cutChunks g id input, id ≤ ib.pos.major ∧ ib.pos.minor = 0 ∧ ib.data ≠ [] := by
  induction id, input using cutChunks.induct g with
  | case1 id input h ih =>
    rw [cutChunks]
    simp only [h, ne_eq, not_false_eq_true, and_self, ↓reduceDIte]
    obtain ⟨ih1, ih2⟩ := ih
    have hne : input.take g ≠ [] := by
      intro h0
      have hl := congrArg List.length h0
      simp only [List.length_take, List.length_nil] at hl
      have : 0 < input.length := List.length_pos_iff.mpr h.1
      omega
    refine ⟨List.pairwise_cons.mpr ⟨?_, ih1⟩, ?_⟩
    · intro x hx
      have := (ih2 x hx).1
      show id < x.pos.major
      omega
    · intro x hx
      rcases List.mem_cons.mp hx with rfl | hx
      · exact ⟨Nat.le_refl _, rfl, hne⟩
      · obtain ⟨a, b⟩ := ih2 x hx
        exact ⟨by omega, b⟩
  | case2 id input h =>
    rw [cutChunks]
    simp only [h, ↓reduceDIte]
    exact ⟨List.Pairwise.nil, by simp⟩

theorem canon_sorted_N (c : Cfg) (cd : Codec α σ) (input : List α) (hu : c.ultra = false) :
    (canon c cd input).Pairwise (fun x y => x.pos.lt y.pos = true) := by
  simp only [canon, hu, Bool.false_eq_true, if_false]
  rw [List.pairwise_flatMap]
  refine ⟨fun a _ => (chunkBlocks_sorted cd a.pos a.data).1, ?_⟩
  refine (cutChunks_sorted c.inGranul 0 input).1.imp ?_
  intro a b hab x hx y hy
  have hx' := (chunkBlocks_sorted cd a.pos a.data).2 x hx
  have hy' := (chunkBlocks_sorted cd b.pos b.data).2 y hy
  apply Pos.lt_of_major
  omega

/-! ### sequential mode -/

/-- where the next block of `seqBlocks cur ibs` starts -/
def seqLb (cur : Option (WBlk σ)) (ibs : List (IBlk α)) : Option Pos :=
  match cur with
  | some w => some w.pos
  | none => ibs.head?.map (·.pos)

/-- hypotheses on the arguments of `seqBlocks` -/
def SeqArgs (cur : Option (WBlk σ)) (ibs : List (IBlk α)) : Prop :=
  ibs.Pairwise (fun a b => a.pos.major < b.pos.major) ∧
  ∀ w, cur = some w → ∀ ib ∈ ibs, w.pos.major < ib.pos.major

theorem seqBlocks_sorted (cd : Codec α σ) (cur : Option (WBlk σ)) (ibs : List (IBlk α)) :
    SeqArgs cur ibs →
    (seqBlocks cd cur ibs).Pairwise (fun x y => x.pos.lt y.pos = true) ∧
    ∀ x ∈ seqBlocks cd cur ibs, ∃ p, seqLb cur ibs = some p ∧ p.le x.pos := by
  induction cur, ibs using seqBlocks.induct cd with
  | case1 => intro _; rw [seqBlocks]; exact ⟨List.Pairwise.nil, by simp⟩
  | case2 w =>
    intro _; rw [seqBlocks]
    refine ⟨List.pairwise_singleton _ _, ?_⟩
    intro x hx
    simp only [List.mem_singleton] at hx; subst hx
    exact ⟨_, rfl, Pos.le_refl _⟩
  | case3 cur ib rest w0 r hl hc ih =>
    intro ⟨hs, hcur⟩
    rw [seqBlocks]
    simp only [w0, r] at hl hc ih
    simp only [hl, hc, ne_eq, not_false_eq_true, and_self, ↓reduceDIte, ↓reduceIte]
    obtain ⟨hs1, hs2⟩ := List.pairwise_cons.mp hs
    have hargs : SeqArgs (σ := σ) none
        (⟨ib.pos.incMinor, (collectOn cd (cur.getD ⟨ib.pos, ib.pos, cd.init⟩).enc ib.data).2.1⟩ ::
          rest) := by
      refine ⟨List.pairwise_cons.mpr ⟨fun y hy => hs1 y hy, hs2⟩, ?_⟩
      intro w h; cases h
    obtain ⟨ih1, ih2⟩ := ih hargs
    -- the block starts at or before `ib.pos`
    have hw0 : (cur.getD ⟨ib.pos, ib.pos, cd.init⟩).pos.le ib.pos := by
      cases cur with
      | none => exact Pos.le_refl _
      | some w => exact .inr (Pos.lt_of_major (hcur w rfl ib List.mem_cons_self))
    have htail : ∀ x ∈ seqBlocks cd none
        (⟨ib.pos.incMinor, (collectOn cd (cur.getD ⟨ib.pos, ib.pos, cd.init⟩).enc ib.data).2.1⟩ ::
          rest), (cur.getD ⟨ib.pos, ib.pos, cd.init⟩).pos.lt x.pos = true := by
      intro x hx
      obtain ⟨p, hp, hle⟩ := ih2 x hx
      simp only [seqLb, List.head?_cons, Option.map_some, Option.some.injEq] at hp
      subst hp
      exact Pos.lt_of_le_of_lt hw0 (Pos.lt_of_lt_of_le (Pos.lt_incMinor ib.pos) hle)
    refine ⟨List.pairwise_cons.mpr ⟨htail, ih1⟩, ?_⟩
    intro x hx
    refine ⟨(cur.getD ⟨ib.pos, ib.pos, cd.init⟩).pos, ?_, ?_⟩
    · cases cur <;> rfl
    · rcases List.mem_cons.mp hx with rfl | hx
      · exact Pos.le_refl _
      · exact .inr (htail x hx)
  | case4 cur ib rest w0 r hl hc =>
    intro _
    rw [seqBlocks]
    simp only [w0, r] at hl hc
    simp only [hl, hc, ne_eq, not_false_eq_true, ↓reduceDIte, ↓reduceIte]
    exact ⟨List.Pairwise.nil, by simp⟩
  | case5 cur ib rest w0 r hl hfull ih =>
    intro ⟨hs, hcur⟩
    rw [seqBlocks]
    simp only [w0, r] at hl hfull ih
    simp only [hl, hfull, ↓reduceIte]
    obtain ⟨hs1, hs2⟩ := List.pairwise_cons.mp hs
    have hargs : SeqArgs (σ := σ) none rest := ⟨hs2, by intro w h; cases h⟩
    obtain ⟨ih1, ih2⟩ := ih hargs
    have hw0 : (cur.getD ⟨ib.pos, ib.pos, cd.init⟩).pos.le ib.pos := by
      cases cur with
      | none => exact Pos.le_refl _
      | some w => exact .inr (Pos.lt_of_major (hcur w rfl ib List.mem_cons_self))
    have htail : ∀ x ∈ seqBlocks cd none rest,
        (cur.getD ⟨ib.pos, ib.pos, cd.init⟩).pos.lt x.pos = true := by
      intro x hx
      obtain ⟨p, hp, hle⟩ := ih2 x hx
      cases rest with
      | nil => simp [seqLb] at hp
      | cons ib2 rest2 =>
        simp only [seqLb, List.head?_cons, Option.map_some, Option.some.injEq] at hp
        subst hp
        exact Pos.lt_of_le_of_lt hw0
          (Pos.lt_of_lt_of_le (Pos.lt_of_major (hs1 ib2 List.mem_cons_self)) hle)
    refine ⟨List.pairwise_cons.mpr ⟨htail, ih1⟩, ?_⟩
    intro x hx
    refine ⟨(cur.getD ⟨ib.pos, ib.pos, cd.init⟩).pos, ?_, ?_⟩
    · cases cur <;> rfl
    · rcases List.mem_cons.mp hx with rfl | hx
      · exact Pos.le_refl _
      · exact .inr (htail x hx)
  | case6 cur ib rest w0 r hl w hfull ih =>
    intro ⟨hs, hcur⟩
    rw [seqBlocks]
    simp only [w0, r, w] at hl hfull ih
    simp only [hl, hfull, ↓reduceIte]
    obtain ⟨hs1, hs2⟩ := List.pairwise_cons.mp hs
    have hmaj : (cur.getD ⟨ib.pos, ib.pos, cd.init⟩).pos.major ≤ ib.pos.major := by
      cases cur with
      | none => exact Nat.le_refl _
      | some w1 => exact Nat.le_of_lt (hcur w1 rfl ib List.mem_cons_self)
    have hargs : SeqArgs (some (⟨(cur.getD ⟨ib.pos, ib.pos, cd.init⟩).pos,
        (cur.getD ⟨ib.pos, ib.pos, cd.init⟩).next.incMajor,
        (collectOn cd (cur.getD ⟨ib.pos, ib.pos, cd.init⟩).enc ib.data).1⟩ : WBlk σ)) rest := by
      refine ⟨hs2, ?_⟩
      intro w' h y hy
      simp only [Option.some.injEq] at h; subst h
      have := hs1 y hy
      show (cur.getD ⟨ib.pos, ib.pos, cd.init⟩).pos.major < y.pos.major
      omega
    obtain ⟨ih1, ih2⟩ := ih hargs
    refine ⟨ih1, ?_⟩
    intro x hx
    obtain ⟨p, hp, hle⟩ := ih2 x hx
    simp only [seqLb, Option.some.injEq] at hp
    subst hp
    refine ⟨(cur.getD ⟨ib.pos, ib.pos, cd.init⟩).pos, ?_, hle⟩
    cases cur <;> rfl

theorem canon_sorted_S (c : Cfg) (cd : Codec α σ) (input : List α) (hu : c.ultra = true) :
    (canon c cd input).Pairwise (fun x y => x.pos.lt y.pos = true) := by
  simp only [canon, hu, if_true]
  exact (seqBlocks_sorted cd none _
    ⟨(cutChunks_sorted c.inGranul 0 input).1, by intro w h; cases h⟩).1

theorem canon_sorted (c : Cfg) (cd : Codec α σ) (input : List α) :
    (canon c cd input).Pairwise (fun x y => x.pos.lt y.pos = true) := by
  cases hu : c.ultra with
  | true => exact canon_sorted_S c cd input hu
  | false => exact canon_sorted_N c cd input hu

/-- **the output is the canonical block list** (both modes) -/
theorem handed_eq_canon {c : Cfg} {cd : Codec α σ} {input : List α} {s : State α σ}
    (ok : cd.OK) (hg : 0 < c.inGranul) (h : Reach c cd input s)
    (hf : finished c s = true) : s.handed = canon c cd input := by
  have hp : s.handed.Perm (canon c cd input) := by
    cases hu : c.ultra with
    | true => exact handed_perm_canon_S ok hu hg h hf
    | false => exact handed_perm_canon_N ok hu hg h hf
  exact eq_of_perm_sorted hp (chain_pairwise (order_reach h).chain).1 (canon_sorted c cd input)

end LbzVerif.Model.SchedC
