/-
  Lemmas.SchedC.ChainC — the canonical block list is a `next`-chain from (0,0)
  (both modes), what has been handed to the sink is a PREFIX of it, and the
  blocks still in flight are (as a multiset) the remaining suffix, which is a
  chain starting at `order`.
-/
import LbzVerif.Lemmas.SchedC.CanonSorted

namespace LbzVerif.Model.SchedC
open LbzVerif.Gen

variable {α σ : Type}

theorem chain_append {a b e : Pos} {l m : List (WBlk σ)} (h1 : Chain a l b) (h2 : Chain b m e) :
    Chain a (l ++ m) e := by
  induction l generalizing a with
  | nil => simp only [Chain] at h1; subst h1; exact h2
  | cons x l ih => exact ⟨h1.1, h1.2.1, ih h1.2.2⟩

/-! ### non-sequential mode -/

theorem chunkBlocks_chain (cd : Codec α σ) (ok : cd.OK) (pos : Pos) (data : List α) :
    Chain pos (chunkBlocks cd pos data) ⟨pos.major + 1, 0⟩ := by
  induction pos, data using chunkBlocks.induct cd with
  | case1 pos data r h ih =>
    rw [chunkBlocks]
    simp only [r] at h
    simp only [h, ne_eq, not_false_eq_true, and_self, ↓reduceDIte]
    exact ⟨rfl, Pos.lt_incMinor pos, ih⟩
  | case2 pos data r h =>
    rw [chunkBlocks]
    simp only [r] at h
    simp only [h, ↓reduceDIte]
    have hnil : (collectOn cd cd.init data).2.1 = [] := by
      by_cases h0 : (collectOn cd cd.init data).2.1 = []
      · exact h0
      · exfalso
        apply h
        refine ⟨h0, ?_⟩
        have hd : data ≠ [] := by intro e; apply h0; simp [collectOn, e]
        have h1 := ok.fresh data hd
        have : 0 < data.length := List.length_pos_iff.mpr hd
        simp only [collectOn, List.length_drop]; omega
    simp only [hnil, ne_eq, not_true_eq_false, ↓reduceIte]
    exact ⟨rfl, Pos.lt_incMajor pos, rfl⟩

theorem flatMap_chunks_chain (cd : Codec α σ) (ok : cd.OK) (g id : Nat) (input : List α) :
    ∃ e, Chain ⟨id, 0⟩ ((cutChunks g id input).flatMap (fun ib => chunkBlocks cd ib.pos ib.data)) e := by
  induction id, input using cutChunks.induct g with
  | case1 id input h ih =>
    rw [cutChunks]
    simp only [h, ne_eq, not_false_eq_true, and_self, ↓reduceDIte, List.flatMap_cons]
    obtain ⟨e, he⟩ := ih
    exact ⟨e, chain_append (chunkBlocks_chain cd ok ⟨id, 0⟩ _) he⟩
  | case2 id input h =>
    rw [cutChunks]
    simp only [h, ↓reduceDIte, List.flatMap_nil]
    exact ⟨_, rfl⟩

theorem canon_chain_N (c : Cfg) (cd : Codec α σ) (ok : cd.OK) (input : List α)
    (hu : c.ultra = false) : ∃ e, Chain ⟨0, 0⟩ (canon c cd input) e := by
  simp only [canon, hu, Bool.false_eq_true, if_false]
  exact flatMap_chunks_chain cd ok c.inGranul 0 input

/-! ### sequential mode -/

/-- the in_blks start at `p` and continue with the following chunk numbers -/
def Consec : Pos → List (IBlk α) → Prop
  | _, [] => True
  | p, ib :: l => ib.pos = p ∧ Consec ⟨p.major + 1, 0⟩ l

theorem cutChunks_consec (g id : Nat) (input : List α) : Consec ⟨id, 0⟩ (cutChunks g id input) := by
  induction id, input using cutChunks.induct g with
  | case1 id input h ih =>
    rw [cutChunks]
    simp only [h, ne_eq, not_false_eq_true, and_self, ↓reduceDIte]
    exact ⟨rfl, ih⟩
  | case2 id input h =>
    rw [cutChunks]
    simp only [h, ↓reduceDIte]
    trivial

/-- where the first block of `seqBlocks cur ibs` starts -/
def seqStart (cur : Option (WBlk σ)) (p : Pos) : Pos :=
  match cur with
  | some w => w.pos
  | none => p

theorem seqBlocks_chain (cd : Codec α σ) (cur : Option (WBlk σ)) (ibs : List (IBlk α)) :
    ∀ p, Consec p ibs → (∀ w, cur = some w → w.next = p ∧ w.pos.lt w.next = true) →
    ∃ e, Chain (seqStart cur p) (seqBlocks cd cur ibs) e := by
  induction cur, ibs using seqBlocks.induct cd with
  | case1 => intro p _ _; rw [seqBlocks]; exact ⟨_, rfl⟩
  | case2 w =>
    intro p _ hc
    rw [seqBlocks]
    exact ⟨w.next, rfl, (hc w rfl).2, rfl⟩
  | case3 cur ib rest w0 r hl hc ih =>
    intro p hcs hcur
    rw [seqBlocks]
    simp only [w0, r] at hl hc ih
    simp only [hl, hc, ne_eq, not_false_eq_true, and_self, ↓reduceDIte, ↓reduceIte]
    obtain ⟨hp, hrest⟩ := hcs
    have hnext : (cur.getD ⟨ib.pos, ib.pos, cd.init⟩).next = p := by
      cases cur with
      | none => exact hp
      | some w => exact (hcur w rfl).1
    have hpos : (cur.getD ⟨ib.pos, ib.pos, cd.init⟩).pos = seqStart cur p := by
      cases cur with
      | none => exact hp
      | some w => rfl
    have hok : (cur.getD ⟨ib.pos, ib.pos, cd.init⟩).pos.lt p.incMinor = true := by
      cases cur with
      | none => show ib.pos.lt p.incMinor = true; rw [hp]; exact Pos.lt_incMinor p
      | some w => exact Pos.lt_incMinor_of_lt ((hcur w rfl).1 ▸ (hcur w rfl).2)
    obtain ⟨e, he⟩ := ih p.incMinor ⟨by rw [hp], hrest⟩ (by intro w h; cases h)
    refine ⟨e, hpos, ?_, ?_⟩
    · show (cur.getD ⟨ib.pos, ib.pos, cd.init⟩).pos.lt
        (cur.getD ⟨ib.pos, ib.pos, cd.init⟩).next.incMinor = true
      rw [hnext]; exact hok
    · show Chain (cur.getD ⟨ib.pos, ib.pos, cd.init⟩).next.incMinor _ e
      rw [hnext]; exact he
  | case4 cur ib rest w0 r hl hc =>
    intro p _ _
    rw [seqBlocks]
    simp only [w0, r] at hl hc
    simp only [hl, hc, ne_eq, not_false_eq_true, ↓reduceDIte, ↓reduceIte]
    exact ⟨_, rfl⟩
  | case5 cur ib rest w0 r hl hfull ih =>
    intro p hcs hcur
    rw [seqBlocks]
    simp only [w0, r] at hl hfull ih
    simp only [hl, hfull, ↓reduceIte]
    obtain ⟨hp, hrest⟩ := hcs
    have hnext : (cur.getD ⟨ib.pos, ib.pos, cd.init⟩).next = p := by
      cases cur with
      | none => exact hp
      | some w => exact (hcur w rfl).1
    have hpos : (cur.getD ⟨ib.pos, ib.pos, cd.init⟩).pos = seqStart cur p := by
      cases cur with
      | none => exact hp
      | some w => rfl
    have hok : (cur.getD ⟨ib.pos, ib.pos, cd.init⟩).pos.lt p.incMajor = true := by
      cases cur with
      | none => show ib.pos.lt p.incMajor = true; rw [hp]; exact Pos.lt_incMajor p
      | some w => exact Pos.lt_incMajor_of_lt ((hcur w rfl).1 ▸ (hcur w rfl).2)
    obtain ⟨e, he⟩ := ih ⟨p.major + 1, 0⟩ hrest (by intro w h; cases h)
    refine ⟨e, hpos, ?_, ?_⟩
    · show (cur.getD ⟨ib.pos, ib.pos, cd.init⟩).pos.lt
        (cur.getD ⟨ib.pos, ib.pos, cd.init⟩).next.incMajor = true
      rw [hnext]; exact hok
    · show Chain (cur.getD ⟨ib.pos, ib.pos, cd.init⟩).next.incMajor _ e
      rw [hnext]; exact he
  | case6 cur ib rest w0 r hl w hfull ih =>
    intro p hcs hcur
    rw [seqBlocks]
    simp only [w0, r, w] at hl hfull ih
    simp only [hl, hfull, ↓reduceIte]
    obtain ⟨hp, hrest⟩ := hcs
    have hnext : (cur.getD ⟨ib.pos, ib.pos, cd.init⟩).next = p := by
      cases cur with
      | none => exact hp
      | some w1 => exact (hcur w1 rfl).1
    have hpos : (cur.getD ⟨ib.pos, ib.pos, cd.init⟩).pos = seqStart cur p := by
      cases cur with
      | none => exact hp
      | some w1 => rfl
    have hok : (cur.getD ⟨ib.pos, ib.pos, cd.init⟩).pos.lt p.incMajor = true := by
      cases cur with
      | none => show ib.pos.lt p.incMajor = true; rw [hp]; exact Pos.lt_incMajor p
      | some w1 => exact Pos.lt_incMajor_of_lt ((hcur w1 rfl).1 ▸ (hcur w1 rfl).2)
    obtain ⟨e, he⟩ := ih ⟨p.major + 1, 0⟩ hrest (by
      intro w' h
      simp only [Option.some.injEq] at h; subst h
      refine ⟨by show (cur.getD ⟨ib.pos, ib.pos, cd.init⟩).next.incMajor = _; rw [hnext]; rfl, ?_⟩
      show (cur.getD ⟨ib.pos, ib.pos, cd.init⟩).pos.lt
        (cur.getD ⟨ib.pos, ib.pos, cd.init⟩).next.incMajor = true
      rw [hnext]; exact hok)
    refine ⟨e, ?_⟩
    simp only [seqStart] at he
    rw [← hpos]; exact he

theorem canon_chain_S (c : Cfg) (cd : Codec α σ) (input : List α) (hu : c.ultra = true) :
    ∃ e, Chain ⟨0, 0⟩ (canon c cd input) e := by
  simp only [canon, hu, if_true]
  exact seqBlocks_chain cd none _ ⟨0, 0⟩ (cutChunks_consec c.inGranul 0 input)
    (by intro w h; cases h)

theorem canon_chain (c : Cfg) (cd : Codec α σ) (ok : cd.OK) (input : List α) :
    ∃ e, Chain ⟨0, 0⟩ (canon c cd input) e := by
  cases hu : c.ultra with
  | true => exact canon_chain_S c cd input hu
  | false => exact canon_chain_N c cd ok input hu

/-! ### prefixes of a chain -/

/-- a chain from `a` all of whose blocks occur in a longer chain from `a` is a
    prefix of it -/
theorem chain_prefix {a e o : Pos} {l h : List (WBlk σ)} (hl : Chain a l e) (hh : Chain a h o)
    (hsub : ∀ x ∈ h, x ∈ l) : ∃ rest, l = h ++ rest ∧ Chain o rest e := by
  induction h generalizing a l with
  | nil => simp only [Chain] at hh; subst hh; exact ⟨l, rfl, hl⟩
  | cons x h ih =>
    obtain ⟨hx1, hx2, hx3⟩ := hh
    cases l with
    | nil => exact absurd (hsub x List.mem_cons_self) (by simp)
    | cons y l =>
      obtain ⟨hy1, hy2, hy3⟩ := hl
      have hlt := (chain_pairwise hy3).2
      have hxy : x = y := by
        rcases List.mem_cons.mp (hsub x List.mem_cons_self) with e | hm
        · exact e
        · exfalso
          have h1 : y.pos.lt x.pos = true := by
            rcases hlt x hm with e | e
            · rw [← e]; exact hy2
            · exact Pos.lt_trans hy2 e
          rw [hx1, hy1, Pos.lt_irrefl] at h1; cases h1
      subst hxy
      have hlt' := (chain_pairwise hx3).2
      obtain ⟨rest, hr1, hr2⟩ := ih hy3 hx3 (by
        intro z hz
        rcases List.mem_cons.mp (hsub z (List.mem_cons_of_mem _ hz)) with e | hm
        · exfalso
          have h1 : x.pos.lt z.pos = true := by
            rcases hlt' z hz with e' | e'
            · rw [← e']; exact hx2
            · exact Pos.lt_trans hx2 e'
          rw [e, Pos.lt_irrefl] at h1; cases h1
        · exact hm)
      exact ⟨rest, by rw [hr1]; rfl, hr2⟩

theorem cnt_pos_of_mem {β : Type} {x : β} {l : List β} (h : x ∈ l) : 0 < cnt x l := by
  induction l with
  | nil => cases h
  | cons y l ih =>
    simp only [cnt]
    rcases List.mem_cons.mp h with e | hm
    · simp [e]; omega
    · have := ih hm; omega

theorem mem_of_cnt_pos {β : Type} {x : β} {l : List β} (h : 0 < cnt x l) : x ∈ l := by
  induction l with
  | nil => simp [cnt] at h
  | cons y l ih =>
    simp only [cnt] at h
    by_cases e : y = x
    · exact e ▸ List.mem_cons_self
    · simp only [e, if_false, Nat.zero_add] at h
      exact List.mem_cons_of_mem _ (ih h)

end LbzVerif.Model.SchedC
