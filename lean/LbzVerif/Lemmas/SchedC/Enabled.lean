/-
  Lemmas.SchedC.Enabled — enabledness of every thread that is not blocked on a
  condition variable, and the reduction of PROGRESS to one situation: the
  *quiet* state (mutex free, every worker in `xwait`, reader stalled or done,
  writer idle).  `Lemmas.SchedC.Quiet` shows that quiet states are unreachable.
-/
import LbzVerif.Lemmas.SchedC.Wake
import LbzVerif.Lemmas.SchedC.Progress

namespace LbzVerif.Model.SchedC
open LbzVerif.Gen

variable {α σ : Type}

/-- every thread is blocked on a condition variable (or gone), nobody has left
    yet, and nothing is in flight to the writer -/
structure Quiet (s : State α σ) : Prop where
  free : lockFree s = true
  allWait : ∀ p ∈ s.ws, p = .waiting
  some : s.ws ≠ []
  reader : s.rd = .done ∨ (s.rd = .idle ∧ s.inSlots = 0)
  wr : s.wr = none
  outQ : s.outputQ = []

/-- a worker inside a task can always take its next section when the mutex is
    free -/
theorem cont_enabled (c : Cfg) (cd : Codec α σ) (s : State α σ) (i : Nat) (p : WPhase α σ)
    (hl : lockFree s = true) (hp : p.units = 1) (hb : p ≠ .s1 none none) :
    ∃ k s', contTask c cd s i k p = some s' := by
  cases p with
  | ready => cases hp
  | waiting => cases hp
  | atHead => cases hp
  | exited => cases hp
  | c1 ib =>
    simp only [contTask]
    split
    · first | (rw [if_pos hl]; exact unlock_some c _) | exact unlock_some c _
    · exact ⟨0, _, rfl⟩
  | c2 w => (refine ⟨0, ?_⟩; simp only [contTask, if_pos hl]; exact ⟨_, rfl⟩)
  | t1 w => (refine ⟨0, ?_⟩; simp only [contTask, if_pos hl]; exact ⟨_, rfl⟩)
  | s1 wo ibo =>
    cases ibo with
    | some ib =>
      simp only [contTask]
      split
      · first | (rw [if_pos hl]; exact unlock_some c _) | exact unlock_some c _
      · exact ⟨0, _, rfl⟩
    | none =>
      cases wo with
      | none => exact absurd rfl hb
      | some w =>
        simp only [contTask, if_pos hl]; exact unlock_some c _
  | s2 w full =>
    cases full with
    | true => simp only [contTask, if_pos hl]; exact unlock_some c _
    | false => (refine ⟨0, ?_⟩; simp only [contTask, if_pos hl]; exact ⟨_, rfl⟩)

/-- a non-spurious transition is enabled -/
def CanStep (c : Cfg) (cd : Codec α σ) (s : State α σ) : Prop :=
  ∃ l s', Label.isSpurious l = false ∧ step c cd s l = some s'

theorem canStep_intro {c : Cfg} {cd : Codec α σ} {s : State α σ} (l : Label)
    (hl : l.isSpurious = false) (h : ∃ s', step c cd s l = some s') : CanStep c cd s :=
  let ⟨s', hs⟩ := h
  ⟨l, s', hl, hs⟩

/-- **progress, up to the quiet state**: a reachable state that is not final
    has an enabled non-spurious transition, or it is quiet. -/
theorem canStep_or_quiet {c : Cfg} {cd : Codec α σ} {input : List α} {s : State α σ}
    (hn : 1 ≤ c.n) (h : Reach c cd input s) (hnf : isFinal s = false) :
    CanStep c cd s ∨ Quiet s := by
  have i1 := inv1_reach h
  have wk := wake_reach h
  -- somebody holds the mutex?
  cases hl : lockFree s with
  | false =>
    left
    have : ∃ p ∈ s.ws, (!p.isAtHead) = false := by
      have hl' : ¬ lockFree s = true := by rw [hl]; simp
      simpa [lockFree, List.all_eq_true] using hl'
    obtain ⟨p, hp, hpa⟩ := this
    obtain ⟨i, hi⟩ := List.getElem?_of_mem hp
    have : p = .atHead := by cases p <;> simp [WPhase.isAtHead] at hpa ⊢
    subst this
    obtain ⟨k, s', hk⟩ := head_enabled i1.sel i
    exact ⟨.run i k, s', rfl, by simp only [step, hi]; exact hk⟩
  | true =>
  -- a runnable worker?
  by_cases hw : ∃ p ∈ s.ws, p ≠ .waiting ∧ p ≠ .exited
  · left
    obtain ⟨p, hp, hpw, hpe⟩ := hw
    obtain ⟨i, hi⟩ := List.getElem?_of_mem hp
    by_cases hr : p = .ready
    · subst hr
      exact canStep_intro (.acquire i) rfl (by simp only [step, hi, if_pos hl]; exact ⟨_, rfl⟩)
    · have hnh : p ≠ .atHead := by
        intro e; subst e
        have := List.all_eq_true.mp hl _ hp
        simp [WPhase.isAtHead] at this
      have hu : p.units = 1 := by cases p <;> simp_all [WPhase.units]
      obtain ⟨k, s', hk⟩ := cont_enabled c cd s i p hl hu (wk.noBad p hp)
      exact ⟨.cont i k, s', rfl, by simp only [step, hi]; exact hk⟩
  have hall : ∀ p ∈ s.ws, p = .waiting ∨ p = .exited := by
    intro p hp
    by_cases h1 : p = .waiting
    · exact .inl h1
    · by_cases h2 : p = .exited
      · exact .inr h2
      · exact absurd ⟨p, hp, h1, h2⟩ hw
  -- the reader
  by_cases hrd : s.rd = .hold
  · left
    by_cases hin : s.input = []
    · exact canStep_intro .rEmpty rfl (by simp only [step, hrd, hin, and_self, if_true]; exact ⟨_, rfl⟩)
    · have : ∃ k s', step c cd s (.rDeliver k) = some s' := by
        simp only [step]
        simp only [if_pos (show s.rd = .hold ∧ s.input ≠ [] ∧ lockFree s = true from ⟨hrd, hin, hl⟩)]
        exact unlock_some c _
      obtain ⟨k, s', hk⟩ := this
      exact ⟨.rDeliver k, s', rfl, hk⟩
  by_cases hre : s.rd = .eofPending
  · left
    have : ∃ k s', step c cd s (.rEof k) = some s' := by
      simp only [step]
      simp only [if_pos (show s.rd = .eofPending ∧ lockFree s = true from ⟨hre, hl⟩)]
      exact unlock_some c _
    obtain ⟨k, s', hk⟩ := this
    exact ⟨.rEof k, s', rfl, hk⟩
  by_cases hri : s.rd = .idle ∧ 0 < s.inSlots
  · left
    exact canStep_intro .rTake rfl (by simp only [step]; rw [if_pos hri]; exact ⟨_, rfl⟩)
  have hreader : s.rd = .done ∨ (s.rd = .idle ∧ s.inSlots = 0) := by
    cases hh : s.rd with
    | idle => right; exact ⟨rfl, Nat.eq_zero_of_not_pos (fun h0 => hri ⟨hh, h0⟩)⟩
    | hold => exact absurd hh hrd
    | eofPending => exact absurd hh hre
    | done => left; rfl
  -- the writer
  cases hwr : s.wr with
  | some b =>
    left
    have : ∃ k s', step c cd s (.wDone k) = some s' := by
      simp only [step, hwr, if_pos hl]; exact unlock_some c _
    obtain ⟨k, s', hk⟩ := this
    exact ⟨.wDone k, s', rfl, hk⟩
  | none =>
  cases hoq : s.outputQ with
  | cons b q => left; exact canStep_intro .wTake rfl (by simp only [step, hwr, hoq]; exact ⟨_, rfl⟩)
  | nil =>
  -- everybody is blocked or gone
  by_cases hex : WPhase.exited ∈ s.ws
  · exfalso
    obtain ⟨hf, hnw⟩ := wk.exitFin hex
    have hallx : ∀ p ∈ s.ws, p.isExited = true := by
      intro p hp
      rcases hall p hp with rfl | rfl
      · have := hnw _ hp; simp [WPhase.isWaiting] at this
      · rfl
    have r := restores_of_finished i1.cons i1.sel (reader_reach h) hf
    have hrdd : s.rd = .done := r.2.2.2.2.2.2.2.2.2.2.2.1
    have : isFinal s = true := by
      simp only [isFinal, List.all_eq_true.mpr hallx, hrdd, hoq, hwr, decide_true,
        List.isEmpty_nil, Option.isNone_none, Bool.and_self]
    rw [this] at hnf; cases hnf
  · right
    refine ⟨hl, ?_, ?_, hreader, hwr, hoq⟩
    · intro p hp
      rcases hall p hp with h1 | h1
      · exact h1
      · subst h1; exact absurd hp hex
    · intro h0
      have := i1.cons.nWorkers
      rw [h0] at this; simp at this; omega

/-- what the no-lost-wake-up invariant says about a quiet state: no task is
    ready and the process has not finished -/
theorem quiet_idle {c : Cfg} {cd : Codec α σ} {input : List α} {s : State α σ}
    (h : Reach c cd input s) (q : Quiet s) :
    selectTask (view c s) = none ∧ finished c s = false := by
  have wk := wake_reach h
  have hsel := (inv1_reach h).sel
  have key : ¬ (s.nextTask.isSome = true ∨ finished c s = true) := by
    intro hp
    rcases wk.noLost q.free hp with hr | hnw
    · have := q.allWait _ hr; cases this
    · obtain ⟨p, hp'⟩ := List.exists_mem_of_ne_nil _ q.some
      have := hnw p hp'
      rw [q.allWait p hp'] at this; simp [WPhase.isWaiting] at this
  refine ⟨?_, ?_⟩
  · rw [← hsel]
    cases hh : s.nextTask with
    | none => rfl
    | some t => exact absurd (.inl (by rw [hh]; rfl)) key
  · cases hh : finished c s with
    | false => rfl
    | true => exact absurd (.inr hh) key

end LbzVerif.Model.SchedC
