/-
  Lemmas.SpecMtfLink — the two REFERENCE definitions of the inverse MTF /
  zero-run stage agree:
    * `Spec.Mtf.unMtfRle2`   (symbol list with the end-of-block symbol, state
      machine `unGo`, eager accounting of run bytes), and
    * `Spec.Bzip2.unMtfRle2` (symbol list without EOB, tail-recursive
      `unMtfRle2Go` with an `Array` accumulator and a lazily flushed run).
  Also: every symbol of an accepted block contributes at least one byte, and
  the block fits the capacity.
-/
import LbzVerif.Spec.Mtf
import LbzVerif.Spec.Bzip2

namespace LbzVerif.Lemmas.SpecMtfLink
open LbzVerif LbzVerif.Spec.Bzip2

/-- `pushN` appends `n` copies. -/
theorem pushN_toList {α : Type} (acc : Array α) (b : α) (n : Nat) :
    (pushN acc b n).toList = acc.toList ++ List.replicate n b := by
  induction n generalizing acc with
  | zero => simp [pushN]
  | succ n ih =>
    simp only [pushN, ih, Array.toList_push, List.append_assoc, List.singleton_append]
    rw [List.replicate_succ]

theorem pushN_size {α : Type} (acc : Array α) (b : α) (n : Nat) :
    (pushN acc b n).size = acc.size + n := by
  rw [← Array.length_toList, pushN_toList]; simp

/-- Forget the reject reason. -/
def toOpt : Except Reject (Array UInt8) → Option (List UInt8)
  | .ok a => some a.toList
  | .error _ => none

/-- Once the bytes produced (flushed + pending run) exceed the capacity the
Bzip2-side machine rejects, whatever follows. -/
theorem go_overflow (cap : Nat) (ss : List Nat) (l : List UInt8) (run w : Nat) (out : Array UInt8)
    (h : cap < out.size + run) : toOpt (unMtfRle2Go cap ss l run w out) = none := by
  induction ss generalizing run w with
  | nil =>
    unfold unMtfRle2Go
    rw [if_neg (by omega)]; rfl
  | cons s ss ih =>
    unfold unMtfRle2Go
    by_cases hs : s ≤ 1
    · simp only [hs, if_true]
      split
      · exact ih _ _ (by omega)
      · rfl
    · rw [if_neg hs, if_neg (by omega)]; rfl

/-- The two move-to-front steps agree. -/
theorem moveToFront_eq (l : List UInt8) (p : Nat) (b : UInt8) (h : l[p]? = some b) :
    Spec.Bzip2.moveToFront l p = some (b, Spec.Mtf.moveToFront l p) := by
  simp [Spec.Bzip2.moveToFront, Spec.Mtf.moveToFront, h]

theorem moveToFront_length (l : List UInt8) (p : Nat) :
    (Spec.Mtf.moveToFront l p).length = l.length := by
  unfold Spec.Mtf.moveToFront
  split
  · rename_i b hb
    have hp : p < l.length := by
      rcases Nat.lt_or_ge p l.length with h | h
      · exact h
      · rw [List.getElem?_eq_none h] at hb; cases hb
    simp [List.length_eraseIdx, hp]; omega
  · rfl

/-- Generalised link: from matching states (Mtf-side byte count = flushed
output + pending run, same weight, same list) the machines agree; the Mtf side
has already emitted the pending run, so its remaining output is prefixed by the
flushed output and the run. -/
theorem go_link (N cap : Nat) (ss : List Nat) (hs : ∀ s ∈ ss, s ≠ N + 1)
    (l : List UInt8) (hl : l.length = N) (hN : 1 ≤ N) (run w : Nat) (out : Array UInt8)
    (hfit : out.size + run ≤ cap) :
    toOpt (unMtfRle2Go cap ss l run w out) =
      (Spec.Mtf.unGo (N + 1) cap l (out.size + run) w (ss ++ [N + 1])).map
        (fun r => out.toList ++ List.replicate run (l.headD 0) ++ r) := by
  induction ss generalizing l run w out with
  | nil =>
    unfold unMtfRle2Go
    rw [if_pos hfit]
    simp [Spec.Mtf.unGo, toOpt, pushN_toList]
  | cons s ss ih =>
    have hs' : ∀ t ∈ ss, t ≠ N + 1 := fun t ht => hs t (List.mem_cons_of_mem _ ht)
    have hse : s ≠ N + 1 := hs s (List.mem_cons_self ..)
    obtain ⟨b, tl, rfl⟩ : ∃ b tl, l = b :: tl := by
      cases l with
      | nil => simp at hl; omega
      | cons b tl => exact ⟨b, tl, rfl⟩
    unfold unMtfRle2Go
    simp only [List.cons_append]
    unfold Spec.Mtf.unGo
    rw [if_neg hse]
    by_cases h1 : s ≤ 1
    · have h2 : s < 2 := by omega
      rw [if_pos h1, if_pos h2]
      simp only []
      by_cases hk : out.size + (run + (s + 1) * w) ≤ cap
      · have hr : run + (s + 1) * w ≤ cap := by omega
        rw [if_pos hr, if_neg (by omega)]
        rw [ih hs' (b :: tl) hl _ _ out hk]
        rw [show out.size + (run + (s + 1) * w) = out.size + run + (s + 1) * w by omega]
        simp only [Option.map_map]
        congr 1
        funext r
        simp [← List.replicate_append_replicate, List.headD]
      · have hov : out.size + run + (s + 1) * w > cap := by omega
        rw [if_pos hov]
        split
        · rw [go_overflow _ _ _ _ _ _ (by omega)]; rfl
        · rfl
    · have h2 : ¬ s < 2 := by omega
      rw [if_neg h1, if_neg h2]
      by_cases hlt : s < N + 1
      · rw [if_pos hlt]
        have hp : s - 1 < (b :: tl).length := by omega
        have hget : (b :: tl)[s - 1]? = some ((b :: tl)[s - 1]) := List.getElem?_eq_getElem hp
        generalize (b :: tl)[s - 1] = c at hget
        rw [hget, moveToFront_eq _ _ _ hget]
        simp only []
        by_cases hk : out.size + run + 1 ≤ cap
        · rw [if_pos hk, if_neg (by omega)]
          have hl' := moveToFront_length (b :: tl) (s - 1)
          rw [ih hs' _ (hl'.trans hl) 0 1 _ (by simp [pushN_size]; omega)]
          simp only [Array.size_push, pushN_size, Nat.add_zero, Option.map_map]
          congr 1
          funext r
          simp [pushN_toList, List.headD]
        · rw [if_neg hk, if_pos (by omega)]; rfl
      · rw [if_neg hlt]
        have hnone : Spec.Bzip2.moveToFront (b :: tl) (s - 1) = none := by
          unfold Spec.Bzip2.moveToFront
          rw [List.getElem?_eq_none (by omega)]
        rw [hnone]
        split <;> rfl

/-- The two reference inverse MTF / zero-run stages agree (the Mtf one is given
the symbols followed by EOB). -/
theorem unMtfRle2_link (used : List UInt8) (hu : used ≠ []) (cap : Nat) (syms : List Nat)
    (hs : ∀ s ∈ syms, s ≠ used.length + 1) :
    Spec.Mtf.unMtfRle2 used (syms ++ [used.length + 1]) cap =
      match Spec.Bzip2.unMtfRle2 used cap syms with
      | .ok a => some a.toList
      | .error _ => none := by
  have hN : 1 ≤ used.length := by
    cases used with
    | nil => exact absurd rfl hu
    | cons _ _ => simp
  have h := go_link used.length cap syms hs used rfl hN 0 1 #[] (by simp)
  unfold Spec.Mtf.unMtfRle2 Spec.Bzip2.unMtfRle2
  simp only [List.size_toArray, List.length_nil, Nat.add_zero,
    List.replicate_zero, List.append_nil, List.nil_append] at h
  change _ = toOpt (unMtfRle2Go cap syms used 0 1 #[])
  rw [h]
  simp

/-- The hypotheses of `unMtfRle2_link` hold on a concrete block; both sides
evaluate to the same eight bytes. -/
example : Spec.Mtf.unMtfRle2 [97, 98, 99] ([1, 2, 3, 0, 0, 3] ++ [[97, 98, 99].length + 1]) 900000 =
      match Spec.Bzip2.unMtfRle2 [97, 98, 99] 900000 [1, 2, 3, 0, 0, 3] with
      | .ok a => some a.toList
      | .error _ => none :=
  unMtfRle2_link [97, 98, 99] (by decide) 900000 [1, 2, 3, 0, 0, 3] (by decide)

example : Spec.Mtf.unMtfRle2 [97, 98, 99] ([1, 2, 3, 0, 0, 3] ++ [4]) 900000
    = some [97, 97, 98, 99, 99, 99, 99, 97] := by decide

example : (match Spec.Bzip2.unMtfRle2 [97, 98, 99] 900000 [1, 2, 3, 0, 0, 3] with
      | .ok a => some a.toList
      | .error _ => none) = some [97, 97, 98, 99, 99, 99, 99, 97] := by decide

/-- Generalised size fact: every symbol adds at least one byte. -/
theorem go_size_ge (cap : Nat) (ss : List Nat) (l : List UInt8) (run w : Nat) (out a : Array UInt8)
    (hw : 1 ≤ w) (h : unMtfRle2Go cap ss l run w out = .ok a) :
    out.size + run + ss.length ≤ a.size ∧ a.size ≤ cap := by
  induction ss generalizing l run w out with
  | nil =>
    unfold unMtfRle2Go at h
    split at h
    · cases h; simp [pushN_size]; omega
    · cases h
  | cons s ss ih =>
    unfold unMtfRle2Go at h
    split at h
    · simp only [] at h
      split at h
      · have := ih _ _ _ _ (by omega) h
        have hk : 1 ≤ (s + 1) * w := Nat.mul_pos (by omega) hw
        simp only [List.length_cons]; omega
      · cases h
    · split at h
      · simp only [] at h
        split at h
        · cases h
        · have := ih _ _ _ _ (Nat.le_refl 1) h
          simp only [Array.size_push, pushN_size, List.length_cons] at this ⊢; omega
      · cases h

/-- An accepted block has at least one byte per symbol and fits the capacity. -/
theorem unMtfRle2_size_ge (used : List UInt8) (cap : Nat) (syms : List Nat) (a : Array UInt8)
    (h : Spec.Bzip2.unMtfRle2 used cap syms = .ok a) : syms.length ≤ a.size ∧ a.size ≤ cap := by
  have := go_size_ge cap syms used 0 1 _ a (Nat.le_refl 1) h
  simp at this
  omega

example : ∃ a, Spec.Bzip2.unMtfRle2 [97, 98, 99] 900000 [1, 2, 3, 0, 0, 3] = .ok a ∧ a.size = 8 :=
  ⟨_, rfl, by decide⟩

end LbzVerif.Lemmas.SpecMtfLink
