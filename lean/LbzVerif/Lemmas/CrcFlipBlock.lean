/-
  Lemmas.CrcFlipBlock — the stored block CRC is copied by `parseBlock` and
  used by `decodeBlock` only in the final comparison:

  * `parseBlock_crc_indep`   — replacing the first 32 bits of a block body
                               changes nothing but the `storedCrc` field;
  * `decodeBlock_crc_changed` — a decodable block whose stored CRC is replaced
                               by a different value is rejected with `blockCrc`.
-/
import LbzVerif.Spec.Bzip2

namespace LbzVerif.Lemmas.CrcFlipBlock
open LbzVerif LbzVerif.Basic LbzVerif.Spec.Bzip2

/-- `parseBlock` copies the stored CRC and looks at nothing else of the first 32 bits -/
theorem parseBlock_crc_indep (level start : Nat) (bits bits' : Bits) (c1 c2 : Nat) (b0 : Bits)
    (b : Block) (rest : Bits)
    (h1 : takeNat 32 bits = some (c1, b0)) (h2 : takeNat 32 bits' = some (c2, b0))
    (h : parseBlock level start bits = .ok (b, rest)) :
    b.storedCrc = c1 ∧ parseBlock level start bits' = .ok ({ b with storedCrc := c2 }, rest) := by
  unfold parseBlock at h ⊢
  rw [h1] at h
  rw [h2]
  simp only at h ⊢
  split at h
  · cases h
  rename_i rnd bits2 e2
  try simp only at h ⊢
  split at h
  · cases h
  rename_i op bits3 e3
  try simp only at h ⊢
  split at h
  · cases h
  rename_i big bits4 e4
  try simp only at h ⊢
  split at h
  · cases h
  rename_i used pos5 bits5 e5
  try simp only at h ⊢
  split at h
  · cases h
  rename_i hne
  rw [if_neg hne]
  split at h
  · cases h
  rename_i ng bits6 e6
  try simp only at h ⊢
  split at h
  · cases h
  rename_i hng
  rw [if_neg hng]
  split at h
  · cases h
  rename_i ns bits7 e7
  try simp only at h ⊢
  split at h
  · cases h
  rename_i hns
  rw [if_neg hns]
  split at h
  · cases h
  rename_i selMtf pos8 bits8 e8
  try simp only at h ⊢
  split at h
  · cases h
  rename_i selectors e9
  try simp only at h ⊢
  split at h
  · cases h
  rename_i tables pos10 bits10 e10
  try simp only at h ⊢
  split at h
  · cases h
  rename_i nUsed pos11 bits11 syms e11
  simp only [Except.ok.injEq, Prod.mk.injEq] at h
  obtain ⟨rfl, rfl⟩ := h
  exact ⟨rfl, rfl⟩

/-- a block whose stored CRC is replaced by a different value fails the CRC test (and only that) -/
theorem decodeBlock_crc_changed (b : Block) (d : Decoded) (c' : Nat)
    (h : decodeBlock b = .ok d) (hc : c' ≠ b.storedCrc) :
    decodeBlock { b with storedCrc := c' } = .error .blockCrc := by
  unfold decodeBlock at h
  split at h
  · cases h
  rename_i tt e1
  split at h
  · cases h
  rename_i hsz
  split at h
  · cases h
  rename_i t e2
  split at h
  · cases h
  rename_i out e3
  split at h
  · rename_i hcrc
    have hne : ¬ (crc32Arr out).toNat = c' := fun h' => hc (h'.symm.trans hcrc)
    unfold decodeBlock
    simp only [e1, if_neg hsz, e2, e3, if_neg hne]
  · cases h

end LbzVerif.Lemmas.CrcFlipBlock
