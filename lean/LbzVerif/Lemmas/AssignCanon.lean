/-
  Lemmas.AssignCanon — `Model.Canon.assignCodes` (tail of `assign_codes` in
  encode.c: per-depth `base_code[]`, then `code[s] = base_code[len[s]]++`) is
  the Spec's canonical code: loop invariants on top of the rank formula
  `TransmitSym.canonCode_rank` (W17).
-/
import LbzVerif.Spec.Prefix
import LbzVerif.Model.Canon
import LbzVerif.Lemmas.PrefixCanon
import LbzVerif.Lemmas.TransmitSym

namespace LbzVerif.Lemmas.AssignCanon
open LbzVerif LbzVerif.Spec.Prefix LbzVerif.Lemmas.PrefixCanon LbzVerif.Lemmas.TransmitSym
open LbzVerif.Model.Canon (M32 cnt baseLoop baseCodes assignLoop height assignCodes)

/-! ## lbzip2's encoder-side code assignment is the canonical code

Helper lemmas for `assign_eq_canon` (the property theorem follows them). -/

theorem cnt_eq_cntL (lens : List Nat) (d : Nat) : cnt lens d = cntL lens d := by
  simp [cnt, cntL, List.count]

/-- `base_code[]` is `F` reduced mod 2^32, with no side condition. -/
theorem baseLoop_eq (lens : List Nat) (k depth : Nat) :
    baseLoop lens k depth (F lens depth % M32) = (List.range' depth k).map (fun d => F lens d % M32) := by
  induction k generalizing depth with
  | zero => simp [baseLoop]
  | succ k ih =>
    have hstep : ((F lens depth % M32 + cnt lens depth) * 2) % M32 = F lens (depth + 1) % M32 := by
      rw [F, cnt_eq_cntL]
      generalize F lens depth = f
      generalize cntL lens depth = c
      simp only [M32]
      omega
    simp only [baseLoop, hstep, ih, List.range'_succ, List.map_cons]

theorem le_foldl_max (l : List Nat) (acc : Nat) :
    acc ≤ l.foldl max acc ∧ ∀ x ∈ l, x ≤ l.foldl max acc := by
  induction l generalizing acc with
  | nil => simp
  | cons a t ih =>
    have h := ih (max acc a)
    simp only [List.foldl_cons, List.mem_cons]
    refine ⟨by omega, ?_⟩
    intro x hx
    rcases hx with rfl | hx
    · omega
    · exact h.2 x hx

theorem le_height (lens : List Nat) (x : Nat) (hx : x ∈ lens) : x ≤ height lens :=
  (le_foldl_max lens 0).2 x hx

/-- rank of the symbol right after the prefix `pre` -/
theorem rankIn_prefix (pre : List Nat) (l : Nat) (ls : List Nat) :
    rankIn (pre ++ l :: ls) pre.length = pre.count l := by
  unfold rankIn
  have hi : (pre ++ l :: ls)[pre.length]! = l := by simp
  rw [hi, ← List.countP_eq_length_filter]
  have hm : (List.range pre.length).map (fun j => (pre ++ l :: ls)[j]!) = pre := by
    apply List.ext_getElem
    · simp
    · intro i h1 h2
      simp only [List.length_map, List.length_range] at h1
      simp [List.getElem?_append_left h1, List.getElem?_eq_getElem h1]
  have : List.countP (fun j => (pre ++ l :: ls)[j]! == l) (List.range pre.length) =
      List.countP (· == l) ((List.range pre.length).map (fun j => (pre ++ l :: ls)[j]!)) := by
    rw [List.countP_map]; rfl
  rw [this, hm]; rfl

theorem F_lt (lens : List Nat) (hc : Complete lens) (d : Nat) (hd : d ∈ lens) :
    F lens d < 2 ^ 20 := by
  obtain ⟨i, hi, rfl⟩ := List.getElem_of_mem hd
  have h1 := canonCode_rank lens hc i hi
  have h2 := canonCode_lt lens hc i hi
  rw [getElem!_of_lt lens i hi] at h1 h2
  have h3 := (hc.2 _ (List.getElem_mem hi)).2
  have : 2 ^ lens[i] ≤ 2 ^ 20 := Nat.pow_le_pow_right (by omega) h3
  omega

theorem assignLoop_inv (lens : List Nat) (hc : Complete lens) (suf pre base : List Nat)
    (hl : lens = pre ++ suf)
    (hb : ∀ d ∈ lens, base[d - 1]? = some (F lens d + pre.count d)) :
    assignLoop suf base = (List.range' pre.length suf.length).map (canonCode lens) := by
  induction suf generalizing pre base with
  | nil => simp [assignLoop]
  | cons l ls ih =>
    have hi : pre.length < lens.length := by rw [hl]; simp
    have hli : lens[pre.length]! = l := by rw [hl]; simp
    have hmem : l ∈ lens := by rw [hl]; simp
    have hcode : canonCode lens pre.length = F lens l + pre.count l := by
      rw [canonCode_rank lens hc _ hi, hli]
      congr 1
      rw [hl]; exact rankIn_prefix pre l ls
    have hlt := canonCode_lt lens hc _ hi
    rw [hli] at hlt
    have h20 : 2 ^ l ≤ 2 ^ 20 := Nat.pow_le_pow_right (by omega) (hc.2 l hmem).2
    have hget : base.getD (l - 1) 0 = canonCode lens pre.length := by
      rw [List.getD_eq_getElem?_getD, hb l hmem, hcode]; rfl
    simp only [assignLoop, List.length_cons, List.range'_succ, List.map_cons, hget]
    congr 1
    have := ih (pre ++ [l]) (base.set (l - 1) ((canonCode lens pre.length + 1) % M32))
      (by rw [hl]; simp) ?_
    · rw [this]; simp
    · intro d hd
      have hd1 := (hc.2 d hd).1
      have hl1 := (hc.2 l hmem).1
      have hmod : (canonCode lens pre.length + 1) % M32 = canonCode lens pre.length + 1 := by
        apply Nat.mod_eq_of_lt
        simp only [M32]; omega
      rw [hmod, List.getElem?_set]
      by_cases hdl : d = l
      · subst hdl
        have hlen : d - 1 < base.length := by
          have := hb d hd
          rcases Nat.lt_or_ge (d - 1) base.length with h | h
          · exact h
          · rw [List.getElem?_eq_none h] at this; cases this
        simp [hlen, hcode]; omega
      · have : l - 1 ≠ d - 1 := by omega
        rw [if_neg this, hb d hd]
        simp [List.count_append, List.count_singleton]
        intro h; exact absurd h.symm hdl

/-- lbzip2's encoder-side code assignment (the tail of `assign_codes`: per-depth
`base_code[]` via `next_code = (next_code + avail) << 1`, then
`code[symbol] = base_code[length[symbol]]++`, all in uint32 arithmetic) gives
every symbol exactly the Spec's canonical code word, for every complete length
list.  No extra hypothesis (no bound on the alphabet size, `lens = []` is not
complete). -/
theorem assignCodes_eq_canon (lens : List Nat) (hc : Complete lens) :
    Model.Canon.assignCodes lens = (List.range lens.length).map (canonCode lens) := by
  have h1 : ∀ x ∈ lens, 1 ≤ x := fun x hx => (hc.2 x hx).1
  have hF1 : F lens 1 = 0 := by simp [F, cntL_zero lens h1]
  have hbase : baseCodes lens (height lens) =
      (List.range' 1 (height lens)).map (fun d => F lens d % M32) := by
    have := baseLoop_eq lens (height lens) 1
    rw [hF1] at this
    exact this
  unfold assignCodes
  rw [assignLoop_inv lens hc lens [] _ rfl, List.range_eq_range']
  · simp
  · intro d hd
    have hd1 := h1 d hd
    have hdh := le_height lens d hd
    have hlt := F_lt lens hc d hd
    rw [hbase]
    have hmod : F lens d % M32 = F lens d := Nat.mod_eq_of_lt (by simp only [M32]; omega)
    have hidx : (List.range' 1 (height lens))[d - 1]? = some d := by
      rw [List.getElem?_range' (by omega)]; congr 1; omega
    simp [hidx, hmod]

end LbzVerif.Lemmas.AssignCanon
