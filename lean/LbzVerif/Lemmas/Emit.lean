/-
  Lemmas.Emit — what a suspended `emit()` still has to produce.

  `unOut p k xs` / `unBad p k xs`: output and "count byte missing" verdict of
  run-length decoding `xs` when the current run is `k` copies of `p` long
  (`k = 4`: the count byte is due; `k = 0`: no run yet).  `meaningOut st` /
  `meaningBad st` read a suspended decoder state that way (every `rle_state`
  has a pending byte `c` except state 0).  `R ret O B s m` says that a call
  result `ret`, produced from a point where the remaining reference output is
  `O` (verdict `B`), the CRC register is `s` and `m` bytes are free, is right:
  MORE = exactly `m` bytes written and the rest is the meaning of the saved
  state; OK / ERR_RUNLEN = all of `O` written.  `loop_R`, `case*_R`, `emit_R`
  establish `R` for every label of the C function, `run_R` for a sequence of
  calls.
-/
import LbzVerif.Model.Emit

namespace LbzVerif.Lemmas.Emit

open LbzVerif
open LbzVerif.Model.Emit

/-- Remaining output. -/
def unOut (p : UInt8) (k : Nat) : List UInt8 → List UInt8
  | [] => []
  | b :: bs =>
    if k = 4 then List.replicate b.toNat p ++ unOut p 0 bs
    else if k ≠ 0 ∧ b = p then b :: unOut p (k + 1) bs
    else b :: unOut b 1 bs

/-- Does the input end right after four equal bytes? -/
def unBad (p : UInt8) (k : Nat) : List UInt8 → Bool
  | [] => decide (k = 4)
  | b :: bs =>
    if k = 4 then unBad p 0 bs
    else if k ≠ 0 ∧ b = p then unBad p (k + 1) bs
    else unBad b 1 bs

theorem unOut_zero (p q : UInt8) (xs : List UInt8) : unOut p 0 xs = unOut q 0 xs := by
  cases xs <;> simp [unOut]

theorem unBad_zero (p q : UInt8) (xs : List UInt8) : unBad p 0 xs = unBad q 0 xs := by
  cases xs <;> simp [unBad]

/-- The reference decoder in terms of `unOut` / `unBad`. -/
theorem go_eq : ∀ (xs : List UInt8) (p : UInt8) (k : Nat),
    Spec.UnRle1.go p k xs = if unBad p k xs then none else some (unOut p k xs) := by
  intro xs
  induction xs with
  | nil => intro p k; by_cases h : k = 4 <;> simp [Spec.UnRle1.go, unBad, unOut, h]
  | cons b bs ih =>
    intro p k
    simp only [Spec.UnRle1.go, unBad, unOut]
    by_cases h4 : k = 4
    · simp only [h4, if_true, ih]
      split <;> simp
    · simp only [h4, if_false]
      by_cases he : k ≠ 0 ∧ b = p
      · simp only [if_pos he, ih]
        split <;> simp
      · simp only [if_neg he, ih]
        split <;> simp

/-- Remaining output of a suspended state. -/
def meaningOut (st : St) : List UInt8 :=
  match st.state with
  | 0 => unOut st.d 0 st.xs
  | 5 => unOut st.d 0 (st.c :: st.xs)
  | k => unOut st.d k (st.c :: st.xs)

def meaningBad (st : St) : Bool :=
  match st.state with
  | 0 => unBad st.d 0 st.xs
  | 5 => unBad st.d 0 (st.c :: st.xs)
  | k => unBad st.d k (st.c :: st.xs)

/-- Consistency of a state between calls. -/
def Inv (st : St) : Prop :=
  st.a = st.xs.length ∧ st.a < M1 ∧ st.state ≤ 5

/-- Correctness of a call result (see the file header). -/
def R (r : Ret) (O : List UInt8) (B : Bool) (s : UInt32) (m : Nat) : Prop :=
  match r.status with
  | .more => O = r.out ++ meaningOut r.st ∧ B = meaningBad r.st ∧ r.out.length = m ∧
      r.st.crc = crcBytes s r.out ∧ Inv r.st ∧ 1 ≤ r.st.state ∧ r.left = 0
  | .ok => O = r.out ∧ B = false ∧ r.out.length + r.left = m ∧
      r.crc = crcBytes s r.out ^^^ 0xFFFFFFFF ∧ r.st.a = M1
  | .errRunlen => O = r.out ∧ B = true ∧ r.out.length ≤ m
  | .abort => False

theorem crcBytes_append (s : UInt32) (l1 l2 : List UInt8) :
    crcBytes s (l1 ++ l2) = crcBytes (crcBytes s l1) l2 := by
  simp [crcBytes, List.foldl_append]

theorem R_out1 {r : Ret} {O : List UInt8} {B : Bool} {s : UInt32} {m : Nat} (x : UInt8)
    (h : R r O B (crcStep s x) m) : R (out1 x r) (x :: O) B s (m + 1) := by
  unfold R at *
  simp only [out1]
  cases hs : r.status <;> simp only [hs] at h ⊢
  · obtain ⟨h1, h2, h3, h4, h5⟩ := h
    refine ⟨by rw [h1], h2, by simp; omega, ?_, h5⟩
    simpa [crcBytes] using h4
  · obtain ⟨h1, h2, h3, h4, h5, h6, h7⟩ := h
    refine ⟨by rw [h1]; simp, h2, by simp [h3], ?_, h5, h6, h7⟩
    simpa [crcBytes] using h4
  · obtain ⟨h1, h2, h3⟩ := h
    exact ⟨by rw [h1], h2, by simp; omega⟩

theorem R_outN {r : Ret} {O : List UInt8} {B : Bool} {s : UInt32} {m : Nat} (n : Nat) (b : UInt8)
    (h : R r O B (crcBytes s (List.replicate n b)) m) :
    R (outN n b r) (List.replicate n b ++ O) B s (m + n) := by
  unfold R at *
  simp only [outN]
  cases hs : r.status <;> simp only [hs] at h ⊢
  · obtain ⟨h1, h2, h3, h4, h5⟩ := h
    refine ⟨by rw [h1], h2, by simp; omega, ?_, h5⟩
    rw [crcBytes_append]; exact h4
  · obtain ⟨h1, h2, h3, h4, h5, h6, h7⟩ := h
    refine ⟨by rw [h1]; simp, h2, by simp [h3]; omega, ?_, h5, h6, h7⟩
    rw [crcBytes_append]; exact h4
  · obtain ⟨h1, h2, h3⟩ := h
    exact ⟨by rw [h1], h2, by simp; omega⟩

/-- Remaining output at a label of the main loop. -/
def lblOut (lbl : Lbl) (L : Loc) : List UInt8 :=
  match lbl with
  | .D _ => unOut L.c 1 L.xs
  | .E2 => unOut L.d 2 L.xs
  | .E3 => unOut L.d 3 L.xs
  | .E4 => unOut L.d 4 L.xs
  | .E0 => unOut L.d 0 L.xs

def lblBad (lbl : Lbl) (L : Loc) : Bool :=
  match lbl with
  | .D _ => unBad L.c 1 L.xs
  | .E2 => unBad L.d 2 L.xs
  | .E3 => unBad L.d 3 L.xs
  | .E4 => unBad L.d 4 L.xs
  | .E0 => unBad L.d 0 L.xs

theorem R_finish_ok (L : Loc) (h : L.m ≠ M1) : R (finish M1 L) [] false L.s L.m := by
  simp [R, finish, h, crcBytes]

theorem R_finish_more (a : Nat) (L : Loc) (hm : L.m = M1)
    (hi : Inv ⟨L.state, L.s, L.xs, a, L.c, L.d⟩) (h1 : 1 ≤ L.state) :
    R (finish a L) (meaningOut ⟨L.state, L.s, L.xs, a, L.c, L.d⟩)
      (meaningBad ⟨L.state, L.s, L.xs, a, L.c, L.d⟩) L.s 0 := by
  simp [R, finish, hm, crcBytes, hi, h1]

theorem R_retErr (L : Loc) (m : Nat) : R (retErr L) [] true L.s m := by
  simp [R, retErr]

theorem sub_ofNat_toNat (x : UInt8) (m : Nat) (h : m < x.toNat) :
    (x - UInt8.ofNat m).toNat = x.toNat - m := by
  have hx : x.toNat < 256 := x.toNat_lt
  have hm : (UInt8.ofNat m).toNat = m := by
    simp [UInt8.toNat_ofNat']; omega
  have hle : UInt8.ofNat m ≤ x := by
    rw [UInt8.le_iff_toNat_le, hm]; omega
  rw [UInt8.toNat_sub_of_le _ _ hle, hm]

theorem replicate_split (x : UInt8) (m : Nat) (d : UInt8) (h : m < x.toNat) :
    List.replicate x.toNat d =
      List.replicate m d ++ List.replicate (x - UInt8.ofNat m).toNat d := by
  rw [sub_ofNat_toNat x m h, List.replicate_append_replicate]
  congr 1; omega

/-- **The main loop is right at every label.** -/
theorem loop_R : ∀ (a : Nat) (lbl : Lbl) (L : Loc),
    a = L.xs.length → a < M1 → L.m < M1 →
    R (loop lbl a L) (lblOut lbl L) (lblBad lbl L) L.s L.m := by
  intro a
  induction a with
  | zero =>
    intro lbl L hl _ hm
    have hx : L.xs = [] := List.length_eq_zero_iff.mp hl.symm
    have hne : L.m ≠ M1 := by omega
    cases lbl <;> simp only [loop, lblOut, lblBad, hx, unOut, unBad]
    case E4 => simpa using R_retErr L L.m
    all_goals simpa using R_finish_ok L hne
  | succ a ih =>
    intro lbl L hl ha hm
    obtain ⟨xs, m, c, d, s, state⟩ := L
    simp only at hl hm
    match xs, hl with
    | x :: xs', hl =>
      have hl' : a = xs'.length := by simpa using hl
      have ha' : a < M1 := by omega
      cases lbl with
      | D k =>
        simp only [loop, lblOut, lblBad, List.headD_cons, List.tail_cons]
        cases m with
        | zero =>
          have := R_finish_more a ⟨xs', M1, x, c, s, 1⟩ rfl ⟨hl', ha', by simp⟩ (by simp)
          simpa [meaningOut, meaningBad] using this
        | succ m =>
          simp only [unOut, unBad]
          by_cases hxc : x = c
          · subst hxc
            have := ih .E2 ⟨xs', m, x, x, crcStep s x, state⟩ hl' ha' (by simp; omega)
            simpa [lblOut, lblBad] using R_out1 x this
          · have := ih (.D (if k < 3 then k + 1 else 0)) ⟨xs', m, x, c, crcStep s x, state⟩
              hl' ha' (by simp; omega)
            simpa [lblOut, lblBad, hxc] using R_out1 x this
      | E2 =>
        simp only [loop, lblOut, lblBad, List.headD_cons, List.tail_cons]
        cases m with
        | zero =>
          have := R_finish_more a ⟨xs', M1, x, d, s, 2⟩ rfl ⟨hl', ha', by simp⟩ (by simp)
          simpa [meaningOut, meaningBad] using this
        | succ m =>
          simp only [unOut, unBad]
          by_cases hxd : x = d
          · subst hxd
            have := ih .E3 ⟨xs', m, x, x, crcStep s x, state⟩ hl' ha' (by simp; omega)
            simpa [lblOut, lblBad] using R_out1 x this
          · have := ih (.D 0) ⟨xs', m, x, d, crcStep s x, state⟩ hl' ha' (by simp; omega)
            simpa [lblOut, lblBad, hxd] using R_out1 x this
      | E3 =>
        simp only [loop, lblOut, lblBad, List.headD_cons, List.tail_cons]
        cases m with
        | zero =>
          have := R_finish_more a ⟨xs', M1, x, d, s, 3⟩ rfl ⟨hl', ha', by simp⟩ (by simp)
          simpa [meaningOut, meaningBad] using this
        | succ m =>
          simp only [unOut, unBad]
          by_cases hxd : x = d
          · subst hxd
            have := ih .E4 ⟨xs', m, x, x, crcStep s x, state⟩ hl' ha' (by simp; omega)
            simpa [lblOut, lblBad] using R_out1 x this
          · have := ih (.D 0) ⟨xs', m, x, d, crcStep s x, state⟩ hl' ha' (by simp; omega)
            simpa [lblOut, lblBad, hxd] using R_out1 x this
      | E4 =>
        simp only [loop, lblOut, lblBad, List.headD_cons, List.tail_cons, unOut, unBad, if_true]
        by_cases hlt : m < x.toNat
        · simp only [hlt, if_true]
          have := R_finish_more a
            ⟨xs', M1, x - UInt8.ofNat m, d, crcBytes s (List.replicate m d), 4⟩ rfl
            ⟨hl', ha', by simp⟩ (by simp)
          have := R_outN m d this
          simp only [meaningOut, meaningBad, unOut, unBad, if_true, Nat.zero_add] at this
          rw [← List.append_assoc, ← replicate_split x m d hlt] at this
          exact this
        · simp only [hlt, if_false]
          have hxm : x.toNat ≤ m := by omega
          have := ih .E0 ⟨xs', m - x.toNat, 255, d, crcBytes s (List.replicate x.toNat d), state⟩
            hl' ha' (by simp; omega)
          have := R_outN x.toNat d this
          simp only [lblOut, lblBad, Nat.sub_add_cancel hxm] at this
          exact this
      | E0 =>
        simp only [loop, lblOut, lblBad, List.headD_cons, List.tail_cons]
        cases m with
        | zero =>
          have := R_finish_more a ⟨xs', M1, x, d, s, 5⟩ rfl ⟨hl', ha', by simp⟩ (by simp)
          simpa [meaningOut, meaningBad] using this
        | succ m =>
          simp only [unOut, unBad]
          have := ih (.D 0) ⟨xs', m, x, d, crcStep s x, state⟩ hl' ha' (by simp; omega)
          simpa [lblOut, lblBad] using R_out1 x this

/-! ### The resume points of the `switch` -/

theorem post_R (a : Nat) (L : Loc) (hl : a = L.xs.length) (ha : a < M1) (hm : L.m < M1) :
    R (post a L) (unOut L.c 1 L.xs) (unBad L.c 1 L.xs) L.s L.m := by
  have h1 : a ≠ M1 := by omega
  have h2 : L.m ≠ M1 := by omega
  simp only [post, h1, h2, ne_eq, not_false_eq_true, and_self, if_true]
  exact loop_R a (.D 0) L hl ha hm

theorem post_M1_R (L : Loc) (hm : L.m < M1) : R (post M1 L) [] false L.s L.m := by
  have h2 : L.m ≠ M1 := by omega
  simp only [post, ne_eq, not_true_eq_false, false_and, if_false]
  exact R_finish_ok L h2

theorem case5_R (a : Nat) (L : Loc) (hl : a = L.xs.length) (ha : a < M1) (hm : L.m < M1) :
    R (case5 a L) (unOut L.d 0 (L.c :: L.xs)) (unBad L.d 0 (L.c :: L.xs)) L.s L.m := by
  obtain ⟨xs, m, c, d, s, state⟩ := L
  simp only at hl hm
  simp only [case5, unOut, unBad]
  cases m with
  | zero =>
    have := R_finish_more a ⟨xs, M1, c, d, s, 5⟩ rfl ⟨hl, ha, by simp⟩ (by simp)
    simpa [meaningOut, meaningBad, unOut, unBad] using this
  | succ m =>
    have := post_R a ⟨xs, m, c, d, crcStep s c, state⟩ hl ha (by simp; omega)
    simpa using R_out1 c this

theorem case0_R (a : Nat) (L : Loc) (hl : a = L.xs.length) (ha : a < M1) (hm : L.m < M1) :
    R (case0 a L) (unOut L.d 0 L.xs) (unBad L.d 0 L.xs) L.s L.m := by
  obtain ⟨xs, m, c, d, s, state⟩ := L
  simp only at hl hm
  cases a with
  | zero =>
    have hx : xs = [] := List.length_eq_zero_iff.mp hl.symm
    subst hx
    simpa [case0, unOut, unBad] using post_M1_R ⟨[], m, c, d, s, state⟩ hm
  | succ a =>
    match xs, hl with
    | x :: xs', hl =>
      have := case5_R a ⟨xs', m, x, d, s, state⟩ (by simpa using hl) (by omega) hm
      simpa [case0] using this

theorem case4_R (a : Nat) (L : Loc) (hl : a = L.xs.length) (ha : a < M1) (hm : L.m < M1) :
    R (case4 a L) (unOut L.d 4 (L.c :: L.xs)) (unBad L.d 4 (L.c :: L.xs)) L.s L.m := by
  obtain ⟨xs, m, c, d, s, state⟩ := L
  simp only at hl hm
  simp only [case4, unOut, unBad, if_true]
  by_cases hlt : m < c.toNat
  · simp only [hlt, if_true]
    have := R_finish_more a
      ⟨xs, M1, c - UInt8.ofNat m, d, crcBytes s (List.replicate m d), 4⟩ rfl
      ⟨hl, ha, by simp⟩ (by simp)
    have := R_outN m d this
    simp only [meaningOut, meaningBad, unOut, unBad, if_true, Nat.zero_add] at this
    rw [← List.append_assoc, ← replicate_split c m d hlt] at this
    exact this
  · simp only [hlt, if_false]
    have hcm : c.toNat ≤ m := by omega
    have := case0_R a ⟨xs, m - c.toNat, 255, d, crcBytes s (List.replicate c.toNat d), state⟩
      hl ha (by simp; omega)
    have := R_outN c.toNat d this
    simp only [Nat.sub_add_cancel hcm] at this
    exact this

theorem case3_R (a : Nat) (L : Loc) (hl : a = L.xs.length) (ha : a < M1) (hm : L.m < M1) :
    R (case3 a L) (unOut L.d 3 (L.c :: L.xs)) (unBad L.d 3 (L.c :: L.xs)) L.s L.m := by
  obtain ⟨xs, m, c, d, s, state⟩ := L
  simp only at hl hm
  simp only [case3]
  cases m with
  | zero =>
    have := R_finish_more a ⟨xs, M1, c, d, s, 3⟩ rfl ⟨hl, ha, by simp⟩ (by simp)
    simpa [meaningOut, meaningBad] using this
  | succ m =>
    simp only [unOut, unBad]
    by_cases hcd : c = d
    · subst hcd
      cases a with
      | zero =>
        have hx : xs = [] := List.length_eq_zero_iff.mp hl.symm
        subst hx
        have := R_retErr ⟨[], m, c, c, crcStep s c, state⟩ m
        simpa [unOut, unBad] using R_out1 c this
      | succ a =>
        match xs, hl with
        | x :: xs', hl =>
          have := case4_R a ⟨xs', m, x, c, crcStep s c, state⟩ (by simpa using hl) (by omega)
            (by simp; omega)
          simpa using R_out1 c this
    · have := post_R a ⟨xs, m, c, d, crcStep s c, state⟩ hl ha (by simp; omega)
      simpa [hcd] using R_out1 c this

theorem case2_R (a : Nat) (L : Loc) (hl : a = L.xs.length) (ha : a < M1) (hm : L.m < M1) :
    R (case2 a L) (unOut L.d 2 (L.c :: L.xs)) (unBad L.d 2 (L.c :: L.xs)) L.s L.m := by
  obtain ⟨xs, m, c, d, s, state⟩ := L
  simp only at hl hm
  simp only [case2]
  cases m with
  | zero =>
    have := R_finish_more a ⟨xs, M1, c, d, s, 2⟩ rfl ⟨hl, ha, by simp⟩ (by simp)
    simpa [meaningOut, meaningBad] using this
  | succ m =>
    simp only [unOut, unBad]
    by_cases hcd : c = d
    · subst hcd
      cases a with
      | zero =>
        have hx : xs = [] := List.length_eq_zero_iff.mp hl.symm
        subst hx
        have := post_M1_R ⟨[], m, c, c, crcStep s c, state⟩ (by simp; omega)
        simpa [unOut, unBad] using R_out1 c this
      | succ a =>
        match xs, hl with
        | x :: xs', hl =>
          have := case3_R a ⟨xs', m, x, c, crcStep s c, state⟩ (by simpa using hl) (by omega)
            (by simp; omega)
          simpa using R_out1 c this
    · have := post_R a ⟨xs, m, c, d, crcStep s c, state⟩ hl ha (by simp; omega)
      simpa [hcd] using R_out1 c this

theorem case1_R (a : Nat) (L : Loc) (hl : a = L.xs.length) (ha : a < M1) (hm : L.m < M1)
    (hst : L.state = 1) :
    R (case1 a L) (unOut L.d 1 (L.c :: L.xs)) (unBad L.d 1 (L.c :: L.xs)) L.s L.m := by
  obtain ⟨xs, m, c, d, s, state⟩ := L
  simp only at hl hm hst
  subst hst
  simp only [case1]
  cases m with
  | zero =>
    have := R_finish_more a ⟨xs, M1, c, d, s, 1⟩ rfl ⟨hl, ha, by simp⟩ (by simp)
    simpa [meaningOut, meaningBad] using this
  | succ m =>
    simp only [unOut, unBad]
    by_cases hcd : c = d
    · subst hcd
      cases a with
      | zero =>
        have hx : xs = [] := List.length_eq_zero_iff.mp hl.symm
        subst hx
        have := post_M1_R ⟨[], m, c, c, crcStep s c, 1⟩ (by simp; omega)
        simpa [unOut, unBad] using R_out1 c this
      | succ a =>
        match xs, hl with
        | x :: xs', hl =>
          have := case2_R a ⟨xs', m, x, c, crcStep s c, 1⟩ (by simpa using hl) (by omega)
            (by simp; omega)
          simpa using R_out1 c this
    · have := post_R a ⟨xs, m, c, d, crcStep s c, 1⟩ hl ha (by simp; omega)
      simpa [hcd] using R_out1 c this

/-! ### One call, a sequence of calls -/

theorem fixup_R {r : Ret} {O : List UInt8} {B : Bool} {s : UInt32} {m : Nat} (st : St)
    (size : Nat) (h : R r O B s m) :
    R (match r.status with
       | .errRunlen => { r with st := st, left := size }
       | .ok => { r with st := { st with a := r.st.a } }
       | _ => r) O B s m := by
  unfold R at *
  cases hs : r.status <;> simp only [hs] at h ⊢ <;> exact h

theorem M1_lt : M1 < 2 ^ 32 := by decide

/-- **One call of `emit()` from any consistent state is right.** -/
theorem emit_R (st : St) (size : Nat) (hi : Inv st) (hs : size < M1) :
    R (emit st size) (meaningOut st) (meaningBad st) st.crc size := by
  obtain ⟨state, crc, xs, a, c, d⟩ := st
  obtain ⟨hl, ha, h5⟩ := hi
  simp only at hl ha h5
  have hmod : size % 2 ^ 32 = size := Nat.mod_eq_of_lt (by have := M1_lt; omega)
  unfold emit
  simp only [hmod]
  match state, h5 with
  | 0, _ =>
    have := case0_R a ⟨xs, size, c, d, crc, 0⟩ hl ha hs
    exact fixup_R _ _ (by simpa [meaningOut, meaningBad] using this)
  | 1, _ =>
    have := case1_R a ⟨xs, size, c, d, crc, 1⟩ hl ha hs rfl
    exact fixup_R _ _ (by simpa [meaningOut, meaningBad] using this)
  | 2, _ =>
    have := case2_R a ⟨xs, size, c, d, crc, 2⟩ hl ha hs
    exact fixup_R _ _ (by simpa [meaningOut, meaningBad] using this)
  | 3, _ =>
    have := case3_R a ⟨xs, size, c, d, crc, 3⟩ hl ha hs
    exact fixup_R _ _ (by simpa [meaningOut, meaningBad] using this)
  | 4, _ =>
    have := case4_R a ⟨xs, size, c, d, crc, 4⟩ hl ha hs
    exact fixup_R _ _ (by simpa [meaningOut, meaningBad] using this)
  | 5, _ =>
    have := case5_R a ⟨xs, size, c, d, crc, 5⟩ hl ha hs
    exact fixup_R _ _ (by simpa [meaningOut, meaningBad] using this)
  | n + 6, h => omega

/-- Correctness of a sequence of calls: `O`, `B` = remaining reference output
and verdict at the start, `s` = CRC register at the start, `total` = sum of the
buffer sizes offered. -/
def RunOK (q : Run) (O : List UInt8) (B : Bool) (s : UInt32) (total : Nat) : Prop :=
  match q.final with
  | .more => O = q.bytes ++ meaningOut q.st ∧ B = meaningBad q.st ∧ q.bytes.length = total ∧
      q.st.crc = crcBytes s q.bytes ∧ Inv q.st
  | .ok => O = q.bytes ∧ B = false ∧ q.crc = crcBytes s q.bytes ^^^ 0xFFFFFFFF ∧
      q.bytes.length ≤ total
  | .errRunlen => O = q.bytes ∧ B = true ∧ q.bytes.length ≤ total
  | .abort => False

theorem run_R : ∀ (sizes : List Nat) (st : St), Inv st → (∀ z ∈ sizes, z < M1) →
    RunOK (run st sizes) (meaningOut st) (meaningBad st) st.crc sizes.sum := by
  intro sizes
  induction sizes with
  | nil =>
    intro st hi _
    simp [run, RunOK, Run.bytes, crcBytes, hi]
  | cons sz rest ih =>
    intro st hi hz
    have hsz : sz < M1 := hz sz (by simp)
    have hR := emit_R st sz hi hsz
    simp only [run]
    by_cases hmore : (emit st sz).status = .more
    · simp only [hmore, if_true]
      unfold R at hR
      simp only [hmore] at hR
      obtain ⟨h1, h2, h3, h4, h5, _, _⟩ := hR
      have hq := ih (emit st sz).st h5 (fun z hz' => hz z (by simp [hz']))
      unfold RunOK at hq ⊢
      simp only [Run.bytes, List.map_cons, List.flatten_cons] at hq ⊢
      cases hf : (run (emit st sz).st rest).final <;> simp only [hf] at hq ⊢
      · obtain ⟨q1, q2, q3, q4⟩ := hq
        refine ⟨by rw [h1, q1], by rw [h2, q2], ?_,
          by simp only [List.length_append, List.sum_cons]; omega⟩
        rw [q3, h4, crcBytes_append]
      · obtain ⟨q1, q2, q3, q4, q5⟩ := hq
        refine ⟨by rw [h1, q1]; simp, by rw [h2, q2],
          by simp only [List.length_append, List.sum_cons]; omega, ?_, q5⟩
        rw [q4, h4, crcBytes_append]
      · obtain ⟨q1, q2, q3⟩ := hq
        exact ⟨by rw [h1, q1], by rw [h2, q2],
          by simp only [List.length_append, List.sum_cons]; omega⟩
    · simp only [hmore, if_false]
      unfold R at hR
      unfold RunOK
      simp only [Run.bytes, List.map_cons, List.map_nil, List.flatten_cons, List.flatten_nil,
        List.append_nil]
      cases hf : (emit st sz).status with
      | more => exact absurd hf hmore
      | ok =>
        simp only [hf] at hR ⊢
        obtain ⟨h1, h2, h3, h4, _⟩ := hR
        exact ⟨h1, h2, h4, by simp only [List.sum_cons]; omega⟩
      | errRunlen =>
        simp only [hf] at hR ⊢
        obtain ⟨h1, h2, h3⟩ := hR
        exact ⟨h1, h2, by simp only [List.sum_cons]; omega⟩
      | abort => simp only [hf] at hR

theorem init_Inv (xs : List UInt8) (h : xs.length < M1) : Inv (St.init xs) := by
  simp [Inv, St.init, h]

end LbzVerif.Lemmas.Emit
