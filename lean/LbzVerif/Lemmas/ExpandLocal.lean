/-
  LbzVerif.Lemmas.ExpandLocal — the reference block parser is LOCAL: the result
  of `parseBlock` (and of every sub-parser) depends only on the bits it
  consumes.  For each parser `f`

      f … X = ok (r…, rest)  →  ∃ C, X = C ++ rest ∧ ∀ Y, f … (C ++ Y) = ok (r…, Y)

  and, as corollaries for `takeNat` and `parseBlock`, extension of the input
  (`_append`) and restriction of the input (`_restrict`).
-/
import LbzVerif.Spec.Bzip2

namespace LbzVerif.Lemmas.ExpandLocal

open LbzVerif.Basic LbzVerif.Spec.Bzip2

/-! ### list helper for the `_restrict` corollaries -/

/-- If `X ++ P = C ++ R` and `P` is no longer than `R`, then `P` is a suffix of `R`. -/
theorem split_suffix {α : Type} (X P C R : List α) (h : X ++ P = C ++ R)
    (hl : P.length ≤ R.length) : ∃ rest, R = rest ++ P ∧ X = C ++ rest := by
  rcases List.append_eq_append_iff.mp h with ⟨a, hC, hP⟩ | ⟨c, hX, hR⟩
  · -- C = X ++ a, P = a ++ R
    have hlen : a.length = 0 := by
      have := congrArg List.length hP
      simp only [List.length_append] at this
      omega
    have ha : a = [] := List.eq_nil_of_length_eq_zero hlen
    subst ha
    simp only [List.append_nil, List.nil_append] at hC hP
    exact ⟨[], by simp [hP], by simp [hC]⟩
  · exact ⟨c, hR, hX⟩

/-! ### fixed-width fields -/

theorem takeNatAux_local (n acc : Nat) (X : Bits) (v : Nat) (rest : Bits)
    (h : takeNatAux n acc X = some (v, rest)) :
    ∃ C, X = C ++ rest ∧ C.length = n ∧ ∀ Y, takeNatAux n acc (C ++ Y) = some (v, Y) := by
  induction n generalizing acc X with
  | zero =>
    simp only [takeNatAux, Option.some.injEq, Prod.mk.injEq] at h
    obtain ⟨rfl, rfl⟩ := h
    exact ⟨[], rfl, rfl, fun Y => rfl⟩
  | succ n ih =>
    cases X with
    | nil => simp [takeNatAux] at h
    | cons b bs =>
      simp only [takeNatAux] at h
      obtain ⟨C, hC, hl, hY⟩ := ih _ _ h
      refine ⟨b :: C, by rw [hC]; rfl, by simp [hl], fun Y => ?_⟩
      simp only [List.cons_append, takeNatAux]
      exact hY Y

theorem takeNat_local (n : Nat) (X : Bits) (v : Nat) (rest : Bits)
    (h : takeNat n X = some (v, rest)) :
    ∃ C, X = C ++ rest ∧ C.length = n ∧ ∀ Y, takeNat n (C ++ Y) = some (v, Y) :=
  takeNatAux_local n 0 X v rest h

theorem takeNat_append' (n : Nat) (X P : Bits) (v : Nat) (rest : Bits)
    (h : takeNat n X = some (v, rest)) :
    takeNat n (X ++ P) = some (v, rest ++ P) := by
  obtain ⟨C, e, _, hY⟩ := takeNat_local n X v rest h
  rw [e, List.append_assoc]
  exact hY _

theorem takeNat_restrict (n : Nat) (X P : Bits) (v : Nat) (rest' : Bits)
    (h : takeNat n (X ++ P) = some (v, rest')) (hl : P.length ≤ rest'.length) :
    ∃ rest, rest' = rest ++ P ∧ takeNat n X = some (v, rest) := by
  obtain ⟨C, e, _, hY⟩ := takeNat_local n (X ++ P) v rest' h
  obtain ⟨rest, hr, hX⟩ := split_suffix X P C rest' e hl
  exact ⟨rest, hr, by rw [hX]; exact hY rest⟩

/-! ### bitmap -/

theorem readBitmapRows_local (big : Nat) (rows : List Nat) (pos : Nat) (X : Bits)
    (u : List UInt8) (p : Nat) (rest : Bits)
    (h : readBitmapRows big rows pos X = some (u, p, rest)) :
    ∃ C, X = C ++ rest ∧ ∀ Y, readBitmapRows big rows pos (C ++ Y) = some (u, p, Y) := by
  induction rows generalizing pos X u p with
  | nil =>
    simp only [readBitmapRows, Option.some.injEq, Prod.mk.injEq] at h
    obtain ⟨rfl, rfl, rfl⟩ := h
    exact ⟨[], rfl, fun Y => rfl⟩
  | cons i rows ih =>
    simp only [readBitmapRows] at h
    split at h
    · rename_i hb
      split at h
      · cases h
      · rename_i small bits1 h1
        split at h
        · cases h
        · rename_i u' p' r' h2
          simp only [Option.some.injEq, Prod.mk.injEq] at h
          obtain ⟨rfl, rfl, rfl⟩ := h
          obtain ⟨C1, e1, _, hY1⟩ := takeNat_local _ _ _ _ h1
          obtain ⟨C2, e2, hY2⟩ := ih _ _ _ _ h2
          refine ⟨C1 ++ C2, by rw [e1, e2, List.append_assoc], fun Y => ?_⟩
          simp only [readBitmapRows, if_pos hb, List.append_assoc, hY1, hY2]
    · rename_i hb
      obtain ⟨C, e, hY⟩ := ih _ _ _ _ h
      refine ⟨C, e, fun Y => ?_⟩
      simp only [readBitmapRows, if_neg hb, hY]

/-! ### selectors -/

theorem readUnary_local (g k : Nat) (X : Bits) (j : Nat) (rest : Bits)
    (h : readUnary g k X = .ok (j, rest)) :
    ∃ C, X = C ++ rest ∧ ∀ Y, readUnary g k (C ++ Y) = .ok (j, Y) := by
  induction X generalizing k with
  | nil => simp [readUnary] at h
  | cons b bs ih =>
    cases b with
    | false =>
      simp only [readUnary, Except.ok.injEq, Prod.mk.injEq] at h
      obtain ⟨rfl, rfl⟩ := h
      exact ⟨[false], rfl, fun Y => by simp [readUnary]⟩
    | true =>
      simp only [readUnary] at h
      split at h
      · rename_i hlt
        obtain ⟨C, e, hY⟩ := ih _ h
        refine ⟨true :: C, by rw [e]; rfl, fun Y => ?_⟩
        simp only [List.cons_append, readUnary, if_pos hlt, hY]
      · cases h

theorem readSelectorMtf_local (g n pos : Nat) (X : Bits) (acc a : Array Nat) (p : Nat)
    (rest : Bits) (h : readSelectorMtf g n pos X acc = .ok (a, p, rest)) :
    ∃ C, X = C ++ rest ∧ ∀ Y, readSelectorMtf g n pos (C ++ Y) acc = .ok (a, p, Y) := by
  induction n generalizing pos X acc with
  | zero =>
    simp only [readSelectorMtf, Except.ok.injEq, Prod.mk.injEq] at h
    obtain ⟨rfl, rfl, rfl⟩ := h
    exact ⟨[], rfl, fun Y => rfl⟩
  | succ n ih =>
    simp only [readSelectorMtf] at h
    split at h
    · cases h
    · rename_i j bits1 h1
      obtain ⟨C1, e1, hY1⟩ := readUnary_local _ _ _ _ _ h1
      obtain ⟨C2, e2, hY2⟩ := ih _ _ _ h
      refine ⟨C1 ++ C2, by rw [e1, e2, List.append_assoc], fun Y => ?_⟩
      simp only [readSelectorMtf, List.append_assoc, hY1, hY2]

/-! ### code lengths -/

theorem readLen_local (cur pos : Nat) (X : Bits) (l p : Nat) (rest : Bits)
    (h : readLen cur pos X = .ok (l, p, rest)) :
    ∃ C, X = C ++ rest ∧ ∀ Y, readLen cur pos (C ++ Y) = .ok (l, p, Y) := by
  fun_induction readLen cur pos X with
  | case1 => cases h
  | case2 cur pos bits =>
    simp only [Except.ok.injEq, Prod.mk.injEq] at h
    obtain ⟨rfl, rfl, rfl⟩ := h
    exact ⟨[false], rfl, fun Y => by simp [readLen]⟩
  | case3 => cases h
  | case4 cur pos bits hle ih =>
    obtain ⟨C, e, hY⟩ := ih h
    refine ⟨true :: false :: C, by rw [e]; rfl, fun Y => ?_⟩
    simp only [List.cons_append, readLen, if_pos hle, hY]
  | case5 cur pos bits hnot => cases h
  | case6 cur pos bits hle ih =>
    obtain ⟨C, e, hY⟩ := ih h
    refine ⟨true :: true :: C, by rw [e]; rfl, fun Y => ?_⟩
    simp only [List.cons_append, readLen, if_pos hle, hY]
  | case7 cur pos bits hnot => cases h

theorem readLens_local (n cur pos : Nat) (X : Bits) (acc a : Array Nat) (p : Nat)
    (rest : Bits) (h : readLens n cur pos X acc = .ok (a, p, rest)) :
    ∃ C, X = C ++ rest ∧ ∀ Y, readLens n cur pos (C ++ Y) acc = .ok (a, p, Y) := by
  induction n generalizing cur pos X acc with
  | zero =>
    simp only [readLens, Except.ok.injEq, Prod.mk.injEq] at h
    obtain ⟨rfl, rfl, rfl⟩ := h
    exact ⟨[], rfl, fun Y => rfl⟩
  | succ n ih =>
    simp only [readLens] at h
    split at h
    · cases h
    · rename_i len pos1 bits1 h1
      obtain ⟨C1, e1, hY1⟩ := readLen_local _ _ _ _ _ _ h1
      obtain ⟨C2, e2, hY2⟩ := ih _ _ _ _ h
      refine ⟨C1 ++ C2, by rw [e1, e2, List.append_assoc], fun Y => ?_⟩
      simp only [readLens, List.append_assoc, hY1, hY2]

theorem readTable_local (alpha pos : Nat) (X : Bits) (t : List Nat) (p : Nat) (rest : Bits)
    (h : readTable alpha pos X = .ok (t, p, rest)) :
    ∃ C, X = C ++ rest ∧ ∀ Y, readTable alpha pos (C ++ Y) = .ok (t, p, Y) := by
  unfold readTable at h
  split at h
  · cases h
  · rename_i st bits1 h1
    split at h
    · rename_i hst
      split at h
      · cases h
      · rename_i lens pos2 bits2 h2
        simp only [Except.ok.injEq, Prod.mk.injEq] at h
        obtain ⟨rfl, rfl, rfl⟩ := h
        obtain ⟨C1, e1, _, hY1⟩ := takeNat_local _ _ _ _ h1
        obtain ⟨C2, e2, hY2⟩ := readLens_local _ _ _ _ _ _ _ _ h2
        refine ⟨C1 ++ C2, by rw [e1, e2, List.append_assoc], fun Y => ?_⟩
        simp only [readTable, List.append_assoc, hY1, if_pos hst, hY2]
    · cases h

theorem readTables_local (alpha n pos : Nat) (X : Bits) (acc : Array (List Nat))
    (t : List (List Nat)) (p : Nat) (rest : Bits)
    (h : readTables alpha n pos X acc = .ok (t, p, rest)) :
    ∃ C, X = C ++ rest ∧ ∀ Y, readTables alpha n pos (C ++ Y) acc = .ok (t, p, Y) := by
  induction n generalizing pos X acc with
  | zero =>
    simp only [readTables, Except.ok.injEq, Prod.mk.injEq] at h
    obtain ⟨rfl, rfl, rfl⟩ := h
    exact ⟨[], rfl, fun Y => rfl⟩
  | succ n ih =>
    simp only [readTables] at h
    split at h
    · cases h
    · rename_i t1 pos1 bits1 h1
      obtain ⟨C1, e1, hY1⟩ := readTable_local _ _ _ _ _ _ h1
      obtain ⟨C2, e2, hY2⟩ := ih _ _ _ h
      refine ⟨C1 ++ C2, by rw [e1, e2, List.append_assoc], fun Y => ?_⟩
      simp only [readTables, List.append_assoc, hY1, hY2]

/-! ### prefix-coded symbols -/

theorem decodeRank_local (counts : List Nat) (code first index pos : Nat) (X : Bits)
    (r p : Nat) (rest : Bits)
    (h : decodeRank counts code first index pos X = .ok (r, p, rest)) :
    ∃ C, X = C ++ rest ∧
      ∀ Y, decodeRank counts code first index pos (C ++ Y) = .ok (r, p, Y) := by
  fun_induction decodeRank counts code first index pos X with
  | case1 => cases h
  | case2 => cases h
  | case3 c counts code first index pos b bits code' hin =>
    simp only [Except.ok.injEq, Prod.mk.injEq] at h
    obtain ⟨rfl, rfl, rfl⟩ := h
    refine ⟨[b], rfl, fun Y => ?_⟩
    simp only [List.cons_append, List.nil_append, decodeRank]
    rw [if_pos hin]
  | case4 c counts code first index pos b bits code' hnin ih =>
    obtain ⟨C, e, hY⟩ := ih h
    refine ⟨b :: C, by rw [e]; rfl, fun Y => ?_⟩
    simp only [List.cons_append, decodeRank]
    rw [if_neg hnin]
    exact hY Y

theorem decodeSym_local (c : Code) (pos : Nat) (X : Bits) (s p : Nat) (rest : Bits)
    (h : decodeSym c pos X = .ok (s, p, rest)) :
    ∃ C, X = C ++ rest ∧ ∀ Y, decodeSym c pos (C ++ Y) = .ok (s, p, Y) := by
  unfold decodeSym at h
  split at h
  · cases h
  · rename_i r pos1 bits1 h1
    split at h
    · cases h
    · rename_i s' hs
      simp only [Except.ok.injEq, Prod.mk.injEq] at h
      obtain ⟨rfl, rfl, rfl⟩ := h
      obtain ⟨C, e, hY⟩ := decodeRank_local _ _ _ _ _ _ _ _ _ h1
      refine ⟨C, e, fun Y => ?_⟩
      simp only [decodeSym, hY, hs]

theorem decodeGroup_local (c : Code) (eob k pos : Nat) (X : Bits) (acc : Array Nat)
    (d : Bool) (p : Nat) (rest : Bits) (a : Array Nat)
    (h : decodeGroup c eob k pos X acc = .ok (d, p, rest, a)) :
    ∃ C, X = C ++ rest ∧ ∀ Y, decodeGroup c eob k pos (C ++ Y) acc = .ok (d, p, Y, a) := by
  induction k generalizing pos X acc with
  | zero =>
    simp only [decodeGroup, Except.ok.injEq, Prod.mk.injEq] at h
    obtain ⟨rfl, rfl, rfl, rfl⟩ := h
    exact ⟨[], rfl, fun Y => rfl⟩
  | succ k ih =>
    simp only [decodeGroup] at h
    split at h
    · cases h
    · rename_i s pos1 bits1 h1
      obtain ⟨C1, e1, hY1⟩ := decodeSym_local _ _ _ _ _ _ h1
      split at h
      · rename_i heq
        simp only [Except.ok.injEq, Prod.mk.injEq] at h
        obtain ⟨rfl, rfl, rfl, rfl⟩ := h
        refine ⟨C1, e1, fun Y => ?_⟩
        simp only [decodeGroup, hY1, if_pos heq]
      · rename_i hne
        obtain ⟨C2, e2, hY2⟩ := ih _ _ _ h
        refine ⟨C1 ++ C2, by rw [e1, e2, List.append_assoc], fun Y => ?_⟩
        simp only [decodeGroup, List.append_assoc, hY1, if_neg hne, hY2]

theorem decodeGroups_local (codes : Array Code) (eob : Nat) (sels : List Nat)
    (nUsed pos : Nat) (X : Bits) (acc : Array Nat)
    (n p : Nat) (rest : Bits) (a : Array Nat)
    (h : decodeGroups codes eob sels nUsed pos X acc = .ok (n, p, rest, a)) :
    ∃ C, X = C ++ rest ∧
      ∀ Y, decodeGroups codes eob sels nUsed pos (C ++ Y) acc = .ok (n, p, Y, a) := by
  induction sels generalizing nUsed pos X acc with
  | nil => simp [decodeGroups] at h
  | cons s sels ih =>
    simp only [decodeGroups] at h
    split at h
    · cases h
    · rename_i c hc
      split at h
      · cases h
      · rename_i hcomp
        split at h
        · cases h
        · rename_i pos1 bits1 acc1 h1
          simp only [Except.ok.injEq, Prod.mk.injEq] at h
          obtain ⟨rfl, rfl, rfl, rfl⟩ := h
          obtain ⟨C1, e1, hY1⟩ := decodeGroup_local _ _ _ _ _ _ _ _ _ _ h1
          refine ⟨C1, e1, fun Y => ?_⟩
          simp only [decodeGroups, hc, hcomp, hY1]
          simp
        · rename_i pos1 bits1 acc1 h1
          obtain ⟨C1, e1, hY1⟩ := decodeGroup_local _ _ _ _ _ _ _ _ _ _ h1
          obtain ⟨C2, e2, hY2⟩ := ih _ _ _ _ h
          refine ⟨C1 ++ C2, by rw [e1, e2, List.append_assoc], fun Y => ?_⟩
          simp only [decodeGroups, hc, hcomp, List.append_assoc, hY1, hY2]
          simp

/-! ### the whole block -/

/-- `parseBlock` is local: a successful parse splits the input into the
    consumed prefix `C` and the returned rest, and the same block comes out of
    `C` followed by anything. -/
theorem parseBlock_local (level start : Nat) (X : Bits) (b : Block) (rest : Bits)
    (h : parseBlock level start X = .ok (b, rest)) :
    ∃ C, X = C ++ rest ∧ ∀ Y, parseBlock level start (C ++ Y) = .ok (b, Y) := by
  unfold parseBlock at h
  split at h
  · cases h
  rename_i crc bits1 h1
  split at h
  · cases h
  rename_i rnd bits2 h2
  split at h
  · cases h
  rename_i op bits3 h3
  split at h
  · cases h
  rename_i big bits4 h4
  split at h
  · cases h
  rename_i used pos5 bits5 h5
  split at h
  · cases h
  rename_i hused
  split at h
  · cases h
  rename_i ng bits6 h6
  split at h
  · cases h
  rename_i hng
  split at h
  · cases h
  rename_i ns bits7 h7
  split at h
  · cases h
  rename_i hns
  split at h
  · cases h
  rename_i selMtf pos8 bits8 h8
  split at h
  · cases h
  rename_i selectors h9
  dsimp only at h
  split at h
  · cases h
  rename_i tables pos10 bits10 h10
  split at h
  · cases h
  rename_i nUsed pos11 bits11 syms h11
  simp only [Except.ok.injEq, Prod.mk.injEq] at h
  obtain ⟨rfl, rfl⟩ := h
  obtain ⟨C1, e1, _, hY1⟩ := takeNat_local _ _ _ _ h1
  obtain ⟨C2, e2, _, hY2⟩ := takeNat_local _ _ _ _ h2
  obtain ⟨C3, e3, _, hY3⟩ := takeNat_local _ _ _ _ h3
  obtain ⟨C4, e4, _, hY4⟩ := takeNat_local _ _ _ _ h4
  obtain ⟨C5, e5, hY5⟩ := readBitmapRows_local _ _ _ _ _ _ _ h5
  obtain ⟨C6, e6, _, hY6⟩ := takeNat_local _ _ _ _ h6
  obtain ⟨C7, e7, _, hY7⟩ := takeNat_local _ _ _ _ h7
  obtain ⟨C8, e8, hY8⟩ := readSelectorMtf_local _ _ _ _ _ _ _ _ h8
  obtain ⟨C10, e10, hY10⟩ := readTables_local _ _ _ _ _ _ _ _ h10
  obtain ⟨C11, e11, hY11⟩ := decodeGroups_local _ _ _ _ _ _ _ _ _ _ _ h11
  refine ⟨C1 ++ (C2 ++ (C3 ++ (C4 ++ (C5 ++ (C6 ++ (C7 ++ (C8 ++ (C10 ++ C11)))))))), ?_,
    fun Y => ?_⟩
  · rw [e1, e2, e3, e4, e5, e6, e7, e8, e10, e11]
    simp only [List.append_assoc]
  · unfold parseBlock
    simp only [List.append_assoc, hY1, hY2, hY3, hY4, hY5, hused, hY6, hng, hY7, hns, hY8, h9,
      hY10, hY11]
    simp

/-- Extension: appending bits to the input appends them to the rest. -/
theorem parseBlock_append (level start : Nat) (X P : Bits) (b : Block) (rest : Bits)
    (h : parseBlock level start X = .ok (b, rest)) :
    parseBlock level start (X ++ P) = .ok (b, rest ++ P) := by
  obtain ⟨C, e, hY⟩ := parseBlock_local level start X b rest h
  rw [e, List.append_assoc]
  exact hY _

/-- Restriction: bits at the end of the input that the parse did not reach
    can be removed. -/
theorem parseBlock_restrict (level start : Nat) (X P : Bits) (b : Block) (rest' : Bits)
    (h : parseBlock level start (X ++ P) = .ok (b, rest')) (hl : P.length ≤ rest'.length) :
    ∃ rest, rest' = rest ++ P ∧ parseBlock level start X = .ok (b, rest) := by
  obtain ⟨C, e, hY⟩ := parseBlock_local level start (X ++ P) b rest' h
  obtain ⟨rest, hr, hX⟩ := split_suffix X P C rest' e hl
  exact ⟨rest, hr, by rw [hX]; exact hY rest⟩

end LbzVerif.Lemmas.ExpandLocal
