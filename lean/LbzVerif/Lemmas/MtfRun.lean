/-
  Lemmas.MtfRun — the symbol-consumption loop of `retrieve()` (delayed writes,
  `run += RUN(s) << shift++` under the `run <= MAX_BLOCK_SIZE` guard, overflow
  test) computes the reference `Spec.Mtf.unGo`.
-/
import LbzVerif.Spec.Mtf
import LbzVerif.Model.MtfDec
import LbzVerif.Lemmas.MtfSpec
import LbzVerif.Lemmas.MtfOne

namespace LbzVerif.Lemmas.MtfRun
open LbzVerif.Model.MtfDec LbzVerif.Gen LbzVerif.Lemmas.MtfOne LbzVerif.Spec.Mtf

theorem max_block : MAX_BLOCK_SIZE = 900000 := rfl

/-- result as an option (errors and undefined behaviour collapse to `none`) -/
def toOpt : Res → Option (List UInt8)
  | .ok out _ => some out
  | _ => none

/-- symbols `make_tree` can produce (internal numbering) -/
def validSym (s : Nat) : Prop := s = 0 ∨ (1 ≤ s ∧ s < 256) ∨ s = 257 ∨ s = 258

/-! ### the shift never reaches 20 -/

/-- While `run ≥ 2^shift - 1` (true initially and after every step) and the
guard `run ≤ MAX_BLOCK_SIZE` holds: `shift ≤ 19`, the 32-bit arithmetic of
`run += RUN(s) << shift` does not wrap, and the relation is re-established. -/
theorem accum_step (run shift s : Nat) (hs : s = 257 ∨ s = 258)
    (hpow : 2 ^ shift ≤ run + 1) (hrun : run ≤ MAX_BLOCK_SIZE) :
    shift ≤ 19 ∧
    (s - 256) <<< shift ≤ 2 ^ 20 ∧
    (run + ((s - 256) <<< shift) % 4294967296) % 4294967296 = run + (s - 256) * 2 ^ shift ∧
    run + (s - 256) * 2 ^ shift < 2 ^ 21 ∧
    2 ^ (shift + 1) ≤ run + (s - 256) * 2 ^ shift + 1 := by
  rw [max_block] at hrun
  have h19 : shift ≤ 19 := by
    by_cases hc : shift ≤ 19
    · exact hc
    · exfalso
      have : 2 ^ 20 ≤ 2 ^ shift := Nat.pow_le_pow_right (by omega) (by omega)
      have e : (2 : Nat) ^ 20 = 1048576 := by decide
      omega
  have hP : 2 ^ shift ≤ 2 ^ 19 := Nat.pow_le_pow_right (by omega) h19
  have e19 : (2 : Nat) ^ 19 = 524288 := by decide
  have e20 : (2 : Nat) ^ 20 = 1048576 := by decide
  have e21 : (2 : Nat) ^ 21 = 2097152 := by decide
  have hsucc : 2 ^ (shift + 1) = 2 * 2 ^ shift := by rw [Nat.pow_succ]; omega
  rw [Nat.shiftLeft_eq, hsucc, e20, e21]
  rw [e19] at hP
  generalize 2 ^ shift = P at *
  rcases hs with rfl | rfl
  · simp only [show 257 - 256 = 1 from rfl, Nat.one_mul]
    refine ⟨h19, by omega, ?_, by omega, by omega⟩
    rw [Nat.mod_eq_of_lt (by omega : P < 4294967296), Nat.mod_eq_of_lt (by omega)]
  · simp only [show 258 - 256 = 2 from rfl]
    refine ⟨h19, by omega, ?_, by omega, by omega⟩
    rw [Nat.mod_eq_of_lt (by omega : 2 * P < 4294967296), Nat.mod_eq_of_lt (by omega)]

/-! ### once the block does not fit, the loop never succeeds -/

theorem consume_sticky (limit : Nat) (hl : limit ≤ MAX_BLOCK_SIZE) :
    ∀ (syms : List Nat) (st : RunSt), (∀ s ∈ syms, validSym s) →
      2 ^ st.shift ≤ st.run + 1 → st.n ≤ limit → st.n + st.run > limit →
      toOpt (consume limit st syms) = none := by
  intro syms
  induction syms with
  | nil => intro st _ _ _ _; rfl
  | cons s ss ih =>
    intro st hv hpow hn hov
    have hvs := hv s (List.mem_cons_self ..)
    have hvss : ∀ x ∈ ss, validSym x := fun x hx => hv x (List.mem_cons_of_mem _ hx)
    have hgt : st.run > limit - st.n := by omega
    rw [consume]
    by_cases h0 : s = 0
    · simp only [h0, if_true, hgt]; rfl
    · simp only [h0, if_false]
      by_cases hr : 256 ≤ s ∧ st.run ≤ MAX_BLOCK_SIZE
      · have hs : s = 257 ∨ s = 258 := by
          rcases hvs with h | h | h | h <;> omega
        obtain ⟨h19, _, hnw, _, hpow'⟩ := accum_step st.run st.shift s hs hpow hr.2
        have hsh : ¬ 32 ≤ st.shift := by omega
        simp only [hr, and_self, if_true, hsh, if_false, Nat.reducePow]
        apply ih _ hvss
        · dsimp only
          rw [hnw]; exact hpow'
        · exact hn
        · dsimp only
          rw [hnw]; omega
      · simp only [hr, if_false, hgt, if_true]; rfl

/-! ### coupling with the reference decoder -/

structure Coupled (N : Nat) (st : RunSt) (l : List UInt8) : Prop where
  inv : Inv st.sl
  pow : 2 ^ st.shift ≤ st.run + 1
  len : l.length = N
  pos : 1 ≤ N
  le : N ≤ 256
  abs : ∃ junk, abs st.sl = l ++ junk
  head : l.head? = some st.runChar

theorem internalSym_valid (N s : Nat) (hN : N ≤ 256) (h1 : 1 ≤ N) (hs : s ≤ N + 1) :
    validSym (internalSym N s) := by
  unfold internalSym validSym
  split
  · omega
  · split
    · omega
    · split <;> omega

theorem moveToFront_append (l junk : List UInt8) (p : Nat) (hp : p < l.length) :
    moveToFront (l ++ junk) p = moveToFront l p ++ junk := by
  unfold moveToFront
  rw [List.getElem?_append_left hp, List.getElem?_eq_getElem hp]
  simp [List.eraseIdx_append_of_lt_length hp]

theorem consume_spec (N limit : Nat) (hl : limit ≤ MAX_BLOCK_SIZE) :
    ∀ (syms : List Nat) (st : RunSt) (l : List UInt8), Coupled N st l →
      (∀ s ∈ syms, s ≤ N + 1) → st.n + st.run ≤ limit →
      toOpt (consume limit st (syms.map (internalSym N))) =
        (unGo (N + 1) limit l (st.n + st.run) (2 ^ st.shift) syms).map
          (fun r => st.out.reverse ++ List.replicate st.run st.runChar ++ r) := by
  intro syms
  induction syms with
  | nil => intro st l _ _ _; rfl
  | cons s ss ih =>
    intro st l hc hle hfit
    have hs := hle s (List.mem_cons_self ..)
    have hss : ∀ x ∈ ss, x ≤ N + 1 := fun x hx => hle x (List.mem_cons_of_mem _ hx)
    have hvalid : ∀ x ∈ ss.map (internalSym N), validSym x := by
      intro x hx
      obtain ⟨y, hy, rfl⟩ := List.mem_map.mp hx
      exact internalSym_valid N y hc.le hc.pos (hss y hy)
    have hN1 := hc.pos
    have hN256 := hc.le
    have hM := max_block
    obtain ⟨b0, t, rfl⟩ : ∃ b0 t, l = b0 :: t := by
      cases l with
      | nil => have := hc.len; simp at this; omega
      | cons a t => exact ⟨a, t, rfl⟩
    have hrc : st.runChar = b0 := by
      have := hc.head; simp at this; exact this.symm
    simp only [List.map_cons]
    rw [consume, unGo]
    by_cases heob : s = N + 1
    · -- EOB
      subst heob
      have hi : internalSym N (N + 1) = 0 := by
        unfold internalSym
        have hN0 : ¬ N = 0 := by omega
        simp [hN0]
      have hng : ¬ st.run > limit - st.n := by omega
      simp only [hi, if_true, hng, if_false, toOpt, flush, Option.map_some]
      simp [List.reverse_append]
    · by_cases hrun : s < 2
      · -- RUNA / RUNB
        have hi : internalSym N s = 257 + s := by
          unfold internalSym
          rcases (by omega : s = 0 ∨ s = 1) with h | h <;> subst h <;> rfl
        have hs2 : internalSym N s = 257 ∨ internalSym N s = 258 := by omega
        have hrle : st.run ≤ MAX_BLOCK_SIZE := by omega
        obtain ⟨h19, _, hnw, _, hpow'⟩ := accum_step st.run st.shift _ hs2 hc.pow hrle
        have hne0 : ¬ internalSym N s = 0 := by omega
        have hbr : 256 ≤ internalSym N s ∧ st.run ≤ MAX_BLOCK_SIZE := ⟨by omega, hrle⟩
        have hsh : ¬ 32 ≤ st.shift := by omega
        simp only [hne0, if_false, hbr, and_self, if_true, hsh, heob, hrun, Nat.reducePow]
        have hk : (internalSym N s - 256) * 2 ^ st.shift = (s + 1) * 2 ^ st.shift := by
          have : internalSym N s - 256 = s + 1 := by omega
          rw [this]
        rw [hnw, hk]
        by_cases hov : st.n + st.run + (s + 1) * 2 ^ st.shift > limit
        · rw [if_pos hov]
          apply consume_sticky limit hl _ _ hvalid
          · show 2 ^ (st.shift + 1) ≤ _ + 1
            rw [← hk]; exact hpow'
          · show st.n ≤ limit
            omega
          · show st.n + (st.run + (s + 1) * 2 ^ st.shift) > limit
            omega
        · rw [if_neg hov]
          have hc' : Coupled N { st with run := st.run + (s + 1) * 2 ^ st.shift,
                                          shift := st.shift + 1 } (b0 :: t) :=
            ⟨hc.inv, by show 2 ^ (st.shift + 1) ≤ _ + 1; rw [← hk]; exact hpow',
             hc.len, hc.pos, hc.le, hc.abs, hc.head⟩
          rw [ih _ (b0 :: t) hc' hss (by show st.n + (st.run + _) ≤ limit; omega)]
          have e1 : st.n + (st.run + (s + 1) * 2 ^ st.shift) =
              st.n + st.run + (s + 1) * 2 ^ st.shift := by omega
          have e2 : 2 ^ (st.shift + 1) = 2 * 2 ^ st.shift := by rw [Nat.pow_succ]; omega
          show Option.map _ (unGo (N + 1) limit (b0 :: t) (st.n + (st.run + (s + 1) * 2 ^ st.shift))
            (2 ^ (st.shift + 1)) ss) = _
          rw [e1, e2, Option.map_map]
          congr 1
          funext r
          simp only [Function.comp, hrc, ← List.replicate_append_replicate, List.append_assoc]
      · -- MTF symbol, position s - 1
        have hs2 : 2 ≤ s := by omega
        have hsN : s ≤ N := by omega
        have hi : internalSym N s = s - 1 := by
          unfold internalSym
          have h0 : ¬ s = 0 := by omega
          have h1 : ¬ s = 1 := by omega
          simp [h0, h1, heob]
        have hne0 : ¬ internalSym N s = 0 := by omega
        have hbr : ¬ (256 ≤ internalSym N s ∧ st.run ≤ MAX_BLOCK_SIZE) := by omega
        have hng : ¬ st.run > limit - st.n := by omega
        have hlt : s < N + 1 := by omega
        simp only [hne0, if_false, hbr, hng, heob, hrun, hlt, if_true]
        -- the call of mtf_one
        have hcn : (UInt8.ofNat (internalSym N s)).toNat = s - 1 := by
          rw [UInt8.toNat_ofNat', hi]; omega
        have hc1 : 1 ≤ (UInt8.ofNat (internalSym N s)).toNat := by omega
        obtain ⟨b, sl', e1, e2, e3, e4⟩ := mtfOne_abs st.sl hc.inv _ hc1
        obtain ⟨junk, hj⟩ := hc.abs
        have hlen : (b0 :: t).length = N := hc.len
        have hp : s - 1 < (b0 :: t).length := by omega
        rw [hcn, hj, List.getElem?_append_left hp] at e3
        rw [hcn, hj, moveToFront_append _ _ _ hp] at e4
        have hfl : (flush st).sl = st.sl := rfl
        rw [hfl, e1, e3]
        dsimp only
        have hmtf : moveToFront (b0 :: t) (s - 1) = b :: (b0 :: t).eraseIdx (s - 1) := by
          unfold moveToFront; rw [e3]
        by_cases hov : st.n + st.run + 1 > limit
        · rw [if_pos hov]
          apply consume_sticky limit hl _ _ hvalid
          · show 2 ^ 0 ≤ 1 + 1; omega
          · show st.n + st.run ≤ limit; exact hfit
          · show (st.n + st.run) + 1 > limit; exact hov
        · rw [if_neg hov]
          have hc' : Coupled N { flush st with sl := sl', runChar := b, shift := 0, run := 1 }
              (moveToFront (b0 :: t) (s - 1)) :=
            ⟨e2, by show 2 ^ 0 ≤ 1 + 1; omega,
             by rw [Lemmas.MtfSpec.moveToFront_length]; exact hlen, hc.pos, hc.le,
             ⟨junk, e4⟩, by rw [hmtf]; rfl⟩
          rw [ih _ _ hc' hss (by show (st.n + st.run) + 1 ≤ limit; omega)]
          show Option.map _ (unGo (N + 1) limit (moveToFront (b0 :: t) (s - 1))
            ((st.n + st.run) + 1) (2 ^ 0) ss) = _
          rw [Option.map_map, Nat.pow_zero]
          congr 1
          funext r
          simp [Function.comp, flush, List.reverse_append]

/-! ### no undefined behaviour, writes stay below `tt_limit` -/

/-- The loop never shifts by ≥ 32, never makes `mtf_one` abort or leave its
pool, and every byte it writes lies below `limit`. -/
theorem consume_safe (limit : Nat) (hl : limit ≤ MAX_BLOCK_SIZE) :
    ∀ (syms : List Nat) (st : RunSt), (∀ s ∈ syms, validSym s) → Inv st.sl →
      2 ^ st.shift ≤ st.run + 1 → st.out.length = st.n → st.n ≤ limit →
      consume limit st syms ≠ .ub ∧
      ∀ out f, consume limit st syms = .ok out f → out.length ≤ limit := by
  intro syms
  induction syms with
  | nil =>
    intro st _ _ _ _ _
    exact ⟨by simp [consume], by intro out f h; simp [consume] at h⟩
  | cons s ss ih =>
    intro st hv hinv hpow hout hn
    have hvs := hv s (List.mem_cons_self ..)
    have hvss : ∀ x ∈ ss, validSym x := fun x hx => hv x (List.mem_cons_of_mem _ hx)
    have hM := max_block
    rw [consume]
    by_cases h0 : s = 0
    · simp only [h0, if_true]
      by_cases hgt : st.run > limit - st.n
      · simp only [hgt, if_true]
        exact ⟨by simp, by intro out f h; simp at h⟩
      · simp only [hgt, if_false]
        refine ⟨by simp, ?_⟩
        intro out f h
        simp only [Res.ok.injEq] at h
        rw [← h.1]
        simp only [flush, List.length_reverse, List.length_append, List.length_replicate, hout]
        omega
    · simp only [h0, if_false]
      by_cases hr : 256 ≤ s ∧ st.run ≤ MAX_BLOCK_SIZE
      · have hs : s = 257 ∨ s = 258 := by
          rcases hvs with h | h | h | h <;> omega
        obtain ⟨h19, _, hnw, _, hpow'⟩ := accum_step st.run st.shift s hs hpow hr.2
        have hsh : ¬ 32 ≤ st.shift := by omega
        simp only [hr, and_self, if_true, hsh, if_false, Nat.reducePow]
        apply ih _ hvss
        · exact hinv
        · dsimp only
          rw [hnw]; exact hpow'
        · exact hout
        · exact hn
      · simp only [hr, if_false]
        by_cases hgt : st.run > limit - st.n
        · simp only [hgt, if_true]
          exact ⟨by simp, by intro out f h; simp at h⟩
        · simp only [hgt, if_false]
          -- not a run symbol here: otherwise run > MAX_BLOCK_SIZE ≥ limit - n
          have hs256 : 1 ≤ s ∧ s < 256 := by
            rcases hvs with h | h | h | h
            · omega
            · exact h
            · exfalso; omega
            · exfalso; omega
          have hcn : (UInt8.ofNat s).toNat = s := by
            rw [UInt8.toNat_ofNat']; omega
          obtain ⟨b, sl', e1, e2, _, _⟩ := mtfOne_abs st.sl hinv (UInt8.ofNat s) (by omega)
          have hfl : (flush st).sl = st.sl := rfl
          rw [hfl, e1]
          dsimp only
          apply ih _ hvss
          · exact e2
          · show 2 ^ 0 ≤ 1 + 1; omega
          · show (List.replicate st.run st.runChar ++ st.out).length = st.n + st.run
            simp [hout]; omega
          · show st.n + st.run ≤ limit
            omega

/-! ### from the state `retrieve()` starts the loop in -/

theorem initRun_spec (sl : Slide) (hinv : Inv sl) :
    initRun sl = some ⟨sl, absAt sl 0, 0, 0, 0, [], List.replicate 256 0⟩ := by
  unfold initRun
  have h0 := hinv.hi 0 (by omega)
  rw [Lemmas.MtfSlide.row_get sl.row 0 (by rw [hinv.len]; omega)]
  dsimp only
  rw [Lemmas.MtfSlide.rd_eq sl.mem _ (by rw [hinv.size]; omega)]
  dsimp only
  rw [absAt_eq]
  simp only [Nat.zero_div, Nat.zero_mod, Nat.add_zero]

theorem consume_init (sl : Slide) (hinv : Inv sl) (used : List UInt8) (h1 : 1 ≤ used.length)
    (h256 : used.length ≤ 256) (habs : ∃ junk, abs sl = used ++ junk)
    (limit : Nat) (hl : limit ≤ MAX_BLOCK_SIZE) (syms : List Nat)
    (hsyms : ∀ s ∈ syms, s ≤ used.length + 1) :
    ∃ st0, initRun sl = some st0 ∧
      toOpt (consume limit st0 (syms.map (internalSym used.length))) =
        unMtfRle2 used syms limit := by
  refine ⟨_, initRun_spec sl hinv, ?_⟩
  obtain ⟨junk, hj⟩ := habs
  obtain ⟨b0, t, rfl⟩ : ∃ b0 t, used = b0 :: t := by
    cases used with
    | nil => simp at h1
    | cons a t => exact ⟨a, t, rfl⟩
  have hhead : absAt sl 0 = b0 := by
    have h := abs_getElem sl 0 (by rw [abs_length]; omega)
    rw [← h]
    simp [hj]
  have hc : Coupled (b0 :: t).length ⟨sl, absAt sl 0, 0, 0, 0, [], List.replicate 256 0⟩ (b0 :: t) :=
    ⟨hinv, by show 2 ^ 0 ≤ 0 + 1; omega, rfl, h1, h256, ⟨junk, hj⟩, by simp [hhead]⟩
  rw [consume_spec _ limit hl syms _ _ hc hsyms (by show 0 + 0 ≤ limit; omega)]
  unfold unMtfRle2
  show Option.map _ (unGo _ limit (b0 :: t) (0 + 0) (2 ^ 0) syms) = _
  simp

end LbzVerif.Lemmas.MtfRun
