/-
  Lemmas.RetrieveHeader — the whole block header of `Model.Retrieve` (rand
  bit, 24-bit index, bitmap, counts, selectors, tables — everything up to the
  top of the group loop), run under `NEED` with any suspensions, against the
  reference reading the same fields from the unread bits.
-/
import LbzVerif.Lemmas.RetrieveBitmap

set_option linter.unusedSimpArgs false

namespace LbzVerif.Lemmas.RetrieveHeader
open LbzVerif LbzVerif.Model.Retrieve
open LbzVerif.Lemmas.RetrieveBits LbzVerif.Lemmas.RetrieveValues LbzVerif.Lemmas.RetrieveSplit
open LbzVerif.Lemmas.RetrieveFast LbzVerif.Lemmas.RetrieveDelta LbzVerif.Lemmas.RetrieveTables
open LbzVerif.Lemmas.RetrieveSelectors LbzVerif.Lemmas.RetrieveBitmap

/-- From the 16-bit row mask on. -/
def specFromBig (B : List Bool) : Option Hdr :=
  match Basic.takeNat 16 B with
  | none => none
  | some (big0, B1) => specFromRows big0 [] (List.range' 0 16) B1

/-- The whole header as the reference reads it: rand bit, origPtr, then
`specFromBig`. -/
def specHeader (B : List Bool) : Option (Nat × Nat × Hdr) :=
  match Basic.takeNat 1 B with
  | none => none
  | some (r, B1) =>
    match Basic.takeNat 24 B1 with
    | none => none
    | some (idx, B2) =>
      match specFromBig B2 with
      | none => none
      | some h => some (r, idx, h)

/-- `need_ready` with the state after `NEED` as an atom. -/
theorem need_ready' (st : St) (ws : List Nat) (hn : normPc st = st) (inv : BufInv st.v st.w) :
    Suspended (toTop st ws) ∨
      ∃ st1 ws1, toTop st ws = toTop st1 ws1 ∧ 32 ≤ st1.w ∧ bitsOf st1 ws1 = bitsOf st ws ∧
        BufInv st1.v st1.w ∧ st1 = { st with v := st1.v, w := st1.w } := by
  cases need_ready st ws hn inv with
  | inl h => exact Or.inl h
  | inr h =>
    obtain ⟨v1, w1, ws1, e1, hw1, hb1, inv1, _⟩ := h
    exact Or.inr ⟨{ st with v := v1, w := w1 }, ws1, e1, hw1, hb1, inv1, rfl⟩

/-- From `NEED(S_BITMAP_BIG)`. -/
theorem bitmap_spec (c : St) (ws : List Nat) (hpc : c.pc = .bitmapBig) (inv : BufInv c.v c.w) :
    (∀ h, specFromBig (bitsOf c ws) = some h →
      (∃ s rest, toTop c ws = .top s rest ∧ HdrOk c s h ∧ bitsOf s rest = h.rest ∧
        BufInv s.v s.w) ∨ Suspended (toTop c ws)) ∧
    (specFromBig (bitsOf c ws) = none → Rejected (toTop c ws) ∨ Suspended (toTop c ws)) := by
  have hnorm : normPc c = c := by unfold normPc; rw [if_neg (by rw [hpc]; simp)]
  cases need_ready' c ws hnorm inv with
  | inl hsu => exact ⟨fun _ _ => Or.inr hsu, fun _ => Or.inr hsu⟩
  | inr hr =>
    obtain ⟨c1, ws1, e1, hw1, hb1, inv1, heq⟩ := hr
    have q_pc : c1.pc = .bitmapBig := by rw [heq]; exact hpc
    have q_mtf : c1.mtf = c.mtf := by rw [heq]
    have q_trees : c1.trees = c.trees := by rw [heq]
    have q_run : c1.run = c.run := by rw [heq]
    have q_rand : c1.rand = c.rand := by rw [heq]
    have q_bi : c1.bwtIdx = c.bwtIdx := by rw [heq]
    have ht16 := take_ok c1 16 (by omega) (by omega)
    obtain ⟨hv16, inv16⟩ := take_value _ _ 16 _ ws1 ht16 inv1
    rw [hb1] at hv16
    generalize hbg : peek c1 16 = big0 at ht16 hv16
    have hbglt : big0 < 65536 := by
      rw [← hbg]; exact peek_lt c1.v c1.w 16 inv1 (by omega)
    have hstep : step c1 =
        bitmapOuter 16 { c1 with v := dumpV c1.v 16, w := c1.w - 16, big := big0, small := 0, alphaSize := 0, j := 0, cmap := List.replicate 256 0 } := by
      have hs : step c1 = stepBitmapBig c1 := by unfold step; rw [q_pc]
      rw [hs]
      unfold stepBitmapBig
      rw [ht16]
    have e2 : toTop c ws = afterStep c1.w ws1 (bitmapOuter 16
        { c1 with v := dumpV c1.v 16, w := c1.w - 16, big := big0, small := 0, alphaSize := 0, j := 0, cmap := List.replicate 256 0 }) := by
      rw [e1, toTop_step' _ _ hw1, hstep]
    have hbm : BmInv big0 [] 0 ({ c1 with v := dumpV c1.v 16, w := c1.w - 16, big := big0, small := 0, alphaSize := 0, j := 0, cmap := List.replicate 256 0 } : St) :=
      ⟨rfl, by show big0 = (big0 <<< 0) % 65536; rw [Nat.shiftLeft_zero]; omega, rfl, List.length_replicate .., rfl, Nat.le_refl _⟩
    have hrows := bitmap_rows_spec 16 _ ws1 c1.w big0 0 [] (by omega) hbm rfl (by exact inv16)
      (by show 16 ≤ c1.w - 16; omega) (fun h => absurd rfl h) (by show c1.w - 16 ≤ c1.w; omega)
    have hbb : bitsOf ({ c1 with v := dumpV c1.v 16, w := c1.w - 16, big := big0, small := 0, alphaSize := 0, j := 0, cmap := List.replicate 256 0 } : St) ws1 =
        bitsOf ({ c1 with v := dumpV c1.v 16, w := c1.w - 16 } : St) ws1 := rfl
    rw [hbb] at hrows
    unfold specFromBig
    rw [hv16, e2]
    simp only
    obtain ⟨r1, r2⟩ := hrows
    refine ⟨fun h hh => ?_, r2⟩
    cases r1 h hh with
    | inr hsu => exact Or.inr hsu
    | inl hok =>
      obtain ⟨s, rest, e4, hk, hb4, inv4⟩ := hok
      exact Or.inl ⟨s, rest, e4, hdrOk_congr _ c s h hk q_mtf.symm q_trees.symm q_run.symm q_rand.symm q_bi.symm, hb4, inv4⟩

/-- **The whole header.**  From `NEED(S_BWT_IDX)` — the entry of a fresh call;
a resumption later in the header is covered by the lemmas this is built from —
with a legal buffer and any words: the machine arrives at the top of the group
loop iff the reference reads rand, origPtr, the bitmap (non-empty), `nGroups`
∈ 2…6, `nSelectors` ≠ 0, the selector codes (each below `nGroups`) and
`nGroups` delta-coded tables (every value in 1…20) from the unread bits; then
`rand`, `bwt_idx`, the bytes in use, the counts, the selector indices are the
reference's, `make_tree` has been applied to the reference's length lists, and
the unread bits are the reference's.  If the reference rejects, the machine
never gets past the header: error status or out of words. -/
theorem header_spec (c : St) (ws : List Nat) (hpc : c.pc = .bwtIdx) (inv : BufInv c.v c.w) :
    (∀ r idx h, specHeader (bitsOf c ws) = some (r, idx, h) →
      (∃ s rest, toTop c ws = .top s rest ∧ HdrOk { c with rand := r, bwtIdx := idx } s h ∧
        bitsOf s rest = h.rest ∧ BufInv s.v s.w) ∨ Suspended (toTop c ws)) ∧
    (specHeader (bitsOf c ws) = none → Rejected (toTop c ws) ∨ Suspended (toTop c ws)) := by
  have hnorm : normPc c = c := by unfold normPc; rw [if_neg (by rw [hpc]; simp)]
  cases need_ready' c ws hnorm inv with
  | inl hsu => exact ⟨fun _ _ _ _ => Or.inr hsu, fun _ => Or.inr hsu⟩
  | inr hr =>
    obtain ⟨c1, ws1, e1, hw1, hb1, inv1, heq⟩ := hr
    have q_pc : c1.pc = .bwtIdx := by rw [heq]; exact hpc
    have q_mtf : c1.mtf = c.mtf := by rw [heq]
    have q_trees : c1.trees = c.trees := by rw [heq]
    have q_run : c1.run = c.run := by rw [heq]
    have ht1 := take_ok c1 1 (by omega) (by omega)
    obtain ⟨hv1, inv1'⟩ := take_value _ _ 1 _ ws1 ht1 inv1
    rw [hb1] at hv1
    have ht24 := take_ok ({ c1 with v := dumpV c1.v 1, w := c1.w - 1 } : St) 24
      (by omega) (by show 24 ≤ c1.w - 1; omega)
    obtain ⟨hv24, inv24⟩ := take_value _ _ 24 _ ws1 ht24 (by exact inv1')
    generalize hr0 : peek c1 1 = r0 at ht1 hv1
    generalize hi0 : peek ({ c1 with v := dumpV c1.v 1, w := c1.w - 1 } : St) 24 = i0 at ht24 hv24
    have hstep : step c1 =
        .cont { c1 with v := dumpV (dumpV c1.v 1) 24, w := c1.w - 1 - 24, rand := r0, bwtIdx := i0, pc := .bitmapBig } := by
      have hs : step c1 = stepBwtIdx c1 := by unfold step; rw [q_pc]
      rw [hs]
      unfold stepBwtIdx
      rw [ht1]
      simp only
      rw [ht24]
    have e2 : toTop c ws = toTop
        { c1 with v := dumpV (dumpV c1.v 1) 24, w := c1.w - 1 - 24, rand := r0, bwtIdx := i0, pc := .bitmapBig } ws1 := by
      rw [e1, toTop_step' _ _ hw1, hstep]
      simp only [afterStep]
      rw [if_pos (by show c1.w - 1 - 24 < c1.w; omega)]
    have hbs := bitmap_spec
      { c1 with v := dumpV (dumpV c1.v 1) 24, w := c1.w - 1 - 24, rand := r0, bwtIdx := i0, pc := .bitmapBig } ws1 rfl
      (by exact inv24)
    have hbb : bitsOf ({ c1 with v := dumpV (dumpV c1.v 1) 24, w := c1.w - 1 - 24, rand := r0, bwtIdx := i0, pc := .bitmapBig } : St) ws1 =
        bitsOf ({ ({ c1 with v := dumpV c1.v 1, w := c1.w - 1 } : St) with v := dumpV (dumpV c1.v 1) 24, w := c1.w - 1 - 24 } : St) ws1 := rfl
    rw [hbb] at hbs
    unfold specHeader
    rw [hv1]
    simp only
    rw [hv24, e2]
    simp only
    obtain ⟨b1, b2⟩ := hbs
    constructor
    · intro r idx h hh
      cases hsb : specFromBig (bitsOf ({ ({ c1 with v := dumpV c1.v 1, w := c1.w - 1 } : St) with v := dumpV (dumpV c1.v 1) 24, w := c1.w - 1 - 24 } : St) ws1) with
      | none => rw [hsb] at hh; cases hh
      | some h' =>
        rw [hsb] at hh
        simp only [Option.some.injEq, Prod.mk.injEq] at hh
        obtain ⟨h1, h2, h3⟩ := hh
        subst h1; subst h2; subst h3
        cases b1 h' hsb with
        | inr hsu => exact Or.inr hsu
        | inl hok =>
          obtain ⟨s, rest, e4, hk, hb4, inv4⟩ := hok
          exact Or.inl ⟨s, rest, e4, hdrOk_congr _ { c with rand := r0, bwtIdx := i0 } s h' hk
            q_mtf.symm q_trees.symm q_run.symm rfl rfl, hb4, inv4⟩
    · intro hh
      cases hsb : specFromBig (bitsOf ({ ({ c1 with v := dumpV c1.v 1, w := c1.w - 1 } : St) with v := dumpV (dumpV c1.v 1) 24, w := c1.w - 1 - 24 } : St) ws1) with
      | some h' => rw [hsb] at hh; cases hh
      | none => exact b2 hsb

end LbzVerif.Lemmas.RetrieveHeader
