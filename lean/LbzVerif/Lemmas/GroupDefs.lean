/-
  Lemmas.GroupDefs — the GROUP PHASE of `retrieve()` written over bit LISTS,
  interleaved exactly as the machine interleaves it (decode one symbol with the
  reference decoder `Spec.Bzip2.decodeSym`, act on it with `symStep`), without
  bit buffer, words, `NEED`, suspension (W17).

  `Lemmas/GroupMachine.lean` shows that the slow branch of `Model.Retrieve`
  computes `groupsRef`; `Lemmas/GroupPure.lean` shows that `groupsRef` is
  `Spec.Bzip2.decodeGroups` followed by the symbol loop.
-/
import LbzVerif.Model.Retrieve
import LbzVerif.Spec.Bzip2
import LbzVerif.Spec.Prefix
import LbzVerif.Lemmas.RetrieveTables

namespace LbzVerif.Lemmas.GroupDefs
open LbzVerif LbzVerif.Model.Retrieve
open LbzVerif.Model.MtfDec (RunSt)
open LbzVerif.Lemmas.RetrieveTables (treeCode)

/-- How one group ends. -/
inductive GOut
  | top (rs : RunSt) (B : List Bool)     -- 50 symbols, no EOB
  | eob (rs : RunSt) (B : List Bool)     -- EOB decoded (`rs` = state before `eobFinish`)
  | stop (r : Halt)                      -- a symbol action ended the call
  | trunc                                -- the bits ran out

/-- One group of at most `k` symbols coded with the (complete) table `lens`. -/
def groupRef (lens : List Nat) : Nat → RunSt → List Bool → GOut
  | 0, rs, B => .top rs B
  | k + 1, rs, B =>
    match Spec.Bzip2.decodeSym (Spec.Bzip2.mkCode lens) 0 B with
    | .error _ => .trunc
    | .ok (i, _, B') =>
      match symStep rs (Model.Canon.renumber lens.length i) with
      | .eob => .eob rs B'
      | .stop r => .stop r
      | .cont rs' => groupRef lens k rs' B'

/-- How the group loop ends. -/
inductive GsOut
  | ok (rs : RunSt) (B : List Bool)      -- EOB reached
  | stop (r : Halt)
  | trunc

/-- The group loop: `js` the selector MTF indices still to use, `M` the MTF list
of table numbers, `tabs` the length lists of the tables. -/
def groupsRef (tabs : List (List Nat)) : List Nat → List Nat → RunSt → List Bool → GsOut
  | [], _, _, _ => .stop (.err Gen.ERR_UNTERM)
  | j :: js, M, rs, B =>
    match Spec.Bzip2.moveToFront M j with
    | none => .stop .ub
    | some (t, M') =>
      if Spec.Prefix.Complete (tabs.getD t []) then
        match groupRef (tabs.getD t []) Gen.GROUP_SIZE rs B with
        | .top rs' B' => groupsRef tabs js M' rs' B'
        | .eob rs' B' => .ok rs' B'
        | .stop r => .stop r
        | .trunc => .trunc
      else .stop (.err (treeCode t (tabs.getD t [])))

/-- All symbol actions continue. -/
def symFold : RunSt → List Nat → Option RunSt
  | rs, [] => some rs
  | rs, s :: ss =>
    match symStep rs s with
    | .cont rs' => symFold rs' ss
    | _ => none

/-- Undo the MTF coding of selectors, on lists (`Spec.Bzip2.unMtfSelectors`
without its accumulator). -/
def unmtfL : List Nat → List Nat → Option (List Nat)
  | _, [] => some []
  | M, j :: js =>
    match Spec.Bzip2.moveToFront M j with
    | none => none
    | some (t, M') =>
      match unmtfL M' js with
      | none => none
      | some ts => some (t :: ts)

end LbzVerif.Lemmas.GroupDefs
