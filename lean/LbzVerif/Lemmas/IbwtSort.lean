/-
  Lemmas.IbwtSort — the successor vector of the textbook inverse BWT
  (`Spec.Ibwt.succVec`, a stable insertion sort of the positions by byte value)
  realises the rank function `pos` of Lemmas/Ibwt.lean:

      q < n  →  pos L (succVec L)[q] = q          (`pos_succVec`)

  hence `pos L` is onto `[0,n)` (`pos_surj`), any vector `T` with
  `T[pos L i] = i` agrees with `succVec L` on `[0,n)` (`eq_succVec_of_pos`),
  and the traversal `emit()` performs on a non-randomised block is
  `Spec.Ibwt.ibwt` (`nodes_false_eq_ibwt`).

  Route: insertion sort is a permutation; on a list of increasing indices it
  yields a list that is strictly increasing for the (byte, index) order `ltB`;
  in a strictly increasing list the index of an element is the number of
  smaller elements; that number, counted over `range n`, is `pos L i`.
-/
import LbzVerif.Lemmas.Ibwt

namespace LbzVerif.Lemmas.IbwtSort

open LbzVerif
open LbzVerif.Model.Ibwt
open LbzVerif.Lemmas.Ibwt
open LbzVerif.Spec.Ibwt (insertBy isort succVec follow)

/-- The comparison `succVec` sorts by. -/
def leB (L : List UInt8) (i j : Nat) : Bool := decide (L.getD i 0 ≤ L.getD j 0)

/-- Strict (byte, index) order. -/
def ltB (L : List UInt8) (i j : Nat) : Bool :=
  decide (byteAt L i < byteAt L j) || (decide (byteAt L i = byteAt L j) && decide (i < j))

theorem leB_iff (L : List UInt8) (i j : Nat) : leB L i j = true ↔ byteAt L i ≤ byteAt L j := by
  simp [leB, byteAt, UInt8.le_iff_toNat_le]

theorem ltB_iff (L : List UInt8) (i j : Nat) :
    ltB L i j = true ↔ (byteAt L i < byteAt L j ∨ (byteAt L i = byteAt L j ∧ i < j)) := by
  simp [ltB]

theorem ltB_irrefl (L : List UInt8) (i : Nat) : ltB L i i = false := by
  simp [ltB]

theorem ltB_asymm (L : List UInt8) (i j : Nat) (h : ltB L i j = true) : ltB L j i = false := by
  rw [ltB_iff] at h
  cases hb : ltB L j i with
  | false => rfl
  | true => rw [ltB_iff] at hb; omega

theorem succVec_eq (L : List UInt8) : succVec L = isort (leB L) (List.range L.length) := rfl

/-! ### Insertion sort is a permutation -/

theorem insertBy_perm {α : Type} (le : α → α → Bool) (x : α) :
    ∀ l : List α, (insertBy le x l).Perm (x :: l) := by
  intro l
  induction l with
  | nil => exact List.Perm.refl _
  | cons y ys ih =>
    simp only [insertBy]
    split
    · exact List.Perm.refl _
    · exact ((List.Perm.cons y ih).trans (List.Perm.swap x y ys))

theorem isort_perm {α : Type} (le : α → α → Bool) : ∀ l : List α, (isort le l).Perm l := by
  intro l
  induction l with
  | nil => exact List.Perm.refl _
  | cons x xs ih =>
    simp only [isort]
    exact (insertBy_perm le x _).trans (List.Perm.cons x ih)

/-! ### … and sorts stably -/

theorem insertBy_pairwise (L : List UInt8) (x : Nat) :
    ∀ S : List Nat, S.Pairwise (fun a b => ltB L a b = true) → (∀ y ∈ S, x < y) →
      (insertBy (leB L) x S).Pairwise (fun a b => ltB L a b = true) := by
  intro S
  induction S with
  | nil => intro _ _; simp [insertBy]
  | cons y ys ih =>
    intro hS hx
    rw [List.pairwise_cons] at hS
    obtain ⟨hy, hys⟩ := hS
    have hxy : x < y := hx y (by simp)
    simp only [insertBy]
    split
    · rename_i hle
      rw [leB_iff] at hle
      rw [List.pairwise_cons]
      refine ⟨?_, List.pairwise_cons.mpr ⟨hy, hys⟩⟩
      intro z hz
      rw [ltB_iff]
      rcases List.mem_cons.mp hz with rfl | hz'
      · omega
      · have h1 := hy z hz'
        rw [ltB_iff] at h1
        have h2 : x < z := hx z (by simp [hz'])
        omega
    · rename_i hle
      have hlt : byteAt L y < byteAt L x := by
        have : ¬ byteAt L x ≤ byteAt L y := fun h => hle ((leB_iff L x y).mpr h)
        omega
      rw [List.pairwise_cons]
      refine ⟨?_, ih hys (fun z hz => hx z (by simp [hz]))⟩
      intro z hz
      have hz' := (insertBy_perm (leB L) x ys).mem_iff.mp hz
      rcases List.mem_cons.mp hz' with rfl | hz''
      · rw [ltB_iff]; omega
      · exact hy z hz''

theorem isort_pairwise (L : List UInt8) :
    ∀ l : List Nat, l.Pairwise (· < ·) →
      (isort (leB L) l).Pairwise (fun a b => ltB L a b = true) := by
  intro l
  induction l with
  | nil => intro _; simp [isort]
  | cons x xs ih =>
    intro h
    rw [List.pairwise_cons] at h
    simp only [isort]
    refine insertBy_pairwise L x _ (ih h.2) ?_
    intro y hy
    exact h.1 y ((isort_perm (leB L) xs).mem_iff.mp hy)

/-! ### Index in a strictly increasing list = number of smaller elements -/

theorem countP_lt_of_pairwise (L : List UInt8) :
    ∀ (S : List Nat), S.Pairwise (fun a b => ltB L a b = true) →
      ∀ (q x : Nat), S[q]? = some x → S.countP (fun y => ltB L y x) = q := by
  intro S
  induction S with
  | nil => intro _ q x h; simp at h
  | cons y ys ih =>
    intro hS q x hq
    rw [List.pairwise_cons] at hS
    obtain ⟨hy, hys⟩ := hS
    cases q with
    | zero =>
      simp only [List.getElem?_cons_zero, Option.some.injEq] at hq
      subst hq
      rw [List.countP_cons, ltB_irrefl]
      have : ys.countP (fun z => ltB L z y) = 0 := by
        rw [List.countP_eq_zero]
        intro z hz
        simp [ltB_asymm L y z (hy z hz)]
      simp [this]
    | succ q =>
      simp only [List.getElem?_cons_succ] at hq
      have hx : x ∈ ys := List.mem_of_getElem? hq
      rw [List.countP_cons, ih hys q x hq, hy x hx]
      simp

/-! ### Number of smaller indices = `pos` -/

theorem cntLt_take_succ (L : List UInt8) (k : Nat) (h : k < L.length) (b : Nat) :
    cntLt (L.take (k + 1)) b = cntLt (L.take k) b + (if byteAt L k < b then 1 else 0) := by
  rw [take_succ_getD L k h]
  simp [cntLt, List.countP_append, List.countP_cons, byteAt]

theorem countP_range_ltB (L : List UInt8) (i : Nat) : ∀ m, m ≤ L.length →
    (List.range m).countP (fun y => ltB L y i) =
      cntLt (L.take m) (byteAt L i) + cntEq (L.take (min m i)) (byteAt L i) := by
  intro m
  induction m with
  | zero => intro _; simp [cntLt, cntEq]
  | succ m ih =>
    intro hm
    have hm' : m < L.length := by omega
    rw [List.range_succ, List.countP_append, ih (by omega), cntLt_take_succ L m hm']
    simp only [List.countP_cons, List.countP_nil, Nat.zero_add]
    by_cases hmi : m < i
    · have e1 : min (m + 1) i = m + 1 := by omega
      have e2 : min m i = m := by omega
      rw [e1, e2, cntEq_take_succ L m hm']
      by_cases h1 : byteAt L m < byteAt L i
      · have h2 : ¬ byteAt L m = byteAt L i := by omega
        simp [ltB, h1, h2]; omega
      · by_cases h2 : byteAt L m = byteAt L i
        · simp [ltB, h2, hmi]; omega
        · simp [ltB, h1, h2]
    · have e1 : min (m + 1) i = i := by omega
      have e2 : min m i = i := by omega
      rw [e1, e2]
      by_cases h1 : byteAt L m < byteAt L i
      · simp [ltB, h1]; omega
      · simp [ltB, h1, hmi]

theorem countP_range_pos (L : List UInt8) (i : Nat) (hi : i < L.length) :
    (List.range L.length).countP (fun y => ltB L y i) = pos L i := by
  rw [countP_range_ltB L i L.length (Nat.le_refl _), List.take_length,
    Nat.min_eq_right (by omega)]
  rfl

/-! ### The successor vector -/

theorem succVec_perm (L : List UInt8) : (succVec L).Perm (List.range L.length) :=
  isort_perm _ _

theorem succVec_length (L : List UInt8) : (succVec L).length = L.length := by
  rw [(succVec_perm L).length_eq, List.length_range]

theorem succVec_getD_lt (L : List UInt8) (q : Nat) (hq : q < L.length) :
    (succVec L).getD q 0 < L.length := by
  have hq' : q < (succVec L).length := by rw [succVec_length]; exact hq
  have hm : (succVec L)[q] ∈ succVec L := List.getElem_mem hq'
  have := (succVec_perm L).mem_iff.mp hm
  simp only [List.getD_eq_getElem?_getD, List.getElem?_eq_getElem hq', Option.getD_some]
  simpa using this

/-- The element of rank `q` in the stable sort has `pos = q`. -/
theorem pos_succVec (L : List UInt8) (q : Nat) (hq : q < L.length) :
    pos L ((succVec L).getD q 0) = q := by
  have hq' : q < (succVec L).length := by rw [succVec_length]; exact hq
  have hlt := succVec_getD_lt L q hq
  have hget : (succVec L)[q]? = some ((succVec L).getD q 0) := by
    simp [List.getD_eq_getElem?_getD, List.getElem?_eq_getElem hq']
  have hpw : (succVec L).Pairwise (fun a b => ltB L a b = true) :=
    isort_pairwise L _ List.pairwise_lt_range
  have h1 := countP_lt_of_pairwise L _ hpw q _ hget
  rw [(succVec_perm L).countP_eq, countP_range_pos L _ hlt] at h1
  exact h1

/-- `pos L` is onto `[0, n)`. -/
theorem pos_surj (L : List UInt8) (q : Nat) (hq : q < L.length) :
    ∃ i, i < L.length ∧ pos L i = q :=
  ⟨_, succVec_getD_lt L q hq, pos_succVec L q hq⟩

/-- `succVec L` at slot `pos L i` is `i`. -/
theorem succVec_pos (L : List UInt8) (i : Nat) (hi : i < L.length) :
    (succVec L).getD (pos L i) 0 = i := by
  have hp := pos_lt L i hi
  exact pos_inj L _ i (succVec_getD_lt L _ hp) hi (pos_succVec L _ hp)

/-- Any vector with `T[pos L i] = i` is the successor vector on `[0, n)`. -/
theorem eq_succVec_of_pos (L : List UInt8) (T : List Nat)
    (hT : ∀ i, i < L.length → T.getD (pos L i) 0 = i) (q : Nat) (hq : q < L.length) :
    T.getD q 0 = (succVec L).getD q 0 := by
  have := hT _ (succVec_getD_lt L q hq)
  rw [pos_succVec L q hq] at this
  exact this

/-! ### Traversals -/

theorem follow_congr (L : List UInt8) (T T' : List Nat) (n : Nat)
    (hT : ∀ q, q < n → T.getD q 0 = T'.getD q 0) (hr : ∀ q, q < n → T'.getD q 0 < n) :
    ∀ (m q : Nat), q < n → follow L T m q = follow L T' m q := by
  intro m
  induction m with
  | zero => intro q _; rfl
  | succ m ih =>
    intro q hq
    simp only [follow]
    rw [hT q hq, ih _ (hr q hq)]

/-- **Non-randomised path**: what `emit()` reads after `decode()` is the
textbook inverse BWT of `(L, idx)`. -/
theorem nodes_false_eq_ibwt (L : List UInt8) (idx : Nat) (hidx : idx < L.length) :
    nodes false idx L = Spec.Ibwt.ibwt L idx := by
  obtain ⟨T, _, hT, hn⟩ := nodes_eq_follow L idx hidx
  rw [hn]
  exact follow_congr L T (succVec L) L.length (eq_succVec_of_pos L T hT)
    (succVec_getD_lt L) L.length idx hidx

end LbzVerif.Lemmas.IbwtSort
