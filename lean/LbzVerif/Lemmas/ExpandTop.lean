/-
  Lemmas.ExpandTop — the top of the two file-level functions: `expandFile` is
  the header test followed by `expandRest` (`expandFile_eq`), `walkFile` is the
  same test followed by `decodeStreams` (`walkFile_header`, `walkFile_noheader`).
  (Statements about `bytesToBits (b0 :: …)` are proved through lemmas over an
  abstract list: letting `whnf` unfold the array-based `bytesToBits` on a
  literal cons is hopeless.)
-/
import LbzVerif.Lemmas.ExpandStep
import LbzVerif.Lemmas.Copy
import LbzVerif.Lemmas.SpecBasic

namespace LbzVerif.Lemmas.ExpandTop
open LbzVerif LbzVerif.Basic LbzVerif.Spec.Bzip2


open LbzVerif.Model.Expand in
theorem expandFile_eq (x : List UInt8) :
    expandFile x =
      if Lemmas.Copy.hasHeader x then expandRest (Lemmas.Copy.headerLevel x) (x.drop 4)
      else .error .notBzip2 := by
  have h1 := Lemmas.Copy.sniff_decision x [] false false
  have h2 : (Model.Copy.sniff x [] false false).2.1 = x.drop 4 :=
    (Lemmas.Copy.xread_spec x Model.Copy.sniffLen []).2.1
  unfold expandFile
  generalize Model.Copy.sniff x [] false false = r at h1 h2
  obtain ⟨d, rest, fr⟩ := r
  simp only at h1 h2
  subst h2
  by_cases hh : Lemmas.Copy.hasHeader x = true
  · rw [if_pos hh] at h1
    rw [if_pos hh, h1]
  · rw [if_neg hh] at h1
    simp only [Bool.false_and, Bool.false_eq_true, if_false] at h1
    rw [if_neg hh, h1]

theorem bitsToNat_byte (b : UInt8) : bitsToNat (byteToBits b) = b.toNat := bitsToNat_byteToBits b

/-- The first 32 bits of a file of at least four bytes. -/
theorem takeNat32_bytes (b0 b1 b2 b3 : UInt8) (rest : List UInt8) :
    takeNat 32 (bytesToBits (b0 :: b1 :: b2 :: b3 :: rest)) =
      some (b0.toNat * 2 ^ 24 + b1.toNat * 2 ^ 16 + b2.toNat * 2 ^ 8 + b3.toNat, bytesToBits rest) := by
  rw [bytesToBits_cons, bytesToBits_cons, bytesToBits_cons, bytesToBits_cons]
  generalize hA0 : byteToBits b0 = A0
  generalize hA1 : byteToBits b1 = A1
  generalize hA2 : byteToBits b2 = A2
  generalize hA3 : byteToBits b3 = A3
  generalize bytesToBits rest = T
  have l0 : A0.length = 8 := by rw [← hA0]; exact byteToBits_length b0
  have l1 : A1.length = 8 := by rw [← hA1]; exact byteToBits_length b1
  have l2 : A2.length = 8 := by rw [← hA2]; exact byteToBits_length b2
  have l3 : A3.length = 8 := by rw [← hA3]; exact byteToBits_length b3
  have v0 : bitsToNat A0 = b0.toNat := by rw [← hA0]; exact bitsToNat_byte b0
  have v1 : bitsToNat A1 = b1.toNat := by rw [← hA1]; exact bitsToNat_byte b1
  have v2 : bitsToNat A2 = b2.toNat := by rw [← hA2]; exact bitsToNat_byte b2
  have v3 : bitsToNat A3 = b3.toNat := by rw [← hA3]; exact bitsToNat_byte b3
  have e : A0 ++ (A1 ++ (A2 ++ (A3 ++ T))) = (A0 ++ (A1 ++ (A2 ++ A3))) ++ T := by
    simp only [List.append_assoc]
  rw [e]
  have hl : (A0 ++ (A1 ++ (A2 ++ A3))).length = 32 := by
    simp only [List.length_append, l0, l1, l2, l3]
  have := takeNat_append (A0 ++ (A1 ++ (A2 ++ A3))) T
  rw [hl] at this
  rw [this]
  congr 2
  rw [Lemmas.ExpandStep.bitsToNat_append, Lemmas.ExpandStep.bitsToNat_append,
    Lemmas.ExpandStep.bitsToNat_append]
  simp only [List.length_append, l1, l2, l3, v0, v1, v2, v3]
  have e24 : (2:Nat) ^ (8 + (8 + 8)) = 16777216 := by decide
  have e16 : (2:Nat) ^ (8 + 8) = 65536 := by decide
  have e8 : (2:Nat) ^ 8 = 256 := by decide
  rw [e24, e16, e8]
  omega

theorem walkFile_unfold (strict : Bool) (data : List UInt8) : walkFile strict data =
  if data.isEmpty then .error .empty
  else
    match takeNat 32 (bytesToBits data) with
    | none => .error .badMagic
    | some (w, bits) =>
      match headerLevel w with
      | none => .error .badMagic
      | some level => decodeStreams strict (data.length + 1) (data.length + 1) level 0 bits {} := by
  unfold walkFile
  rfl

theorem walkFile_of_take (x : List UInt8) (w : Nat) (bits : Bits) (level : Nat)
    (hne : x.isEmpty = false) (h32 : takeNat 32 (bytesToBits x) = some (w, bits))
    (hl : headerLevel w = some level) :
    walkFile false x = decodeStreams false (x.length + 1) (x.length + 1) level 0 bits {} := by
  rw [walkFile_unfold, hne]
  simp only [Bool.false_eq_true, if_false, h32, hl]

theorem walkFile_of_none (x : List UInt8) (h32 : takeNat 32 (bytesToBits x) = none) :
    ∃ e, walkFile false x = .error e := by
  rw [walkFile_unfold]
  by_cases he : x.isEmpty = true
  · rw [if_pos he]; exact ⟨_, rfl⟩
  · rw [if_neg he]
    simp only [h32]
    exact ⟨_, rfl⟩

theorem walkFile_of_nolevel (x : List UInt8) (w : Nat) (bits : Bits)
    (h32 : takeNat 32 (bytesToBits x) = some (w, bits)) (hl : headerLevel w = none) :
    ∃ e, walkFile false x = .error e := by
  rw [walkFile_unfold]
  by_cases he : x.isEmpty = true
  · rw [if_pos he]; exact ⟨_, rfl⟩
  · rw [if_neg he]
    simp only [h32, hl]
    exact ⟨_, rfl⟩

theorem walkFile_header (x : List UInt8) (h : Lemmas.Copy.hasHeader x = true) :
    walkFile false x =
      decodeStreams false (x.length + 1) (x.length + 1) (Lemmas.Copy.headerLevel x) 0
        (bytesToBits (x.drop 4)) {} := by
  match x, h with
  | b0 :: b1 :: b2 :: b3 :: rest, h =>
    simp only [Lemmas.Copy.hasHeader, Bool.and_eq_true, beq_iff_eq, Nat.ble_eq] at h
    obtain ⟨⟨⟨h0, h1⟩, h2⟩, h3, h4⟩ := h
    have hw : headerLevel (b0.toNat * 2 ^ 24 + b1.toNat * 2 ^ 16 + b2.toNat * 2 ^ 8 + b3.toNat) =
        some (b3.toNat - 0x30) := by
      rw [headerLevel_some_iff]
      omega
    exact walkFile_of_take _ _ _ _ rfl (takeNat32_bytes b0 b1 b2 b3 rest) hw

theorem walkFile_noheader (x : List UInt8) (h : Lemmas.Copy.hasHeader x = false) :
    ∃ e, walkFile false x = .error e := by
  by_cases hlen : x.length < 4
  · exact walkFile_of_none x ((takeNat_none_iff_short 32 _).mpr (by rw [bytesToBits_length]; omega))
  · match x, h, hlen with
    | b0 :: b1 :: b2 :: b3 :: rest, h, _ =>
      refine walkFile_of_nolevel _ _ _ (takeNat32_bytes b0 b1 b2 b3 rest) ?_
      cases hl : headerLevel (b0.toNat * 2 ^ 24 + b1.toNat * 2 ^ 16 + b2.toNat * 2 ^ 8 + b3.toNat) with
      | none => rfl
      | some level =>
        exfalso
        rw [headerLevel_some_iff] at hl
        have q0 := b0.toNat_lt
        have q1 := b1.toNat_lt
        have q2 := b2.toNat_lt
        have q3 := b3.toNat_lt
        have : Lemmas.Copy.hasHeader (b0 :: b1 :: b2 :: b3 :: rest) = true := by
          simp only [Lemmas.Copy.hasHeader, Bool.and_eq_true, beq_iff_eq, Nat.ble_eq]
          omega
        rw [this] at h
        cases h
    | [], _, hlen => simp at hlen
    | [_], _, hlen => simp at hlen
    | [_, _], _, hlen => simp at hlen
    | [_, _, _], _, hlen => simp at hlen

end LbzVerif.Lemmas.ExpandTop
