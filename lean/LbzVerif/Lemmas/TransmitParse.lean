/-
  Lemmas.TransmitParse — the reference parser's readers applied to what
  `transmit()` wrote: selectors (unary MTF values) and code-length tables
  (5-bit start value, delta coding, the `tree_pad` detour on the first table).
-/
import LbzVerif.Lemmas.TransmitBits
import LbzVerif.Lemmas.TransmitSelMtf

namespace LbzVerif.Lemmas.TransmitParse
open LbzVerif LbzVerif.Basic LbzVerif.Model.Canon LbzVerif.Model.Transmit
open LbzVerif.Lemmas.TransmitLen LbzVerif.Lemmas.TransmitBits LbzVerif.Lemmas.TransmitSelMtf
open LbzVerif.Spec.Bzip2

/-! ### unary selector values -/

theorem bitsToNat_unary (j : Nat) :
    bitsToNat (List.replicate j true ++ [false]) = 2 ^ (j + 1) - 2 := by
  induction j with
  | zero => decide
  | succ j ih =>
    rw [List.replicate_succ, List.cons_append, bitsToNat_cons, ih]
    have h2 : 2 ≤ 2 ^ (j + 1) := by
      have := Nat.pow_le_pow_right (n := 2) (by omega : 0 < 2) (by omega : 1 ≤ j + 1)
      simpa using this
    have hl : (List.replicate j true ++ [false]).length = j + 1 := by simp
    have hb : bit true = 1 := rfl
    rw [hl, hb, Nat.pow_succ 2 (j + 1)]
    generalize 2 ^ (j + 1) = p at h2 ⊢
    omega

/-- `SEND(v, (1 << v) - 2)` with `v = 1 + j`: `j` one bits and a zero bit. -/
theorem send_unary (j : Nat) :
    send (1 + j) ((1 <<< (1 + j)) - 2) = List.replicate j true ++ [false] := by
  have h := natToBits_bitsToNat (List.replicate j true ++ [false])
  rw [bitsToNat_unary] at h
  simp only [List.length_append, List.length_replicate, List.length_cons, List.length_nil] at h
  unfold send
  rw [Nat.one_shiftLeft, Nat.add_comm 1 j]
  exact h

theorem readUnary_ones (n k m : Nat) (rest : Bits) (h : k + m < n) :
    readUnary n k (List.replicate m true ++ false :: rest) = .ok (k + m, rest) := by
  induction m generalizing k with
  | zero => simp [readUnary]
  | succ m ih =>
    rw [List.replicate_succ, List.cons_append, readUnary, if_pos (by omega), ih (k + 1) (by omega)]
    congr 2; omega

/-- One unary code per selector MTF value. -/
def unaryBits (js : List Nat) : Bits :=
  js.flatMap (fun j => send (1 + j) ((1 <<< (1 + j)) - 2))

theorem readSelectorMtf_unary (n : Nat) (js : List Nat) (hj : ∀ j ∈ js, j < n) (pos : Nat)
    (rest : Bits) (acc : Array Nat) :
    readSelectorMtf n js.length pos (unaryBits js ++ rest) acc =
      .ok (acc ++ js.toArray, pos + (js.map (· + 1)).sum, rest) := by
  induction js generalizing pos acc with
  | nil => simp [readSelectorMtf, unaryBits]
  | cons j js ih =>
    have h0 := hj j (List.mem_cons_self ..)
    have e : unaryBits (j :: js) ++ rest =
        List.replicate j true ++ false :: (unaryBits js ++ rest) := by
      simp only [unaryBits, List.flatMap_cons, send_unary j, List.append_assoc,
        List.cons_append, List.nil_append]
    rw [List.length_cons, readSelectorMtf, e, readUnary_ones n 0 j _ (by omega)]
    simp only [Nat.zero_add]
    rw [ih (fun x hx => hj x (List.mem_cons_of_mem _ hx)) (pos + j + 1) (acc.push j)]
    simp only [List.map_cons, List.sum_cons]
    congr 2
    · apply Array.toList_inj.mp; simp
    · congr 1; omega

theorem flatMap_range_getD {α β : Type} (l : List α) (d : α) (f : α → List β) :
    (List.range l.length).flatMap (fun i => f (l.getD i d)) = l.flatMap f := by
  rw [List.flatMap_def, List.flatMap_def, map_range_getD]

theorem selectorBits_eq (b : EncBlock) (h : b.selectorMtf.length = b.numSelectors) :
    selectorBits b = unaryBits b.selectorMtf := by
  unfold selectorBits unaryBits
  rw [← h]
  exact flatMap_range_getD b.selectorMtf 0 (fun j => send (1 + j) ((1 <<< (1 + j)) - 2))

/-! ### undoing the selector MTF, with trailing dummy zeros -/

theorem mtfEnc_lt (l : List Nat) (cs : List Nat) (h : ∀ c ∈ cs, c ∈ l) :
    ∀ j ∈ mtfEnc l cs, j < l.length := by
  induction cs generalizing l with
  | nil => intro j hj; simp [mtfEnc] at hj
  | cons c cs ih =>
    have hc := h c (List.mem_cons_self ..)
    have hlt : l.idxOf c < l.length := List.idxOf_lt_length_iff.mpr hc
    intro j hj
    simp only [mtfEnc, List.mem_cons] at hj
    rcases hj with rfl | hj
    · exact hlt
    · have := ih (mtfNext l c) (fun x hx => mem_mtfNext hc (h x (List.mem_cons_of_mem _ hx))) j hj
      have hl : (mtfNext l c).length = l.length := by
        simp only [mtfNext, List.length_cons, List.length_eraseIdx, if_pos hlt]
        omega
      omega

/-- `unMtfSelectors` on the coded selectors followed by `d` zeros: the zeros
    repeat the last selector. -/
theorem unMtf_mtfEnc_zeros (l : List Nat) (cs : List Nat) (h : ∀ c ∈ cs, c ∈ l) (d : Nat)
    (x : Nat) (hx : cs.getLast? = some x ∨ (cs = [] ∧ l.head? = some x)) (acc : Array Nat) :
    unMtfSelectors l (mtfEnc l cs ++ List.replicate d 0) acc =
      some (acc ++ (cs ++ List.replicate d x).toArray) := by
  induction cs generalizing l acc with
  | nil =>
    have hh : l.head? = some x := by
      rcases hx with hx | hx
      · simp at hx
      · exact hx.2
    match l, hh with
    | y :: t, hh =>
      simp only [List.head?_cons, Option.some.injEq] at hh
      subst hh
      simp only [mtfEnc, List.nil_append]
      induction d generalizing acc with
      | zero => simp [unMtfSelectors]
      | succ d ihd =>
        simp only [List.replicate_succ, unMtfSelectors, moveToFront, List.getElem?_cons_zero,
          List.eraseIdx_cons_zero]
        rw [ihd]
        congr 1
        apply Array.toList_inj.mp
        simp
  | cons c cs ih =>
    have hc := h c (List.mem_cons_self ..)
    have hlt : l.idxOf c < l.length := List.idxOf_lt_length_iff.mpr hc
    have hg : l[l.idxOf c]? = some c := by
      rw [List.getElem?_eq_getElem hlt, List.getElem_idxOf hlt]
    have hx' : cs.getLast? = some x ∨ (cs = [] ∧ (mtfNext l c).head? = some x) := by
      cases cs with
      | nil =>
        right
        rcases hx with hx | hx
        · simp at hx; subst hx; simp [mtfNext]
        · simp at hx
      | cons c2 cs2 =>
        left
        rcases hx with hx | hx
        · simpa [List.getLast?_cons_cons] using hx
        · simp at hx
    have := ih (mtfNext l c)
      (fun y hy => mem_mtfNext hc (h y (List.mem_cons_of_mem _ hy))) hx' (acc.push c)
    simp only [mtfEnc, List.cons_append, unMtfSelectors, moveToFront, hg]
    simp only [mtfNext] at this ⊢
    rw [this]
    simp

/-! ### delta-coded lengths -/

theorem send22 : send 2 2 = [true, false] := by decide
theorem send23 : send 2 3 = [true, true] := by decide
theorem send10 : send 1 0 = [false] := by decide

theorem readLen_up (a m pos : Nat) (X : Bits) (h : a + m ≤ 20) :
    readLen a pos ((List.replicate m [true, false]).flatten ++ X) =
      readLen (a + m) (pos + 2 * m) X := by
  induction m generalizing a pos with
  | zero => simp
  | succ m ih =>
    simp only [List.replicate_succ, List.flatten_cons, List.cons_append, List.nil_append]
    rw [readLen, if_pos (by simp only [maxLen]; omega), ih (a + 1) (pos + 2) (by omega)]
    congr 1 <;> omega

theorem readLen_down (a m pos : Nat) (X : Bits) (h : m + 1 ≤ a) :
    readLen a pos ((List.replicate m [true, true]).flatten ++ X) =
      readLen (a - m) (pos + 2 * m) X := by
  induction m generalizing a pos with
  | zero => simp
  | succ m ih =>
    simp only [List.replicate_succ, List.flatten_cons, List.cons_append, List.nil_append]
    rw [readLen, if_pos (by omega), ih (a - 1) (pos + 2) (by omega)]
    congr 1 <;> omega

/-- One delta code: from the current value `a` to the symbol's length `c`. -/
theorem readLen_deltaCode (a c pos : Nat) (rest : Bits) (ha : 1 ≤ a ∧ a ≤ 20)
    (hc : 1 ≤ c ∧ c ≤ 20) :
    readLen a pos (deltaCode a c ++ rest) = .ok (c, pos + (deltaCode a c).length, rest) := by
  rw [deltaCode_length]
  unfold deltaCode
  rw [send22, send23, send10, List.append_assoc, List.append_assoc,
    readLen_up a (c - a) pos _ (by omega), readLen_down (a + (c - a)) (a - c) _ _ (by omega)]
  simp only [List.singleton_append, readLen, absDiff]
  have e1 : a + (c - a) - (a - c) = c := by omega
  have e2 : pos + 2 * (c - a) + 2 * (a - c) + 1 = pos + (2 * (a - c + (c - a)) + 1) := by omega
  rw [e1, e2]

theorem readLens_deltaLoop (cs : List Nat) (a pos : Nat) (rest : Bits) (acc : Array Nat)
    (ha : 1 ≤ a ∧ a ≤ 20) (hc : ∀ c ∈ cs, 1 ≤ c ∧ c ≤ 20) :
    readLens cs.length a pos (deltaLoop a cs ++ rest) acc =
      .ok (acc ++ cs.toArray, pos + (deltaLoop a cs).length, rest) := by
  induction cs generalizing a pos acc with
  | nil => simp [readLens, deltaLoop]
  | cons c cs ih =>
    have h0 := hc c (List.mem_cons_self ..)
    simp only [List.length_cons, readLens, deltaLoop, List.append_assoc]
    rw [readLen_deltaCode a c pos _ ha h0]
    simp only
    rw [ih c _ _ h0 (fun x hx => hc x (List.mem_cons_of_mem _ hx))]
    simp only [List.length_append]
    congr 2
    · simp
    · congr 1; omega

/-- One table as `transmit()` writes it: 5-bit start value `a`, then the delta
    loop over the lengths. -/
theorem readTable_ok (lens : List Nat) (a pos : Nat) (rest : Bits) (ha : 1 ≤ a ∧ a ≤ 20)
    (hc : ∀ c ∈ lens, 1 ≤ c ∧ c ≤ 20) :
    readTable lens.length pos (send 5 a ++ deltaLoop a lens ++ rest) =
      .ok (lens, pos + (5 + (deltaLoop a lens).length), rest) := by
  unfold readTable
  rw [List.append_assoc, takeNat_send 5 a _ (by omega)]
  dsimp only
  rw [if_pos (show 1 ≤ a ∧ a ≤ maxLen from ha), readLens_deltaLoop lens a (pos + 5) rest _ ha hc]
  simp only [Array.mkEmpty_eq, Array.empty_append, List.toList_toArray]
  congr 3; omega

/-- Table `t` of a well-formed block, read back: the lengths are restored
    even though the first table starts `tree_pad` away from `len[0]`. -/
theorem readTable_tableBits {b : EncBlock} (h : WF b) (t : Nat) (ht : t < b.numTrees) (pos : Nat)
    (rest : Bits) :
    readTable b.alphaSize pos (tableBits b t ++ rest) =
      .ok (b.lens.getD t [], pos + (tableBits b t).length, rest) := by
  have htl : t < b.lens.length := by rw [h.lens_len]; exact ht
  have hg : b.lens.getD t [] = b.lens[t] := by
    simp [List.getD_eq_getElem?_getD, List.getElem?_eq_getElem htl]
  have hok := h.lens_ok _ (List.getElem_mem htl)
  rw [← hg] at hok
  have hr : ∀ c ∈ b.lens.getD t [], 1 ≤ c ∧ c ≤ 20 := by
    intro c hc
    have := hok.2 c hc
    simpa only [Gen.MIN_CODE_LENGTH, Gen.MAX_CODE_LENGTH] using this
  have hpos := alphaSize_pos b
  unfold tableBits
  simp only
  rw [← hok.1, tableRow_self]
  match hq : b.lens.getD t [] with
  | [] => rw [hq] at hok; simp at hok; omega
  | a0 :: rest' =>
    rw [hq] at hr
    have ha0 := hr a0 (List.mem_cons_self ..)
    have hstart : 1 ≤ (if t = 0 then paddedStart a0 b.treePad else a0) ∧
        (if t = 0 then paddedStart a0 b.treePad else a0) ≤ 20 := by
      split
      · have := Props.C02.treePad_in_range a0 b.treePad
          (by simp only [Gen.MIN_CODE_LENGTH]; exact ha0.1)
          (by simp only [Gen.MAX_CODE_LENGTH]; exact ha0.2) (treePad_le h)
        exact ⟨this.1, this.2.1⟩
      · exact ha0
    simp only [List.getD_cons_zero]
    have := readTable_ok (a0 :: rest') _ pos rest hstart hr
    rw [this]
    simp [send_length]

/-- All tables. -/
theorem readTables_tables {b : EncBlock} (h : WF b) (ts : List Nat) (hts : ∀ t ∈ ts, t < b.numTrees)
    (pos : Nat) (rest : Bits) (acc : Array (List Nat)) :
    readTables b.alphaSize ts.length pos (ts.flatMap (tableBits b) ++ rest) acc =
      .ok (acc.toList ++ ts.map (fun t => b.lens.getD t []),
           pos + (ts.flatMap (tableBits b)).length, rest) := by
  induction ts generalizing pos acc with
  | nil => simp [readTables]
  | cons t ts ih =>
    simp only [List.length_cons, readTables, List.flatMap_cons, List.append_assoc]
    rw [readTable_tableBits h t (hts t (List.mem_cons_self ..))]
    simp only
    rw [ih (fun x hx => hts x (List.mem_cons_of_mem _ hx))]
    simp only [List.length_append, Array.toList_push, List.map_cons, List.append_assoc,
      List.singleton_append]
    congr 3; omega

end LbzVerif.Lemmas.TransmitParse
