/-
  Lemmas.Rle1Dec — the decoder `Spec.unRle1` inverts `Spec.rle1`.
-/
import LbzVerif.Spec.Rle1

namespace LbzVerif.Spec

theorem flush_length (c : UInt8) (r : Nat) :
    (flush c r).length = if r ≥ 4 then 5 else r := by
  unfold flush; split <;> simp

/-- decoding `j` further copies of `c` when `k` have been seen (k ≥ 1, k + j ≤ 4) -/
theorem dec_copies (c : UInt8) (k j : Nat) (hk : 1 ≤ k) (hj : k + j ≤ 4) (rest : List UInt8) :
    decAux c k (List.replicate j c ++ rest)
      = (decAux c (k + j) rest).map (List.replicate j c ++ ·) := by
  induction j generalizing k with
  | zero => simp
  | succ j ih =>
    have h4 : k ≠ 4 := by omega
    have h0 : k ≠ 0 := by omega
    simp only [List.replicate_succ, List.cons_append, decAux, h4, h0, if_false, ne_eq,
      not_false_eq_true, and_self, if_true]
    rw [ih (k + 1) (by omega) (by omega)]
    have : k + 1 + j = k + (j + 1) := by omega
    rw [this]
    cases decAux c (k + (j + 1)) rest <;> simp

theorem dec_first (p c : UInt8) (k : Nat) (hk : k = 0 ∨ p ≠ c) (hk4 : k ≠ 4) (rest : List UInt8) :
    decAux p k (c :: rest) = (decAux c 1 rest).map (c :: ·) := by
  rcases hk with hk | hk
  · subst hk; simp [decAux]
  · simp only [decAux, hk4, if_false]
    have : ¬ (k ≠ 0 ∧ c = p) := by intro h; exact hk h.2.symm
    simp [this]

theorem dec_flush (p c : UInt8) (k r : Nat) (hr : 1 ≤ r) (hr' : r ≤ 259)
    (hk : k = 0 ∨ p ≠ c) (hk4 : k ≠ 4) (rest : List UInt8) :
    decAux p k (flush c r ++ rest)
      = (decAux c (if r ≥ 4 then 0 else r) rest).map (List.replicate r c ++ ·) := by
  unfold flush
  split
  · rename_i h4
    have h255 : (UInt8.ofNat (r - 4)).toNat = r - 4 := by
      simp [UInt8.toNat_ofNat']; omega
    simp only [List.cons_append, List.nil_append]
    rw [dec_first p c k hk hk4]
    have := dec_copies c 1 3 (by omega) (by omega) (UInt8.ofNat (r - 4) :: rest)
    simp only [List.replicate, List.cons_append, List.nil_append] at this
    rw [this]
    simp only [decAux, if_true, h255]
    have hr4 : r = 4 + (r - 4) := by omega
    cases decAux c 0 rest with
    | none => simp
    | some l =>
      simp only [Option.map_some, Option.some.injEq]
      conv => rhs; rw [hr4, ← List.replicate_append_replicate]
      simp [List.replicate]
  · rename_i h4
    obtain ⟨j, rfl⟩ : ∃ j, r = j + 1 := ⟨r - 1, by omega⟩
    simp only [List.replicate_succ, List.cons_append]
    rw [dec_first p c k hk hk4, dec_copies c 1 j (by omega) (by omega)]
    have : 1 + j = j + 1 := by omega
    rw [this]
    cases decAux c (j + 1) rest <;> simp

theorem dec_encAux (c : UInt8) (r : Nat) (xs : List UInt8) (hr : 1 ≤ r) (hr' : r ≤ 259)
    (p : UInt8) (k : Nat) (hk : k = 0 ∨ p ≠ c) (hk4 : k ≠ 4) :
    decAux p k (encAux c r xs) = some (List.replicate r c ++ xs) := by
  induction xs generalizing c r p k with
  | nil =>
    have := dec_flush p c k r hr hr' hk hk4 []
    simp only [List.append_nil] at this
    rw [encAux, this]
    have h4 : (if r ≥ 4 then 0 else r) ≠ 4 := by split <;> omega
    simp [decAux, h4]
  | cons x xs ih =>
    unfold encAux
    split
    · rename_i h
      obtain ⟨rfl, hlt⟩ := h
      have hlt' : r < 259 := hlt
      rw [ih x (r + 1) (by omega) (by omega) p k hk hk4]
      simp [List.replicate_succ', List.append_assoc]
    · rename_i h
      rw [dec_flush p c k r hr hr' hk hk4]
      have hk2 : (if r ≥ 4 then 0 else r) = 0 ∨ c ≠ x := by
        by_cases h4 : r ≥ 4
        · simp [h4]
        · right; intro hcx; exact h ⟨hcx.symm, by show r < 259; omega⟩
      have hk24 : (if r ≥ 4 then 0 else r) ≠ 4 := by split <;> omega
      rw [ih x 1 (by omega) (by omega) c _ hk2 hk24]
      simp

/-- RLE1 round trip. -/
theorem unRle1_rle1 (xs : List UInt8) : unRle1 (rle1 xs) = some xs := by
  cases xs with
  | nil => rfl
  | cons x xs =>
    have := dec_encAux x 1 xs (by omega) (by omega) 0 0 (Or.inl rfl) (by omega)
    simpa [unRle1, rle1] using this

end LbzVerif.Spec
