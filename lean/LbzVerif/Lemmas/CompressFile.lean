/-
  Lemmas.CompressFile — the reference decoder / inspector (`Spec.Bzip2.walkFile`)
  run over a file of the shape `Model.Compress.assemble` writes:

      header ++ block₁ ++ … ++ blockₙ ++ eos-magic ++ combined CRC

  where every block is the `transmit()` image of a well-formed, coded encoder
  state whose parsed form decodes to known bytes (`BlockOK`).  Blocks start at
  arbitrary bit offsets as far as `decodeBlocks` is concerned (it works on the
  bit list); byte alignment is only used for the padding rule at the end.
-/
import LbzVerif.Model.Compress
import LbzVerif.Lemmas.CompressBits
import LbzVerif.Props.C01.Transmit
import LbzVerif.Props.C02.Transmit

namespace LbzVerif.Lemmas.CompressFile
open LbzVerif LbzVerif.Basic LbzVerif.Model.Compress LbzVerif.Model.Transmit
open LbzVerif.Lemmas.TransmitCompose LbzVerif.Lemmas.TransmitLen LbzVerif.Lemmas.CompressBits
open LbzVerif.Spec.Bzip2

/-- an encoder state, the plaintext of its block, and the block size `nblock` -/
abbrev Item := EncBlock × List UInt8 × Nat

/-- What the file-level argument needs to know about one block. -/
structure BlockOK (level : Nat) (it : Item) : Prop where
  wf : WF it.1
  coded : Coded it.1
  dec : ∀ start, decodeBlock (expectedBlock level start it.1) =
    .ok { nblock := it.2.2, bytes := it.2.1.toArray }

/-- the inspector's record of one block starting at bit `pos` -/
def reportOf (level pos : Nat) (it : Item) : BlockReport :=
  { block := expectedBlock level pos it.1, nblock := it.2.2, size := it.2.1.length,
    freqs := tableFreqs (expectedBlock level pos it.1) }

def reportsOf (level : Nat) : Nat → List Item → List BlockReport
  | _, [] => []
  | pos, it :: rest => reportOf level pos it :: reportsOf level (pos + cost it.1) rest

/-- the reference decoder's running combined CRC over the blocks -/
def ccOf (cc : UInt32) (items : List Item) : UInt32 :=
  items.foldl (fun a it => combine a (UInt32.ofNat (it.1.crc ^^^ 0xFFFFFFFF))) cc

def bitsOf (items : List Item) : Bits := items.flatMap (fun it => transmitBits it.1)
def costOf (items : List Item) : Nat := (items.map (fun it => cost it.1)).sum
def plainOf (items : List Item) : List UInt8 := items.flatMap (fun it => it.2.1)

/-- **The block loop.**  `decodeBlocks` walks over any number of transmitted
    blocks, at any bit offset, followed by any bits `tail`. -/
theorem decodeBlocks_items (strict : Bool) (level : Nat) (items : List Item)
    (hok : ∀ it ∈ items, BlockOK level it) :
    ∀ (fuel pos : Nat) (tail : Bits) (cc : UInt32) (out : Array UInt8)
      (reps : Array BlockReport),
    decodeBlocks strict level (items.length + fuel) pos (bitsOf items ++ tail) cc out reps =
      decodeBlocks strict level fuel (pos + costOf items) tail (ccOf cc items)
        (out ++ (plainOf items).toArray)
        (if strict then reps ++ (reportsOf level pos items).toArray else reps) := by
  induction items with
  | nil =>
    intro fuel pos tail cc out reps
    simp [bitsOf, costOf, ccOf, plainOf, reportsOf]
  | cons it rest ih =>
    intro fuel pos tail cc out reps
    have hit := hok it (List.mem_cons_self ..)
    have hrest : ∀ jt ∈ rest, BlockOK level jt := fun jt hj => hok jt (List.mem_cons_of_mem _ hj)
    have hfuel : (it :: rest).length + fuel = (rest.length + fuel) + 1 := by
      simp only [List.length_cons]; omega
    have hbits : bitsOf (it :: rest) ++ tail = transmitBits it.1 ++ (bitsOf rest ++ tail) := by
      simp [bitsOf, List.flatMap_cons, List.append_assoc]
    have hparse := Props.C01.Transmit.parse_transmit it.1 hit.wf hit.coded level pos
      (bitsOf rest ++ tail)
    have hstrict : (if strict then strictBlockCheck (expectedBlock level pos it.1) else .ok ()) =
        .ok () := by
      cases strict
      · rfl
      · simp only [if_true]
        exact Props.C02.Transmit.transmit_strictBlockCheck it.1 hit.wf hit.coded level pos
    rw [hfuel, hbits, decodeBlocks, takeNat_magic]
    simp only [if_true, hparse, hstrict, hit.dec pos]
    rw [ih hrest]
    have hend : (expectedBlock level pos it.1).endBit = pos + cost it.1 := rfl
    have hcrc : (expectedBlock level pos it.1).storedCrc = it.1.crc ^^^ 0xFFFFFFFF := rfl
    rw [hend, hcrc]
    have e1 : pos + cost it.1 + costOf rest = pos + costOf (it :: rest) := by
      simp only [costOf, List.map_cons, List.sum_cons]; omega
    have e2 : ccOf (combine cc (UInt32.ofNat (it.1.crc ^^^ 0xFFFFFFFF))) rest =
        ccOf cc (it :: rest) := rfl
    have e3 : out ++ it.2.1.toArray ++ (plainOf rest).toArray =
        out ++ (plainOf (it :: rest)).toArray := by
      apply Array.toList_inj.mp
      simp [plainOf, List.flatMap_cons]
    rw [e1, e2, e3]
    congr 1
    cases strict
    · rfl
    · simp only [if_true]
      apply Array.toList_inj.mp
      simp [reportsOf, reportOf]

/-- the end-of-stream marker and the stored combined CRC -/
theorem decodeBlocks_eos (strict : Bool) (level fuel pos stored : Nat) (hs : stored < 2 ^ 32)
    (rest : Bits) (cc : UInt32) (out : Array UInt8) (reps : Array BlockReport) :
    decodeBlocks strict level (fuel + 1) pos
        (natToBits 48 eosMagic ++ natToBits 32 stored ++ rest) cc out reps =
      if stored = cc.toNat then .ok (pos + 80, rest, stored, out, reps)
      else .error .streamCrc := by
  rw [decodeBlocks, List.append_assoc, takeNat_natToBits]
  have h1 : ¬ eosMagic = blockMagic := by decide
  have h2 : eosMagic % 2 ^ 48 = eosMagic := by decide
  simp only [h2, h1, if_false, if_true, takeNat_natToBits, Nat.mod_eq_of_lt hs]

/-! ### the whole file -/

/-- the file: header, the blocks' bytes, trailer -/
def fileOf (level : Nat) (items : List Item) (stored : Nat) : List UInt8 :=
  headerBytes level ++ items.flatMap (fun it => blockBytes it.1) ++ trailerBytes stored

theorem blocks_bits (items : List Item) (hw : ∀ it ∈ items, WF it.1) :
    bytesToBits (items.flatMap (fun it => blockBytes it.1)) = bitsOf items := by
  induction items with
  | nil => simp [bitsOf, bytesToBits_nil]
  | cons it rest ih =>
    simp only [List.flatMap_cons, bytesToBits_append, bitsOf]
    rw [blockBytes_bits it.1 (hw it (List.mem_cons_self ..))]
    have := ih (fun jt hj => hw jt (List.mem_cons_of_mem _ hj))
    simp only [bitsOf] at this
    rw [this]

theorem cost_ge (b : EncBlock) : 48 ≤ cost b := by
  unfold cost costBase; omega

theorem blocks_length (items : List Item) (hw : ∀ it ∈ items, WF it.1) :
    8 * (items.flatMap (fun it => blockBytes it.1)).length = costOf items ∧
    items.length ≤ (items.flatMap (fun it => blockBytes it.1)).length ∧
    costOf items % 8 = 0 := by
  induction items with
  | nil => simp [costOf]
  | cons it rest ih =>
    have h1 := blockBytes_length it.1 (hw it (List.mem_cons_self ..))
    have h2 := ih (fun jt hj => hw jt (List.mem_cons_of_mem _ hj))
    have h3 := cost_ge it.1
    have h4 := cost_mod8 it.1
    simp only [List.flatMap_cons, List.length_append, List.length_cons, costOf, List.map_cons,
      List.sum_cons] at h2 ⊢
    omega

/-- **The file walk.**  For `level` 1…9 and blocks that are all `BlockOK`, the
    reference walker accepts `fileOf level items stored` when `stored` is the
    combined CRC of the blocks; the output is the concatenated plaintext; in
    strict mode there is exactly one stream record, ending at the last bit of
    the file, whose block records are `reportsOf`. -/
theorem walkFile_fileOf (strict : Bool) (level : Nat) (h1 : 1 ≤ level) (h9 : level ≤ 9)
    (items : List Item) (hok : ∀ it ∈ items, BlockOK level it) (stored : Nat)
    (hstored : stored = (ccOf 0 items).toNat) :
    walkFile strict (fileOf level items stored) =
      .ok { out := (plainOf items).toArray,
            streams := if strict then
                #[{ level := level, startBit := 0,
                    endBit := 8 * (fileOf level items stored).length,
                    storedCrc := stored, blocks := reportsOf level 32 items }]
              else #[] } := by
  have hw : ∀ it ∈ items, WF it.1 := fun it h => (hok it h).wf
  obtain ⟨hlen8, hlenle, hmod⟩ := blocks_length items hw
  have hslt : stored < 2 ^ 32 := by rw [hstored]; exact UInt32.toNat_lt _
  have hflen : (fileOf level items stored).length =
      4 + (items.flatMap (fun it => blockBytes it.1)).length + 10 := by
    simp only [fileOf, List.length_append, headerBytes_length, trailerBytes_length]
  have hne : (fileOf level items stored).isEmpty = false := by
    cases hf : fileOf level items stored with
    | nil => rw [hf] at hflen; simp at hflen
    | cons _ _ => rfl
  unfold walkFile
  rw [hne]
  simp only [Bool.false_eq_true, if_false]
  have hbits : takeNat 32 (bytesToBits (fileOf level items stored)) =
      some (0x425A6830 + level,
        bitsOf items ++ (natToBits 48 eosMagic ++ natToBits 32 stored ++ [])) := by
    unfold fileOf
    rw [List.append_assoc, header_take level h1 h9, bytesToBits_append, blocks_bits items hw,
      trailerBytes_bits, List.append_nil]
  rw [hbits]
  simp only [headerLevel_header level h1 h9]
  -- one stream
  rw [decodeStreams]
  have hfuel : (fileOf level items stored).length + 1 =
      items.length + (((fileOf level items stored).length - items.length) + 1) := by omega
  rw [hfuel, decodeBlocks_items strict level items hok, decodeBlocks_eos _ _ _ _ _ hslt,
    if_pos (by rw [hstored])]
  simp only []
  have hpos : 0 + 32 + costOf items + 80 = 8 * (fileOf level items stored).length := by
    rw [hflen]; omega
  have hpad : (8 - (0 + 32 + costOf items + 80) % 8) % 8 = 0 := by omega
  rw [hpad]
  simp only [List.drop_zero, Nat.add_zero, List.isEmpty_nil, if_true]
  cases strict
  · simp only [Bool.false_eq_true, if_false]
    have : takeNat 32 ([] : Bits) = none := rfl
    rw [this]
    simp
  · simp only [if_true, hpos]
    congr 1
    congr 1
    · simp
    · apply Array.toList_inj.mp
      simp

end LbzVerif.Lemmas.CompressFile
