/-
  Lemmas.TransmitSelMtf — lifting the finite core (TransmitSelMtfCore) to all
  selector sequences, and the link to the reference decoder's
  `unMtfSelectors`.
-/
import LbzVerif.Lemmas.TransmitSelMtfCore
import LbzVerif.Spec.Bzip2

namespace LbzVerif.Lemmas.TransmitSelMtf
open LbzVerif LbzVerif.Model.Transmit

/-- Ordinary move-to-front coding of a sequence w.r.t. the list `l`:
    position of each element, which then moves to the front. -/
def mtfEnc : List Nat → List Nat → List Nat
  | _, [] => []
  | l, c :: cs => l.idxOf c :: mtfEnc (mtfNext l c) cs

theorem all_range {n : Nat} {p : Nat → Bool} (h : (List.range n).all p = true) {a : Nat}
    (ha : a < n) : p a = true :=
  List.all_eq_true.mp h a (List.mem_range.mpr ha)

theorem six_of_valid {l : List Nat} (h : valid l = true) :
    ∃ a b c d e f, l = [a, b, c, d, e, f] := by
  unfold valid at h
  simp only [Bool.and_eq_true, beq_iff_eq] at h
  have hl := h.1.1
  match l, hl with
  | [a, b, c, d, e, f], _ => exact ⟨a, b, c, d, e, f, rfl⟩

theorem or_right {q p : Bool} (h : (q || p) = true) (hq : q = false) : p = true := by
  cases q
  · simpa using h
  · cases hq

/-- One C step = one move-to-front step, for every arrangement and value. -/
theorem step_ok {l : List Nat} (h : valid l = true) {x : Nat} (hx : x < 6) :
    stepOK l x = true := by
  obtain ⟨a, b, c, d, e, f, rfl⟩ := six_of_valid h
  simp only [valid, List.length_cons, List.length_nil, List.all_cons, List.all_nil, nodupB,
    List.contains_cons, List.contains_nil, Bool.and_eq_true, Bool.not_eq_true',
    Bool.or_false, Bool.and_true, decide_eq_true_eq, beq_iff_eq, Bool.or_eq_false_iff,
    beq_eq_false_iff_ne] at h
  obtain ⟨⟨_, ha, hb, hc, hd, he, hf⟩, hab, hbc, hcd, hde, hef, _⟩ := h
  have h0 := coreCheck_true
  unfold coreCheck at h0
  have h1 := or_right (all_range (all_range h0 ha) hb) (by simp; omega)
  have h2 := or_right (all_range h1 hc) (by simp; omega)
  have h3 := or_right (all_range h2 hd) (by simp; omega)
  have h4 := or_right (all_range h3 he) (by simp; omega)
  have h5 := or_right (all_range h4 hf) (by simp; omega)
  exact all_range h5 hx

theorem selLoop_eq (l : List Nat) (hv : valid l = true) (cs : List Nat)
    (hc : ∀ c ∈ cs, c < 6) : selLoop (pack l) cs = mtfEnc l cs := by
  induction cs generalizing l with
  | nil => rfl
  | cons c cs ih =>
    have h := step_ok hv (hc c (List.mem_cons_self ..))
    unfold stepOK at h
    simp only [Bool.and_eq_true, beq_iff_eq] at h
    simp only [selLoop, mtfEnc, h.1]
    rw [ih _ h.2 (fun x hx => hc x (List.mem_cons_of_mem _ hx))]

/-- `selectorMtf_spec`, list form: the branch-free loop of `encode()` started
    from `0x543210` is ordinary move-to-front coding w.r.t. `[0,1,2,3,4,5]`. -/
theorem selectorMtfOf_eq (sels : List Nat) (h : ∀ c ∈ sels, c < 6) :
    selectorMtfOf sels = mtfEnc (List.range 6) sels :=
  selLoop_eq (List.range 6) (by decide) sels h

/-! ### restriction to the tables in use, and the decoder -/

theorem mem_mtfNext {l : List Nat} {c x : Nat} (hc : c ∈ l) (hx : x ∈ l) : x ∈ mtfNext l c := by
  have hlt : l.idxOf c < l.length := List.idxOf_lt_length_iff.mpr hc
  by_cases hxc : x = c
  · subst hxc; exact List.mem_cons_self ..
  · refine List.mem_cons_of_mem _ ?_
    rw [List.mem_eraseIdx_iff_getElem]
    obtain ⟨i, hi', rfl⟩ := List.getElem_of_mem hx
    refine ⟨i, hi', ?_, rfl⟩
    intro e
    apply hxc
    subst e
    exact List.getElem_idxOf hlt

/-- MTF positions w.r.t. `l1 ++ l2` and w.r.t. `l1` agree as long as only
    elements of `l1` are coded. -/
theorem mtfEnc_append (l1 l2 : List Nat) (cs : List Nat) (h : ∀ c ∈ cs, c ∈ l1) :
    mtfEnc (l1 ++ l2) cs = mtfEnc l1 cs := by
  induction cs generalizing l1 with
  | nil => rfl
  | cons c cs ih =>
    have hc := h c (List.mem_cons_self ..)
    have hi : (l1 ++ l2).idxOf c = l1.idxOf c := by
      rw [List.idxOf_append]; simp [hc]
    have hlt : l1.idxOf c < l1.length := List.idxOf_lt_length_iff.mpr hc
    have hn : mtfNext (l1 ++ l2) c = mtfNext l1 c ++ l2 := by
      simp only [mtfNext, hi]
      rw [List.eraseIdx_append_of_lt_length hlt, ← List.cons_append]
    simp only [mtfEnc, hi, hn]
    congr 1
    exact ih _ (fun x hx => mem_mtfNext hc (h x (List.mem_cons_of_mem _ hx)))

/-- The reference decoder's `unMtfSelectors` undoes `mtfEnc`. -/
theorem unMtf_mtfEnc (l : List Nat) (cs : List Nat) (h : ∀ c ∈ cs, c ∈ l) (acc : Array Nat) :
    Spec.Bzip2.unMtfSelectors l (mtfEnc l cs) acc = some (acc ++ cs.toArray) := by
  induction cs generalizing l acc with
  | nil => simp [mtfEnc, Spec.Bzip2.unMtfSelectors]
  | cons c cs ih =>
    have hc := h c (List.mem_cons_self ..)
    have hlt : l.idxOf c < l.length := List.idxOf_lt_length_iff.mpr hc
    have hg : l[l.idxOf c]? = some c := by
      rw [List.getElem?_eq_getElem hlt, List.getElem_idxOf hlt]
    have := ih (mtfNext l c)
      (fun x hx => mem_mtfNext hc (h x (List.mem_cons_of_mem _ hx))) (acc.push c)
    simp only [mtfEnc, Spec.Bzip2.unMtfSelectors, Spec.Bzip2.moveToFront, hg]
    simp only [mtfNext] at this ⊢
    rw [this]
    simp

/-- What the decoder makes of the selector MTF values `encode()` computes,
    when `n` tables (2…6) are announced and every selector is below `n`. -/
theorem unMtf_selectorMtfOf (n : Nat) (hn : n ≤ 6) (sels : List Nat) (h : ∀ c ∈ sels, c < n)
    (acc : Array Nat) :
    Spec.Bzip2.unMtfSelectors (List.range n) (selectorMtfOf sels) acc =
      some (acc ++ sels.toArray) := by
  rw [selectorMtfOf_eq sels (fun c hc => Nat.lt_of_lt_of_le (h c hc) hn)]
  have hr : List.range 6 = List.range n ++ List.range' n (6 - n) := by
    have := List.range_add (n := n) (m := 6 - n)
    rw [show n + (6 - n) = 6 by omega] at this
    rw [this, List.range'_eq_map_range]
  have hm : ∀ c ∈ sels, c ∈ List.range n := fun c hc => List.mem_range.mpr (h c hc)
  rw [hr, mtfEnc_append _ _ _ hm]
  exact unMtf_mtfEnc _ _ hm acc

end LbzVerif.Lemmas.TransmitSelMtf
