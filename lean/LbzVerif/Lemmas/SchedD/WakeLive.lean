/-
  Lemmas.SchedD.WakeLive — deadlock-freedom of the REFINED expansion scheduler
  `Model.SchedDW` (explicit worker threads, `next_task`, `sched_mutex`,
  `sched_cond`):

  * `start_enabled`: if `select_task()` returns `t` and a worker is free, the
    first section of `t` is enabled in the base model;
  * `deadlock_free_w`: every reachable state of the refined model that is not
    final (`failf`, or terminated with every worker thread gone) has an enabled
    transition which is not a spurious wake-up;
  * `maximal_final_w`: a reachable state without such a transition is final.

  (Termination up to spurious wake-ups: WakeLive2.lean.)
-/
import LbzVerif.Lemmas.SchedD.Wake2
import LbzVerif.Lemmas.SchedD.Measure2

namespace LbzVerif.Model.SchedDW

/-- a spurious wake-up of a waiter (the only label the environment, not a
    thread of the program, is responsible for) -/
def WLabel.isSpurious : WLabel → Bool
  | .spurious _ => true
  | _ => false

end LbzVerif.Model.SchedDW

namespace LbzVerif.Lemmas.SchedD
open LbzVerif.Gen LbzVerif.Model.SchedD LbzVerif.Model.SchedDW

/-- the refined model is over: `failf` was called (the process is gone), or the
    scheduler data are in the terminated state and every worker thread has left
    its loop -/
def finalW (c : Cfg) (w : WState) : Bool :=
  w.base.failed || (terminated c w.base && w.ws.all (· == .exited))

/-! ### base model: which labels are enabled -/

/-- **the selected task can be started**: if `select_task()` returns `t`, a
    worker is free and the parser is not running while the parse token is
    available (`SI.excl`, true in every reachable state), then a first section
    of `t` is enabled. -/
theorem start_enabled {c : Cfg} {s : State} {t : String} (hfree : freeWorker c s = true)
    (hf : s.failed = false) (hex : s.ptok = true → s.pphase = none)
    (hsel : selectTask c s = some t) :
    ∃ l, taskOf l = some t ∧ (step c s l).isSome = true := by
  have hg := select_guard hsel
  have ht : t ∈ dTaskOrder := by
    unfold selectTask at hsel
    exact List.mem_of_find?_eq_some hsel
  simp only [dTaskOrder, List.mem_cons, List.mem_nil_iff, or_false] at ht
  rcases ht with rfl | rfl | rfl | rfl | rfl
  · -- reorder
    have hne : s.reordQ.map OB.key ≠ [] := by
      simp only [guardOf, if_true, dCanReorder, view, Bool.and_eq_true, Bool.not_eq_true',
        List.isEmpty_eq_false_iff] at hg
      intro h0; exact hg.1 (List.map_eq_nil_iff.1 h0)
    obtain ⟨x, hx, hmin⟩ := minKey?_exists hne
    obtain ⟨ob, hob, rfl⟩ := List.mem_map.1 hx
    refine ⟨.reorder ob, rfl, ?_⟩
    simp only [step, hf, Bool.false_eq_true, if_false]
    simp only [stepReorder, hfree, hsel, beq_self_eq_true, Bool.true_and,
      List.contains_iff_mem.2 hob, hmin, if_true]
    repeat' (first | rfl | split)
  · -- parse
    have hpt : s.ptok = true := by
      simp only [guardOf, dCanParse, view] at hg
      simp at hg
      exact hg.1.1.2
    have hpp := hex hpt
    refine ⟨.parseStart, rfl, ?_⟩
    simp only [step, hf, Bool.false_eq_true, if_false]
    simp [stepParseStart, hfree, hsel, hpp]
  · -- emit
    have hne : s.emitQ.map EJob.key ≠ [] := by
      simp only [guardOf, dCanEmit, view] at hg
      simp at hg
      intro h0; exact hg.1 (List.map_eq_nil_iff.1 h0)
    obtain ⟨x, hx, hmin⟩ := minKey?_exists hne
    obtain ⟨e, he, rfl⟩ := List.mem_map.1 hx
    refine ⟨.emitStart e, rfl, ?_⟩
    simp only [step, hf, Bool.false_eq_true, if_false]
    simp [stepEmitStart, hfree, hsel, he, hmin]
  · -- retrieve
    have hne : s.retrQ.map Job.curr ≠ [] := by
      simp [guardOf, dCanRetrieve, view] at hg
      intro h0; exact hg.1 (List.map_eq_nil_iff.1 h0)
    obtain ⟨x, hx, hmin⟩ := minNat?_exists hne
    obtain ⟨j, hj, rfl⟩ := List.mem_map.1 hx
    refine ⟨.retrStart j, rfl, ?_⟩
    simp only [step, hf, Bool.false_eq_true, if_false]
    simp [stepRetrStart, hfree, hsel, hj, hmin]
  · -- scan
    have hne : s.scanQ ≠ [] := by
      simp [guardOf, dCanScan, view] at hg
      intro h0; exact hg.1.2 h0
    obtain ⟨sp, hsp, hmin⟩ := minNat?_exists hne
    refine ⟨.scanStart sp, rfl, ?_⟩
    simp only [step, hf, Bool.false_eq_true, if_false]
    simp [stepScanStart, hfree, hsel, hsp, hmin]

/-- the same for reachable states -/
theorem start_enabled_reach {c : Cfg} {s : State} {t : String} (h : Reach c s)
    (hfree : freeWorker c s = true) (hf : s.failed = false) (hsel : selectTask c s = some t) :
    ∃ l, taskOf l = some t ∧ (step c s l).isSome = true := by
  have hS : SI c s := by simpa [Good, hf] using good_reach h
  exact start_enabled hfree hf hS.excl hsel

/-- every base label is a reader step without the monitor, a reader / writer
    section under the monitor, the first section of a task, or a later section
    of a task -/
theorem label_class (l : Label) :
    lockFreeIO l = true ∨ lockedIO l = true ∨ (∃ t, taskOf l = some t) ∨ isEnd l = true := by
  cases l <;> simp [lockFreeIO, lockedIO, taskOf, isEnd]

/-- a closing section needs a worker inside a task -/
theorem end_busy {c : Cfg} {s : State} {l : Label} (hl : isEnd l = true)
    (hs : (step c s l).isSome = true) : 0 < busyCount s := by
  have pos : ∀ {ph : Phase}, s.busy.contains ph = true → 0 < busyCount s := by
    intro ph hc
    have hm : ph ∈ s.busy := by simpa using hc
    have : 0 < s.busy.length := List.length_pos_of_mem hm
    simp only [busyCount]; omega
  unfold step at hs
  split at hs
  · cases hs
  cases l <;> simp only [isEnd] at hl <;> try (exact absurd hl (by decide))
  · -- parseEnd
    simp only [stepParseEnd] at hs
    split at hs
    · cases hs
    · next k hk => simp [busyCount, hk]
  · simp only [stepRetrEnd] at hs
    split at hs
    · next hc => exact pos hc
    · cases hs
  · simp only [stepRetrPost] at hs
    split at hs
    · next hc => exact pos hc
    · cases hs
  · simp only [stepEmitEnd] at hs
    split at hs
    · next hc => exact pos hc
    · cases hs
  · simp only [stepScanEnd] at hs
    split at hs
    · next hc => exact pos hc
    · cases hs

/-- a worker inside a task can always run its next section -/
theorem end_enabled {c : Cfg} {s : State} (hf : s.failed = false) (hb : 0 < busyCount s) :
    ∃ l, isEnd l = true ∧ (step c s l).isSome = true := by
  cases hbusy : s.busy with
  | nil =>
    cases hk : s.pphase with
    | none => simp [busyCount, hbusy, hk] at hb
    | some k =>
      refine ⟨.parseEnd, rfl, ?_⟩
      simp only [step, hf, Bool.false_eq_true, if_false]
      exact parseEnd_some hk
  | cons ph r =>
    have hm : ph ∈ s.busy := by rw [hbusy]; exact List.mem_cons_self
    cases ph with
    | retr j k =>
      refine ⟨.retrEnd j k, rfl, ?_⟩
      simp only [step, hf, Bool.false_eq_true, if_false]; exact retrEnd_some hm
    | retr2 e =>
      refine ⟨.retrPost e, rfl, ?_⟩
      simp only [step, hf, Bool.false_eq_true, if_false]; exact retrPost_some hm
    | emit e =>
      refine ⟨.emitEnd e, rfl, ?_⟩
      simp only [step, hf, Bool.false_eq_true, if_false]; exact emitEnd_some hm
    | scan st k =>
      refine ⟨.scanEnd st k, rfl, ?_⟩
      simp only [step, hf, Bool.false_eq_true, if_false]; exact scanEnd_some hm

/-- the first section of a task is guarded by `select_task() == that task` -/
theorem start_selected {c : Cfg} {s : State} {l : Label} {t : String} (hl : taskOf l = some t)
    (hs : (step c s l).isSome = true) : selectTask c s = some t := by
  unfold step at hs
  split at hs
  · cases hs
  cases l <;> simp only [taskOf, reduceCtorEq, Option.some.injEq] at hl <;> subst hl
  · simp only [stepReorder] at hs
    split at hs
    · next hg => simp only [Bool.and_eq_true, beq_iff_eq] at hg; exact hg.1.1.2
    · cases hs
  · simp only [stepParseStart] at hs
    split at hs
    · next hg => simp only [Bool.and_eq_true, beq_iff_eq] at hg; exact hg.1.2
    · cases hs
  · simp only [stepRetrStart] at hs
    split at hs
    · next hg => simp only [Bool.and_eq_true, beq_iff_eq] at hg; exact hg.1.1.2
    · cases hs
  · simp only [stepEmitStart] at hs
    split at hs
    · next hg => simp only [Bool.and_eq_true, beq_iff_eq] at hg; exact hg.1.1.2
    · cases hs
  · simp only [stepScanStart] at hs
    split at hs
    · next hg => simp only [Bool.and_eq_true, beq_iff_eq] at hg; exact hg.1.1.2
    · cases hs

/-! ### enabledness of the refined labels (converse of `stepW_core`) -/

/-- `sched_unlock()` never blocks, whatever the scheduler data are: the waiter
    to signal depends on the worker list only -/
theorem unlockW_any (c : Cfg) (ws : List WPh) :
    ∃ k, ∀ (b : State) (nt : Option String) (h : Option Nat),
      (unlockW c ⟨b, nt, h, ws⟩ k).isSome = true := by
  obtain ⟨k, ws', hk⟩ := signal_some ws
  refine ⟨k, fun b nt h => ?_⟩
  unfold unlockW
  dsimp only
  split
  · rw [hk]; rfl
  · rfl

section fire
variable {c : Cfg} {w : WState}

theorem fire_io {l : Label} {b : State} (hf : w.base.failed = false) (hl : lockFreeIO l = true)
    (hb : step c w.base l = some b) : (stepW c w (.io l)).isSome = true := by
  simp [stepW, hf, hl, hb]

theorem fire_ioS {l : Label} {b : State} (hf : w.base.failed = false) (hl : lockedIO l = true)
    (hh : w.holder = none) (hb : step c w.base l = some b) :
    ∃ k, (stepW c w (.ioS l k)).isSome = true := by
  obtain ⟨k, hu⟩ := unlockW_any c w.ws
  exact ⟨k, by simp only [stepW, hf, hl, hh, hb]; simp; exact hu _ _ _⟩

theorem fire_acquire {i : Nat} (hf : w.base.failed = false) (hh : w.holder = none)
    (hi : w.ws[i]? = some .ready) : (stepW c w (.acquire i)).isSome = true := by
  simp [stepW, hf, hh, hi]

theorem fire_runTask {i : Nat} {l : Label} {t : String} {b : State} (hf : w.base.failed = false)
    (hh : w.holder = some i) (hi : w.ws[i]? = some .inloop) (hn : w.nextTask = some t)
    (hl : taskOf l = some t) (hb : step c w.base l = some b) :
    ∃ k, (stepW c w (.runTask i l k)).isSome = true := by
  by_cases ht : t = "reorder"
  · exact ⟨0, by simp [stepW, hf, hh, hi, hn, hl, hb, ht]⟩
  · obtain ⟨k, hu⟩ := unlockW_any c (w.ws.set i .running)
    exact ⟨k, by simp [stepW, hf, hh, hi, hn, hl, hb, ht]; exact hu _ _ _⟩

theorem fire_relock {i : Nat} {l : Label} {b : State} (hf : w.base.failed = false)
    (hh : w.holder = none) (hi : w.ws[i]? = some .running) (hl : isEnd l = true)
    (hb : step c w.base l = some b) : ∃ k, (stepW c w (.relock i l k)).isSome = true := by
  by_cases hr : retrFinished l w.base b
  · obtain ⟨k, hu⟩ := unlockW_any c w.ws
    exact ⟨k, by simp [stepW, hf, hh, hi, hl, hb, hr]; exact hu _ _ _⟩
  · exact ⟨0, by simp [stepW, hf, hh, hi, hl, hb, hr]⟩

theorem fire_wait {i : Nat} (hf : w.base.failed = false) (hh : w.holder = some i)
    (hi : w.ws[i]? = some .inloop) (hn : w.nextTask = none) (hfin : finished c w.base = false) :
    (stepW c w (.wait i)).isSome = true := by
  simp [stepW, hf, hh, hi, hn, hfin]

theorem fire_exit {i : Nat} (hf : w.base.failed = false) (hh : w.holder = some i)
    (hi : w.ws[i]? = some .inloop) (hn : w.nextTask = none) (hfin : finished c w.base = true) :
    (stepW c w (.exit i)).isSome = true := by
  simp [stepW, hf, hh, hi, hn, hfin]

end fire

/-! ### deadlock-freedom -/

/-- **the refined expansion scheduler cannot deadlock and loses no wake-up.**
    Every reachable state of `Model.SchedDW` (all interleavings, every choice of
    the signalled waiter, spurious wake-ups included) that is not final has an
    enabled transition which is not a spurious wake-up.  Hypotheses as for the
    base model's `progress_reach`: non-empty input blocks, at least one worker,
    more output slots than the emit reserve, at least one input slot. -/
theorem deadlock_free_w {c : Cfg} (hW : 0 < c.W) (hn : 1 ≤ c.n) (ho : EMIT_THRESH < c.totalOut)
    (hti : 1 ≤ c.totalIn) {w : WState} (h : ReachW c w) (hnf : finalW c w = false) :
    ∃ l, WLabel.isSpurious l = false ∧ (stepW c w l).isSome = true := by
  have I := wi_reach h
  have hB := reachW_base h
  simp only [finalW, Bool.or_eq_false_iff] at hnf
  obtain ⟨hf, hnt⟩ := hnf
  cases hh : w.holder with
  | some i =>
    -- the owner of the mutex stands at the top of the loop
    have hi := I.hold i hh
    cases hnx : w.nextTask with
    | some t =>
      have hsel : selectTask c w.base = some t := by rw [← I.nt, hnx]
      obtain ⟨l, hl, hs⟩ := start_enabled_reach hB (inloop_free h hi) hf hsel
      obtain ⟨b, hb⟩ := Option.isSome_iff_exists.mp hs
      obtain ⟨k, hk⟩ := fire_runTask hf hh hi hnx hl hb
      exact ⟨.runTask i l k, rfl, hk⟩
    | none =>
      cases hfin : finished c w.base with
      | true => exact ⟨.exit i, rfl, fire_exit hf hh hi hnx hfin⟩
      | false => exact ⟨.wait i, rfl, fire_wait hf hh hi hnx hfin⟩
  | none =>
    by_cases hr : WPh.ready ∈ w.ws
    · -- (1) a runnable worker takes the mutex
      obtain ⟨i, hi⟩ := List.getElem?_of_mem hr
      exact ⟨.acquire i, rfl, fire_acquire hf hh hi⟩
    have hrc := running_count h
    by_cases hrun : WPh.running ∈ w.ws
    · -- (2) a worker inside a task runs its next section
      obtain ⟨i, hi⟩ := List.getElem?_of_mem hrun
      have hpos : 0 < busyCount w.base := by
        rw [← hrc]
        exact List.length_pos_of_mem (List.mem_filter.2 ⟨hrun, by simp⟩)
      obtain ⟨l, hl, hs⟩ := end_enabled (c := c) hf hpos
      obtain ⟨b, hb⟩ := Option.isSome_iff_exists.mp hs
      obtain ⟨k, hk⟩ := fire_relock hf hh hi hl hb
      exact ⟨.relock i l k, rfl, hk⟩
    -- (3) every worker is in `xwait` or gone
    have hbc : busyCount w.base = 0 := by
      rw [← hrc, List.length_eq_zero_iff, List.filter_eq_nil_iff]
      intro p hp hp'
      have : p = .running := by simpa using hp'
      exact hrun (this ▸ hp)
    have hwe : ∀ p ∈ w.ws, p = .waiting ∨ p = .exited := by
      intro p hp
      cases p with
      | ready => exact absurd hp hr
      | inloop =>
        obtain ⟨j, hj⟩ := List.getElem?_of_mem hp
        have := I.one j hj
        rw [hh] at this; cases this
      | running => exact absurd hp hrun
      | waiting => exact .inl rfl
      | exited => exact .inr rfl
    cases ht : terminated c w.base with
    | true =>
      exfalso
      rw [ht, Bool.true_and] at hnt
      -- some worker has not left the loop: it waits although the process has finished
      have hex : ∃ p ∈ w.ws, p ≠ .exited := by
        apply Classical.byContradiction
        intro hno
        have : w.ws.all (· == .exited) = true := by
          rw [List.all_eq_true]
          intro p hp
          have : p = .exited := Classical.byContradiction fun hne => hno ⟨p, hp, hne⟩
          simp [this]
        rw [this] at hnt; cases hnt
      obtain ⟨p, hp, hpe⟩ := hex
      have hpw : p = .waiting := (hwe p hp).resolve_right hpe
      rcases I.noLost hh (.inr (terminated_fields ht).2.1) with h' | h'
      · exact hr h'
      · exact h' p hp hpw
    | false =>
      have hnfin : final c w.base = false := by simp [final, hf, ht]
      have hen := progress_reach hW hn ho hti hB hnfin
      obtain ⟨l, hlm⟩ := List.exists_mem_of_ne_nil _ hen
      have hs : (step c w.base l).isSome = true := by
        unfold enabled at hlm
        exact (List.mem_filter.1 hlm).2
      obtain ⟨b, hb⟩ := Option.isSome_iff_exists.mp hs
      rcases label_class l with hl | hl | ⟨t, hl⟩ | hl
      · exact ⟨.io l, rfl, fire_io hf hl hb⟩
      · obtain ⟨k, hk⟩ := fire_ioS hf hl hh hb
        exact ⟨.ioS l k, rfl, hk⟩
      · -- a task is selectable, so nobody waits: everybody has gone — but then
        -- the process has terminated
        exfalso
        have hsel := start_selected hl hs
        have hsome : w.nextTask.isSome = true := by rw [I.nt, hsel]; rfl
        rcases I.noLost hh (.inl hsome) with h' | h'
        · exact hr h'
        · have hlen := I.len
          cases hws : w.ws with
          | nil => rw [hws] at hlen; simp at hlen; omega
          | cons p r =>
            have hp : p ∈ w.ws := by rw [hws]; exact List.mem_cons_self
            have hpe : p = .exited := (hwe p hp).resolve_left (h' p hp)
            have := (exit_final hW h (hpe ▸ hp)).1
            rw [ht] at this; cases this
      · exfalso
        have := end_busy hl hs
        omega

/-- **a maximal run ends in the final state**: a reachable state of the refined
    model in which no thread can move (other than by a spurious wake-up) is
    final — `failf` was called, or the scheduler data are in the terminated
    state and every worker thread has left its loop. -/
theorem maximal_final_w {c : Cfg} (hW : 0 < c.W) (hn : 1 ≤ c.n) (ho : EMIT_THRESH < c.totalOut)
    (hti : 1 ≤ c.totalIn) {w : WState} (h : ReachW c w)
    (hmax : ∀ l, WLabel.isSpurious l = false → stepW c w l = none) :
    w.base.failed = true ∨ (terminated c w.base = true ∧ ∀ p ∈ w.ws, p = .exited) := by
  cases hfw : finalW c w with
  | false =>
    obtain ⟨l, hl, hs⟩ := deadlock_free_w hW hn ho hti h hfw
    rw [hmax l hl] at hs; cases hs
  | true =>
    simp only [finalW, Bool.or_eq_true, Bool.and_eq_true, List.all_eq_true, beq_iff_eq] at hfw
    exact hfw

/-! ### non-vacuity -/

/-- the hypotheses of `deadlock_free_w` hold for the two-worker witness
    configuration of Wake2.lean; its initial state is not final, and the
    theorem yields an enabled non-spurious transition -/
example : finalW wakeCfg (initW wakeCfg) = false ∧
    ∃ l, WLabel.isSpurious l = false ∧ (stepW wakeCfg (initW wakeCfg) l).isSome = true :=
  have hnf : finalW wakeCfg (initW wakeCfg) = false := by decide +kernel
  ⟨hnf, deadlock_free_w (by decide) (by decide) (by decide) (by decide) .init hnf⟩

/-- after `wakeTrace1` (mutex free, `parse` selected, worker 0 woken by the
    reader's signal, worker 1 still in `xwait`) the state is not final -/
theorem wake_witness_live :
    (runW wakeCfg (initW wakeCfg) wakeTrace1).any
      (fun w => !finalW wakeCfg w && decide (w.ws = [.ready, .waiting])) = true := by
  decide +kernel

/-- … and there the theorem yields an enabled non-spurious transition too -/
example : ∃ w, ReachW wakeCfg w ∧ WPh.waiting ∈ w.ws ∧ finalW wakeCfg w = false ∧
    ∃ l, WLabel.isSpurious l = false ∧ (stepW wakeCfg w l).isSome = true := by
  obtain ⟨w, hr, hp⟩ := reachW_of_any wake_witness_live
  simp only [Bool.and_eq_true, Bool.not_eq_true', decide_eq_true_eq] at hp
  obtain ⟨hnf, h3⟩ := hp
  exact ⟨w, hr, by rw [h3]; simp, hnf,
    deadlock_free_w (by decide) (by decide) (by decide) (by decide) hr hnf⟩

end LbzVerif.Lemmas.SchedD
