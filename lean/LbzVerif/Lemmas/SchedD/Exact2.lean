/-
  The exact ownership invariant `XI` (see `Exact`), part 2: `do_parse` tail,
  the assembled `xi_reach`, and `order_head_has`: the head `(b, i)` of
  `order_q` has a master-capable retrieve job of block `b`, or buffer `(b, i)`
  itself in `reord_q`, or an emit job of block `b` that has not produced buffer
  `i` yet.
-/
import LbzVerif.Lemmas.SchedD.Exact

namespace LbzVerif.Lemmas.SchedD
open LbzVerif.Model.SchedD LbzVerif.Gen

/-! ### parsePush -/

/-- the state between `push(order_q)` and the take-over / creation of the
    master job: every OLD entry has its next buffer (in `reord_q` or still to be
    emitted), and a complete entry of unord_q at exactly `b` has its emit job
    at index 0 -/
structure PMX (s3 : State) (b : Nat) : Prop where
  h0 : X0 s3
  has : ∀ b' i', (b', i') ∈ s3.orderQ → (b', i') = (b, 0) ∨ Has s3 b' i'
  orb : ∀ u ∈ s3.orphans, u.f.inq = true → u.base = b → Has s3 b 0

theorem PMX_parsePush {c : Cfg} {s1 : State} {b : Nat} (h : XI c s1) (hH : HI c s1)
    (hP : PPre c s1) (hu : pres c s1.gnext = .hdr b) : PMX (parsePush c s1 b) b := by
  have hb := pres_hdr hu
  have he := rres_ge c b
  have hpd : s1.pdone = false := hP.pd
  have has1 : ∀ {b' m}, Has s1 b' m → Has (parsePush c s1 b) b' m := by
    intro b' m hc
    exact Has_mono (s := s1) (s' := parsePush c s1 b)
      (fun e he => EIn_flag (s := advance c s1 b) (p := fun x => decide (x < b)) he
        (parsePush c s1 b) rfl rfl) (fun o ho => ho) hc
  have a4 := hH.h0.og
  obtain ⟨b1, a1, a2, a6⟩ := h
  refine ⟨⟨?_, ?_, ?_⟩, ?_, ?_⟩
  · intro o ho hst i hi hle
    have hi' : (o.base, i) ∈ s1.orderQ ++ [(b, 0)] := hi
    rcases List.mem_append.1 hi' with hi' | hi'
    · exact has1 (a1 o ho hst i hi' hle)
    · simp only [List.mem_singleton, Prod.mk.injEq] at hi'
      exact has1 (a2 hpd o ho hst (by omega))
  · intro _ o ho hst hg
    have hg' : (rres c b).e < o.base := hg
    exact has1 (a2 hpd o ho hst (by omega))
  · intro _ u hu' hq hg
    have hg' : (rres c b).e < u.base := hg
    have hu2 : u ∈ s1.orphans :=
      mem_popOrphans_inq (p := fun x => decide (x < b)) (os := (advance c s1 b).orphans) hu' hq
    exact has1 (a6 hpd u hu2 hq (by omega))
  · intro b' i' hi
    have hi' : (b', i') ∈ s1.orderQ ++ [(b, 0)] := hi
    rcases List.mem_append.1 hi' with hi' | hi'
    · rcases b1 b' i' hi' with hm | hc
      · obtain ⟨j0, hj0, _, hmc⟩ := hm
        exact (no_mc_JIn hP.m0 hj0 hmc).elim
      · exact Or.inr (has1 hc)
    · exact Or.inl (List.mem_singleton.1 hi')
  · intro u hu' hq hub
    have hu2 : u ∈ s1.orphans :=
      mem_popOrphans_inq (p := fun x => decide (x < b)) (os := (advance c s1 b).orphans) hu' hq
    have := a6 hpd u hu2 hq (by omega)
    rw [hub] at this
    exact has1 this

/-! ### parseMatch -/

theorem XI_of_PMX {c : Cfg} {s3 s' : State} {b : Nat} (hm : PMX s3 b)
    (f : Fx s3 s') (hb : McJob s' b ∨ Has s' b 0) : XI c s' := by
  refine XI_of (X0_frame hm.h0 f) ?_
  intro b' i' hi
  rw [f.eO] at hi
  rcases hm.has b' i' hi with he | hc
  · cases he; exact hb
  · exact Or.inr (f.has hc)

theorem Fx_wu (a s' : State)
    (e1 : s'.orderQ = a.orderQ) (e2 : s'.reordQ = a.reordQ) (e3 : s'.gnext = a.gnext)
    (e4 : s'.pdone = a.pdone) (e5 : s'.emitQ = a.emitQ) (e6 : s'.busy = a.busy)
    (e8 : ∀ u ∈ s'.orphans, u ∈ a.orphans) : Fx a s' := by
  refine ⟨e1, e2, e3, e4, ?_, ?_⟩
  · intro e he; simpa [EIn, e5, e6] using he
  · intro _ u hu; exact Or.inl (e8 u hu)

theorem XI_parseMatch {c : Cfg} {s3 : State} {b : Nat} (hm : PMX s3 b) (hP : PPre c s3)
    (hA : AI c s3) (hhb : headOffs c s3 ≤ b) : XI c (parseMatch c s3 b) := by
  unfold parseMatch
  split
  · -- the scanner-found block's job is waiting in retr_q
    next j hj =>
    have hjm := List.mem_of_find?_eq_some hj
    have hjq := List.find?_some hj
    have hend := inqAt_endp hjq (hA.ecQ j hjm)
    obtain ⟨g1, g2, g3⟩ := good_of_inqAt hjq
    have fS : Fx s3 { s3 with retrQ := replaceFirst (Job.inqAt b) Job.good s3.retrQ } :=
      Fx_same rfl rfl rfl rfl rfl (fun _ he => he)
    have fA := Fx_advance c
      { s3 with retrQ := replaceFirst (Job.inqAt b) Job.good s3.retrQ } j.endp
    have hle := headOffs_advance_le c
      { s3 with retrQ := replaceFirst (Job.inqAt b) Job.good s3.retrQ } j.endp
    have hho : headOffs c { s3 with retrQ := replaceFirst (Job.inqAt b) Job.good s3.retrQ }
        = headOffs c s3 := rfl
    refine XI_of_PMX hm ((fS.trans fA).trans
      (Fx_wu _ _ rfl rfl rfl rfl rfl rfl (fun _ hu => hu))) (Or.inl ⟨j.good, Or.inl ?_, g2, g1⟩)
    show j.good ∈ (advance c { s3 with retrQ := replaceFirst (Job.inqAt b) Job.good s3.retrQ }
      j.endp).retrQ
    simp only [advance]
    refine List.mem_filter.2 ⟨replaceFirst_mem_find _ _ hj, ?_⟩
    have hle' : offs c (newHead c { s3 with retrQ := replaceFirst (Job.inqAt b) Job.good s3.retrQ }
        j.endp) ≤ max (headOffs c s3) j.endp := hle
    simp only [Bool.not_eq_true', decide_eq_false_iff_not, Nat.not_lt]
    rw [g3]
    omega
  · split
    · -- … is running
      next ph hph =>
      have hpm := List.mem_of_find?_eq_some hph
      have hpq := List.find?_some hph
      have fS : Fx s3 { s3 with busy := replaceFirst (Phase.inqAt b) Phase.good s3.busy } := by
        refine Fx_same rfl rfl rfl rfl rfl ?_
        intro e he
        rcases he with he | he | he
        · exact Or.inl he
        · exact Or.inr (Or.inl (replaceFirst_mem_keep _ _ he rfl))
        · exact Or.inr (Or.inr (replaceFirst_mem_keep _ _ he rfl))
      have fA := Fx_advance c
        { s3 with busy := replaceFirst (Phase.inqAt b) Phase.good s3.busy } ph.endp
      refine XI_of_PMX hm ((fS.trans fA).trans
        (Fx_wu _ _ rfl rfl rfl rfl rfl rfl (fun _ hu => hu))) (Or.inl ?_)
      cases ph with
      | retr j0 k0 =>
        obtain ⟨g1, g2, _⟩ := good_of_inqAt (j := j0) hpq
        refine ⟨j0.good, Or.inr ⟨k0, ?_⟩, g2, g1⟩
        exact replaceFirst_mem_find (Phase.inqAt b) Phase.good hph
      | retr2 e => simp [Phase.inqAt] at hpq
      | emit e => simp [Phase.inqAt] at hpq
      | scan a b => simp [Phase.inqAt] at hpq
    · split
      · -- … has finished: the entry is a complete orphan, its emit job exists
        next u hu =>
        have hum := List.mem_of_find?_eq_some hu
        have huq := List.find?_some hu
        simp only [Bool.and_eq_true, beq_iff_eq] at huq
        have hhas := hm.orb u hum huq.1 huq.2
        have fA := Fx_advance c s3 u.f.endp
        by_cases hc : u.f.complete = true
        · rw [if_pos hc]
          have f := fA.trans (Fx_wu (advance c s3 u.f.endp)
            { advance c s3 u.f.endp with
              orphans := (advance c s3 u.f.endp).orphans.erase u, ptok := true,
              porig := u.f.endp, wu := (advance c s3 u.f.endp).wu + 1,
              taint := (advance c s3 u.f.endp).taint || u.corrupt }
            rfl rfl rfl rfl rfl rfl (fun _ hu => List.mem_of_mem_erase hu))
          exact XI_of_PMX hm f (Or.inr (f.has hhas))
        · exact absurd (hP.si.orph hP.pd u hum).1 hc
      · -- nobody found it: the parser creates the master job
        refine XI_of_PMX hm (Fx_same rfl rfl rfl rfl rfl (fun _ he => he))
          (Or.inl ⟨{ curr := b, base := b, ub := none, corrupt := false },
            Or.inl List.mem_cons_self, rfl, rfl⟩)

/-! ### parseEnd -/

theorem XI_parseFinish {c : Cfg} {s1 : State} (u : Nat) (h : XI c s1) (hP : PPre c s1) :
    XI c (parseFinish s1 u) := by
  have has : ∀ {b m}, Has s1 b m → Has (parseFinish s1 u) b m := by
    intro b m hc
    exact Has_mono (s := s1) (s' := parseFinish s1 u)
      (fun e he => EIn_flag (s := s1) (p := fun _ => true) he (parseFinish s1 u) rfl rfl)
      (fun o ho => ho) hc
  obtain ⟨b1, a1, _, _⟩ := h
  refine ⟨?_, ?_, ?_, ?_⟩
  · intro b i hi
    rcases b1 b i hi with hm | hc
    · obtain ⟨j0, hj0, _, hmc⟩ := hm
      exact (no_mc_JIn hP.m0 hj0 hmc).elim
    · exact Or.inr (has hc)
  · intro o ho hst i hi hle; exact has (a1 o ho hst i hi hle)
  · intro hd; cases hd
  · intro hd; cases hd

theorem XI_parseVerdict {c : Cfg} {s1 : State} (h : XI c s1) (hH : HI c s1) (hP : PPre c s1)
    (hA : AI c s1) (hf' : (parseVerdict c s1 (pres c s1.gnext)).failed = false) :
    XI c (parseVerdict c s1 (pres c s1.gnext)) := by
  cases hu : pres c s1.gnext with
  | err u => rw [hu] at hf'; cases hf'
  | finish u ok =>
    cases ok with
    | false => rw [hu] at hf'; cases hf'
    | true => exact XI_parseFinish u h hP
  | hdr b =>
    obtain ⟨p1, p2, _⟩ := AI_parsePush hA hP hu
    obtain ⟨q1, _, _⟩ := PPre_push hP hu
    exact XI_parseMatch (PMX_parsePush h hH hP hu) q1 p1 p2

theorem XI_parseEnd {c : Cfg} {s s' : State} (h : XI c s) (hH : HI c s) (hS : SI c s)
    (hA : AI c s) (hf : s.failed = false) (hs : stepParseEnd c s = some s')
    (hf' : s'.failed = false) : XI c s' := by
  unfold stepParseEnd at hs
  split at hs
  · simp at hs
  · next k hk =>
    obtain ⟨hP, hg1, hpo⟩ := PPre_of_parsing hS hf hk
    have hA0 : AI c { s with pphase := none } := by
      obtain ⟨a1, a2, a3, a4, a5, a6, a7, a8⟩ := hA
      exact ⟨a1, a2, (fun k hk => by cases hk), a4, a5, a6, a7, a8⟩
    have hA1 : AI c (detach { s with pphase := none } k) := AI_detach k hA0
    have hH1 : HI c (detach { s with pphase := none } k) :=
      HI_detach k (HI_congr hH rfl rfl rfl rfl rfl rfl rfl rfl rfl hH.h0.pt)
    have h1 : XI c (detach { s with pphase := none } k) :=
      XI_detach k (XI_congr h rfl rfl rfl rfl rfl rfl rfl rfl)
    have key : pres c s.porig = pres c (detach { s with pphase := none } k).gnext := by
      rw [hg1, hpo]
    dsimp only at hs
    rw [key] at hs
    generalize detach { s with pphase := none } k = s1 at hs hP hA1 hH1 h1
    split at hs
    · simp only [Option.some.injEq] at hs; subst hs
      have fA := Fx_advance c s1 (offs c (k.getD 0 + 1))
      refine XI_frame h1 (fA.trans (Fx_wu _ _ rfl rfl rfl rfl rfl rfl (fun _ hu => hu))) ?_
      intro b i _ hm
      obtain ⟨j0, hj0, _, hmc⟩ := hm
      exact (no_mc_JIn hP.m0 hj0 hmc).elim
    · simp only [Option.some.injEq] at hs; subst hs
      exact XI_parseVerdict h1 hH1 hP hA1 hf'

/-! ### all steps -/

theorem xi_step {c : Cfg} {s s' : State} {l : Label} (h : XI c s) (hH : HI c s) (hS : SI c s)
    (hA : AI c s) (hs : step c s l = some s') (hf' : s'.failed = false) : XI c s' := by
  unfold step at hs
  split at hs
  · simp at hs
  · next hf =>
    have hf0 : s.failed = false := by simpa using hf
    cases l with
    | rTake => exact XI_rTake h hs
    | rQuit => exact XI_rQuit h hs
    | rBlock => exact XI_rBlock h hs
    | rEmpty => exact XI_rEmpty h hs
    | rEof => exact XI_rEof h hs
    | wDone => exact XI_wDone h hs
    | reorder ob => exact XI_reorder h hH hs hf'
    | parseStart => exact XI_parseStart h hs
    | parseEnd => exact XI_parseEnd h hH hS hA hf0 hs hf'
    | retrStart j => exact XI_retrStart h hs
    | retrEnd j k => exact XI_retrEnd h hH hS hA hs
    | retrPost e => exact XI_retrPost h hs
    | emitStart e => exact XI_emitStart h hs
    | emitEnd e => exact XI_emitEnd h hH hS hs
    | scanStart sp => exact XI_scanStart h hs
    | scanEnd st k => exact XI_scanEnd h hs

/-- the exact ownership invariant holds in every reachable state in which
    `failf` has not been called -/
theorem xi_reach {c : Cfg} {s : State} (h : Reach c s) (hf : s.failed = false) : XI c s := by
  induction h with
  | init => exact XI_init c
  | @step s s' l hr hs ih =>
    have hf0 : s.failed = false := by
      unfold step at hs; split at hs
      · simp at hs
      · next hf => simpa using hf
    have hS : SI c s := by
      have g := good_reach hr
      simpa [Good, hf0] using g
    exact xi_step (ih hf0) (hi_reach hr hf0) hS (ai_reach hr) hs hf

/-- every entry `(b, i)` of `order_q` of a reachable non-failed state has a
    master-capable retrieve job of block `b`, or buffer `(b, i)` itself is in
    `reord_q`, or an emit job of block `b` has not produced buffer `i` yet -/
theorem order_entry_has {c : Cfg} {s : State} (h : Reach c s) (hf : s.failed = false)
    {b i : Nat} (hi : (b, i) ∈ s.orderQ) :
    McJob s b ∨ (∃ o ∈ s.reordQ, o.key = (b, i)) ∨ (∃ e, EIn s e ∧ e.base = b ∧ e.idx ≤ i) := by
  rcases (xi_reach h hf).x1 b i hi with hm | ⟨o, ho, h1, h2⟩ | he
  · exact Or.inl hm
  · exact Or.inr (Or.inl ⟨o, ho, by simp only [OB.key, h1, h2]⟩)
  · exact Or.inr (Or.inr he)

/-- **the head of `order_q` has its producer**: a master-capable retrieve job
    of its block, or exactly the awaited buffer in `reord_q`, or an emit job of
    its block whose next index is at most the awaited one -/
theorem order_head_has {c : Cfg} {s : State} (h : Reach c s) (hf : s.failed = false)
    {b i : Nat} {r : List (Nat × Nat)} (ho : s.orderQ = (b, i) :: r) :
    McJob s b ∨ (∃ o ∈ s.reordQ, o.key = (b, i)) ∨ (∃ e, EIn s e ∧ e.base = b ∧ e.idx ≤ i) :=
  order_entry_has h hf (by rw [ho]; exact List.mem_cons_self)

end LbzVerif.Lemmas.SchedD
