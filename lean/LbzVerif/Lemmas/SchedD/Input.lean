/-
  Input side of deadlock-freedom: nothing (parser, retrieve job, recorded end
  position) ever lies beyond the delivered input `tail_offs`, every running
  parser / retriever is attached to a delivered block, and `input_q` holds no
  block that lies entirely before the parser position.

  * `RI` — the reader thread: `eof`, `request_close`, `nread` versus `rd`.
  * `NC` — the position part (inductive core, uses `RI`, `SI`, `AI`, `PI`, `SQ`
    of the pre-state).
  * `NI` — everything together; `ni_reach`, `no_input_wait`.
  `0 < W` is needed (as for `SQ`): a freshly read block is not empty.
-/
import LbzVerif.Lemmas.SchedD.Pos
import LbzVerif.Lemmas.SchedD.InSlots

namespace LbzVerif.Lemmas.SchedD
open LbzVerif.Model.SchedD LbzVerif.Gen

/-! ## the reader thread -/

structure RI (c : Cfg) (s : State) : Prop where
  /-- the reader has finished exactly when `eof` is set -/
  dn : s.rph = .done ↔ s.eof = true
  /-- `request_close` exactly when parsing is done -/
  pc : s.pdone = true ↔ s.rclose = true
  /-- until parsing is done every block read is pushed to `input_q` -/
  rn : s.pdone = false → s.rd = s.nread
  ae : s.rph = .ateof → s.pdone = true ∨ c.T ≤ s.nread * c.W
  ef : s.eof = true → s.pdone = true ∨ c.T ≤ s.nread * c.W

theorem RI_init (c : Cfg) : RI c (init c) := by
  refine ⟨?_, ?_, ?_, ?_, ?_⟩ <;> simp [init]

/-- the step leaves the reader's fields alone; parsing may become done (with
    `request_close`) -/
def RF (s s' : State) : Prop :=
  s'.rph = s.rph ∧ s'.eof = s.eof ∧ s'.rd = s.rd ∧ s'.nread = s.nread ∧
  ((s'.pdone = s.pdone ∧ s'.rclose = s.rclose) ∨ (s'.pdone = true ∧ s'.rclose = true))

theorem RF.refl (s : State) : RF s s := ⟨rfl, rfl, rfl, rfl, Or.inl ⟨rfl, rfl⟩⟩

theorem RF.trans {s s' s'' : State} (h1 : RF s s') (h2 : RF s' s'') : RF s s'' := by
  obtain ⟨a1, a2, a3, a4, a5⟩ := h1
  obtain ⟨b1, b2, b3, b4, b5⟩ := h2
  refine ⟨by rw [b1, a1], by rw [b2, a2], by rw [b3, a3], by rw [b4, a4], ?_⟩
  rcases b5 with ⟨b5, b6⟩ | b5
  · rcases a5 with ⟨a5, a6⟩ | ⟨a5, a6⟩
    · exact Or.inl ⟨by rw [b5, a5], by rw [b6, a6]⟩
    · exact Or.inr ⟨by rw [b5, a5], by rw [b6, a6]⟩
  · exact Or.inr b5

theorem RI_of_RF {c : Cfg} {s s' : State} (h : RI c s) (f : RF s s') : RI c s' := by
  obtain ⟨a1, a2, a3, a4, a5⟩ := h
  obtain ⟨f1, f2, f3, f4, f5⟩ := f
  refine ⟨?_, ?_, ?_, ?_, ?_⟩
  · rw [f1, f2]; exact a1
  · rcases f5 with ⟨f5, f6⟩ | ⟨f5, f6⟩
    · rw [f5, f6]; exact a2
    · rw [f5, f6]
  · intro hd
    rcases f5 with ⟨f5, f6⟩ | ⟨f5, f6⟩
    · rw [f3, f4]; exact a3 (by rw [← f5]; exact hd)
    · rw [f5] at hd; cases hd
  · intro hr
    rcases f5 with ⟨f5, f6⟩ | ⟨f5, f6⟩
    · rw [f5, f4]; exact a4 (by rw [← f1]; exact hr)
    · exact Or.inl f5
  · intro he
    rcases f5 with ⟨f5, f6⟩ | ⟨f5, f6⟩
    · rw [f5, f4]; exact a5 (by rw [← f2]; exact he)
    · exact Or.inl f5

theorem RF_detach (s : State) (k : Option Nat) : RF s (detach s k) := by
  unfold detach; split
  · exact RF.refl s
  · split
    · exact ⟨rfl, rfl, rfl, rfl, Or.inl ⟨rfl, rfl⟩⟩
    · exact RF.refl s

theorem RF_advance (c : Cfg) (s : State) (p : Nat) : RF s (advance c s p) :=
  ⟨rfl, rfl, rfl, rfl, Or.inl ⟨rfl, rfl⟩⟩

theorem RF_parsePush (c : Cfg) (s : State) (b : Nat) : RF s (parsePush c s b) :=
  ⟨rfl, rfl, rfl, rfl, Or.inl ⟨rfl, rfl⟩⟩

theorem RF_parseMatch (c : Cfg) (s : State) (b : Nat) : RF s (parseMatch c s b) := by
  unfold parseMatch; split
  · exact ⟨rfl, rfl, rfl, rfl, Or.inl ⟨rfl, rfl⟩⟩
  · split
    · exact ⟨rfl, rfl, rfl, rfl, Or.inl ⟨rfl, rfl⟩⟩
    · split
      · dsimp only; split <;> exact ⟨rfl, rfl, rfl, rfl, Or.inl ⟨rfl, rfl⟩⟩
      · exact ⟨rfl, rfl, rfl, rfl, Or.inl ⟨rfl, rfl⟩⟩

theorem RF_parseFinish (s : State) (u : Nat) : RF s (parseFinish s u) :=
  ⟨rfl, rfl, rfl, rfl, Or.inr ⟨rfl, rfl⟩⟩

theorem RF_parseMore (c : Cfg) (s : State) (k : Option Nat) : RF s (parseMore c s k) :=
  ⟨rfl, rfl, rfl, rfl, Or.inl ⟨rfl, rfl⟩⟩

theorem RF_parseVerdict (c : Cfg) (s : State) (r : PRes) : RF s (parseVerdict c s r) := by
  cases r with
  | err u => exact ⟨rfl, rfl, rfl, rfl, Or.inl ⟨rfl, rfl⟩⟩
  | finish u ok =>
    cases ok with
    | false => exact ⟨rfl, rfl, rfl, rfl, Or.inr ⟨rfl, rfl⟩⟩
    | true => exact RF_parseFinish s u
  | hdr b => exact RF.trans (RF_parsePush c s b) (RF_parseMatch c _ b)

theorem RF_retrMove (c : Cfg) (s : State) (j : Job) (n : Nat) : RF s (retrMove c s j n) := by
  unfold retrMove; split
  · exact ⟨rfl, rfl, rfl, rfl, Or.inl ⟨rfl, rfl⟩⟩
  · exact RF.refl s

theorem RF_retrDone (c : Cfg) (s : State) (j : Job) (n : Nat) : RF s (retrDone c s j n) := by
  unfold retrDone; dsimp only; split <;> exact ⟨rfl, rfl, rfl, rfl, Or.inl ⟨rfl, rfl⟩⟩

theorem RF_scanNew (c : Cfg) (s : State) (x : Nat) : RF s (scanNew c s x) := by
  unfold scanNew; split <;> exact ⟨rfl, rfl, rfl, rfl, Or.inl ⟨rfl, rfl⟩⟩

theorem RF_scanRequeue (c : Cfg) (s : State) (x hi : Nat) : RF s (scanRequeue c s x hi) := by
  unfold scanRequeue; split
  · exact ⟨rfl, rfl, rfl, rfl, Or.inl ⟨rfl, rfl⟩⟩
  · exact RF.refl s

/-- every scheduler-side step leaves the reader's fields alone -/
theorem RF_step {c : Cfg} {s s' : State} {l : Label} (hs : step c s l = some s')
    (hl : l ≠ .rTake ∧ l ≠ .rQuit ∧ l ≠ .rBlock ∧ l ≠ .rEmpty ∧ l ≠ .rEof) : RF s s' := by
  unfold step at hs
  split at hs
  · simp at hs
  · cases l with
    | rTake => exact absurd rfl hl.1
    | rQuit => exact absurd rfl hl.2.1
    | rBlock => exact absurd rfl hl.2.2.1
    | rEmpty => exact absurd rfl hl.2.2.2.1
    | rEof => exact absurd rfl hl.2.2.2.2
    | wDone =>
      replace hs : stepWDone s = some s' := hs
      unfold stepWDone at hs; split at hs <;> simp at hs; subst hs
      exact ⟨rfl, rfl, rfl, rfl, Or.inl ⟨rfl, rfl⟩⟩
    | reorder ob =>
      replace hs : stepReorder c s ob = some s' := hs
      unfold stepReorder at hs; split at hs
      · split at hs
        · simp only [Option.some.injEq] at hs; subst hs
          exact ⟨rfl, rfl, rfl, rfl, Or.inl ⟨rfl, rfl⟩⟩
        · split at hs <;> simp only [Option.some.injEq] at hs <;> subst hs <;>
            exact ⟨rfl, rfl, rfl, rfl, Or.inl ⟨rfl, rfl⟩⟩
      · simp at hs
    | parseStart =>
      replace hs : stepParseStart c s = some s' := hs
      unfold stepParseStart at hs; split at hs
      · simp only [Option.some.injEq] at hs; subst hs
        exact ⟨rfl, rfl, rfl, rfl, Or.inl ⟨rfl, rfl⟩⟩
      · simp at hs
    | parseEnd =>
      replace hs : stepParseEnd c s = some s' := hs
      unfold stepParseEnd at hs; split at hs
      · simp at hs
      · next k hk =>
        have h0 : RF s (detach { s with pphase := none } k) :=
          RF.trans (s' := { s with pphase := none }) ⟨rfl, rfl, rfl, rfl, Or.inl ⟨rfl, rfl⟩⟩
            (RF_detach _ k)
        dsimp only at hs
        generalize detach { s with pphase := none } k = s1 at *
        split at hs
        · simp only [Option.some.injEq] at hs; subst hs
          exact RF.trans h0 (RF_parseMore c s1 k)
        · simp only [Option.some.injEq] at hs; subst hs
          exact RF.trans h0 (RF_parseVerdict c s1 _)
    | retrStart j =>
      replace hs : stepRetrStart c s j = some s' := hs
      unfold stepRetrStart at hs; split at hs
      · simp only [Option.some.injEq] at hs; subst hs
        exact ⟨rfl, rfl, rfl, rfl, Or.inl ⟨rfl, rfl⟩⟩
      · simp at hs
    | retrEnd j k =>
      replace hs : stepRetrEnd c s j k = some s' := hs
      unfold stepRetrEnd at hs; split at hs
      · have h0 : RF s (detach { s with busy := s.busy.erase (.retr j k) } k) :=
          RF.trans (s' := { s with busy := s.busy.erase (.retr j k) })
            ⟨rfl, rfl, rfl, rfl, Or.inl ⟨rfl, rfl⟩⟩ (RF_detach _ k)
        dsimp only at hs
        generalize detach { s with busy := s.busy.erase (.retr j k) } k = s1 at *
        have hx : ∀ t jj, RF t (retrExit t jj) :=
          fun t jj => ⟨rfl, rfl, rfl, rfl, Or.inl ⟨rfl, rfl⟩⟩
        split at hs
        · simp only [Option.some.injEq] at hs; subst hs; exact RF.trans h0 (hx _ _)
        · split at hs
          · simp only [Option.some.injEq] at hs; subst hs; exact RF.trans h0 (hx _ _)
          · split at hs
            · split at hs
              · simp only [Option.some.injEq] at hs; subst hs
                exact RF.trans h0 (RF.trans (RF_retrMove c s1 j _) (hx _ _))
              · simp only [Option.some.injEq] at hs; subst hs
                exact RF.trans h0 (RF.trans (RF_retrMove c s1 j _)
                  ⟨rfl, rfl, rfl, rfl, Or.inl ⟨rfl, rfl⟩⟩)
            · simp only [Option.some.injEq] at hs; subst hs
              exact RF.trans h0 (RF.trans (RF_retrMove c s1 j _) (RF_retrDone c _ j _))
      · simp at hs
    | retrPost e =>
      replace hs : stepRetrPost s e = some s' := hs
      unfold stepRetrPost at hs; split at hs
      · simp only [Option.some.injEq] at hs; subst hs
        exact ⟨rfl, rfl, rfl, rfl, Or.inl ⟨rfl, rfl⟩⟩
      · simp at hs
    | emitStart e =>
      replace hs : stepEmitStart c s e = some s' := hs
      unfold stepEmitStart at hs; split at hs
      · simp only [Option.some.injEq] at hs; subst hs
        exact ⟨rfl, rfl, rfl, rfl, Or.inl ⟨rfl, rfl⟩⟩
      · simp at hs
    | emitEnd e =>
      replace hs : stepEmitEnd s e = some s' := hs
      unfold stepEmitEnd at hs; split at hs
      · dsimp only at hs
        split at hs <;> simp only [Option.some.injEq] at hs <;> subst hs <;>
          exact ⟨rfl, rfl, rfl, rfl, Or.inl ⟨rfl, rfl⟩⟩
      · simp at hs
    | scanStart sp =>
      replace hs : stepScanStart c s sp = some s' := hs
      unfold stepScanStart at hs; split at hs
      · simp only [Option.some.injEq] at hs; subst hs
        exact ⟨rfl, rfl, rfl, rfl, Or.inl ⟨rfl, rfl⟩⟩
      · simp at hs
    | scanEnd st k =>
      replace hs : stepScanEnd c s st k = some s' := hs
      unfold stepScanEnd at hs; split at hs
      · have h0 : RF s (detach { s with busy := s.busy.erase (.scan st k) } (some k)) :=
          RF.trans (s' := { s with busy := s.busy.erase (.scan st k) })
            ⟨rfl, rfl, rfl, rfl, Or.inl ⟨rfl, rfl⟩⟩ (RF_detach _ _)
        dsimp only at hs
        generalize detach { s with busy := s.busy.erase (.scan st k) } (some k) = s1 at *
        split at hs
        · simp only [Option.some.injEq] at hs; subst hs
          exact RF.trans h0 ⟨rfl, rfl, rfl, rfl, Or.inl ⟨rfl, rfl⟩⟩
        · split at hs
          · simp only [Option.some.injEq] at hs; subst hs
            exact RF.trans h0 ⟨rfl, rfl, rfl, rfl, Or.inl ⟨rfl, rfl⟩⟩
          · simp only [Option.some.injEq] at hs; subst hs
            exact RF.trans h0 (RF.trans (RF_scanNew c s1 _) (RF_scanRequeue c _ _ _))
      · simp at hs

theorem ri_step {c : Cfg} {s s' : State} {l : Label} (h : RI c s)
    (hs : step c s l = some s') : RI c s' := by
  by_cases hl : l ≠ .rTake ∧ l ≠ .rQuit ∧ l ≠ .rBlock ∧ l ≠ .rEmpty ∧ l ≠ .rEof
  · exact RI_of_RF h (RF_step hs hl)
  · obtain ⟨a1, a2, a3, a4, a5⟩ := h
    unfold step at hs
    split at hs
    · simp at hs
    · cases l with
      | rTake =>
        replace hs : stepRTake s = some s' := hs
        unfold stepRTake at hs; split at hs
        · next hg =>
          simp only [Bool.and_eq_true, beq_iff_eq] at hg
          simp only [Option.some.injEq] at hs; subst hs
          refine ⟨?_, a2, a3, ?_, a5⟩
          · constructor
            · intro hh; cases hh
            · intro hh; have := a1.2 hh; rw [hg.1.1] at this; cases this
          · intro hh; cases hh
        · simp at hs
      | rQuit =>
        replace hs : stepRQuit s = some s' := hs
        unfold stepRQuit at hs; split at hs
        · next hg =>
          simp only [Bool.and_eq_true, beq_iff_eq] at hg
          simp only [Option.some.injEq] at hs; subst hs
          refine ⟨?_, a2, a3, ?_, a5⟩
          · constructor
            · intro hh; cases hh
            · intro hh; have := a1.2 hh; rw [hg.1] at this; cases this
          · intro _; exact Or.inl (a2.2 hg.2)
        · simp at hs
      | rBlock =>
        replace hs : stepRBlock c s = some s' := hs
        unfold stepRBlock at hs; split at hs
        · next hg =>
          simp only [Bool.and_eq_true, beq_iff_eq, decide_eq_true_eq] at hg
          have hne : s.eof = true → False := by
            intro hh; have := a1.2 hh; rw [hg.1] at this; cases this
          have hph : ∀ r : RPhase,
              r = (if (s.nread + 1) * c.W ≤ c.T then RPhase.idle else RPhase.ateof) →
              (r = .done ↔ s.eof = true) ∧
              (r = .ateof → s.pdone = true ∨ c.T ≤ (s.nread + 1) * c.W) := by
            intro r hr
            constructor
            · constructor
              · intro hh; rw [hh] at hr; split at hr <;> cases hr
              · intro hh; exact (hne hh).elim
            · intro hh; rw [hh] at hr
              split at hr
              · cases hr
              · exact Or.inr (by omega)
          dsimp only at hs; split at hs <;> simp only [Option.some.injEq] at hs <;> subst hs
          · next hpd =>
            refine ⟨(hph _ rfl).1, a2, ?_, (hph _ rfl).2, ?_⟩
            · intro hd; rw [hpd] at hd; cases hd
            · intro hh; exact (hne hh).elim
          · next hpd =>
            have hpd' : s.pdone = false := by simpa using hpd
            refine ⟨(hph _ rfl).1, a2, ?_, (hph _ rfl).2, ?_⟩
            · intro _; show s.rd + 1 = s.nread + 1; rw [a3 hpd']
            · intro hh; exact (hne hh).elim
        · simp at hs
      | rEmpty =>
        replace hs : stepREmpty c s = some s' := hs
        unfold stepREmpty at hs; split at hs
        · next hg =>
          simp only [Bool.and_eq_true, beq_iff_eq, Bool.not_eq_true', decide_eq_false_iff_not] at hg
          simp only [Option.some.injEq] at hs; subst hs
          refine ⟨?_, a2, a3, ?_, a5⟩
          · constructor
            · intro hh; cases hh
            · intro hh; have := a1.2 hh; rw [hg.1] at this; cases this
          · intro _; exact Or.inr (by have := hg.2; show c.T ≤ s.nread * c.W; omega)
        · simp at hs
      | rEof =>
        replace hs : stepREof s = some s' := hs
        unfold stepREof at hs; split at hs
        · next hg =>
          have hg' : s.rph = .ateof := by simpa using hg
          simp only [Option.some.injEq] at hs; subst hs
          refine ⟨⟨fun _ => rfl, fun _ => rfl⟩, a2, a3, ?_, ?_⟩
          · intro hh; cases hh
          · intro _; exact a4 hg'
        · simp at hs
      | wDone => exact absurd ⟨by simp, by simp, by simp, by simp, by simp⟩ hl
      | reorder ob => exact absurd ⟨by simp, by simp, by simp, by simp, by simp⟩ hl
      | parseStart => exact absurd ⟨by simp, by simp, by simp, by simp, by simp⟩ hl
      | parseEnd => exact absurd ⟨by simp, by simp, by simp, by simp, by simp⟩ hl
      | retrStart j => exact absurd ⟨by simp, by simp, by simp, by simp, by simp⟩ hl
      | retrEnd j k => exact absurd ⟨by simp, by simp, by simp, by simp, by simp⟩ hl
      | retrPost e => exact absurd ⟨by simp, by simp, by simp, by simp, by simp⟩ hl
      | emitStart e => exact absurd ⟨by simp, by simp, by simp, by simp, by simp⟩ hl
      | emitEnd e => exact absurd ⟨by simp, by simp, by simp, by simp, by simp⟩ hl
      | scanStart sp => exact absurd ⟨by simp, by simp, by simp, by simp, by simp⟩ hl
      | scanEnd st k => exact absurd ⟨by simp, by simp, by simp, by simp, by simp⟩ hl

/-- the reader-thread invariant holds in every reachable state -/
theorem ri_reach {c : Cfg} {s : State} (h : Reach c s) : RI c s := by
  induction h with
  | init => exact RI_init c
  | step l _ hs ih => exact ri_step ih hs

/-! ## positions versus the delivered input -/

/-- the retrieve job exists: queued in `retr_q` or running -/
def NJIn (s : State) (j : Job) : Prop := j ∈ s.retrQ ∨ ∃ k, Phase.retr j k ∈ s.busy

/-- the inductive core -/
structure NC (c : Cfg) (s : State) : Prop where
  pt  : s.pdone = false → s.ppos ≤ tailOffs c s
  jt  : ∀ j, NJIn s j → j.curr ≤ tailOffs c s
  kb  : ∀ j k, Phase.retr j (some k) ∈ s.busy → k < s.rd
  pkb : ∀ k, s.pphase = some (some k) → k < s.rd
  ot  : ∀ u ∈ s.orphans, u.f.endp ≤ tailOffs c s
  hn  : s.pdone = false → ∀ k, s.head ≤ k → k < s.rd → s.ppos < offs c (k + 1)
  /-- the parser attached "at end of input" -/
  pn  : s.pphase = some none → s.eof = true ∧ tailOffs c s ≤ s.ppos

theorem NC_init (c : Cfg) : NC c (init c) := by
  refine ⟨?_, ?_, ?_, ?_, ?_, ?_, ?_⟩
  · intro _; simp [init]
  · intro j hj; rcases hj with hj | ⟨k, hk⟩
    · simp [init] at hj
    · simp [init] at hk
  · intro j k hk; simp [init] at hk
  · intro k hk; simp [init] at hk
  · intro u hu; simp [init] at hu
  · intro _ k _ hk; simp [init] at hk
  · intro hk; simp [init] at hk

/-- `NC` is inherited when the positions stay and every job / attachment /
    recorded end is bounded as before -/
theorem NC_of {c : Cfg} {s s' : State} (h : NC c s)
    (e1 : s'.rd = s.rd) (e2 : s'.head = s.head) (e3 : s'.pdone = s.pdone) (e4 : s'.ppos = s.ppos)
    (e5 : s'.pphase = s.pphase) (e6 : s.eof = true → s'.eof = true)
    (hj : ∀ j, NJIn s' j → j.curr ≤ tailOffs c s)
    (hk : ∀ j k, Phase.retr j (some k) ∈ s'.busy → k < s.rd)
    (ho : ∀ u ∈ s'.orphans, u.f.endp ≤ tailOffs c s) : NC c s' := by
  obtain ⟨a1, a2, a3, a4, a5, a6, a7⟩ := h
  have ht : tailOffs c s' = tailOffs c s := by unfold tailOffs; rw [e1]
  refine ⟨?_, ?_, ?_, ?_, ?_, ?_, ?_⟩
  · intro hd; rw [ht, e4]; exact a1 (by rw [← e3]; exact hd)
  · intro j hjj; rw [ht]; exact hj j hjj
  · intro j k hm; rw [e1]; exact hk j k hm
  · intro k hkk; rw [e1]; exact a4 k (by rw [← e5]; exact hkk)
  · intro u hu; rw [ht]; exact ho u hu
  · intro hd k h1 h2; rw [e4]
    exact a6 (by rw [← e3]; exact hd) k (by rw [← e2]; exact h1) (by rw [← e1]; exact h2)
  · intro hp
    have := a7 (by rw [← e5]; exact hp)
    rw [ht, e4]; exact ⟨e6 this.1, this.2⟩

/-- `NC` only reads these fields -/
theorem NC_congr {c : Cfg} {s s' : State} (h : NC c s)
    (e1 : s'.rd = s.rd) (e2 : s'.head = s.head) (e3 : s'.pdone = s.pdone) (e4 : s'.ppos = s.ppos)
    (e5 : s'.pphase = s.pphase) (e6 : s'.eof = s.eof) (e7 : s'.retrQ = s.retrQ)
    (e8 : s'.busy = s.busy) (e9 : s'.orphans = s.orphans) : NC c s' := by
  refine NC_of h e1 e2 e3 e4 e5 (fun he => by rw [e6]; exact he) ?_ ?_ ?_
  · intro j hj; unfold NJIn at hj; rw [e7, e8] at hj; exact h.jt j hj
  · intro j k hm; rw [e8] at hm; exact h.kb j k hm
  · intro u hu; rw [e9] at hu; exact h.ot u hu

theorem NC_detach {c : Cfg} {s : State} (k : Option Nat) (h : NC c s) : NC c (detach s k) := by
  unfold detach; split
  · exact h
  · split
    · exact NC_congr h rfl rfl rfl rfl rfl rfl rfl rfl rfl
    · exact h

theorem NC_busy_erase {c : Cfg} {s : State} (ph : Phase) (h : NC c s) :
    NC c { s with busy := s.busy.erase ph } := by
  refine NC_of h rfl rfl rfl rfl rfl (fun he => he) ?_ ?_ h.ot
  · intro j hj
    rcases hj with hj | ⟨k, hk⟩
    · exact h.jt j (Or.inl hj)
    · exact h.jt j (Or.inr ⟨k, List.mem_of_mem_erase hk⟩)
  · intro j k hm; exact h.kb j k (List.mem_of_mem_erase hm)

theorem NC_busy_cons {c : Cfg} {s : State} (ph : Phase) (h : NC c s)
    (hn : ∀ j k, ph ≠ Phase.retr j k) : NC c { s with busy := ph :: s.busy } := by
  refine NC_of h rfl rfl rfl rfl rfl (fun he => he) ?_ ?_ h.ot
  · intro j hj
    rcases hj with hj | ⟨k, hk⟩
    · exact h.jt j (Or.inl hj)
    · rcases List.mem_cons.1 hk with e | hm
      · exact absurd e.symm (hn j k)
      · exact h.jt j (Or.inr ⟨k, hm⟩)
  · intro j k hm
    rcases List.mem_cons.1 hm with e | hm
    · exact absurd e.symm (hn j (some k))
    · exact h.kb j k hm

/-! ### `advance` -/

/-- after `advance(p)` no block of `input_q` lies entirely before `p` -/
theorem advance_head_near {c : Cfg} (hW : 0 < c.W) (s : State) (p k : Nat)
    (h1 : newHead c s p ≤ k) (h2 : k < s.rd) : p < offs c (k + 1) := by
  unfold newHead at h1
  unfold offs
  by_cases hT : c.T ≤ p
  · rw [if_pos hT] at h1; omega
  · rw [if_neg hT] at h1
    have hk : p / c.W ≤ k := by omega
    have h3 := Nat.lt_mul_div_succ p hW
    have h4 : (p / c.W + 1) * c.W ≤ (k + 1) * c.W := Nat.mul_le_mul_right _ (by omega)
    rw [Nat.mul_comm] at h3
    omega

/-- `advance(p)` to a position inside the delivered input, parser not running -/
theorem NC_advance {c : Cfg} (hW : 0 < c.W) {s : State} (p : Nat) (h : NC c s)
    (hp : p ≤ tailOffs c s) (hpp : s.pphase = none) : NC c (advance c s p) := by
  obtain ⟨a1, a2, a3, a4, a5, a6, a7⟩ := h
  refine ⟨?_, ?_, a3, a4, a5, ?_, ?_⟩
  · intro _; exact hp
  · intro j hj
    rcases hj with hj | ⟨k, hk⟩
    · exact a2 j (Or.inl (List.mem_filter.1 hj).1)
    · exact a2 j (Or.inr ⟨k, hk⟩)
  · intro _ k h1 h2; exact advance_head_near hW s p k h1 h2
  · intro hk
    rw [show (advance c s p).pphase = s.pphase from rfl, hpp] at hk; cases hk

/-! ### reader steps -/

theorem NC_rTake {c : Cfg} {s s' : State} (h : NC c s) (hs : stepRTake s = some s') : NC c s' := by
  unfold stepRTake at hs; split at hs <;> simp at hs; subst hs
  exact NC_congr h rfl rfl rfl rfl rfl rfl rfl rfl rfl

theorem NC_rQuit {c : Cfg} {s s' : State} (h : NC c s) (hs : stepRQuit s = some s') : NC c s' := by
  unfold stepRQuit at hs; split at hs <;> simp at hs; subst hs
  exact NC_congr h rfl rfl rfl rfl rfl rfl rfl rfl rfl

theorem NC_rEmpty {c : Cfg} {s s' : State} (h : NC c s) (hs : stepREmpty c s = some s') :
    NC c s' := by
  unfold stepREmpty at hs; split at hs <;> simp at hs; subst hs
  exact NC_congr h rfl rfl rfl rfl rfl rfl rfl rfl rfl

theorem NC_rEof {c : Cfg} {s s' : State} (h : NC c s) (hs : stepREof s = some s') : NC c s' := by
  unfold stepREof at hs; split at hs <;> simp at hs; subst hs
  exact NC_of h rfl rfl rfl rfl rfl (fun _ => rfl) h.jt h.kb h.ot

/-- a new block is delivered: `tail_offs` grows, the new block is not empty -/
theorem NC_rBlock {c : Cfg} (hW : 0 < c.W) {s s' : State} (h : NC c s) (hR : RI c s) (hQ : SQ c s)
    (hs : stepRBlock c s = some s') : NC c s' := by
  unfold stepRBlock at hs; split at hs
  · next hg =>
    simp only [Bool.and_eq_true, beq_iff_eq, decide_eq_true_eq] at hg
    dsimp only at hs; split at hs <;> simp only [Option.some.injEq] at hs <;> subst hs
    · exact NC_congr h rfl rfl rfl rfl rfl rfl rfl rfl rfl
    · obtain ⟨a1, a2, a3, a4, a5, a6, a7⟩ := h
      have hlt : offs c s.rd < offs c (s.rd + 1) := offs_lt_succ hW hQ.rn hg.2
      have hle : tailOffs c s ≤ offs c (s.rd + 1) := Nat.le_of_lt hlt
      refine ⟨?_, ?_, ?_, ?_, ?_, ?_, ?_⟩
      · intro hd; exact Nat.le_trans (a1 hd) hle
      · intro j hj; exact Nat.le_trans (a2 j hj) hle
      · intro j k hm; exact Nat.lt_succ_of_lt (a3 j k hm)
      · intro k hk; exact Nat.lt_succ_of_lt (a4 k hk)
      · intro u hu; exact Nat.le_trans (a5 u hu) hle
      · intro hd k h1 h2
        by_cases hk : k < s.rd
        · exact a6 hd k h1 hk
        · have hk' : k = s.rd := by
            have : k < s.rd + 1 := h2
            omega
          subst hk'
          have := a1 hd
          show s.ppos < offs c (s.rd + 1)
          unfold tailOffs at this
          omega
      · intro hp
        have he := (a7 hp).1
        have := hR.dn.2 he
        rw [hg.1] at this; cases this
  · simp at hs

/-! ### simple scheduler steps -/

theorem NC_wDone {c : Cfg} {s s' : State} (h : NC c s) (hs : stepWDone s = some s') : NC c s' := by
  unfold stepWDone at hs; split at hs <;> simp at hs; subst hs
  exact NC_congr h rfl rfl rfl rfl rfl rfl rfl rfl rfl

theorem NC_reorder {c : Cfg} {s s' : State} {ob : OB} (h : NC c s)
    (hs : stepReorder c s ob = some s') : NC c s' := by
  unfold stepReorder at hs; split at hs
  · split at hs
    · simp only [Option.some.injEq] at hs; subst hs
      exact NC_congr h rfl rfl rfl rfl rfl rfl rfl rfl rfl
    · split at hs <;> simp only [Option.some.injEq] at hs <;> subst hs <;>
        exact NC_congr h rfl rfl rfl rfl rfl rfl rfl rfl rfl
  · simp at hs

theorem select_parse_attach {c : Cfg} {s : State} (h : selectTask c s = some "parse") :
    canAttach s.ppos (tailOffs c s) s.eof = true := by
  have := select_guard h
  simp [guardOf, dCanParse, view] at this
  exact this.2

theorem NC_parseStart {c : Cfg} {s s' : State} (h : NC c s)
    (hs : stepParseStart c s = some s') : NC c s' := by
  unfold stepParseStart at hs; split at hs
  · next hg =>
    simp only [Bool.and_eq_true, beq_iff_eq] at hg
    have hca := select_parse_attach hg.1.2
    simp only [Option.some.injEq] at hs; subst hs
    obtain ⟨a1, a2, a3, a4, a5, a6, a7⟩ := h
    refine ⟨a1, a2, a3, ?_, a5, a6, ?_⟩
    · intro k hk
      have hk' : (if s.ppos < tailOffs c s then some (s.ppos / c.W) else none) = some k := by
        simpa using hk
      split at hk'
      · next hlt =>
        simp only [Option.some.injEq] at hk'; subst hk'
        exact div_lt_of_lt_offs (c := c) hlt
      · cases hk'
    · intro hk
      have hk' : (if s.ppos < tailOffs c s then some (s.ppos / c.W) else none) = none := by
        simpa using hk
      split at hk'
      · cases hk'
      · next hlt =>
        unfold canAttach at hca
        simp only [Bool.or_eq_true, decide_eq_true_eq, Bool.and_eq_true] at hca
        rcases hca with hca | hca
        · exact absurd hca hlt
        · exact ⟨hca.1, Nat.le_of_eq hca.2.symm⟩
  · simp at hs

theorem NC_retrStart {c : Cfg} {s s' : State} {j : Job} (h : NC c s)
    (hs : stepRetrStart c s j = some s') : NC c s' := by
  unfold stepRetrStart at hs; split at hs
  · next hg =>
    simp only [Bool.and_eq_true, List.contains_iff_mem] at hg
    have hj : j ∈ s.retrQ := hg.1.2
    simp only [Option.some.injEq] at hs; subst hs
    refine NC_of h rfl rfl rfl rfl rfl (fun he => he) ?_ ?_ h.ot
    · intro j' hin
      rcases hin with hin | ⟨k', hk'⟩
      · exact h.jt j' (Or.inl (List.mem_of_mem_erase hin))
      · rcases List.mem_cons.1 hk' with e | hm
        · cases e; exact h.jt j (Or.inl hj)
        · exact h.jt j' (Or.inr ⟨k', hm⟩)
    · intro j' k' hm
      rcases List.mem_cons.1 hm with e | hm
      · simp only [Phase.retr.injEq] at e
        have e2 := e.2
        split at e2
        · cases e2
        · next hlt =>
          split at e2
          · split at e2
            · next hh => simp only [Option.some.injEq] at e2; subst e2; exact hh
            · cases e2
          · simp only [Option.some.injEq] at e2; subst e2
            exact div_lt_of_lt_offs (c := c) (r := s.rd) (by unfold tailOffs at hlt; omega)
      · exact h.kb j' k' hm
  · simp at hs

theorem NC_retrPost {c : Cfg} {s s' : State} {e : EJob} (h : NC c s)
    (hs : stepRetrPost s e = some s') : NC c s' := by
  unfold stepRetrPost at hs; split at hs
  · simp only [Option.some.injEq] at hs; subst hs
    exact NC_congr (NC_busy_erase (.retr2 e) h) rfl rfl rfl rfl rfl rfl rfl rfl rfl
  · simp at hs

theorem NC_emitStart {c : Cfg} {s s' : State} {e : EJob} (h : NC c s)
    (hs : stepEmitStart c s e = some s') : NC c s' := by
  unfold stepEmitStart at hs; split at hs
  · simp only [Option.some.injEq] at hs; subst hs
    exact NC_congr (NC_busy_cons (.emit e) h (by intro j k hh; cases hh))
      rfl rfl rfl rfl rfl rfl rfl rfl rfl
  · simp at hs

theorem NC_emitEnd {c : Cfg} {s s' : State} {e : EJob} (h : NC c s)
    (hs : stepEmitEnd s e = some s') : NC c s' := by
  unfold stepEmitEnd at hs; split at hs
  · dsimp only at hs
    split at hs <;> simp only [Option.some.injEq] at hs <;> subst hs <;>
      exact NC_congr (NC_busy_erase (.emit e) h) rfl rfl rfl rfl rfl rfl rfl rfl rfl
  · simp at hs

theorem NC_scanStart {c : Cfg} {s s' : State} {sp : Nat} (h : NC c s)
    (hs : stepScanStart c s sp = some s') : NC c s' := by
  unfold stepScanStart at hs; split at hs
  · simp only [Option.some.injEq] at hs; subst hs
    have h1 := NC_busy_cons
      (.scan (if sp / c.W == s.ppos / c.W && sp < s.ppos then s.ppos else sp) (sp / c.W))
      h (by intro j k hh; cases hh)
    exact NC_congr h1 rfl rfl rfl rfl rfl rfl rfl rfl rfl
  · simp at hs

/-! ### scanEnd -/

theorem NC_scanNew {c : Cfg} {s1 : State} (x : Nat) (h1 : NC c s1) (hx : x ≤ tailOffs c s1) :
    NC c (scanNew c s1 x) := by
  unfold scanNew; split
  · exact NC_congr h1 rfl rfl rfl rfl rfl rfl rfl rfl rfl
  · refine NC_of h1 rfl rfl rfl rfl rfl (fun he => he) ?_ h1.kb h1.ot
    intro j hin
    rcases hin with hin | ⟨k, hk⟩
    · rcases List.mem_cons.1 hin with e | hm
      · subst e; exact hx
      · exact h1.jt j (Or.inl hm)
    · exact h1.jt j (Or.inr ⟨k, hk⟩)

theorem NC_scanRequeue {c : Cfg} {s2 : State} (x hi : Nat) (h : NC c s2) :
    NC c (scanRequeue c s2 x hi) := by
  unfold scanRequeue; split
  · exact NC_congr h rfl rfl rfl rfl rfl rfl rfl rfl rfl
  · exact h

theorem NC_scanEnd {c : Cfg} {s s' : State} {st k : Nat} (h : NC c s) (hQ : SQ c s)
    (hs : stepScanEnd c s st k = some s') : NC c s' := by
  unfold stepScanEnd at hs; split at hs
  · next hg =>
    have hm : Phase.scan st k ∈ s.busy := by simpa using hg
    have hk : k < s.rd := hQ.bk _ hm
    have h1 : NC c (detach { s with busy := s.busy.erase (.scan st k) } (some k)) :=
      NC_detach _ (NC_busy_erase _ h)
    have hrd : (detach { s with busy := s.busy.erase (.scan st k) } (some k)).rd = s.rd := by
      unfold detach; dsimp only; split <;> rfl
    generalize detach { s with busy := s.busy.erase (.scan st k) } (some k) = s1 at h1 hs hrd
    dsimp only at hs
    split at hs
    · simp only [Option.some.injEq] at hs; subst hs
      exact NC_congr h1 rfl rfl rfl rfl rfl rfl rfl rfl rfl
    · next x hx =>
      split at hs
      · simp only [Option.some.injEq] at hs; subst hs
        exact NC_congr h1 rfl rfl rfl rfl rfl rfl rfl rfl rfl
      · simp only [Option.some.injEq] at hs; subst hs
        have hxr := (scanFind_range hx).2
        have hmono := offs_mono c (show k + 1 ≤ s.rd from hk)
        exact NC_scanRequeue x _ (NC_scanNew x h1 (by unfold tailOffs; rw [hrd]; omega))
  · simp at hs

/-! ### retrEnd -/

/-- `retrieve()` stops inside the delivered input -/
theorem newc_le_tail {c : Cfg} {s : State} {j : Job} {k : Option Nat} (h : NC c s)
    (hm : Phase.retr j k ∈ s.busy) : retrNewc c j k ≤ tailOffs c s := by
  have hc := h.jt j (Or.inr ⟨k, hm⟩)
  cases k with
  | none => exact hc
  | some kk =>
    have hk := h.kb j kk hm
    have hmono := offs_mono c (show kk + 1 ≤ s.rd from hk)
    show max j.curr (min (rres c j.base).e (offs c (kk + 1))) ≤ tailOffs c s
    unfold tailOffs at hc ⊢
    omega

theorem NC_retrMove {c : Cfg} (hW : 0 < c.W) {s1 : State} {j : Job} {newc : Nat} (h1 : NC c s1)
    (hmas : j.master = true → newc ≤ tailOffs c s1 ∧ s1.pphase = none) :
    NC c (retrMove c s1 j newc) := by
  unfold retrMove; split
  · next hm =>
    obtain ⟨q1, q2⟩ := hmas hm
    exact NC_congr (NC_advance hW newc h1 q1 q2) rfl rfl rfl rfl rfl rfl rfl rfl rfl
  · exact h1

theorem NC_retrMore {c : Cfg} {s2 : State} (j : Job) {newc : Nat} (h2 : NC c s2)
    (hn : newc ≤ tailOffs c s2) : NC c (retrMore s2 j newc) := by
  refine NC_of h2 rfl rfl rfl rfl rfl (fun he => he) ?_ h2.kb h2.ot
  intro x hx
  rcases hx with hx | ⟨k', hk'⟩
  · rcases List.mem_cons.1 hx with e | hm
    · subst e; exact hn
    · exact h2.jt x (Or.inl hm)
  · exact h2.jt x (Or.inr ⟨k', hk'⟩)

theorem NC_retrDone {c : Cfg} {s2 : State} (j : Job) {newc : Nat} (h2 : NC c s2)
    (hn : newc ≤ tailOffs c s2) : NC c (retrDone c s2 j newc) := by
  unfold retrDone
  dsimp only
  split
  · exact NC_congr (NC_busy_cons _ h2 (by intro j k hh; cases hh)) rfl rfl rfl rfl rfl rfl rfl rfl rfl
  · have h3 := NC_busy_cons (c := c)
      (.retr2 { base := j.base, idx := 0,
                left := (if (rres c j.base).ok then (rres c j.base).nb else 1),
                ok := (rres c j.base).ok && (rres c j.base).fin, corrupt := j.corrupt })
      h2 (by intro j k hh; cases hh)
    refine NC_of h3 rfl rfl rfl rfl rfl (fun he => he) h3.jt h3.kb ?_
    intro u hu
    rcases List.mem_append.1 hu with hu | hu
    · cases hub : j.ub with
      | none => rw [hub] at hu; cases hu
      | some f =>
        rw [hub] at hu
        simp only [List.mem_singleton] at hu
        subst hu
        exact hn
    · exact h2.ot u hu

theorem NC_retrEnd {c : Cfg} (hW : 0 < c.W) {s s' : State} {j : Job} {k : Option Nat}
    (h : NC c s) (hS : SI c s) (hs : stepRetrEnd c s j k = some s') : NC c s' := by
  unfold stepRetrEnd at hs; split at hs
  · next hg =>
    have hmem : Phase.retr j k ∈ s.busy := by simpa using hg
    have hnt := newc_le_tail h hmem
    have hcnt : List.countP Phase.mc (s.busy.erase (.retr j k)) + (if Job.mc j then 1 else 0)
        = List.countP Phase.mc s.busy := countP_erase_add Phase.mc hmem
    have hm0 := hS.mc0
    have h1 : NC c (detach { s with busy := s.busy.erase (.retr j k) } k) :=
      NC_detach _ (NC_busy_erase _ h)
    have hf := detach_fields { s with busy := s.busy.erase (.retr j k) } k
    have hrd : (detach { s with busy := s.busy.erase (.retr j k) } k).rd = s.rd :=
      (RF_detach { s with busy := s.busy.erase (.retr j k) } k).2.2.1
    have hmc1 : mcount (detach { s with busy := s.busy.erase (.retr j k) } k)
        + (if Job.mc j then 1 else 0) = mcount s := by
      rw [mcount_detach]
      show List.countP Job.mc s.retrQ + List.countP Phase.mc (s.busy.erase (.retr j k))
        + (if Job.mc j then 1 else 0) = List.countP Job.mc s.retrQ + List.countP Phase.mc s.busy
      omega
    generalize detach { s with busy := s.busy.erase (.retr j k) } k = s1 at h1 hf hmc1 hs hrd
    have f2 : s1.pphase = s.pphase := hf.2.1
    dsimp only at hs
    generalize retrNewc c j k = newc at hs hnt
    have hnt1 : newc ≤ tailOffs c s1 := by unfold tailOffs at hnt ⊢; rw [hrd]; exact hnt
    by_cases hpd : s1.pdone = true
    · rw [if_pos hpd] at hs
      simp only [Option.some.injEq] at hs; subst hs
      exact NC_congr h1 rfl rfl rfl rfl rfl rfl rfl rfl rfl
    · rw [if_neg hpd] at hs
      by_cases hab : j.redundant = true
      · rw [if_pos hab] at hs
        simp only [Option.some.injEq] at hs; subst hs
        exact NC_congr h1 rfl rfl rfl rfl rfl rfl rfl rfl rfl
      · rw [if_neg hab] at hs
        have hna' : j.redundant = false := by simpa using hab
        have h2 : NC c (retrMove c s1 j newc) := NC_retrMove hW h1 (by
          intro hmas
          have hmc := master_mc hmas hna'
          have hms : mcount s = 1 := by
            have := hS.mc1
            simp only [hmc, if_true] at hmc1; omega
          have hpp : s.pphase = none := by
            cases hp : s.pphase with
            | none => rfl
            | some x => have := hm0 (Or.inr (by simp [hp])); omega
          exact ⟨hnt1, by rw [f2, hpp]⟩)
        have hrd2 : (retrMove c s1 j newc).rd = s1.rd := (RF_retrMove c s1 j newc).2.2.1
        have hnt2 : newc ≤ tailOffs c (retrMove c s1 j newc) := by
          unfold tailOffs at hnt1 ⊢; rw [hrd2]; exact hnt1
        generalize retrMove c s1 j newc = s2 at h2 hnt2 hs
        by_cases hfin : (!decide ((rres c j.base).e ≤ newc)) = true
        · rw [if_pos hfin] at hs
          by_cases hov : newc < headOffs c s2
          · rw [if_pos hov] at hs
            simp only [Option.some.injEq] at hs; subst hs
            exact NC_congr h2 rfl rfl rfl rfl rfl rfl rfl rfl rfl
          · rw [if_neg hov] at hs
            simp only [Option.some.injEq] at hs; subst hs
            exact NC_retrMore j h2 hnt2
        · rw [if_neg hfin] at hs
          simp only [Option.some.injEq] at hs; subst hs
          exact NC_retrDone j h2 hnt2
  · simp at hs

/-! ### parseEnd -/

theorem popOrphans_endp {p : Nat → Bool} {os : List UB} {u : UB} (hu : u ∈ popOrphans p os) :
    ∃ x ∈ os, u.f.endp = x.f.endp := by
  simp only [popOrphans, List.mem_map, List.mem_filter] at hu
  obtain ⟨x, ⟨hx, _⟩, rfl⟩ := hu
  refine ⟨x, hx, ?_⟩
  split <;> rfl

theorem NC_parsePush {c : Cfg} (hW : 0 < c.W) {s1 : State} {b : Nat} (h1 : NC c s1)
    (hb : b ≤ tailOffs c s1) (hpp : s1.pphase = none) : NC c (parsePush c s1 b) := by
  obtain ⟨a1, a2, a3, a4, a5, a6, a7⟩ := NC_advance hW b h1 hb hpp
  refine ⟨a1, ?_, ?_, a4, ?_, a6, a7⟩
  · intro j hj
    rcases hj with hj | ⟨k, hk⟩
    · simp only [parsePush, List.mem_map] at hj
      obtain ⟨x, hx, rfl⟩ := hj
      exact a2 x (Or.inl hx)
    · simp only [parsePush, List.mem_map] at hk
      obtain ⟨x, hx, hxe⟩ := hk
      cases x with
      | retr j0 k0 =>
        simp only [flagPhase, Phase.retr.injEq] at hxe
        obtain ⟨rfl, rfl⟩ := hxe
        exact a2 j0 (Or.inr ⟨k0, hx⟩)
      | retr2 e => cases hxe
      | emit e => cases hxe
      | scan a b => cases hxe
  · intro j k hm
    simp only [parsePush, List.mem_map] at hm
    obtain ⟨x, hx, hxe⟩ := hm
    cases x with
    | retr j0 k0 =>
      simp only [flagPhase, Phase.retr.injEq] at hxe
      obtain ⟨rfl, rfl⟩ := hxe
      exact a3 j0 k hx
    | retr2 e => cases hxe
    | emit e => cases hxe
    | scan a b => cases hxe
  · intro u hu
    obtain ⟨x, hx, he⟩ := popOrphans_endp (p := fun x => decide (x < b)) (os := (advance c s1 b).orphans) hu
    rw [he]; exact a5 x hx

theorem NC_parseMatch {c : Cfg} (hW : 0 < c.W) {s3 : State} {b : Nat} (h3 : NC c s3)
    (hA : AI c s3) (hpp : s3.pphase = none) (hb : b ≤ tailOffs c s3) :
    NC c (parseMatch c s3 b) := by
  unfold parseMatch
  split
  · next j hj =>
    have hjm := List.mem_of_find?_eq_some hj
    have hjq := List.find?_some hj
    have hend := inqAt_endp hjq (hA.ecQ j hjm)
    have hjt := h3.jt j (Or.inl hjm)
    have hS : NC c { s3 with retrQ := replaceFirst (Job.inqAt b) Job.good s3.retrQ } := by
      refine NC_of h3 rfl rfl rfl rfl rfl (fun he => he) ?_ h3.kb h3.ot
      intro y hy
      rcases hy with hy | ⟨k, hk⟩
      · rcases mem_replaceFirst _ _ hy with hy | ⟨x, hx, _, rfl⟩
        · exact h3.jt y (Or.inl hy)
        · exact h3.jt x (Or.inl hx)
      · exact h3.jt y (Or.inr ⟨k, hk⟩)
    exact NC_congr (NC_advance hW j.endp hS (by show j.endp ≤ tailOffs c s3; omega) hpp)
      rfl rfl rfl rfl rfl rfl rfl rfl rfl
  · split
    · next ph hph =>
      have hpm := List.mem_of_find?_eq_some hph
      have hpq := List.find?_some hph
      have hS : NC c { s3 with busy := replaceFirst (Phase.inqAt b) Phase.good s3.busy } := by
        refine NC_of h3 rfl rfl rfl rfl rfl (fun he => he) ?_ ?_ h3.ot
        · intro y hy
          rcases hy with hy | ⟨k, hk⟩
          · exact h3.jt y (Or.inl hy)
          · rcases mem_replaceFirst _ _ hk with hk | ⟨x, hx, _, he⟩
            · exact h3.jt y (Or.inr ⟨k, hk⟩)
            · cases x with
              | retr j0 k0 =>
                simp only [Phase.good, Phase.retr.injEq] at he
                obtain ⟨rfl, _⟩ := he
                exact h3.jt j0 (Or.inr ⟨k0, hx⟩)
              | retr2 e => cases he
              | emit e => cases he
              | scan a b => cases he
        · intro y k hk
          rcases mem_replaceFirst _ _ hk with hk | ⟨x, hx, _, he⟩
          · exact h3.kb y k hk
          · cases x with
            | retr j0 k0 =>
              simp only [Phase.good, Phase.retr.injEq] at he
              obtain ⟨_, rfl⟩ := he
              exact h3.kb j0 k hx
            | retr2 e => cases he
            | emit e => cases he
            | scan a b => cases he
      have hend : ph.endp ≤ tailOffs c s3 := by
        cases ph with
        | retr j0 k0 =>
          have := inqAt_endp (j := j0) hpq (hA.ecB j0 k0 hpm)
          have := h3.jt j0 (Or.inr ⟨k0, hpm⟩)
          show j0.endp ≤ tailOffs c s3
          omega
        | retr2 e => simp [Phase.inqAt] at hpq
        | emit e => simp [Phase.inqAt] at hpq
        | scan a b => simp [Phase.inqAt] at hpq
      exact NC_congr (NC_advance hW ph.endp hS hend hpp) rfl rfl rfl rfl rfl rfl rfl rfl rfl
    · split
      · next u hu =>
        have hum := List.mem_of_find?_eq_some hu
        have hAd := NC_advance hW u.f.endp h3 (h3.ot u hum) hpp
        dsimp only
        generalize advance c s3 u.f.endp = a at hAd
        split
        · refine NC_of hAd rfl rfl rfl rfl rfl (fun he => he) hAd.jt hAd.kb ?_
          intro y hy; exact hAd.ot y (List.mem_of_mem_erase hy)
        · refine NC_of hAd rfl rfl rfl rfl rfl (fun he => he) hAd.jt hAd.kb ?_
          intro y hy
          rcases mem_replaceFirst _ _ hy with hy | ⟨x, hx, _, rfl⟩
          · exact hAd.ot y hy
          · exact hAd.ot x hx
      · refine NC_of h3 rfl rfl rfl rfl rfl (fun he => he) ?_ h3.kb h3.ot
        intro y hy
        rcases hy with hy | ⟨k, hk⟩
        · rcases List.mem_cons.1 hy with e | hm
          · subst e; exact hb
          · exact h3.jt y (Or.inl hm)
        · exact h3.jt y (Or.inr ⟨k, hk⟩)

theorem NC_parseFinish {c : Cfg} {s1 : State} (u : Nat) (h1 : NC c s1) (hpp : s1.pphase = none) :
    NC c (parseFinish s1 u) := by
  obtain ⟨a1, a2, a3, a4, a5, a6, a7⟩ := h1
  refine ⟨fun hd => Bool.noConfusion hd, ?_, ?_, a4, ?_, fun hd => Bool.noConfusion hd, ?_⟩
  · intro j hj
    rcases hj with hj | ⟨k, hk⟩
    · cases hj
    · simp only [parseFinish, List.mem_map] at hk
      obtain ⟨x, hx, hxe⟩ := hk
      cases x with
      | retr j0 k0 =>
        simp only [flagPhase, Phase.retr.injEq] at hxe
        obtain ⟨rfl, _⟩ := hxe
        exact a2 j0 (Or.inr ⟨k0, hx⟩)
      | retr2 e => cases hxe
      | emit e => cases hxe
      | scan a b => cases hxe
  · intro j k hm
    simp only [parseFinish, List.mem_map] at hm
    obtain ⟨x, hx, hxe⟩ := hm
    cases x with
    | retr j0 k0 =>
      simp only [flagPhase, Phase.retr.injEq] at hxe
      obtain ⟨rfl, rfl⟩ := hxe
      exact a3 j0 k hx
    | retr2 e => cases hxe
    | emit e => cases hxe
    | scan a b => cases hxe
  · intro x hx
    obtain ⟨y, hy, he⟩ := popOrphans_endp (p := fun _ => true) (os := s1.orphans) hx
    rw [he]; exact a5 y hy
  · intro hk
    rw [show (parseFinish s1 u).pphase = s1.pphase from rfl, hpp] at hk; cases hk

theorem NC_parseVerdict {c : Cfg} (hW : 0 < c.W) {s1 : State} (h1 : NC c s1) (hA : AI c s1)
    (hP : PPre c s1) (hb : ∀ b, pres c s1.gnext = .hdr b → b ≤ tailOffs c s1) :
    NC c (parseVerdict c s1 (pres c s1.gnext)) := by
  cases hu : pres c s1.gnext with
  | err u => exact NC_congr h1 rfl rfl rfl rfl rfl rfl rfl rfl rfl
  | finish u ok =>
    cases ok with
    | false =>
      obtain ⟨a1, a2, a3, a4, a5, a6, a7⟩ := h1
      exact ⟨fun hd => Bool.noConfusion hd, a2, a3, a4, a5, fun hd => Bool.noConfusion hd, a7⟩
    | true =>
      show NC c (parseFinish s1 u)
      exact NC_parseFinish u h1 hP.pp
  | hdr b =>
    have p0 := NC_parsePush hW h1 (hb b hu) hP.pp
    obtain ⟨p1, _, _⟩ := AI_parsePush hA hP hu
    obtain ⟨q1, _, _⟩ := PPre_push hP hu
    exact NC_parseMatch hW p0 p1 q1.pp (hb b hu)

theorem NC_parseEnd {c : Cfg} (hW : 0 < c.W) {s s' : State} (h : NC c s) (hR : RI c s)
    (hA : AI c s) (hI : PI c s) (hS : SI c s) (hf : s.failed = false)
    (hs : stepParseEnd c s = some s') : NC c s' := by
  unfold stepParseEnd at hs
  split at hs
  · simp at hs
  · next k hk =>
    obtain ⟨hP, hg1, hpo⟩ := PPre_of_parsing hS hf hk
    have hpd : s.pdone = false := hS.pd (by simp [hk])
    have h0 : NC c { s with pphase := none } := by
      obtain ⟨a1, a2, a3, a4, a5, a6, a7⟩ := h
      exact ⟨a1, a2, a3, (fun k hk => by cases hk), a5, a6, (fun hk => by cases hk)⟩
    have hA0 : AI c { s with pphase := none } := by
      obtain ⟨a1, a2, a3, a4, a5, a6, a7, a8⟩ := hA
      exact ⟨a1, a2, (fun k hk => by cases hk), a4, a5, a6, a7, a8⟩
    have h1 : NC c (detach { s with pphase := none } k) := NC_detach k h0
    have hA1 : AI c (detach { s with pphase := none } k) := AI_detach k hA0
    have hrd : (detach { s with pphase := none } k).rd = s.rd :=
      (RF_detach { s with pphase := none } k).2.2.1
    have key : pres c s.porig = pres c (detach { s with pphase := none } k).gnext := by
      rw [hg1, hpo]
    dsimp only at hs
    rw [key] at hs
    generalize detach { s with pphase := none } k = s1 at hs hP h1 hA1 hrd hg1
    have ht1 : tailOffs c s1 = tailOffs c s := by unfold tailOffs; rw [hrd]
    split at hs
    · next hmore =>
      simp only [Option.some.injEq] at hs; subst hs
      have hkk : ∃ kk, k = some kk := by
        cases k with
        | none => simp [parseMoreP] at hmore
        | some kk => exact ⟨kk, rfl⟩
      obtain ⟨kk, rfl⟩ := hkk
      have hk1 : kk < s.rd := h.pkb kk hk
      have hmono := offs_mono c (show kk + 1 ≤ s.rd from hk1)
      have hAd := NC_advance hW (offs c (kk + 1)) h1
        (by rw [ht1]; exact hmono) hP.pp
      exact NC_congr hAd rfl rfl rfl rfl rfl rfl rfl rfl rfl
    · next hmore =>
      simp only [Option.some.injEq] at hs; subst hs
      refine NC_parseVerdict hW h1 hA1 hP ?_
      intro b hb
      rw [ht1]
      rw [hb] at hmore
      cases k with
      | some kk =>
        have hk1 : kk < s.rd := h.pkb kk hk
        have hmono := offs_mono c (show kk + 1 ≤ s.rd from hk1)
        have hnm : ¬ offs c (kk + 1) < b := by
          intro hlt; apply hmore; simp [parseMoreP, parseTarget, hlt]
        unfold tailOffs
        omega
      | none =>
        -- attached at end of input: everything has been read, no header can follow
        obtain ⟨he, hle⟩ := h.pn hk
        have hT : c.T ≤ s.nread * c.W := by
          rcases hR.ef he with h' | h'
          · rw [hpd] at h'; cases h'
          · exact h'
        have hrn := hR.rn hpd
        have hlt : s.ppos < b := hI.pb hpd b (by rw [← hg1]; exact hb)
        have hbT := (pres_hdr hb).2
        unfold tailOffs offs at hle ⊢
        rw [hrn] at hle ⊢
        omega

/-! ### all steps -/

theorem nc_step {c : Cfg} (hW : 0 < c.W) {s s' : State} {l : Label} (h : NC c s) (hR : RI c s)
    (hS : SI c s) (hA : AI c s) (hI : PI c s) (hQ : SQ c s)
    (hs : step c s l = some s') : NC c s' := by
  unfold step at hs
  split at hs
  · simp at hs
  · next hf =>
    have hf' : s.failed = false := by simpa using hf
    cases l with
    | rTake => exact NC_rTake h hs
    | rQuit => exact NC_rQuit h hs
    | rBlock => exact NC_rBlock hW h hR hQ hs
    | rEmpty => exact NC_rEmpty h hs
    | rEof => exact NC_rEof h hs
    | wDone => exact NC_wDone h hs
    | reorder ob => exact NC_reorder h hs
    | parseStart => exact NC_parseStart h hs
    | parseEnd => exact NC_parseEnd hW h hR hA hI hS hf' hs
    | retrStart j => exact NC_retrStart h hs
    | retrEnd j k => exact NC_retrEnd hW h hS hs
    | retrPost e => exact NC_retrPost h hs
    | emitStart e => exact NC_emitStart h hs
    | emitEnd e => exact NC_emitEnd h hs
    | scanStart sp => exact NC_scanStart h hs
    | scanEnd st k => exact NC_scanEnd h hQ hs

theorem nc_reach {c : Cfg} (hW : 0 < c.W) {s : State} (h : Reach c s) : NC c s := by
  induction h with
  | init => exact NC_init c
  | @step s s' l hr hs ih =>
    obtain ⟨hS, hA⟩ := PI_step_pre hr hs
    exact nc_step hW ih (ri_reach hr) hS hA (pi_reach_all hr) (sq_reach hW hr) hs

/-! ## the input-side invariant -/

structure NI (c : Cfg) (s : State) : Prop where
  /-- the parser position never passes the delivered input -/
  pt  : s.pdone = false → s.ppos ≤ tailOffs c s
  /-- nor does any retrieve job -/
  jt  : ∀ j, NJIn s j → j.curr ≤ tailOffs c s
  /-- a running retriever is attached to a delivered block -/
  kb  : ∀ j k, Phase.retr j (some k) ∈ s.busy → k < s.rd
  /-- so is the running parser -/
  pkb : ∀ k, s.pphase = some (some k) → k < s.rd
  /-- recorded end positions lie in the delivered input -/
  ot  : ∀ u ∈ s.orphans, u.f.endp ≤ tailOffs c s
  et  : ∀ j, NJIn s j → ∀ f, j.ub = some f → f.endp ≤ tailOffs c s
  /-- `input_q` holds no block that lies entirely before the parser position -/
  hn  : s.pdone = false → ∀ k, s.head ≤ k → k < s.rd → s.ppos < offs c (k + 1)
  /-- a parser attached "at end of input" stands at `tail_offs` (with `pt`:
      exactly there), and `eof` is set -/
  pn  : s.pphase = some none → s.eof = true ∧ tailOffs c s ≤ s.ppos
  /-- the reader has finished exactly when `eof` is set -/
  rdn : s.rph = .done ↔ s.eof = true
  /-- `request_close` exactly when parsing is done -/
  pc  : s.pdone = true ↔ s.rclose = true
  /-- blocks in `input_q` have been read; until parsing is done all of them are pushed -/
  rr  : s.rd ≤ s.nread ∧ (s.pdone = false → s.rd = s.nread)
  /-- at eof (and when the reader is about to signal it) everything has been
      read, unless parsing is done (`request_close`) -/
  ef  : (s.eof = true ∨ s.rph = .ateof) → s.pdone = true ∨ c.T ≤ s.nread * c.W
  /-- hence: at eof with parsing not done, `tail_offs` is the end of the input -/
  tl  : s.eof = true → s.pdone = false → tailOffs c s = c.T

/-- **the input side**: in every reachable state (failed or not) parser,
    retrieve jobs and recorded end positions lie inside the delivered input,
    running parser / retrievers are attached to delivered blocks, `advance` has
    released every block that lies entirely before the parser position, and
    the reader's flags mean what they say. -/
theorem ni_reach {c : Cfg} (hW : 0 < c.W) {s : State} (h : Reach c s) : NI c s := by
  have hN := nc_reach hW h
  have hR := ri_reach h
  have hA := ai_reach h
  have hQ := sq_reach hW h
  refine ⟨hN.pt, hN.jt, hN.kb, hN.pkb, hN.ot, ?_, hN.hn, hN.pn, hR.dn, hR.pc, ⟨hQ.rn, hR.rn⟩, ?_, ?_⟩
  · intro j hj f hf
    have hc := hN.jt j hj
    rcases hj with hj | ⟨k, hk⟩
    · have := (hA.ecQ j hj f hf).2; omega
    · have := (hA.ecB j k hk f hf).2; omega
  · intro hh
    rcases hh with hh | hh
    · exact hR.ef hh
    · exact hR.ae hh
  · intro he hpd
    have hT : c.T ≤ s.nread * c.W := by
      rcases hR.ef he with h' | h'
      · rw [hpd] at h'; cases h'
      · exact h'
    unfold tailOffs offs
    rw [hR.rn hpd]
    omega

/-- **no input wait**: if the parser position (parser or master retriever)
    stands at `tail_offs`, `input_q` is empty — every input slot is free, held by
    the reader, or still attached behind `head_offs`. -/
theorem no_input_wait {c : Cfg} (hW : 0 < c.W) {s : State} (h : Reach c s)
    (hd : s.pdone = false) (hp : s.ppos = tailOffs c s) : s.head = s.rd := by
  have hN := ni_reach hW h
  have hr := (ai_reach h).hr
  by_cases he : s.head = s.rd
  · exact he
  · exfalso
    have := hN.hn hd (s.rd - 1) (by omega) (by omega)
    rw [show s.rd - 1 + 1 = s.rd from by omega] at this
    unfold tailOffs at hp
    omega

/-- the same for any retrieve job: a job standing at `tail_offs` while the
    parser position is there too waits for input with `input_q` empty; in
    general no retrieve job, queued or running, is ahead of the delivered input -/
theorem retr_within_input {c : Cfg} (hW : 0 < c.W) {s : State} (h : Reach c s) :
    (∀ j ∈ s.retrQ, j.curr ≤ tailOffs c s) ∧
    (∀ j k, Phase.retr j k ∈ s.busy → j.curr ≤ tailOffs c s) :=
  ⟨fun j hj => (ni_reach hW h).jt j (Or.inl hj),
   fun j k hk => (ni_reach hW h).jt j (Or.inr ⟨k, hk⟩)⟩

end LbzVerif.Lemmas.SchedD
