/-
  "The NEXT buffer of every `order_q` entry is there or still to be produced":
  the exact ownership invariant `XI`, a sharper variant of `HI` (`Holder`).
  `HI.h1` only says that SOME buffer of the block with index ≥ `i` exists or
  will be produced (`Cov`); `XI.x1` says that buffer `(b, i)` ITSELF is in
  `reord_q`, or an emit job of block `b` has not produced it yet (`Has`), or a
  master-capable retrieve job of block `b` exists.  This is what a
  deadlock-freedom argument needs at the head of `order_q`.

  Part 1 (this file): definitions, frames, all steps except `parseEnd`;
  part 2 (`Exact2`): `parseEnd`, `xi_reach`, `order_head_has`.

  The development follows `Holder` step by step; `HI`, `SI`, `AI` of the
  PRE-state are used as hypotheses (`srt`, `og`, `ei`, `pt`; `obOK`, `ejOK`).
-/
import LbzVerif.Lemmas.SchedD.Holder2

namespace LbzVerif.Lemmas.SchedD
open LbzVerif.Model.SchedD LbzVerif.Gen

/-! ### definitions -/

/-- buffer `m` of block `b` is in `reord_q`, or an emit job of block `b` has
    not produced it yet -/
def Has (s : State) (b m : Nat) : Prop :=
  (∃ o ∈ s.reordQ, o.base = b ∧ o.idx = m) ∨ (∃ e, EIn s e ∧ e.base = b ∧ e.idx ≤ m)

/-- the exact ownership invariant -/
structure XI (c : Cfg) (s : State) : Prop where
  x1  : ∀ b i, (b, i) ∈ s.orderQ → McJob s b ∨ Has s b i
  xch : ∀ o ∈ s.reordQ, o.st = .more → ∀ i, (o.base, i) ∈ s.orderQ → i ≤ o.idx →
          Has s o.base (o.idx + 1)
  xcf : s.pdone = false → ∀ o ∈ s.reordQ, o.st = .more → s.gnext < o.base →
          Has s o.base (o.idx + 1)
  xgs : s.pdone = false → ∀ u ∈ s.orphans, u.f.inq = true → s.gnext < u.base → Has s u.base 0

/-- `XI` without "each entry has its next buffer" -/
structure X0 (s : State) : Prop where
  xch : ∀ o ∈ s.reordQ, o.st = .more → ∀ i, (o.base, i) ∈ s.orderQ → i ≤ o.idx →
          Has s o.base (o.idx + 1)
  xcf : s.pdone = false → ∀ o ∈ s.reordQ, o.st = .more → s.gnext < o.base →
          Has s o.base (o.idx + 1)
  xgs : s.pdone = false → ∀ u ∈ s.orphans, u.f.inq = true → s.gnext < u.base → Has s u.base 0

theorem XI.x0 {c : Cfg} {s : State} (h : XI c s) : X0 s := ⟨h.xch, h.xcf, h.xgs⟩

theorem XI_of {c : Cfg} {s : State} (h0 : X0 s)
    (h1 : ∀ b i, (b, i) ∈ s.orderQ → McJob s b ∨ Has s b i) : XI c s :=
  ⟨h1, h0.xch, h0.xcf, h0.xgs⟩

theorem XI_init (c : Cfg) : XI c (init c) := by
  refine ⟨?_, ?_, ?_, ?_⟩ <;> simp [init]

/-! ### frames -/

theorem Has_mono {s s' : State} {b m : Nat} (mE : ∀ e, EIn s e → EIn s' e)
    (mR : ∀ o ∈ s.reordQ, o ∈ s'.reordQ) (h : Has s b m) : Has s' b m := by
  rcases h with ⟨o, ho, h1, h2⟩ | ⟨e, he, h1, h2⟩
  · exact Or.inl ⟨o, mR o ho, h1, h2⟩
  · exact Or.inr ⟨e, mE e he, h1, h2⟩

/-- the `Has` version of `Fr`: `order_q`, `reord_q`, `gnext`, `parsing_done`
    unchanged, emit jobs only move, a new orphan is the complete entry of a
    finished speculative retrieve whose emit job (index 0) exists -/
structure Fx (s s' : State) : Prop where
  eO : s'.orderQ = s.orderQ
  eR : s'.reordQ = s.reordQ
  eG : s'.gnext = s.gnext
  eP : s'.pdone = s.pdone
  mE : ∀ e, EIn s e → EIn s' e
  mO : s'.pdone = false → ∀ u ∈ s'.orphans, u ∈ s.orphans ∨ Has s' u.base 0

theorem Fx.refl (s : State) : Fx s s :=
  ⟨rfl, rfl, rfl, rfl, fun _ h => h, fun _ _ hu => Or.inl hu⟩

theorem Fx.has {s s' : State} (f : Fx s s') {b m : Nat} (h : Has s b m) : Has s' b m :=
  Has_mono f.mE (fun o ho => by rw [f.eR]; exact ho) h

theorem Fx.trans {s s' s'' : State} (f : Fx s s') (g : Fx s' s'') : Fx s s'' := by
  refine ⟨g.eO.trans f.eO, g.eR.trans f.eR, g.eG.trans f.eG, g.eP.trans f.eP,
    fun e he => g.mE e (f.mE e he), ?_⟩
  intro hd u hu
  rcases g.mO hd u hu with h | h
  · rcases f.mO (by rw [← g.eP]; exact hd) u h with h | h
    · exact Or.inl h
    · exact Or.inr (g.has h)
  · exact Or.inr h

/-- a Holder frame that creates no orphan is an exact frame -/
theorem Fx_of_Fr {c : Cfg} {s s' : State} (f : Fr c s s')
    (hO : ∀ u ∈ s'.orphans, u ∈ s.orphans) : Fx s s' :=
  ⟨f.eO, f.eR, f.eG, f.eP, f.mE, fun _ u hu => Or.inl (hO u hu)⟩

theorem Fx_same {s s' : State}
    (e1 : s'.orderQ = s.orderQ) (e2 : s'.reordQ = s.reordQ) (e3 : s'.gnext = s.gnext)
    (e4 : s'.pdone = s.pdone) (e8 : s'.orphans = s.orphans)
    (mE : ∀ e, EIn s e → EIn s' e) : Fx s s' :=
  ⟨e1, e2, e3, e4, mE, fun _ u hu => by rw [e8] at hu; exact Or.inl hu⟩

theorem X0_frame {s s' : State} (h : X0 s) (f : Fx s s') : X0 s' := by
  obtain ⟨a2, a3, a4⟩ := h
  obtain ⟨eO, eR, eG, eP, mE, mO⟩ := id f
  refine ⟨?_, ?_, ?_⟩
  · intro o ho hst i hi hle
    rw [eR] at ho; rw [eO] at hi
    exact f.has (a2 o ho hst i hi hle)
  · intro hd o ho hst hg
    rw [eR] at ho; rw [eG] at hg; rw [eP] at hd
    exact f.has (a3 hd o ho hst hg)
  · intro hd u hu hq hg
    rcases mO hd u hu with h | h2
    · rw [eG] at hg; rw [eP] at hd
      exact f.has (a4 hd u h hq hg)
    · exact h2

theorem XI_frame {c : Cfg} {s s' : State} (h : XI c s) (f : Fx s s')
    (mJ : ∀ b i, (b, i) ∈ s.orderQ → McJob s b → McJob s' b ∨ Has s' b i) : XI c s' := by
  refine XI_of (X0_frame h.x0 f) ?_
  intro b i hi
  rw [f.eO] at hi
  rcases h.x1 b i hi with hm | hc
  · exact mJ b i hi hm
  · exact Or.inr (f.has hc)

theorem XI_frame' {c : Cfg} {s s' : State} (h : XI c s) (f : Fx s s') (m : JM s s') : XI c s' :=
  XI_frame h f (fun _ _ _ hm => Or.inl (m.mc hm))

/-- the fields the invariant reads are unchanged -/
theorem XI_congr {c : Cfg} {s s' : State} (h : XI c s)
    (e1 : s'.orderQ = s.orderQ) (e2 : s'.reordQ = s.reordQ) (e3 : s'.gnext = s.gnext)
    (e4 : s'.pdone = s.pdone) (e5 : s'.emitQ = s.emitQ) (e6 : s'.busy = s.busy)
    (e7 : s'.retrQ = s.retrQ) (e8 : s'.orphans = s.orphans) : XI c s' := by
  refine XI_frame' h (Fx_same e1 e2 e3 e4 e8 ?_) (JM_of_eq e6 e7)
  intro e he; simpa [EIn, e5, e6] using he

theorem Fx_detach (s : State) (k : Option Nat) : Fx s (detach s k) := by
  unfold detach; split
  · exact Fx.refl s
  · split
    · exact ⟨rfl, rfl, rfl, rfl, fun _ h => h, fun _ u hu => Or.inl hu⟩
    · exact Fx.refl s

theorem XI_detach {c : Cfg} {s : State} (k : Option Nat) (h : XI c s) : XI c (detach s k) :=
  XI_frame' h (Fx_detach s k) (JM_detach s k)

theorem Fx_advance (c : Cfg) (s : State) (p : Nat) : Fx s (advance c s p) :=
  ⟨rfl, rfl, rfl, rfl, fun _ h => h, fun _ _ hu => Or.inl hu⟩

theorem Fx_busy_erase (s : State) {ph : Phase}
    (hn : ∀ e, ph ≠ Phase.retr2 e ∧ ph ≠ Phase.emit e) :
    Fx s { s with busy := s.busy.erase ph } :=
  Fx_same rfl rfl rfl rfl rfl (fun _ he => EIn_erase hn he)

/-! ### simple steps -/

theorem XI_rTake {c : Cfg} {s s' : State} (h : XI c s) (hs : stepRTake s = some s') : XI c s' := by
  unfold stepRTake at hs; split at hs <;> simp at hs; subst hs
  exact XI_congr h rfl rfl rfl rfl rfl rfl rfl rfl

theorem XI_rQuit {c : Cfg} {s s' : State} (h : XI c s) (hs : stepRQuit s = some s') : XI c s' := by
  unfold stepRQuit at hs; split at hs <;> simp at hs; subst hs
  exact XI_congr h rfl rfl rfl rfl rfl rfl rfl rfl

theorem XI_rBlock {c : Cfg} {s s' : State} (h : XI c s) (hs : stepRBlock c s = some s') :
    XI c s' := by
  unfold stepRBlock at hs; split at hs
  · dsimp only at hs; split at hs <;> simp only [Option.some.injEq] at hs <;> subst hs <;>
      exact XI_congr h rfl rfl rfl rfl rfl rfl rfl rfl
  · simp at hs

theorem XI_rEmpty {c : Cfg} {s s' : State} (h : XI c s) (hs : stepREmpty c s = some s') :
    XI c s' := by
  unfold stepREmpty at hs; split at hs <;> simp at hs; subst hs
  exact XI_congr h rfl rfl rfl rfl rfl rfl rfl rfl

theorem XI_rEof {c : Cfg} {s s' : State} (h : XI c s) (hs : stepREof s = some s') : XI c s' := by
  unfold stepREof at hs; split at hs <;> simp at hs; subst hs
  exact XI_congr h rfl rfl rfl rfl rfl rfl rfl rfl

theorem XI_wDone {c : Cfg} {s s' : State} (h : XI c s) (hs : stepWDone s = some s') : XI c s' := by
  unfold stepWDone at hs; split at hs <;> simp at hs; subst hs
  exact XI_congr h rfl rfl rfl rfl rfl rfl rfl rfl

theorem XI_parseStart {c : Cfg} {s s' : State} (h : XI c s)
    (hs : stepParseStart c s = some s') : XI c s' := by
  unfold stepParseStart at hs; split at hs
  · simp only [Option.some.injEq] at hs; subst hs
    exact XI_congr h rfl rfl rfl rfl rfl rfl rfl rfl
  · simp at hs

/-! ### queue shuffles -/

theorem XI_retrStart {c : Cfg} {s s' : State} {j : Job} (h : XI c s)
    (hs : stepRetrStart c s j = some s') : XI c s' := by
  unfold stepRetrStart at hs; split at hs
  · next hg =>
    simp only [Bool.and_eq_true, List.contains_iff_mem] at hg
    have hj : j ∈ s.retrQ := hg.1.2
    simp only [Option.some.injEq] at hs; subst hs
    refine XI_frame h (Fx_same rfl rfl rfl rfl rfl ?_) ?_
    · intro e he
      rcases he with he | he | he
      · exact Or.inl he
      · exact Or.inr (Or.inl (List.mem_cons_of_mem _ he))
      · exact Or.inr (Or.inr (List.mem_cons_of_mem _ he))
    · intro b i _ hm
      obtain ⟨j0, hj0, hb, hmc⟩ := hm
      rcases hj0 with hq | ⟨k0, hk0⟩
      · by_cases hjj : j0 = j
        · subst hjj
          exact Or.inl ⟨_, Or.inr ⟨_, List.mem_cons_self⟩, hb, hmc⟩
        · exact Or.inl ⟨j0, Or.inl (mem_erase_ne hq hjj), hb, hmc⟩
      · exact Or.inl ⟨j0, Or.inr ⟨k0, List.mem_cons_of_mem _ hk0⟩, hb, hmc⟩
  · simp at hs

theorem XI_retrPost {c : Cfg} {s s' : State} {e : EJob} (h : XI c s)
    (hs : stepRetrPost s e = some s') : XI c s' := by
  unfold stepRetrPost at hs; split at hs
  · simp only [Option.some.injEq] at hs; subst hs
    refine XI_frame h (Fx_same rfl rfl rfl rfl rfl ?_) ?_
    · intro e0 he
      rcases he with he | he | he
      · exact Or.inl (List.mem_cons_of_mem _ he)
      · by_cases hee : e0 = e
        · subst hee; exact Or.inl List.mem_cons_self
        · exact Or.inr (Or.inl (mem_erase_ne he (by intro hh; cases hh; exact hee rfl)))
      · exact Or.inr (Or.inr (mem_erase_ne he (by intro hh; cases hh)))
    · intro b i _ hm
      obtain ⟨j0, hj0, hb, hmc⟩ := hm
      rcases hj0 with hq | ⟨k0, hk0⟩
      · exact Or.inl ⟨j0, Or.inl hq, hb, hmc⟩
      · exact Or.inl ⟨j0, Or.inr ⟨k0, mem_erase_ne hk0 (by intro hh; cases hh)⟩, hb, hmc⟩
  · simp at hs

theorem XI_emitStart {c : Cfg} {s s' : State} {e : EJob} (h : XI c s)
    (hs : stepEmitStart c s e = some s') : XI c s' := by
  unfold stepEmitStart at hs; split at hs
  · simp only [Option.some.injEq] at hs; subst hs
    refine XI_frame h (Fx_same rfl rfl rfl rfl rfl ?_) ?_
    · intro e0 he
      rcases he with he | he | he
      · by_cases hee : e0 = e
        · subst hee; exact Or.inr (Or.inr List.mem_cons_self)
        · exact Or.inl (mem_erase_ne he hee)
      · exact Or.inr (Or.inl (List.mem_cons_of_mem _ he))
      · exact Or.inr (Or.inr (List.mem_cons_of_mem _ he))
    · intro b i _ hm
      obtain ⟨j0, hj0, hb, hmc⟩ := hm
      rcases hj0 with hq | ⟨k0, hk0⟩
      · exact Or.inl ⟨j0, Or.inl hq, hb, hmc⟩
      · exact Or.inl ⟨j0, Or.inr ⟨k0, List.mem_cons_of_mem _ hk0⟩, hb, hmc⟩
  · simp at hs

theorem XI_scanStart {c : Cfg} {s s' : State} {sp : Nat} (h : XI c s)
    (hs : stepScanStart c s sp = some s') : XI c s' := by
  unfold stepScanStart at hs; split at hs
  · simp only [Option.some.injEq] at hs; subst hs
    refine XI_frame h (Fx_same rfl rfl rfl rfl rfl ?_) ?_
    · intro e0 he
      rcases he with he | he | he
      · exact Or.inl he
      · exact Or.inr (Or.inl (List.mem_cons_of_mem _ he))
      · exact Or.inr (Or.inr (List.mem_cons_of_mem _ he))
    · intro b i _ hm
      obtain ⟨j0, hj0, hb, hmc⟩ := hm
      rcases hj0 with hq | ⟨k0, hk0⟩
      · exact Or.inl ⟨j0, Or.inl hq, hb, hmc⟩
      · exact Or.inl ⟨j0, Or.inr ⟨k0, List.mem_cons_of_mem _ hk0⟩, hb, hmc⟩
  · simp at hs

/-! ### emitEnd -/

/-- `do_emit` of `e` produces buffer `(e.base, e.idx)` and, unless that was the
    last one, the emit job for `e.idx + 1`: a `Has` fact survives unless it
    asks for a buffer BEHIND the last one -/
theorem Has_emitEnd {s s' : State} {e : EJob} {b m : Nat}
    (hE : ∀ e0, EIn s e0 → e0 ≠ e → EIn s' e0) (hR : ∀ o ∈ s.reordQ, o ∈ s'.reordQ)
    (hO : ∃ o ∈ s'.reordQ, o.base = e.base ∧ o.idx = e.idx)
    (hN : 1 < e.left → ∃ e', EIn s' e' ∧ e'.base = e.base ∧ e'.idx = e.idx + 1)
    (h : Has s b m) (hfin : e.base = b → e.idx < m → 1 < e.left) : Has s' b m := by
  rcases h with ⟨o, ho, h1, h2⟩ | ⟨e0, he, h1, h2⟩
  · exact Or.inl ⟨o, hR o ho, h1, h2⟩
  · by_cases hee : e0 = e
    · subst hee
      by_cases hm : m = e0.idx
      · obtain ⟨o, ho, o1, o2⟩ := hO
        exact Or.inl ⟨o, ho, o1.trans h1, by omega⟩
      · obtain ⟨e', he', q1, q2⟩ := hN (hfin h1 (by omega))
        exact Or.inr ⟨e', he', q1.trans h1, by omega⟩
    · exact Or.inr ⟨e0, hE e0 he hee, h1, h2⟩

/-- an `order_q` entry of the emit job's block lies inside the block -/
theorem fin_entry {c : Cfg} {e : EJob} (hej : ejOK c e) {i : Nat}
    (hei : i < (if (rres c e.base).ok then (rres c e.base).nb else 1)) (hlt : e.idx < i) :
    1 < e.left := by
  obtain ⟨_, l2, l3⟩ := hej
  cases hok : (rres c e.base).ok with
  | true =>
    have := (l2 hok).1
    simp only [hok, if_true] at hei
    omega
  | false =>
    simp only [hok, Bool.false_eq_true, if_false] at hei
    omega

/-- the successor of a `more` buffer of the emit job's block lies inside the block -/
theorem fin_more {c : Cfg} {e : EJob} {o : OB} (hej : ejOK c e) (hob : obOK c o)
    (hst : o.st = .more) (hb : e.base = o.base) (hlt : e.idx < o.idx + 1) : 1 < e.left := by
  obtain ⟨_, l2, _⟩ := hej
  have hob' : (rres c o.base).ok = true ∧ o.idx + 1 < (rres c o.base).nb := by
    simpa [obOK, hst] using hob
  rw [← hb] at hob'
  have := (l2 hob'.1).1
  omega

theorem XI_emitEnd_core {c : Cfg} {s s' : State} {e : EJob} {onew : OB} (h : XI c s)
    (hH : HI c s) (hej : ejOK c e) (hobs : ∀ o ∈ s.reordQ, obOK c o)
    (e1 : s'.orderQ = s.orderQ) (e3 : s'.gnext = s.gnext)
    (e4 : s'.pdone = s.pdone) (e7 : s'.retrQ = s.retrQ) (e8 : s'.orphans = s.orphans)
    (e6 : s'.busy = s.busy.erase (.emit e))
    (e2 : s'.reordQ = onew :: s.reordQ) (o1 : onew.base = e.base) (o2 : onew.idx = e.idx)
    (e5 : ∀ e0 ∈ s.emitQ, e0 ∈ s'.emitQ)
    (hN : 1 < e.left → ∃ e', e' ∈ s'.emitQ ∧ e'.base = e.base ∧ e'.idx = e.idx + 1)
    (hL : onew.st = .more → 1 < e.left) : XI c s' := by
  have hE : ∀ e0, EIn s e0 → e0 ≠ e → EIn s' e0 := by
    intro e0 he hne
    rcases he with he | he | he
    · exact Or.inl (e5 e0 he)
    · exact Or.inr (Or.inl (by rw [e6]; exact mem_erase_ne he (by intro hh; cases hh)))
    · have hne' : Phase.emit e0 ≠ Phase.emit e := by intro hh; cases hh; exact hne rfl
      exact Or.inr (Or.inr (by rw [e6]; exact mem_erase_ne he hne'))
  have hR : ∀ o ∈ s.reordQ, o ∈ s'.reordQ := by
    intro o ho; rw [e2]; exact List.mem_cons_of_mem _ ho
  have hO : ∃ o ∈ s'.reordQ, o.base = e.base ∧ o.idx = e.idx :=
    ⟨onew, by rw [e2]; exact List.mem_cons_self, o1, o2⟩
  have hN' : 1 < e.left → ∃ e', EIn s' e' ∧ e'.base = e.base ∧ e'.idx = e.idx + 1 := by
    intro hl; obtain ⟨e', h1, h2⟩ := hN hl; exact ⟨e', Or.inl h1, h2⟩
  have has : ∀ {b m}, Has s b m → (e.base = b → e.idx < m → 1 < e.left) → Has s' b m :=
    fun hc hfin => Has_emitEnd hE hR hO hN' hc hfin
  have hnew : onew.st = .more → Has s' onew.base (onew.idx + 1) := by
    intro hst
    obtain ⟨e', h1, h2, h3⟩ := hN' (hL hst)
    exact Or.inr ⟨e', h1, h2.trans o1.symm, by omega⟩
  obtain ⟨b1, a1, a2, a6⟩ := h
  refine ⟨?_, ?_, ?_, ?_⟩
  · intro b i hi
    rw [e1] at hi
    rcases b1 b i hi with hm | hc
    · obtain ⟨j0, hj0, hb, hmc⟩ := hm
      refine Or.inl ⟨j0, ?_, hb, hmc⟩
      rcases hj0 with hq | ⟨k0, hk0⟩
      · exact Or.inl (by rw [e7]; exact hq)
      · exact Or.inr ⟨k0, by rw [e6]; exact mem_erase_ne hk0 (by intro hh; cases hh)⟩
    · refine Or.inr (has hc ?_)
      intro hb hlt
      have hei := hH.h0.ei b i hi
      rw [← hb] at hei
      exact fin_entry hej hei hlt
  · intro o ho hst i hi hle
    rw [e2] at ho; rw [e1] at hi
    rcases List.mem_cons.1 ho with ho | ho
    · subst ho; exact hnew hst
    · exact has (a1 o ho hst i hi hle) (fun hb hlt => fin_more hej (hobs o ho) hst hb hlt)
  · intro hd o ho hst hg
    rw [e2] at ho; rw [e3] at hg; rw [e4] at hd
    rcases List.mem_cons.1 ho with ho | ho
    · subst ho; exact hnew hst
    · exact has (a2 hd o ho hst hg) (fun hb hlt => fin_more hej (hobs o ho) hst hb hlt)
  · intro hd u hu hq hg
    rw [e8] at hu; rw [e3] at hg; rw [e4] at hd
    exact has (a6 hd u hu hq hg) (fun _ hlt => absurd hlt (Nat.not_lt_zero _))

theorem XI_emitEnd {c : Cfg} {s s' : State} {e : EJob} (h : XI c s) (hH : HI c s) (hS : SI c s)
    (hs : stepEmitEnd s e = some s') : XI c s' := by
  unfold stepEmitEnd at hs; split at hs
  · next hg =>
    have hmem : Phase.emit e ∈ s.busy := by simpa using hg
    have hej : ejOK c e := hS.busy _ hmem
    dsimp only at hs
    split at hs
    · next hl =>
      simp only [Option.some.injEq] at hs; subst hs
      refine XI_emitEnd_core (e := e) h hH hej hS.obs rfl rfl rfl rfl rfl rfl rfl rfl rfl ?_ ?_ ?_
      · intro e0 he; exact List.mem_cons_of_mem _ he
      · intro _; exact ⟨_, List.mem_cons_self, rfl, rfl⟩
      · intro _; exact hl
    · next hl =>
      simp only [Option.some.injEq] at hs; subst hs
      refine XI_emitEnd_core (e := e) h hH hej hS.obs rfl rfl rfl rfl rfl rfl rfl rfl rfl ?_ ?_ ?_
      · intro e0 he; exact he
      · intro hl'; exact absurd hl' hl
      · intro hst
        have hst' : (if e.ok = true then OSt.ok else OSt.err) = OSt.more := hst
        split at hst' <;> cases hst'
  · simp at hs

/-! ### reorder -/

theorem Has_erase {s s' : State} {ob : OB} {b m : Nat} (mE : ∀ e, EIn s e → EIn s' e)
    (hR : ∀ o ∈ s.reordQ, o ≠ ob → o ∈ s'.reordQ) (h : Has s b m)
    (hn : ob.base = b → ob.idx ≠ m) : Has s' b m := by
  rcases h with ⟨o, ho, h1, h2⟩ | ⟨e, he, h1, h2⟩
  · refine Or.inl ⟨o, hR o ho ?_, h1, h2⟩
    intro hh; subst hh
    exact hn h1 h2
  · exact Or.inr ⟨e, mE e he, h1, h2⟩

/-- `do_reorder` takes `ob` out of `reord_q` and turns `order_q` into `q'`:
    fine as long as `ob` is not the next buffer of anything -/
theorem XI_reorder_core {c : Cfg} {s s' : State} {ob : OB} {q' : List (Nat × Nat)} (h : XI c s)
    (e1 : s'.orderQ = q') (e2 : s'.reordQ = s.reordQ.erase ob) (e3 : s'.gnext = s.gnext)
    (e4 : s'.pdone = s.pdone) (e5 : s'.emitQ = s.emitQ) (e6 : s'.busy = s.busy)
    (e7 : s'.retrQ = s.retrQ) (e8 : s'.orphans = s.orphans)
    (Q1 : ∀ b i, (b, i) ∈ q' → ∃ i0, i0 ≤ i ∧ (b, i0) ∈ s.orderQ)
    (Q2 : ∀ b i, (b, i) ∈ q' → McJob s b ∨ Has s b i)
    (N1 : ∀ b i, (b, i) ∈ q' → ob.base = b → ob.idx < i)
    (N2 : s.pdone = false → ob.base ≤ s.gnext) : XI c s' := by
  have mE : ∀ e, EIn s e → EIn s' e := by
    intro e he; simpa [EIn, e5, e6] using he
  have hR : ∀ o ∈ s.reordQ, o ≠ ob → o ∈ s'.reordQ := by
    intro o ho hne; rw [e2]; exact mem_erase_ne ho hne
  obtain ⟨_, a1, a2, a6⟩ := h
  refine ⟨?_, ?_, ?_, ?_⟩
  · intro b i hi
    rw [e1] at hi
    rcases Q2 b i hi with hm | hc
    · obtain ⟨j0, hj0, hb, hmc⟩ := hm
      exact Or.inl ⟨j0, by simpa [JIn, e6, e7] using hj0, hb, hmc⟩
    · refine Or.inr (Has_erase mE hR hc ?_)
      intro hb; have := N1 b i hi hb; omega
  · intro o ho hst i hi hle
    rw [e2] at ho; rw [e1] at hi
    obtain ⟨i0, hi0, hm0⟩ := Q1 _ _ hi
    refine Has_erase mE hR (a1 o (List.mem_of_mem_erase ho) hst i0 hm0 (by omega)) ?_
    intro hb; have := N1 _ _ hi hb; omega
  · intro hd o ho hst hg
    rw [e2] at ho; rw [e3] at hg; rw [e4] at hd
    refine Has_erase mE hR (a2 hd o (List.mem_of_mem_erase ho) hst hg) ?_
    intro hb; have := N2 hd; omega
  · intro hd u hu hq hg
    rw [e8] at hu; rw [e3] at hg; rw [e4] at hd
    refine Has_erase mE hR (a6 hd u hu hq hg) ?_
    intro hb; have := N2 hd; omega

theorem XI_reorder {c : Cfg} {s s' : State} {ob : OB} (h : XI c s) (hH : HI c s)
    (hs : stepReorder c s ob = some s') (hf' : s'.failed = false) : XI c s' := by
  unfold stepReorder at hs; split at hs
  · next hg =>
    simp only [Bool.and_eq_true, List.contains_iff_mem, beq_iff_eq] at hg
    obtain ⟨⟨⟨_, hsel⟩, hmem⟩, hmin⟩ := hg
    split at hs
    · next hb =>
      simp only [Option.some.injEq] at hs; subst hs
      rcases bogus_facts hsel hmin hb with ⟨hq, hpd⟩ | ⟨x, r, hq, hlt⟩
      · refine XI_reorder_core (ob := ob) (q' := s.orderQ) h rfl rfl rfl rfl rfl rfl rfl rfl
          ?_ ?_ ?_ ?_
        · intro b i hi; rw [hq] at hi; cases hi
        · intro b i hi; rw [hq] at hi; cases hi
        · intro b i hi; rw [hq] at hi; cases hi
        · intro hd; rw [hpd] at hd; cases hd
      · have hleast : ∀ b i, (b, i) ∈ s.orderQ → (b, i) = x ∨ x.1 < b := by
          intro b i hi
          have hp := hH.h0.srt
          rw [hq] at hi hp
          rcases List.mem_cons.1 hi with hi | hi
          · exact Or.inl hi
          · exact Or.inr ((List.pairwise_cons.1 hp).1 _ hi)
        have hx : x ∈ s.orderQ := by rw [hq]; exact List.mem_cons_self
        have hxg : x.1 ≤ s.gnext := hH.h0.og x.1 x.2 hx
        refine XI_reorder_core (ob := ob) (q' := s.orderQ) h rfl rfl rfl rfl rfl rfl rfl rfl
          ?_ h.x1 ?_ ?_
        · intro b i hi; exact ⟨i, Nat.le_refl _, hi⟩
        · intro b i hi hb'
          rcases hleast b i hi with he | hl
          · subst he
            simp only at hlt; omega
          · omega
        · intro _; omega
    · next hb =>
      have hb' : dReorderBogus (view c s) = false := by simpa using hb
      obtain ⟨r, hr⟩ := reorder_head hsel hmin hb'
      have hp := hH.h0.srt
      rw [hr] at hp
      have hpc := List.pairwise_cons.1 hp
      have hhead : (ob.base, ob.idx) ∈ s.orderQ := by rw [hr]; exact List.mem_cons_self
      have hrsub : ∀ x ∈ r, x ∈ s.orderQ := by
        intro x hx; rw [hr]; exact List.mem_cons_of_mem _ hx
      have hN2 : s.pdone = false → ob.base ≤ s.gnext := fun _ => hH.h0.og _ _ hhead
      split at hs
      · simp only [Option.some.injEq] at hs; subst hs
        cases hf'
      · next hst =>
        simp only [Option.some.injEq] at hs; subst hs
        refine XI_reorder_core (ob := ob) (q' := (ob.base, ob.idx + 1) :: r) h
          (by simp only [hr]) rfl rfl rfl rfl rfl rfl rfl ?_ ?_ ?_ hN2
        · intro b i hi
          rcases List.mem_cons.1 hi with hi | hi
          · cases hi; exact ⟨ob.idx, Nat.le_succ _, hhead⟩
          · exact ⟨i, Nat.le_refl _, hrsub _ hi⟩
        · intro b i hi
          rcases List.mem_cons.1 hi with hi | hi
          · cases hi
            exact Or.inr (h.xch ob hmem hst ob.idx hhead (Nat.le_refl _))
          · exact h.x1 b i (hrsub _ hi)
        · intro b i hi hb0
          rcases List.mem_cons.1 hi with hi | hi
          · cases hi; exact Nat.lt_succ_self _
          · have := hpc.1 _ hi
            simp only at this; omega
      · next hst =>
        simp only [Option.some.injEq] at hs; subst hs
        refine XI_reorder_core (ob := ob) (q' := r) h
          (by simp only [hr, List.tail_cons]) rfl rfl rfl rfl rfl rfl rfl ?_ ?_ ?_ hN2
        · intro b i hi; exact ⟨i, Nat.le_refl _, hrsub _ hi⟩
        · intro b i hi; exact h.x1 b i (hrsub _ hi)
        · intro b i hi hb0
          have := hpc.1 _ hi
          simp only at this; omega
  · simp at hs

/-! ### scanEnd -/

theorem XI_scanEnd {c : Cfg} {s s' : State} {st k : Nat} (h : XI c s)
    (hs : stepScanEnd c s st k = some s') : XI c s' := by
  unfold stepScanEnd at hs; split at hs
  · have f1 : Fx s (detach { s with busy := s.busy.erase (.scan st k) } (some k)) :=
      (Fx_busy_erase s (by intro e; constructor <;> (intro hh; cases hh))).trans (Fx_detach _ _)
    have m1 : JM s (detach { s with busy := s.busy.erase (.scan st k) } (some k)) := by
      intro j hj
      apply JM_detach
      rcases hj with hq | ⟨k0, hk0⟩
      · exact Or.inl hq
      · exact Or.inr ⟨k0, mem_erase_ne hk0 (by intro hh; cases hh)⟩
    generalize detach { s with busy := s.busy.erase (.scan st k) } (some k) = s1 at f1 m1 hs
    have h1 : XI c s1 := XI_frame' h f1 m1
    dsimp only at hs
    split at hs
    · simp only [Option.some.injEq] at hs; subst hs
      exact XI_congr h1 rfl rfl rfl rfl rfl rfl rfl rfl
    · next x hx =>
      split at hs
      · simp only [Option.some.injEq] at hs; subst hs
        exact XI_congr h1 rfl rfl rfl rfl rfl rfl rfl rfl
      · simp only [Option.some.injEq] at hs; subst hs
        have h2 : XI c (scanNew c s1 x) := by
          unfold scanNew; split
          · exact XI_congr h1 rfl rfl rfl rfl rfl rfl rfl rfl
          · refine XI_frame' h1 (Fx_same rfl rfl rfl rfl rfl (fun _ he => he)) ?_
            intro j hj
            rcases hj with hq | hk
            · exact Or.inl (List.mem_cons_of_mem _ hq)
            · exact Or.inr hk
        unfold scanRequeue; split
        · exact XI_congr h2 rfl rfl rfl rfl rfl rfl rfl rfl
        · exact h2
  · simp at hs

/-! ### retrEnd -/

theorem retrMove_orphans (c : Cfg) (s1 : State) (j : Job) (newc : Nat) :
    (retrMove c s1 j newc).orphans = s1.orphans := by
  unfold retrMove; split <;> rfl

/-- a finished retrieve leaves its emit job at index 0; the orphan of a
    finished speculative retrieve has that emit job -/
theorem retrDone_fx (c : Cfg) (s2 : State) (j : Job) (newc : Nat) :
    Fx s2 (retrDone c s2 j newc) := by
  have f := (retrDone_facts c s2 j newc).1
  have he := (retrDone_facts c s2 j newc).2.2
  refine ⟨f.eO, f.eR, f.eG, f.eP, f.mE, ?_⟩
  intro _ u hu
  cases hmas : j.master with
  | true =>
    simp only [retrDone, hmas, if_true] at hu
    exact Or.inl hu
  | false =>
    simp only [retrDone, hmas, Bool.false_eq_true, if_false] at hu
    rcases List.mem_append.1 hu with hu | hu
    · cases hub : j.ub with
      | none => simp [hub] at hu
      | some f0 =>
        simp only [hub, List.mem_singleton] at hu
        subst hu
        exact Or.inr (Or.inr ⟨_, he, rfl, Nat.le_refl _⟩)
    · exact Or.inl hu

theorem XI_retrEnd {c : Cfg} {s s' : State} {j : Job} {k : Option Nat} (h : XI c s) (hH : HI c s)
    (hS : SI c s) (hA : AI c s) (hs : stepRetrEnd c s j k = some s') : XI c s' := by
  unfold stepRetrEnd at hs; split at hs
  · next hg =>
    have hmem : Phase.retr j k ∈ s.busy := by simpa using hg
    have hmhj := hA.mh j k hmem
    have hcnt : List.countP Phase.mc (s.busy.erase (.retr j k)) + (if Job.mc j then 1 else 0)
        = List.countP Phase.mc s.busy := countP_erase_add Phase.mc hmem
    have hm0 := hS.mc0
    have hf := detach_fields { s with busy := s.busy.erase (.retr j k) } k
    have hmc1 : mcount (detach { s with busy := s.busy.erase (.retr j k) } k)
        + (if Job.mc j then 1 else 0) = mcount s := by
      rw [mcount_detach]
      show List.countP Job.mc s.retrQ + List.countP Phase.mc (s.busy.erase (.retr j k))
        + (if Job.mc j then 1 else 0) = List.countP Job.mc s.retrQ + List.countP Phase.mc s.busy
      omega
    have hm1 := hS.mc1
    have hho : headOffs c (detach { s with busy := s.busy.erase (.retr j k) } k) = headOffs c s := by
      show offs c _ = offs c _; rw [hf.2.2.2.2.2.2.2.2.2.2.2]
    have f1 : Fx s (detach { s with busy := s.busy.erase (.retr j k) } k) :=
      (Fx_busy_erase s (by intro e; constructor <;> (intro hh; cases hh))).trans (Fx_detach _ _)
    have hsplit : ∀ j0, JIn s j0 → j0 = j ∨
        JIn (detach { s with busy := s.busy.erase (.retr j k) } k) j0 := by
      intro j0 hj0
      rcases hj0 with hq | ⟨k0, hk0⟩
      · exact Or.inr (JM_detach _ _ _ (Or.inl hq))
      · by_cases he : Phase.retr j0 k0 = Phase.retr j k
        · cases he; exact Or.inl rfl
        · exact Or.inr (JM_detach _ _ _ (Or.inr ⟨k0, mem_erase_ne hk0 he⟩))
    generalize detach { s with busy := s.busy.erase (.retr j k) } k = s1
      at hf hmc1 hs hho f1 hsplit
    obtain ⟨g1, g2, g3, g4, g5, g6, g7, g8, g9, g10, g11, g12⟩ := hf
    have g5 : s1.pdone = s.pdone := g5
    dsimp only at hs
    have hnge := newc_ge c j k
    generalize retrNewc c j k = newc at hs hnge
    by_cases hpd : s1.pdone = true
    · rw [if_pos hpd] at hs
      simp only [Option.some.injEq] at hs; subst hs
      have hpt : s.ptok = true := hH.h0.pt (by rw [← g5]; exact hpd)
      have hz : mcount s = 0 := hm0 (Or.inl hpt)
      have f2 : Fx s1 (retrExit s1 j) := Fx_same rfl rfl rfl rfl rfl (fun _ he => he)
      refine XI_frame h (f1.trans f2) ?_
      intro b i _ hm
      obtain ⟨j0, hj0, _, hmc⟩ := hm
      exact (no_mc_JIn hz hj0 hmc).elim
    · rw [if_neg hpd] at hs
      have hpd' : s1.pdone = false := by simpa using hpd
      by_cases hab : j.redundant = true
      · rw [if_pos hab] at hs
        simp only [Option.some.injEq] at hs; subst hs
        have f2 : Fx s1 (retrExit s1 j) := Fx_same rfl rfl rfl rfl rfl (fun _ he => he)
        refine XI_frame h (f1.trans f2) ?_
        intro b i _ hm
        obtain ⟨j0, hj0, hb0, hmc⟩ := hm
        rcases hsplit j0 hj0 with he | hin
        · subst he; rw [redundant_not_mc hab] at hmc; cases hmc
        · exact Or.inl ⟨j0, hin, hb0, hmc⟩
      · rw [if_neg hab] at hs
        have hna' : j.redundant = false := by simpa using hab
        have hmaster : j.master = true → Job.mc j = true := fun hm => master_mc hm hna'
        have hnm : Job.mc j = false → j.master = false := by
          intro hh
          cases hmas : j.master with
          | false => rfl
          | true => rw [hmaster hmas] at hh; cases hh
        obtain ⟨f2r, m1, m2, m3, m4⟩ := retrMove_facts c s1 j newc
        have f2 : Fx s1 (retrMove c s1 j newc) :=
          Fx_of_Fr f2r (fun u hu => by rw [retrMove_orphans] at hu; exact hu)
        generalize retrMove c s1 j newc = s2 at hs f2 m1 m2 m3 m4
        -- jobs of `s1` that can be master-capable survive the master's `advance`
        have hkeep : ∀ j0, JIn s1 j0 → Job.mc j0 = true → JIn s2 j0 := by
          intro j0 hj0 hmc0
          cases hmcj : Job.mc j with
          | true =>
            have hz : mcount s1 = 0 := by simp only [hmcj, if_true] at hmc1; omega
            exact (no_mc_JIn hz hj0 hmc0).elim
          | false =>
            have := m2 (hnm hmcj)
            rcases hj0 with hq | ⟨k0, hk0⟩
            · exact Or.inl (by rw [this]; exact hq)
            · exact Or.inr ⟨k0, by rw [m1]; exact hk0⟩
        by_cases hfin : (!decide ((rres c j.base).e ≤ newc)) = true
        · rw [if_pos hfin] at hs
          by_cases hov : newc < headOffs c s2
          · -- overtaken: the job cannot be master-capable
            rw [if_pos hov] at hs
            simp only [Option.some.injEq] at hs; subst hs
            have hnmc : Job.mc j = false := by
              cases hmcj : Job.mc j with
              | false => rfl
              | true => have := hmhj hmcj; omega
            have f3 : Fx s2 (retrExit s2 (retrMoreJob j newc)) :=
              Fx_same rfl rfl rfl rfl rfl (fun _ he => he)
            refine XI_frame h ((f1.trans f2).trans f3) ?_
            intro b i _ hm
            obtain ⟨j0, hj0, hb0, hmc⟩ := hm
            rcases hsplit j0 hj0 with he | hin
            · subst he; rw [hnmc] at hmc; cases hmc
            · exact Or.inl ⟨j0, hkeep j0 hin hmc, hb0, hmc⟩
          · rw [if_neg hov] at hs
            simp only [Option.some.injEq] at hs; subst hs
            have f3 : Fx s2 (retrMore s2 j newc) :=
              Fx_same rfl rfl rfl rfl rfl (fun _ he => he)
            refine XI_frame h ((f1.trans f2).trans f3) ?_
            intro b i _ hm
            obtain ⟨j0, hj0, hb0, hmc⟩ := hm
            rcases hsplit j0 hj0 with he | hin
            · subst he
              exact Or.inl ⟨retrMoreJob j0 newc, Or.inl List.mem_cons_self, hb0,
                by rw [mc_retrMoreJob]; exact hmc⟩
            · rcases hkeep j0 hin hmc with hq | hk
              · exact Or.inl ⟨j0, Or.inl (List.mem_cons_of_mem _ hq), hb0, hmc⟩
              · exact Or.inl ⟨j0, Or.inr hk, hb0, hmc⟩
        · rw [if_neg hfin] at hs
          simp only [Option.some.injEq] at hs; subst hs
          obtain ⟨_, m6, m7⟩ := retrDone_facts c s2 j newc
          have f3 := retrDone_fx c s2 j newc
          refine XI_frame h ((f1.trans f2).trans f3) ?_
          intro b i hi hm
          obtain ⟨j0, hj0, hb0, hmc⟩ := hm
          rcases hsplit j0 hj0 with he | hin
          · subst he
            -- the master's emit job starts at index 0: it has every buffer
            exact Or.inr (Or.inr ⟨_, m7, hb0, Nat.zero_le _⟩)
          · exact Or.inl ⟨j0, m6 j0 (hkeep j0 hin hmc), hb0, hmc⟩
  · simp at hs

end LbzVerif.Lemmas.SchedD
