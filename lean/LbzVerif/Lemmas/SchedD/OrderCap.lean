/-
  Capacity of `order_q` (deque_init(order_q, work_units + out_slots)):
  |order_q| ≤ n + total_out.  Every entry has a producer of its own block
  (holder invariant), entries have pairwise different bases, and every
  producer holds a work unit or an output slot (conservation).
-/
import LbzVerif.Lemmas.SchedD.Holder2

namespace LbzVerif.Lemmas.SchedD
open LbzVerif.Model.SchedD LbzVerif.Gen

/-- pigeonhole: a duplicate-free list contained in `L` is not longer than `L` -/
theorem nodup_subset_length_le : ∀ (bs L : List Nat), bs.Nodup → (∀ b ∈ bs, b ∈ L) →
    bs.length ≤ L.length
  | [], _, _, _ => Nat.zero_le _
  | b :: bs, L, hn, hs => by
    have hb : b ∈ L := hs b List.mem_cons_self
    have hnb : b ∉ bs := (List.nodup_cons.1 hn).1
    have ih := nodup_subset_length_le bs (L.erase b) (List.nodup_cons.1 hn).2 (by
      intro x hx
      have hxb : x ≠ b := fun e => hnb (e ▸ hx)
      exact (List.mem_erase_of_ne hxb).2 (hs x (List.mem_cons_of_mem _ hx)))
    have := List.length_erase_of_mem hb
    simp only [List.length_cons]
    have hpos : 0 < L.length := List.length_pos_of_mem hb
    omega

/-- base of what a busy worker is producing -/
def Phase.prodBase : Phase → List Nat
  | .retr j _ => [j.base]
  | .retr2 e => [e.base]
  | .emit e => [e.base]
  | .scan _ _ => []

/-- bases of everything that can be the producer of an `order_q` entry -/
def prodBases (s : State) : List Nat :=
  s.retrQ.map (·.base) ++ s.busy.flatMap Phase.prodBase ++ s.emitQ.map (·.base)
    ++ s.reordQ.map (·.base)

theorem flatMap_prodBase_le (l : List Phase) : (l.flatMap Phase.prodBase).length ≤ l.length := by
  induction l with
  | nil => simp
  | cons x xs ih =>
    have hx : (Phase.prodBase x).length ≤ 1 := by cases x <;> simp [Phase.prodBase]
    rw [List.flatMap_cons, List.length_append, List.length_cons]
    omega

theorem prodBases_length (s : State) :
    (prodBases s).length ≤ s.retrQ.length + s.busy.length + s.emitQ.length + s.reordQ.length := by
  have := flatMap_prodBase_le s.busy
  simp only [prodBases, List.length_append, List.length_map]
  omega

theorem pairwise_lt_nodup_fst : ∀ (l : List (Nat × Nat)), l.Pairwise (fun x y => x.1 < y.1) →
    (l.map (·.1)).Nodup
  | [], _ => List.nodup_nil
  | x :: xs, h => by
    have h' := List.pairwise_cons.1 h
    simp only [List.map_cons, List.nodup_cons]
    refine ⟨?_, pairwise_lt_nodup_fst xs h'.2⟩
    intro hm
    obtain ⟨y, hy, e⟩ := List.mem_map.1 hm
    have := h'.1 y hy
    omega

/-- **order_q capacity**: in every reachable state (before `failf`)
    `|order_q| ≤ n + total_out` (= `Gen.orderCap`). -/
theorem order_cap {c : Cfg} {s : State} (h : Reach c s) (hf : s.failed = false) :
    s.orderQ.length ≤ orderCap c.n c.totalOut := by
  have hi := hi_reach h hf
  have ci := ci_reach h hf
  have hnd := pairwise_lt_nodup_fst s.orderQ hi.h0.srt
  have hsub : ∀ b ∈ s.orderQ.map (·.1), b ∈ prodBases s := by
    intro b hb
    obtain ⟨⟨b', i⟩, hmem, rfl⟩ := List.mem_map.1 hb
    simp only [prodBases, List.mem_append, List.mem_map, List.mem_flatMap]
    rcases hi.h1 b' i hmem with ⟨j, hj, hjb, _⟩ | ⟨e, he, heb, _⟩ | ⟨o, ho, hob, _⟩
    · rcases hj with hj | ⟨k, hk⟩
      · exact Or.inl (Or.inl (Or.inl ⟨j, hj, hjb⟩))
      · exact Or.inl (Or.inl (Or.inr ⟨_, hk, by simp [Phase.prodBase, hjb]⟩))
    · rcases he with he | he | he
      · exact Or.inl (Or.inr ⟨e, he, heb⟩)
      · exact Or.inl (Or.inl (Or.inr ⟨_, he, by simp [Phase.prodBase, heb]⟩))
      · exact Or.inl (Or.inl (Or.inr ⟨_, he, by simp [Phase.prodBase, heb]⟩))
    · exact Or.inr ⟨o, ho, hob⟩
  have h1 := nodup_subset_length_le _ _ hnd hsub
  have h2 := prodBases_length s
  have hw := ci.wuC
  have ho := ci.osC
  simp only [List.length_map] at h1
  simp only [busyCount] at hw
  unfold orderCap
  omega

end LbzVerif.Lemmas.SchedD
