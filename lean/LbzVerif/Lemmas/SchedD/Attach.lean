/-
  `attach_in_range` (restored after commit 7623822, DESIGN 7.1 F5): every
  `attach()` is called with `head_offs ≤ offset`: the parser position, every
  scan job and EVERY retrieve job in `retr_q` lie at or after `head_offs`.
  Inductive invariant `AI`, proved on top of the safety invariant `SI`.
-/
import LbzVerif.Lemmas.SchedD.Safe3

namespace LbzVerif.Lemmas.SchedD
open LbzVerif.Model.SchedD LbzVerif.Gen

/-- `base ≤ end_pos ≤ curr_pos` for a job's unord_blk -/
def ecOK (j : Job) : Prop := ∀ f, j.ub = some f → j.base ≤ f.endp ∧ f.endp ≤ j.curr

structure AI (c : Cfg) (s : State) : Prop where
  hr : s.head ≤ s.rd
  hp : s.pdone = false → headOffs c s ≤ s.ppos
  pk : ∀ k, s.pphase = some (some k) → headOffs c s ≤ offs c (k + 1)
  mh : ∀ j k, Phase.retr j k ∈ s.busy → Job.mc j = true → headOffs c s ≤ j.curr
  arQ : ∀ j ∈ s.retrQ, headOffs c s ≤ j.curr
  arS : ∀ sp ∈ s.scanQ, headOffs c s ≤ sp
  ecQ : ∀ j ∈ s.retrQ, ecOK j
  ecB : ∀ j k, Phase.retr j k ∈ s.busy → ecOK j

theorem AI_init (c : Cfg) : AI c (init c) := by
  refine ⟨?_, ?_, ?_, ?_, ?_, ?_, ?_, ?_⟩ <;> simp [init, headOffs, offs]

/-! ### `advance` -/

theorem newHead_le_rd {c : Cfg} {s : State} (p : Nat) (h : s.head ≤ s.rd) :
    newHead c s p ≤ s.rd := by
  unfold newHead; omega

/-- after `advance(p)` with `head_offs ≤ p`, everything queued is in range -/
theorem AI_advance {c : Cfg} {s : State} (p : Nat) (h : AI c s) (hp : headOffs c s ≤ p)
    (hpk : (advance c s p).pphase = none)
    (hmh : ∀ j k, Phase.retr j k ∈ s.busy → Job.mc j = true → headOffs c (advance c s p) ≤ j.curr) :
    AI c (advance c s p) := by
  have hle := headOffs_advance_le c s p
  refine ⟨newHead_le_rd p h.hr, ?_, ?_, hmh, ?_, ?_, ?_, h.ecB⟩
  · intro _; show headOffs c (advance c s p) ≤ p; omega
  · intro k hk; rw [hpk] at hk; cases hk
  · intro j hj
    have := (List.mem_filter.1 hj).2
    have h' : ¬ j.curr < offs c (newHead c s p) := by simpa using this
    show offs c (newHead c s p) ≤ j.curr
    omega
  · intro sp hsp
    have := (List.mem_filter.1 hsp).2
    have h' : ¬ sp < offs c (newHead c s p) := by simpa using this
    show offs c (newHead c s p) ≤ sp
    omega
  · intro j hj; exact h.ecQ j (List.mem_filter.1 hj).1

/-- `AI` only reads these fields -/
theorem AI_congr {c : Cfg} {s s' : State} (h : AI c s)
    (e1 : s'.head = s.head) (e2 : s'.rd = s.rd) (e3 : s'.pdone = s.pdone) (e4 : s'.ppos = s.ppos)
    (e5 : s'.pphase = s.pphase) (e6 : s'.busy = s.busy) (e7 : s'.retrQ = s.retrQ)
    (e8 : s'.scanQ = s.scanQ) : AI c s' := by
  obtain ⟨a1, a2, a3, a4, a5, a6, a7, a8⟩ := h
  refine ⟨?_, ?_, ?_, ?_, ?_, ?_, ?_, ?_⟩
  · rw [e1, e2]; exact a1
  · simpa [headOffs, e1, e3, e4] using a2
  · simpa [headOffs, e1, e5] using a3
  · simpa [headOffs, e1, e6] using a4
  · simpa [headOffs, e1, e7] using a5
  · simpa [headOffs, e1, e8] using a6
  · simpa [e7] using a7
  · simpa [e6] using a8

theorem AI_detach {c : Cfg} {s : State} (k : Option Nat) (h : AI c s) : AI c (detach s k) := by
  unfold detach; split
  · exact h
  · split
    · exact AI_congr h rfl rfl rfl rfl rfl rfl rfl rfl
    · exact h

/-- changing `busy` by removing a phase / adding a non-retrieve phase -/
theorem AI_busy_erase {c : Cfg} {s : State} (ph : Phase) (h : AI c s) :
    AI c { s with busy := s.busy.erase ph } := by
  obtain ⟨a1, a2, a3, a4, a5, a6, a7, a8⟩ := h
  exact ⟨a1, a2, a3, fun j k hm => a4 j k (List.mem_of_mem_erase hm), a5, a6, a7,
    fun j k hm => a8 j k (List.mem_of_mem_erase hm)⟩

theorem lt_offs_succ_div {c : Cfg} {p r : Nat} (h : p < offs c r) : p < offs c (p / c.W + 1) := by
  unfold offs at h ⊢
  have hW : 0 < c.W := by
    rcases Nat.eq_zero_or_pos c.W with h0 | h0
    · rw [h0] at h; simp at h
    · exact h0
  have := Nat.lt_mul_div_succ p hW
  rw [Nat.mul_comm] at this
  omega


/-! ### simple steps -/

theorem AI_rTake {c : Cfg} {s s' : State} (h : AI c s) (hs : stepRTake s = some s') : AI c s' := by
  unfold stepRTake at hs; split at hs <;> simp at hs; subst hs
  exact AI_congr h rfl rfl rfl rfl rfl rfl rfl rfl

theorem AI_rQuit {c : Cfg} {s s' : State} (h : AI c s) (hs : stepRQuit s = some s') : AI c s' := by
  unfold stepRQuit at hs; split at hs <;> simp at hs; subst hs
  exact AI_congr h rfl rfl rfl rfl rfl rfl rfl rfl

theorem AI_rBlock {c : Cfg} {s s' : State} (h : AI c s) (hs : stepRBlock c s = some s') : AI c s' := by
  unfold stepRBlock at hs; split at hs
  · dsimp only at hs; split at hs <;> simp only [Option.some.injEq] at hs <;> subst hs
    · exact AI_congr h rfl rfl rfl rfl rfl rfl rfl rfl
    · obtain ⟨a1, a2, a3, a4, a5, a6, a7, a8⟩ := h
      refine ⟨Nat.le_succ_of_le a1, a2, a3, a4, a5, ?_, a7, a8⟩
      intro sp hsp
      rcases List.mem_cons.1 hsp with e | hm
      · subst e; exact offs_mono c a1
      · exact a6 sp hm
  · simp at hs

theorem AI_rEmpty {c : Cfg} {s s' : State} (h : AI c s) (hs : stepREmpty c s = some s') : AI c s' := by
  unfold stepREmpty at hs; split at hs <;> simp at hs; subst hs
  exact AI_congr h rfl rfl rfl rfl rfl rfl rfl rfl

theorem AI_rEof {c : Cfg} {s s' : State} (h : AI c s) (hs : stepREof s = some s') : AI c s' := by
  unfold stepREof at hs; split at hs <;> simp at hs; subst hs
  exact AI_congr h rfl rfl rfl rfl rfl rfl rfl rfl

theorem AI_wDone {c : Cfg} {s s' : State} (h : AI c s) (hs : stepWDone s = some s') : AI c s' := by
  unfold stepWDone at hs; split at hs <;> simp at hs; subst hs
  exact AI_congr h rfl rfl rfl rfl rfl rfl rfl rfl

theorem AI_reorder {c : Cfg} {s s' : State} {ob : OB} (h : AI c s)
    (hs : stepReorder c s ob = some s') : AI c s' := by
  unfold stepReorder at hs; split at hs
  · split at hs
    · simp only [Option.some.injEq] at hs; subst hs
      exact AI_congr h rfl rfl rfl rfl rfl rfl rfl rfl
    · split at hs <;> simp only [Option.some.injEq] at hs <;> subst hs <;>
        exact AI_congr h rfl rfl rfl rfl rfl rfl rfl rfl
  · simp at hs

theorem AI_parseStart {c : Cfg} {s s' : State} (h : AI c s)
    (hs : stepParseStart c s = some s') : AI c s' := by
  unfold stepParseStart at hs; split at hs
  · next hg =>
    simp only [Bool.and_eq_true, beq_iff_eq] at hg
    have hd := (select_parse hg.1.2).2
    simp only [Option.some.injEq] at hs; subst hs
    obtain ⟨a1, a2, a3, a4, a5, a6, a7, a8⟩ := h
    refine ⟨a1, a2, ?_, a4, a5, a6, a7, a8⟩
    intro k hk
    have hk' : (if s.ppos < tailOffs c s then some (s.ppos / c.W) else none) = some k := by
      simpa using hk
    split at hk'
    · next hlt =>
      simp only [Option.some.injEq] at hk'; subst hk'
      have := lt_offs_succ_div (c := c) hlt
      have := a2 hd
      show headOffs c s ≤ _
      omega
    · cases hk'
  · simp at hs

theorem AI_retrStart {c : Cfg} {s s' : State} {j : Job} (h : AI c s)
    (hs : stepRetrStart c s j = some s') : AI c s' := by
  unfold stepRetrStart at hs; split at hs
  · next hg =>
    simp only [Bool.and_eq_true, List.contains_iff_mem] at hg
    have hj : j ∈ s.retrQ := hg.1.2
    simp only [Option.some.injEq] at hs; subst hs
    obtain ⟨a1, a2, a3, a4, a5, a6, a7, a8⟩ := h
    refine ⟨a1, a2, a3, ?_, ?_, a6, ?_, ?_⟩
    · intro j' k' hm _
      rcases List.mem_cons.1 hm with e | hm
      · cases e; exact a5 j hj
      · exact a4 j' k' hm ‹_›
    · intro x hx; exact a5 x (List.mem_of_mem_erase hx)
    · intro x hx; exact a7 x (List.mem_of_mem_erase hx)
    · intro j' k' hm
      rcases List.mem_cons.1 hm with e | hm
      · cases e; exact a7 j hj
      · exact a8 j' k' hm
  · simp at hs

theorem AI_busy_cons {c : Cfg} {s : State} (ph : Phase) (h : AI c s)
    (hn : ∀ j k, ph ≠ Phase.retr j k) : AI c { s with busy := ph :: s.busy } := by
  obtain ⟨a1, a2, a3, a4, a5, a6, a7, a8⟩ := h
  refine ⟨a1, a2, a3, ?_, a5, a6, a7, ?_⟩
  · intro j k hm
    rcases List.mem_cons.1 hm with e | hm
    · exact absurd e.symm (hn j k)
    · exact a4 j k hm
  · intro j k hm
    rcases List.mem_cons.1 hm with e | hm
    · exact absurd e.symm (hn j k)
    · exact a8 j k hm

theorem AI_retrPost {c : Cfg} {s s' : State} {e : EJob} (h : AI c s)
    (hs : stepRetrPost s e = some s') : AI c s' := by
  unfold stepRetrPost at hs; split at hs
  · simp only [Option.some.injEq] at hs; subst hs
    exact AI_congr (AI_busy_erase (.retr2 e) h) rfl rfl rfl rfl rfl rfl rfl rfl
  · simp at hs

theorem AI_emitStart {c : Cfg} {s s' : State} {e : EJob} (h : AI c s)
    (hs : stepEmitStart c s e = some s') : AI c s' := by
  unfold stepEmitStart at hs; split at hs
  · simp only [Option.some.injEq] at hs; subst hs
    exact AI_congr (AI_busy_cons (.emit e) h (by intro j k hh; cases hh)) rfl rfl rfl rfl rfl rfl rfl rfl
  · simp at hs

theorem AI_emitEnd {c : Cfg} {s s' : State} {e : EJob} (h : AI c s)
    (hs : stepEmitEnd s e = some s') : AI c s' := by
  unfold stepEmitEnd at hs; split at hs
  · dsimp only at hs
    split at hs <;> simp only [Option.some.injEq] at hs <;> subst hs <;>
      exact AI_congr (AI_busy_erase (.emit e) h) rfl rfl rfl rfl rfl rfl rfl rfl
  · simp at hs

theorem AI_scanStart {c : Cfg} {s s' : State} {sp : Nat} (h : AI c s)
    (hs : stepScanStart c s sp = some s') : AI c s' := by
  unfold stepScanStart at hs; split at hs
  · simp only [Option.some.injEq] at hs; subst hs
    have h1 := AI_busy_cons (.scan (if sp / c.W == s.ppos / c.W && sp < s.ppos then s.ppos else sp) (sp / c.W))
      h (by intro j k hh; cases hh)
    obtain ⟨a1, a2, a3, a4, a5, a6, a7, a8⟩ := h1
    exact ⟨a1, a2, a3, a4, a5, fun x hx => a6 x (List.mem_of_mem_erase hx), a7, a8⟩
  · simp at hs

theorem AI_scanEnd {c : Cfg} {s s' : State} {st k : Nat} (h : AI c s)
    (hs : stepScanEnd c s st k = some s') : AI c s' := by
  unfold stepScanEnd at hs; split at hs
  · have h1 : AI c (detach { s with busy := s.busy.erase (.scan st k) } (some k)) :=
      AI_detach _ (AI_busy_erase _ h)
    generalize detach { s with busy := s.busy.erase (.scan st k) } (some k) = s1 at h1 hs
    dsimp only at hs
    split at hs
    · simp only [Option.some.injEq] at hs; subst hs
      exact AI_congr h1 rfl rfl rfl rfl rfl rfl rfl rfl
    · next x hx =>
      split at hs
      · simp only [Option.some.injEq] at hs; subst hs
        exact AI_congr h1 rfl rfl rfl rfl rfl rfl rfl rfl
      · next hpd =>
        have hpd' : s1.pdone = false := by simpa using hpd
        simp only [Option.some.injEq] at hs; subst hs
        have hN : AI c (scanNew c s1 x) := by
          unfold scanNew; split
          · exact AI_congr h1 rfl rfl rfl rfl rfl rfl rfl rfl
          · next hx' =>
            obtain ⟨a1, a2, a3, a4, a5, a6, a7, a8⟩ := h1
            refine ⟨a1, a2, a3, a4, ?_, a6, ?_, a8⟩
            · intro j hj
              rcases List.mem_cons.1 hj with e | hm
              · subst e; show headOffs c s1 ≤ x; omega
              · exact a5 j hm
            · intro j hj
              rcases List.mem_cons.1 hj with e | hm
              · subst e; intro f hf; simp at hf; subst hf; exact ⟨Nat.le_refl _, Nat.le_refl _⟩
              · exact a7 j hm
        unfold scanRequeue; split
        · next hq =>
          simp only [Bool.and_eq_true, decide_eq_true_eq] at hq
          obtain ⟨a1, a2, a3, a4, a5, a6, a7, a8⟩ := hN
          refine ⟨a1, a2, a3, a4, a5, ?_, a7, a8⟩
          intro sp hsp
          rcases List.mem_cons.1 hsp with e | hm
          · subst e; exact hq.2
          · exact a6 sp hm
        · exact hN
  · simp at hs


/-! ### retrEnd -/

theorem ecOK_retrMoreJob {j : Job} {newc : Nat} (h : ecOK j) (hb : j.base ≤ j.curr)
    (hc : j.curr ≤ newc) : ecOK (retrMoreJob j newc) := by
  intro f hf
  unfold retrMoreJob at hf
  cases hu : j.ub with
  | none => simp [hu] at hf
  | some f0 =>
    have := h f0 hu
    simp only [hu] at hf
    split at hf
    · simp only [Option.some.injEq] at hf; subst hf
      show j.base ≤ f0.endp ∧ f0.endp ≤ newc; omega
    · simp only [Option.map_some, Option.some.injEq] at hf; subst hf
      show j.base ≤ newc ∧ newc ≤ newc; omega

theorem AI_retrEnd {c : Cfg} {s s' : State} {j : Job} {k : Option Nat} (h : AI c s) (hS : SI c s)
    (hs : stepRetrEnd c s j k = some s') : AI c s' := by
  unfold stepRetrEnd at hs; split at hs
  · next hg =>
    have hmem : Phase.retr j k ∈ s.busy := by simpa using hg
    have hj : jobOK c s.gnext j := hS.busy _ hmem
    have hec : ecOK j := h.ecB j k hmem
    have hmhj := h.mh j k hmem
    have hcnt : List.countP Phase.mc (s.busy.erase (.retr j k)) + (if Job.mc j then 1 else 0)
        = List.countP Phase.mc s.busy := countP_erase_add Phase.mc hmem
    have hm1 := hS.mc1
    have hm0 := hS.mc0
    have h1 : AI c (detach { s with busy := s.busy.erase (.retr j k) } k) :=
      AI_detach _ (AI_busy_erase _ h)
    have hf := detach_fields { s with busy := s.busy.erase (.retr j k) } k
    have hmc1 : mcount (detach { s with busy := s.busy.erase (.retr j k) } k)
        + (if Job.mc j then 1 else 0) = mcount s := by
      rw [mcount_detach]
      show List.countP Job.mc s.retrQ + List.countP Phase.mc (s.busy.erase (.retr j k))
        + (if Job.mc j then 1 else 0) = List.countP Job.mc s.retrQ + List.countP Phase.mc s.busy
      omega
    have hho : headOffs c (detach { s with busy := s.busy.erase (.retr j k) } k) = headOffs c s := by
      show offs c _ = offs c _; rw [hf.2.2.2.2.2.2.2.2.2.2.2]
    generalize detach { s with busy := s.busy.erase (.retr j k) } k = s1 at h1 hf hmc1 hs hho
    have f2 : s1.pphase = s.pphase := hf.2.1
    dsimp only at hs
    have hnl := newc_le (k := k) hj.1
    have hnge := newc_ge c j k
    generalize retrNewc c j k = newc at hs hnl hnge
    by_cases hpd : s1.pdone = true
    · rw [if_pos hpd] at hs
      simp only [Option.some.injEq] at hs; subst hs
      exact AI_congr h1 rfl rfl rfl rfl rfl rfl rfl rfl
    · rw [if_neg hpd] at hs
      by_cases hab : j.redundant = true
      · rw [if_pos hab] at hs
        simp only [Option.some.injEq] at hs; subst hs
        exact AI_congr h1 rfl rfl rfl rfl rfl rfl rfl rfl
      · rw [if_neg hab] at hs
        have hna' : j.redundant = false := by simpa using hab
        -- the state after the (master's) `advance`
        have h2 : AI c (retrMove c s1 j newc) := by
          unfold retrMove; split
          · next hmas =>
            have hmc := master_mc hmas hna'
            have hs1 : mcount s1 = 0 := by simp only [hmc, if_true] at hmc1; omega
            have hms : mcount s = 1 := by simp only [hmc, if_true] at hmc1; omega
            have hpp : s.pphase = none := by
              cases hp : s.pphase with
              | none => rfl
              | some x => have := hm0 (Or.inr (by simp [hp])); omega
            have hz := mcount_zero_jobs hs1
            refine AI_congr (AI_advance newc h1 ?_ ?_ ?_) rfl rfl rfl rfl rfl rfl rfl rfl
            · have := hmhj hmc; omega
            · show s1.pphase = none; rw [f2, hpp]
            · intro j' k' hm' hmc'
              have := hz.2 _ hm'
              simp only [Phase.mc] at this
              rw [this] at hmc'; cases hmc'
          · exact h1
        generalize retrMove c s1 j newc = s2 at h2 hs
        by_cases hfin : (!decide ((rres c j.base).e ≤ newc)) = true
        · rw [if_pos hfin] at hs
          by_cases hov : newc < headOffs c s2
          · rw [if_pos hov] at hs
            simp only [Option.some.injEq] at hs; subst hs
            exact AI_congr h2 rfl rfl rfl rfl rfl rfl rfl rfl
          · rw [if_neg hov] at hs
            simp only [Option.some.injEq] at hs; subst hs
            obtain ⟨a1, a2, a3, a4, a5, a6, a7, a8⟩ := h2
            refine ⟨a1, a2, a3, a4, ?_, a6, ?_, a8⟩
            · intro x hx
              rcases List.mem_cons.1 hx with e | hm
              · subst e; show headOffs c s2 ≤ newc; omega
              · exact a5 x hm
            · intro x hx
              rcases List.mem_cons.1 hx with e | hm
              · subst e; exact ecOK_retrMoreJob hec hj.2.2.2.1 hnge
              · exact a7 x hm
        · rw [if_neg hfin] at hs
          simp only [Option.some.injEq] at hs; subst hs
          unfold retrDone
          split
          · exact AI_congr (AI_busy_cons _ h2 (by intro j k hh; cases hh)) rfl rfl rfl rfl rfl rfl rfl rfl
          · exact AI_congr (AI_busy_cons _ h2 (by intro j k hh; cases hh)) rfl rfl rfl rfl rfl rfl rfl rfl
  · simp at hs


/-! ### parseEnd -/

theorem ecOK_flagJob {p : Nat → Bool} {j : Job} (h : ecOK j) : ecOK (flagJob p j) := by
  intro f hf
  unfold flagJob at hf
  cases hu : j.ub with
  | none => simp [hu] at hf
  | some f0 =>
    simp only [hu, Option.map_some, Option.some.injEq] at hf
    split at hf <;> subst hf <;> exact h f0 hu

theorem ecOK_good {j : Job} (h : ecOK j) : ecOK j.good := by
  intro f hf
  cases hu : j.ub with
  | none => simp [Job.good, hu] at hf
  | some f0 =>
    simp only [Job.good, hu, Option.map_some, Option.some.injEq] at hf
    subst hf; exact h f0 hu

/-- the parser-side facts of a state in which the parser is running -/
theorem PPre_of_parsing {c : Cfg} {s : State} {k : Option Nat} (h : SI c s) (hf : s.failed = false)
    (hk : s.pphase = some k) :
    PPre c (detach { s with pphase := none } k) ∧
    (detach { s with pphase := none } k).gnext = s.gnext ∧ s.porig = s.gnext := by
  have hsome : s.pphase.isSome = true := by simp [hk]
  have hpo : s.porig = s.gnext := h.porig (Or.inr hsome)
  have hm0 : mcount s = 0 := h.mc0 (Or.inr hsome)
  have hpd : s.pdone = false := h.pd hsome
  have hpt : s.ptok = false := by
    cases hp : s.ptok with
    | false => rfl
    | true => have := h.excl hp; rw [hk] at this; cases this
  have hS0 : SI c { s with pphase := none } := by
    obtain ⟨a1, a2, a3, a4, a5, a6, a7, a8, a9, a10, a11, a12, a13⟩ := h
    refine ⟨a1, a2, ?_, fun _ => rfl, a5, ?_, a7, a8, a9, a10, a11, ?_, a13⟩
    · intro _; exact hpo
    · intro _; exact hm0
    · intro hh; cases hh
  have df := detach_fields { s with pphase := none } k
  refine ⟨⟨SI_detach k hS0, ?_, ?_, ?_, ?_, ?_⟩, df.2.2.2.1, hpo⟩
  · rw [df.1]; exact hpt
  · rw [df.2.1]
  · rw [mcount_detach]; exact hm0
  · rw [df.2.2.2.2.1]; exact hpd
  · rw [df.2.2.2.2.2.1]; exact hf

theorem no_mc_of_zero {s : State} (h : mcount s = 0) :
    ∀ j k, Phase.retr j k ∈ s.busy → Job.mc j = true → False := by
  intro j k hm hmc
  have := (mcount_zero_jobs h).2 _ hm
  simp only [Phase.mc] at this
  rw [this] at hmc; cases hmc

theorem AI_parsePush {c : Cfg} {s1 : State} {b : Nat} (h1 : AI c s1) (hP : PPre c s1)
    (hu : pres c s1.gnext = .hdr b) :
    AI c (parsePush c s1 b) ∧ headOffs c (parsePush c s1 b) ≤ b ∧ (parsePush c s1 b).ppos = b := by
  have hb0 : headOffs c s1 ≤ b := hP.si.hb hP.pd b hu
  have h2 : AI c (advance c s1 b) :=
    AI_advance b h1 hb0 hP.pp (fun j k hm hmc => (no_mc_of_zero hP.m0 j k hm hmc).elim)
  have hle := headOffs_advance_le c s1 b
  have hm2 : mcount (advance c s1 b) = 0 := by
    have : mcount (advance c s1 b) ≤ mcount s1 :=
      mcount_le_of (List.Sublist.countP_le List.filter_sublist) (Nat.le_refl _)
    have := hP.m0; omega
  obtain ⟨a1, a2, a3, a4, a5, a6, a7, a8⟩ := h2
  refine ⟨⟨a1, a2, a3, ?_, ?_, a6, ?_, ?_⟩, by show headOffs c (advance c s1 b) ≤ b; omega, rfl⟩
  · intro j k hm hmc
    simp only [parsePush, List.mem_map] at hm
    obtain ⟨x, hx, hxe⟩ := hm
    cases x with
    | retr j0 k0 =>
      simp only [flagPhase, Phase.retr.injEq] at hxe
      obtain ⟨rfl, rfl⟩ := hxe
      exact (no_mc_of_zero hm2 j0 k0 hx (mc_flagJob hmc)).elim
    | retr2 e => cases hxe
    | emit e => cases hxe
    | scan a b => cases hxe
  · intro j hj
    simp only [parsePush, List.mem_map] at hj
    obtain ⟨x, hx, rfl⟩ := hj
    exact a5 x hx
  · intro j hj
    simp only [parsePush, List.mem_map] at hj
    obtain ⟨x, hx, rfl⟩ := hj
    exact ecOK_flagJob (a7 x hx)
  · intro j k hm
    simp only [parsePush, List.mem_map] at hm
    obtain ⟨x, hx, hxe⟩ := hm
    cases x with
    | retr j0 k0 =>
      simp only [flagPhase, Phase.retr.injEq] at hxe
      obtain ⟨rfl, rfl⟩ := hxe
      exact ecOK_flagJob (a8 j0 k0 hx)
    | retr2 e => cases hxe
    | emit e => cases hxe
    | scan a b => cases hxe

theorem mem_replaceFirst_find {α} (p : α → Bool) (g : α → α) {l : List α} {a y : α}
    (hf : l.find? p = some a) (hy : y ∈ replaceFirst p g l) : y ∈ l ∨ y = g a := by
  induction l with
  | nil => simp at hf
  | cons x xs ih =>
    simp only [replaceFirst] at hy
    simp only [List.find?_cons] at hf
    cases hp : p x with
    | true =>
      simp only [hp, if_true] at hy
      simp only [hp, Option.some.injEq] at hf
      subst hf
      rcases List.mem_cons.1 hy with e | hm
      · exact Or.inr e
      · exact Or.inl (List.mem_cons_of_mem _ hm)
    | false =>
      simp only [hp, Bool.false_eq_true, if_false] at hy
      simp only [hp] at hf
      rcases List.mem_cons.1 hy with e | hm
      · exact Or.inl (e ▸ List.mem_cons_self)
      · rcases ih hf hm with h | h
        · exact Or.inl (List.mem_cons_of_mem _ h)
        · exact Or.inr h

theorem inqAt_endp {b : Nat} {j : Job} (hq : Job.inqAt b j = true) (he : ecOK j) :
    b ≤ j.endp ∧ j.endp ≤ j.curr := by
  unfold Job.inqAt at hq; unfold Job.endp
  cases hu : j.ub with
  | none => simp [hu] at hq
  | some f =>
    simp only [hu, Bool.and_eq_true, beq_iff_eq] at hq ⊢
    have := he f hu
    omega

theorem AI_parseMatch {c : Cfg} {s3 : State} {b : Nat} (h3 : AI c s3) (hP : PPre c s3)
    (hhb : headOffs c s3 ≤ b) (hpp : s3.ppos = b) : AI c (parseMatch c s3 b) := by
  have hno := no_mc_of_zero hP.m0
  unfold parseMatch
  split
  · next j hj =>
    have hjm := List.mem_of_find?_eq_some hj
    have hjq := List.find?_some hj
    have hend := inqAt_endp hjq (h3.ecQ j hjm)
    have hS : AI c { s3 with retrQ := replaceFirst (Job.inqAt b) Job.good s3.retrQ } := by
      obtain ⟨a1, a2, a3, a4, a5, a6, a7, a8⟩ := h3
      refine ⟨a1, a2, a3, a4, ?_, a6, ?_, a8⟩
      · intro y hy
        rcases mem_replaceFirst _ _ hy with hy | ⟨x, hx, _, rfl⟩
        · exact a5 y hy
        · exact a5 x hx
      · intro y hy
        rcases mem_replaceFirst _ _ hy with hy | ⟨x, hx, _, rfl⟩
        · exact a7 y hy
        · exact ecOK_good (a7 x hx)
    refine AI_congr (AI_advance j.endp hS (by show headOffs c s3 ≤ j.endp; omega) hP.pp ?_)
      rfl rfl rfl rfl rfl rfl rfl rfl
    intro j' k' hm hmc; exact (hno j' k' hm hmc).elim
  · split
    · next ph hph =>
      have hpm := List.mem_of_find?_eq_some hph
      have hpq := List.find?_some hph
      have hS : AI c { s3 with busy := replaceFirst (Phase.inqAt b) Phase.good s3.busy } := by
        obtain ⟨a1, a2, a3, a4, a5, a6, a7, a8⟩ := h3
        refine ⟨a1, a2, a3, ?_, a5, a6, a7, ?_⟩
        · intro j k hm hmc
          rcases mem_replaceFirst _ _ hm with hm | ⟨x, hx, hq, he⟩
          · exact a4 j k hm hmc
          · cases x with
            | retr j0 k0 =>
              simp only [Phase.good, Phase.retr.injEq] at he
              obtain ⟨rfl, _⟩ := he
              have := inqAt_endp (j := j0) hq (a8 j0 k0 hx)
              show headOffs c s3 ≤ j0.curr
              omega
            | retr2 e => cases he
            | emit e => cases he
            | scan a b => cases he
        · intro j k hm
          rcases mem_replaceFirst _ _ hm with hm | ⟨x, hx, hq, he⟩
          · exact a8 j k hm
          · cases x with
            | retr j0 k0 =>
              simp only [Phase.good, Phase.retr.injEq] at he
              obtain ⟨rfl, _⟩ := he
              exact ecOK_good (a8 j0 k0 hx)
            | retr2 e => cases he
            | emit e => cases he
            | scan a b => cases he
      have hend : b ≤ ph.endp ∧ ∀ j k, ph = .retr j k → ph.endp ≤ j.curr := by
        cases ph with
        | retr j0 k0 =>
          have := inqAt_endp (j := j0) hpq (h3.ecB j0 k0 hpm)
          exact ⟨this.1, fun j k e => by cases e; exact this.2⟩
        | retr2 e => simp [Phase.inqAt] at hpq
        | emit e => simp [Phase.inqAt] at hpq
        | scan a b => simp [Phase.inqAt] at hpq
      refine AI_congr (AI_advance ph.endp hS (by show headOffs c s3 ≤ ph.endp; omega) hP.pp ?_)
        rfl rfl rfl rfl rfl rfl rfl rfl
      -- the only master-capable running job is the one just confirmed
      intro j k hm hmc
      have hle := headOffs_advance_le c { s3 with busy := replaceFirst (Phase.inqAt b) Phase.good s3.busy } ph.endp
      have hho : headOffs c { s3 with busy := replaceFirst (Phase.inqAt b) Phase.good s3.busy } = headOffs c s3 := rfl
      rcases mem_replaceFirst_find _ _ hph hm with hm | he
      · exact (hno j k hm hmc).elim
      · cases ph with
        | retr j0 k0 =>
          simp only [Phase.good, Phase.retr.injEq] at he
          obtain ⟨rfl, _⟩ := he
          have h1 : j0.endp ≤ j0.curr := hend.2 j0 k0 rfl
          have h2 : b ≤ j0.endp := hend.1
          refine Nat.le_trans hle ?_
          show max (headOffs c s3) j0.endp ≤ j0.curr
          omega
        | retr2 e => cases he
        | emit e => cases he
        | scan a b => cases he
    · split
      · next u hu =>
        have hum := List.mem_of_find?_eq_some hu
        have huq := List.find?_some hu
        simp only [Bool.and_eq_true, beq_iff_eq] at huq
        have hub := hP.si.orph hP.pd u hum
        have hend : b ≤ u.f.endp := by
          rcases hub.2 huq.1 with h | h
          · rw [h, huq.2]; exact rres_ge c b
          · rw [huq.2] at h; omega
        have hA : AI c (advance c s3 u.f.endp) :=
          AI_advance u.f.endp h3 (by omega) hP.pp (fun j k hm hmc => (hno j k hm hmc).elim)
        split
        · exact AI_congr hA rfl rfl rfl rfl rfl rfl rfl rfl
        · exact AI_congr hA rfl rfl rfl rfl rfl rfl rfl rfl
      · obtain ⟨a1, a2, a3, a4, a5, a6, a7, a8⟩ := h3
        refine ⟨a1, a2, a3, a4, ?_, a6, ?_, a8⟩
        · intro x hx
          rcases List.mem_cons.1 hx with e | hm
          · subst e; exact hhb
          · exact a5 x hm
        · intro x hx
          rcases List.mem_cons.1 hx with e | hm
          · subst e; intro f hf; cases hf
          · exact a7 x hm


theorem AI_parseVerdict {c : Cfg} {s1 : State} (h1 : AI c s1) (hP : PPre c s1) :
    AI c (parseVerdict c s1 (pres c s1.gnext)) := by
  cases hu : pres c s1.gnext with
  | err u => exact AI_congr h1 rfl rfl rfl rfl rfl rfl rfl rfl
  | finish u ok =>
    cases ok with
    | false =>
      obtain ⟨a1, a2, a3, a4, a5, a6, a7, a8⟩ := h1
      exact ⟨a1, (fun hd => Bool.noConfusion hd), a3, a4, a5, a6, a7, a8⟩
    | true =>
      show AI c (parseFinish s1 u)
      have hno := no_mc_of_zero hP.m0
      obtain ⟨a1, a2, a3, a4, a5, a6, a7, a8⟩ := h1
      refine ⟨Nat.le_refl _, (fun hd => Bool.noConfusion hd), ?_, ?_, ?_, ?_, ?_, ?_⟩
      · intro k hk; rw [show (parseFinish s1 u).pphase = s1.pphase from rfl, hP.pp] at hk; cases hk
      · intro j k hm hmc
        simp only [parseFinish, List.mem_map] at hm
        obtain ⟨x, hx, hxe⟩ := hm
        cases x with
        | retr j0 k0 =>
          simp only [flagPhase, Phase.retr.injEq] at hxe
          obtain ⟨rfl, _⟩ := hxe
          exact (hno j0 k0 hx (mc_flagJob hmc)).elim
        | retr2 e => cases hxe
        | emit e => cases hxe
        | scan a b => cases hxe
      · intro j hj; cases hj
      · intro sp hsp; cases hsp
      · intro j hj; cases hj
      · intro j k hm
        simp only [parseFinish, List.mem_map] at hm
        obtain ⟨x, hx, hxe⟩ := hm
        cases x with
        | retr j0 k0 =>
          simp only [flagPhase, Phase.retr.injEq] at hxe
          obtain ⟨rfl, _⟩ := hxe
          exact ecOK_flagJob (a8 j0 k0 hx)
        | retr2 e => cases hxe
        | emit e => cases hxe
        | scan a b => cases hxe
  | hdr b =>
    obtain ⟨p1, p2, p3⟩ := AI_parsePush h1 hP hu
    obtain ⟨q1, q2, q3⟩ := PPre_push hP hu
    exact AI_parseMatch p1 q1 p2 p3

theorem AI_parseEnd {c : Cfg} {s s' : State} (h : AI c s) (hS : SI c s) (hf : s.failed = false)
    (hs : stepParseEnd c s = some s') : AI c s' := by
  unfold stepParseEnd at hs
  split at hs
  · simp at hs
  · next k hk =>
    obtain ⟨hP, hg1, hpo⟩ := PPre_of_parsing hS hf hk
    have h0 : AI c { s with pphase := none } := by
      obtain ⟨a1, a2, a3, a4, a5, a6, a7, a8⟩ := h
      exact ⟨a1, a2, (fun k hk => by cases hk), a4, a5, a6, a7, a8⟩
    have h1 : AI c (detach { s with pphase := none } k) := AI_detach k h0
    have hho : headOffs c (detach { s with pphase := none } k) = headOffs c s := by
      show offs c _ = offs c _
      rw [(detach_fields { s with pphase := none } k).2.2.2.2.2.2.2.2.2.2.2]
    have key : pres c s.porig = pres c (detach { s with pphase := none } k).gnext := by
      rw [hg1, hpo]
    have hpk := h.pk
    dsimp only at hs
    rw [key] at hs
    generalize detach { s with pphase := none } k = s1 at hs hP h1 hho
    split at hs
    · next hmore =>
      simp only [Option.some.injEq] at hs; subst hs
      -- MORE: `k = some kk` and the attached block lies at or after head_offs
      have hkk : ∃ kk, k = some kk := by
        cases k with
        | none => simp [parseMoreP] at hmore
        | some kk => exact ⟨kk, rfl⟩
      obtain ⟨kk, rfl⟩ := hkk
      have hA : AI c (advance c s1 (offs c (kk + 1))) :=
        AI_advance _ h1 (by rw [hho]; exact hpk kk hk) hP.pp
          (fun j k hm hmc => (no_mc_of_zero hP.m0 j k hm hmc).elim)
      exact AI_congr hA rfl rfl rfl rfl rfl rfl rfl rfl
    · simp only [Option.some.injEq] at hs; subst hs
      exact AI_parseVerdict h1 hP

/-! ### all steps -/

theorem ai_step {c : Cfg} {s s' : State} {l : Label} (h : AI c s) (hS : SI c s)
    (hs : step c s l = some s') : AI c s' := by
  unfold step at hs
  split at hs
  · simp at hs
  · next hf =>
    have hf' : s.failed = false := by simpa using hf
    cases l with
    | rTake => exact AI_rTake h hs
    | rQuit => exact AI_rQuit h hs
    | rBlock => exact AI_rBlock h hs
    | rEmpty => exact AI_rEmpty h hs
    | rEof => exact AI_rEof h hs
    | wDone => exact AI_wDone h hs
    | reorder ob => exact AI_reorder h hs
    | parseStart => exact AI_parseStart h hs
    | parseEnd => exact AI_parseEnd h hS hf' hs
    | retrStart j => exact AI_retrStart h hs
    | retrEnd j k => exact AI_retrEnd h hS hs
    | retrPost e => exact AI_retrPost h hs
    | emitStart e => exact AI_emitStart h hs
    | emitEnd e => exact AI_emitEnd h hs
    | scanStart sp => exact AI_scanStart h hs
    | scanEnd st k => exact AI_scanEnd h hs

theorem ai_reach {c : Cfg} {s : State} (h : Reach c s) : AI c s := by
  induction h with
  | init => exact AI_init c
  | @step s s' l hr hs ih =>
    have hf : s.failed = false := by
      unfold step at hs; split at hs
      · simp at hs
      · next hf => simpa using hf
    have hS : SI c s := by
      have g := good_reach hr
      simpa [Good, hf] using g
    exact ai_step ih hS hs

/-- **attach_in_range**: in every reachable state every retrieve job in
    `retr_q`, every scan job and (while parsing is not done) the parser
    position lie at or after `head_offs`. -/
theorem attach_in_range {c : Cfg} {s : State} (h : Reach c s) :
    (∀ j ∈ s.retrQ, headOffs c s ≤ j.curr) ∧ (∀ sp ∈ s.scanQ, headOffs c s ≤ sp) ∧
    (s.pdone = false → headOffs c s ≤ s.ppos) ∧ staleAttach c s = false := by
  have a := ai_reach h
  refine ⟨a.arQ, a.arS, a.hp, ?_⟩
  unfold staleAttach
  rw [Bool.eq_false_iff]
  intro hh
  simp only [List.any_eq_true, decide_eq_true_eq] at hh
  obtain ⟨j, hj, hlt⟩ := hh
  have := a.arQ j hj
  omega

end LbzVerif.Lemmas.SchedD
