/-
  Projection of the refined model `Model.SchedDW` (worker threads, `next_task`,
  `sched_mutex`, `sched_cond`) onto what a hook trace shows, and the replay of
  a real LBZIP2_VERIF_TRACE — thread ids included — against it.

  `stepWP` is `Model.SchedDW.stepW` line by line, with the base step replaced
  by the counter / queue-size rules of Proj.lean (`headOk`, `tailOk`,
  `reorderOk`) and `select_task()` replaced by "some value of the
  position-dependent guard inputs makes `select_task()` return this"
  (`selectable`).  `Lemmas/SchedD/ProjWSound.lean` proves that every transition
  of `Model.SchedDW` projects onto a `stepWP` transition; the trace acceptor
  below makes a real run a run of `stepWP`, reporting the first line that is
  not.  Core-only imports (linked into the driver).
-/
import LbzVerif.Model.SchedDW
import LbzVerif.Lemmas.SchedD.Proj

namespace LbzVerif.Lemmas.SchedD
open LbzVerif.Model.SchedD LbzVerif.Model.SchedDW LbzVerif.Gen

/-- projected refined state -/
structure PW where
  p : Proj
  nextTask : Option String
  holder : Option Nat
  ws : List WPh
  deriving DecidableEq, Repr

def projW (c : Cfg) (w : WState) : PW := ⟨proj c w.base, w.nextTask, w.holder, w.ws⟩

/-- `process->finished()` on the projection (every input of `can_terminate` is
    in the trace line) -/
def finishedP (n totalOut : Nat) (ultra : Bool) (p : Proj) : Bool :=
  dCanTerminate (viewP n totalOut ultra p 0)

/-- projected labels: where the model recomputes `select_task()` the label
    carries the claimed result `nt`; where it takes a base step it carries the
    projection `q` of the new base state -/
inductive PL where
  | io
  | ioS (who : String) (q : Proj) (nt : Option String) (k : Nat)
  | acquire (i : Nat)
  | runTask (i : Nat) (q : Proj) (nt : Option String) (k : Nat)
  | relock (i : Nat) (phase : String) (fin : Bool) (q : Proj) (nt : Option String) (k : Nat)
  | wait (i : Nat)
  | exit (i : Nat)
  | spurious (i : Nat)
  deriving Repr

/-- `sched_unlock()` on the projection -/
def unlockWP (n totalOut : Nat) (ultra : Bool) (x : PW) (nt : Option String) (k : Nat) :
    Option PW :=
  if selectable n totalOut ultra x.p nt then
    if nt.isSome || finishedP n totalOut ultra x.p then
      (signal x.ws k).map (fun ws => { x with nextTask := nt, holder := none, ws := ws })
    else some { x with nextTask := nt, holder := none }
  else none

def stepWP (n totalOut : Nat) (ultra : Bool) (x : PW) : PL → Option PW
  | .io => some x
  | .ioS who q nt k =>
    if (who == "reader" || who == "writer") && tailOk who x.p q && x.holder.isNone then
      unlockWP n totalOut ultra { x with p := q } nt k
    else none
  | .acquire i =>
    if x.holder = none ∧ x.ws[i]? = some .ready then
      some { x with holder := some i, ws := x.ws.set i .inloop }
    else none
  | .runTask i q nt k =>
    if x.holder = some i ∧ x.ws[i]? = some .inloop then
      match x.nextTask with
      | none => none
      | some t =>
        if t == "reorder" then
          if reorderOk x.p q && selectable n totalOut ultra q nt then
            some { x with p := q, nextTask := nt }
          else none
        else if headOk t x.p q then
          unlockWP n totalOut ultra { x with p := q, ws := x.ws.set i .running } nt k
        else none
    else none
  | .relock i phase fin q nt k =>
    if x.holder = none ∧ x.ws[i]? = some .running ∧
        (phase == "parse" || phase == "retrieve" || phase == "retr2" || phase == "emit"
          || phase == "scan") = true ∧ tailOk phase x.p q = true ∧
        (fin = true → phase = "retrieve") then
      if fin then unlockWP n totalOut ultra { x with p := q } nt k
      else if selectable n totalOut ultra q nt then
        some { x with p := q, nextTask := nt, holder := some i, ws := x.ws.set i .inloop }
      else none
    else none
  | .wait i =>
    if x.holder = some i ∧ x.ws[i]? = some .inloop ∧ x.nextTask = none
        ∧ finishedP n totalOut ultra x.p = false then
      some { x with holder := none, ws := x.ws.set i .waiting }
    else none
  | .exit i =>
    if x.holder = some i ∧ x.ws[i]? = some .inloop ∧ x.nextTask = none
        ∧ finishedP n totalOut ultra x.p = true then
      some { x with holder := none, ws := broadcast (x.ws.set i .exited) }
    else none
  | .spurious i =>
    if x.ws[i]? = some .waiting then some { x with ws := x.ws.set i .ready } else none

/-! ### replay of a hook trace with thread ids -/

structure AccW where
  line : Nat := 0
  x : PW
  /-- thread id ↦ worker index, in order of first appearance -/
  tids : List Nat := []
  /-- per worker: the task whose unlocked part it is running / about to run -/
  phase : List (Nat × String) := []
  /-- per worker: an `R task` line has been seen and its task has not been run yet -/
  pend : List (Nat × String) := []
  /-- workers whose last line was `W wait` -/
  waited : List Nat := []
  /-- workers that were in xwait when the model's `xsignal` chose them, with the
      line of that signal; removed when the worker's next line arrives -/
  woken : List (Nat × Nat) := []
  maxlat : Nat := 0           -- longest signal → next-line distance (in lines) seen
  /-- the trace has `S` lines (one per `xsignal` in `sched_unlock`) -/
  hasS : Bool := false
  /-- thread of an `S` line that is waiting for its `U` line -/
  sigBy : Option Nat := none
  schecks : Nat := 0
  steps : Nat := 0
  wakeups : Nat := 0          -- a waiting worker came back while not finished
  signals : Nat := 0          -- unlocks that signalled while some worker was waiting
  exits : Nat := 0
  err : Option String := none

def AccW.fail (a : AccW) (why : String) : AccW :=
  if a.err.isSome then a else { a with err := some s!"reject {a.line} {why}" }

def asGet (l : List (Nat × String)) (i : Nat) : String :=
  match l.find? (·.1 == i) with | some v => v.2 | none => ""
def asSet (l : List (Nat × String)) (i : Nat) (v : String) : List (Nat × String) :=
  (i, v) :: l.filter (·.1 != i)

/-- apply one projected step -/
def AccW.app (n totalOut : Nat) (ultra : Bool) (a : AccW) (l : PL) (why : String) : AccW :=
  if a.err.isSome then a else
  match stepWP n totalOut ultra a.x l with
  | some x' => { a with x := x', steps := a.steps + 1 }
  | none => a.fail why

/-- the waiter `xsignal` wakes: unobservable; the lowest waiting worker is as
    good as any (a different worker that comes back counts as spurious) -/
def firstWaiting (ws : List WPh) : Nat := (ws.findIdx? (· == .waiting)).getD 0

def idxOf (l : List Nat) (t : Nat) : Option Nat := l.findIdx? (· == t)

/-- bring worker `i` (thread of the current line) to the top of the loop with
    the mutex, as the line `e` (an R or W line) implies; `nt` = `next_task` the
    line shows (`some task` for R, `none` for W) -/
def toLoop (n totalOut : Nat) (ultra : Bool) (a : AccW) (i : Nat) (p : Proj)
    (nt : Option String) : AccW :=
  match a.x.ws[i]? with
  | some .ready =>
    let a := a.app n totalOut ultra (.acquire i) "acquire"
    if a.x.p == p then a else a.fail "state-changed-while-blocked"
  | some .waiting =>
    let fin := finishedP n totalOut ultra a.x.p
    let _ := fin
    let a := a.app n totalOut ultra (.spurious i) "wake"
    let a := a.app n totalOut ultra (.acquire i) "acquire-after-wait"
    if a.x.p == p then a else a.fail "state-changed-while-waiting"
  | some .running =>
    let ph := asGet a.phase i
    let a := a.app n totalOut ultra (.relock i ph false p nt 0) s!"tail-delta {ph}"
    { a with phase := asSet a.phase i "" }
  | some .inloop =>
    -- the previous line of this worker was `R reorder`
    if asGet a.pend i == "reorder" then
      let a := a.app n totalOut ultra (.runTask i p nt 0) "reorder-delta"
      { a with pend := asSet a.pend i "" }
    else a.fail "worker-already-in-loop"
  | some .exited => a.fail "line-after-exit"
  | none => a.fail "too-many-workers"

def sigCount (n totalOut : Nat) (ultra : Bool) (a : AccW) (p : Proj) (nt : Option String) : AccW :=
  if (nt.isSome || finishedP n totalOut ultra p) && a.x.ws.contains .waiting
      && !finishedP n totalOut ultra p then
    let k := firstWaiting a.x.ws
    { a with signals := a.signals + 1,
             woken := if a.woken.any (·.1 == k) then a.woken else (k, a.line) :: a.woken }
  else a

def acceptEvW (n totalOut : Nat) (ultra : Bool) (a : AccW) (e : Ev) : AccW :=
  if a.err.isSome then a else
  let a := { a with line := a.line + 1 }
  if e.kind == "I" then
    if a.x.p == e.p then a else a.fail "init-state"
  else if e.kind == "F" then
    if a.x.ws.all (· == .exited) then a else a.fail "final-line-before-all-workers-exited"
  else if e.kind == "R" || e.kind == "W" then
    -- a worker thread
    let (a, i) := match idxOf a.tids e.tid with
      | some i => (a, i)
      | none => ({ a with tids := a.tids ++ [e.tid] }, a.tids.length)
    let nt : Option String := if e.kind == "R" then some e.name else none
    -- a worker that was in xwait is back: a wake-up (signalled or spurious)
    let a := if a.waited.contains i then
        { a with waited := a.waited.filter (· != i),
                 wakeups := if finishedP n totalOut ultra a.x.p then a.wakeups else a.wakeups + 1 }
      else a
    let a := match a.woken.find? (·.1 == i) with
      | some (_, l0) => { a with woken := a.woken.filter (·.1 != i), maxlat := max a.maxlat (a.line - l0) }
      | none => a
    let a := toLoop n totalOut ultra a i e.p nt
    if a.err.isSome then a else
    if a.x.nextTask != nt then
      a.fail s!"next_task-mismatch model={a.x.nextTask.getD "-"} trace={nt.getD "-"}"
    else if e.kind == "R" then { a with pend := asSet a.pend i e.name }
    else if e.name == "wait" then
      let a := a.app n totalOut ultra (.wait i) "wait-not-allowed"
      { a with waited := i :: a.waited }
    else
      let a := a.app n totalOut ultra (.exit i) "exit-not-allowed"
      { a with exits := a.exits + 1 }
  else if e.kind == "S" then
    if a.sigBy.isSome then a.fail "two-signals-in-one-unlock" else { a with sigBy := some e.tid }
  else if e.kind == "U" then
    let nt : Option String := if e.name == "-" then none else some e.name
    -- `sched_unlock` signals exactly when a task is ready or the process has finished
    let want := nt.isSome || finishedP n totalOut ultra e.p
    let got := a.sigBy == some e.tid
    let a := if a.hasS then
        (if a.sigBy.isSome && !got then a.fail "signal-by-another-thread"
         else if want && !got then a.fail "signal-missing (next_task != NULL || finished())"
         else if !want && got then a.fail "signal-unexpected"
         else { a with schecks := a.schecks + 1, sigBy := none })
      else a
    if a.err.isSome then a else
    match idxOf a.tids e.tid with
    | some i =>
      let k := firstWaiting a.x.ws
      match a.x.ws[i]? with
      | some .inloop =>
        let t := asGet a.pend i
        if t == "" || t == "reorder" then a.fail "unlock-without-task"
        else
          let a := sigCount n totalOut ultra a e.p nt
          let a := a.app n totalOut ultra (.runTask i e.p nt k) s!"head-delta {t}"
          { a with pend := asSet a.pend i "", phase := asSet a.phase i t }
      | some .running =>
        if asGet a.phase i == "retrieve" then
          let a := sigCount n totalOut ultra a e.p nt
          let a := a.app n totalOut ultra (.relock i "retrieve" true e.p nt k) "tail-delta retrieve"
          { a with phase := asSet a.phase i "retr2" }
        else a.fail "unlock-in-unexpected-phase"
      | _ => a.fail "unlock-by-idle-worker"
    | none =>
      -- reader or writer thread
      let k := firstWaiting a.x.ws
      let a0 := sigCount n totalOut ultra a e.p nt
      match stepWP n totalOut ultra a.x (.ioS "reader" e.p nt k) with
      | some x' => { a0 with x := x', steps := a0.steps + 1 }
      | none =>
        match stepWP n totalOut ultra a.x (.ioS "writer" e.p nt k) with
        | some x' => { a0 with x := x', steps := a0.steps + 1 }
        | none =>
          if a.x.holder.isSome then a.fail "io-section-while-worker-holds-mutex"
          else a.fail "io-delta"
  else a.fail "bad-kind"

/-- replay.  `latMin > 0`: reject when a worker that `xsignal` made runnable
    (it was in xwait) has not come back `latMin` lines later although the
    process was not finished — in the model it is runnable all that time
    (`no_lost_wakeup`), so either the signal was not sent or the thread was
    starved for that long.  `hung`: the run was killed after a time-out: the
    last line must then be explained (a run of the model that stops there has an
    enabled non-spurious transition, `deadlock_free_w`). -/
def acceptTraceW (n _totalIn totalOut : Nat) (ultra : Bool) (latMin : Nat) (hung : Bool)
    (evs : String) : String :=
  match (evs.splitOn ";").mapM parseEv with
  | none => "bad-args"
  | some [] => "bad-args"
  | some (e0 :: rest) =>
    let x0 : PW := ⟨e0.p, none, none, List.replicate n .ready⟩
    let a0 : AccW := { x := x0, hasS := (e0 :: rest).any (fun e => e.kind == "S") }
    let a := (e0 :: rest).foldl (acceptEvW n totalOut ultra) a0
    match a.err with
    | some e => e
    | none =>
      let fin := finishedP n totalOut ultra a.x.p
      let late := a.woken.filter (fun (_, l0) => decide (l0 + latMin ≤ a.line))
      if decide (0 < latMin) && !fin && !late.isEmpty then
        let (i, l0) := late.head!
        s!"reject {a.line} lost-wakeup worker={i} signalled-at-line={l0} never-ran-again"
      else if hung then
        match a.woken with
        | (i, l0) :: _ =>
          s!"reject {a.line} hung lost-wakeup worker={i} signalled-at-line={l0} never-ran-again"
        | [] =>
          if a.x.ws.contains .running then s!"reject {a.line} hung worker-inside-task-never-returned"
          else if a.x.holder.isSome then s!"reject {a.line} hung mutex-held"
          else s!"reject {a.line} hung no-thread-runnable next={a.x.nextTask.getD "-"}"
      else
        s!"ok lines={a.line} steps={a.steps} workers={a.tids.length} wakeups={a.wakeups} " ++
        s!"signals={a.signals} maxlat={a.maxlat} exits={a.exits} schecks={a.schecks}"

end LbzVerif.Lemmas.SchedD
