/-
  Input-slot conservation, unconditional (for `0 < W`): discharges the side
  condition `Fresh` of `ii_reach_partial` (Cons.lean).

  * `AI` (Attach.lean) gives the lower bounds `head_offs ≤ parser_bs` and
    `head_offs ≤ sp` for `sp ∈ scan_q`.
  * The new inductive invariant `SQ` below gives the upper bound
    `sp < tail_offs` for `sp ∈ scan_q` (every queued scan job lies inside a
    block that has been pushed to `input_q`), together with what is needed to
    keep it: `rd ≤ nread` and every running scanner is attached to a block
    `k < rd`.
  `0 < W` is needed: with `W = 0` every `offs` is 0, `on_input_avail` would push
  the scan position `0 = tail_offs`.  (The program has `in_granul ≥ 4`.)
-/
import LbzVerif.Lemmas.SchedD.Cons
import LbzVerif.Lemmas.SchedD.Attach

namespace LbzVerif.Lemmas.SchedD
open LbzVerif.Model.SchedD LbzVerif.Gen

/-! ### small facts -/

theorem minNat?_mem {l : List Nat} {x : Nat} (h : minNat? l = some x) : x ∈ l := by
  induction l generalizing x with
  | nil => simp [minNat?] at h
  | cons a as ih =>
    simp only [minNat?] at h
    split at h
    · simp only [Option.some.injEq] at h; subst h; exact List.mem_cons_self
    · next m hm =>
      split at h
      · simp only [Option.some.injEq] at h; subst h
        exact List.mem_cons_of_mem _ (ih hm)
      · simp only [Option.some.injEq] at h; subst h; exact List.mem_cons_self

/-- `scan()` reports a candidate in `(start, hi]` -/
theorem scanFind_range {c : Cfg} {start hi x : Nat} (h : scanFind c start hi = some x) :
    start < x ∧ x ≤ hi := by
  unfold scanFind at h
  have := (List.mem_filter.1 (minNat?_mem h)).2
  simpa using this

theorem div_lt_of_lt_offs {c : Cfg} {p r : Nat} (h : p < offs c r) : p / c.W < r := by
  unfold offs at h
  have hW : 0 < c.W := by
    rcases Nat.eq_zero_or_pos c.W with e | e
    · rw [e] at h; simp at h
    · exact e
  rw [Nat.div_lt_iff_lt_mul hW]
  omega

/-- a freshly read block is not empty -/
theorem offs_lt_succ {c : Cfg} (hW : 0 < c.W) {r n : Nat} (hrn : r ≤ n) (hn : n * c.W < c.T) :
    offs c r < offs c (r + 1) := by
  unfold offs
  have h1 : r * c.W ≤ n * c.W := Nat.mul_le_mul_right _ hrn
  have h2 : (r + 1) * c.W = r * c.W + c.W := Nat.succ_mul _ _
  omega

/-! ### the invariant -/

/-- a running scanner is attached to a block that has been pushed to `input_q` -/
def scanOK (r : Nat) : Phase → Prop
  | .scan _ k => k < r
  | _ => True

theorem scanOK_mono {r r' : Nat} (h : r ≤ r') {ph : Phase} (hp : scanOK r ph) : scanOK r' ph := by
  cases ph with
  | scan st k => exact Nat.lt_of_lt_of_le hp h
  | retr j k => trivial
  | retr2 e => trivial
  | emit e => trivial

theorem scanOK_flagPhase {r : Nat} (p : Nat → Bool) {ph : Phase} (hp : scanOK r ph) :
    scanOK r (flagPhase p ph) := by
  cases ph with
  | scan st k => exact hp
  | retr j k => trivial
  | retr2 e => trivial
  | emit e => trivial

theorem scanOK_good {r : Nat} {ph : Phase} (hp : scanOK r ph) : scanOK r (Phase.good ph) := by
  cases ph with
  | scan st k => exact hp
  | retr j k => trivial
  | retr2 e => trivial
  | emit e => trivial

structure SQ (c : Cfg) (s : State) : Prop where
  /-- every queued scan job starts before `tail_offs` -/
  sq : ∀ sp ∈ s.scanQ, sp < offs c s.rd
  /-- blocks pushed to `input_q` have been read -/
  rn : s.rd ≤ s.nread
  /-- every running scanner sits on a pushed block -/
  bk : ∀ ph ∈ s.busy, scanOK s.rd ph

theorem SQ_init (c : Cfg) : SQ c (init c) := by
  refine ⟨?_, ?_, ?_⟩ <;> simp [init]

/-- `rd`, `nread` unchanged; `scanQ` shrinks; every (new) busy phase is fine -/
theorem SQ_of {c : Cfg} {s s' : State} (h : SQ c s) (e1 : s'.rd = s.rd) (e2 : s'.nread = s.nread)
    (e3 : ∀ sp ∈ s'.scanQ, sp ∈ s.scanQ) (e4 : ∀ ph ∈ s'.busy, scanOK s.rd ph) : SQ c s' := by
  obtain ⟨a1, a2, a3⟩ := h
  refine ⟨?_, ?_, ?_⟩
  · intro sp hsp; rw [e1]; exact a1 sp (e3 sp hsp)
  · rw [e1, e2]; exact a2
  · intro ph hph; rw [e1]; exact e4 ph hph

/-- `SQ` only reads these fields -/
theorem SQ_congr {c : Cfg} {s s' : State} (h : SQ c s) (e1 : s'.rd = s.rd)
    (e2 : s'.nread = s.nread) (e3 : s'.scanQ = s.scanQ) (e4 : s'.busy = s.busy) : SQ c s' :=
  SQ_of h e1 e2 (fun _ hsp => e3 ▸ hsp) (fun ph hph => h.bk ph (e4 ▸ hph))

theorem SQ_detach {c : Cfg} {s : State} (k : Option Nat) (h : SQ c s) : SQ c (detach s k) := by
  unfold detach; split
  · exact h
  · split
    · exact SQ_congr h rfl rfl rfl rfl
    · exact h

theorem SQ_busy_erase {c : Cfg} {s : State} (ph : Phase) (h : SQ c s) :
    SQ c { s with busy := s.busy.erase ph } :=
  SQ_of h rfl rfl (fun _ hsp => hsp) (fun x hx => h.bk x (List.mem_of_mem_erase hx))

theorem SQ_busy_cons {c : Cfg} {s : State} (ph : Phase) (h : SQ c s) (hp : scanOK s.rd ph) :
    SQ c { s with busy := ph :: s.busy } := by
  refine SQ_of h rfl rfl (fun _ hsp => hsp) (fun x hx => ?_)
  rcases List.mem_cons.1 hx with e | hm
  · subst e; exact hp
  · exact h.bk x hm

theorem SQ_busy_flag {c : Cfg} {s : State} (p : Nat → Bool) (h : SQ c s) :
    SQ c { s with busy := s.busy.map (flagPhase p) } := by
  refine SQ_of h rfl rfl (fun _ hsp => hsp) (fun x hx => ?_)
  obtain ⟨y, hy, rfl⟩ := List.mem_map.1 hx
  exact scanOK_flagPhase p (h.bk y hy)

theorem SQ_busy_good {c : Cfg} {s : State} (q : Phase → Bool) (h : SQ c s) :
    SQ c { s with busy := replaceFirst q Phase.good s.busy } := by
  refine SQ_of h rfl rfl (fun _ hsp => hsp) (fun x hx => ?_)
  rcases mem_replaceFirst _ _ hx with hm | ⟨y, hy, _, rfl⟩
  · exact h.bk x hm
  · exact scanOK_good (h.bk y hy)

/-! ### the named sub-functions -/

theorem SQ_advance {c : Cfg} {s : State} (p : Nat) (h : SQ c s) : SQ c (advance c s p) :=
  SQ_of h rfl rfl (fun _ hsp => (List.mem_filter.1 hsp).1) h.bk

theorem SQ_parsePush {c : Cfg} {s : State} (b : Nat) (h : SQ c s) : SQ c (parsePush c s b) := by
  have h2 := SQ_advance (c := c) b h
  unfold parsePush; dsimp only
  generalize advance c s b = s2 at *
  exact SQ_congr (SQ_busy_flag (fun x => decide (x < b)) h2) rfl rfl rfl rfl

theorem SQ_parseMatch {c : Cfg} {s : State} (b : Nat) (h : SQ c s) : SQ c (parseMatch c s b) := by
  unfold parseMatch; split
  · next j _ =>
    have h1 : SQ c { s with retrQ := replaceFirst (Job.inqAt b) Job.good s.retrQ } :=
      SQ_congr h rfl rfl rfl rfl
    exact SQ_congr (SQ_advance j.endp h1) rfl rfl rfl rfl
  · split
    · next ph _ =>
      exact SQ_congr (SQ_advance ph.endp (SQ_busy_good (Phase.inqAt b) h)) rfl rfl rfl rfl
    · split
      · next u _ =>
        have h2 := SQ_advance (c := c) u.f.endp h
        dsimp only
        generalize advance c s u.f.endp = a at *
        split
        · exact SQ_congr h2 rfl rfl rfl rfl
        · exact SQ_congr h2 rfl rfl rfl rfl
      · exact SQ_congr h rfl rfl rfl rfl

theorem SQ_parseFinish {c : Cfg} {s : State} (u : Nat) (h : SQ c s) : SQ c (parseFinish s u) := by
  have h1 := SQ_busy_flag (c := c) (fun _ => true) h
  unfold parseFinish; dsimp only
  exact SQ_of h1 rfl rfl (fun sp hsp => by cases hsp) h1.bk

theorem SQ_parseMore {c : Cfg} {s : State} (k : Option Nat) (h : SQ c s) :
    SQ c (parseMore c s k) := by
  unfold parseMore; dsimp only
  exact SQ_congr (SQ_advance (offs c (k.getD 0 + 1)) h) rfl rfl rfl rfl

theorem SQ_parseVerdict {c : Cfg} {s : State} (r : PRes) (h : SQ c s) :
    SQ c (parseVerdict c s r) := by
  cases r with
  | err u => exact SQ_congr h rfl rfl rfl rfl
  | finish u ok =>
    cases ok with
    | false => exact SQ_congr h rfl rfl rfl rfl
    | true =>
      simp only [parseVerdict, Bool.not_true, Bool.false_eq_true, if_false]
      exact SQ_parseFinish u h
  | hdr b =>
    simp only [parseVerdict, parseOk]
    exact SQ_parseMatch b (SQ_parsePush b h)

theorem SQ_retrExit {c : Cfg} {s : State} (j : Job) (h : SQ c s) : SQ c (retrExit s j) :=
  SQ_congr h rfl rfl rfl rfl

theorem SQ_retrMove {c : Cfg} {s : State} (j : Job) (n : Nat) (h : SQ c s) :
    SQ c (retrMove c s j n) := by
  unfold retrMove; split
  · exact SQ_congr (SQ_advance n h) rfl rfl rfl rfl
  · exact h

theorem SQ_retrMore {c : Cfg} {s : State} (j : Job) (n : Nat) (h : SQ c s) :
    SQ c (retrMore s j n) :=
  SQ_congr h rfl rfl rfl rfl

theorem SQ_retrDone {c : Cfg} {s : State} (j : Job) (n : Nat) (h : SQ c s) :
    SQ c (retrDone c s j n) := by
  unfold retrDone; dsimp only; split
  · exact SQ_congr (SQ_busy_cons (.retr2 _) h trivial) rfl rfl rfl rfl
  · exact SQ_congr (SQ_busy_cons (.retr2 _) h trivial) rfl rfl rfl rfl

theorem SQ_scanNew {c : Cfg} {s : State} (x : Nat) (h : SQ c s) : SQ c (scanNew c s x) := by
  unfold scanNew; split
  · exact SQ_congr h rfl rfl rfl rfl
  · exact SQ_congr h rfl rfl rfl rfl

/-- the scan job goes back to `scan_q` only strictly inside its (pushed) block -/
theorem SQ_scanRequeue {c : Cfg} {s : State} {x k : Nat} (h : SQ c s) (hk : k < s.rd)
    (hx : x ≤ offs c (k + 1)) : SQ c (scanRequeue c s x (offs c (k + 1))) := by
  unfold scanRequeue; split
  · next hq =>
    simp only [Bool.and_eq_true, bne_iff_ne, ne_eq, decide_eq_true_eq] at hq
    obtain ⟨a1, a2, a3⟩ := h
    refine ⟨?_, a2, a3⟩
    intro sp hsp
    rcases List.mem_cons.1 hsp with e | hm
    · subst e
      have := offs_mono c (show k + 1 ≤ s.rd from hk)
      have := hq.1
      show sp < offs c s.rd
      omega
    · exact a1 sp hm
  · exact h

/-! ### the transitions -/

theorem SQ_rBlock {c : Cfg} (hW : 0 < c.W) {s s' : State} (h : SQ c s)
    (hs : stepRBlock c s = some s') : SQ c s' := by
  unfold stepRBlock at hs; split at hs
  · next hg =>
    simp only [Bool.and_eq_true, beq_iff_eq, decide_eq_true_eq] at hg
    dsimp only at hs; split at hs <;> simp only [Option.some.injEq] at hs <;> subst hs
    · obtain ⟨a1, a2, a3⟩ := h
      exact ⟨a1, Nat.le_succ_of_le a2, a3⟩
    · obtain ⟨a1, a2, a3⟩ := h
      have hlt := offs_lt_succ hW a2 hg.2
      refine ⟨?_, Nat.succ_le_succ a2, fun ph hph => scanOK_mono (Nat.le_succ _) (a3 ph hph)⟩
      intro sp hsp
      show sp < offs c (s.rd + 1)
      rcases List.mem_cons.1 hsp with e | hm
      · subst e; exact hlt
      · exact Nat.lt_trans (a1 sp hm) hlt
  · simp at hs

theorem SQ_scanStart {c : Cfg} {s s' : State} {sp : Nat} (h : SQ c s)
    (hs : stepScanStart c s sp = some s') : SQ c s' := by
  unfold stepScanStart at hs; split at hs
  · next hg =>
    simp only [Bool.and_eq_true, List.contains_iff_mem] at hg
    have hsp : sp ∈ s.scanQ := hg.1.2
    have hk : sp / c.W < s.rd := div_lt_of_lt_offs (h.sq sp hsp)
    simp only [Option.some.injEq] at hs; subst hs
    have h1 := SQ_busy_cons
      (.scan (if sp / c.W == s.ppos / c.W && sp < s.ppos then s.ppos else sp) (sp / c.W)) h hk
    exact SQ_of h1 rfl rfl (fun x hx => List.mem_of_mem_erase hx) h1.bk
  · simp at hs

theorem SQ_scanEnd {c : Cfg} {s s' : State} {st k : Nat} (h : SQ c s)
    (hs : stepScanEnd c s st k = some s') : SQ c s' := by
  unfold stepScanEnd at hs; split at hs
  · next hg =>
    have hm : Phase.scan st k ∈ s.busy := by simpa using hg
    have hk : k < s.rd := h.bk _ hm
    have h1 : SQ c (detach { s with busy := s.busy.erase (.scan st k) } (some k)) :=
      SQ_detach _ (SQ_busy_erase _ h)
    have hrd : (detach { s with busy := s.busy.erase (.scan st k) } (some k)).rd = s.rd := by
      unfold detach; dsimp only; split <;> rfl
    generalize detach { s with busy := s.busy.erase (.scan st k) } (some k) = s1 at h1 hs hrd
    dsimp only at hs
    split at hs
    · simp only [Option.some.injEq] at hs; subst hs
      exact SQ_congr h1 rfl rfl rfl rfl
    · next x hx =>
      split at hs
      · simp only [Option.some.injEq] at hs; subst hs
        exact SQ_congr h1 rfl rfl rfl rfl
      · simp only [Option.some.injEq] at hs; subst hs
        have hN : SQ c (scanNew c s1 x) := SQ_scanNew x h1
        have hrd' : (scanNew c s1 x).rd = s1.rd := by unfold scanNew; split <;> rfl
        exact SQ_scanRequeue hN (by rw [hrd', hrd]; exact hk) (scanFind_range hx).2
  · simp at hs

theorem sq_step {c : Cfg} (hW : 0 < c.W) {s s' : State} {l : Label} (h : SQ c s)
    (hs : step c s l = some s') : SQ c s' := by
  unfold step at hs
  split at hs
  · simp at hs
  · cases l with
    | rTake =>
      replace hs : stepRTake s = some s' := hs
      unfold stepRTake at hs; split at hs <;> simp at hs; subst hs
      exact SQ_congr h rfl rfl rfl rfl
    | rQuit =>
      replace hs : stepRQuit s = some s' := hs
      unfold stepRQuit at hs; split at hs <;> simp at hs; subst hs
      exact SQ_congr h rfl rfl rfl rfl
    | rBlock => exact SQ_rBlock hW h hs
    | rEmpty =>
      replace hs : stepREmpty c s = some s' := hs
      unfold stepREmpty at hs; split at hs <;> simp at hs; subst hs
      exact SQ_congr h rfl rfl rfl rfl
    | rEof =>
      replace hs : stepREof s = some s' := hs
      unfold stepREof at hs; split at hs <;> simp at hs; subst hs
      exact SQ_congr h rfl rfl rfl rfl
    | wDone =>
      replace hs : stepWDone s = some s' := hs
      unfold stepWDone at hs; split at hs <;> simp at hs; subst hs
      exact SQ_congr h rfl rfl rfl rfl
    | reorder ob =>
      replace hs : stepReorder c s ob = some s' := hs
      unfold stepReorder at hs; split at hs
      · split at hs
        · simp only [Option.some.injEq] at hs; subst hs
          exact SQ_congr h rfl rfl rfl rfl
        · split at hs <;> simp only [Option.some.injEq] at hs <;> subst hs <;>
            exact SQ_congr h rfl rfl rfl rfl
      · simp at hs
    | parseStart =>
      replace hs : stepParseStart c s = some s' := hs
      unfold stepParseStart at hs; split at hs
      · simp only [Option.some.injEq] at hs; subst hs
        exact SQ_congr h rfl rfl rfl rfl
      · simp at hs
    | parseEnd =>
      replace hs : stepParseEnd c s = some s' := hs
      unfold stepParseEnd at hs; split at hs
      · simp at hs
      · next k hk =>
        have h0 : SQ c (detach { s with pphase := none } k) :=
          SQ_detach k (SQ_congr h rfl rfl rfl rfl)
        dsimp only at hs
        generalize detach { s with pphase := none } k = s1 at *
        split at hs
        · simp only [Option.some.injEq] at hs; subst hs; exact SQ_parseMore k h0
        · simp only [Option.some.injEq] at hs; subst hs; exact SQ_parseVerdict _ h0
    | retrStart j =>
      replace hs : stepRetrStart c s j = some s' := hs
      unfold stepRetrStart at hs; split at hs
      · simp only [Option.some.injEq] at hs; subst hs
        exact SQ_congr (SQ_busy_cons (.retr _ _) h trivial) rfl rfl rfl rfl
      · simp at hs
    | retrEnd j k =>
      replace hs : stepRetrEnd c s j k = some s' := hs
      unfold stepRetrEnd at hs; split at hs
      · have h0 : SQ c (detach { s with busy := s.busy.erase (.retr j k) } k) :=
          SQ_detach _ (SQ_busy_erase _ h)
        dsimp only at hs
        generalize detach { s with busy := s.busy.erase (.retr j k) } k = s1 at *
        split at hs
        · simp only [Option.some.injEq] at hs; subst hs; exact SQ_retrExit j h0
        · split at hs
          · simp only [Option.some.injEq] at hs; subst hs; exact SQ_retrExit j h0
          · split at hs
            · split at hs
              · simp only [Option.some.injEq] at hs; subst hs
                exact SQ_retrExit _ (SQ_retrMove j _ h0)
              · simp only [Option.some.injEq] at hs; subst hs
                exact SQ_retrMore _ _ (SQ_retrMove j _ h0)
            · simp only [Option.some.injEq] at hs; subst hs
              exact SQ_retrDone _ _ (SQ_retrMove j _ h0)
      · simp at hs
    | retrPost e =>
      replace hs : stepRetrPost s e = some s' := hs
      unfold stepRetrPost at hs; split at hs
      · simp only [Option.some.injEq] at hs; subst hs
        exact SQ_congr (SQ_busy_erase (.retr2 e) h) rfl rfl rfl rfl
      · simp at hs
    | emitStart e =>
      replace hs : stepEmitStart c s e = some s' := hs
      unfold stepEmitStart at hs; split at hs
      · simp only [Option.some.injEq] at hs; subst hs
        exact SQ_congr (SQ_busy_cons (.emit e) h trivial) rfl rfl rfl rfl
      · simp at hs
    | emitEnd e =>
      replace hs : stepEmitEnd s e = some s' := hs
      unfold stepEmitEnd at hs; split at hs
      · dsimp only at hs
        split at hs <;> simp only [Option.some.injEq] at hs <;> subst hs <;>
          exact SQ_congr (SQ_busy_erase (.emit e) h) rfl rfl rfl rfl
      · simp at hs
    | scanStart sp => exact SQ_scanStart h hs
    | scanEnd st k => exact SQ_scanEnd h hs

/-- every queued scan job lies before `tail_offs`; every running scanner is
    attached to a block already pushed to `input_q` -/
theorem sq_reach {c : Cfg} (hW : 0 < c.W) {s : State} (h : Reach c s) : SQ c s := by
  induction h with
  | init => exact SQ_init c
  | step l _ hs ih => exact sq_step hW ih hs

/-- **scan_in_range**: every queued scan position lies in `[head_offs, tail_offs)` -/
theorem scan_in_range {c : Cfg} (hW : 0 < c.W) {s : State} (h : Reach c s) :
    ∀ sp ∈ s.scanQ, headOffs c s ≤ sp ∧ sp < tailOffs c s :=
  fun sp hsp => ⟨(ai_reach h).arS sp hsp, (sq_reach hW h).sq sp hsp⟩

/-! ### `Fresh` holds along every run -/

/-- the parser and the scanners never attach to a block that has already been
    shifted out of `input_q` -/
theorem fresh_reach {c : Cfg} (hW : 0 < c.W) {s s' : State} {l : Label} (h : Reach c s)
    (hs : step c s l = some s') : Fresh c s l := by
  have hA := ai_reach h
  have hQ := sq_reach hW h
  unfold step at hs
  split at hs
  · simp at hs
  · cases l with
    | parseStart =>
      replace hs : stepParseStart c s = some s' := hs
      unfold stepParseStart at hs; split at hs
      · next hg =>
        simp only [Bool.and_eq_true, beq_iff_eq] at hg
        have hd := (select_parse hg.1.2).2
        intro hlt
        exact fresh_of_pos (hA.hp hd) hlt
      · simp at hs
    | scanStart sp =>
      replace hs : stepScanStart c s sp = some s' := hs
      unfold stepScanStart at hs; split at hs
      · next hg =>
        simp only [Bool.and_eq_true, List.contains_iff_mem] at hg
        have hsp : sp ∈ s.scanQ := hg.1.2
        exact fresh_of_pos (hA.arS sp hsp) (hQ.sq sp hsp)
      · simp at hs
    | rTake => trivial
    | rQuit => trivial
    | rBlock => trivial
    | rEmpty => trivial
    | rEof => trivial
    | wDone => trivial
    | reorder ob => trivial
    | parseEnd => trivial
    | retrStart j => trivial
    | retrEnd j k => trivial
    | retrPost e => trivial
    | emitStart e => trivial
    | emitEnd e => trivial
    | scanEnd st k => trivial

/-- the full input-slot invariant of Cons.lean, unconditionally -/
theorem ii_reach {c : Cfg} (hW : 0 < c.W) {s : State} (h : Reach c s) : II c s :=
  ii_reach_partial (fun _ _ _ hr hs => fresh_reach hW hr hs) h

/-- **in_slots_conserved**: in every reachable state (failed or not) the free
    input slots plus the input blocks alive — queued in `input_q`, shifted out
    but still attached, or held by the reader — are exactly `total_in_slots`. -/
theorem in_slots_conserved {c : Cfg} (hW : 0 < c.W) {s : State} (h : Reach c s) :
    s.inSlots + inputAlive s = c.totalIn :=
  (ii_reach hW h).inC

end LbzVerif.Lemmas.SchedD
