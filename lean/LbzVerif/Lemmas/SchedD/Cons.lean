/-
  Conservation laws of the expansion scheduler model (W7b):
  work units and output slots are neither created nor lost by any transition
  that does not call `failf`.

    wu       + |retr_q| + |emit_q| + #busy workers (incl. parser) = num_worker
    outSlots + |reord_q| + outq    + #workers inside emit()       = total_out_slots

  Corollaries: queue capacities, and quiescence of a terminated state.
-/
import LbzVerif.Lemmas.SchedD.Basic

namespace LbzVerif.Lemmas.SchedD
open LbzVerif.Model.SchedD LbzVerif.Gen

/-! ### the conserved quantities -/

/-- the conservation invariant -/
structure CI (c : Cfg) (s : State) : Prop where
  /-- work units: free + held by queued jobs + held by busy workers (incl. the parser) -/
  wuC : s.wu + s.retrQ.length + s.emitQ.length + busyCount s = c.n
  /-- output slots: free + in reord_q + in output_q + held by a running `emit()` -/
  osC : s.outSlots + s.reordQ.length + s.outq + emitBusy s = c.totalOut

def isEmit : Phase → Bool
  | .emit _ => true
  | _ => false

theorem emitBusy_eq (s : State) : emitBusy s = s.busy.countP isEmit := by
  unfold emitBusy; congr 1

/-- work units outside the parser -/
def wuT (s : State) : Nat := s.wu + s.retrQ.length + s.emitQ.length + s.busy.length
/-- the work unit of a running parser -/
def ppc (s : State) : Nat := if s.pphase.isSome then 1 else 0
/-- output slots -/
def osT (s : State) : Nat := s.outSlots + s.reordQ.length + s.outq + s.busy.countP isEmit

theorem ci_iff {c : Cfg} {s : State} : CI c s ↔ (wuT s + ppc s = c.n ∧ osT s = c.totalOut) := by
  constructor
  · rintro ⟨h1, h2⟩
    rw [emitBusy_eq] at h2
    simp only [busyCount] at h1
    simp only [wuT, ppc, osT]
    omega
  · rintro ⟨h1, h2⟩
    simp only [wuT, ppc, osT] at h1 h2
    refine ⟨?_, ?_⟩
    · simp only [busyCount]; omega
    · rw [emitBusy_eq]; omega

/-- the transition conserves both quantities -/
def Cons (s s' : State) : Prop := wuT s' + ppc s' = wuT s + ppc s ∧ osT s' = osT s

/-- `s'` is `s` with `d` more work units outside the parser; nothing else that
    the conservation laws read has changed -/
structure Eqv (s s' : State) (d : Nat) : Prop where
  wu : wuT s' = wuT s + d
  os : osT s' = osT s
  pp : s'.pphase = s.pphase
  fl : s'.failed = s.failed

theorem Eqv.refl (s : State) : Eqv s s 0 := ⟨rfl, rfl, rfl, rfl⟩

theorem Eqv.trans {s s' s'' : State} {d e : Nat} (h1 : Eqv s s' d) (h2 : Eqv s' s'' e) :
    Eqv s s'' (d + e) :=
  ⟨by rw [h2.wu, h1.wu]; omega, h2.os.trans h1.os, h2.pp.trans h1.pp, h2.fl.trans h1.fl⟩

theorem eqv_wu1 (s : State) : Eqv s { s with wu := s.wu + 1 } 1 :=
  ⟨by simp only [wuT]; omega, rfl, rfl, rfl⟩

/-! ### lists -/

theorem length_filter_split {α} (p : α → Bool) (l : List α) :
    (l.filter p).length + (l.filter (fun x => !p x)).length = l.length := by
  induction l with
  | nil => rfl
  | cons x xs ih =>
    cases h : p x <;> simp [h] <;> omega

theorem length_replaceFirst {α} (p : α → Bool) (g : α → α) (l : List α) :
    (replaceFirst p g l).length = l.length := by
  induction l with
  | nil => rfl
  | cons x xs ih =>
    simp only [replaceFirst]
    split
    · simp
    · simp [ih]

theorem isEmit_flagPhase (p : Nat → Bool) (ph : Phase) : isEmit (flagPhase p ph) = isEmit ph := by
  cases ph <;> rfl

theorem isEmit_good (ph : Phase) : isEmit (Phase.good ph) = isEmit ph := by
  cases ph <;> rfl

theorem countP_isEmit_flag (p : Nat → Bool) (l : List Phase) :
    (l.map (flagPhase p)).countP isEmit = l.countP isEmit := by
  induction l with
  | nil => rfl
  | cons x xs ih => simp only [List.map_cons, List.countP_cons, ih, isEmit_flagPhase]

theorem countP_isEmit_good (q : Phase → Bool) (l : List Phase) :
    (replaceFirst q Phase.good l).countP isEmit = l.countP isEmit := by
  induction l with
  | nil => rfl
  | cons x xs ih =>
    simp only [replaceFirst]
    split
    · simp only [List.countP_cons, isEmit_good]
    · simp only [List.countP_cons, ih]

theorem busy_erase {l : List Phase} {ph : Phase} (h : ph ∈ l) :
    (l.erase ph).length + 1 = l.length ∧
    (l.erase ph).countP isEmit + (if isEmit ph then 1 else 0) = l.countP isEmit := by
  refine ⟨?_, ?_⟩
  · have := List.length_erase_of_mem h
    have := List.length_pos_of_mem h
    omega
  · rw [(List.perm_cons_erase h).countP_eq isEmit, List.countP_cons]

theorem length_erase_succ {α} [BEq α] [LawfulBEq α] {l : List α} {a : α} (h : a ∈ l) :
    (l.erase a).length + 1 = l.length := by
  have := List.length_erase_of_mem h
  have := List.length_pos_of_mem h
  omega

/-! ### the named sub-functions -/

theorem eqv_detach (s : State) (k : Option Nat) : Eqv s (detach s k) 0 := by
  unfold detach; split
  · exact Eqv.refl s
  · split
    · exact ⟨rfl, rfl, rfl, rfl⟩
    · exact Eqv.refl s

theorem eqv_advance (c : Cfg) (s : State) (p : Nat) : Eqv s (advance c s p) 0 := by
  refine ⟨?_, rfl, rfl, rfl⟩
  unfold advance; simp only [wuT]
  have := length_filter_split (fun j : Job => decide (j.curr < offs c (newHead c s p))) s.retrQ
  omega

theorem eqv_parsePush (c : Cfg) (s : State) (b : Nat) : Eqv s (parsePush c s b) 0 := by
  obtain ⟨a1, a2, a3, a4⟩ := eqv_advance c s b
  unfold parsePush; dsimp only
  generalize advance c s b = s2 at *
  refine ⟨?_, ?_, a3, a4⟩
  · simp only [wuT, List.length_map] at a1 ⊢; exact a1
  · simp only [osT, countP_isEmit_flag] at a2 ⊢; exact a2

theorem eqv_parseMatch (c : Cfg) (s : State) (b : Nat) : Eqv s (parseMatch c s b) 1 := by
  unfold parseMatch; split
  · next j _ =>
    have h1 : Eqv s { s with retrQ := replaceFirst (Job.inqAt b) Job.good s.retrQ } 0 :=
      ⟨by simp only [wuT, length_replaceFirst]; omega, rfl, rfl, rfl⟩
    have h2 := eqv_advance c { s with retrQ := replaceFirst (Job.inqAt b) Job.good s.retrQ } j.endp
    exact (h1.trans h2).trans (eqv_wu1 _)
  · split
    · next ph _ =>
      have h1 : Eqv s { s with busy := replaceFirst (Phase.inqAt b) Phase.good s.busy } 0 :=
        ⟨by simp only [wuT, length_replaceFirst]; omega,
         by simp only [osT, countP_isEmit_good], rfl, rfl⟩
      have h2 := eqv_advance c { s with busy := replaceFirst (Phase.inqAt b) Phase.good s.busy } ph.endp
      exact (h1.trans h2).trans (eqv_wu1 _)
    · split
      · next u _ =>
        have h2 := eqv_advance c s u.f.endp
        dsimp only
        generalize advance c s u.f.endp = a at *
        split
        · exact h2.trans (e := 1) ⟨by simp only [wuT]; omega, rfl, rfl, rfl⟩
        · exact h2.trans (e := 1) ⟨by simp only [wuT]; omega, rfl, rfl, rfl⟩
      · exact ⟨by simp only [wuT, List.length_cons]; omega, rfl, rfl, rfl⟩

theorem eqv_parseOk (c : Cfg) (s : State) (b : Nat) : Eqv s (parseOk c s b) 1 := by
  unfold parseOk
  exact (eqv_parsePush c s b).trans (eqv_parseMatch c _ b)

theorem eqv_parseFinish (s : State) (u : Nat) : Eqv s (parseFinish s u) 1 := by
  unfold parseFinish; dsimp only
  refine ⟨?_, ?_, rfl, rfl⟩
  · simp only [wuT, List.length_map, List.length_nil]; omega
  · simp only [osT, countP_isEmit_flag]

theorem eqv_parseMore (c : Cfg) (s : State) (k : Option Nat) : Eqv s (parseMore c s k) 1 := by
  unfold parseMore; dsimp only
  exact (eqv_advance c s (offs c (k.getD 0 + 1))).trans (e := 1)
    ⟨by simp only [wuT]; omega, rfl, rfl, rfl⟩

theorem eqv_parseVerdict (c : Cfg) (s : State) (r : PRes)
    (hf : (parseVerdict c s r).failed = false) : Eqv s (parseVerdict c s r) 1 := by
  cases r with
  | err u => simp [parseVerdict] at hf
  | finish u ok =>
    cases ok with
    | false => simp [parseVerdict] at hf
    | true => simp only [parseVerdict, Bool.not_true, Bool.false_eq_true, if_false]; exact eqv_parseFinish s u
  | hdr b => simp only [parseVerdict]; exact eqv_parseOk c s b

theorem eqv_retrExit (s : State) (j : Job) : Eqv s (retrExit s j) 1 :=
  ⟨by simp only [retrExit, wuT]; omega, rfl, rfl, rfl⟩

theorem eqv_retrMove (c : Cfg) (s : State) (j : Job) (n : Nat) : Eqv s (retrMove c s j n) 0 := by
  unfold retrMove; split
  · exact (eqv_advance c s n).trans (e := 0) ⟨rfl, rfl, rfl, rfl⟩
  · exact Eqv.refl s

theorem eqv_retrMore (s : State) (j : Job) (n : Nat) : Eqv s (retrMore s j n) 1 :=
  ⟨by simp only [retrMore, wuT, List.length_cons]; omega, rfl, rfl, rfl⟩

theorem eqv_retrDone (c : Cfg) (s : State) (j : Job) (n : Nat) : Eqv s (retrDone c s j n) 1 := by
  unfold retrDone; dsimp only; split
  · exact ⟨by simp only [wuT, List.length_cons]; omega,
      by simp only [osT, List.countP_cons, isEmit]; simp, rfl, rfl⟩
  · exact ⟨by simp only [wuT, List.length_cons]; omega,
      by simp only [osT, List.countP_cons, isEmit]; simp, rfl, rfl⟩

theorem eqv_scanNew (c : Cfg) (s : State) (x : Nat) : Eqv s (scanNew c s x) 1 := by
  unfold scanNew; split
  · exact eqv_wu1 s
  · exact ⟨by simp only [wuT, List.length_cons]; omega, rfl, rfl, rfl⟩

theorem eqv_scanRequeue (c : Cfg) (s : State) (x hi : Nat) : Eqv s (scanRequeue c s x hi) 0 := by
  unfold scanRequeue; split
  · exact ⟨rfl, rfl, rfl, rfl⟩
  · exact Eqv.refl s

/-! ### guards -/

theorem select_parse_wu {c : Cfg} {s : State} (h : selectTask c s = some "parse") : 0 < s.wu := by
  have := select_guard h
  simp [guardOf, dCanParse, view] at this
  omega

theorem select_scan_wu {c : Cfg} {s : State} (h : selectTask c s = some "scan") : 0 < s.wu := by
  have := select_guard h
  simp [guardOf, dCanScan, view, SCAN_THRESH] at this
  omega

theorem select_emit_os {c : Cfg} {s : State} (h : selectTask c s = some "emit") :
    0 < s.outSlots := by
  have := select_guard h
  simp [guardOf, dCanEmit, view, EMIT_THRESH] at this
  omega

/-! ### the transitions -/

theorem Eqv.cons {s s' : State} (h : Eqv s s' 0) : Cons s s' :=
  ⟨by rw [h.wu]; simp only [ppc, h.pp]; omega, h.os⟩

theorem cons_rTake {s s' : State} (hs : stepRTake s = some s') : Cons s s' := by
  unfold stepRTake at hs; split at hs <;> simp at hs; subst hs
  exact ⟨rfl, rfl⟩

theorem cons_rQuit {s s' : State} (hs : stepRQuit s = some s') : Cons s s' := by
  unfold stepRQuit at hs; split at hs <;> simp at hs; subst hs
  exact ⟨rfl, rfl⟩

theorem cons_rBlock {c : Cfg} {s s' : State} (hs : stepRBlock c s = some s') : Cons s s' := by
  unfold stepRBlock at hs; split at hs
  · dsimp only at hs; split at hs <;> simp at hs <;> subst hs <;> exact ⟨rfl, rfl⟩
  · simp at hs

theorem cons_rEmpty {c : Cfg} {s s' : State} (hs : stepREmpty c s = some s') : Cons s s' := by
  unfold stepREmpty at hs; split at hs <;> simp at hs; subst hs
  exact ⟨rfl, rfl⟩

theorem cons_rEof {s s' : State} (hs : stepREof s = some s') : Cons s s' := by
  unfold stepREof at hs; split at hs <;> simp at hs; subst hs
  exact ⟨rfl, rfl⟩

theorem cons_wDone {s s' : State} (hs : stepWDone s = some s') : Cons s s' := by
  unfold stepWDone at hs; split at hs
  · next hg =>
    have hq : 0 < s.outq := by simpa using hg
    simp only [Option.some.injEq] at hs; subst hs
    refine ⟨rfl, ?_⟩
    simp only [osT]; omega
  · simp at hs

theorem cons_reorder {c : Cfg} {s s' : State} {ob : OB} (hs : stepReorder c s ob = some s')
    (hf : s'.failed = false) : Cons s s' := by
  unfold stepReorder at hs; split at hs
  · next hg =>
    simp only [Bool.and_eq_true, List.contains_iff_mem] at hg
    have hm : ob ∈ s.reordQ := hg.1.2
    have hl := length_erase_succ hm
    split at hs
    · simp only [Option.some.injEq] at hs; subst hs
      refine ⟨rfl, ?_⟩
      simp only [osT]; omega
    · split at hs
      · simp only [Option.some.injEq] at hs; subst hs
        simp at hf
      · simp only [Option.some.injEq] at hs; subst hs
        refine ⟨rfl, ?_⟩
        simp only [osT]; omega
      · simp only [Option.some.injEq] at hs; subst hs
        refine ⟨rfl, ?_⟩
        simp only [osT]; omega
  · simp at hs

theorem cons_parseStart {c : Cfg} {s s' : State} (hs : stepParseStart c s = some s') :
    Cons s s' := by
  unfold stepParseStart at hs; split at hs
  · next hg =>
    simp only [Bool.and_eq_true, beq_iff_eq] at hg
    obtain ⟨⟨_, hsel⟩, hpp⟩ := hg
    have hw := select_parse_wu hsel
    simp only [Option.some.injEq] at hs; subst hs
    refine ⟨?_, rfl⟩
    simp only [wuT, ppc, Option.isSome_some, if_true]
    have : s.pphase.isSome = false := by simpa using hpp
    rw [this]; simp only [Bool.false_eq_true, if_false]; omega
  · simp at hs

theorem cons_parseEnd {c : Cfg} {s s' : State} (hs : stepParseEnd c s = some s')
    (hf : s'.failed = false) : Cons s s' := by
  unfold stepParseEnd at hs; split at hs
  · simp at hs
  · next k hk =>
    have h0 : Eqv { s with pphase := none } (detach { s with pphase := none } k) 0 :=
      eqv_detach _ k
    dsimp only at hs
    generalize detach { s with pphase := none } k = s1 at *
    have key : Eqv s1 s' 1 := by
      split at hs
      · simp only [Option.some.injEq] at hs; subst hs; exact eqv_parseMore c s1 k
      · simp only [Option.some.injEq] at hs; subst hs; exact eqv_parseVerdict c s1 _ hf
    have h := h0.trans key
    refine ⟨?_, h.os⟩
    have hw := h.wu
    have hp := h.pp
    simp only [ppc, hp, hk, Option.isSome_some, Option.isSome_none, if_true]
    rw [hw]; simp only [wuT]; simp

theorem cons_retrStart {c : Cfg} {s s' : State} {j : Job} (hs : stepRetrStart c s j = some s') :
    Cons s s' := by
  unfold stepRetrStart at hs; split at hs
  · next hg =>
    simp only [Bool.and_eq_true, List.contains_iff_mem] at hg
    have hj : j ∈ s.retrQ := hg.1.2
    have hl := length_erase_succ hj
    simp only [Option.some.injEq] at hs; subst hs
    refine ⟨?_, ?_⟩
    · simp only [wuT, ppc, List.length_cons]; omega
    · simp only [osT, List.countP_cons, isEmit]; simp
  · simp at hs

theorem cons_retrEnd {c : Cfg} {s s' : State} {j : Job} {k : Option Nat}
    (hs : stepRetrEnd c s j k = some s') : Cons s s' := by
  unfold stepRetrEnd at hs; split at hs
  · next hg =>
    have hm : Phase.retr j k ∈ s.busy := by simpa using hg
    obtain ⟨e1, e2⟩ := busy_erase hm
    have h0 := eqv_detach { s with busy := s.busy.erase (.retr j k) } k
    dsimp only at hs
    generalize detach { s with busy := s.busy.erase (.retr j k) } k = s1 at *
    have key : Eqv s1 s' 1 := by
      split at hs
      · simp only [Option.some.injEq] at hs; subst hs; exact eqv_retrExit s1 j
      · split at hs
        · simp only [Option.some.injEq] at hs; subst hs; exact eqv_retrExit s1 j
        · split at hs
          · split at hs
            · simp only [Option.some.injEq] at hs; subst hs
              exact (eqv_retrMove c s1 j _).trans (eqv_retrExit _ _)
            · simp only [Option.some.injEq] at hs; subst hs
              exact (eqv_retrMove c s1 j _).trans (eqv_retrMore _ _ _)
          · simp only [Option.some.injEq] at hs; subst hs
            exact (eqv_retrMove c s1 j _).trans (eqv_retrDone c _ _ _)
    have h := h0.trans key
    have hw := h.wu
    have ho := h.os
    have hp := h.pp
    simp only [isEmit] at e2
    refine ⟨?_, ?_⟩
    · simp only [ppc, hp]; rw [hw]; simp only [wuT]; omega
    · rw [ho]; simp only [osT]; simp at e2; omega
  · simp at hs

theorem cons_retrPost {s s' : State} {e : EJob} (hs : stepRetrPost s e = some s') :
    Cons s s' := by
  unfold stepRetrPost at hs; split at hs
  · next hg =>
    have hm : Phase.retr2 e ∈ s.busy := by simpa using hg
    obtain ⟨e1, e2⟩ := busy_erase hm
    simp only [Option.some.injEq] at hs; subst hs
    simp only [isEmit] at e2
    refine ⟨?_, ?_⟩
    · simp only [wuT, ppc, List.length_cons]; omega
    · simp only [osT]; simp at e2; omega
  · simp at hs

theorem cons_emitStart {c : Cfg} {s s' : State} {e : EJob}
    (hs : stepEmitStart c s e = some s') : Cons s s' := by
  unfold stepEmitStart at hs; split at hs
  · next hg =>
    simp only [Bool.and_eq_true, List.contains_iff_mem, beq_iff_eq] at hg
    have hm : e ∈ s.emitQ := hg.1.2
    have ho := select_emit_os hg.1.1.2
    have hl := length_erase_succ hm
    simp only [Option.some.injEq] at hs; subst hs
    refine ⟨?_, ?_⟩
    · simp only [wuT, ppc, List.length_cons]; omega
    · simp only [osT, List.countP_cons, isEmit]; simp; omega
  · simp at hs

theorem cons_emitEnd {s s' : State} {e : EJob} (hs : stepEmitEnd s e = some s') :
    Cons s s' := by
  unfold stepEmitEnd at hs; split at hs
  · next hg =>
    have hm : Phase.emit e ∈ s.busy := by simpa using hg
    obtain ⟨e1, e2⟩ := busy_erase hm
    simp only [isEmit, if_true] at e2
    dsimp only at hs
    split at hs
    · simp only [Option.some.injEq] at hs; subst hs
      refine ⟨?_, ?_⟩
      · simp only [wuT, ppc, List.length_cons]; omega
      · simp only [osT, List.length_cons]; omega
    · simp only [Option.some.injEq] at hs; subst hs
      refine ⟨?_, ?_⟩
      · simp only [wuT, ppc]; omega
      · simp only [osT, List.length_cons]; omega
  · simp at hs

theorem cons_scanStart {c : Cfg} {s s' : State} {sp : Nat}
    (hs : stepScanStart c s sp = some s') : Cons s s' := by
  unfold stepScanStart at hs; split at hs
  · next hg =>
    simp only [Bool.and_eq_true, beq_iff_eq] at hg
    have hw := select_scan_wu hg.1.1.2
    simp only [Option.some.injEq] at hs; subst hs
    refine ⟨?_, ?_⟩
    · simp only [wuT, ppc, List.length_cons]; omega
    · simp only [osT, List.countP_cons, isEmit]; simp
  · simp at hs

theorem cons_scanEnd {c : Cfg} {s s' : State} {st k : Nat}
    (hs : stepScanEnd c s st k = some s') : Cons s s' := by
  unfold stepScanEnd at hs; split at hs
  · next hg =>
    have hm : Phase.scan st k ∈ s.busy := by simpa using hg
    obtain ⟨e1, e2⟩ := busy_erase hm
    have h0 := eqv_detach { s with busy := s.busy.erase (.scan st k) } (some k)
    dsimp only at hs
    generalize detach { s with busy := s.busy.erase (.scan st k) } (some k) = s1 at *
    have key : Eqv s1 s' 1 := by
      split at hs
      · simp only [Option.some.injEq] at hs; subst hs; exact eqv_wu1 s1
      · split at hs
        · simp only [Option.some.injEq] at hs; subst hs; exact eqv_wu1 s1
        · simp only [Option.some.injEq] at hs; subst hs
          exact (eqv_scanNew c s1 _).trans (eqv_scanRequeue c _ _ _)
    have h := h0.trans key
    have hw := h.wu
    have ho := h.os
    have hp := h.pp
    simp only [isEmit] at e2
    refine ⟨?_, ?_⟩
    · simp only [ppc, hp]; rw [hw]; simp only [wuT]; omega
    · rw [ho]; simp only [osT]; simp at e2; omega
  · simp at hs

/-- every transition that does not call `failf` conserves work units and output slots -/
theorem step_cons {c : Cfg} {s s' : State} {l : Label} (hs : step c s l = some s')
    (hf : s'.failed = false) : Cons s s' := by
  unfold step at hs
  split at hs
  · simp at hs
  · next hf0 =>
    have hf0 : s.failed = false := by simpa using hf0
    cases l with
    | rTake => exact cons_rTake hs
    | rQuit => exact cons_rQuit hs
    | rBlock => exact cons_rBlock hs
    | rEmpty => exact cons_rEmpty hs
    | rEof => exact cons_rEof hs
    | wDone => exact cons_wDone hs
    | reorder ob => exact cons_reorder hs hf
    | parseStart => exact cons_parseStart hs
    | parseEnd => exact cons_parseEnd hs hf
    | retrStart j => exact cons_retrStart hs
    | retrEnd j k => exact cons_retrEnd hs
    | retrPost e => exact cons_retrPost hs
    | emitStart e => exact cons_emitStart hs
    | emitEnd e => exact cons_emitEnd hs
    | scanStart sp => exact cons_scanStart hs
    | scanEnd st k => exact cons_scanEnd hs

theorem step_not_failed {c : Cfg} {s s' : State} {l : Label} (hs : step c s l = some s') :
    s.failed = false := by
  unfold step at hs
  split at hs
  · simp at hs
  · next h => simpa using h

theorem ci_init (c : Cfg) : CI c (init c) := by
  refine ⟨?_, ?_⟩ <;> simp [init, busyCount, emitBusy]

theorem ci_step {c : Cfg} {s s' : State} {l : Label} (h : CI c s) (hs : step c s l = some s')
    (hf : s'.failed = false) : CI c s' := by
  obtain ⟨h1, h2⟩ := ci_iff.1 h
  obtain ⟨k1, k2⟩ := step_cons hs hf
  exact ci_iff.2 ⟨k1.trans h1, k2.trans h2⟩

/-- CONSERVATION: in every reachable state in which `failf` has not been called,
    free + queued + busy work units = num_worker and
    free + reordering + being written + being emitted output slots = total_out_slots -/
theorem ci_reach {c : Cfg} {s : State} (h : Reach c s) (hf : s.failed = false) : CI c s := by
  induction h with
  | init => exact ci_init c
  | step l _ hs ih => exact ci_step (ih (step_not_failed hs)) hs hf

/-! ### corollaries: capacities -/

theorem cap_retrQ {c : Cfg} {s : State} (h : Reach c s) (hf : s.failed = false) :
    s.retrQ.length ≤ c.n := by have := (ci_reach h hf).wuC; omega

theorem cap_emitQ {c : Cfg} {s : State} (h : Reach c s) (hf : s.failed = false) :
    s.emitQ.length ≤ c.n := by have := (ci_reach h hf).wuC; omega

theorem cap_wu {c : Cfg} {s : State} (h : Reach c s) (hf : s.failed = false) :
    s.wu ≤ c.n := by have := (ci_reach h hf).wuC; omega

theorem cap_busy {c : Cfg} {s : State} (h : Reach c s) (hf : s.failed = false) :
    busyCount s ≤ c.n := by have := (ci_reach h hf).wuC; omega

theorem cap_reordQ {c : Cfg} {s : State} (h : Reach c s) (hf : s.failed = false) :
    s.reordQ.length ≤ c.totalOut := by have := (ci_reach h hf).osC; omega

theorem cap_outq {c : Cfg} {s : State} (h : Reach c s) (hf : s.failed = false) :
    s.outq ≤ c.totalOut := by have := (ci_reach h hf).osC; omega

theorem cap_outSlots {c : Cfg} {s : State} (h : Reach c s) (hf : s.failed = false) :
    s.outSlots ≤ c.totalOut := by have := (ci_reach h hf).osC; omega

theorem cap_emitBusy {c : Cfg} {s : State} (h : Reach c s) (hf : s.failed = false) :
    emitBusy s ≤ c.totalOut := by have := (ci_reach h hf).osC; omega

/-- all capacities at once -/
theorem capacities {c : Cfg} {s : State} (h : Reach c s) (hf : s.failed = false) :
    s.retrQ.length ≤ c.n ∧ s.emitQ.length ≤ c.n ∧ s.reordQ.length ≤ c.totalOut ∧
    s.outq ≤ c.totalOut ∧ s.wu ≤ c.n ∧ s.outSlots ≤ c.totalOut ∧ busyCount s ≤ c.n :=
  ⟨cap_retrQ h hf, cap_emitQ h hf, cap_reordQ h hf, cap_outq h hf, cap_wu h hf,
   cap_outSlots h hf, cap_busy h hf⟩

/-! ### corollary: a terminated state is quiescent -/

theorem terminated_facts {c : Cfg} {s : State} (ht : terminated c s = true) :
    s.failed = false ∧ s.wu = c.n ∧ s.outSlots = c.totalOut := by
  simp [terminated, dCanTerminate, view] at ht
  exact ⟨ht.1.1, of_decide_eq_true ht.1.2.1.2, of_decide_eq_true ht.1.2.2⟩

/-- when all workers have left the loop every queue is empty, nobody is busy
    and nothing is waiting for the sink -/
theorem terminated_quiescent {c : Cfg} {s : State} (h : Reach c s) (ht : terminated c s = true) :
    s.retrQ = [] ∧ s.emitQ = [] ∧ s.busy = [] ∧ s.pphase = none ∧ s.reordQ = [] ∧ s.outq = 0 := by
  obtain ⟨hf, hw, ho⟩ := terminated_facts ht
  obtain ⟨h1, h2⟩ := ci_reach h hf
  simp only [busyCount] at h1
  have r1 : s.retrQ.length = 0 := by omega
  have r2 : s.emitQ.length = 0 := by omega
  have r3 : s.busy.length = 0 := by omega
  have r4 : s.pphase.isSome = false := by
    cases hp : s.pphase.isSome
    · rfl
    · rw [hp] at h1; simp at h1; omega
  have r5 : s.reordQ.length = 0 := by omega
  have r6 : s.outq = 0 := by omega
  refine ⟨List.eq_nil_of_length_eq_zero r1, List.eq_nil_of_length_eq_zero r2,
    List.eq_nil_of_length_eq_zero r3, ?_, List.eq_nil_of_length_eq_zero r5, r6⟩
  cases hp : s.pphase with
  | none => rfl
  | some k => rw [hp] at r4; simp at r4

/-! ## Stretch: input-slot conservation (conditional)

  `inSlots + inputAlive = totalIn` is preserved by every transition (failing or
  not) PROVIDED a parser / scanner never attaches to an input block that has
  already been shifted out of `input_q` (`Fresh`).  That side condition is a
  position invariant (`head_offs ≤ parser_bs`, `head_offs ≤ x < tail_offs` for
  `x ∈ scan_q`) which belongs to the safety invariant `SI` and is NOT proved
  here; `fresh_of_pos` reduces it to positions.  `do_retrieve` needs no side
  condition (a stale job attaches to `head`). -/

def attCnt (s : State) : Nat :=
  ((List.range s.head).filter (fun k => attachedTo s k)).length
def holdc (s : State) : Nat := if s.rph == .hold then 1 else 0

theorem inputAlive_eq (s : State) : inputAlive s = (s.rd - s.head) + attCnt s + holdc s := rfl

structure II (c : Cfg) (s : State) : Prop where
  /-- input slots: free + blocks in input_q + released-but-still-attached blocks + the reader's -/
  inC : s.inSlots + inputAlive s = c.totalIn
  hr : s.head ≤ s.rd

/-- the block a `*Start` transition attaches to has not been shifted out -/
def Fresh (c : Cfg) (s : State) : Label → Prop
  | .parseStart => s.ppos < tailOffs c s → s.head ≤ s.ppos / c.W
  | .scanStart sp => s.head ≤ sp / c.W
  | _ => True

theorem fresh_of_pos {c : Cfg} {h r p : Nat} (h1 : offs c h ≤ p) (h2 : p < offs c r) :
    h ≤ p / c.W := by
  unfold offs at h1 h2
  have hW : 0 < c.W := by
    rcases Nat.eq_zero_or_pos c.W with e | e
    · rw [e] at h2; simp at h2
    · exact e
  rw [Nat.le_div_iff_mul_le hW]
  omega

/-! ### counting -/

theorem filter_range_split (P : Nat → Bool) {h h' : Nat} (hh : h ≤ h') :
    ((List.range h').filter P).length =
      ((List.range h).filter P).length + ((List.range' h (h' - h)).filter P).length := by
  have e : List.range h' = List.range h ++ List.range' h (h' - h) := by
    rw [List.range_eq_range', List.range_eq_range']
    have := List.range'_append (s := 0) (m := h) (n := h' - h) (step := 1)
    simp only [Nat.one_mul, Nat.zero_add] at this
    rw [this]; congr 1; omega
  rw [e, List.filter_append, List.length_append]

theorem count_diff (P Q : Nat → Bool) (k : Nat) (hne : ∀ x, x ≠ k → P x = Q x)
    (hP : P k = true) (hQ : Q k = false) : ∀ n, k < n →
    ((List.range n).filter P).length = ((List.range n).filter Q).length + 1 := by
  intro n
  induction n with
  | zero => intro h; omega
  | succ n ih =>
    intro hk
    rw [List.range_succ, List.filter_append, List.filter_append, List.length_append,
      List.length_append]
    by_cases hkn : k = n
    · subst hkn
      have : List.filter P (List.range k) = List.filter Q (List.range k) :=
        List.filter_congr (fun x hx => hne x (by have := List.mem_range.1 hx; omega))
      rw [this]; simp [hP, hQ]
    · have h1 := ih (by omega)
      have e : P n = Q n := hne n (fun h => hkn h.symm)
      have e2 : List.filter P [n] = List.filter Q [n] :=
        List.filter_congr (fun x hx => by
          have : x = n := by simpa using hx
          subst this; exact e)
      rw [h1, e2]; omega

/-! ### who is attached -/

theorem block_flagPhase (p : Nat → Bool) (ph : Phase) : (flagPhase p ph).block = ph.block := by
  cases ph <;> rfl

theorem block_good (ph : Phase) : (Phase.good ph).block = ph.block := by
  cases ph <;> rfl

theorem any_flag (p : Nat → Bool) (x : Nat) (l : List Phase) :
    (l.map (flagPhase p)).any (fun ph => ph.block == some x) =
      l.any (fun ph => ph.block == some x) := by
  induction l with
  | nil => rfl
  | cons a as ih => simp only [List.map_cons, List.any_cons, ih, block_flagPhase]

theorem any_good (q : Phase → Bool) (x : Nat) (l : List Phase) :
    (replaceFirst q Phase.good l).any (fun ph => ph.block == some x) =
      l.any (fun ph => ph.block == some x) := by
  induction l with
  | nil => rfl
  | cons a as ih =>
    simp only [replaceFirst]
    split
    · simp only [List.any_cons, block_good]
    · simp only [List.any_cons, ih]

theorem att_erase {s : State} {ph : Phase} (hm : ph ∈ s.busy) (x : Nat) :
    attachedTo s x =
      (attachedTo { s with busy := s.busy.erase ph } x || (ph.block == some x)) := by
  simp only [attachedTo]
  rw [(List.perm_cons_erase hm).any_eq, List.any_cons]
  generalize (s.pphase == some (some x)) = a
  generalize (ph.block == some x) = b
  generalize (s.busy.erase ph).any (fun ph => ph.block == some x) = d
  cases a <;> cases b <;> cases d <;> rfl

/-! ### transfer lemmas -/

/-- nothing relevant changes below `head` -/
theorem ii_same {c : Cfg} {s s' : State} (h : II c s) (hrd : s'.rd = s.rd)
    (hrph : s'.rph = s.rph) (hhd : s'.head = s.head) (hin : s'.inSlots = s.inSlots)
    (hatt : ∀ k, k < s.head → attachedTo s' k = attachedTo s k) : II c s' := by
  obtain ⟨h1, h2⟩ := h
  refine ⟨?_, by omega⟩
  rw [inputAlive_eq] at h1 ⊢
  have e1 : attCnt s' = attCnt s := by
    unfold attCnt; rw [hhd]
    rw [List.filter_congr (fun x hx => hatt x (List.mem_range.1 hx))]
  have e3 : holdc s' = holdc s := by unfold holdc; rw [hrph]
  rw [hin, e1, e3, hrd, hhd]; exact h1

/-- `head` moves forward, the unattached blocks in between are released -/
theorem ii_of {c : Cfg} {s s' : State} (h : II c s) (hrd : s'.rd = s.rd)
    (hrph : s'.rph = s.rph) (hh : s.head ≤ s'.head) (hh' : s'.head ≤ s.rd)
    (hatt : ∀ k, attachedTo s' k = attachedTo s k)
    (hin : s'.inSlots = s.inSlots + releaseCount s s.head s'.head) : II c s' := by
  obtain ⟨h1, h2⟩ := h
  refine ⟨?_, by omega⟩
  rw [inputAlive_eq] at h1 ⊢
  have e1 : attCnt s' = attCnt s +
      ((List.range' s.head (s'.head - s.head)).filter (fun k => attachedTo s k)).length := by
    unfold attCnt
    have : (fun k => attachedTo s' k) = (fun k => attachedTo s k) := funext hatt
    rw [this]; exact filter_range_split _ hh
  have e2 := length_filter_split (fun k => attachedTo s k)
    (List.range' s.head (s'.head - s.head))
  rw [List.length_range'] at e2
  have e3 : holdc s' = holdc s := by unfold holdc; rw [hrph]
  unfold releaseCount at hin
  rw [hin, e1, e3, hrd]; omega

/-- reader-side transitions -/
theorem ii_gen {c : Cfg} {s s' : State} (h : II c s) (hatt : attCnt s' = attCnt s)
    (hhd : s'.head = s.head) (hr : s.rd ≤ s'.rd)
    (e : s'.inSlots + (s'.rd - s.rd) + holdc s' = s.inSlots + holdc s) : II c s' := by
  obtain ⟨h1, h2⟩ := h
  refine ⟨?_, by omega⟩
  rw [inputAlive_eq] at h1 ⊢
  rw [hatt, hhd]; omega

/-- `detach()`: `s` is the state before the phase was removed, `s0` after -/
theorem ii_detach {c : Cfg} {s s0 : State} {k : Option Nat} (h : II c s)
    (hrd : s0.rd = s.rd) (hrph : s0.rph = s.rph) (hhd : s0.head = s.head)
    (hin : s0.inSlots = s.inSlots)
    (hk : ∀ kk, k = some kk → attachedTo s kk = true)
    (hne : ∀ x, k ≠ some x → attachedTo s0 x = attachedTo s x) : II c (detach s0 k) := by
  unfold detach
  cases k with
  | none => exact ii_same h hrd hrph hhd hin (fun x _ => hne x (by simp))
  | some kk =>
    dsimp only
    split
    · next hg =>
      simp only [Bool.and_eq_true, decide_eq_true_eq, Bool.not_eq_true'] at hg
      obtain ⟨g1, g2⟩ := hg
      obtain ⟨h1, h2⟩ := h
      refine ⟨?_, by show s0.head ≤ s0.rd; omega⟩
      rw [inputAlive_eq] at h1 ⊢
      have e1 : attCnt s = attCnt s0 + 1 := by
        unfold attCnt; rw [hhd]
        exact count_diff (fun k => attachedTo s k) (fun k => attachedTo s0 k) kk
          (fun x hx => (hne x (fun e => hx (Option.some.inj e).symm)).symm)
          (hk kk rfl) g2 _ (hhd ▸ g1)
      have e3 : holdc s0 = holdc s := by unfold holdc; rw [hrph]
      show s0.inSlots + 1 + ((s0.rd - s0.head) + attCnt s0 + holdc s0) = c.totalIn
      rw [hin, e3, hrd, hhd]; omega
    · next hg =>
      simp only [Bool.and_eq_true, decide_eq_true_eq, Bool.not_eq_true'] at hg
      refine ii_same h hrd hrph hhd hin (fun x hx => ?_)
      by_cases hxk : kk = x
      · subst hxk
        have : attachedTo s0 kk = true := by
          cases ha : attachedTo s0 kk
          · exact absurd ⟨hhd ▸ hx, ha⟩ hg
          · rfl
        rw [this, hk kk rfl]
      · exact hne x (fun e => hxk (Option.some.inj e))

/-! ### the named sub-functions -/

theorem ii_advance {c : Cfg} {s : State} (p : Nat) (h : II c s) : II c (advance c s p) := by
  have hr := h.hr
  refine ii_of h rfl rfl ?_ ?_ (fun _ => rfl) rfl
  · show s.head ≤ max s.head _; omega
  · show max s.head (min s.rd _) ≤ s.rd
    generalize (if c.T ≤ p then s.rd else p / c.W) = z
    omega

theorem ii_parsePush {c : Cfg} {s : State} (b : Nat) (h : II c s) : II c (parsePush c s b) := by
  have h2 := ii_advance (c := c) b h
  unfold parsePush; dsimp only
  generalize advance c s b = s2 at *
  refine ii_same h2 rfl rfl rfl rfl (fun x _ => ?_)
  simp only [attachedTo, any_flag]

theorem ii_parseMatch {c : Cfg} {s : State} (b : Nat) (h : II c s) : II c (parseMatch c s b) := by
  unfold parseMatch; split
  · next j _ =>
    have h1 : II c { s with retrQ := replaceFirst (Job.inqAt b) Job.good s.retrQ } :=
      ii_same h rfl rfl rfl rfl (fun _ _ => rfl)
    exact ii_same (ii_advance j.endp h1) rfl rfl rfl rfl (fun _ _ => rfl)
  · split
    · next ph _ =>
      have h1 : II c { s with busy := replaceFirst (Phase.inqAt b) Phase.good s.busy } :=
        ii_same h rfl rfl rfl rfl (fun x _ => by simp only [attachedTo, any_good])
      exact ii_same (ii_advance ph.endp h1) rfl rfl rfl rfl (fun _ _ => rfl)
    · split
      · next u _ =>
        have h2 := ii_advance (c := c) u.f.endp h
        dsimp only
        generalize advance c s u.f.endp = a at *
        split
        · exact ii_same h2 rfl rfl rfl rfl (fun _ _ => rfl)
        · exact ii_same h2 rfl rfl rfl rfl (fun _ _ => rfl)
      · exact ii_same h rfl rfl rfl rfl (fun _ _ => rfl)

theorem ii_parseFinish {c : Cfg} {s : State} (u : Nat) (h : II c s) : II c (parseFinish s u) := by
  have hr := h.hr
  unfold parseFinish; dsimp only
  refine ii_of h rfl rfl hr (Nat.le_refl _) (fun x => ?_) rfl
  simp only [attachedTo, any_flag]

theorem ii_parseMore {c : Cfg} {s : State} (k : Option Nat) (h : II c s) :
    II c (parseMore c s k) := by
  unfold parseMore; dsimp only
  exact ii_same (ii_advance (offs c (k.getD 0 + 1)) h) rfl rfl rfl rfl (fun _ _ => rfl)

theorem ii_parseVerdict {c : Cfg} {s : State} (r : PRes) (h : II c s) :
    II c (parseVerdict c s r) := by
  cases r with
  | err u => exact ii_same h rfl rfl rfl rfl (fun _ _ => rfl)
  | finish u ok =>
    cases ok with
    | false => exact ii_same h rfl rfl rfl rfl (fun _ _ => rfl)
    | true =>
      simp only [parseVerdict, Bool.not_true, Bool.false_eq_true, if_false]
      exact ii_parseFinish u h
  | hdr b =>
    simp only [parseVerdict, parseOk]
    exact ii_parseMatch b (ii_parsePush b h)

theorem ii_retrExit {c : Cfg} {s : State} (j : Job) (h : II c s) : II c (retrExit s j) :=
  ii_same h rfl rfl rfl rfl (fun _ _ => rfl)

theorem ii_retrMove {c : Cfg} {s : State} (j : Job) (n : Nat) (h : II c s) :
    II c (retrMove c s j n) := by
  unfold retrMove; split
  · exact ii_same (ii_advance n h) rfl rfl rfl rfl (fun _ _ => rfl)
  · exact h

theorem ii_retrMore {c : Cfg} {s : State} (j : Job) (n : Nat) (h : II c s) :
    II c (retrMore s j n) :=
  ii_same h rfl rfl rfl rfl (fun _ _ => rfl)

theorem ii_retrDone {c : Cfg} {s : State} (j : Job) (n : Nat) (h : II c s) :
    II c (retrDone c s j n) := by
  unfold retrDone; dsimp only; split
  · exact ii_same h rfl rfl rfl rfl (fun _ _ => rfl)
  · exact ii_same h rfl rfl rfl rfl (fun _ _ => rfl)

theorem ii_scanNew {c : Cfg} {s : State} (x : Nat) (h : II c s) : II c (scanNew c s x) := by
  unfold scanNew; split
  · exact ii_same h rfl rfl rfl rfl (fun _ _ => rfl)
  · exact ii_same h rfl rfl rfl rfl (fun _ _ => rfl)

theorem ii_scanRequeue {c : Cfg} {s : State} (x hi : Nat) (h : II c s) :
    II c (scanRequeue c s x hi) := by
  unfold scanRequeue; split
  · exact ii_same h rfl rfl rfl rfl (fun _ _ => rfl)
  · exact h

/-- removing a busy phase and detaching from its block -/
theorem ii_leave {c : Cfg} {s : State} {ph : Phase} (h : II c s) (hm : ph ∈ s.busy) :
    II c (detach { s with busy := s.busy.erase ph } ph.block) := by
  refine ii_detach h rfl rfl rfl rfl (fun kk hk => ?_) (fun x hx => ?_)
  · rw [att_erase hm kk, hk]; simp
  · rw [att_erase hm x]
    have : (ph.block == some x) = false := by
      cases hb : ph.block with
      | none => rfl
      | some y =>
        rw [hb] at hx
        simp only [beq_eq_false_iff_ne, ne_eq]
        exact hx
    rw [this, Bool.or_false]

/-- a busy phase that is attached to nothing comes or goes -/
theorem ii_erase_none {c : Cfg} {s s' : State} {ph : Phase} (h : II c s) (hm : ph ∈ s.busy)
    (hb : ph.block = none) (hrd : s'.rd = s.rd) (hrph : s'.rph = s.rph)
    (hhd : s'.head = s.head) (hin : s'.inSlots = s.inSlots) (hpp : s'.pphase = s.pphase)
    (hbusy : s'.busy = s.busy.erase ph) : II c s' := by
  refine ii_same h hrd hrph hhd hin (fun x _ => ?_)
  rw [att_erase hm x, hb]
  simp only [attachedTo, hpp, hbusy]
  simp

/-! ### the transitions -/

theorem holdc_of {s : State} {r : RPhase} (h : s.rph = r) :
    holdc s = if r = .hold then 1 else 0 := by
  unfold holdc; subst h; cases s.rph <;> rfl

theorem ii_step_partial {c : Cfg} {s s' : State} {l : Label} (h : II c s)
    (hs : step c s l = some s') (hfr : Fresh c s l) : II c s' := by
  unfold step at hs
  split at hs
  · simp at hs
  · cases l with
    | rTake =>
      replace hs : stepRTake s = some s' := hs
      unfold stepRTake at hs; split at hs
      · next hg =>
        simp only [Bool.and_eq_true, beq_iff_eq, decide_eq_true_eq] at hg
        simp only [Option.some.injEq] at hs; subst hs
        refine ii_gen h rfl rfl (Nat.le_refl _) ?_
        rw [holdc_of hg.1.1, holdc_of (s := { s with inSlots := s.inSlots - 1, rph := .hold }) rfl]
        have := hg.2
        simp; omega
      · simp at hs
    | rQuit =>
      replace hs : stepRQuit s = some s' := hs
      unfold stepRQuit at hs; split at hs
      · next hg =>
        simp only [Bool.and_eq_true, beq_iff_eq] at hg
        simp only [Option.some.injEq] at hs; subst hs
        refine ii_gen h rfl rfl (Nat.le_refl _) ?_
        rw [holdc_of hg.1, holdc_of (s := { s with rph := .ateof }) rfl]
        simp
      · simp at hs
    | rBlock =>
      replace hs : stepRBlock c s = some s' := hs
      unfold stepRBlock at hs; split at hs
      · next hg =>
        simp only [Bool.and_eq_true, beq_iff_eq, decide_eq_true_eq] at hg
        dsimp only at hs
        have hrp : ∀ t : State, t.rph = (if (s.nread + 1) * c.W ≤ c.T then RPhase.idle else RPhase.ateof) →
            holdc t = 0 := by
          intro t ht; rw [holdc_of ht]; split <;> simp
        split at hs
        · simp only [Option.some.injEq] at hs; subst hs
          refine ii_gen h rfl rfl (Nat.le_refl _) ?_
          rw [holdc_of hg.1, hrp _ rfl]
          simp
        · simp only [Option.some.injEq] at hs; subst hs
          refine ii_gen h rfl rfl (Nat.le_succ _) ?_
          rw [holdc_of hg.1, hrp _ rfl]
          simp
      · simp at hs
    | rEmpty =>
      replace hs : stepREmpty c s = some s' := hs
      unfold stepREmpty at hs; split at hs
      · next hg =>
        simp only [Bool.and_eq_true, beq_iff_eq] at hg
        simp only [Option.some.injEq] at hs; subst hs
        refine ii_gen h rfl rfl (Nat.le_refl _) ?_
        rw [holdc_of hg.1, holdc_of (s := { s with inSlots := s.inSlots + 1, rph := .ateof }) rfl]
        simp
      · simp at hs
    | rEof =>
      replace hs : stepREof s = some s' := hs
      unfold stepREof at hs; split at hs
      · next hg =>
        simp only [beq_iff_eq] at hg
        simp only [Option.some.injEq] at hs; subst hs
        refine ii_gen h rfl rfl (Nat.le_refl _) ?_
        rw [holdc_of hg, holdc_of (s := { s with eof := true, rph := .done }) rfl]
        simp
      · simp at hs
    | wDone =>
      replace hs : stepWDone s = some s' := hs
      unfold stepWDone at hs; split at hs
      · simp only [Option.some.injEq] at hs; subst hs
        exact ii_same h rfl rfl rfl rfl (fun _ _ => rfl)
      · simp at hs
    | reorder ob =>
      replace hs : stepReorder c s ob = some s' := hs
      unfold stepReorder at hs; split at hs
      · split at hs
        · simp only [Option.some.injEq] at hs; subst hs
          exact ii_same h rfl rfl rfl rfl (fun _ _ => rfl)
        · split at hs
          · simp only [Option.some.injEq] at hs; subst hs
            exact ii_same h rfl rfl rfl rfl (fun _ _ => rfl)
          · simp only [Option.some.injEq] at hs; subst hs
            exact ii_same h rfl rfl rfl rfl (fun _ _ => rfl)
          · simp only [Option.some.injEq] at hs; subst hs
            exact ii_same h rfl rfl rfl rfl (fun _ _ => rfl)
      · simp at hs
    | parseStart =>
      replace hs : stepParseStart c s = some s' := hs
      unfold stepParseStart at hs; split at hs
      · next hg =>
        simp only [Bool.and_eq_true, beq_iff_eq] at hg
        have hpp : s.pphase = none := by simpa using hg.2
        simp only [Option.some.injEq] at hs; subst hs
        refine ii_same h rfl rfl rfl rfl (fun x hx => ?_)
        simp only [attachedTo, hpp]
        have : (some (if s.ppos < tailOffs c s then some (s.ppos / c.W) else none)
            == some (some x)) = false := by
          split
          · next hlt =>
            have := hfr hlt
            simp only [beq_eq_false_iff_ne, ne_eq, Option.some.injEq]
            omega
          · simp
        rw [this]; simp
      · simp at hs
    | parseEnd =>
      replace hs : stepParseEnd c s = some s' := hs
      unfold stepParseEnd at hs; split at hs
      · simp at hs
      · next k hk =>
        have h0 : II c (detach { s with pphase := none } k) := by
          refine ii_detach h rfl rfl rfl rfl (fun kk e => ?_) (fun x hx => ?_)
          · simp [attachedTo, hk, e]
          · simp only [attachedTo, hk]
            have : (some k == some (some x)) = false := by
              simp only [beq_eq_false_iff_ne, ne_eq, Option.some.injEq]; exact hx
            rw [this]; simp
        dsimp only at hs
        generalize detach { s with pphase := none } k = s1 at *
        split at hs
        · simp only [Option.some.injEq] at hs; subst hs; exact ii_parseMore k h0
        · simp only [Option.some.injEq] at hs; subst hs; exact ii_parseVerdict _ h0
    | retrStart j =>
      replace hs : stepRetrStart c s j = some s' := hs
      unfold stepRetrStart at hs; split at hs
      · next hg =>
        simp only [Option.some.injEq] at hs; subst hs
        refine ii_same h rfl rfl rfl rfl (fun x hx => ?_)
        simp only [attachedTo, List.any_cons, Phase.block]
        have : ((if tailOffs c s ≤ j.curr then none
                  else if decide (j.curr < headOffs c s) = true then
                    (if s.head < s.rd then some s.head else none)
                  else some (j.curr / c.W)) == some x) = false := by
          split
          · rfl
          · next h1 =>
            split
            · split
              · simp only [beq_eq_false_iff_ne, ne_eq, Option.some.injEq]; omega
              · rfl
            · next h2 =>
              have h2' : headOffs c s ≤ j.curr := by simpa using h2
              have := fresh_of_pos (c := c) (h := s.head) (r := s.rd) (p := j.curr) h2'
                (by unfold tailOffs at h1; omega)
              simp only [beq_eq_false_iff_ne, ne_eq, Option.some.injEq]; omega
        rw [this]; simp
      · simp at hs
    | retrEnd j k =>
      replace hs : stepRetrEnd c s j k = some s' := hs
      unfold stepRetrEnd at hs; split at hs
      · next hg =>
        have hm : Phase.retr j k ∈ s.busy := by simpa using hg
        have h0 := ii_leave h hm
        simp only [Phase.block] at h0
        dsimp only at hs
        generalize detach { s with busy := s.busy.erase (.retr j k) } k = s1 at *
        split at hs
        · simp only [Option.some.injEq] at hs; subst hs; exact ii_retrExit j h0
        · split at hs
          · simp only [Option.some.injEq] at hs; subst hs; exact ii_retrExit j h0
          · split at hs
            · split at hs
              · simp only [Option.some.injEq] at hs; subst hs
                exact ii_retrExit _ (ii_retrMove j _ h0)
              · simp only [Option.some.injEq] at hs; subst hs
                exact ii_retrMore _ _ (ii_retrMove j _ h0)
            · simp only [Option.some.injEq] at hs; subst hs
              exact ii_retrDone _ _ (ii_retrMove j _ h0)
      · simp at hs
    | retrPost e =>
      replace hs : stepRetrPost s e = some s' := hs
      unfold stepRetrPost at hs; split at hs
      · next hg =>
        have hm : Phase.retr2 e ∈ s.busy := by simpa using hg
        simp only [Option.some.injEq] at hs; subst hs
        exact ii_erase_none h hm rfl rfl rfl rfl rfl rfl rfl
      · simp at hs
    | emitStart e =>
      replace hs : stepEmitStart c s e = some s' := hs
      unfold stepEmitStart at hs; split at hs
      · simp only [Option.some.injEq] at hs; subst hs
        refine ii_same h rfl rfl rfl rfl (fun x _ => ?_)
        simp [attachedTo, Phase.block]
      · simp at hs
    | emitEnd e =>
      replace hs : stepEmitEnd s e = some s' := hs
      unfold stepEmitEnd at hs; split at hs
      · next hg =>
        have hm : Phase.emit e ∈ s.busy := by simpa using hg
        dsimp only at hs
        split at hs
        · simp only [Option.some.injEq] at hs; subst hs
          exact ii_erase_none h hm rfl rfl rfl rfl rfl rfl rfl
        · simp only [Option.some.injEq] at hs; subst hs
          exact ii_erase_none h hm rfl rfl rfl rfl rfl rfl rfl
      · simp at hs
    | scanStart sp =>
      replace hs : stepScanStart c s sp = some s' := hs
      unfold stepScanStart at hs; split at hs
      · simp only [Option.some.injEq] at hs; subst hs
        refine ii_same h rfl rfl rfl rfl (fun x hx => ?_)
        have hfr' : s.head ≤ sp / c.W := hfr
        simp only [attachedTo, List.any_cons, Phase.block]
        have : (some (sp / c.W) == some x) = false := by
          simp only [beq_eq_false_iff_ne, ne_eq, Option.some.injEq]; omega
        rw [this]; simp
      · simp at hs
    | scanEnd st k =>
      replace hs : stepScanEnd c s st k = some s' := hs
      unfold stepScanEnd at hs; split at hs
      · next hg =>
        have hm : Phase.scan st k ∈ s.busy := by simpa using hg
        have h0 := ii_leave h hm
        simp only [Phase.block] at h0
        dsimp only at hs
        generalize detach { s with busy := s.busy.erase (.scan st k) } (some k) = s1 at *
        split at hs
        · simp only [Option.some.injEq] at hs; subst hs
          exact ii_same h0 rfl rfl rfl rfl (fun _ _ => rfl)
        · split at hs
          · simp only [Option.some.injEq] at hs; subst hs
            exact ii_same h0 rfl rfl rfl rfl (fun _ _ => rfl)
          · simp only [Option.some.injEq] at hs; subst hs
            exact ii_scanRequeue _ _ (ii_scanNew _ h0)
      · simp at hs

theorem ii_init (c : Cfg) : II c (init c) := by
  refine ⟨?_, Nat.le_refl _⟩
  simp [inputAlive_eq, attCnt, holdc, init]

/-- input-slot conservation, PARTIAL: conditional on the position invariant
    `Fresh` (the parser and the scanners never attach behind `head`), which
    is not proved here.  Everything else — all 16 transitions, including the
    failing ones — is covered. -/
theorem ii_reach_partial {c : Cfg}
    (hfr : ∀ s l s', Reach c s → step c s l = some s' → Fresh c s l)
    {s : State} (h : Reach c s) : II c s := by
  induction h with
  | init => exact ii_init c
  | step l hr hs ih => exact ii_step_partial ih hs (hfr _ l _ hr hs)

end LbzVerif.Lemmas.SchedD
