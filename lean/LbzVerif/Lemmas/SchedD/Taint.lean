/-
  `no_taint`: the ghost flags `corrupt` (a retrieve job was attached behind
  `head_offs`, i.e. read released input) and `taint` (such a job acted as
  master / its output was taken over by the parser / reached the sink) are
  never set in a reachable state.  Inductive invariant `TI`; the only place
  where `corrupt` can become `true` is `stepRetrStart` (`stale`), and
  `attach_in_range` (`ai_reach`, Attach.lean) shows `stale = false` there.
  Everything else is propagation.
-/
import LbzVerif.Lemmas.SchedD.Attach

namespace LbzVerif.Lemmas.SchedD
open LbzVerif.Model.SchedD LbzVerif.Gen

structure TI (s : State) : Prop where
  jq : ∀ j ∈ s.retrQ, j.corrupt = false
  jb : ∀ j k, Phase.retr j k ∈ s.busy → j.corrupt = false
  eq : ∀ e ∈ s.emitQ, e.corrupt = false
  eb : ∀ e, (Phase.retr2 e ∈ s.busy ∨ Phase.emit e ∈ s.busy) → e.corrupt = false
  ob : ∀ o ∈ s.reordQ, o.corrupt = false
  ub : ∀ u ∈ s.orphans, u.corrupt = false
  tt : s.taint = false

/-- the job carried by a busy phase is not corrupt -/
def phOK : Phase → Prop
  | .retr j _ => j.corrupt = false
  | .retr2 e => e.corrupt = false
  | .emit e => e.corrupt = false
  | .scan _ _ => True

theorem TI.bz {s : State} (h : TI s) : ∀ ph ∈ s.busy, phOK ph := by
  intro ph hp
  cases ph with
  | retr j k => exact h.jb j k hp
  | retr2 e => exact h.eb e (Or.inl hp)
  | emit e => exact h.eb e (Or.inr hp)
  | scan a b => trivial

theorem TI.of {s : State} (h1 : ∀ j ∈ s.retrQ, j.corrupt = false)
    (h2 : ∀ ph ∈ s.busy, phOK ph) (h3 : ∀ e ∈ s.emitQ, e.corrupt = false)
    (h4 : ∀ o ∈ s.reordQ, o.corrupt = false) (h5 : ∀ u ∈ s.orphans, u.corrupt = false)
    (h6 : s.taint = false) : TI s :=
  ⟨h1, fun _ _ hm => h2 _ hm, h3,
   fun _ hm => hm.elim (fun h => h2 _ h) (fun h => h2 _ h), h4, h5, h6⟩

theorem TI_init (c : Cfg) : TI (init c) := by
  refine ⟨?_, ?_, ?_, ?_, ?_, ?_, rfl⟩ <;> simp [init]

/-- `TI` only reads these fields -/
theorem TI_congr {s s' : State} (h : TI s) (e1 : s'.retrQ = s.retrQ) (e2 : s'.busy = s.busy)
    (e3 : s'.emitQ = s.emitQ) (e4 : s'.reordQ = s.reordQ) (e5 : s'.orphans = s.orphans)
    (e6 : s'.taint = s.taint) : TI s' := by
  obtain ⟨a1, a2, a3, a4, a5, a6, a7⟩ := h
  refine ⟨?_, ?_, ?_, ?_, ?_, ?_, ?_⟩
  · rw [e1]; exact a1
  · rw [e2]; exact a2
  · rw [e3]; exact a3
  · rw [e2]; exact a4
  · rw [e4]; exact a5
  · rw [e5]; exact a6
  · rw [e6]; exact a7

/-! ### the flag functions never change `corrupt` -/

theorem phOK_flagPhase {p : Nat → Bool} {ph : Phase} (h : phOK ph) : phOK (flagPhase p ph) := by
  cases ph <;> exact h

theorem phOK_good {ph : Phase} (h : phOK ph) : phOK ph.good := by
  cases ph <;> exact h

theorem popOrphans_corrupt {p : Nat → Bool} {os : List UB} {u : UB} (h : u ∈ popOrphans p os) :
    ∃ x ∈ os, u.corrupt = x.corrupt := by
  unfold popOrphans at h
  obtain ⟨x, hx, rfl⟩ := List.mem_map.1 h
  refine ⟨x, (List.mem_filter.1 hx).1, ?_⟩
  split <;> rfl

/-! ### the named sub-functions -/

theorem TI_advance {c : Cfg} {s : State} (p : Nat) (h : TI s) : TI (advance c s p) := by
  obtain ⟨a1, a2, a3, a4, a5, a6, a7⟩ := h
  refine ⟨?_, a2, a3, a4, a5, a6, a7⟩
  intro j hj; exact a1 j (List.mem_filter.1 hj).1

theorem TI_detach {s : State} (k : Option Nat) (h : TI s) : TI (detach s k) := by
  unfold detach; split
  · exact h
  · split
    · exact TI_congr h rfl rfl rfl rfl rfl rfl
    · exact h

theorem TI_busy_erase {s : State} (ph : Phase) (h : TI s) :
    TI { s with busy := s.busy.erase ph } :=
  TI.of h.jq (fun x hx => h.bz x (List.mem_of_mem_erase hx)) h.eq h.ob h.ub h.tt

theorem TI_busy_cons {s : State} (ph : Phase) (h : TI s) (hp : phOK ph) :
    TI { s with busy := ph :: s.busy } := by
  refine TI.of h.jq ?_ h.eq h.ob h.ub h.tt
  intro x hx
  rcases List.mem_cons.1 hx with e | hm
  · subst e; exact hp
  · exact h.bz x hm

theorem TI_retrExit {s1 : State} (j : Job) (h : TI s1) : TI (retrExit s1 j) :=
  TI_congr h rfl rfl rfl rfl rfl rfl

theorem TI_retrMove {c : Cfg} {s1 : State} {j : Job} (newc : Nat) (h : TI s1)
    (hj : j.corrupt = false) : TI (retrMove c s1 j newc) := by
  unfold retrMove; split
  · obtain ⟨a1, a2, a3, a4, a5, a6, a7⟩ := TI_advance (c := c) newc h
    refine ⟨a1, a2, a3, a4, a5, a6, ?_⟩
    show ((advance c s1 newc).taint || j.corrupt) = false
    rw [a7, hj]; rfl
  · exact h

theorem retrMoreJob_corrupt (j : Job) (newc : Nat) : (retrMoreJob j newc).corrupt = j.corrupt := rfl

theorem TI_retrMore {s2 : State} {j : Job} (newc : Nat) (h : TI s2) (hj : j.corrupt = false) :
    TI (retrMore s2 j newc) := by
  obtain ⟨a1, a2, a3, a4, a5, a6, a7⟩ := h
  refine ⟨?_, a2, a3, a4, a5, a6, a7⟩
  intro x hx
  rcases List.mem_cons.1 hx with e | hm
  · subst e; exact hj
  · exact a1 x hm

theorem TI_retrDone {c : Cfg} {s2 : State} {j : Job} (newc : Nat) (h : TI s2)
    (hj : j.corrupt = false) : TI (retrDone c s2 j newc) := by
  have hB : TI { s2 with busy := (Phase.retr2
        { base := j.base, idx := 0, left := (if (rres c j.base).ok then (rres c j.base).nb else 1),
          ok := (rres c j.base).ok && (rres c j.base).fin, corrupt := j.corrupt }) :: s2.busy } :=
    TI_busy_cons _ h hj
  unfold retrDone
  split
  · exact TI_congr hB rfl rfl rfl rfl rfl rfl
  · obtain ⟨a1, a2, a3, a4, a5, a6, a7⟩ := hB
    refine ⟨a1, a2, a3, a4, a5, ?_, a7⟩
    intro u hu
    rcases List.mem_append.1 hu with hu | hu
    · split at hu
      · simp only [List.mem_singleton] at hu; subst hu; exact hj
      · cases hu
    · exact a6 u hu

theorem TI_scanNew {c : Cfg} {s1 : State} (x : Nat) (h : TI s1) : TI (scanNew c s1 x) := by
  unfold scanNew; split
  · exact TI_congr h rfl rfl rfl rfl rfl rfl
  · obtain ⟨a1, a2, a3, a4, a5, a6, a7⟩ := h
    refine ⟨?_, a2, a3, a4, a5, a6, a7⟩
    intro j hj
    rcases List.mem_cons.1 hj with e | hm
    · subst e; rfl
    · exact a1 j hm

theorem TI_scanRequeue {c : Cfg} {s2 : State} (x hi : Nat) (h : TI s2) :
    TI (scanRequeue c s2 x hi) := by
  unfold scanRequeue; split
  · exact TI_congr h rfl rfl rfl rfl rfl rfl
  · exact h

theorem TI_parsePush {c : Cfg} {s1 : State} (b : Nat) (h : TI s1) : TI (parsePush c s1 b) := by
  have h2 := TI_advance (c := c) b h
  refine TI.of ?_ ?_ h2.eq h2.ob ?_ h2.tt
  · intro j hj
    simp only [parsePush, List.mem_map] at hj
    obtain ⟨x, hx, rfl⟩ := hj
    exact h2.jq x hx
  · intro ph hp
    simp only [parsePush, List.mem_map] at hp
    obtain ⟨x, hx, rfl⟩ := hp
    exact phOK_flagPhase (h2.bz x hx)
  · intro u hu
    obtain ⟨x, hx, e⟩ := popOrphans_corrupt (show u ∈ popOrphans (fun x => decide (x < b)) (advance c s1 b).orphans from hu)
    rw [e]; exact h2.ub x hx

theorem TI_parseMatch {c : Cfg} {s3 : State} (b : Nat) (h : TI s3) : TI (parseMatch c s3 b) := by
  unfold parseMatch
  split
  · next j hj =>
    have hS : TI { s3 with retrQ := replaceFirst (Job.inqAt b) Job.good s3.retrQ } := by
      obtain ⟨a1, a2, a3, a4, a5, a6, a7⟩ := h
      refine ⟨?_, a2, a3, a4, a5, a6, a7⟩
      intro y hy
      rcases mem_replaceFirst _ _ hy with hy | ⟨x, hx, _, rfl⟩
      · exact a1 y hy
      · exact a1 x hx
    exact TI_congr (TI_advance (c := c) j.endp hS) rfl rfl rfl rfl rfl rfl
  · split
    · next ph hph =>
      have hS : TI { s3 with busy := replaceFirst (Phase.inqAt b) Phase.good s3.busy } := by
        refine TI.of h.jq ?_ h.eq h.ob h.ub h.tt
        intro y hy
        rcases mem_replaceFirst _ _ hy with hy | ⟨x, hx, _, rfl⟩
        · exact h.bz y hy
        · exact phOK_good (h.bz x hx)
      exact TI_congr (TI_advance (c := c) ph.endp hS) rfl rfl rfl rfl rfl rfl
    · split
      · next u hu =>
        have hum := List.mem_of_find?_eq_some hu
        have huc : u.corrupt = false := h.ub u hum
        obtain ⟨a1, a2, a3, a4, a5, a6, a7⟩ := TI_advance (c := c) u.f.endp h
        split
        · refine ⟨a1, a2, a3, a4, a5, ?_, ?_⟩
          · intro x hx; exact a6 x (List.mem_of_mem_erase hx)
          · show ((advance c s3 u.f.endp).taint || u.corrupt) = false
            rw [a7, huc]; rfl
        · refine ⟨a1, a2, a3, a4, a5, ?_, a7⟩
          intro y hy
          rcases mem_replaceFirst _ _ hy with hy | ⟨x, hx, _, rfl⟩
          · exact a6 y hy
          · exact a6 x hx
      · obtain ⟨a1, a2, a3, a4, a5, a6, a7⟩ := h
        refine ⟨?_, a2, a3, a4, a5, a6, a7⟩
        intro x hx
        rcases List.mem_cons.1 hx with e | hm
        · subst e; rfl
        · exact a1 x hm

theorem TI_parseFinish {s1 : State} (u : Nat) (h : TI s1) : TI (parseFinish s1 u) := by
  refine TI.of ?_ ?_ h.eq h.ob ?_ h.tt
  · intro j hj; cases hj
  · intro ph hp
    simp only [parseFinish, List.mem_map] at hp
    obtain ⟨x, hx, rfl⟩ := hp
    exact phOK_flagPhase (h.bz x hx)
  · intro v hv
    obtain ⟨x, hx, e⟩ := popOrphans_corrupt
      (show v ∈ popOrphans (fun _ => true) s1.orphans from hv)
    rw [e]; exact h.ub x hx

theorem TI_parseMore {c : Cfg} {s1 : State} (k : Option Nat) (h : TI s1) :
    TI (parseMore c s1 k) :=
  TI_congr (TI_advance (c := c) (offs c (k.getD 0 + 1)) h) rfl rfl rfl rfl rfl rfl

theorem TI_parseVerdict {c : Cfg} {s1 : State} (r : PRes) (h : TI s1) :
    TI (parseVerdict c s1 r) := by
  cases r with
  | err u => exact TI_congr h rfl rfl rfl rfl rfl rfl
  | finish u ok =>
    cases ok with
    | false => exact TI_congr h rfl rfl rfl rfl rfl rfl
    | true => exact TI_parseFinish u h
  | hdr b => exact TI_parseMatch b (TI_parsePush b h)

/-! ### the steps -/

theorem TI_rTake {s s' : State} (h : TI s) (hs : stepRTake s = some s') : TI s' := by
  unfold stepRTake at hs; split at hs <;> simp at hs; subst hs
  exact TI_congr h rfl rfl rfl rfl rfl rfl

theorem TI_rQuit {s s' : State} (h : TI s) (hs : stepRQuit s = some s') : TI s' := by
  unfold stepRQuit at hs; split at hs <;> simp at hs; subst hs
  exact TI_congr h rfl rfl rfl rfl rfl rfl

theorem TI_rBlock {c : Cfg} {s s' : State} (h : TI s) (hs : stepRBlock c s = some s') : TI s' := by
  unfold stepRBlock at hs; split at hs
  · dsimp only at hs; split at hs <;> simp only [Option.some.injEq] at hs <;> subst hs <;>
      exact TI_congr h rfl rfl rfl rfl rfl rfl
  · simp at hs

theorem TI_rEmpty {c : Cfg} {s s' : State} (h : TI s) (hs : stepREmpty c s = some s') : TI s' := by
  unfold stepREmpty at hs; split at hs <;> simp at hs; subst hs
  exact TI_congr h rfl rfl rfl rfl rfl rfl

theorem TI_rEof {s s' : State} (h : TI s) (hs : stepREof s = some s') : TI s' := by
  unfold stepREof at hs; split at hs <;> simp at hs; subst hs
  exact TI_congr h rfl rfl rfl rfl rfl rfl

theorem TI_wDone {s s' : State} (h : TI s) (hs : stepWDone s = some s') : TI s' := by
  unfold stepWDone at hs; split at hs <;> simp at hs; subst hs
  exact TI_congr h rfl rfl rfl rfl rfl rfl

theorem TI_reorder {c : Cfg} {s s' : State} {ob : OB} (h : TI s)
    (hs : stepReorder c s ob = some s') : TI s' := by
  unfold stepReorder at hs; split at hs
  · next hg =>
    simp only [Bool.and_eq_true, List.contains_iff_mem] at hg
    have hob : ob ∈ s.reordQ := hg.1.2
    have hc : ob.corrupt = false := h.ob ob hob
    have hE : ∀ o ∈ s.reordQ.erase ob, o.corrupt = false :=
      fun o ho => h.ob o (List.mem_of_mem_erase ho)
    have ht : (s.taint || ob.corrupt) = false := by rw [h.tt, hc]; rfl
    split at hs
    · simp only [Option.some.injEq] at hs; subst hs
      exact ⟨h.jq, h.jb, h.eq, h.eb, hE, h.ub, h.tt⟩
    · split at hs <;> simp only [Option.some.injEq] at hs <;> subst hs
      · exact ⟨h.jq, h.jb, h.eq, h.eb, hE, h.ub, h.tt⟩
      · exact ⟨h.jq, h.jb, h.eq, h.eb, hE, h.ub, ht⟩
      · exact ⟨h.jq, h.jb, h.eq, h.eb, hE, h.ub, ht⟩
  · simp at hs

theorem TI_parseStart {c : Cfg} {s s' : State} (h : TI s)
    (hs : stepParseStart c s = some s') : TI s' := by
  unfold stepParseStart at hs; split at hs
  · simp only [Option.some.injEq] at hs; subst hs
    exact TI_congr h rfl rfl rfl rfl rfl rfl
  · simp at hs

theorem TI_parseEnd {c : Cfg} {s s' : State} (h : TI s)
    (hs : stepParseEnd c s = some s') : TI s' := by
  unfold stepParseEnd at hs
  split at hs
  · simp at hs
  · next k hk =>
    have h1 : TI (detach { s with pphase := none } k) :=
      TI_detach k (TI_congr h rfl rfl rfl rfl rfl rfl)
    generalize detach { s with pphase := none } k = s1 at hs h1
    dsimp only at hs
    split at hs
    · simp only [Option.some.injEq] at hs; subst hs
      exact TI_parseMore k h1
    · simp only [Option.some.injEq] at hs; subst hs
      exact TI_parseVerdict _ h1

/-- the only step that can set `corrupt`; `attach_in_range` says it does not -/
theorem TI_retrStart {c : Cfg} {s s' : State} {j : Job} (h : TI s) (hA : AI c s)
    (hs : stepRetrStart c s j = some s') : TI s' := by
  unfold stepRetrStart at hs; split at hs
  · next hg =>
    simp only [Bool.and_eq_true, List.contains_iff_mem] at hg
    have hj : j ∈ s.retrQ := hg.1.2
    have hle : headOffs c s ≤ j.curr := hA.arQ j hj
    have hst : decide (j.curr < headOffs c s) = false := by
      rw [decide_eq_false_iff_not]; omega
    simp only [Option.some.injEq] at hs; subst hs
    refine TI.of ?_ ?_ h.eq h.ob h.ub h.tt
    · intro x hx; exact h.jq x (List.mem_of_mem_erase hx)
    · intro ph hp
      rcases List.mem_cons.1 hp with e | hm
      · subst e
        show (j.corrupt || decide (j.curr < headOffs c s)) = false
        rw [h.jq j hj, hst]; rfl
      · exact h.bz ph hm
  · simp at hs

theorem TI_retrEnd {c : Cfg} {s s' : State} {j : Job} {k : Option Nat} (h : TI s)
    (hs : stepRetrEnd c s j k = some s') : TI s' := by
  unfold stepRetrEnd at hs; split at hs
  · next hg =>
    have hmem : Phase.retr j k ∈ s.busy := by simpa using hg
    have hj : j.corrupt = false := h.jb j k hmem
    have h1 : TI (detach { s with busy := s.busy.erase (.retr j k) } k) :=
      TI_detach _ (TI_busy_erase _ h)
    generalize detach { s with busy := s.busy.erase (.retr j k) } k = s1 at h1 hs
    dsimp only at hs
    generalize retrNewc c j k = newc at hs
    have h2 : TI (retrMove c s1 j newc) := TI_retrMove newc h1 hj
    generalize retrMove c s1 j newc = s2 at h2 hs
    split at hs
    · simp only [Option.some.injEq] at hs; subst hs
      exact TI_retrExit j h1
    · split at hs
      · simp only [Option.some.injEq] at hs; subst hs
        exact TI_retrExit j h1
      · split at hs
        · split at hs
          · simp only [Option.some.injEq] at hs; subst hs
            exact TI_retrExit _ h2
          · simp only [Option.some.injEq] at hs; subst hs
            exact TI_retrMore newc h2 hj
        · simp only [Option.some.injEq] at hs; subst hs
          exact TI_retrDone newc h2 hj
  · simp at hs

theorem TI_retrPost {s s' : State} {e : EJob} (h : TI s)
    (hs : stepRetrPost s e = some s') : TI s' := by
  unfold stepRetrPost at hs; split at hs
  · next hg =>
    have hmem : Phase.retr2 e ∈ s.busy := by simpa using hg
    have he : e.corrupt = false := h.eb e (Or.inl hmem)
    simp only [Option.some.injEq] at hs; subst hs
    obtain ⟨a1, a2, a3, a4, a5, a6, a7⟩ := TI_busy_erase (.retr2 e) h
    refine ⟨a1, a2, ?_, a4, a5, a6, a7⟩
    intro x hx
    rcases List.mem_cons.1 hx with e' | hm
    · subst e'; exact he
    · exact a3 x hm
  · simp at hs

theorem TI_emitStart {c : Cfg} {s s' : State} {e : EJob} (h : TI s)
    (hs : stepEmitStart c s e = some s') : TI s' := by
  unfold stepEmitStart at hs; split at hs
  · next hg =>
    simp only [Bool.and_eq_true, List.contains_iff_mem] at hg
    have he : e.corrupt = false := h.eq e hg.1.2
    simp only [Option.some.injEq] at hs; subst hs
    obtain ⟨a1, a2, a3, a4, a5, a6, a7⟩ := TI_busy_cons (.emit e) h he
    exact ⟨a1, a2, fun x hx => a3 x (List.mem_of_mem_erase hx), a4, a5, a6, a7⟩
  · simp at hs

theorem TI_emitEnd {s s' : State} {e : EJob} (h : TI s)
    (hs : stepEmitEnd s e = some s') : TI s' := by
  unfold stepEmitEnd at hs; split at hs
  · next hg =>
    have hmem : Phase.emit e ∈ s.busy := by simpa using hg
    have he : e.corrupt = false := h.eb e (Or.inr hmem)
    obtain ⟨a1, a2, a3, a4, a5, a6, a7⟩ := TI_busy_erase (.emit e) h
    dsimp only at hs
    split at hs <;> simp only [Option.some.injEq] at hs <;> subst hs
    · refine ⟨a1, a2, ?_, a4, ?_, a6, a7⟩
      · intro x hx
        rcases List.mem_cons.1 hx with e' | hm
        · subst e'; exact he
        · exact a3 x hm
      · intro x hx
        rcases List.mem_cons.1 hx with e' | hm
        · subst e'; exact he
        · exact a5 x hm
    · refine ⟨a1, a2, a3, a4, ?_, a6, a7⟩
      intro x hx
      rcases List.mem_cons.1 hx with e' | hm
      · subst e'; exact he
      · exact a5 x hm
  · simp at hs

theorem TI_scanStart {c : Cfg} {s s' : State} {sp : Nat} (h : TI s)
    (hs : stepScanStart c s sp = some s') : TI s' := by
  unfold stepScanStart at hs; split at hs
  · simp only [Option.some.injEq] at hs; subst hs
    exact TI_congr (TI_busy_cons
      (.scan (if sp / c.W == s.ppos / c.W && sp < s.ppos then s.ppos else sp) (sp / c.W)) h trivial)
      rfl rfl rfl rfl rfl rfl
  · simp at hs

theorem TI_scanEnd {c : Cfg} {s s' : State} {st k : Nat} (h : TI s)
    (hs : stepScanEnd c s st k = some s') : TI s' := by
  unfold stepScanEnd at hs; split at hs
  · have h1 : TI (detach { s with busy := s.busy.erase (.scan st k) } (some k)) :=
      TI_detach _ (TI_busy_erase _ h)
    generalize detach { s with busy := s.busy.erase (.scan st k) } (some k) = s1 at h1 hs
    dsimp only at hs
    split at hs
    · simp only [Option.some.injEq] at hs; subst hs
      exact TI_congr h1 rfl rfl rfl rfl rfl rfl
    · split at hs
      · simp only [Option.some.injEq] at hs; subst hs
        exact TI_congr h1 rfl rfl rfl rfl rfl rfl
      · simp only [Option.some.injEq] at hs; subst hs
        exact TI_scanRequeue _ _ (TI_scanNew _ h1)
  · simp at hs

/-! ### all steps -/

theorem ti_step {c : Cfg} {s s' : State} {l : Label} (h : TI s) (hA : AI c s)
    (hs : step c s l = some s') : TI s' := by
  unfold step at hs
  split at hs
  · simp at hs
  · cases l with
    | rTake => exact TI_rTake h hs
    | rQuit => exact TI_rQuit h hs
    | rBlock => exact TI_rBlock h hs
    | rEmpty => exact TI_rEmpty h hs
    | rEof => exact TI_rEof h hs
    | wDone => exact TI_wDone h hs
    | reorder ob => exact TI_reorder h hs
    | parseStart => exact TI_parseStart h hs
    | parseEnd => exact TI_parseEnd h hs
    | retrStart j => exact TI_retrStart h hA hs
    | retrEnd j k => exact TI_retrEnd h hs
    | retrPost e => exact TI_retrPost h hs
    | emitStart e => exact TI_emitStart h hs
    | emitEnd e => exact TI_emitEnd h hs
    | scanStart sp => exact TI_scanStart h hs
    | scanEnd st k => exact TI_scanEnd h hs

/-- **no job, buffer or unord_blk is ever corrupt** in a reachable state -/
theorem ti_reach {c : Cfg} {s : State} (h : Reach c s) : TI s := by
  induction h with
  | init => exact TI_init c
  | @step s s' l hr hs ih => exact ti_step ih (ai_reach hr) hs

/-- **no_taint**: no stale-attached retrieve job ever acts as master, is taken
    over by the parser, or reaches the sink. -/
theorem no_taint {c : Cfg} {s : State} (h : Reach c s) : s.taint = false :=
  (ti_reach h).tt

/-- nothing written to the sink, queued or running is corrupt -/
theorem no_corrupt {c : Cfg} {s : State} (h : Reach c s) :
    (∀ j ∈ s.retrQ, j.corrupt = false) ∧ (∀ ph ∈ s.busy, phOK ph) ∧
    (∀ e ∈ s.emitQ, e.corrupt = false) ∧ (∀ o ∈ s.reordQ, o.corrupt = false) ∧
    (∀ u ∈ s.orphans, u.corrupt = false) :=
  ⟨(ti_reach h).jq, (ti_reach h).bz, (ti_reach h).eq, (ti_reach h).ob, (ti_reach h).ub⟩

end LbzVerif.Lemmas.SchedD
