/-
  The safety invariant behind C10 `spec_safe` / C09 `output_eq`:
  what has been handed to the sink, followed by what the blocks in `order_q`
  and the rest of the sequential parse still owe, IS the sequential decoding.
-/
import LbzVerif.Lemmas.SchedD.Basic

namespace LbzVerif.Lemmas.SchedD
open LbzVerif.Model.SchedD LbzVerif.Gen

/-! ### definitions -/

/-- what the sequential parser will still produce after the blocks of `order_q` -/
def future (c : Cfg) (s : State) : List (Nat × Nat) × Bool :=
  if s.pdone then ([], true) else seqFrom c (c.T + 1 - s.gnext) s.gnext

def expect (c : Cfg) (s : State) : List (Nat × Nat) × Bool := orderOut c s.orderQ (future c s)

/-- the job holds (or will hold, once it runs) the mastership -/
def Job.mc (j : Job) : Bool := match j.ub with | none => true | some f => f.complete && f.legit
def Phase.mc : Phase → Bool
  | .retr j _ => Job.mc j
  | _ => false
def mcount (s : State) : Nat := s.retrQ.countP Job.mc + s.busy.countP Phase.mc

def jobOK (c : Cfg) (g : Nat) (j : Job) : Prop :=
  j.curr ≤ (rres c j.base).e ∧ (Job.mc j = true → (rres c j.base).e = g) ∧
  (∀ f, j.ub = some f → f.inq = true → f.complete = false) ∧
  j.base ≤ j.curr ∧ (∀ f, j.ub = some f → f.endp ≤ (rres c j.base).e)

def ejOK (c : Cfg) (e : EJob) : Prop :=
  1 ≤ e.left ∧ ((rres c e.base).ok = true → e.idx + e.left = (rres c e.base).nb ∧ e.ok = (rres c e.base).fin)
  ∧ ((rres c e.base).ok = false → e.left = 1 ∧ e.ok = false)

def obOK (c : Cfg) (o : OB) : Prop :=
  match o.st with
  | .more => (rres c o.base).ok = true ∧ o.idx + 1 < (rres c o.base).nb
  | .ok => (rres c o.base).ok = true ∧ (rres c o.base).fin = true ∧ o.idx + 1 = (rres c o.base).nb
  | .err => (rres c o.base).ok = false ∨ ((rres c o.base).fin = false ∧ o.idx + 1 = (rres c o.base).nb)

def phaseOK (c : Cfg) (g : Nat) : Phase → Prop
  | .retr j _ => jobOK c g j
  | .retr2 e => ejOK c e
  | .emit e => ejOK c e
  | .scan _ _ => True

/-- a complete entry of unord_q either belongs to a block that really was
    retrieved to its end, or was left behind by `discard()` for a job that the
    master had overtaken — then it lies behind `head_offs` and the parser can
    never arrive exactly at it -/
def ubOK (c : Cfg) (s : State) (u : UB) : Prop :=
  u.f.complete = true ∧
  (u.f.inq = true → u.f.endp = (rres c u.base).e ∨ u.base < headOffs c s)

/-- the safety invariant (for states in which `failf` has not been called) -/
structure SI (c : Cfg) (s : State) : Prop where
  main : seqRun c = (s.written ++ (expect c s).1, (expect c s).2)
  gle : s.gnext ≤ c.T
  porig : (s.ptok = true ∨ s.pphase.isSome = true) → s.porig = s.gnext
  excl : s.ptok = true → s.pphase = none
  mc1 : mcount s ≤ 1
  mc0 : (s.ptok = true ∨ s.pphase.isSome = true) → mcount s = 0
  jobs : ∀ j ∈ s.retrQ, jobOK c s.gnext j
  busy : ∀ ph ∈ s.busy, phaseOK c s.gnext ph
  emits : ∀ e ∈ s.emitQ, ejOK c e
  obs : ∀ o ∈ s.reordQ, obOK c o
  orph : s.pdone = false → ∀ u ∈ s.orphans, ubOK c s u
  pd : s.pphase.isSome = true → s.pdone = false
  hb : s.pdone = false → ∀ b, pres c s.gnext = .hdr b → headOffs c s ≤ b

/-- the process failed: the sequential decoding fails too, and what reached
    the sink is a prefix of what the sequential decoding writes -/
def FailOK (c : Cfg) (s : State) : Prop :=
  (seqRun c).2 = false ∧ s.written <+: (seqRun c).1

def Good (c : Cfg) (s : State) : Prop := if s.failed then FailOK c s else SI c s

/-! ### counting -/

theorem countP_erase_add {α} [BEq α] [LawfulBEq α] (p : α → Bool) {a : α} {l : List α}
    (h : a ∈ l) : List.countP p (l.erase a) + (if p a then 1 else 0) = List.countP p l := by
  rw [(List.perm_cons_erase h).countP_eq p, List.countP_cons]

theorem countP_erase_le {α} [BEq α] [LawfulBEq α] (p : α → Bool) (a : α) (l : List α) :
    List.countP p (l.erase a) ≤ List.countP p l :=
  List.Sublist.countP_le List.erase_sublist

theorem countP_replaceFirst_le {α} (p q : α → Bool) (g : α → α) (l : List α) :
    List.countP p (replaceFirst q g l) ≤ List.countP p l + 1 := by
  induction l with
  | nil => simp [replaceFirst]
  | cons x xs ih =>
    simp only [replaceFirst]
    split
    · simp only [List.countP_cons]; split <;> split <;> omega
    · simp only [List.countP_cons]; omega

theorem mem_replaceFirst {α} (q : α → Bool) (g : α → α) {l : List α} {y : α}
    (h : y ∈ replaceFirst q g l) : y ∈ l ∨ ∃ x ∈ l, q x = true ∧ y = g x := by
  induction l with
  | nil => simp [replaceFirst] at h
  | cons x xs ih =>
    simp only [replaceFirst] at h
    split at h
    · next hq =>
      rcases List.mem_cons.1 h with h | h
      · exact Or.inr ⟨x, List.mem_cons_self, hq, h⟩
      · exact Or.inl (List.mem_cons_of_mem _ h)
    · rcases List.mem_cons.1 h with h | h
      · exact Or.inl (h ▸ List.mem_cons_self)
      · rcases ih h with h | ⟨z, hz, hq, e⟩
        · exact Or.inl (List.mem_cons_of_mem _ h)
        · exact Or.inr ⟨z, List.mem_cons_of_mem _ hz, hq, e⟩

/-! ### the initial state -/

theorem SI_init (c : Cfg) : SI c (init c) := by
  refine ⟨?_, ?_, ?_, ?_, ?_, ?_, ?_, ?_, ?_, ?_, ?_, ?_, ?_⟩ <;>
    simp [init, expect, future, orderOut, seqRun, mcount, headOffs, offs]

/-- `SI` only reads these fields -/
theorem SI_congr {c : Cfg} {s s' : State} (h : SI c s)
    (e1 : s'.written = s.written) (e2 : s'.orderQ = s.orderQ) (e3 : s'.pdone = s.pdone)
    (e4 : s'.gnext = s.gnext) (e5 : s'.ptok = s.ptok) (e6 : s'.pphase = s.pphase)
    (e7 : s'.porig = s.porig) (e8 : s'.retrQ = s.retrQ) (e9 : s'.busy = s.busy)
    (e10 : s'.emitQ = s.emitQ) (e11 : s'.reordQ = s.reordQ) (e12 : s'.orphans = s.orphans)
    (e13 : s'.head = s.head) :
    SI c s' := by
  obtain ⟨a1, a2, a3, a4, a5, a6, a7, a8, a9, a10, a11, a12, a13⟩ := h
  refine ⟨?_, ?_, ?_, ?_, ?_, ?_, ?_, ?_, ?_, ?_, ?_, ?_, ?_⟩
  · simpa [expect, future, e1, e2, e3, e4] using a1
  · simpa [e4] using a2
  · simpa [e4, e5, e6, e7] using a3
  · simpa [e5, e6] using a4
  · simpa [mcount, e8, e9] using a5
  · simpa [mcount, e5, e6, e8, e9] using a6
  · simpa [e4, e8] using a7
  · simpa [e4, e9] using a8
  · simpa [e10] using a9
  · simpa [e11] using a10
  · simpa [e12, e3, ubOK, headOffs, e13] using a11
  · simpa [e3, e6] using a12
  · simpa [e3, e4, headOffs, e13] using a13


/-! ### steps that do not touch what `SI` reads -/

theorem SI_rTake {c : Cfg} {s s' : State} (h : SI c s) (hs : stepRTake s = some s') : SI c s' ∧ s'.failed = s.failed := by
  unfold stepRTake at hs; split at hs <;> simp at hs; subst hs
  exact ⟨SI_congr h rfl rfl rfl rfl rfl rfl rfl rfl rfl rfl rfl rfl rfl, rfl⟩

theorem SI_rQuit {c : Cfg} {s s' : State} (h : SI c s) (hs : stepRQuit s = some s') : SI c s' ∧ s'.failed = s.failed := by
  unfold stepRQuit at hs; split at hs <;> simp at hs; subst hs
  exact ⟨SI_congr h rfl rfl rfl rfl rfl rfl rfl rfl rfl rfl rfl rfl rfl, rfl⟩

theorem SI_rBlock {c : Cfg} {s s' : State} (h : SI c s) (hs : stepRBlock c s = some s') : SI c s' ∧ s'.failed = s.failed := by
  unfold stepRBlock at hs; split at hs
  · dsimp only at hs; split at hs <;> simp at hs <;> subst hs <;>
      exact ⟨SI_congr h rfl rfl rfl rfl rfl rfl rfl rfl rfl rfl rfl rfl rfl, rfl⟩
  · simp at hs

theorem SI_rEmpty {c : Cfg} {s s' : State} (h : SI c s) (hs : stepREmpty c s = some s') : SI c s' ∧ s'.failed = s.failed := by
  unfold stepREmpty at hs; split at hs <;> simp at hs; subst hs
  exact ⟨SI_congr h rfl rfl rfl rfl rfl rfl rfl rfl rfl rfl rfl rfl rfl, rfl⟩

theorem SI_rEof {c : Cfg} {s s' : State} (h : SI c s) (hs : stepREof s = some s') : SI c s' ∧ s'.failed = s.failed := by
  unfold stepREof at hs; split at hs <;> simp at hs; subst hs
  exact ⟨SI_congr h rfl rfl rfl rfl rfl rfl rfl rfl rfl rfl rfl rfl rfl, rfl⟩

theorem SI_wDone {c : Cfg} {s s' : State} (h : SI c s) (hs : stepWDone s = some s') : SI c s' ∧ s'.failed = s.failed := by
  unfold stepWDone at hs; split at hs <;> simp at hs; subst hs
  exact ⟨SI_congr h rfl rfl rfl rfl rfl rfl rfl rfl rfl rfl rfl rfl rfl, rfl⟩

theorem SI_detach {c : Cfg} {s : State} (k : Option Nat) (h : SI c s) : SI c (detach s k) := by
  unfold detach; split
  · exact h
  · split
    · exact SI_congr h rfl rfl rfl rfl rfl rfl rfl rfl rfl rfl rfl rfl rfl
    · exact h

/-! ### parseStart -/

theorem select_parse {c : Cfg} {s : State} (h : selectTask c s = some "parse") :
    s.ptok = true ∧ s.pdone = false := by
  have := select_guard h
  simp [guardOf, dCanParse, view] at this
  exact ⟨this.1.1.2, this.1.1.1⟩

theorem SI_parseStart {c : Cfg} {s s' : State} (h : SI c s) (hs : stepParseStart c s = some s') :
    SI c s' ∧ s'.failed = s.failed := by
  unfold stepParseStart at hs; split at hs
  · next hg =>
    simp only [Bool.and_eq_true, beq_iff_eq] at hg
    obtain ⟨⟨_, hsel⟩, hpp⟩ := hg
    have ht := (select_parse hsel).1
    have hd := (select_parse hsel).2
    simp at hs; subst hs
    obtain ⟨a1, a2, a3, a4, a5, a6, a7, a8, a9, a10, a11, a12, a13⟩ := h
    refine ⟨⟨a1, a2, ?_, ?_, a5, ?_, a7, a8, a9, a10, a11, ?_, a13⟩, rfl⟩
    · intro _; exact a3 (Or.inl ht)
    · intro hh; simp at hh
    · intro _; exact a6 (Or.inl ht)
    · intro _; exact hd
  · simp at hs

/-! ### queue shuffles: retrStart, retrPost, emitStart, emitEnd, scanStart -/

theorem jobOK_corrupt {c : Cfg} {g : Nat} {j : Job} (b : Bool) (h : jobOK c g j) :
    jobOK c g { j with corrupt := b } := h

theorem mcount_retrStart {s : State} {j j' : Job} {k : Option Nat} (hj : j ∈ s.retrQ)
    (hm : Job.mc j' = Job.mc j) :
    mcount { s with retrQ := s.retrQ.erase j, busy := .retr j' k :: s.busy } = mcount s := by
  simp only [mcount, List.countP_cons]
  have := countP_erase_add Job.mc hj
  simp only [Phase.mc, hm]
  omega

theorem SI_retrStart {c : Cfg} {s s' : State} {j : Job} (h : SI c s)
    (hs : stepRetrStart c s j = some s') : SI c s' ∧ s'.failed = s.failed := by
  unfold stepRetrStart at hs; split at hs
  · next hg =>
    simp only [Bool.and_eq_true, List.contains_iff_mem] at hg
    have hj : j ∈ s.retrQ := hg.1.2
    simp only [Option.some.injEq] at hs; subst hs
    obtain ⟨a1, a2, a3, a4, a5, a6, a7, a8, a9, a10, a11, a12, a13⟩ := h
    refine ⟨⟨a1, a2, a3, a4, ?_, ?_, ?_, ?_, a9, a10, a11, a12, a13⟩, rfl⟩
    · rw [mcount_retrStart hj]
      · exact a5
      · rfl
    · intro hh
      rw [mcount_retrStart hj]
      · exact a6 hh
      · rfl
    · intro x hx; exact a7 x (List.mem_of_mem_erase hx)
    · intro ph hph
      rcases List.mem_cons.1 hph with e | hm
      · subst e; exact jobOK_corrupt _ (a7 j hj)
      · exact a8 ph hm
  · simp at hs

theorem SI_retrPost {c : Cfg} {s s' : State} {e : EJob} (h : SI c s)
    (hs : stepRetrPost s e = some s') : SI c s' ∧ s'.failed = s.failed := by
  unfold stepRetrPost at hs; split at hs
  · next hg =>
    have hm : Phase.retr2 e ∈ s.busy := by simpa using hg
    simp at hs; subst hs
    obtain ⟨a1, a2, a3, a4, a5, a6, a7, a8, a9, a10, a11, a12, a13⟩ := h
    have hc : mcount { s with busy := s.busy.erase (.retr2 e), emitQ := e :: s.emitQ } ≤ mcount s := by
      simp only [mcount]
      have := countP_erase_le Phase.mc (.retr2 e) s.busy
      omega
    refine ⟨⟨a1, a2, a3, a4, Nat.le_trans hc a5, ?_, a7, ?_, ?_, a10, a11, a12, a13⟩, rfl⟩
    · intro hh; have := a6 hh; omega
    · intro ph hph; exact a8 ph (List.mem_of_mem_erase hph)
    · intro x hx
      rcases List.mem_cons.1 hx with e' | hm'
      · subst e'; exact a8 _ hm
      · exact a9 x hm'
  · simp at hs

theorem SI_emitStart {c : Cfg} {s s' : State} {e : EJob} (h : SI c s)
    (hs : stepEmitStart c s e = some s') : SI c s' ∧ s'.failed = s.failed := by
  unfold stepEmitStart at hs; split at hs
  · next hg =>
    simp only [Bool.and_eq_true, List.contains_iff_mem] at hg
    have hm : e ∈ s.emitQ := hg.1.2
    simp at hs; subst hs
    obtain ⟨a1, a2, a3, a4, a5, a6, a7, a8, a9, a10, a11, a12, a13⟩ := h
    have hc : mcount { s with outSlots := s.outSlots - 1, emitQ := s.emitQ.erase e,
                              busy := .emit e :: s.busy } = mcount s := by
      simp [mcount, List.countP_cons, Phase.mc]
    refine ⟨⟨a1, a2, a3, a4, ?_, ?_, a7, ?_, ?_, a10, a11, a12, a13⟩, rfl⟩
    · rw [hc]; exact a5
    · intro hh; rw [hc]; exact a6 hh
    · intro ph hph
      rcases List.mem_cons.1 hph with e' | hm'
      · subst e'; exact a9 e hm
      · exact a8 ph hm'
    · intro x hx; exact a9 x (List.mem_of_mem_erase hx)
  · simp at hs

theorem SI_emitEnd {c : Cfg} {s s' : State} {e : EJob} (h : SI c s)
    (hs : stepEmitEnd s e = some s') : SI c s' ∧ s'.failed = s.failed := by
  unfold stepEmitEnd at hs; split at hs
  · next hg =>
    have hm : Phase.emit e ∈ s.busy := by simpa using hg
    obtain ⟨a1, a2, a3, a4, a5, a6, a7, a8, a9, a10, a11, a12, a13⟩ := h
    have he : ejOK c e := a8 _ hm
    have hcnt : List.countP Phase.mc (s.busy.erase (.emit e)) ≤ List.countP Phase.mc s.busy :=
      countP_erase_le _ _ _
    obtain ⟨e1, e2, e3⟩ := he
    dsimp only at hs
    split at hs
    · next hl =>
      simp at hs; subst hs
      refine ⟨⟨a1, a2, a3, a4, ?_, ?_, a7, ?_, ?_, ?_, a11, a12, a13⟩, rfl⟩
      · simp only [mcount] at a5 ⊢; omega
      · intro hh; have := a6 hh; simp only [mcount] at this ⊢; omega
      · intro ph hph; exact a8 ph (List.mem_of_mem_erase hph)
      · intro x hx
        rcases List.mem_cons.1 hx with e' | hm'
        · subst e'
          cases hok : (rres c e.base).ok with
          | true => have := e2 hok; exact ⟨by simp; omega, fun _ => ⟨by simp; omega, this.2⟩, fun h' => by simp [hok] at h'⟩
          | false => have := e3 hok; omega
        · exact a9 x hm'
      · intro o ho
        rcases List.mem_cons.1 ho with e' | hm'
        · subst e'
          cases hok : (rres c e.base).ok with
          | true => have := e2 hok; exact ⟨hok, by simp; omega⟩
          | false => have := e3 hok; omega
        · exact a10 o hm'
    · next hl =>
      simp at hs; subst hs
      have hl1 : e.left = 1 := by omega
      refine ⟨⟨a1, a2, a3, a4, ?_, ?_, a7, ?_, a9, ?_, a11, a12, a13⟩, rfl⟩
      · simp only [mcount] at a5 ⊢; omega
      · intro hh; have := a6 hh; simp only [mcount] at this ⊢; omega
      · intro ph hph; exact a8 ph (List.mem_of_mem_erase hph)
      · intro o ho
        rcases List.mem_cons.1 ho with e' | hm'
        · subst e'
          cases hok : (rres c e.base).ok with
          | true =>
            have := e2 hok
            cases hek : e.ok with
            | true => simp only [obOK, hek, if_true]; exact ⟨hok, by rw [← this.2]; exact hek, by omega⟩
            | false => simp only [obOK, hek]; exact Or.inr ⟨by rw [← this.2]; exact hek, by omega⟩
          | false =>
            have := e3 hok
            simp only [obOK, this.2]; exact Or.inl hok
        · exact a10 o hm'
  · simp at hs

theorem SI_scanStart {c : Cfg} {s s' : State} {sp : Nat} (h : SI c s)
    (hs : stepScanStart c s sp = some s') : SI c s' ∧ s'.failed = s.failed := by
  unfold stepScanStart at hs; split at hs
  · simp at hs; subst hs
    obtain ⟨a1, a2, a3, a4, a5, a6, a7, a8, a9, a10, a11, a12, a13⟩ := h
    refine ⟨⟨a1, a2, a3, a4, ?_, ?_, a7, ?_, a9, a10, a11, a12, a13⟩, rfl⟩
    · simpa [mcount, List.countP_cons, Phase.mc] using a5
    · intro hh; simpa [mcount, List.countP_cons, Phase.mc] using a6 hh
    · intro ph hph
      rcases List.mem_cons.1 hph with e' | hm'
      · subst e'; trivial
      · exact a8 ph hm'
  · simp at hs


/-! ### reorder: the only place where the sink is written -/

theorem blockOut_more {c : Cfg} {b i : Nat} (h1 : (rres c b).ok = true)
    (h2 : i + 1 < (rres c b).nb) :
    blockOut c b i = ((b, i) :: (blockOut c b (i + 1)).1, (blockOut c b (i + 1)).2) := by
  unfold blockOut; simp only [h1, if_true]
  split
  · have : (rres c b).nb - i = ((rres c b).nb - (i + 1)) + 1 := by omega
    rw [this, bufs_succ]
  · have : (rres c b).nb - 1 - i = ((rres c b).nb - 1 - (i + 1)) + 1 := by omega
    rw [this, bufs_succ]

theorem blockOut_ok {c : Cfg} {b i : Nat} (h1 : (rres c b).ok = true) (h2 : (rres c b).fin = true)
    (h3 : i + 1 = (rres c b).nb) : blockOut c b i = ([(b, i)], true) := by
  unfold blockOut; simp only [h1, h2, if_true]
  have : (rres c b).nb - i = 0 + 1 := by omega
  rw [this, bufs_succ, bufs_zero]

theorem blockOut_err {c : Cfg} {b i : Nat}
    (h : (rres c b).ok = false ∨ ((rres c b).fin = false ∧ i + 1 = (rres c b).nb)) :
    blockOut c b i = ([], false) := by
  unfold blockOut
  rcases h with h | ⟨h1, h2⟩
  · simp [h]
  · cases hok : (rres c b).ok with
    | false => simp [hok]
    | true =>
      have : (rres c b).nb - 1 - i = 0 := by omega
      simp [hok, h1, this, bufs_zero]

theorem reorder_head {c : Cfg} {s : State} {ob : OB}
    (hsel : selectTask c s = some "reorder")
    (hmin : minKey? (s.reordQ.map OB.key) = some ob.key)
    (hb : dReorderBogus (view c s) = false) :
    ∃ r, s.orderQ = (ob.base, ob.idx) :: r := by
  have hc := select_reorder hsel
  cases hq : s.orderQ with
  | nil => simp [dReorderBogus, view, hq] at hb
  | cons x r =>
    simp only [dReorderBogus, view, hq, hmin, List.isEmpty_cons, List.head?_cons,
      Bool.false_or] at hb
    simp only [dCanReorder, view, hq, hmin, List.isEmpty_cons, List.head?_cons] at hc
    simp only [Bool.not_false, Bool.true_and, Bool.false_and, Bool.or_false, Bool.and_eq_true] at hc
    have := posLe_not_posLt_eq hc.2 hb
    exact ⟨r, by rw [← this]; rfl⟩

theorem Good_reorder {c : Cfg} {s s' : State} {ob : OB} (h : SI c s) (hf : s.failed = false)
    (hs : stepReorder c s ob = some s') : Good c s' := by
  unfold stepReorder at hs; split at hs
  · next hg =>
    simp only [Bool.and_eq_true, List.contains_iff_mem, beq_iff_eq] at hg
    obtain ⟨⟨⟨_, hsel⟩, hmem⟩, hmin⟩ := hg
    obtain ⟨a1, a2, a3, a4, a5, a6, a7, a8, a9, a10, a11, a12, a13⟩ := h
    have hob := a10 ob hmem
    split at hs
    · -- bogus: dropped without reaching the sink
      simp only [Option.some.injEq] at hs; subst hs
      simp only [Good, hf]
      exact ⟨a1, a2, a3, a4, a5, a6, a7, a8, a9,
        fun o ho => a10 o (List.mem_of_mem_erase ho), a11, a12, a13⟩
    · next hb =>
      have hb' : dReorderBogus (view c s) = false := by simpa using hb
      obtain ⟨r, hr⟩ := reorder_head hsel hmin hb'
      have hm : seqRun c = (s.written ++ (orderOut c ((ob.base, ob.idx) :: r) (future c s)).1,
          (orderOut c ((ob.base, ob.idx) :: r) (future c s)).2) := by
        simpa [expect, hr] using a1
      split at hs
      · next hst =>
        -- error buffer at the head of order_q: failf
        simp only [Option.some.injEq] at hs; subst hs
        simp only [Good, if_true]
        have hbo := blockOut_err (c := c) (b := ob.base) (i := ob.idx) (by simpa [obOK, hst] using hob)
        simp only [orderOut, hbo] at hm
        simp only [Bool.false_eq_true, if_false, List.append_nil] at hm
        exact ⟨by rw [hm], by rw [hm]; exact List.prefix_refl _⟩
      · next hst =>
        simp only [Option.some.injEq] at hs; subst hs
        simp only [Good, hf]
        have hob' : (rres c ob.base).ok = true ∧ ob.idx + 1 < (rres c ob.base).nb := by
          simpa [obOK, hst] using hob
        have hbo := blockOut_more hob'.1 hob'.2
        refine ⟨?_, a2, a3, a4, a5, a6, a7, a8, a9,
          fun o ho => a10 o (List.mem_of_mem_erase ho), a11, a12, a13⟩
        simp only [expect, hr, future, OB.key] at hm ⊢
        rw [hm]
        simp only [orderOut, hbo]
        split <;> simp
      · next hst =>
        simp only [Option.some.injEq] at hs; subst hs
        simp only [Good, hf]
        have hob' : (rres c ob.base).ok = true ∧ (rres c ob.base).fin = true ∧
            ob.idx + 1 = (rres c ob.base).nb := by simpa [obOK, hst] using hob
        have hbo := blockOut_ok hob'.1 hob'.2.1 hob'.2.2
        refine ⟨?_, a2, a3, a4, a5, a6, a7, a8, a9,
          fun o ho => a10 o (List.mem_of_mem_erase ho), a11, a12, a13⟩
        simp only [expect, hr, future, OB.key, List.tail_cons] at hm ⊢
        rw [hm]
        simp only [orderOut, hbo]
        simp
  · simp at hs

end LbzVerif.Lemmas.SchedD
