/-
  Capacity of `unord_q`
  (`pqueue_init(unord_q, work_units + out_slots > UNORD_THRESH ?
                 work_units + out_slots - UNORD_THRESH : 0)`):

      |unord_q| ≤ num_worker + total_out_slots - 3      (0 < W, 1 ≤ n, 2 < total_out)

  Every entry of unord_q is backed by a work unit (a live speculative retrieve
  job, or an emit job of its finished block) or by an output slot (a buffer of
  its finished block waiting in reord_q); speculative things never hold the
  last work unit (SCAN_THRESH) nor the last two output slots (EMIT_THRESH).

  Part 1 (this file): definitions, the counting argument
  (`unord_cap_of_KI`), the frame lemmas and all transitions except `retrEnd` /
  `parseEnd`.  Part 2 (`UnordCap2`): those two and the theorem `unord_cap`.
-/
import LbzVerif.Lemmas.SchedD.Uniq2
import LbzVerif.Lemmas.SchedD.OrderCap

namespace LbzVerif.Lemmas.SchedD
open LbzVerif.Model.SchedD LbzVerif.Gen

namespace UCap

/-! ### definitions -/

/-- "not speculative": the base is not the base of a finished-but-unconfirmed block -/
def nsB (ob : List Nat) (x : Nat) : Bool := !ob.contains x
/-- "speculative" -/
def spB (ob : List Nat) (x : Nat) : Bool := ob.contains x

theorem nsB_iff {ob : List Nat} {x : Nat} : nsB ob x = true ↔ x ∉ ob := by
  simp [nsB]

theorem spB_iff {ob : List Nat} {x : Nat} : spB ob x = true ↔ x ∈ ob := by
  simp [spB]

theorem sp_add_ns (ob : List Nat) (x : Nat) :
    (if spB ob x then 1 else 0) + (if nsB ob x then 1 else 0) = 1 := by
  unfold spB nsB; cases ob.contains x <;> rfl

theorem not_sp_eq_ns (ob : List Nat) (x : Nat) : (!spB ob x) = nsB ob x := rfl

/-- the retrieve job's entry is not in unord_q (master, flagged, confirmed) -/
def jnq (j : Job) : Bool := !Job.inq j
def pnq : Phase → Bool
  | .retr j _ => !Job.inq j
  | _ => false
def isRetr : Phase → Bool
  | .retr _ _ => true
  | _ => false
/-- the worker holds an emit job -/
def isEJ : Phase → Bool
  | .retr2 _ => true
  | .emit _ => true
  | _ => false
def ejns (ob : List Nat) (e : EJob) : Bool := nsB ob e.base
def ejsp (ob : List Nat) (e : EJob) : Bool := spB ob e.base
def obns (ob : List Nat) (o : OB) : Bool := nsB ob o.base
def obsp (ob : List Nat) (o : OB) : Bool := spB ob o.base
def pens (ob : List Nat) : Phase → Bool
  | .retr2 e => nsB ob e.base
  | .emit e => nsB ob e.base
  | _ => false
def pesp (ob : List Nat) : Phase → Bool
  | .retr2 e => spB ob e.base
  | .emit e => spB ob e.base
  | _ => false
def pebns (ob : List Nat) : Phase → Bool
  | .emit e => nsB ob e.base
  | _ => false

/-- retrieve jobs whose entry is not in unord_q -/
def Mq (s : State) : Nat := s.retrQ.countP jnq + s.busy.countP pnq
/-- emit jobs of blocks that are not finished-but-unconfirmed -/
def Ens (ob : List Nat) (s : State) : Nat := s.emitQ.countP (ejns ob) + s.busy.countP (pens ob)
def EBns (ob : List Nat) (s : State) : Nat := s.busy.countP (pebns ob)
def Ons (ob : List Nat) (s : State) : Nat := s.reordQ.countP (obns ob)

/-- work units that are free or held by something non-speculative -/
def pp (s : State) : Nat := s.pphase.isSome.toNat
def RS (ob : List Nat) (s : State) : Nat := s.wu + pp s + Mq s + Ens ob s
/-- output slots that are free or held by something non-speculative -/
def SS (ob : List Nat) (s : State) : Nat := s.outSlots + s.outq + EBns ob s + Ons ob s

/-- a master-capable retrieve job exists -/
def HasMc (s : State) : Prop := ∃ j, JIn s j ∧ Job.mc j = true

/-- the part of the invariant about positions and ownership -/
structure KG (s : State) : Prop where
  /-- a finished unconfirmed block still has an emit job or a buffer -/
  g   : ∀ u ∈ s.orphans, ItemBase s u.base
  ox  : s.pdone = false → ∀ u ∈ s.orphans, ∀ b i, (b, i) ∈ s.orderQ → b < u.base
  oxj : s.pdone = false → ∀ j, JIn s j → Job.inq j = true → ∀ b i, (b, i) ∈ s.orderQ → b < j.base

/-- the invariant -/
structure KI (c : Cfg) (s : State) : Prop where
  kg : KG s
  /-- one work unit is free or held by something non-speculative -/
  r  : 1 ≤ RS (orphanBases s) s
  /-- two output slots are free or held by something non-speculative -/
  sl : 2 ≤ SS (orphanBases s) s
  /-- the parse token is somewhere -/
  tk : s.ptok = false → s.pphase.isSome = true ∨ HasMc s

/-! ### counting lemmas -/

theorem countP_cons' {α} (p : α → Bool) (a : α) (l : List α) :
    (a :: l).countP p = l.countP p + (p a).toNat := by
  rw [List.countP_cons]; cases p a <;> rfl

theorem countP_erase' {α} [BEq α] [LawfulBEq α] (p : α → Bool) {a : α} {l : List α}
    (h : a ∈ l) : List.countP p (l.erase a) + (p a).toNat = List.countP p l := by
  have := countP_erase_add p h
  cases hp : p a <;> simp [hp] at this ⊢ <;> omega

theorem pp_eq (s : State) : pp s = if s.pphase.isSome then 1 else 0 := by
  unfold pp; cases s.pphase.isSome <;> rfl

theorem countP_add_of {α} (p q r : α → Bool)
    (h : ∀ x, (if p x then 1 else 0) + (if q x then 1 else 0) = (if r x then 1 else 0))
    (l : List α) : l.countP p + l.countP q = l.countP r := by
  induction l with
  | nil => rfl
  | cons x xs ih =>
    simp only [List.countP_cons]
    have := h x
    omega

theorem countP_add_le_length {α} (p q : α → Bool) (h : ∀ x, p x = true → q x = true → False)
    (l : List α) : l.countP p + l.countP q ≤ l.length := by
  induction l with
  | nil => simp
  | cons x xs ih =>
    simp only [List.countP_cons, List.length_cons]
    have := h x
    cases hp : p x <;> cases hq : q x <;> simp_all <;> omega

theorem countP_le_of_imp {α} (p q : α → Bool) (l : List α) (h : ∀ x ∈ l, p x = true → q x = true) :
    l.countP p ≤ l.countP q :=
  List.countP_mono_left h

theorem countP_eq_of {α} (p q : α → Bool) (l : List α) (h : ∀ x ∈ l, p x = q x) :
    l.countP p = l.countP q := by
  induction l with
  | nil => rfl
  | cons x xs ih =>
    simp only [List.countP_cons]
    rw [h x List.mem_cons_self, ih (fun y hy => h y (List.mem_cons_of_mem _ hy))]

/-- bases of the emit jobs held by busy workers -/
def pItem : Phase → List Nat
  | .retr2 e => [e.base]
  | .emit e => [e.base]
  | _ => []

theorem countP_flatMap_pItem (ob : List Nat) (l : List Phase) :
    ((l.flatMap pItem).filter (spB ob)).length = l.countP (pesp ob) := by
  induction l with
  | nil => rfl
  | cons x xs ih =>
    simp only [List.flatMap_cons, List.filter_append, List.length_append, List.countP_cons, ih]
    cases x with
    | retr j k => simp [pItem, pesp]
    | retr2 e =>
      simp only [pItem, pesp, List.filter_cons, List.filter_nil]
      by_cases h : spB ob e.base = true <;> simp [h] <;> omega
    | emit e =>
      simp only [pItem, pesp, List.filter_cons, List.filter_nil]
      by_cases h : spB ob e.base = true <;> simp [h] <;> omega
    | scan a b => simp [pItem, pesp]

/-- all item bases -/
def itemBases (s : State) : List Nat :=
  s.emitQ.map (·.base) ++ s.busy.flatMap pItem ++ s.reordQ.map (·.base)

theorem mem_itemBases {s : State} {y : Nat} (h : ItemBase s y) : y ∈ itemBases s := by
  simp only [itemBases, List.mem_append, List.mem_map, List.mem_flatMap]
  rcases h with ⟨e, he | he | he, rfl⟩ | ⟨o, ho, rfl⟩
  · exact Or.inl (Or.inl ⟨e, he, rfl⟩)
  · exact Or.inl (Or.inr ⟨_, he, by simp [pItem]⟩)
  · exact Or.inl (Or.inr ⟨_, he, by simp [pItem]⟩)
  · exact Or.inr ⟨o, ho, rfl⟩

theorem length_filter_map {α} (q : Nat → Bool) (f : α → Nat) (l : List α) :
    ((l.map f).filter q).length = l.countP (fun x => q (f x)) := by
  induction l with
  | nil => rfl
  | cons x xs ih =>
    simp only [List.map_cons, List.filter_cons, List.countP_cons]
    split <;> simp [ih]

/-- pigeonhole: finished-but-unconfirmed blocks with pairwise different bases,
    each with an item of its own base -/
theorem orphans_le_spec {s : State} (hn : (orphanBases s).Nodup)
    (hg : ∀ u ∈ s.orphans, ItemBase s u.base) :
    s.orphans.length ≤ s.emitQ.countP (ejsp (orphanBases s)) + s.busy.countP (pesp (orphanBases s))
      + s.reordQ.countP (obsp (orphanBases s)) := by
  have hlen : (orphanBases s).length = s.orphans.length := by
    rw [orphanBases_eq_map, List.length_map]
  have h1 := nodup_subset_length_le (orphanBases s)
    ((itemBases s).filter (spB (orphanBases s))) hn (by
      intro b hb
      obtain ⟨u, hu, rfl⟩ := mem_orphanBases.1 hb
      exact List.mem_filter.2 ⟨mem_itemBases (hg u hu), spB_iff.2 hb⟩)
  have h2 : ((itemBases s).filter (spB (orphanBases s))).length
      = s.emitQ.countP (ejsp (orphanBases s)) + s.busy.countP (pesp (orphanBases s))
        + s.reordQ.countP (obsp (orphanBases s)) := by
    simp only [itemBases, List.filter_append, List.length_append, length_filter_map,
      countP_flatMap_pItem]
    rfl
  omega

/-! ### the counting argument -/

theorem unordCapOf_eq {c : Cfg} (hn : 1 ≤ c.n) (ho : EMIT_THRESH < c.totalOut) :
    unordCapOf c = c.n + c.totalOut - 3 := by
  have : 2 < c.totalOut := ho
  unfold unordCapOf unordCap UNORD_THRESH
  split
  · rfl
  · next h => simp at h; omega

theorem unord_cap_of_KI {c : Cfg} (hn : 1 ≤ c.n) (ho : EMIT_THRESH < c.totalOut) {s : State}
    (hK : KI c s) (hC : CI c s) (hL : LI c s) (hU : (orphanBases s).Nodup) :
    unordSize s ≤ unordCapOf c := by
  rw [unordCapOf_eq hn ho]
  have ho' : 2 < c.totalOut := ho
  -- orphans: all in unord_q
  have e1 : s.orphans.countP (·.f.inq) = s.orphans.length :=
    List.countP_eq_length.2 (fun u hu => (hL.oc u hu).1)
  -- retrieve jobs
  have e2 : s.retrQ.countP Job.inq + s.retrQ.countP jnq = s.retrQ.length := by
    have := List.length_eq_countP_add_countP Job.inq (l := s.retrQ)
    have e : s.retrQ.countP (fun a => decide ¬Job.inq a = true) = s.retrQ.countP jnq :=
      countP_eq_of _ _ _ (fun x _ => by simp [jnq])
    omega
  have e3 : s.busy.countP Phase.inq + s.busy.countP pnq = s.busy.countP isRetr :=
    countP_add_of _ _ _ (fun ph => by
      cases ph with
      | retr j k => cases h : Job.inq j <;> simp [Phase.inq, pnq, isRetr, h]
      | retr2 e => simp [Phase.inq, pnq, isRetr]
      | emit e => simp [Phase.inq, pnq, isRetr]
      | scan a b => simp [Phase.inq, pnq, isRetr]) _
  -- emit jobs and buffers: speculative + non-speculative
  have e4 : s.emitQ.countP (ejsp (orphanBases s)) + s.emitQ.countP (ejns (orphanBases s))
      = s.emitQ.length := by
    have := List.length_eq_countP_add_countP (ejsp (orphanBases s)) (l := s.emitQ)
    have e : s.emitQ.countP (fun a => decide ¬ejsp (orphanBases s) a = true)
        = s.emitQ.countP (ejns (orphanBases s)) :=
      countP_eq_of _ _ _ (fun x _ => by simp [ejsp, ejns, ← not_sp_eq_ns])
    omega
  have e5 : s.busy.countP (pesp (orphanBases s)) + s.busy.countP (pens (orphanBases s))
      = s.busy.countP isEJ :=
    countP_add_of _ _ _ (fun ph => by
      cases ph with
      | retr j k => simp [pesp, pens, isEJ]
      | retr2 e => exact sp_add_ns _ _
      | emit e => exact sp_add_ns _ _
      | scan a b => simp [pesp, pens, isEJ]) _
  have e6 : s.reordQ.countP (obsp (orphanBases s)) + s.reordQ.countP (obns (orphanBases s))
      = s.reordQ.length := by
    have := List.length_eq_countP_add_countP (obsp (orphanBases s)) (l := s.reordQ)
    have e : s.reordQ.countP (fun a => decide ¬obsp (orphanBases s) a = true)
        = s.reordQ.countP (obns (orphanBases s)) :=
      countP_eq_of _ _ _ (fun x _ => by simp [obsp, obns, ← not_sp_eq_ns])
    omega
  have e7 : s.busy.countP isRetr + s.busy.countP isEJ ≤ s.busy.length :=
    countP_add_le_length _ _ (fun ph h1 h2 => by cases ph <;> simp [isRetr, isEJ] at h1 h2) _
  have e8 : s.busy.countP (pebns (orphanBases s)) ≤ s.busy.countP isEmit :=
    countP_le_of_imp _ _ _ (fun ph _ h => by cases ph <;> simp [pebns, isEmit] at h ⊢)
  have e9 := orphans_le_spec hU hK.kg.g
  have hw := hC.wuC
  have hs := hC.osC
  rw [emitBusy_eq] at hs
  have hr := hK.r
  have hsl := hK.sl
  simp only [RS, SS, Mq, Ens, EBns, Ons, pp_eq] at hr hsl
  simp only [busyCount] at hw
  simp only [unordSize]
  omega

/-! ### frames -/

/-- `s'` is `s` with jobs / orphans / items moved, removed or re-flagged; no
    new orphan, no new entry of unord_q, no new entry of order_q; an item of a
    (remaining) finished-but-unconfirmed block stays -/
structure KF (s s' : State) : Prop where
  ob : ∀ y ∈ orphanBases s', y ∈ orphanBases s
  it : ∀ y ∈ orphanBases s', ItemBase s y → ItemBase s' y
  ji : ∀ j', JIn s' j' → Job.inq j' = true → ∃ j, JIn s j ∧ Job.inq j = true ∧ j.base = j'.base
  oq : ∀ b i, (b, i) ∈ s'.orderQ → ∃ i', (b, i') ∈ s.orderQ
  pd : s'.pdone = false → s.pdone = false

theorem KF.refl (s : State) : KF s s :=
  ⟨fun _ h => h, fun _ _ h => h, fun j hj hi => ⟨j, hj, hi, rfl⟩, fun _ i h => ⟨i, h⟩, fun h => h⟩

theorem KF.trans {s s' s'' : State} (f : KF s s') (g : KF s' s'') : KF s s'' := by
  refine ⟨fun y hy => f.ob y (g.ob y hy), ?_, ?_, ?_, fun h => f.pd (g.pd h)⟩
  · intro y hy hi
    exact g.it y hy (f.it y (g.ob y hy) hi)
  · intro j'' hj hi
    obtain ⟨j', hj', hi', hb'⟩ := g.ji j'' hj hi
    obtain ⟨j, hj0, hi0, hb⟩ := f.ji j' hj' hi'
    exact ⟨j, hj0, hi0, hb.trans hb'⟩
  · intro b i hi
    obtain ⟨i', hi'⟩ := g.oq b i hi
    exact f.oq b i' hi'

theorem KG_frame {s s' : State} (h : KG s) (f : KF s s') : KG s' := by
  have hob : ∀ u' ∈ s'.orphans, ∃ u ∈ s.orphans, u.base = u'.base := by
    intro u' hu'
    exact mem_orphanBases.1 (f.ob _ (mem_orphanBases.2 ⟨u', hu', rfl⟩))
  refine ⟨?_, ?_, ?_⟩
  · intro u' hu'
    obtain ⟨u, hu, hb⟩ := hob u' hu'
    exact f.it _ (mem_orphanBases.2 ⟨u', hu', rfl⟩) (hb ▸ h.g u hu)
  · intro hd u' hu' b i hi
    obtain ⟨u, hu, hb⟩ := hob u' hu'
    obtain ⟨i', hi'⟩ := f.oq b i hi
    have := h.ox (f.pd hd) u hu b i' hi'
    omega
  · intro hd j' hj' hq b i hi
    obtain ⟨j, hj, hq0, hb⟩ := f.ji j' hj' hq
    obtain ⟨i', hi'⟩ := f.oq b i hi
    have := h.oxj (f.pd hd) j hj hq0 b i' hi'
    omega

/-- the token part of the invariant -/
def TK (s : State) : Prop := s.ptok = false → s.pphase.isSome = true ∨ HasMc s

theorem TK_frame {s s' : State} (h : TK s) (e1 : s'.ptok = false → s.ptok = false)
    (e2 : s.pphase.isSome = true → s'.pphase.isSome = true) (m : HasMc s → HasMc s') : TK s' := by
  intro ht
  rcases h (e1 ht) with hp | hm
  · exact Or.inl (e2 hp)
  · exact Or.inr (m hm)

theorem HasMc_of_JM {s s' : State} (m : JM s s') (h : HasMc s) : HasMc s' := by
  obtain ⟨j, hj, hmc⟩ := h
  exact ⟨j, m j hj, hmc⟩

/-! ### monotonicity in the set of speculative bases -/

theorem nsB_mono {ob ob' : List Nat} (h : ∀ y ∈ ob', y ∈ ob) {x : Nat} (hx : nsB ob x = true) :
    nsB ob' x = true :=
  nsB_iff.2 (fun hm => nsB_iff.1 hx (h x hm))

theorem Ens_mono {ob ob' : List Nat} (h : ∀ y ∈ ob', y ∈ ob) (s : State) :
    Ens ob s ≤ Ens ob' s := by
  have h1 : s.emitQ.countP (ejns ob) ≤ s.emitQ.countP (ejns ob') :=
    countP_le_of_imp _ _ _ (fun e _ he => nsB_mono h he)
  have h2 : s.busy.countP (pens ob) ≤ s.busy.countP (pens ob') :=
    countP_le_of_imp _ _ _ (fun ph _ hp => by
      cases ph with
      | retr j k => exact hp
      | retr2 e => exact nsB_mono h hp
      | emit e => exact nsB_mono h hp
      | scan a b => exact hp)
  simp only [Ens]; omega

theorem RS_mono {ob ob' : List Nat} (h : ∀ y ∈ ob', y ∈ ob) (s : State) : RS ob s ≤ RS ob' s := by
  have := Ens_mono h s
  simp only [RS]; omega

theorem SS_mono {ob ob' : List Nat} (h : ∀ y ∈ ob', y ∈ ob) (s : State) : SS ob s ≤ SS ob' s := by
  have h1 : s.busy.countP (pebns ob) ≤ s.busy.countP (pebns ob') :=
    countP_le_of_imp _ _ _ (fun ph _ hp => by
      cases ph with
      | retr j k => exact hp
      | retr2 e => exact hp
      | emit e => exact nsB_mono h hp
      | scan a b => exact hp)
  have h2 : s.reordQ.countP (obns ob) ≤ s.reordQ.countP (obns ob') :=
    countP_le_of_imp _ _ _ (fun o _ ho => nsB_mono h ho)
  simp only [SS, EBns, Ons]; omega

/-! ### generic sub-functions -/

theorem detach_cases (s : State) (k : Option Nat) :
    detach s k = s ∨ detach s k = { s with inSlots := s.inSlots + 1 } := by
  unfold detach; split
  · exact Or.inl rfl
  · split
    · exact Or.inr rfl
    · exact Or.inl rfl

theorem KF_same {s s' : State} (e1 : s'.retrQ = s.retrQ) (e2 : s'.orphans = s.orphans)
    (e3 : s'.busy = s.busy) (e4 : s'.emitQ = s.emitQ) (e5 : s'.reordQ = s.reordQ)
    (e6 : s'.orderQ = s.orderQ) (e7 : s'.pdone = s.pdone ∨ s'.pdone = true) : KF s s' := by
  refine ⟨?_, ?_, ?_, ?_, ?_⟩
  · intro y hy; simpa only [orphanBases, e2] using hy
  · intro y _ hi; simpa only [ItemBase, EIn, e3, e4, e5] using hi
  · intro j hj hi; exact ⟨j, by simpa only [JIn, e1, e3] using hj, hi, rfl⟩
  · intro b i hi; rw [e6] at hi; exact ⟨i, hi⟩
  · intro hd
    rcases e7 with e | e
    · rw [← e]; exact hd
    · rw [e] at hd; cases hd

theorem KF_detach (s : State) (k : Option Nat) : KF s (detach s k) := by
  rcases detach_cases s k with e | e <;> rw [e]
  · exact KF.refl s
  · exact KF_same rfl rfl rfl rfl rfl rfl (Or.inl rfl)

theorem RS_detach (ob : List Nat) (s : State) (k : Option Nat) : RS ob (detach s k) = RS ob s := by
  rcases detach_cases s k with e | e <;> rw [e]
  rfl

theorem SS_detach (ob : List Nat) (s : State) (k : Option Nat) : SS ob (detach s k) = SS ob s := by
  rcases detach_cases s k with e | e <;> rw [e]
  rfl

theorem detach_more (s : State) (k : Option Nat) :
    (detach s k).wu = s.wu ∧ (detach s k).outSlots = s.outSlots ∧ (detach s k).outq = s.outq ∧
    (detach s k).emitQ = s.emitQ ∧ (detach s k).reordQ = s.reordQ ∧ (detach s k).ppos = s.ppos := by
  rcases detach_cases s k with e | e <;> rw [e] <;> exact ⟨rfl, rfl, rfl, rfl, rfl, rfl⟩

/-- removing a busy phase that is not an emit job -/
theorem KF_busy_erase (s : State) {ph : Phase}
    (hn : ∀ e, ph ≠ Phase.retr2 e ∧ ph ≠ Phase.emit e) :
    KF s { s with busy := s.busy.erase ph } := by
  refine ⟨fun _ h => h, ?_, ?_, fun _ i h => ⟨i, h⟩, fun h => h⟩
  · rintro y _ (⟨e, he, rfl⟩ | ⟨o, ho, rfl⟩)
    · exact Or.inl ⟨e, EIn_erase hn he, rfl⟩
    · exact Or.inr ⟨o, ho, rfl⟩
  · rintro j (hq | ⟨k, hk⟩) hi
    · exact ⟨j, Or.inl hq, hi, rfl⟩
    · exact ⟨j, Or.inr ⟨k, List.mem_of_mem_erase hk⟩, hi, rfl⟩

theorem RS_busy_erase (ob : List Nat) {s : State} {ph : Phase} (hm : ph ∈ s.busy) :
    RS ob { s with busy := s.busy.erase ph } + (pnq ph).toNat + (pens ob ph).toNat = RS ob s := by
  have h1 := countP_erase' pnq hm
  have h2 := countP_erase' (pens ob) hm
  simp only [RS, Mq, Ens, pp]
  omega

theorem SS_busy_erase (ob : List Nat) {s : State} {ph : Phase} (hm : ph ∈ s.busy) :
    SS ob { s with busy := s.busy.erase ph } + (pebns ob ph).toNat = SS ob s := by
  have h1 := countP_erase' (pebns ob) hm
  simp only [SS, EBns, Ons]
  omega

theorem countP_filter_le {α} (p q : α → Bool) (l : List α) :
    l.countP p ≤ (l.filter (fun x => !q x)).countP p + (l.filter q).length := by
  induction l with
  | nil => simp
  | cons x xs ih =>
    cases hq : q x <;> cases hp : p x <;>
      simp [hq, hp] <;> omega

theorem KF_advance (c : Cfg) (s : State) (p : Nat) : KF s (advance c s p) := by
  refine ⟨fun _ h => h, fun _ _ h => h, ?_, fun _ i h => ⟨i, h⟩, fun h => h⟩
  rintro j (hq | ⟨k, hk⟩) hi
  · exact ⟨j, Or.inl (List.mem_filter.1 hq).1, hi, rfl⟩
  · exact ⟨j, Or.inr ⟨k, hk⟩, hi, rfl⟩

theorem RS_advance (ob : List Nat) (c : Cfg) (s : State) (p : Nat) :
    RS ob s ≤ RS ob (advance c s p) := by
  have := countP_filter_le jnq (fun j : Job => decide (j.curr < offs c (newHead c s p))) s.retrQ
  simp only [RS, Mq, Ens, pp, advance]
  omega

theorem SS_advance (ob : List Nat) (c : Cfg) (s : State) (p : Nat) :
    SS ob (advance c s p) = SS ob s := rfl

/-- adding a retrieve job -/
theorem KG_addJob {s : State} (jn : Job) (h : KG s)
    (hn : s.pdone = false → Job.inq jn = true → ∀ b i, (b, i) ∈ s.orderQ → b < jn.base) :
    KG { s with retrQ := jn :: s.retrQ } := by
  refine ⟨?_, h.ox, ?_⟩
  · intro u hu
    rcases h.g u hu with ⟨e, he, hb⟩ | ⟨o, ho, hb⟩
    · exact Or.inl ⟨e, he, hb⟩
    · exact Or.inr ⟨o, ho, hb⟩
  · intro hd j hj hi b i hb
    rcases JIn_addJob jn j hj with rfl | hj
    · exact hn hd hi b i hb
    · exact h.oxj hd j hj hi b i hb

theorem RS_addJob (ob : List Nat) (s : State) (jn : Job) :
    RS ob { s with retrQ := jn :: s.retrQ } = RS ob s + (jnq jn).toNat := by
  simp only [RS, Mq, Ens, pp, countP_cons']
  omega

theorem HasMc_addJob {s : State} (jn : Job) (h : HasMc s) :
    HasMc { s with retrQ := jn :: s.retrQ } := by
  obtain ⟨j, hj, hmc⟩ := h
  rcases hj with hq | hk
  · exact ⟨j, Or.inl (List.mem_cons_of_mem _ hq), hmc⟩
  · exact ⟨j, Or.inr hk, hmc⟩

/-- a master-capable job is not in unord_q -/
theorem mc_jnq {c : Cfg} {g : Nat} {j : Job} (hj : jobOK c g j) (hmc : Job.mc j = true) :
    jnq j = true := by
  unfold jnq Job.inq
  unfold Job.mc at hmc
  cases hu : j.ub with
  | none => rfl
  | some f =>
    simp only [hu, Bool.and_eq_true] at hmc ⊢
    cases hi : f.inq with
    | false => rfl
    | true => have := hj.2.2.1 f hu hi; rw [this] at hmc; cases hmc.1

theorem Mq_pos_of_HasMc {c : Cfg} {s : State} (hS : SI c s) (h : HasMc s) : 1 ≤ Mq s := by
  obtain ⟨j, hj, hmc⟩ := h
  rcases hj with hq | ⟨k, hk⟩
  · have : 0 < s.retrQ.countP jnq :=
      List.countP_pos_iff.2 ⟨j, hq, mc_jnq (hS.jobs j hq) hmc⟩
    simp only [Mq]; omega
  · have hj' : jobOK c s.gnext j := hS.busy _ hk
    have : 0 < s.busy.countP pnq :=
      List.countP_pos_iff.2 ⟨_, hk, by
        have := mc_jnq hj' hmc
        simpa [pnq, jnq] using this⟩
    simp only [Mq]; omega

theorem KI_init {c : Cfg} (hn : 1 ≤ c.n) (ho : EMIT_THRESH < c.totalOut) : KI c (init c) := by
  have ho' : 2 < c.totalOut := ho
  refine ⟨⟨?_, ?_, ?_⟩, ?_, ?_, ?_⟩
  · intro u hu; simp [init] at hu
  · intro _ u hu; simp [init] at hu
  · rintro _ j (hj | ⟨k, hk⟩)
    · simp [init] at hj
    · simp [init] at hk
  · simp [RS, Mq, Ens, pp, init]; omega
  · simp [SS, EBns, Ons, init]; omega
  · intro h; simp [init] at h

/-- `KI` only reads these fields -/
theorem KI_congr {c : Cfg} {s s' : State} (h : KI c s)
    (e1 : s'.retrQ = s.retrQ) (e2 : s'.orphans = s.orphans) (e3 : s'.busy = s.busy)
    (e4 : s'.emitQ = s.emitQ) (e5 : s'.reordQ = s.reordQ) (e6 : s'.orderQ = s.orderQ)
    (e7 : s'.pdone = s.pdone) (e8 : s'.ptok = s.ptok) (e9 : s'.pphase = s.pphase)
    (e10 : s'.wu = s.wu) (e11 : s'.outSlots = s.outSlots) (e12 : s'.outq = s.outq) : KI c s' := by
  refine ⟨KG_frame h.kg (KF_same e1 e2 e3 e4 e5 e6 (Or.inl e7)), ?_, ?_, ?_⟩
  · have := h.r
    simpa only [RS, Mq, Ens, pp, orphanBases, e1, e2, e3, e4, e9, e10] using this
  · have := h.sl
    simpa only [SS, EBns, Ons, orphanBases, e2, e3, e5, e11, e12] using this
  · refine TK_frame h.tk (by rw [e8]; exact fun h => h) (by rw [e9]; exact fun h => h)
      (HasMc_of_JM (JM_of_eq e3 e1))

/-! ### simple steps -/

theorem KI_rTake {c : Cfg} {s s' : State} (h : KI c s) (hs : stepRTake s = some s') : KI c s' := by
  unfold stepRTake at hs; split at hs <;> simp at hs; subst hs
  exact KI_congr h rfl rfl rfl rfl rfl rfl rfl rfl rfl rfl rfl rfl

theorem KI_rQuit {c : Cfg} {s s' : State} (h : KI c s) (hs : stepRQuit s = some s') : KI c s' := by
  unfold stepRQuit at hs; split at hs <;> simp at hs; subst hs
  exact KI_congr h rfl rfl rfl rfl rfl rfl rfl rfl rfl rfl rfl rfl

theorem KI_rBlock {c : Cfg} {s s' : State} (h : KI c s) (hs : stepRBlock c s = some s') :
    KI c s' := by
  unfold stepRBlock at hs; split at hs
  · dsimp only at hs; split at hs <;> simp only [Option.some.injEq] at hs <;> subst hs <;>
      exact KI_congr h rfl rfl rfl rfl rfl rfl rfl rfl rfl rfl rfl rfl
  · simp at hs

theorem KI_rEmpty {c : Cfg} {s s' : State} (h : KI c s) (hs : stepREmpty c s = some s') :
    KI c s' := by
  unfold stepREmpty at hs; split at hs <;> simp at hs; subst hs
  exact KI_congr h rfl rfl rfl rfl rfl rfl rfl rfl rfl rfl rfl rfl

theorem KI_rEof {c : Cfg} {s s' : State} (h : KI c s) (hs : stepREof s = some s') : KI c s' := by
  unfold stepREof at hs; split at hs <;> simp at hs; subst hs
  exact KI_congr h rfl rfl rfl rfl rfl rfl rfl rfl rfl rfl rfl rfl

theorem KI_wDone {c : Cfg} {s s' : State} (h : KI c s) (hs : stepWDone s = some s') : KI c s' := by
  unfold stepWDone at hs; split at hs
  · next hg =>
    have hq : 0 < s.outq := by simpa using hg
    simp only [Option.some.injEq] at hs; subst hs
    refine ⟨KG_frame h.kg (KF_same rfl rfl rfl rfl rfl rfl (Or.inl rfl)), h.r, ?_,
      TK_frame h.tk (fun h => h) (fun h => h) (HasMc_of_JM (JM_of_eq rfl rfl))⟩
    have := h.sl
    show 2 ≤ SS (orphanBases s) { s with outq := s.outq - 1, outSlots := s.outSlots + 1 }
    simp only [SS, EBns, Ons] at this ⊢
    omega
  · simp at hs

theorem KI_parseStart {c : Cfg} {s s' : State} (h : KI c s)
    (hs : stepParseStart c s = some s') : KI c s' := by
  unfold stepParseStart at hs; split at hs
  · next hg =>
    simp only [Bool.and_eq_true, beq_iff_eq] at hg
    obtain ⟨⟨_, hsel⟩, hpp⟩ := hg
    have hw := select_parse_wu hsel
    have hpn : s.pphase.isSome = false := by simpa using hpp
    simp only [Option.some.injEq] at hs; subst hs
    refine ⟨KG_frame h.kg (KF_same rfl rfl rfl rfl rfl rfl (Or.inl rfl)), ?_, h.sl, ?_⟩
    · have := h.r
      simp only [RS, Mq, Ens, pp, hpn, Option.isSome_some, Bool.toNat_false,
        Bool.toNat_true] at this ⊢
      omega
    · intro _; exact Or.inl rfl
  · simp at hs


/-! ### queue shuffles -/

theorem KI_retrStart {c : Cfg} {s s' : State} {j : Job} (h : KI c s)
    (hs : stepRetrStart c s j = some s') : KI c s' := by
  unfold stepRetrStart at hs; split at hs
  · next hg =>
    simp only [Bool.and_eq_true, List.contains_iff_mem] at hg
    have hj : j ∈ s.retrQ := hg.1.2
    simp only [Option.some.injEq] at hs; subst hs
    generalize (if tailOffs c s ≤ j.curr then none
        else if decide (j.curr < headOffs c s) then (if s.head < s.rd then some s.head else none)
        else some (j.curr / c.W)) = k
    generalize (j.corrupt || decide (j.curr < headOffs c s)) = cb
    refine ⟨KG_frame h.kg ⟨fun _ h => h, ?_, ?_, fun _ i h => ⟨i, h⟩, fun h => h⟩, ?_, ?_, ?_⟩
    · rintro y _ (⟨e, he | he | he, rfl⟩ | ⟨o, ho, rfl⟩)
      · exact Or.inl ⟨e, Or.inl he, rfl⟩
      · exact Or.inl ⟨e, Or.inr (Or.inl (List.mem_cons_of_mem _ he)), rfl⟩
      · exact Or.inl ⟨e, Or.inr (Or.inr (List.mem_cons_of_mem _ he)), rfl⟩
      · exact Or.inr ⟨o, ho, rfl⟩
    · rintro x (hq | ⟨k', hk'⟩) hi
      · exact ⟨x, Or.inl (List.mem_of_mem_erase hq), hi, rfl⟩
      · rcases List.mem_cons.1 hk' with e | hm
        · injection e with e1 e2
          subst e1
          exact ⟨j, Or.inl hj, hi, rfl⟩
        · exact ⟨x, Or.inr ⟨k', hm⟩, hi, rfl⟩
    · have := h.r
      have h1 := countP_erase' jnq hj
      simp only [RS, Mq, Ens, pp, orphanBases, countP_cons', pnq, pens, jnq, Job.inq,
        Bool.toNat_false] at this h1 ⊢
      omega
    · have := h.sl
      simp only [SS, EBns, Ons, orphanBases, countP_cons', pebns, Bool.toNat_false] at this ⊢
      omega
    · refine TK_frame h.tk (fun h => h) (fun h => h) ?_
      rintro ⟨j0, hj0, hmc⟩
      rcases hj0 with hq | ⟨k0, hk0⟩
      · by_cases hjj : j0 = j
        · subst hjj
          exact ⟨_, Or.inr ⟨_, List.mem_cons_self⟩, hmc⟩
        · exact ⟨j0, Or.inl (mem_erase_ne hq hjj), hmc⟩
      · exact ⟨j0, Or.inr ⟨k0, List.mem_cons_of_mem _ hk0⟩, hmc⟩
  · simp at hs

theorem KI_retrPost {c : Cfg} {s s' : State} {e : EJob} (h : KI c s)
    (hs : stepRetrPost s e = some s') : KI c s' := by
  unfold stepRetrPost at hs; split at hs
  · next hg =>
    have hm : Phase.retr2 e ∈ s.busy := by simpa using hg
    simp only [Option.some.injEq] at hs; subst hs
    refine ⟨KG_frame h.kg ⟨fun _ h => h, ?_, ?_, fun _ i h => ⟨i, h⟩, fun h => h⟩, ?_, ?_, ?_⟩
    · rintro y _ (⟨e0, he | he | he, rfl⟩ | ⟨o, ho, rfl⟩)
      · exact Or.inl ⟨e0, Or.inl (List.mem_cons_of_mem _ he), rfl⟩
      · by_cases hee : e0 = e
        · subst hee; exact Or.inl ⟨e0, Or.inl List.mem_cons_self, rfl⟩
        · exact Or.inl ⟨e0, Or.inr (Or.inl (mem_erase_ne he (by intro hh; cases hh; exact hee rfl))), rfl⟩
      · exact Or.inl ⟨e0, Or.inr (Or.inr (mem_erase_ne he (by intro hh; cases hh))), rfl⟩
      · exact Or.inr ⟨o, ho, rfl⟩
    · rintro x (hq | ⟨k', hk'⟩) hi
      · exact ⟨x, Or.inl hq, hi, rfl⟩
      · exact ⟨x, Or.inr ⟨k', List.mem_of_mem_erase hk'⟩, hi, rfl⟩
    · have := h.r
      have h1 := countP_erase' pnq hm
      have h2 := countP_erase' (pens (orphanBases s)) hm
      simp only [RS, Mq, Ens, pp, orphanBases, countP_cons', pnq, pens, ejns,
        Bool.toNat_false] at this h1 h2 ⊢
      omega
    · have := h.sl
      have h1 := countP_erase' (pebns (orphanBases s)) hm
      simp only [SS, EBns, Ons, orphanBases, pebns, Bool.toNat_false] at this h1 ⊢
      omega
    · refine TK_frame h.tk (fun h => h) (fun h => h) ?_
      rintro ⟨j0, hj0, hmc⟩
      rcases hj0 with hq | ⟨k0, hk0⟩
      · exact ⟨j0, Or.inl hq, hmc⟩
      · exact ⟨j0, Or.inr ⟨k0, mem_erase_ne hk0 (by intro hh; cases hh)⟩, hmc⟩
  · simp at hs

/-- what `can_emit` says about the emit job that is taken -/
theorem emit_guard {c : Cfg} {s : State} {e : EJob} (hsel : selectTask c s = some "emit")
    (hmin : minKey? (s.emitQ.map EJob.key) = some e.key) :
    2 < s.outSlots ∨ ∃ x r, s.orderQ = x :: r ∧ posLe e.key x = true := by
  have hc := select_guard hsel
  cases hq : s.orderQ with
  | nil =>
    simp [guardOf, dCanEmit, view, hq, EMIT_THRESH] at hc
    exact Or.inl hc.2
  | cons x r =>
    simp only [guardOf, dCanEmit, view, hq, hmin, EMIT_THRESH, List.isEmpty_cons,
      List.head?_cons] at hc
    simp at hc
    rcases hc.2 with h | h
    · exact Or.inl h
    · exact Or.inr ⟨x, r, rfl, h.2⟩

theorem KI_emitStart {c : Cfg} {s s' : State} {e : EJob} (h : KI c s) (hL : LI c s)
    (hs : stepEmitStart c s e = some s') : KI c s' := by
  unfold stepEmitStart at hs; split at hs
  · next hg =>
    simp only [Bool.and_eq_true, List.contains_iff_mem, beq_iff_eq] at hg
    obtain ⟨⟨⟨_, hsel⟩, hm⟩, hmin⟩ := hg
    have hos := select_emit_os hsel
    simp only [Option.some.injEq] at hs; subst hs
    refine ⟨KG_frame h.kg ⟨fun _ h => h, ?_, ?_, fun _ i h => ⟨i, h⟩, fun h => h⟩, ?_, ?_, ?_⟩
    · rintro y _ (⟨e0, he | he | he, rfl⟩ | ⟨o, ho, rfl⟩)
      · by_cases hee : e0 = e
        · subst hee; exact Or.inl ⟨e0, Or.inr (Or.inr List.mem_cons_self), rfl⟩
        · exact Or.inl ⟨e0, Or.inl (mem_erase_ne he hee), rfl⟩
      · exact Or.inl ⟨e0, Or.inr (Or.inl (List.mem_cons_of_mem _ he)), rfl⟩
      · exact Or.inl ⟨e0, Or.inr (Or.inr (List.mem_cons_of_mem _ he)), rfl⟩
      · exact Or.inr ⟨o, ho, rfl⟩
    · rintro x (hq | ⟨k', hk'⟩) hi
      · exact ⟨x, Or.inl hq, hi, rfl⟩
      · rcases List.mem_cons.1 hk' with e' | hm'
        · cases e'
        · exact ⟨x, Or.inr ⟨k', hm'⟩, hi, rfl⟩
    · have := h.r
      have h1 := countP_erase' (ejns (orphanBases s)) hm
      simp only [RS, Mq, Ens, pp, orphanBases, countP_cons', pnq, pens, ejns,
        Bool.toNat_false] at this h1 ⊢
      omega
    · have := h.sl
      simp only [SS, EBns, Ons, orphanBases, countP_cons', pebns] at this ⊢
      by_cases hns : nsB (orphanBases s) e.base = true
      · simp only [orphanBases] at hns
        simp only [hns, Bool.toNat_true]; omega
      · have hin : e.base ∈ orphanBases s := by
          by_cases hh : e.base ∈ orphanBases s
          · exact hh
          · exact absurd (nsB_iff.2 hh) hns
        obtain ⟨u, hu, hub⟩ := mem_orphanBases.1 hin
        have hpd : s.pdone = false := by
          cases hd : s.pdone with
          | false => rfl
          | true => have := (hL.od hd).1; rw [this] at hu; cases hu
        rcases emit_guard hsel hmin with h2 | ⟨x, r, hq, hle⟩
        · omega
        · have hx : (x.1, x.2) ∈ s.orderQ := by rw [hq]; exact List.mem_cons_self
          have hlt := h.kg.ox hpd u hu x.1 x.2 hx
          rw [hub] at hlt
          have : posLt x e.key = true := by
            simp only [posLt, EJob.key, Bool.or_eq_true]
            exact Or.inl (decide_eq_true hlt)
          simp only [posLe, this] at hle
          cases hle
    · refine TK_frame h.tk (fun h => h) (fun h => h) ?_
      rintro ⟨j0, hj0, hmc⟩
      rcases hj0 with hq | ⟨k0, hk0⟩
      · exact ⟨j0, Or.inl hq, hmc⟩
      · exact ⟨j0, Or.inr ⟨k0, List.mem_cons_of_mem _ hk0⟩, hmc⟩
  · simp at hs

/-- the part of `emitEnd` common to both outcomes -/
theorem KI_emitEnd_core {c : Cfg} {s s' : State} {e : EJob} {onew : OB} (h : KI c s)
    (hm : Phase.emit e ∈ s.busy)
    (e1 : s'.orderQ = s.orderQ) (e4 : s'.pdone = s.pdone) (e7 : s'.retrQ = s.retrQ)
    (e8 : s'.orphans = s.orphans) (eT : s'.ptok = s.ptok) (eP : s'.pphase = s.pphase)
    (e6 : s'.busy = s.busy.erase (.emit e))
    (e2 : s'.reordQ = onew :: s.reordQ) (o1 : onew.base = e.base)
    (eS : s'.outSlots = s.outSlots) (eQ : s'.outq = s.outq)
    (hw : (s'.emitQ = s.emitQ ∧ s'.wu = s.wu + 1) ∨
      (∃ e', s'.emitQ = e' :: s.emitQ ∧ e'.base = e.base ∧ s'.wu = s.wu)) : KI c s' := by
  have h1 := countP_erase' pnq hm
  have h2 := countP_erase' (pens (orphanBases s)) hm
  have h3 := countP_erase' (pebns (orphanBases s)) hm
  simp only [pnq, pens, pebns, Bool.toNat_false] at h1 h2 h3
  have hb := Bool.toNat_le (nsB (orphanBases s) e.base)
  have e5 : ∀ e0 ∈ s.emitQ, e0 ∈ s'.emitQ := by
    intro e0 he
    rcases hw with ⟨hw, _⟩ | ⟨e', hw, _⟩ <;> rw [hw]
    · exact he
    · exact List.mem_cons_of_mem _ he
  have hob : orphanBases s' = orphanBases s := by simp only [orphanBases, e8]
  refine ⟨KG_frame h.kg ⟨fun y hy => hob ▸ hy, ?_, ?_, fun b i hi => ⟨i, e1 ▸ hi⟩,
    fun hd => e4 ▸ hd⟩, ?_, ?_, ?_⟩
  · rintro y _ (⟨e0, he, rfl⟩ | ⟨o, ho, rfl⟩)
    · by_cases hee : e0 = e
      · subst hee; exact Or.inr ⟨onew, by rw [e2]; exact List.mem_cons_self, o1⟩
      · refine Or.inl ⟨e0, ?_, rfl⟩
        rcases he with he | he | he
        · exact Or.inl (e5 e0 he)
        · exact Or.inr (Or.inl (by rw [e6]; exact mem_erase_ne he (by intro hh; cases hh)))
        · exact Or.inr (Or.inr (by
            rw [e6]; exact mem_erase_ne he (by intro hh; cases hh; exact hee rfl)))
    · exact Or.inr ⟨o, by rw [e2]; exact List.mem_cons_of_mem _ ho, rfl⟩
  · rintro x (hq | ⟨k', hk'⟩) hi
    · exact ⟨x, Or.inl (e7 ▸ hq), hi, rfl⟩
    · rw [e6] at hk'; exact ⟨x, Or.inr ⟨k', List.mem_of_mem_erase hk'⟩, hi, rfl⟩
  · have := h.r
    rw [hob]
    rcases hw with ⟨hq, hwu⟩ | ⟨e', hq, hb', hwu⟩
    · simp only [RS, Mq, Ens, pp, e7, e6, eP, hq, hwu] at this ⊢
      omega
    · simp only [RS, Mq, Ens, pp, e7, e6, eP, hq, hwu, countP_cons', ejns, hb'] at this ⊢
      omega
  · have := h.sl
    rw [hob]
    simp only [SS, EBns, Ons, e6, e2, eS, eQ, countP_cons', obns, o1] at this ⊢
    omega
  · refine TK_frame h.tk (by rw [eT]; exact fun h => h) (by rw [eP]; exact fun h => h) ?_
    rintro ⟨j0, hj0, hmc⟩
    rcases hj0 with hq | ⟨k0, hk0⟩
    · exact ⟨j0, Or.inl (e7 ▸ hq), hmc⟩
    · exact ⟨j0, Or.inr ⟨k0, by rw [e6]; exact mem_erase_ne hk0 (by intro hh; cases hh)⟩, hmc⟩

theorem KI_emitEnd {c : Cfg} {s s' : State} {e : EJob} (h : KI c s)
    (hs : stepEmitEnd s e = some s') : KI c s' := by
  unfold stepEmitEnd at hs; split at hs
  · next hg =>
    have hm : Phase.emit e ∈ s.busy := by simpa using hg
    dsimp only at hs
    split at hs
    · simp only [Option.some.injEq] at hs; subst hs
      exact KI_emitEnd_core (e := e) h hm rfl rfl rfl rfl rfl rfl rfl rfl rfl rfl rfl
        (Or.inr ⟨_, rfl, rfl, rfl⟩)
    · simp only [Option.some.injEq] at hs; subst hs
      exact KI_emitEnd_core (e := e) h hm rfl rfl rfl rfl rfl rfl rfl rfl rfl rfl rfl
        (Or.inl ⟨rfl, rfl⟩)
  · simp at hs

/-! ### scanStart -/

theorem scan_guard {c : Cfg} {s : State} (hsel : selectTask c s = some "scan") :
    1 < s.wu ∨ (0 < s.wu ∧ s.ptok = false) := by
  have hc := select_guard hsel
  simp [guardOf, dCanScan, view, SCAN_THRESH] at hc
  rcases hc.1.1.1 with h | h
  · exact Or.inl h
  · exact Or.inr h

theorem KI_scanStart {c : Cfg} {s s' : State} {sp : Nat} (h : KI c s) (hS : SI c s)
    (hs : stepScanStart c s sp = some s') : KI c s' := by
  unfold stepScanStart at hs; split at hs
  · next hg =>
    simp only [Bool.and_eq_true, beq_iff_eq] at hg
    have hgd := scan_guard hg.1.1.2
    simp only [Option.some.injEq] at hs; subst hs
    generalize (if sp / c.W == s.ppos / c.W && decide (sp < s.ppos) then s.ppos else sp) = start
    refine ⟨KG_frame h.kg ⟨fun _ h => h, ?_, ?_, fun _ i h => ⟨i, h⟩, fun h => h⟩, ?_, ?_, ?_⟩
    · rintro y _ (⟨e0, he | he | he, rfl⟩ | ⟨o, ho, rfl⟩)
      · exact Or.inl ⟨e0, Or.inl he, rfl⟩
      · exact Or.inl ⟨e0, Or.inr (Or.inl (List.mem_cons_of_mem _ he)), rfl⟩
      · exact Or.inl ⟨e0, Or.inr (Or.inr (List.mem_cons_of_mem _ he)), rfl⟩
      · exact Or.inr ⟨o, ho, rfl⟩
    · rintro x (hq | ⟨k', hk'⟩) hi
      · exact ⟨x, Or.inl hq, hi, rfl⟩
      · rcases List.mem_cons.1 hk' with e' | hm'
        · cases e'
        · exact ⟨x, Or.inr ⟨k', hm'⟩, hi, rfl⟩
    · have hr := h.r
      have hpos : s.ptok = false → 1 ≤ pp s + Mq s := by
        intro ht
        rcases h.tk ht with hp | hm
        · simp only [pp, hp, Bool.toNat_true]; omega
        · have := Mq_pos_of_HasMc hS hm; omega
      simp only [RS, Mq, Ens, pp, orphanBases, countP_cons', pnq, pens, Bool.toNat_false]
        at hr hpos ⊢
      rcases hgd with h1 | ⟨h1, h2⟩
      · omega
      · have := hpos h2; omega
    · have := h.sl
      simp only [SS, EBns, Ons, orphanBases, countP_cons', pebns, Bool.toNat_false] at this ⊢
      omega
    · refine TK_frame h.tk (fun h => h) (fun h => h) ?_
      rintro ⟨j0, hj0, hmc⟩
      rcases hj0 with hq | ⟨k0, hk0⟩
      · exact ⟨j0, Or.inl hq, hmc⟩
      · exact ⟨j0, Or.inr ⟨k0, List.mem_cons_of_mem _ hk0⟩, hmc⟩
  · simp at hs

/-! ### reorder -/

/-- the buffer that `do_reorder` takes does not belong to a finished-but-unconfirmed block -/
theorem reorder_not_orphan {c : Cfg} {s : State} {ob : OB} (h : KG s) (hL : LI c s)
    (hsel : selectTask c s = some "reorder")
    (hmin : minKey? (s.reordQ.map OB.key) = some ob.key) : ob.base ∉ orphanBases s := by
  intro hin
  obtain ⟨u, hu, hub⟩ := mem_orphanBases.1 hin
  have hpd : s.pdone = false := by
    cases hd : s.pdone with
    | false => rfl
    | true => have := (hL.od hd).1; rw [this] at hu; cases hu
  cases hb : dReorderBogus (view c s) with
  | true =>
    rcases bogus_facts hsel hmin hb with ⟨_, hd⟩ | ⟨x, r, hq, hlt⟩
    · rw [hpd] at hd; cases hd
    · have hx : (x.1, x.2) ∈ s.orderQ := by rw [hq]; exact List.mem_cons_self
      have := h.ox hpd u hu x.1 x.2 hx
      omega
  | false =>
    obtain ⟨r, hr⟩ := reorder_head hsel hmin hb
    have hx : (ob.base, ob.idx) ∈ s.orderQ := by rw [hr]; exact List.mem_cons_self
    have := h.ox hpd u hu ob.base ob.idx hx
    omega

theorem KI_reorder_core {c : Cfg} {s s' : State} {ob : OB} (h : KI c s)
    (hno : ob.base ∉ orphanBases s) (hm : ob ∈ s.reordQ)
    (e1 : s'.retrQ = s.retrQ) (e2 : s'.orphans = s.orphans) (e3 : s'.busy = s.busy)
    (e4 : s'.emitQ = s.emitQ) (e5 : s'.reordQ = s.reordQ.erase ob)
    (e6 : ∀ b i, (b, i) ∈ s'.orderQ → ∃ i', (b, i') ∈ s.orderQ)
    (e7 : s'.pdone = s.pdone) (e8 : s'.ptok = s.ptok) (e9 : s'.pphase = s.pphase)
    (e10 : s'.wu = s.wu) (e11 : s'.outSlots + s'.outq = s.outSlots + s.outq + 1) : KI c s' := by
  have hob : orphanBases s' = orphanBases s := by simp only [orphanBases, e2]
  refine ⟨KG_frame h.kg ⟨fun y hy => hob ▸ hy, ?_, ?_, e6, fun hd => e7 ▸ hd⟩, ?_, ?_, ?_⟩
  · rintro y hy (⟨e0, he, rfl⟩ | ⟨o, ho, rfl⟩)
    · exact Or.inl ⟨e0, by simpa only [EIn, e3, e4] using he, rfl⟩
    · refine Or.inr ⟨o, ?_, rfl⟩
      rw [e5]
      refine mem_erase_ne ho ?_
      intro hh; subst hh
      rw [hob] at hy
      exact hno hy
  · intro j hj hi; exact ⟨j, by simpa only [JIn, e1, e3] using hj, hi, rfl⟩
  · have := h.r
    simpa only [RS, Mq, Ens, pp, orphanBases, e1, e2, e3, e4, e9, e10] using this
  · have := h.sl
    have h1 := countP_erase' (obns (orphanBases s)) hm
    have hb := Bool.toNat_le (obns (orphanBases s) ob)
    rw [hob]
    simp only [SS, EBns, Ons, e3, e5] at this ⊢
    omega
  · exact TK_frame h.tk (by rw [e8]; exact fun h => h) (by rw [e9]; exact fun h => h)
      (HasMc_of_JM (JM_of_eq e3 e1))

theorem KI_reorder {c : Cfg} {s s' : State} {ob : OB} (h : KI c s) (hL : LI c s)
    (hs : stepReorder c s ob = some s') (hf' : s'.failed = false) : KI c s' := by
  unfold stepReorder at hs; split at hs
  · next hg =>
    simp only [Bool.and_eq_true, List.contains_iff_mem, beq_iff_eq] at hg
    obtain ⟨⟨⟨_, hsel⟩, hmem⟩, hmin⟩ := hg
    have hno := reorder_not_orphan h.kg hL hsel hmin
    split at hs
    · simp only [Option.some.injEq] at hs; subst hs
      exact KI_reorder_core h hno hmem rfl rfl rfl rfl rfl (fun _ i hi => ⟨i, hi⟩) rfl rfl rfl rfl
        (by show s.outSlots + 1 + s.outq = s.outSlots + s.outq + 1; omega)
    · split at hs
      · simp only [Option.some.injEq] at hs; subst hs
        cases hf'
      · simp only [Option.some.injEq] at hs; subst hs
        refine KI_reorder_core h hno hmem rfl rfl rfl rfl rfl ?_ rfl rfl rfl rfl rfl
        intro b i hi
        cases hq : s.orderQ with
        | nil => simp only [hq] at hi; cases hi
        | cons x r =>
          obtain ⟨b0, i0⟩ := x
          simp only [hq] at hi
          rcases List.mem_cons.1 hi with e | hm'
          · cases e; exact ⟨i0, List.mem_cons_self⟩
          · exact ⟨i, List.mem_cons_of_mem _ hm'⟩
      · simp only [Option.some.injEq] at hs; subst hs
        exact KI_reorder_core h hno hmem rfl rfl rfl rfl rfl
          (fun _ i hi => ⟨i, List.mem_of_mem_tail hi⟩) rfl rfl rfl rfl rfl
  · simp at hs

/-! ### scanEnd -/

theorem scanRequeue_cases (c : Cfg) (s2 : State) (x hi : Nat) :
    scanRequeue c s2 x hi = s2 ∨ scanRequeue c s2 x hi = { s2 with scanQ := x :: s2.scanQ } := by
  unfold scanRequeue; split
  · exact Or.inr rfl
  · exact Or.inl rfl

/-- the numeric part of `KI` for a state in which `d` counted work units are in flight -/
structure KN (s : State) (d : Nat) : Prop where
  r  : 1 ≤ RS (orphanBases s) s + d
  sl : 2 ≤ SS (orphanBases s) s

theorem KI_of {c : Cfg} {s : State} (hg : KG s) (hn : KN s 0) (ht : TK s) : KI c s :=
  ⟨hg, hn.r, hn.sl, ht⟩
theorem KN_of_KI {c : Cfg} {s : State} (h : KI c s) : KN s 0 := ⟨h.r, h.sl⟩

/-- `KN` only reads these fields -/
theorem KN_congr {s s' : State} {d d' : Nat} (h : KN s d)
    (e1 : s'.retrQ = s.retrQ) (e2 : s'.orphans = s.orphans) (e3 : s'.busy = s.busy)
    (e4 : s'.emitQ = s.emitQ) (e5 : s'.reordQ = s.reordQ) (e9 : s'.pphase = s.pphase)
    (e10 : s.wu + d ≤ s'.wu + d') (e11 : s'.outSlots = s.outSlots) (e12 : s'.outq = s.outq) :
    KN s' d' := by
  refine ⟨?_, ?_⟩
  · have := h.r
    simp only [RS, Mq, Ens, pp, orphanBases, e1, e2, e3, e4, e9] at this ⊢
    omega
  · have := h.sl
    simpa only [SS, EBns, Ons, orphanBases, e2, e3, e5, e11, e12] using this

theorem KG_congr {s s' : State} (h : KG s)
    (e1 : s'.retrQ = s.retrQ) (e2 : s'.orphans = s.orphans) (e3 : s'.busy = s.busy)
    (e4 : s'.emitQ = s.emitQ) (e5 : s'.reordQ = s.reordQ) (e6 : s'.orderQ = s.orderQ)
    (e7 : s'.pdone = s.pdone ∨ s'.pdone = true) : KG s' :=
  KG_frame h (KF_same e1 e2 e3 e4 e5 e6 e7)

theorem TK_congr {s s' : State} (h : TK s) (e1 : s'.retrQ = s.retrQ) (e3 : s'.busy = s.busy)
    (e8 : s'.ptok = s.ptok ∨ s'.ptok = true) (e9 : s'.pphase = s.pphase) : TK s' := by
  refine TK_frame h ?_ (by rw [e9]; exact fun h => h) (HasMc_of_JM (JM_of_eq e3 e1))
  intro ht
  rcases e8 with e | e
  · rw [← e]; exact ht
  · rw [e] at ht; cases ht

theorem KN_detach {s : State} {d : Nat} (k : Option Nat) (h : KN s d) : KN (detach s k) d := by
  rcases detach_cases s k with e | e <;> rw [e]
  · exact h
  · exact KN_congr h rfl rfl rfl rfl rfl rfl (Nat.le_refl _) rfl rfl

theorem KG_detach {s : State} (k : Option Nat) (h : KG s) : KG (detach s k) :=
  KG_frame h (KF_detach s k)

theorem TK_detach {s : State} (k : Option Nat) (h : TK s) : TK (detach s k) := by
  rcases detach_cases s k with e | e <;> rw [e]
  · exact h
  · exact TK_congr h rfl rfl (Or.inl rfl) rfl

/-- a worker that does not hold an emit job leaves `busy` -/
theorem KN_busy_erase {s : State} {d : Nat} {ph : Phase} (h : KN s d) (hm : ph ∈ s.busy)
    (hn : ∀ e, ph ≠ Phase.retr2 e ∧ ph ≠ Phase.emit e) :
    KN { s with busy := s.busy.erase ph } (d + (pnq ph).toNat) := by
  refine ⟨?_, ?_⟩
  · have := h.r
    have h1 := RS_busy_erase (orphanBases s) hm
    have h2 : pens (orphanBases s) ph = false := by
      cases ph with
      | retr j k => rfl
      | retr2 e => exact absurd rfl (hn e).1
      | emit e => exact absurd rfl (hn e).2
      | scan a b => rfl
    rw [h2] at h1
    simp only [Bool.toNat_false] at h1
    show 1 ≤ RS (orphanBases s) { s with busy := s.busy.erase ph } + (d + (pnq ph).toNat)
    omega
  · have := h.sl
    have h1 := SS_busy_erase (orphanBases s) hm
    have h2 : pebns (orphanBases s) ph = false := by
      cases ph with
      | retr j k => rfl
      | retr2 e => rfl
      | emit e => exact absurd rfl (hn e).2
      | scan a b => rfl
    rw [h2] at h1
    simp only [Bool.toNat_false] at h1
    show 2 ≤ SS (orphanBases s) { s with busy := s.busy.erase ph }
    omega

theorem TK_busy_erase {s : State} {ph : Phase} (h : TK s)
    (hmc : ∀ j k, ph = .retr j k → Job.mc j = false) :
    TK { s with busy := s.busy.erase ph } := by
  refine TK_frame h (fun h => h) (fun h => h) ?_
  rintro ⟨j0, hj0, hmc0⟩
  rcases hj0 with hq | ⟨k0, hk0⟩
  · exact ⟨j0, Or.inl hq, hmc0⟩
  · refine ⟨j0, Or.inr ⟨k0, mem_erase_ne hk0 ?_⟩, hmc0⟩
    intro hh
    rw [hmc j0 k0 hh.symm] at hmc0; cases hmc0

theorem KN_advance {s : State} {d : Nat} (c : Cfg) (p : Nat) (h : KN s d) :
    KN (advance c s p) d := by
  refine ⟨?_, h.sl⟩
  have := h.r
  have h1 := RS_advance (orphanBases s) c s p
  show 1 ≤ RS (orphanBases s) (advance c s p) + d
  omega

theorem KN_addJob {s : State} {d : Nat} (jn : Job) (h : KN s d) (hd : d ≤ (jnq jn).toNat) :
    KN { s with retrQ := jn :: s.retrQ } 0 := by
  refine ⟨?_, h.sl⟩
  have := h.r
  have h1 := RS_addJob (orphanBases s) s jn
  show 1 ≤ RS (orphanBases s) { s with retrQ := jn :: s.retrQ } + 0
  omega

theorem scanNew_parts {c : Cfg} {s1 : State} (x : Nat) (hg : KG s1) (hn : KN s1 0) (ht : TK s1)
    (hP : PI c s1) : KG (scanNew c s1 x) ∧ KN (scanNew c s1 x) 0 ∧ TK (scanNew c s1 x) := by
  unfold scanNew; split
  · exact ⟨KG_congr hg rfl rfl rfl rfl rfl rfl (Or.inl rfl),
      KN_congr hn rfl rfl rfl rfl rfl rfl (Nat.le_succ _) rfl rfl,
      TK_congr ht rfl rfl (Or.inl rfl) rfl⟩
  · next hx =>
    refine ⟨KG_addJob _ hg ?_, KN_addJob _ hn (Nat.zero_le _),
      TK_frame ht (fun h => h) (fun h => h) (HasMc_addJob _)⟩
    intro hd _ b i hb
    have := hP.op hd b i hb
    show b < x
    omega

theorem KI_scanEnd {c : Cfg} {s s' : State} {st k : Nat} (h : KI c s) (hP : PI c s)
    (hs : stepScanEnd c s st k = some s') : KI c s' := by
  unfold stepScanEnd at hs; split at hs
  · next hg =>
    have hm : Phase.scan st k ∈ s.busy := by simpa using hg
    have hn : ∀ e, Phase.scan st k ≠ Phase.retr2 e ∧ Phase.scan st k ≠ Phase.emit e := by
      intro e; constructor <;> (intro hh; cases hh)
    have g1 : KG (detach { s with busy := s.busy.erase (.scan st k) } (some k)) :=
      KG_detach _ (KG_frame h.kg (KF_busy_erase s hn))
    have n1 : KN (detach { s with busy := s.busy.erase (.scan st k) } (some k)) 0 :=
      KN_detach _ (KN_busy_erase (KN_of_KI h) hm hn)
    have t1 : TK (detach { s with busy := s.busy.erase (.scan st k) } (some k)) :=
      TK_detach _ (TK_busy_erase h.tk (by intro j k hh; cases hh))
    have hP1 : PI c (detach { s with busy := s.busy.erase (.scan st k) } (some k)) :=
      PI_detach _ (PI_busy_erase _ hP)
    generalize detach { s with busy := s.busy.erase (.scan st k) } (some k) = s1 at g1 n1 t1 hP1 hs
    have hwu : KI c { s1 with wu := s1.wu + 1 } :=
      KI_of (KG_congr g1 rfl rfl rfl rfl rfl rfl (Or.inl rfl))
        (KN_congr n1 rfl rfl rfl rfl rfl rfl (Nat.le_succ _) rfl rfl)
        (TK_congr t1 rfl rfl (Or.inl rfl) rfl)
    dsimp only at hs
    split at hs
    · simp only [Option.some.injEq] at hs; subst hs
      exact hwu
    · next x hx =>
      split at hs
      · simp only [Option.some.injEq] at hs; subst hs
        exact hwu
      · simp only [Option.some.injEq] at hs; subst hs
        obtain ⟨g2, n2, t2⟩ := scanNew_parts x g1 n1 t1 hP1
        rcases scanRequeue_cases c (scanNew c s1 x) x (offs c (k + 1)) with e | e <;> rw [e]
        · exact KI_of g2 n2 t2
        · exact KI_of (KG_congr g2 rfl rfl rfl rfl rfl rfl (Or.inl rfl))
            (KN_congr n2 rfl rfl rfl rfl rfl rfl (Nat.le_refl _) rfl rfl)
            (TK_congr t2 rfl rfl (Or.inl rfl) rfl)
  · simp at hs

end UCap

end LbzVerif.Lemmas.SchedD
