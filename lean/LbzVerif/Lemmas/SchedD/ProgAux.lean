/-
  Auxiliary facts for the final deadlock-freedom argument: minima of the
  priority queues, and what `select_task() = NULL` says about the guards.
-/
import LbzVerif.Lemmas.SchedD.Progress

namespace LbzVerif.Lemmas.SchedD
open LbzVerif.Model.SchedD LbzVerif.Gen

theorem posLe_refl (a : Nat × Nat) : posLe a a = true := by
  simp [posLe, posLt]

theorem posLe_trans {a b d : Nat × Nat} (h1 : posLe a b = true) (h2 : posLe b d = true) :
    posLe a d = true := by
  obtain ⟨a1, a2⟩ := a; obtain ⟨b1, b2⟩ := b; obtain ⟨d1, d2⟩ := d
  simp only [posLe, posLt, Bool.not_eq_true', Bool.or_eq_false_iff, Bool.and_eq_false_iff,
    decide_eq_false_iff_not, beq_eq_false_iff_ne, ne_eq] at *
  obtain ⟨h1a, h1b⟩ := h1; obtain ⟨h2a, h2b⟩ := h2
  refine ⟨by omega, ?_⟩
  by_cases e : d1 = a1
  · right
    have e1 : b1 = a1 := by omega
    have e2 : d1 = b1 := by omega
    rcases h1b with h | h
    · exact absurd e1 h
    · rcases h2b with h' | h'
      · exact absurd e2 h'
      · omega
  · left; exact e

theorem posLe_of_not_posLt {a b : Nat × Nat} (h : posLt a b = false) : posLe b a = true := by
  simp [posLe, h]

/-- the minimum is below every member -/
theorem minKey?_le : ∀ {l : List (Nat × Nat)} {k : Nat × Nat}, k ∈ l →
    ∃ m, minKey? l = some m ∧ posLe m k = true
  | x :: xs, k, hk => by
    simp only [minKey?]
    cases hm : minKey? xs with
    | none =>
      have : xs = [] := by
        cases xs with
        | nil => rfl
        | cons y ys =>
          obtain ⟨z, _, hz⟩ := minKey?_exists (l := y :: ys) (by simp)
          rw [hm] at hz; cases hz
      subst this
      have : k = x := by simpa using hk
      subst this
      exact ⟨k, rfl, posLe_refl k⟩
    | some m =>
      simp only
      rcases List.mem_cons.1 hk with e | hk'
      · subst e
        split
        · next hlt => exact ⟨m, rfl, by
            simp only [posLe, Bool.not_eq_true']
            -- posLt m k → ¬ posLt k m
            obtain ⟨m1, m2⟩ := m; obtain ⟨k1, k2⟩ := k
            simp only [posLt, Bool.or_eq_true, decide_eq_true_eq, Bool.and_eq_true, beq_iff_eq] at hlt
            simp only [posLt, Bool.or_eq_false_iff, decide_eq_false_iff_not, Bool.and_eq_false_iff,
              beq_eq_false_iff_ne, ne_eq]
            omega⟩
        · exact ⟨k, rfl, posLe_refl k⟩
      · obtain ⟨m', hm', hle⟩ := minKey?_le hk'
        rw [hm] at hm'; cases hm'
        split
        · exact ⟨m, rfl, hle⟩
        · next hlt =>
          have : posLe x m = true := posLe_of_not_posLt (by simpa using hlt)
          exact ⟨x, rfl, posLe_trans this hle⟩

theorem minNat?_le : ∀ {l : List Nat} {k : Nat}, k ∈ l → ∃ m, minNat? l = some m ∧ m ≤ k
  | x :: xs, k, hk => by
    simp only [minNat?]
    cases hm : minNat? xs with
    | none =>
      have : xs = [] := by
        cases xs with
        | nil => rfl
        | cons y ys =>
          obtain ⟨z, _, hz⟩ := minNat?_exists (l := y :: ys) (by simp)
          rw [hm] at hz; cases hz
      subst this
      have : k = x := by simpa using hk
      subst this
      exact ⟨k, rfl, Nat.le_refl _⟩
    | some m =>
      simp only
      rcases List.mem_cons.1 hk with e | hk'
      · subst e
        split
        · exact ⟨m, rfl, by omega⟩
        · exact ⟨k, rfl, Nat.le_refl _⟩
      · obtain ⟨m', hm', hle⟩ := minNat?_le hk'
        rw [hm] at hm'; cases hm'
        split
        · exact ⟨m, rfl, hle⟩
        · exact ⟨x, rfl, by omega⟩

/-- nothing selected: every guard is false -/
theorem select_none {c : Cfg} {s : State} (h : selectTask c s = none) :
    dCanReorder (view c s) = false ∧ dCanParse (view c s) = false ∧ dCanEmit (view c s) = false ∧
    dCanRetrieve (view c s) = false ∧ dCanScan (view c s) = false := by
  unfold selectTask at h
  rw [List.find?_eq_none] at h
  have g : ∀ t ∈ dTaskOrder, guardOf t (view c s) = false := by
    intro t ht; simpa using h t ht
  refine ⟨?_, ?_, ?_, ?_, ?_⟩
  · simpa [guardOf] using g "reorder" (by simp [dTaskOrder])
  · simpa [guardOf] using g "parse" (by simp [dTaskOrder])
  · simpa [guardOf] using g "emit" (by simp [dTaskOrder])
  · simpa [guardOf] using g "retrieve" (by simp [dTaskOrder])
  · simpa [guardOf] using g "scan" (by simp [dTaskOrder])

end LbzVerif.Lemmas.SchedD
