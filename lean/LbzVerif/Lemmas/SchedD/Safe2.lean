/-
  Safety invariant, part 2: `advance`, `do_scan` tail, `do_retrieve` tail.
-/
import LbzVerif.Lemmas.SchedD.Safe

namespace LbzVerif.Lemmas.SchedD
open LbzVerif.Model.SchedD LbzVerif.Gen

theorem offs_mono (c : Cfg) {a b : Nat} (h : a ≤ b) : offs c a ≤ offs c b := by
  unfold offs
  have : a * c.W ≤ b * c.W := Nat.mul_le_mul_right _ h
  omega

theorem headOffs_advance_ge (c : Cfg) (s : State) (p : Nat) :
    headOffs c s ≤ headOffs c (advance c s p) := by
  show offs c s.head ≤ offs c (newHead c s p)
  apply offs_mono; unfold newHead; omega

theorem headOffs_advance_le (c : Cfg) (s : State) (p : Nat) :
    headOffs c (advance c s p) ≤ max (headOffs c s) p := by
  show offs c (newHead c s p) ≤ max (offs c s.head) p
  unfold newHead
  by_cases h : s.head ≤ min s.rd (if c.T ≤ p then s.rd else p / c.W)
  · rw [Nat.max_eq_right h]
    by_cases hT : c.T ≤ p
    · have : offs c (min s.rd (if c.T ≤ p then s.rd else p / c.W)) ≤ c.T := by unfold offs; omega
      omega
    · simp only [hT, if_false]
      have h1 : offs c (min s.rd (p / c.W)) ≤ offs c (p / c.W) := offs_mono c (Nat.min_le_right _ _)
      have h2 : offs c (p / c.W) ≤ p := by
        unfold offs
        have := Nat.div_mul_le_self p c.W
        omega
      omega
  · rw [Nat.max_eq_left (by omega)]; omega

theorem ubOK_mono {c : Cfg} {s s' : State} {u : UB} (h : ubOK c s u)
    (hh : headOffs c s ≤ headOffs c s') : ubOK c s' u := by
  refine ⟨h.1, fun hi => ?_⟩
  rcases h.2 hi with h | h
  · exact Or.inl h
  · exact Or.inr (by omega)

theorem mcount_le_of {s s' : State} (h1 : List.countP Job.mc s'.retrQ ≤ List.countP Job.mc s.retrQ)
    (h2 : List.countP Phase.mc s'.busy ≤ List.countP Phase.mc s.busy) : mcount s' ≤ mcount s := by
  simp only [mcount]; omega

/-- `advance(p)` keeps the invariant, provided the new position does not pass
    the next block header -/
theorem SI_advance {c : Cfg} {s : State} (p : Nat) (h : SI c s)
    (hp : s.pdone = false → ∀ b, pres c s.gnext = .hdr b → p ≤ b) : SI c (advance c s p) := by
  obtain ⟨a1, a2, a3, a4, a5, a6, a7, a8, a9, a10, a11, a12, a13⟩ := h
  have hc : mcount (advance c s p) ≤ mcount s := by
    apply mcount_le_of
    · exact List.Sublist.countP_le List.filter_sublist
    · exact Nat.le_refl _
  refine ⟨a1, a2, a3, a4, Nat.le_trans hc a5, ?_, ?_, a8, a9, a10, ?_, a12, ?_⟩
  · intro hh; have := a6 hh; omega
  · intro j hj; exact a7 j (List.mem_filter.1 hj).1
  · intro hd u hu
    exact ubOK_mono (a11 hd u hu) (headOffs_advance_ge c s p)
  · intro hd b hb
    have := headOffs_advance_le c s p
    have h1 := a13 hd b hb
    have h2 := hp hd b hb
    omega

theorem advance_fields (c : Cfg) (s : State) (p : Nat) :
    (advance c s p).ptok = s.ptok ∧ (advance c s p).pphase = s.pphase ∧
    (advance c s p).porig = s.porig ∧ (advance c s p).gnext = s.gnext ∧
    (advance c s p).pdone = s.pdone ∧ (advance c s p).failed = s.failed ∧
    (advance c s p).busy = s.busy := ⟨rfl, rfl, rfl, rfl, rfl, rfl, rfl⟩

theorem detach_fields (s : State) (k : Option Nat) :
    (detach s k).ptok = s.ptok ∧ (detach s k).pphase = s.pphase ∧
    (detach s k).porig = s.porig ∧ (detach s k).gnext = s.gnext ∧
    (detach s k).pdone = s.pdone ∧ (detach s k).failed = s.failed ∧
    (detach s k).busy = s.busy ∧ (detach s k).retrQ = s.retrQ ∧
    (detach s k).orphans = s.orphans ∧ (detach s k).written = s.written ∧
    (detach s k).orderQ = s.orderQ ∧ (detach s k).head = s.head := by
  unfold detach; split
  · exact ⟨rfl, rfl, rfl, rfl, rfl, rfl, rfl, rfl, rfl, rfl, rfl, rfl⟩
  · split <;> exact ⟨rfl, rfl, rfl, rfl, rfl, rfl, rfl, rfl, rfl, rfl, rfl, rfl⟩

theorem mcount_detach (s : State) (k : Option Nat) : mcount (detach s k) = mcount s := by
  have := detach_fields s k
  simp only [mcount, this.2.2.2.2.2.2.1, this.2.2.2.2.2.2.2.1]

/-- removing a busy phase -/
theorem SI_busy_erase {c : Cfg} {s : State} (ph : Phase) (h : SI c s) :
    SI c { s with busy := s.busy.erase ph } := by
  obtain ⟨a1, a2, a3, a4, a5, a6, a7, a8, a9, a10, a11, a12, a13⟩ := h
  have hc : mcount { s with busy := s.busy.erase ph } ≤ mcount s :=
    mcount_le_of (Nat.le_refl _) (countP_erase_le _ _ _)
  refine ⟨a1, a2, a3, a4, Nat.le_trans hc a5, ?_, a7, ?_, a9, a10, a11, a12, a13⟩
  · intro hh; have := a6 hh; omega
  · intro x hx; exact a8 x (List.mem_of_mem_erase hx)

/-! ### scanEnd -/

theorem SI_scanNew {c : Cfg} {s1 : State} (x : Nat) (h1 : SI c s1) :
    SI c (scanNew c s1 x) ∧ (scanNew c s1 x).failed = s1.failed := by
  unfold scanNew; split
  · exact ⟨SI_congr h1 rfl rfl rfl rfl rfl rfl rfl rfl rfl rfl rfl rfl rfl, rfl⟩
  · obtain ⟨a1, a2, a3, a4, a5, a6, a7, a8, a9, a10, a11, a12, a13⟩ := h1
    refine ⟨⟨a1, a2, a3, a4, ?_, ?_, ?_, a8, a9, a10, a11, a12, a13⟩, rfl⟩
    · simpa [mcount, List.countP_cons, Job.mc] using a5
    · intro hh; simpa [mcount, List.countP_cons, Job.mc] using a6 hh
    · intro j hj
      rcases List.mem_cons.1 hj with e | hm
      · subst e
        exact ⟨rres_ge c x, by simp [Job.mc], by intro f hf; simp at hf; subst hf; simp,
          Nat.le_refl _, by intro f hf; simp at hf; subst hf; exact rres_ge c x⟩
      · exact a7 j hm

theorem SI_scanRequeue {c : Cfg} {s2 : State} (x hi : Nat) (h : SI c s2) :
    SI c (scanRequeue c s2 x hi) ∧ (scanRequeue c s2 x hi).failed = s2.failed := by
  unfold scanRequeue; split
  · exact ⟨SI_congr h rfl rfl rfl rfl rfl rfl rfl rfl rfl rfl rfl rfl rfl, rfl⟩
  · exact ⟨h, rfl⟩

theorem SI_scanEnd {c : Cfg} {s s' : State} {st k : Nat} (h : SI c s)
    (hs : stepScanEnd c s st k = some s') : SI c s' ∧ s'.failed = s.failed := by
  unfold stepScanEnd at hs; split at hs
  · have h1 : SI c (detach { s with busy := s.busy.erase (.scan st k) } (some k)) :=
      SI_detach _ (SI_busy_erase _ h)
    have hf1 : (detach { s with busy := s.busy.erase (.scan st k) } (some k)).failed = s.failed :=
      (detach_fields { s with busy := s.busy.erase (.scan st k) } (some k)).2.2.2.2.2.1
    generalize detach { s with busy := s.busy.erase (.scan st k) } (some k) = s1 at h1 hf1 hs
    dsimp only at hs
    split at hs
    · simp only [Option.some.injEq] at hs; subst hs
      exact ⟨SI_congr h1 rfl rfl rfl rfl rfl rfl rfl rfl rfl rfl rfl rfl rfl, hf1⟩
    · next x hx =>
      split at hs
      · simp only [Option.some.injEq] at hs; subst hs
        exact ⟨SI_congr h1 rfl rfl rfl rfl rfl rfl rfl rfl rfl rfl rfl rfl rfl, hf1⟩
      · simp only [Option.some.injEq] at hs; subst hs
        have n1 := SI_scanNew (c := c) x h1
        have n2 := SI_scanRequeue (c := c) x (offs c (k + 1)) n1.1
        exact ⟨n2.1, by rw [n2.2, n1.2, hf1]⟩
  · simp at hs

/-! ### retrEnd -/

theorem SI_retrExit {c : Cfg} {s1 : State} (j : Job) (h1 : SI c s1) :
    SI c (retrExit s1 j) :=
  SI_congr h1 rfl rfl rfl rfl rfl rfl rfl rfl rfl rfl rfl rfl rfl

theorem SI_retrMove {c : Cfg} {s1 : State} (j : Job) (newc : Nat) (h1 : SI c s1)
    (hm : j.master = true → newc ≤ s1.gnext) :
    SI c (retrMove c s1 j newc) := by
  unfold retrMove; split
  · next hmas =>
    refine SI_congr (SI_advance newc h1 ?_) rfl rfl rfl rfl rfl rfl rfl rfl rfl rfl rfl rfl rfl
    intro _ b hb
    have := (pres_hdr hb).1
    have := hm hmas
    omega
  · exact h1

theorem retrMove_fields (c : Cfg) (s1 : State) (j : Job) (newc : Nat) :
    (retrMove c s1 j newc).ptok = s1.ptok ∧ (retrMove c s1 j newc).pphase = s1.pphase ∧
    (retrMove c s1 j newc).gnext = s1.gnext ∧ (retrMove c s1 j newc).failed = s1.failed ∧
    mcount (retrMove c s1 j newc) ≤ mcount s1 ∧ (retrMove c s1 j newc).pdone = s1.pdone := by
  unfold retrMove; split
  · refine ⟨rfl, rfl, rfl, rfl, ?_, rfl⟩
    apply mcount_le_of
    · exact List.Sublist.countP_le List.filter_sublist
    · exact Nat.le_refl _
  · exact ⟨rfl, rfl, rfl, rfl, Nat.le_refl _, rfl⟩

theorem master_mc {j : Job} (hm : j.master = true)
    (hna : j.redundant = false) :
    Job.mc j = true := by
  unfold Job.master at hm; unfold Job.mc; unfold Job.redundant at hna
  cases hu : j.ub with
  | none => rfl
  | some f =>
    simp only [hu] at hm hna ⊢
    cases hl : f.legit <;> simp_all

theorem newc_le {c : Cfg} {j : Job} {k : Option Nat} (hc : j.curr ≤ (rres c j.base).e) :
    retrNewc c j k ≤ (rres c j.base).e := by
  unfold retrNewc; split <;> omega

theorem ejOK_new (c : Cfg) (j : Job) :
    ejOK c { base := j.base, idx := 0, left := (if (rres c j.base).ok then (rres c j.base).nb else 1),
             ok := (rres c j.base).ok && (rres c j.base).fin, corrupt := j.corrupt } := by
  have := rres_nb_pos c j.base
  cases hok : (rres c j.base).ok <;> simp [ejOK, hok] <;> omega

theorem newc_ge (c : Cfg) (j : Job) (k : Option Nat) : j.curr ≤ retrNewc c j k := by
  unfold retrNewc; split <;> omega

theorem mc_retrMoreJob (j : Job) (newc : Nat) : Job.mc (retrMoreJob j newc) = Job.mc j := by
  unfold retrMoreJob Job.mc
  cases hu : j.ub with
  | none => simp
  | some f => cases hm : j.master <;> simp

theorem jobOK_retrMoreJob {c : Cfg} {g : Nat} {j : Job} {newc : Nat} (hj : jobOK c g j)
    (h1 : j.curr ≤ newc) (h2 : newc ≤ (rres c j.base).e) : jobOK c g (retrMoreJob j newc) := by
  obtain ⟨j1, j2, j3, j4, j5⟩ := hj
  refine ⟨h2, ?_, ?_, ?_, ?_⟩
  · intro hm; rw [mc_retrMoreJob] at hm; exact j2 hm
  · intro f hf hi
    unfold retrMoreJob at hf
    cases hu : j.ub with
    | none => simp [hu] at hf
    | some f0 =>
      simp only [hu] at hf
      split at hf
      · simp only [Option.some.injEq] at hf; subst hf; exact j3 f0 hu hi
      · simp only [Option.map_some, Option.some.injEq] at hf; subst hf; exact j3 f0 hu hi
  · show j.base ≤ newc; omega
  · intro f hf
    unfold retrMoreJob at hf
    cases hu : j.ub with
    | none => simp [hu] at hf
    | some f0 =>
      simp only [hu] at hf
      split at hf
      · simp only [Option.some.injEq] at hf; subst hf; exact j5 f0 hu
      · simp only [Option.map_some, Option.some.injEq] at hf; subst hf; exact h2

theorem SI_retrEnd {c : Cfg} {s s' : State} {j : Job} {k : Option Nat} (h : SI c s)
    (hs : stepRetrEnd c s j k = some s') : SI c s' ∧ s'.failed = s.failed := by
  unfold stepRetrEnd at hs; split at hs
  · next hg =>
    have hmem : Phase.retr j k ∈ s.busy := by simpa using hg
    have hj : jobOK c s.gnext j := h.busy _ hmem
    have hcnt : List.countP Phase.mc (s.busy.erase (.retr j k)) + (if Job.mc j then 1 else 0)
        = List.countP Phase.mc s.busy := countP_erase_add Phase.mc hmem
    have hm1 := h.mc1
    have hm0 := h.mc0
    have h1 : SI c (detach { s with busy := s.busy.erase (.retr j k) } k) :=
      SI_detach _ (SI_busy_erase _ h)
    have hf := detach_fields { s with busy := s.busy.erase (.retr j k) } k
    have hmc1 : mcount (detach { s with busy := s.busy.erase (.retr j k) } k)
        + (if Job.mc j then 1 else 0) = mcount s := by
      rw [mcount_detach]
      show List.countP Job.mc s.retrQ + List.countP Phase.mc (s.busy.erase (.retr j k))
        + (if Job.mc j then 1 else 0) = List.countP Job.mc s.retrQ + List.countP Phase.mc s.busy
      omega
    generalize detach { s with busy := s.busy.erase (.retr j k) } k = s1 at h1 hf hmc1 hs
    obtain ⟨f1, f2, f3, f4, f5, f6, f7, f8, f9, f10, f11, f12⟩ := hf
    have f1 : s1.ptok = s.ptok := f1
    have f2 : s1.pphase = s.pphase := f2
    have f4 : s1.gnext = s.gnext := f4
    have f6 : s1.failed = s.failed := f6
    dsimp only at hs
    have hnl := newc_le (k := k) hj.1
    have hnge := newc_ge c j k
    generalize retrNewc c j k = newc at hs hnl hnge
    by_cases hpd : s1.pdone = true
    · rw [if_pos hpd] at hs
      simp only [Option.some.injEq] at hs; subst hs
      exact ⟨SI_retrExit j h1, f6⟩
    · rw [if_neg hpd] at hs
      by_cases hab : j.redundant = true
      · rw [if_pos hab] at hs
        simp only [Option.some.injEq] at hs; subst hs
        exact ⟨SI_retrExit j h1, f6⟩
      · rw [if_neg hab] at hs
        have hna' : j.redundant = false := by simpa using hab
        have hmaster : j.master = true → Job.mc j = true := fun hm => master_mc hm hna'
        have h2 := SI_retrMove j newc h1 (fun hm => by
          have := hj.2.1 (hmaster hm); rw [f4]; omega)
        obtain ⟨m1, m2, m3, m4, m5, m6⟩ := retrMove_fields c s1 j newc
        generalize retrMove c s1 j newc = s2 at h2 m1 m2 m3 m4 m5 m6 hs
        have hg2 : s2.gnext = s.gnext := by rw [m3, f4]
        have hjm : jobOK c s2.gnext (retrMoreJob j newc) := by
          rw [hg2]; exact jobOK_retrMoreJob hj hnge hnl
        have hmcj : Job.mc (retrMoreJob j newc) = Job.mc j := mc_retrMoreJob j newc
        by_cases hfin : (!decide ((rres c j.base).e ≤ newc)) = true
        · rw [if_pos hfin] at hs
          by_cases hov : newc < headOffs c s2
          · -- "Retriever was overtaken": discard
            rw [if_pos hov] at hs
            simp only [Option.some.injEq] at hs; subst hs
            exact ⟨SI_retrExit _ h2, m4.trans f6⟩
          · -- MORE: back to retr_q
            rw [if_neg hov] at hs
            simp only [Option.some.injEq] at hs; subst hs
            obtain ⟨a1, a2, a3, a4, a5, a6, a7, a8, a9, a10, a11, a12, a13⟩ := h2
            refine ⟨⟨a1, a2, a3, a4, ?_, ?_, ?_, a8, a9, a10, a11, a12, a13⟩, m4.trans f6⟩
            · show List.countP Job.mc (retrMoreJob j newc :: s2.retrQ) + List.countP Phase.mc s2.busy ≤ 1
              rw [List.countP_cons, hmcj]
              simp only [mcount] at m5 hmc1 hm1
              omega
            · intro hh
              have hh' : s2.ptok = true ∨ s2.pphase.isSome = true := hh
              rw [m1, f1, m2, f2] at hh'
              have h0 := hm0 hh'
              show List.countP Job.mc (retrMoreJob j newc :: s2.retrQ) + List.countP Phase.mc s2.busy = 0
              rw [List.countP_cons, hmcj]
              simp only [mcount] at m5 hmc1 h0
              omega
            · intro x hx
              rcases List.mem_cons.1 hx with e | hm
              · subst e; exact hjm
              · exact a7 x hm
        · rw [if_neg hfin] at hs
          have hfin' : (rres c j.base).e ≤ newc := by simpa using hfin
          obtain ⟨a1, a2, a3, a4, a5, a6, a7, a8, a9, a10, a11, a12, a13⟩ := h2
          cases hmas : j.master with
          | true =>
            have hmc := hmaster hmas
            have hms : mcount s = 1 := by simp only [hmc, if_true] at hmc1; omega
            have hs1 : mcount s1 = 0 := by simp only [hmc, if_true] at hmc1; omega
            have hs2 : mcount s2 = 0 := by omega
            have hpp : s.pphase = none := by
              cases hp : s.pphase with
              | none => rfl
              | some x => have := hm0 (Or.inr (by simp [hp])); omega
            have hnew : newc = s.gnext := by have := hj.2.1 hmc; omega
            simp only [Option.some.injEq] at hs; subst hs
            simp only [retrDone, hmas, if_true]
            refine ⟨⟨a1, a2, ?_, ?_, ?_, ?_, a7, ?_, a9, a10, a11, a12, a13⟩, m4.trans f6⟩
            · intro _; show newc = s2.gnext; rw [hnew, hg2]
            · intro _; show s2.pphase = none; rw [m2, f2, hpp]
            · show List.countP Job.mc s2.retrQ + List.countP Phase.mc (_ :: s2.busy) ≤ 1
              simp only [mcount] at hs2
              simp only [List.countP_cons, Phase.mc, Bool.false_eq_true, if_false]; omega
            · intro _
              show List.countP Job.mc s2.retrQ + List.countP Phase.mc (_ :: s2.busy) = 0
              simp only [mcount] at hs2
              simp only [List.countP_cons, Phase.mc, Bool.false_eq_true, if_false]; omega
            · intro ph hph
              rcases List.mem_cons.1 hph with e | hm
              · subst e; exact ejOK_new c j
              · exact a8 ph hm
          | false =>
            have hub : ∃ f, j.ub = some f ∧ f.complete = false := by
              unfold Job.master at hmas
              cases hu : j.ub with
              | none => simp [hu] at hmas
              | some f => exact ⟨f, rfl, by simpa [hu] using hmas⟩
            obtain ⟨f, hu, hfc⟩ := hub
            simp only [Option.some.injEq] at hs; subst hs
            simp only [retrDone, hmas, hu]
            refine ⟨⟨a1, a2, a3, a4, ?_, ?_, a7, ?_, a9, a10, ?_, a12, a13⟩, m4.trans f6⟩
            · show List.countP Job.mc s2.retrQ + List.countP Phase.mc (_ :: s2.busy) ≤ 1
              rw [List.countP_cons]; simpa [mcount, Phase.mc] using a5
            · intro hh
              show List.countP Job.mc s2.retrQ + List.countP Phase.mc (_ :: s2.busy) = 0
              rw [List.countP_cons]; simpa [mcount, Phase.mc] using a6 hh
            · intro ph hph
              rcases List.mem_cons.1 hph with e | hm
              · subst e; exact ejOK_new c j
              · exact a8 ph hm
            · intro hd u hu'
              simp only [Bool.false_eq_true, if_false, List.mem_append, List.mem_singleton,
                List.cons_append, List.nil_append, List.mem_cons] at hu'
              rcases hu' with e | hm
              · subst e; exact ⟨rfl, fun _ => Or.inl (show newc = (rres c j.base).e by omega)⟩
              · exact a11 hd u hm
  · simp at hs

end LbzVerif.Lemmas.SchedD
