/-
  "Every block position has at most one producer" for the SchedD model:
  the scanner reports every candidate at most once and the parser creates a
  master job only where no scanner-found entry exists, so no two retrieve jobs /
  finished-but-unconfirmed blocks share a base, and no emit job or output buffer
  shares its base with a live retrieve job.

  Part 1 (this file): definitions, the frame lemmas and all transitions except
  `retrEnd` / `parseEnd`.  Part 2 (`Uniq2`): those two and the theorem
  `ui_reach`.
-/
import LbzVerif.Lemmas.SchedD.Holder
import LbzVerif.Lemmas.SchedD.InSlots
import LbzVerif.Lemmas.SchedD.Pos
import LbzVerif.Lemmas.SchedD.Leak

namespace LbzVerif.Lemmas.SchedD
open LbzVerif.Model.SchedD LbzVerif.Gen

/-! ### definitions -/

def Job.baseL (j : Job) : List Nat := [j.base]
/-- the job was created by the scanner (it owns an unord_blk) -/
def Job.specL (j : Job) : List Nat := if j.ub.isSome then [j.base] else []
def UB.baseL (u : UB) : List Nat := [u.base]
def Phase.jobBase : Phase → List Nat
  | .retr j _ => Job.baseL j
  | _ => []
def Phase.specBase : Phase → List Nat
  | .retr j _ => Job.specL j
  | _ => []
def Phase.scanBlock : Phase → List Nat
  | .scan _ k => [k]
  | _ => []

/-- bases of all retrieve jobs (master or speculative), queued or running -/
def jobBases (s : State) : List Nat :=
  s.retrQ.flatMap Job.baseL ++ s.busy.flatMap Phase.jobBase
/-- bases of the finished-but-unconfirmed blocks -/
def orphanBases (s : State) : List Nat := s.orphans.flatMap UB.baseL
/-- bases of everything the scanner found and that is still around -/
def specBases (s : State) : List Nat :=
  s.retrQ.flatMap Job.specL ++ s.busy.flatMap Phase.specBase ++ orphanBases s
/-- input blocks with a scan task: a queued position `sp` works on block
    `sp / W`, a running `.scan st k` on block `k` -/
def scanBlocks (c : Cfg) (s : State) : List Nat :=
  s.scanQ.map (· / c.W) ++ s.busy.flatMap Phase.scanBlock
/-- an emit job or an output buffer of the block at `y` exists -/
def ItemBase (s : State) (y : Nat) : Prop :=
  (∃ e, EIn s e ∧ e.base = y) ∨ (∃ o ∈ s.reordQ, o.base = y)

/-! ### generic list facts -/

namespace Uniq

theorem flatMap_sublist {α β} (f : α → List β) {l' l : List α} (h : List.Sublist l' l) :
    List.Sublist (l'.flatMap f) (l.flatMap f) := by
  induction h with
  | slnil => exact List.Sublist.refl _
  | cons a _ ih =>
    simp only [List.flatMap_cons]
    exact ih.trans (List.sublist_append_right _ _)
  | cons_cons a _ ih =>
    simp only [List.flatMap_cons]
    exact List.Sublist.append (List.Sublist.refl _) ih

theorem flatMap_erase_perm {α β} [BEq α] [LawfulBEq α] (f : α → List β) {a : α} {l : List α}
    (h : a ∈ l) : List.Perm (l.flatMap f) (f a ++ (l.erase a).flatMap f) := by
  have := (List.perm_cons_erase h).flatMap_right f
  simpa only [List.flatMap_cons] using this

theorem flatMap_erase_nil {α β} [BEq α] [LawfulBEq α] (f : α → List β) {a : α} (l : List α)
    (h : f a = []) : (l.erase a).flatMap f = l.flatMap f := by
  induction l with
  | nil => rfl
  | cons x xs ih =>
    by_cases hx : x = a
    · subst hx; simp [h]
    · have : (x == a) = false := by simpa using hx
      simp only [List.erase_cons, this, Bool.false_eq_true, if_false, List.flatMap_cons, ih]

theorem flatMap_map_eq {α β} (f : α → List β) (g : α → α) (l : List α)
    (h : ∀ x, f (g x) = f x) : (l.map g).flatMap f = l.flatMap f := by
  induction l with
  | nil => rfl
  | cons x xs ih => simp only [List.map_cons, List.flatMap_cons, h, ih]

theorem flatMap_replaceFirst_eq {α β} (f : α → List β) (q : α → Bool) (g : α → α) (l : List α)
    (h : ∀ x, f (g x) = f x) : (replaceFirst q g l).flatMap f = l.flatMap f := by
  induction l with
  | nil => rfl
  | cons x xs ih =>
    simp only [replaceFirst]
    split
    · simp only [List.flatMap_cons, h]
    · simp only [List.flatMap_cons, ih]

theorem nodup_cons_middle {a : Nat} {l₁ l₂ : List Nat} (h : (l₁ ++ l₂).Nodup) (ha : a ∉ l₁ ++ l₂) :
    (l₁ ++ a :: l₂).Nodup :=
  (List.perm_middle.nodup_iff).2 (List.nodup_cons.2 ⟨ha, h⟩)

end Uniq
open Uniq

/-! ### membership -/

theorem mem_jobBases {s : State} {y : Nat} : y ∈ jobBases s ↔ ∃ j, JIn s j ∧ j.base = y := by
  simp only [jobBases, List.mem_append, List.mem_flatMap]
  constructor
  · rintro (⟨j, hj, hy⟩ | ⟨ph, hph, hy⟩)
    · simp only [Job.baseL, List.mem_singleton] at hy
      exact ⟨j, Or.inl hj, hy.symm⟩
    · cases ph with
      | retr j k =>
        simp only [Phase.jobBase, Job.baseL, List.mem_singleton] at hy
        exact ⟨j, Or.inr ⟨k, hph⟩, hy.symm⟩
      | retr2 e => simp [Phase.jobBase] at hy
      | emit e => simp [Phase.jobBase] at hy
      | scan a b => simp [Phase.jobBase] at hy
  · rintro ⟨j, hj | ⟨k, hk⟩, rfl⟩
    · exact Or.inl ⟨j, hj, by simp [Job.baseL]⟩
    · exact Or.inr ⟨_, hk, by simp [Phase.jobBase, Job.baseL]⟩

theorem mem_orphanBases {s : State} {y : Nat} :
    y ∈ orphanBases s ↔ ∃ u ∈ s.orphans, u.base = y := by
  simp only [orphanBases, List.mem_flatMap, UB.baseL, List.mem_singleton]
  constructor
  · rintro ⟨u, hu, rfl⟩; exact ⟨u, hu, rfl⟩
  · rintro ⟨u, hu, rfl⟩; exact ⟨u, hu, rfl⟩

theorem mem_specBases {s : State} {y : Nat} :
    y ∈ specBases s ↔ (∃ j, JIn s j ∧ j.ub.isSome = true ∧ j.base = y) ∨ y ∈ orphanBases s := by
  simp only [specBases, List.mem_append, List.mem_flatMap]
  constructor
  · rintro ((⟨j, hj, hy⟩ | ⟨ph, hph, hy⟩) | h)
    · unfold Job.specL at hy
      split at hy
      · next hs =>
        simp only [List.mem_singleton] at hy
        exact Or.inl ⟨j, Or.inl hj, hs, hy.symm⟩
      · simp at hy
    · cases ph with
      | retr j k =>
        simp only [Phase.specBase] at hy
        unfold Job.specL at hy
        split at hy
        · next hs =>
          simp only [List.mem_singleton] at hy
          exact Or.inl ⟨j, Or.inr ⟨k, hph⟩, hs, hy.symm⟩
        · simp at hy
      | retr2 e => simp [Phase.specBase] at hy
      | emit e => simp [Phase.specBase] at hy
      | scan a b => simp [Phase.specBase] at hy
    · exact Or.inr h
  · rintro (⟨j, hj | ⟨k, hk⟩, hs, rfl⟩ | h)
    · exact Or.inl (Or.inl ⟨j, hj, by simp [Job.specL, hs]⟩)
    · exact Or.inl (Or.inr ⟨_, hk, by simp [Phase.specBase, Job.specL, hs]⟩)
    · exact Or.inr h

theorem orphanBases_sub_spec {s : State} {y : Nat} (h : y ∈ orphanBases s) : y ∈ specBases s :=
  mem_specBases.2 (Or.inr h)

/-! ### the invariant, in two halves -/

/-- bases: jobs, orphans, items -/
structure UIB (s : State) : Prop where
  u1 : (jobBases s ++ orphanBases s).Nodup
  u2 : ∀ y, ItemBase s y → y ∉ jobBases s
  ib : s.pdone = false → ∀ y, ItemBase s y → y ≤ s.ppos ∨ y ∈ orphanBases s
  nq : s.pdone = false → ∀ j, JIn s j → ∀ f, j.ub = some f → f.inq = false → j.base ≤ s.ppos

/-- scan tasks: at most one per input block, and every scanner-found origin
    inside a task's block lies at or before the task's position -/
structure UIT (c : Cfg) (s : State) : Prop where
  t1 : (scanBlocks c s).Nodup
  tb : ∀ st k, Phase.scan st k ∈ s.busy → offs c k ≤ st
  dq : ∀ x ∈ specBases s, ∀ sp ∈ s.scanQ,
        offs c (sp / c.W) < x → x ≤ offs c (sp / c.W + 1) → x ≤ sp
  db : ∀ x ∈ specBases s, ∀ st k, Phase.scan st k ∈ s.busy →
        offs c k < x → x ≤ offs c (k + 1) → x ≤ st
  ot : ∀ x ∈ specBases s, x ≤ tailOffs c s

/-- `s'` is `s` with jobs / orphans / items removed or re-flagged and the parser
    position moved forward -/
structure ShB (s s' : State) : Prop where
  u1 : (jobBases s ++ orphanBases s).Nodup → (jobBases s' ++ orphanBases s').Nodup
  ji : ∀ j, JIn s' j → ∃ j0, JIn s j0 ∧ j0.base = j.base ∧
        (j.ub.isSome = true → j0.ub.isSome = true)
  ob : ∀ y ∈ orphanBases s', y ∈ orphanBases s
  it : ∀ y, ItemBase s' y → ItemBase s y
  pp : s'.pdone = false → s.pdone = false ∧ s.ppos ≤ s'.ppos
  ol : s'.pdone = false → ∀ y ∈ orphanBases s, y ∈ orphanBases s' ∨ y ≤ s'.ppos
  nq : s'.pdone = false → ∀ j, JIn s' j → ∀ f, j.ub = some f → f.inq = false →
        j.base ≤ s'.ppos ∨
        ∃ j0 f0, JIn s j0 ∧ j0.ub = some f0 ∧ f0.inq = false ∧ j0.base = j.base

/-- … and with scan tasks removed -/
structure ShT (c : Cfg) (s s' : State) : Prop where
  t1 : (scanBlocks c s).Nodup → (scanBlocks c s').Nodup
  sq : ∀ sp ∈ s'.scanQ, sp ∈ s.scanQ
  sc : ∀ st k, Phase.scan st k ∈ s'.busy → Phase.scan st k ∈ s.busy
  rd : s.rd ≤ s'.rd

theorem ShB.jb {s s' : State} (f : ShB s s') {y : Nat} (h : y ∈ jobBases s') : y ∈ jobBases s := by
  obtain ⟨j, hj, rfl⟩ := mem_jobBases.1 h
  obtain ⟨j0, h0, hb, _⟩ := f.ji j hj
  exact mem_jobBases.2 ⟨j0, h0, hb⟩

theorem ShB.sb {s s' : State} (f : ShB s s') {y : Nat} (h : y ∈ specBases s') :
    y ∈ specBases s := by
  rcases mem_specBases.1 h with ⟨j, hj, hs, rfl⟩ | h
  · obtain ⟨j0, h0, hb, hs0⟩ := f.ji j hj
    exact mem_specBases.2 (Or.inl ⟨j0, h0, hs0 hs, hb⟩)
  · exact mem_specBases.2 (Or.inr (f.ob y h))

theorem UIB_frame {s s' : State} (h : UIB s) (f : ShB s s') : UIB s' := by
  refine ⟨f.u1 h.u1, ?_, ?_, ?_⟩
  · intro y hy hj
    exact h.u2 y (f.it y hy) (f.jb hj)
  · intro hd y hy
    obtain ⟨hd0, hle⟩ := f.pp hd
    rcases h.ib hd0 y (f.it y hy) with h1 | h1
    · exact Or.inl (by omega)
    · rcases f.ol hd y h1 with h2 | h2
      · exact Or.inr h2
      · exact Or.inl h2
  · intro hd j hj fl hf hi
    obtain ⟨hd0, hle⟩ := f.pp hd
    rcases f.nq hd j hj fl hf hi with h1 | ⟨j0, f0, h0, hf0, hi0, hb⟩
    · exact h1
    · have := h.nq hd0 j0 h0 f0 hf0 hi0
      omega

theorem UIT_frame {c : Cfg} {s s' : State} (h : UIT c s) (fb : ShB s s') (ft : ShT c s s') :
    UIT c s' := by
  refine ⟨ft.t1 h.t1, ?_, ?_, ?_, ?_⟩
  · intro st k hm; exact h.tb st k (ft.sc st k hm)
  · intro x hx sp hsp; exact h.dq x (fb.sb hx) sp (ft.sq sp hsp)
  · intro x hx st k hm; exact h.db x (fb.sb hx) st k (ft.sc st k hm)
  · intro x hx
    have h1 := h.ot x (fb.sb hx)
    have h2 : tailOffs c s ≤ tailOffs c s' := offs_mono c ft.rd
    omega

/-- facts about a base that no job, orphan or item of `s` has -/
structure FreshB (s : State) (b : Nat) : Prop where
  nj : b ∉ jobBases s ++ orphanBases s
  ni : ¬ ItemBase s b

/-- the scan-task facts a scanner-found origin `b` needs -/
structure FreshT (c : Cfg) (s : State) (b : Nat) : Prop where
  sq : ∀ sp ∈ s.scanQ, offs c (sp / c.W) < b → b ≤ offs c (sp / c.W + 1) → b ≤ sp
  sb : ∀ st k, Phase.scan st k ∈ s.busy → offs c k < b → b ≤ offs c (k + 1) → b ≤ st
  st : b ≤ tailOffs c s

theorem FreshB_frame {s s' : State} {b : Nat} (h : FreshB s b) (f : ShB s s') : FreshB s' b := by
  refine ⟨?_, fun hi => h.ni (f.it b hi)⟩
  intro hm
  rcases List.mem_append.1 hm with hm | hm
  · exact h.nj (List.mem_append.2 (Or.inl (f.jb hm)))
  · exact h.nj (List.mem_append.2 (Or.inr (f.ob b hm)))

theorem FreshT_frame {c : Cfg} {s s' : State} {b : Nat} (h : FreshT c s b) (ft : ShT c s s') :
    FreshT c s' b := by
  refine ⟨fun sp hsp => h.sq sp (ft.sq sp hsp), fun st k hm => h.sb st k (ft.sc st k hm), ?_⟩
  have h1 := h.st
  have h2 : tailOffs c s ≤ tailOffs c s' := offs_mono c ft.rd
  omega


theorem UU_frame {c : Cfg} {s s' : State} (h : UIB s ∧ UIT c s) (fb : ShB s s')
    (ft : ShT c s s') : UIB s' ∧ UIT c s' :=
  ⟨UIB_frame h.1 fb, UIT_frame h.2 fb ft⟩

/-! ### frame constructors -/

theorem ItemBase_mono {s s' : State} (hE : ∀ e, EIn s' e → ItemBase s e.base)
    (hO : ∀ o ∈ s'.reordQ, ItemBase s o.base) : ∀ y, ItemBase s' y → ItemBase s y := by
  rintro y (⟨e, he, rfl⟩ | ⟨o, ho, rfl⟩)
  · exact hE e he
  · exact hO o ho

/-- only `busy` (by phases that are not retrieve jobs), the emit jobs and the
    output buffers change -/
theorem ShB_busy {s s' : State} (e1 : s'.retrQ = s.retrQ) (e2 : s'.orphans = s.orphans)
    (e5 : s'.ppos = s.ppos) (e6 : s'.pdone = s.pdone ∨ s'.pdone = true)
    (hj : List.Sublist (s'.busy.flatMap Phase.jobBase) (s.busy.flatMap Phase.jobBase))
    (hr : ∀ j k, Phase.retr j k ∈ s'.busy → Phase.retr j k ∈ s.busy)
    (hI : ∀ y, ItemBase s' y → ItemBase s y) : ShB s s' := by
  have hji : ∀ j, JIn s' j → JIn s j := by
    rintro j (hj' | ⟨k, hk⟩)
    · exact Or.inl (e1 ▸ hj')
    · exact Or.inr ⟨k, hr j k hk⟩
  have hpd : s'.pdone = false → s'.pdone = s.pdone := by
    intro hd
    rcases e6 with e | e
    · exact e
    · rw [e] at hd; cases hd
  refine ⟨?_, ?_, ?_, hI, ?_, ?_, ?_⟩
  · intro h
    refine List.Nodup.sublist ?_ h
    unfold jobBases orphanBases
    rw [e1, e2]
    exact List.Sublist.append (List.Sublist.append (List.Sublist.refl _) hj) (List.Sublist.refl _)
  · intro j hj'; exact ⟨j, hji j hj', rfl, fun h => h⟩
  · intro y hy; unfold orphanBases at hy ⊢; rw [e2] at hy; exact hy
  · intro hd; rw [← hpd hd, e5]; exact ⟨hd, Nat.le_refl _⟩
  · intro _ y hy; left; unfold orphanBases at hy ⊢; rw [e2]; exact hy
  · intro _ j hj' f hf hi; exact Or.inr ⟨j, f, hji j hj', hf, hi, rfl⟩

theorem ShT_busy {c : Cfg} {s s' : State} (hq : List.Sublist s'.scanQ s.scanQ)
    (hk : List.Sublist (s'.busy.flatMap Phase.scanBlock) (s.busy.flatMap Phase.scanBlock))
    (hs : ∀ st k, Phase.scan st k ∈ s'.busy → Phase.scan st k ∈ s.busy) (hr : s.rd ≤ s'.rd) :
    ShT c s s' :=
  ⟨fun h => List.Nodup.sublist (List.Sublist.append (hq.map _) hk) h,
    fun _ h => hq.subset h, hs, hr⟩

theorem ShB_same {s s' : State} (e1 : s'.retrQ = s.retrQ) (e2 : s'.orphans = s.orphans)
    (e3 : s'.busy = s.busy) (e4 : s'.emitQ = s.emitQ) (e5 : s'.reordQ = s.reordQ)
    (e6 : s'.ppos = s.ppos) (e7 : s'.pdone = s.pdone ∨ s'.pdone = true) : ShB s s' := by
  refine ShB_busy e1 e2 e6 e7 (by rw [e3]; exact List.Sublist.refl _) (by rw [e3]; exact fun _ _ h => h) ?_
  intro y hy
  simpa only [ItemBase, EIn, e3, e4, e5] using hy

theorem ShT_same {c : Cfg} {s s' : State} (e1 : s'.scanQ = s.scanQ) (e2 : s'.busy = s.busy)
    (e3 : s.rd ≤ s'.rd) : ShT c s s' :=
  ShT_busy (by rw [e1]; exact List.Sublist.refl _) (by rw [e2]; exact List.Sublist.refl _)
    (by rw [e2]; exact fun _ _ h => h) e3

theorem detach_eqs (s : State) (k : Option Nat) :
    (detach s k).retrQ = s.retrQ ∧ (detach s k).orphans = s.orphans ∧
    (detach s k).busy = s.busy ∧ (detach s k).emitQ = s.emitQ ∧
    (detach s k).reordQ = s.reordQ ∧ (detach s k).ppos = s.ppos ∧
    (detach s k).pdone = s.pdone ∧ (detach s k).scanQ = s.scanQ ∧ (detach s k).rd = s.rd := by
  unfold detach; split
  · exact ⟨rfl, rfl, rfl, rfl, rfl, rfl, rfl, rfl, rfl⟩
  · split <;> exact ⟨rfl, rfl, rfl, rfl, rfl, rfl, rfl, rfl, rfl⟩

theorem Sh_detach (c : Cfg) (s : State) (k : Option Nat) :
    ShB s (detach s k) ∧ ShT c s (detach s k) := by
  obtain ⟨e1, e2, e3, e4, e5, e6, e7, e8, e9⟩ := detach_eqs s k
  exact ⟨ShB_same e1 e2 e3 e4 e5 e6 (Or.inl e7), ShT_same e8 e3 (Nat.le_of_eq e9.symm)⟩

/-- removing a busy phase -/
theorem Sh_busy_erase (c : Cfg) (s : State) (ph : Phase) :
    ShB s { s with busy := s.busy.erase ph } ∧ ShT c s { s with busy := s.busy.erase ph } := by
  refine ⟨ShB_busy rfl rfl rfl (Or.inl rfl) (flatMap_sublist _ List.erase_sublist)
    (fun _ _ h => List.mem_of_mem_erase h) ?_,
    ShT_busy (List.Sublist.refl _) (flatMap_sublist _ List.erase_sublist)
      (fun _ _ h => List.mem_of_mem_erase h) (Nat.le_refl _)⟩
  refine ItemBase_mono ?_ (fun o ho => Or.inr ⟨o, ho, rfl⟩)
  rintro e (he | he | he)
  · exact Or.inl ⟨e, Or.inl he, rfl⟩
  · exact Or.inl ⟨e, Or.inr (Or.inl (List.mem_of_mem_erase he)), rfl⟩
  · exact Or.inl ⟨e, Or.inr (Or.inr (List.mem_of_mem_erase he)), rfl⟩

/-- `advance(p)` with `p` at or after the parser position -/
theorem Sh_advance {c : Cfg} {s : State} (p : Nat) (hp : s.pdone = false → s.ppos ≤ p) :
    ShB s (advance c s p) ∧ ShT c s (advance c s p) := by
  have hji : ∀ j, JIn (advance c s p) j → JIn s j := by
    rintro j (hj | ⟨k, hk⟩)
    · exact Or.inl (List.mem_filter.1 hj).1
    · exact Or.inr ⟨k, hk⟩
  refine ⟨⟨?_, ?_, fun _ h => h, fun _ h => h, fun hd => ⟨hd, hp hd⟩, fun _ _ h => Or.inl h, ?_⟩,
    ShT_busy List.filter_sublist (List.Sublist.refl _) (fun _ _ h => h) (Nat.le_refl _)⟩
  · intro h
    refine List.Nodup.sublist ?_ h
    exact List.Sublist.append
      (List.Sublist.append (flatMap_sublist _ List.filter_sublist) (List.Sublist.refl _))
      (List.Sublist.refl _)
  · intro j hj; exact ⟨j, hji j hj, rfl, fun h => h⟩
  · intro _ j hj f hf hi; exact Or.inr ⟨j, f, hji j hj, hf, hi, rfl⟩

/-! ### adding a retrieve job -/

theorem JIn_addJob {s : State} (jn : Job) :
    ∀ j, JIn { s with retrQ := jn :: s.retrQ } j → j = jn ∨ JIn s j := by
  rintro j (hj | ⟨k, hk⟩)
  · rcases List.mem_cons.1 hj with e | hm
    · exact Or.inl e
    · exact Or.inr (Or.inl hm)
  · exact Or.inr (Or.inr ⟨k, hk⟩)

theorem specBases_addJob {s : State} (jn : Job) :
    ∀ x, x ∈ specBases { s with retrQ := jn :: s.retrQ } →
      (jn.ub.isSome = true ∧ x = jn.base) ∨ x ∈ specBases s := by
  intro x hx
  rcases mem_specBases.1 hx with ⟨j, hj, hs, rfl⟩ | ho
  · rcases JIn_addJob jn j hj with rfl | hj
    · exact Or.inl ⟨hs, rfl⟩
    · exact Or.inr (mem_specBases.2 (Or.inl ⟨j, hj, hs, rfl⟩))
  · exact Or.inr (mem_specBases.2 (Or.inr ho))

theorem UU_addJob {c : Cfg} {s : State} (jn : Job) (h : UIB s ∧ UIT c s)
    (fb : FreshB s jn.base) (ft : jn.ub.isSome = true → FreshT c s jn.base)
    (hn : s.pdone = false → ∀ f, jn.ub = some f → f.inq = false → jn.base ≤ s.ppos) :
    UIB { s with retrQ := jn :: s.retrQ } ∧ UIT c { s with retrQ := jn :: s.retrQ } := by
  obtain ⟨hB, hT⟩ := h
  have hjb : jobBases { s with retrQ := jn :: s.retrQ } = jn.base :: jobBases s := by
    simp only [jobBases, List.flatMap_cons, Job.baseL, List.cons_append, List.nil_append]
  have hji := JIn_addJob (s := s) jn
  have hspec := specBases_addJob (s := s) jn
  refine ⟨⟨?_, ?_, ?_, ?_⟩, ⟨hT.t1, hT.tb, ?_, ?_, ?_⟩⟩
  · show (jobBases { s with retrQ := jn :: s.retrQ } ++ orphanBases s).Nodup
    rw [hjb, List.cons_append]
    exact List.nodup_cons.2 ⟨fb.nj, hB.u1⟩
  · intro y hy hm
    rw [hjb] at hm
    rcases List.mem_cons.1 hm with e | hm
    · subst e; exact fb.ni hy
    · exact hB.u2 y hy hm
  · intro hd y hy; exact hB.ib hd y hy
  · intro hd j hj f hf hi
    rcases hji j hj with rfl | hj
    · exact hn hd f hf hi
    · exact hB.nq hd j hj f hf hi
  · intro x hx sp hsp
    rcases hspec x hx with ⟨hs, rfl⟩ | hx
    · exact (ft hs).sq sp hsp
    · exact hT.dq x hx sp hsp
  · intro x hx st k hm
    rcases hspec x hx with ⟨hs, rfl⟩ | hx
    · exact (ft hs).sb st k hm
    · exact hT.db x hx st k hm
  · intro x hx
    rcases hspec x hx with ⟨hs, rfl⟩ | hx
    · exact (ft hs).st
    · exact hT.ot x hx


/-! ### scan tasks -/

theorem mem_scanBlocks {c : Cfg} {s : State} {y : Nat} :
    y ∈ scanBlocks c s ↔ (∃ sp ∈ s.scanQ, sp / c.W = y) ∨ (∃ st, Phase.scan st y ∈ s.busy) := by
  simp only [scanBlocks, List.mem_append, List.mem_map, List.mem_flatMap]
  constructor
  · rintro (h | ⟨ph, hph, hy⟩)
    · exact Or.inl h
    · cases ph with
      | scan a b =>
        simp only [Phase.scanBlock, List.mem_singleton] at hy
        subst hy; exact Or.inr ⟨a, hph⟩
      | retr j k => simp [Phase.scanBlock] at hy
      | retr2 e => simp [Phase.scanBlock] at hy
      | emit e => simp [Phase.scanBlock] at hy
  · rintro (h | ⟨st, h⟩)
    · exact Or.inl h
    · exact Or.inr ⟨_, h, by simp [Phase.scanBlock]⟩

theorem scanBlocks_detach (c : Cfg) (s : State) (k : Option Nat) :
    scanBlocks c (detach s k) = scanBlocks c s := by
  obtain ⟨_, _, e3, _, _, _, _, e8, _⟩ := detach_eqs s k
  unfold scanBlocks; rw [e3, e8]

/-- a position strictly inside block `k`'s scan range lies in no other block's range -/
theorem block_excl {c : Cfg} {k k' st x : Nat} (hne : k' ≠ k) (ta : offs c k ≤ st) (hx1 : st < x)
    (hx2 : x ≤ offs c (k + 1)) (h1 : offs c k' < x) (h2 : x ≤ offs c (k' + 1)) : False := by
  rcases Nat.lt_or_gt_of_ne hne with hlt | hgt
  · have := offs_mono c (show k' + 1 ≤ k by omega); omega
  · have := offs_mono c (show k + 1 ≤ k' by omega); omega

theorem div_eq_block {c : Cfg} {k st x : Nat} (ta : offs c k ≤ st) (h1 : st < x)
    (h2 : x < offs c (k + 1)) : x / c.W = k := by
  unfold offs at ta h2
  have e : (k + 1) * c.W = k * c.W + c.W := Nat.succ_mul _ _
  apply Nat.div_eq_of_lt_le <;> omega

/-! ### simple steps -/

theorem UU_rTake {c : Cfg} {s s' : State} (h : UIB s ∧ UIT c s) (hs : stepRTake s = some s') :
    UIB s' ∧ UIT c s' := by
  unfold stepRTake at hs; split at hs <;> simp at hs; subst hs
  exact UU_frame h (ShB_same rfl rfl rfl rfl rfl rfl (Or.inl rfl)) (ShT_same rfl rfl (Nat.le_refl _))

theorem UU_rQuit {c : Cfg} {s s' : State} (h : UIB s ∧ UIT c s) (hs : stepRQuit s = some s') :
    UIB s' ∧ UIT c s' := by
  unfold stepRQuit at hs; split at hs <;> simp at hs; subst hs
  exact UU_frame h (ShB_same rfl rfl rfl rfl rfl rfl (Or.inl rfl)) (ShT_same rfl rfl (Nat.le_refl _))

theorem UU_rEmpty {c : Cfg} {s s' : State} (h : UIB s ∧ UIT c s) (hs : stepREmpty c s = some s') :
    UIB s' ∧ UIT c s' := by
  unfold stepREmpty at hs; split at hs <;> simp at hs; subst hs
  exact UU_frame h (ShB_same rfl rfl rfl rfl rfl rfl (Or.inl rfl)) (ShT_same rfl rfl (Nat.le_refl _))

theorem UU_rEof {c : Cfg} {s s' : State} (h : UIB s ∧ UIT c s) (hs : stepREof s = some s') :
    UIB s' ∧ UIT c s' := by
  unfold stepREof at hs; split at hs <;> simp at hs; subst hs
  exact UU_frame h (ShB_same rfl rfl rfl rfl rfl rfl (Or.inl rfl)) (ShT_same rfl rfl (Nat.le_refl _))

theorem UU_wDone {c : Cfg} {s s' : State} (h : UIB s ∧ UIT c s) (hs : stepWDone s = some s') :
    UIB s' ∧ UIT c s' := by
  unfold stepWDone at hs; split at hs <;> simp at hs; subst hs
  exact UU_frame h (ShB_same rfl rfl rfl rfl rfl rfl (Or.inl rfl)) (ShT_same rfl rfl (Nat.le_refl _))

theorem UU_parseStart {c : Cfg} {s s' : State} (h : UIB s ∧ UIT c s)
    (hs : stepParseStart c s = some s') : UIB s' ∧ UIT c s' := by
  unfold stepParseStart at hs; split at hs
  · simp only [Option.some.injEq] at hs; subst hs
    exact UU_frame h (ShB_same rfl rfl rfl rfl rfl rfl (Or.inl rfl)) (ShT_same rfl rfl (Nat.le_refl _))
  · simp at hs

theorem Sh_reorder (c : Cfg) (s : State) (ob : OB) :
    ShB s { s with reordQ := s.reordQ.erase ob } ∧ ShT c s { s with reordQ := s.reordQ.erase ob } := by
  refine ⟨ShB_busy rfl rfl rfl (Or.inl rfl) (List.Sublist.refl _) (fun _ _ h => h) ?_,
    ShT_same rfl rfl (Nat.le_refl _)⟩
  exact ItemBase_mono (fun e he => Or.inl ⟨e, he, rfl⟩)
    (fun o ho => Or.inr ⟨o, List.mem_of_mem_erase ho, rfl⟩)

theorem UU_reorder {c : Cfg} {s s' : State} {ob : OB} (h : UIB s ∧ UIT c s)
    (hs : stepReorder c s ob = some s') : UIB s' ∧ UIT c s' := by
  obtain ⟨fb, ft⟩ := Sh_reorder c s ob
  have h1 := UU_frame h fb ft
  unfold stepReorder at hs; split at hs
  · split at hs
    · simp only [Option.some.injEq] at hs; subst hs
      exact UU_frame h1 (ShB_same rfl rfl rfl rfl rfl rfl (Or.inl rfl)) (ShT_same rfl rfl (Nat.le_refl _))
    · split at hs <;> simp only [Option.some.injEq] at hs <;> subst hs <;>
        exact UU_frame h1 (ShB_same rfl rfl rfl rfl rfl rfl (Or.inl rfl))
          (ShT_same rfl rfl (Nat.le_refl _))
  · simp at hs

theorem UU_rBlock {c : Cfg} (hW : 0 < c.W) {s s' : State} (h : UIB s ∧ UIT c s) (hQ : SQ c s)
    (hs : stepRBlock c s = some s') : UIB s' ∧ UIT c s' := by
  unfold stepRBlock at hs; split at hs
  · next hg =>
    simp only [Bool.and_eq_true, beq_iff_eq, decide_eq_true_eq] at hg
    dsimp only at hs; split at hs <;> simp only [Option.some.injEq] at hs <;> subst hs
    · exact UU_frame h (ShB_same rfl rfl rfl rfl rfl rfl (Or.inl rfl))
        (ShT_same rfl rfl (Nat.le_refl _))
    · obtain ⟨hB, hT⟩ := h
      refine ⟨UIB_frame hB (ShB_same rfl rfl rfl rfl rfl rfl (Or.inl rfl)), ?_⟩
      have hmul : s.rd * c.W ≤ s.nread * c.W := Nat.mul_le_mul_right _ hQ.rn
      have ho : offs c s.rd = s.rd * c.W := by unfold offs; omega
      have hdiv : offs c s.rd / c.W = s.rd := by rw [ho]; exact Nat.mul_div_cancel _ hW
      refine ⟨?_, hT.tb, ?_, hT.db, ?_⟩
      · show ((offs c s.rd / c.W) :: scanBlocks c s).Nodup
        rw [hdiv]
        refine List.nodup_cons.2 ⟨?_, hT.t1⟩
        intro hm
        rcases mem_scanBlocks.1 hm with ⟨sp, hsp, e⟩ | ⟨st, hst⟩
        · have := div_lt_of_lt_offs (hQ.sq sp hsp); omega
        · have : s.rd < s.rd := hQ.bk _ hst
          omega
      · intro x hx sp hsp h1 h2
        rcases List.mem_cons.1 hsp with e | hm
        · subst e
          rw [hdiv] at h1
          have : x ≤ offs c s.rd := hT.ot x hx
          omega
        · exact hT.dq x hx sp hm h1 h2
      · intro x hx
        have h1 : x ≤ offs c s.rd := hT.ot x hx
        have h2 := offs_mono c (Nat.le_add_right s.rd 1)
        show x ≤ offs c (s.rd + 1)
        omega
  · simp at hs

theorem Sh_retrStart (c : Cfg) (s : State) {j j' : Job} (k : Option Nat) (hj : j ∈ s.retrQ)
    (hb : j'.base = j.base) (hu : j'.ub = j.ub) :
    ShB s { s with retrQ := s.retrQ.erase j, busy := .retr j' k :: s.busy } ∧
    ShT c s { s with retrQ := s.retrQ.erase j, busy := .retr j' k :: s.busy } := by
  have hji : ∀ x, JIn { s with retrQ := s.retrQ.erase j, busy := .retr j' k :: s.busy } x →
      ∃ j0, JIn s j0 ∧ j0.base = x.base ∧ j0.ub = x.ub := by
    rintro x (hq | ⟨k', hk'⟩)
    · exact ⟨x, Or.inl (List.mem_of_mem_erase hq), rfl, rfl⟩
    · rcases List.mem_cons.1 hk' with e | hm
      · injection e with e1 e2
        rw [e1]; exact ⟨j, Or.inl hj, hb.symm, hu.symm⟩
      · exact ⟨x, Or.inr ⟨k', hm⟩, rfl, rfl⟩
  constructor
  · refine ⟨?_, ?_, fun _ h => h, ?_, fun hd => ⟨hd, Nat.le_refl _⟩, fun _ _ h => Or.inl h, ?_⟩
    · intro hn
      have p1 := flatMap_erase_perm Job.baseL hj
      have p2 : List.Perm (jobBases s ++ orphanBases s)
          ((s.retrQ.erase j).flatMap Job.baseL ++ j.base :: s.busy.flatMap Phase.jobBase
            ++ orphanBases s) :=
        List.Perm.append_right _ ((p1.append_right _).trans List.perm_middle.symm)
      have := (p2.nodup_iff).1 hn
      simpa only [jobBases, orphanBases, List.flatMap_cons, Phase.jobBase, Job.baseL,
        List.cons_append, List.nil_append, hb] using this
    · intro x hx
      obtain ⟨j0, h0, hb0, hu0⟩ := hji x hx
      exact ⟨j0, h0, hb0, fun hs => by rw [hu0]; exact hs⟩
    · refine ItemBase_mono ?_ (fun o ho => Or.inr ⟨o, ho, rfl⟩)
      rintro e (he | he | he)
      · exact Or.inl ⟨e, Or.inl he, rfl⟩
      · rcases List.mem_cons.1 he with e' | hm
        · cases e'
        · exact Or.inl ⟨e, Or.inr (Or.inl hm), rfl⟩
      · rcases List.mem_cons.1 he with e' | hm
        · cases e'
        · exact Or.inl ⟨e, Or.inr (Or.inr hm), rfl⟩
    · intro _ x hx f hf hi
      obtain ⟨j0, h0, hb0, hu0⟩ := hji x hx
      exact Or.inr ⟨j0, f, h0, by rw [hu0]; exact hf, hi, hb0⟩
  · refine ShT_busy (List.Sublist.refl _) ?_ ?_ (Nat.le_refl _)
    · simp only [List.flatMap_cons, Phase.scanBlock, List.nil_append]
      exact List.Sublist.refl _
    · intro st k' hm
      rcases List.mem_cons.1 hm with e | hm
      · cases e
      · exact hm

theorem UU_retrStart {c : Cfg} {s s' : State} {j : Job} (h : UIB s ∧ UIT c s)
    (hs : stepRetrStart c s j = some s') : UIB s' ∧ UIT c s' := by
  unfold stepRetrStart at hs; split at hs
  · next hg =>
    simp only [Bool.and_eq_true, List.contains_iff_mem] at hg
    have hj : j ∈ s.retrQ := hg.1.2
    simp only [Option.some.injEq] at hs; subst hs
    obtain ⟨fb, ft⟩ := Sh_retrStart c s (j' := { j with corrupt := j.corrupt || decide (j.curr < headOffs c s) })
      (if tailOffs c s ≤ j.curr then none
        else if decide (j.curr < headOffs c s) then (if s.head < s.rd then some s.head else none)
        else some (j.curr / c.W)) hj rfl rfl
    exact UU_frame h fb ft
  · simp at hs

theorem UU_retrPost {c : Cfg} {s s' : State} {e : EJob} (h : UIB s ∧ UIT c s)
    (hs : stepRetrPost s e = some s') : UIB s' ∧ UIT c s' := by
  unfold stepRetrPost at hs; split at hs
  · next hg =>
    have hm : Phase.retr2 e ∈ s.busy := by simpa using hg
    simp only [Option.some.injEq] at hs; subst hs
    refine UU_frame h (ShB_busy rfl rfl rfl (Or.inl rfl) (flatMap_sublist _ List.erase_sublist)
      (fun _ _ h => List.mem_of_mem_erase h) ?_)
      (ShT_busy (List.Sublist.refl _) (flatMap_sublist _ List.erase_sublist)
        (fun _ _ h => List.mem_of_mem_erase h) (Nat.le_refl _))
    refine ItemBase_mono ?_ (fun o ho => Or.inr ⟨o, ho, rfl⟩)
    rintro x (he | he | he)
    · rcases List.mem_cons.1 he with e' | hm'
      · rw [e']; exact Or.inl ⟨e, Or.inr (Or.inl hm), rfl⟩
      · exact Or.inl ⟨x, Or.inl hm', rfl⟩
    · exact Or.inl ⟨x, Or.inr (Or.inl (List.mem_of_mem_erase he)), rfl⟩
    · exact Or.inl ⟨x, Or.inr (Or.inr (List.mem_of_mem_erase he)), rfl⟩
  · simp at hs

theorem UU_emitStart {c : Cfg} {s s' : State} {e : EJob} (h : UIB s ∧ UIT c s)
    (hs : stepEmitStart c s e = some s') : UIB s' ∧ UIT c s' := by
  unfold stepEmitStart at hs; split at hs
  · next hg =>
    simp only [Bool.and_eq_true, List.contains_iff_mem] at hg
    have hm : e ∈ s.emitQ := hg.1.2
    simp only [Option.some.injEq] at hs; subst hs
    refine UU_frame h (ShB_busy rfl rfl rfl (Or.inl rfl) ?_ ?_ ?_) (ShT_busy (List.Sublist.refl _) ?_ ?_ (Nat.le_refl _))
    · simp only [List.flatMap_cons, Phase.jobBase, List.nil_append]; exact List.Sublist.refl _
    · intro j k hk
      rcases List.mem_cons.1 hk with e' | hk
      · cases e'
      · exact hk
    · refine ItemBase_mono ?_ (fun o ho => Or.inr ⟨o, ho, rfl⟩)
      rintro x (he | he | he)
      · exact Or.inl ⟨x, Or.inl (List.mem_of_mem_erase he), rfl⟩
      · rcases List.mem_cons.1 he with e' | hm'
        · cases e'
        · exact Or.inl ⟨x, Or.inr (Or.inl hm'), rfl⟩
      · rcases List.mem_cons.1 he with e' | hm'
        · injection e' with e''; rw [e'']; exact Or.inl ⟨e, Or.inl hm, rfl⟩
        · exact Or.inl ⟨x, Or.inr (Or.inr hm'), rfl⟩
    · simp only [List.flatMap_cons, Phase.scanBlock, List.nil_append]; exact List.Sublist.refl _
    · intro st k hk
      rcases List.mem_cons.1 hk with e' | hk
      · cases e'
      · exact hk
  · simp at hs

theorem UU_emitEnd {c : Cfg} {s s' : State} {e : EJob} (h : UIB s ∧ UIT c s)
    (hs : stepEmitEnd s e = some s') : UIB s' ∧ UIT c s' := by
  unfold stepEmitEnd at hs; split at hs
  · next hg =>
    have hm : Phase.emit e ∈ s.busy := by simpa using hg
    have hie : ItemBase s e.base := Or.inl ⟨e, Or.inr (Or.inr hm), rfl⟩
    have hE : ∀ x, EIn { s with busy := s.busy.erase (.emit e) } x → ItemBase s x.base := by
      rintro x (he | he | he)
      · exact Or.inl ⟨x, Or.inl he, rfl⟩
      · exact Or.inl ⟨x, Or.inr (Or.inl (List.mem_of_mem_erase he)), rfl⟩
      · exact Or.inl ⟨x, Or.inr (Or.inr (List.mem_of_mem_erase he)), rfl⟩
    dsimp only at hs
    split at hs <;> simp only [Option.some.injEq] at hs <;> subst hs
    · refine UU_frame h (ShB_busy rfl rfl rfl (Or.inl rfl) (flatMap_sublist _ List.erase_sublist)
        (fun _ _ h => List.mem_of_mem_erase h) ?_)
        (ShT_busy (List.Sublist.refl _) (flatMap_sublist _ List.erase_sublist)
          (fun _ _ h => List.mem_of_mem_erase h) (Nat.le_refl _))
      refine ItemBase_mono ?_ ?_
      · rintro x (he | he | he)
        · rcases List.mem_cons.1 he with e' | hm'
          · subst e'; exact hie
          · exact hE x (Or.inl hm')
        · exact hE x (Or.inr (Or.inl he))
        · exact hE x (Or.inr (Or.inr he))
      · intro o ho
        rcases List.mem_cons.1 ho with e' | hm'
        · subst e'; exact hie
        · exact Or.inr ⟨o, hm', rfl⟩
    · refine UU_frame h (ShB_busy rfl rfl rfl (Or.inl rfl) (flatMap_sublist _ List.erase_sublist)
        (fun _ _ h => List.mem_of_mem_erase h) ?_)
        (ShT_busy (List.Sublist.refl _) (flatMap_sublist _ List.erase_sublist)
          (fun _ _ h => List.mem_of_mem_erase h) (Nat.le_refl _))
      refine ItemBase_mono (fun x hx => hE x hx) ?_
      intro o ho
      rcases List.mem_cons.1 ho with e' | hm'
      · subst e'; exact hie
      · exact Or.inr ⟨o, hm', rfl⟩
  · simp at hs


/-! ### scanStart -/

/-- a scan task moves from `scan_q` into a worker -/
theorem UU_scanMove {c : Cfg} {s : State} {sp start : Nat} (h : UIB s ∧ UIT c s)
    (hsp : sp ∈ s.scanQ) (hge : sp ≤ start) :
    UIB { s with scanQ := s.scanQ.erase sp, busy := .scan start (sp / c.W) :: s.busy } ∧
    UIT c { s with scanQ := s.scanQ.erase sp, busy := .scan start (sp / c.W) :: s.busy } := by
  obtain ⟨hB, hT⟩ := h
  have fb : ShB s { s with scanQ := s.scanQ.erase sp, busy := .scan start (sp / c.W) :: s.busy } := by
    refine ShB_busy rfl rfl rfl (Or.inl rfl) ?_ ?_ ?_
    · simp only [List.flatMap_cons, Phase.jobBase, List.nil_append]; exact List.Sublist.refl _
    · intro j k hk
      rcases List.mem_cons.1 hk with e' | hk
      · cases e'
      · exact hk
    · refine ItemBase_mono ?_ (fun o ho => Or.inr ⟨o, ho, rfl⟩)
      rintro x (he | he | he)
      · exact Or.inl ⟨x, Or.inl he, rfl⟩
      · rcases List.mem_cons.1 he with e' | hm'
        · cases e'
        · exact Or.inl ⟨x, Or.inr (Or.inl hm'), rfl⟩
      · rcases List.mem_cons.1 he with e' | hm'
        · cases e'
        · exact Or.inl ⟨x, Or.inr (Or.inr hm'), rfl⟩
  refine ⟨UIB_frame hB fb, ?_, ?_, ?_, ?_, ?_⟩
  · have p1 : List.Perm (s.scanQ.map (· / c.W)) ((sp / c.W) :: (s.scanQ.erase sp).map (· / c.W)) :=
      (List.perm_cons_erase hsp).map _
    have p2 : List.Perm (scanBlocks c s)
        ((s.scanQ.erase sp).map (· / c.W) ++ (sp / c.W) :: s.busy.flatMap Phase.scanBlock) :=
      (p1.append_right _).trans List.perm_middle.symm
    have := (p2.nodup_iff).1 hT.t1
    simpa only [scanBlocks, List.flatMap_cons, Phase.scanBlock, List.cons_append,
      List.nil_append] using this
  · intro st k hm
    rcases List.mem_cons.1 hm with e | hm
    · injection e with e1 e2
      subst e1; subst e2
      have := Nat.div_mul_le_self sp c.W
      unfold offs; omega
    · exact hT.tb st k hm
  · intro x hx q hq
    exact hT.dq x (fb.sb hx) q (List.mem_of_mem_erase hq)
  · intro x hx st k hm h1 h2
    rcases List.mem_cons.1 hm with e | hm
    · injection e with e1 e2
      subst e1; subst e2
      have := hT.dq x (fb.sb hx) sp hsp h1 h2
      omega
    · exact hT.db x (fb.sb hx) st k hm h1 h2
  · intro x hx; exact hT.ot x (fb.sb hx)

theorem UU_scanStart {c : Cfg} {s s' : State} {sp : Nat} (h : UIB s ∧ UIT c s)
    (hs : stepScanStart c s sp = some s') : UIB s' ∧ UIT c s' := by
  unfold stepScanStart at hs; split at hs
  · next hg =>
    simp only [Bool.and_eq_true, List.contains_iff_mem] at hg
    have hsp : sp ∈ s.scanQ := hg.1.2
    simp only [Option.some.injEq] at hs; subst hs
    have hge : sp ≤ (if sp / c.W == s.ppos / c.W && sp < s.ppos then s.ppos else sp) := by
      split
      · next hc =>
        simp only [Bool.and_eq_true, decide_eq_true_eq] at hc
        omega
      · exact Nat.le_refl _
    have h1 := UU_scanMove (c := c) h hsp hge
    exact UU_frame h1 (ShB_same rfl rfl rfl rfl rfl rfl (Or.inl rfl)) (ShT_same rfl rfl (Nat.le_refl _))
  · simp at hs

/-! ### scanEnd -/

theorem UU_scanNew {c : Cfg} {s1 : State} {x st k : Nat} (h : UIB s1 ∧ UIT c s1) (hP : PI c s1)
    (hd : s1.pdone = false) (ta : offs c k ≤ st)
    (tsp : ∀ y ∈ specBases s1, offs c k < y → y ≤ offs c (k + 1) → y ≤ st)
    (tk : k ∉ scanBlocks c s1) (trd : k < s1.rd) (hx1 : st < x) (hx2 : x ≤ offs c (k + 1)) :
    (UIB (scanNew c s1 x) ∧ UIT c (scanNew c s1 x)) ∧
    (∀ y ∈ specBases (scanNew c s1 x), offs c k < y → y ≤ offs c (k + 1) → y ≤ x) ∧
    k ∉ scanBlocks c (scanNew c s1 x) := by
  unfold scanNew; split
  · refine ⟨UU_frame h (ShB_same rfl rfl rfl rfl rfl rfl (Or.inl rfl))
      (ShT_same rfl rfl (Nat.le_refl _)), ?_, tk⟩
    intro y hy h1 h2
    have := tsp y hy h1 h2
    omega
  · next hx' =>
    have hns : x ∉ specBases s1 := fun hm => by
      have := tsp x hm (by omega) hx2; omega
    have fb : FreshB s1 x := by
      refine ⟨?_, ?_⟩
      · intro hm
        rcases List.mem_append.1 hm with hm | hm
        · obtain ⟨j, hj, hb⟩ := mem_jobBases.1 hm
          cases hu : j.ub with
          | none =>
            have hmc : Job.mc j = true := by unfold Job.mc; rw [hu]
            have := hP.mb j hj hmc
            omega
          | some f =>
            exact hns (mem_specBases.2 (Or.inl ⟨j, hj, by rw [hu]; rfl, hb⟩))
        · exact hns (orphanBases_sub_spec hm)
      · intro hi
        rcases h.1.ib hd x hi with h1 | h1
        · omega
        · exact hns (orphanBases_sub_spec h1)
    have ft : FreshT c s1 x := by
      refine ⟨?_, ?_, ?_⟩
      · intro sp hsp h1 h2
        have hne : sp / c.W ≠ k := fun e => tk (mem_scanBlocks.2 (Or.inl ⟨sp, hsp, e⟩))
        exact (block_excl hne ta hx1 hx2 h1 h2).elim
      · intro st' k' hm h1 h2
        have hne : k' ≠ k := fun e => tk (mem_scanBlocks.2 (Or.inr ⟨st', e ▸ hm⟩))
        exact (block_excl hne ta hx1 hx2 h1 h2).elim
      · have := offs_mono c (show k + 1 ≤ s1.rd from trd)
        show x ≤ offs c s1.rd
        omega
    refine ⟨UU_addJob
      { curr := x, base := x,
        ub := some { endp := x, complete := false, legit := false, inq := true },
        corrupt := false } h fb (fun _ => ft) ?_, ?_, tk⟩
    · intro _ f hf hi
      simp only [Option.some.injEq] at hf
      subst hf; cases hi
    · intro y hy h1 h2
      rcases specBases_addJob _ y hy with ⟨_, e⟩ | hy
      · exact Nat.le_of_eq e
      · have := tsp y hy h1 h2
        omega

theorem UU_requeue {c : Cfg} {s2 : State} {x st k : Nat} (h : UIB s2 ∧ UIT c s2)
    (ta : offs c k ≤ st) (hx1 : st < x) (hx2 : x ≤ offs c (k + 1))
    (tsp : ∀ y ∈ specBases s2, offs c k < y → y ≤ offs c (k + 1) → y ≤ x)
    (tk : k ∉ scanBlocks c s2) :
    UIB (scanRequeue c s2 x (offs c (k + 1))) ∧ UIT c (scanRequeue c s2 x (offs c (k + 1))) := by
  unfold scanRequeue; split
  · next hq =>
    simp only [Bool.and_eq_true, bne_iff_ne, ne_eq, decide_eq_true_eq] at hq
    have hdiv : x / c.W = k := div_eq_block ta hx1 (by omega)
    obtain ⟨hB, hT⟩ := h
    refine ⟨UIB_frame hB (ShB_same rfl rfl rfl rfl rfl rfl (Or.inl rfl)), ?_, hT.tb, ?_, hT.db, hT.ot⟩
    · show ((x / c.W) :: scanBlocks c s2).Nodup
      rw [hdiv]
      exact List.nodup_cons.2 ⟨tk, hT.t1⟩
    · intro y hy sp hsp h1 h2
      rcases List.mem_cons.1 hsp with e | hm
      · subst e
        rw [hdiv] at h1 h2
        exact tsp y hy h1 h2
      · exact hT.dq y hy sp hm h1 h2
  · exact h

theorem UU_scanEnd {c : Cfg} {s s' : State} {st k : Nat} (h : UIB s ∧ UIT c s) (hP : PI c s)
    (hQ : SQ c s) (hs : stepScanEnd c s st k = some s') : UIB s' ∧ UIT c s' := by
  unfold stepScanEnd at hs; split at hs
  · next hg =>
    have hm : Phase.scan st k ∈ s.busy := by simpa using hg
    have hk : k < s.rd := hQ.bk _ hm
    have ta := h.2.tb st k hm
    obtain ⟨b0, t0⟩ := Sh_busy_erase c s (.scan st k)
    obtain ⟨bd, td⟩ := Sh_detach c { s with busy := s.busy.erase (.scan st k) } (some k)
    have h1 := UU_frame (UU_frame h b0 t0) bd td
    have hP1 : PI c (detach { s with busy := s.busy.erase (.scan st k) } (some k)) :=
      PI_detach _ (PI_busy_erase _ hP)
    have tk1 : k ∉ scanBlocks c (detach { s with busy := s.busy.erase (.scan st k) } (some k)) := by
      rw [scanBlocks_detach]
      have hp := flatMap_erase_perm Phase.scanBlock hm
      have hn := ((List.Perm.append_left (s.scanQ.map (· / c.W)) hp).nodup_iff).1 h.2.t1
      have hn2 : (k :: (s.scanQ.map (· / c.W) ++ (s.busy.erase (.scan st k)).flatMap Phase.scanBlock)).Nodup :=
        (List.perm_middle.nodup_iff).1 hn
      exact (List.nodup_cons.1 hn2).1
    have tsp : ∀ y ∈ specBases (detach { s with busy := s.busy.erase (.scan st k) } (some k)),
        offs c k < y → y ≤ offs c (k + 1) → y ≤ st :=
      fun y hy => h.2.db y (b0.sb (bd.sb hy)) st k hm
    have trd : k < (detach { s with busy := s.busy.erase (.scan st k) } (some k)).rd :=
      Nat.lt_of_lt_of_le hk (Nat.le_trans t0.rd td.rd)
    generalize detach { s with busy := s.busy.erase (.scan st k) } (some k) = s1 at h1 hP1 tk1 tsp trd hs
    dsimp only at hs
    split at hs
    · simp only [Option.some.injEq] at hs; subst hs
      exact UU_frame h1 (ShB_same rfl rfl rfl rfl rfl rfl (Or.inl rfl)) (ShT_same rfl rfl (Nat.le_refl _))
    · next x hx =>
      split at hs
      · simp only [Option.some.injEq] at hs; subst hs
        exact UU_frame h1 (ShB_same rfl rfl rfl rfl rfl rfl (Or.inl rfl))
          (ShT_same rfl rfl (Nat.le_refl _))
      · next hpd =>
        have hd : s1.pdone = false := by simpa using hpd
        simp only [Option.some.injEq] at hs; subst hs
        obtain ⟨hx1, hx2⟩ := scanFind_range hx
        obtain ⟨n1, n2, n3⟩ := UU_scanNew h1 hP1 hd ta tsp tk1 trd hx1 hx2
        exact UU_requeue n1 ta hx1 hx2 n2 n3
  · simp at hs

end LbzVerif.Lemmas.SchedD
