/-
  "Every block position has at most one producer" for the SchedD model:
  the scanner reports every candidate at most once and the parser creates a
  master job only where no scanner-found entry exists, so no two retrieve jobs /
  finished-but-unconfirmed blocks share a base, and no emit job or output buffer
  shares its base with a live retrieve job.

  Part 1 (this file): definitions, the frame lemmas and all transitions except
  `retrEnd` / `parseEnd`.  Part 2 (`Uniq2`): those two and the theorem
  `ui_reach`.
-/
import LbzVerif.Lemmas.SchedD.Holder
import LbzVerif.Lemmas.SchedD.InSlots
import LbzVerif.Lemmas.SchedD.Pos
import LbzVerif.Lemmas.SchedD.Leak

namespace LbzVerif.Lemmas.SchedD
open LbzVerif.Model.SchedD LbzVerif.Gen

/-! ### definitions -/

def Job.baseL (j : Job) : List Nat := [j.base]
/-- the job was created by the scanner (it owns an unord_blk) -/
def Job.specL (j : Job) : List Nat := if j.ub.isSome then [j.base] else []
def UB.baseL (u : UB) : List Nat := [u.base]
def Phase.jobBase : Phase → List Nat
  | .retr j _ => Job.baseL j
  | _ => []
def Phase.specBase : Phase → List Nat
  | .retr j _ => Job.specL j
  | _ => []
def Phase.scanBlock : Phase → List Nat
  | .scan _ k => [k]
  | _ => []

/-- bases of all retrieve jobs (master or speculative), queued or running -/
def jobBases (s : State) : List Nat :=
  s.retrQ.flatMap Job.baseL ++ s.busy.flatMap Phase.jobBase
/-- bases of the finished-but-unconfirmed blocks -/
def orphanBases (s : State) : List Nat := s.orphans.flatMap UB.baseL
/-- bases of everything the scanner found and that is still around -/
def specBases (s : State) : List Nat :=
  s.retrQ.flatMap Job.specL ++ s.busy.flatMap Phase.specBase ++ orphanBases s
/-- input blocks with a scan task: a queued position `sp` works on block
    `sp / W`, a running `.scan st k` on block `k` -/
def scanBlocks (c : Cfg) (s : State) : List Nat :=
  s.scanQ.map (· / c.W) ++ s.busy.flatMap Phase.scanBlock
/-- an emit job or an output buffer of the block at `y` exists -/
def ItemBase (s : State) (y : Nat) : Prop :=
  (∃ e, EIn s e ∧ e.base = y) ∨ (∃ o ∈ s.reordQ, o.base = y)

/-! ### generic list facts -/

namespace Uniq

theorem flatMap_sublist {α β} (f : α → List β) {l' l : List α} (h : List.Sublist l' l) :
    List.Sublist (l'.flatMap f) (l.flatMap f) := by
  induction h with
  | slnil => exact List.Sublist.refl _
  | cons a _ ih =>
    simp only [List.flatMap_cons]
    exact ih.trans (List.sublist_append_right _ _)
  | cons_cons a _ ih =>
    simp only [List.flatMap_cons]
    exact List.Sublist.append (List.Sublist.refl _) ih

theorem flatMap_erase_perm {α β} [BEq α] [LawfulBEq α] (f : α → List β) {a : α} {l : List α}
    (h : a ∈ l) : List.Perm (l.flatMap f) (f a ++ (l.erase a).flatMap f) := by
  have := (List.perm_cons_erase h).flatMap_right f
  simpa only [List.flatMap_cons] using this

theorem flatMap_erase_nil {α β} [BEq α] [LawfulBEq α] (f : α → List β) {a : α} (l : List α)
    (h : f a = []) : (l.erase a).flatMap f = l.flatMap f := by
  induction l with
  | nil => rfl
  | cons x xs ih =>
    by_cases hx : x = a
    · subst hx; simp [h]
    · have : (x == a) = false := by simpa using hx
      simp only [List.erase_cons, this, Bool.false_eq_true, if_false, List.flatMap_cons, ih]

theorem flatMap_map_eq {α β} (f : α → List β) (g : α → α) (l : List α)
    (h : ∀ x, f (g x) = f x) : (l.map g).flatMap f = l.flatMap f := by
  induction l with
  | nil => rfl
  | cons x xs ih => simp only [List.map_cons, List.flatMap_cons, h, ih]

theorem flatMap_replaceFirst_eq {α β} (f : α → List β) (q : α → Bool) (g : α → α) (l : List α)
    (h : ∀ x, f (g x) = f x) : (replaceFirst q g l).flatMap f = l.flatMap f := by
  induction l with
  | nil => rfl
  | cons x xs ih =>
    simp only [replaceFirst]
    split
    · simp only [List.flatMap_cons, h]
    · simp only [List.flatMap_cons, ih]

theorem nodup_cons_middle {a : Nat} {l₁ l₂ : List Nat} (h : (l₁ ++ l₂).Nodup) (ha : a ∉ l₁ ++ l₂) :
    (l₁ ++ a :: l₂).Nodup :=
  (List.perm_middle.nodup_iff).2 (List.nodup_cons.2 ⟨ha, h⟩)

end Uniq
open Uniq

/-! ### membership -/

theorem mem_jobBases {s : State} {y : Nat} : y ∈ jobBases s ↔ ∃ j, JIn s j ∧ j.base = y := by
  simp only [jobBases, List.mem_append, List.mem_flatMap]
  constructor
  · rintro (⟨j, hj, hy⟩ | ⟨ph, hph, hy⟩)
    · simp only [Job.baseL, List.mem_singleton] at hy
      exact ⟨j, Or.inl hj, hy.symm⟩
    · cases ph with
      | retr j k =>
        simp only [Phase.jobBase, Job.baseL, List.mem_singleton] at hy
        exact ⟨j, Or.inr ⟨k, hph⟩, hy.symm⟩
      | retr2 e => simp [Phase.jobBase] at hy
      | emit e => simp [Phase.jobBase] at hy
      | scan a b => simp [Phase.jobBase] at hy
  · rintro ⟨j, hj | ⟨k, hk⟩, rfl⟩
    · exact Or.inl ⟨j, hj, by simp [Job.baseL]⟩
    · exact Or.inr ⟨_, hk, by simp [Phase.jobBase, Job.baseL]⟩

theorem mem_orphanBases {s : State} {y : Nat} :
    y ∈ orphanBases s ↔ ∃ u ∈ s.orphans, u.base = y := by
  simp only [orphanBases, List.mem_flatMap, UB.baseL, List.mem_singleton]
  constructor
  · rintro ⟨u, hu, rfl⟩; exact ⟨u, hu, rfl⟩
  · rintro ⟨u, hu, rfl⟩; exact ⟨u, hu, rfl⟩

theorem mem_specBases {s : State} {y : Nat} :
    y ∈ specBases s ↔ (∃ j, JIn s j ∧ j.ub.isSome = true ∧ j.base = y) ∨ y ∈ orphanBases s := by
  simp only [specBases, List.mem_append, List.mem_flatMap]
  constructor
  · rintro ((⟨j, hj, hy⟩ | ⟨ph, hph, hy⟩) | h)
    · unfold Job.specL at hy
      split at hy
      · next hs =>
        simp only [List.mem_singleton] at hy
        exact Or.inl ⟨j, Or.inl hj, hs, hy.symm⟩
      · simp at hy
    · cases ph with
      | retr j k =>
        simp only [Phase.specBase] at hy
        unfold Job.specL at hy
        split at hy
        · next hs =>
          simp only [List.mem_singleton] at hy
          exact Or.inl ⟨j, Or.inr ⟨k, hph⟩, hs, hy.symm⟩
        · simp at hy
      | retr2 e => simp [Phase.specBase] at hy
      | emit e => simp [Phase.specBase] at hy
      | scan a b => simp [Phase.specBase] at hy
    · exact Or.inr h
  · rintro (⟨j, hj | ⟨k, hk⟩, hs, rfl⟩ | h)
    · exact Or.inl (Or.inl ⟨j, hj, by simp [Job.specL, hs]⟩)
    · exact Or.inl (Or.inr ⟨_, hk, by simp [Phase.specBase, Job.specL, hs]⟩)
    · exact Or.inr h

theorem orphanBases_sub_spec {s : State} {y : Nat} (h : y ∈ orphanBases s) : y ∈ specBases s :=
  mem_specBases.2 (Or.inr h)

/-! ### the invariant, in two halves -/

/-- bases: jobs, orphans, items -/
structure UIB (s : State) : Prop where
  u1 : (jobBases s ++ orphanBases s).Nodup
  u2 : ∀ y, ItemBase s y → y ∉ jobBases s
  ib : s.pdone = false → ∀ y, ItemBase s y → y ≤ s.ppos ∨ y ∈ orphanBases s
  nq : s.pdone = false → ∀ j, JIn s j → ∀ f, j.ub = some f → f.inq = false → j.base ≤ s.ppos

/-- scan tasks: at most one per input block, and every scanner-found origin
    inside a task's block lies at or before the task's position -/
structure UIT (c : Cfg) (s : State) : Prop where
  t1 : (scanBlocks c s).Nodup
  tb : ∀ st k, Phase.scan st k ∈ s.busy → offs c k ≤ st
  dq : ∀ x ∈ specBases s, ∀ sp ∈ s.scanQ,
        offs c (sp / c.W) < x → x ≤ offs c (sp / c.W + 1) → x ≤ sp
  db : ∀ x ∈ specBases s, ∀ st k, Phase.scan st k ∈ s.busy →
        offs c k < x → x ≤ offs c (k + 1) → x ≤ st
  ot : ∀ x ∈ specBases s, x ≤ tailOffs c s

/-- `s'` is `s` with jobs / orphans / items removed or re-flagged and the parser
    position moved forward -/
structure ShB (s s' : State) : Prop where
  u1 : (jobBases s ++ orphanBases s).Nodup → (jobBases s' ++ orphanBases s').Nodup
  ji : ∀ j, JIn s' j → ∃ j0, JIn s j0 ∧ j0.base = j.base ∧
        (j.ub.isSome = true → j0.ub.isSome = true)
  ob : ∀ y ∈ orphanBases s', y ∈ orphanBases s
  it : ∀ y, ItemBase s' y → ItemBase s y
  pp : s'.pdone = false → s.pdone = false ∧ s.ppos ≤ s'.ppos
  ol : s'.pdone = false → ∀ y ∈ orphanBases s, y ∈ orphanBases s' ∨ y ≤ s'.ppos
  nq : s'.pdone = false → ∀ j, JIn s' j → ∀ f, j.ub = some f → f.inq = false →
        j.base ≤ s'.ppos ∨
        ∃ j0 f0, JIn s j0 ∧ j0.ub = some f0 ∧ f0.inq = false ∧ j0.base = j.base

/-- … and with scan tasks removed -/
structure ShT (c : Cfg) (s s' : State) : Prop where
  t1 : (scanBlocks c s).Nodup → (scanBlocks c s').Nodup
  sq : ∀ sp ∈ s'.scanQ, sp ∈ s.scanQ
  sc : ∀ st k, Phase.scan st k ∈ s'.busy → Phase.scan st k ∈ s.busy
  rd : s.rd ≤ s'.rd

theorem ShB.jb {s s' : State} (f : ShB s s') {y : Nat} (h : y ∈ jobBases s') : y ∈ jobBases s := by
  obtain ⟨j, hj, rfl⟩ := mem_jobBases.1 h
  obtain ⟨j0, h0, hb, _⟩ := f.ji j hj
  exact mem_jobBases.2 ⟨j0, h0, hb⟩

theorem ShB.sb {s s' : State} (f : ShB s s') {y : Nat} (h : y ∈ specBases s') :
    y ∈ specBases s := by
  rcases mem_specBases.1 h with ⟨j, hj, hs, rfl⟩ | h
  · obtain ⟨j0, h0, hb, hs0⟩ := f.ji j hj
    exact mem_specBases.2 (Or.inl ⟨j0, h0, hs0 hs, hb⟩)
  · exact mem_specBases.2 (Or.inr (f.ob y h))

theorem UIB_frame {s s' : State} (h : UIB s) (f : ShB s s') : UIB s' := by
  refine ⟨f.u1 h.u1, ?_, ?_, ?_⟩
  · intro y hy hj
    exact h.u2 y (f.it y hy) (f.jb hj)
  · intro hd y hy
    obtain ⟨hd0, hle⟩ := f.pp hd
    rcases h.ib hd0 y (f.it y hy) with h1 | h1
    · exact Or.inl (by omega)
    · rcases f.ol hd y h1 with h2 | h2
      · exact Or.inr h2
      · exact Or.inl h2
  · intro hd j hj fl hf hi
    obtain ⟨hd0, hle⟩ := f.pp hd
    rcases f.nq hd j hj fl hf hi with h1 | ⟨j0, f0, h0, hf0, hi0, hb⟩
    · exact h1
    · have := h.nq hd0 j0 h0 f0 hf0 hi0
      omega

theorem UIT_frame {c : Cfg} {s s' : State} (h : UIT c s) (fb : ShB s s') (ft : ShT c s s') :
    UIT c s' := by
  refine ⟨ft.t1 h.t1, ?_, ?_, ?_, ?_⟩
  · intro st k hm; exact h.tb st k (ft.sc st k hm)
  · intro x hx sp hsp; exact h.dq x (fb.sb hx) sp (ft.sq sp hsp)
  · intro x hx st k hm; exact h.db x (fb.sb hx) st k (ft.sc st k hm)
  · intro x hx
    have h1 := h.ot x (fb.sb hx)
    have h2 : tailOffs c s ≤ tailOffs c s' := offs_mono c ft.rd
    omega

/-- facts about a base that no job, orphan or item of `s` has -/
structure FreshB (s : State) (b : Nat) : Prop where
  nj : b ∉ jobBases s ++ orphanBases s
  ni : ¬ ItemBase s b

/-- the scan-task facts a scanner-found origin `b` needs -/
structure FreshT (c : Cfg) (s : State) (b : Nat) : Prop where
  sq : ∀ sp ∈ s.scanQ, offs c (sp / c.W) < b → b ≤ offs c (sp / c.W + 1) → b ≤ sp
  sb : ∀ st k, Phase.scan st k ∈ s.busy → offs c k < b → b ≤ offs c (k + 1) → b ≤ st
  st : b ≤ tailOffs c s

theorem FreshB_frame {s s' : State} {b : Nat} (h : FreshB s b) (f : ShB s s') : FreshB s' b := by
  refine ⟨?_, fun hi => h.ni (f.it b hi)⟩
  intro hm
  rcases List.mem_append.1 hm with hm | hm
  · exact h.nj (List.mem_append.2 (Or.inl (f.jb hm)))
  · exact h.nj (List.mem_append.2 (Or.inr (f.ob b hm)))

theorem FreshT_frame {c : Cfg} {s s' : State} {b : Nat} (h : FreshT c s b) (ft : ShT c s s') :
    FreshT c s' b := by
  refine ⟨fun sp hsp => h.sq sp (ft.sq sp hsp), fun st k hm => h.sb st k (ft.sc st k hm), ?_⟩
  have h1 := h.st
  have h2 : tailOffs c s ≤ tailOffs c s' := offs_mono c ft.rd
  omega


theorem UU_frame {c : Cfg} {s s' : State} (h : UIB s ∧ UIT c s) (fb : ShB s s')
    (ft : ShT c s s') : UIB s' ∧ UIT c s' :=
  ⟨UIB_frame h.1 fb, UIT_frame h.2 fb ft⟩

/-! ### frame constructors -/

theorem ItemBase_mono {s s' : State} (hE : ∀ e, EIn s' e → ItemBase s e.base)
    (hO : ∀ o ∈ s'.reordQ, ItemBase s o.base) : ∀ y, ItemBase s' y → ItemBase s y := by
  rintro y (⟨e, he, rfl⟩ | ⟨o, ho, rfl⟩)
  · exact hE e he
  · exact hO o ho

/-- only `busy` (by phases that are not retrieve jobs), the emit jobs and the
    output buffers change -/
theorem ShB_busy {s s' : State} (e1 : s'.retrQ = s.retrQ) (e2 : s'.orphans = s.orphans)
    (e5 : s'.ppos = s.ppos) (e6 : s'.pdone = s.pdone ∨ s'.pdone = true)
    (hj : List.Sublist (s'.busy.flatMap Phase.jobBase) (s.busy.flatMap Phase.jobBase))
    (hr : ∀ j k, Phase.retr j k ∈ s'.busy → Phase.retr j k ∈ s.busy)
    (hI : ∀ y, ItemBase s' y → ItemBase s y) : ShB s s' := by
  have hji : ∀ j, JIn s' j → JIn s j := by
    rintro j (hj' | ⟨k, hk⟩)
    · exact Or.inl (e1 ▸ hj')
    · exact Or.inr ⟨k, hr j k hk⟩
  have hpd : s'.pdone = false → s'.pdone = s.pdone := by
    intro hd
    rcases e6 with e | e
    · exact e
    · rw [e] at hd; cases hd
  refine ⟨?_, ?_, ?_, hI, ?_, ?_, ?_⟩
  · intro h
    refine List.Nodup.sublist ?_ h
    unfold jobBases orphanBases
    rw [e1, e2]
    exact List.Sublist.append (List.Sublist.append (List.Sublist.refl _) hj) (List.Sublist.refl _)
  · intro j hj'; exact ⟨j, hji j hj', rfl, fun h => h⟩
  · intro y hy; unfold orphanBases at hy ⊢; rw [e2] at hy; exact hy
  · intro hd; rw [← hpd hd, e5]; exact ⟨hd, Nat.le_refl _⟩
  · intro _ y hy; left; unfold orphanBases at hy ⊢; rw [e2]; exact hy
  · intro _ j hj' f hf hi; exact Or.inr ⟨j, f, hji j hj', hf, hi, rfl⟩

theorem ShT_busy {c : Cfg} {s s' : State} (hq : List.Sublist s'.scanQ s.scanQ)
    (hk : List.Sublist (s'.busy.flatMap Phase.scanBlock) (s.busy.flatMap Phase.scanBlock))
    (hs : ∀ st k, Phase.scan st k ∈ s'.busy → Phase.scan st k ∈ s.busy) (hr : s.rd ≤ s'.rd) :
    ShT c s s' :=
  ⟨fun h => List.Nodup.sublist (List.Sublist.append (hq.map _) hk) h,
    fun _ h => hq.subset h, hs, hr⟩

theorem ShB_same {s s' : State} (e1 : s'.retrQ = s.retrQ) (e2 : s'.orphans = s.orphans)
    (e3 : s'.busy = s.busy) (e4 : s'.emitQ = s.emitQ) (e5 : s'.reordQ = s.reordQ)
    (e6 : s'.ppos = s.ppos) (e7 : s'.pdone = s.pdone ∨ s'.pdone = true) : ShB s s' := by
  refine ShB_busy e1 e2 e6 e7 (by rw [e3]; exact List.Sublist.refl _) (by rw [e3]; exact fun _ _ h => h) ?_
  intro y hy
  simpa only [ItemBase, EIn, e3, e4, e5] using hy

theorem ShT_same {c : Cfg} {s s' : State} (e1 : s'.scanQ = s.scanQ) (e2 : s'.busy = s.busy)
    (e3 : s.rd ≤ s'.rd) : ShT c s s' :=
  ShT_busy (by rw [e1]; exact List.Sublist.refl _) (by rw [e2]; exact List.Sublist.refl _)
    (by rw [e2]; exact fun _ _ h => h) e3

theorem detach_eqs (s : State) (k : Option Nat) :
    (detach s k).retrQ = s.retrQ ∧ (detach s k).orphans = s.orphans ∧
    (detach s k).busy = s.busy ∧ (detach s k).emitQ = s.emitQ ∧
    (detach s k).reordQ = s.reordQ ∧ (detach s k).ppos = s.ppos ∧
    (detach s k).pdone = s.pdone ∧ (detach s k).scanQ = s.scanQ ∧ (detach s k).rd = s.rd := by
  unfold detach; split
  · exact ⟨rfl, rfl, rfl, rfl, rfl, rfl, rfl, rfl, rfl⟩
  · split <;> exact ⟨rfl, rfl, rfl, rfl, rfl, rfl, rfl, rfl, rfl⟩

theorem Sh_detach (c : Cfg) (s : State) (k : Option Nat) :
    ShB s (detach s k) ∧ ShT c s (detach s k) := by
  obtain ⟨e1, e2, e3, e4, e5, e6, e7, e8, e9⟩ := detach_eqs s k
  exact ⟨ShB_same e1 e2 e3 e4 e5 e6 (Or.inl e7), ShT_same e8 e3 (Nat.le_of_eq e9.symm)⟩

/-- removing a busy phase -/
theorem Sh_busy_erase (c : Cfg) (s : State) (ph : Phase) :
    ShB s { s with busy := s.busy.erase ph } ∧ ShT c s { s with busy := s.busy.erase ph } := by
  refine ⟨ShB_busy rfl rfl rfl (Or.inl rfl) (flatMap_sublist _ List.erase_sublist)
    (fun _ _ h => List.mem_of_mem_erase h) ?_,
    ShT_busy (List.Sublist.refl _) (flatMap_sublist _ List.erase_sublist)
      (fun _ _ h => List.mem_of_mem_erase h) (Nat.le_refl _)⟩
  refine ItemBase_mono ?_ (fun o ho => Or.inr ⟨o, ho, rfl⟩)
  rintro e (he | he | he)
  · exact Or.inl ⟨e, Or.inl he, rfl⟩
  · exact Or.inl ⟨e, Or.inr (Or.inl (List.mem_of_mem_erase he)), rfl⟩
  · exact Or.inl ⟨e, Or.inr (Or.inr (List.mem_of_mem_erase he)), rfl⟩

/-- `advance(p)` with `p` at or after the parser position -/
theorem Sh_advance {c : Cfg} {s : State} (p : Nat) (hp : s.pdone = false → s.ppos ≤ p) :
    ShB s (advance c s p) ∧ ShT c s (advance c s p) := by
  have hji : ∀ j, JIn (advance c s p) j → JIn s j := by
    rintro j (hj | ⟨k, hk⟩)
    · exact Or.inl (List.mem_filter.1 hj).1
    · exact Or.inr ⟨k, hk⟩
  refine ⟨⟨?_, ?_, fun _ h => h, fun _ h => h, fun hd => ⟨hd, hp hd⟩, fun _ _ h => Or.inl h, ?_⟩,
    ShT_busy List.filter_sublist (List.Sublist.refl _) (fun _ _ h => h) (Nat.le_refl _)⟩
  · intro h
    refine List.Nodup.sublist ?_ h
    exact List.Sublist.append
      (List.Sublist.append (flatMap_sublist _ List.filter_sublist) (List.Sublist.refl _))
      (List.Sublist.refl _)
  · intro j hj; exact ⟨j, hji j hj, rfl, fun h => h⟩
  · intro _ j hj f hf hi; exact Or.inr ⟨j, f, hji j hj, hf, hi, rfl⟩

/-! ### adding a retrieve job -/

theorem UU_addJob {c : Cfg} {s : State} (jn : Job) (h : UIB s ∧ UIT c s)
    (fb : FreshB s jn.base) (ft : jn.ub.isSome = true → FreshT c s jn.base)
    (hn : s.pdone = false → ∀ f, jn.ub = some f → f.inq = false → jn.base ≤ s.ppos) :
    UIB { s with retrQ := jn :: s.retrQ } ∧ UIT c { s with retrQ := jn :: s.retrQ } := by
  obtain ⟨hB, hT⟩ := h
  have hjb : jobBases { s with retrQ := jn :: s.retrQ } = jn.base :: jobBases s := by
    simp only [jobBases, List.flatMap_cons, Job.baseL, List.cons_append, List.nil_append]
  have hji : ∀ j, JIn { s with retrQ := jn :: s.retrQ } j → j = jn ∨ JIn s j := by
    rintro j (hj | ⟨k, hk⟩)
    · rcases List.mem_cons.1 hj with e | hm
      · exact Or.inl e
      · exact Or.inr (Or.inl hm)
    · exact Or.inr (Or.inr ⟨k, hk⟩)
  have hspec : ∀ x, x ∈ specBases { s with retrQ := jn :: s.retrQ } →
      (jn.ub.isSome = true ∧ x = jn.base) ∨ x ∈ specBases s := by
    intro x hx
    rcases mem_specBases.1 hx with ⟨j, hj, hs, rfl⟩ | ho
    · rcases hji j hj with rfl | hj
      · exact Or.inl ⟨hs, rfl⟩
      · exact Or.inr (mem_specBases.2 (Or.inl ⟨j, hj, hs, rfl⟩))
    · exact Or.inr (mem_specBases.2 (Or.inr ho))
  refine ⟨⟨?_, ?_, ?_, ?_⟩, ⟨hT.t1, hT.tb, ?_, ?_, ?_⟩⟩
  · show (jobBases { s with retrQ := jn :: s.retrQ } ++ orphanBases s).Nodup
    rw [hjb, List.cons_append]
    exact List.nodup_cons.2 ⟨fb.nj, hB.u1⟩
  · intro y hy hm
    rw [hjb] at hm
    rcases List.mem_cons.1 hm with e | hm
    · subst e; exact fb.ni hy
    · exact hB.u2 y hy hm
  · intro hd y hy; exact hB.ib hd y hy
  · intro hd j hj f hf hi
    rcases hji j hj with rfl | hj
    · exact hn hd f hf hi
    · exact hB.nq hd j hj f hf hi
  · intro x hx sp hsp
    rcases hspec x hx with ⟨hs, rfl⟩ | hx
    · exact (ft hs).sq sp hsp
    · exact hT.dq x hx sp hsp
  · intro x hx st k hm
    rcases hspec x hx with ⟨hs, rfl⟩ | hx
    · exact (ft hs).sb st k hm
    · exact hT.db x hx st k hm
  · intro x hx
    rcases hspec x hx with ⟨hs, rfl⟩ | hx
    · exact (ft hs).st
    · exact hT.ot x hx

end LbzVerif.Lemmas.SchedD
