/-
  Lemmas.SchedD.Mem — counting the live heap objects of the expansion
  scheduler (W20, for C13): every allocation site of src/expand.c is charged to
  a holder of the model, and the number of holders of each kind is bounded by
  a conserved total or a queue capacity.

    object (allocation site, expand.c)                      holders in the model
    ------------------------------------------------------  -----------------------------------
    retr_blk + decoder (tt, internal_state): do_parse 572,  a job in retr_q / a worker in
      do_scan 856; emit_blk (takes the decoder over):         retrieve(); a worker in decode();
      do_retrieve 677                                         a job in emit_q / a worker in emit()
    in_blk + input buffer: source thread, on_input_avail    a block in input_q, a released block
      891                                                     still attached, the reader's buffer
    out_blk + out_granul: do_emit 717                       a worker in emit(), reord_q, output_q
    unord_blk: do_scan 850                                  a job with `unord_link`, an orphan
    scan descriptor (detached_bitstream): on_input_avail    scan_q, a worker in scan(), the
      902                                                     reader's
    head_blk: stored INSIDE the array of order_q            (fixed array, `order_q_capacity`)
-/
import LbzVerif.Lemmas.SchedD.InSlots
import LbzVerif.Lemmas.SchedD.Leak
import LbzVerif.Lemmas.SchedD.OrderCap
import LbzVerif.Lemmas.SchedD.UnordCap2
import LbzVerif.Lemmas.SchedD.Uniq2

namespace LbzVerif.Lemmas.SchedD
open LbzVerif.Model.SchedD LbzVerif.Gen

/-! ### holders -/

/-- the busy worker holds a decoder (`tt` + `retriever_internal_state`, inside
    a retr_blk or an emit_blk) -/
def isDec : Phase → Bool
  | .retr _ _ => true
  | .retr2 _ => true
  | .emit _ => true
  | .scan _ _ => false

def isScan : Phase → Bool
  | .scan _ _ => true
  | _ => false

/-- decoders alive: one per retrieve / emit job, queued or running -/
def decHolders (s : State) : Nat := s.retrQ.length + s.emitQ.length + s.busy.countP isDec

def Job.hasUb (j : Job) : Bool := j.ub.isSome
def Phase.hasUb : Phase → Bool
  | .retr j _ => Job.hasUb j
  | _ => false

/-- unord_blk objects alive: linked from a retrieve job, or without a job -/
def unordLive (s : State) : Nat :=
  s.orphans.length + s.retrQ.countP Job.hasUb + s.busy.countP Phase.hasUb

/-- scan descriptors alive: queued, with a running scanner, or just allocated
    by the reader (on_input_avail, before its `sched_lock`) -/
def scanLive (s : State) : Nat := s.scanQ.length + s.busy.countP isScan + holdc s

/-! ### decoders, output buffers: conservation -/

theorem decHolders_le_units (s : State) : decHolders s ≤ unitsHeld s := by
  have := List.countP_le_length (p := isDec) (l := s.busy)
  simp only [decHolders, unitsHeld, busyCount]; omega

/-- decoders + free work units + scanners + parser ≤ n -/
theorem dec_le {c : Cfg} {s : State} (h : Reach c s) (hf : s.failed = false) :
    decHolders s + s.wu ≤ c.n := by
  have := (ci_reach h hf).wuC
  have := decHolders_le_units s
  simp only [unitsHeld] at this
  omega

theorem slots_le {c : Cfg} {s : State} (h : Reach c s) (hf : s.failed = false) :
    slotsHeld s + s.outSlots = c.totalOut := by
  have := (ci_reach h hf).osC
  simp only [slotsHeld]; omega

theorem input_le {c : Cfg} (hW : 0 < c.W) {s : State} (h : Reach c s) :
    inputAlive s + s.inSlots = c.totalIn := by
  have := in_slots_conserved hW h; omega

/-! ### unord_blk -/

theorem countP_eq_length_of_all {α} (p : α → Bool) (l : List α) (h : ∀ x ∈ l, p x = true) :
    l.countP p = l.length := List.countP_eq_length.2 h

/-- every unord_blk is in `unord_q` (an orphan: `no_unord_leak`) or linked from
    a live retrieve job -/
theorem unordLive_le {c : Cfg} (hW : 0 < c.W) (hn : 1 ≤ c.n) (ho : EMIT_THRESH < c.totalOut)
    {s : State} (h : Reach c s) (hf : s.failed = false) :
    unordLive s ≤ unordCap c.n c.totalOut + c.n := by
  have hcap := unord_cap hW hn ho h hf
  have hall := (no_unord_leak h hf).1
  have e : s.orphans.countP (·.f.inq) = s.orphans.length :=
    countP_eq_length_of_all _ _ (fun u hu => hall u hu)
  have h1 := List.countP_le_length (p := Job.hasUb) (l := s.retrQ)
  have h2 := List.countP_le_length (p := Phase.hasUb) (l := s.busy)
  have hw := (ci_reach h hf).wuC
  simp only [busyCount] at hw
  simp only [unordSize, unordCapOf] at hcap
  simp only [unordLive]
  omega

/-! ### scan descriptors -/

theorem length_flatMap_scanBlock (l : List Phase) :
    (l.flatMap Phase.scanBlock).length = l.countP isScan := by
  induction l with
  | nil => rfl
  | cons x xs ih =>
    simp only [List.flatMap_cons, List.length_append, List.countP_cons, ih]
    cases x <;> simp [Phase.scanBlock, isScan] <;> omega

theorem scanBlocks_length (c : Cfg) (s : State) :
    (scanBlocks c s).length = s.scanQ.length + s.busy.countP isScan := by
  simp only [scanBlocks, List.length_append, List.length_map, length_flatMap_scanBlock]

/-- the input blocks that are alive: released but still attached, or in input_q -/
def aliveBlocks (s : State) : List Nat :=
  (List.range s.head).filter (fun k => attachedTo s k) ++ List.range' s.head (s.rd - s.head)

theorem aliveBlocks_length (s : State) : (aliveBlocks s).length = attCnt s + (s.rd - s.head) := by
  simp only [aliveBlocks, List.length_append, attCnt, List.length_range']

/-- every scan descriptor belongs to an input block of its own that is alive -/
theorem scanBlocks_alive {c : Cfg} (hW : 0 < c.W) {s : State} (h : Reach c s) :
    ∀ k ∈ scanBlocks c s, k ∈ aliveBlocks s := by
  have hA := ai_reach h
  have hQ := sq_reach hW h
  intro k hk
  simp only [scanBlocks, List.mem_append, List.mem_map, List.mem_flatMap] at hk
  simp only [aliveBlocks, List.mem_append, List.mem_filter, List.mem_range, List.mem_range'_1]
  rcases hk with ⟨sp, hsp, rfl⟩ | ⟨ph, hph, hk⟩
  · have h1 := hA.arS sp hsp
    have h2 := hQ.sq sp hsp
    have h3 : s.head ≤ sp / c.W := fresh_of_pos (h := s.head) h1 h2
    have h4 := div_lt_of_lt_offs h2
    right; omega
  · cases ph with
    | scan st k' =>
      simp only [Phase.scanBlock, List.mem_singleton] at hk
      subst hk
      have h1 : k < s.rd := hQ.bk _ hph
      by_cases hh : s.head ≤ k
      · right; omega
      · left
        refine ⟨by omega, ?_⟩
        simp only [attachedTo, Bool.or_eq_true, List.any_eq_true]
        exact Or.inr ⟨_, hph, by simp [Phase.block]⟩
    | retr j k' => simp [Phase.scanBlock] at hk
    | retr2 e => simp [Phase.scanBlock] at hk
    | emit e => simp [Phase.scanBlock] at hk

/-- scan descriptors ≤ live input blocks (incl. the one the reader is filling) -/
theorem scanLive_le_input {c : Cfg} (hW : 0 < c.W) {s : State} (h : Reach c s) :
    scanLive s ≤ inputAlive s := by
  have hn := (ui_reach hW h).t1
  have := nodup_subset_length_le _ _ hn (scanBlocks_alive hW h)
  rw [scanBlocks_length, aliveBlocks_length] at this
  simp only [scanLive, inputAlive_eq]
  omega

theorem scanLive_le {c : Cfg} (hW : 0 < c.W) {s : State} (h : Reach c s) :
    scanLive s ≤ c.totalIn := by
  have := scanLive_le_input hW h
  have := input_le hW h
  omega

/-- capacity of `scan_q` (`pqueue_init(scan_q, in_slots)`) and of `input_q`
    (`deque_init(input_q, in_slots)`) -/
theorem scan_q_cap {c : Cfg} (hW : 0 < c.W) {s : State} (h : Reach c s) :
    s.scanQ.length ≤ c.totalIn ∧ s.rd - s.head ≤ c.totalIn := by
  have := scanLive_le hW h
  have := input_le hW h
  simp only [scanLive] at *
  simp only [inputAlive_eq] at *
  omega

theorem unordCap_le (a b : Nat) : unordCap a b ≤ a + b := by
  unfold unordCap; split <;> omega

end LbzVerif.Lemmas.SchedD
