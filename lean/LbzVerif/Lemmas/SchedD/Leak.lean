/-
  `no_unord_leak` for the SchedD model (F2 repaired by `discard()`):
  every live `struct unord_blk` is either still in `unord_q` (so the parser
  frees it when it pops it / at FINISH) or owned by a live retrieve job;
  after parsing is done nothing is left behind; at termination none is live.

  In the model "linked from exactly one live job" holds by construction for
  `Job.ub`; the content is about `orphans`.  `LI` is an inductive invariant of
  all reachable states in which `failf` has not been called.
-/
import LbzVerif.Lemmas.SchedD.Basic

namespace LbzVerif.Lemmas.SchedD
open LbzVerif.Model.SchedD LbzVerif.Gen

/-- the leak invariant -/
structure LI (c : Cfg) (s : State) : Prop where
  /-- every job-less unord_blk is in unord_q, marked complete -/
  oc  : ∀ u ∈ s.orphans, u.f.inq = true ∧ u.f.complete = true
  /-- an owned entry that is not complete is in unord_q -/
  atQ : ∀ j ∈ s.retrQ, ∀ f, j.ub = some f → f.complete = false → f.inq = true
  atB : ∀ j k, Phase.retr j k ∈ s.busy → ∀ f, j.ub = some f → f.complete = false → f.inq = true
  pd  : s.pphase.isSome = true → s.pdone = false
  od  : s.pdone = true → s.orphans = [] ∧ s.retrQ = [] ∧
          (∀ j k, Phase.retr j k ∈ s.busy → ∀ f, j.ub = some f → f.complete = true)

namespace Leak

/-! ### local predicates -/

/-- an owned entry that is not complete is in unord_q -/
def JL (j : Job) : Prop := ∀ f, j.ub = some f → f.complete = false → f.inq = true
/-- an owned entry is complete -/
def JC (j : Job) : Prop := ∀ f, j.ub = some f → f.complete = true
def PL : Phase → Prop
  | .retr j _ => JL j
  | _ => True
def PC : Phase → Prop
  | .retr j _ => JC j
  | _ => True
def UC (u : UB) : Prop := u.f.inq = true ∧ u.f.complete = true

theorem JC_JL {j : Job} (h : JC j) : JL j := by
  intro f hf hc; rw [h f hf] at hc; cases hc

theorem PC_PL {ph : Phase} (h : PC ph) : PL ph := by
  cases ph with
  | retr j k => exact JC_JL h
  | retr2 e => trivial
  | emit e => trivial
  | scan a b => trivial

/-- the part of the invariant about the three containers -/
structure LC (s : State) : Prop where
  oc : ∀ u ∈ s.orphans, UC u
  atQ : ∀ j ∈ s.retrQ, JL j
  atB : ∀ ph ∈ s.busy, PL ph

/-- the invariant in the form used by the step lemmas -/
structure LJ (s : State) : Prop where
  lc : LC s
  pd : s.pphase.isSome = true → s.pdone = false
  od : s.pdone = true → s.orphans = [] ∧ s.retrQ = [] ∧ ∀ ph ∈ s.busy, PC ph

theorem LJ_of_LC {s : State} (h : LC s) (hp : s.pdone = false) : LJ s :=
  ⟨h, fun _ => hp, fun hh => by rw [hp] at hh; cases hh⟩

theorem LJ_mono {s s' : State} (h : LJ s)
    (e1 : ∀ u ∈ s'.orphans, u ∈ s.orphans) (e2 : ∀ j ∈ s'.retrQ, j ∈ s.retrQ)
    (e3 : ∀ ph ∈ s'.busy, ph ∈ s.busy ∨ PC ph)
    (e4 : s'.pdone = s.pdone) (e5 : s'.pphase = s.pphase) : LJ s' := by
  obtain ⟨⟨a1, a2, a3⟩, a4, a5⟩ := h
  refine ⟨⟨fun u hu => a1 u (e1 u hu), fun j hj => a2 j (e2 j hj), ?_⟩, ?_, ?_⟩
  · intro ph hph
    rcases e3 ph hph with hm | hc
    · exact a3 ph hm
    · exact PC_PL hc
  · rw [e4, e5]; exact a4
  · intro hh
    rw [e4] at hh
    obtain ⟨b1, b2, b3⟩ := a5 hh
    refine ⟨?_, ?_, ?_⟩
    · apply List.eq_nil_iff_forall_not_mem.2
      intro u hu; have := e1 u hu; rw [b1] at this; cases this
    · apply List.eq_nil_iff_forall_not_mem.2
      intro j hj; have := e2 j hj; rw [b2] at this; cases this
    · intro ph hph
      rcases e3 ph hph with hm | hc
      · exact b3 ph hm
      · exact hc

/-! ### `discard()`, `advance()`, `detach()` -/

theorem LC_advance {c : Cfg} {s : State} (p : Nat) (h : LC s) : LC (advance c s p) := by
  obtain ⟨a1, a2, a3⟩ := h
  refine ⟨a1, ?_, a3⟩
  intro j hj; exact a2 j (List.mem_filter.1 hj).1

theorem detach_flds (s : State) (k : Option Nat) :
    (detach s k).orphans = s.orphans ∧ (detach s k).retrQ = s.retrQ ∧
    (detach s k).busy = s.busy ∧ (detach s k).pdone = s.pdone ∧
    (detach s k).pphase = s.pphase ∧ (detach s k).failed = s.failed := by
  unfold detach; split
  · exact ⟨rfl, rfl, rfl, rfl, rfl, rfl⟩
  · split <;> exact ⟨rfl, rfl, rfl, rfl, rfl, rfl⟩

theorem LC_detach {s : State} (k : Option Nat) (h : LC s) : LC (detach s k) := by
  obtain ⟨e1, e2, e3, _, _, _⟩ := detach_flds s k
  obtain ⟨a1, a2, a3⟩ := h
  exact ⟨by rw [e1]; exact a1, by rw [e2]; exact a2, by rw [e3]; exact a3⟩

theorem LJ_detach {s : State} (k : Option Nat) (h : LJ s) : LJ (detach s k) := by
  obtain ⟨e1, e2, e3, e4, e5, _⟩ := detach_flds s k
  exact LJ_mono h (by rw [e1]; exact fun _ h => h) (by rw [e2]; exact fun _ h => h)
    (by rw [e3]; exact fun _ h => Or.inl h) e4 e5

/-! ### the parser's writes through unord_q -/

theorem JL_flagJob {p : Nat → Bool} {j : Job} (h : JL j) : JL (flagJob p j) := by
  intro f hf hc
  unfold flagJob at hf
  cases hu : j.ub with
  | none => simp [hu] at hf
  | some f0 =>
    simp only [hu, Option.map_some, Option.some.injEq] at hf
    split at hf
    · subst hf; simp [UF.flagBad] at hc
    · subst hf; exact h f0 hu hc

theorem PL_flagPhase {p : Nat → Bool} {ph : Phase} (h : PL ph) : PL (flagPhase p ph) := by
  cases ph with
  | retr j k => exact JL_flagJob (p := p) h
  | retr2 e => trivial
  | emit e => trivial
  | scan a b => trivial

theorem JC_flagAll {j : Job} (h : JL j) : JC (flagJob (fun _ => true) j) := by
  intro f hf
  unfold flagJob at hf
  cases hu : j.ub with
  | none => simp [hu] at hf
  | some f0 =>
    simp only [hu, Option.map_some, Option.some.injEq, Bool.and_true] at hf
    split at hf
    · subst hf; rfl
    · next hi =>
      subst hf
      cases hc : f0.complete with
      | true => rfl
      | false => exact absurd (h f0 hu hc) hi

theorem PC_flagAll {ph : Phase} (h : PL ph) : PC (flagPhase (fun _ => true) ph) := by
  cases ph with
  | retr j k => exact JC_flagAll h
  | retr2 e => trivial
  | emit e => trivial
  | scan a b => trivial

theorem JL_good (j : Job) : JL j.good := by
  intro f hf hc
  unfold Job.good at hf
  cases hu : j.ub with
  | none => simp [hu] at hf
  | some f0 =>
    simp only [hu, Option.map_some, Option.some.injEq] at hf
    subst hf; simp [UF.flagGood] at hc

theorem PL_good {ph : Phase} (h : PL ph) : PL ph.good := by
  cases ph with
  | retr j k => exact JL_good j
  | retr2 e => trivial
  | emit e => trivial
  | scan a b => trivial

theorem UC_popOrphans {p : Nat → Bool} {os : List UB} (h : ∀ u ∈ os, UC u) :
    ∀ u ∈ popOrphans p os, UC u := by
  intro u hu
  simp only [popOrphans, List.mem_map, List.mem_filter] at hu
  obtain ⟨x, ⟨hx, hn⟩, rfl⟩ := hu
  obtain ⟨hi, hc⟩ := h x hx
  have hp : p x.base = false := by
    cases hpb : p x.base with
    | false => rfl
    | true => simp [hi, hc, hpb] at hn
  simp only [hp, Bool.and_false, Bool.false_eq_true, if_false]
  exact ⟨hi, hc⟩

theorem popOrphans_all_nil {os : List UB} (h : ∀ u ∈ os, UC u) :
    popOrphans (fun _ => true) os = [] := by
  unfold popOrphans
  rw [List.map_eq_nil_iff, List.filter_eq_nil_iff]
  intro u hu
  obtain ⟨hi, hc⟩ := h u hu
  simp [hi, hc]

theorem mem_replaceFirst' {α} (q : α → Bool) (g : α → α) {l : List α} {y : α}
    (h : y ∈ replaceFirst q g l) : y ∈ l ∨ ∃ x ∈ l, q x = true ∧ y = g x := by
  induction l with
  | nil => simp [replaceFirst] at h
  | cons x xs ih =>
    simp only [replaceFirst] at h
    split at h
    · next hq =>
      rcases List.mem_cons.1 h with h | h
      · exact Or.inr ⟨x, List.mem_cons_self, hq, h⟩
      · exact Or.inl (List.mem_cons_of_mem _ h)
    · rcases List.mem_cons.1 h with h | h
      · exact Or.inl (h ▸ List.mem_cons_self)
      · rcases ih h with h | ⟨z, hz, hq, e⟩
        · exact Or.inl (List.mem_cons_of_mem _ h)
        · exact Or.inr ⟨z, List.mem_cons_of_mem _ hz, hq, e⟩

/-! ### `do_parse` tail -/

theorem LC_parsePush {c : Cfg} {s1 : State} (b : Nat) (h : LC s1) : LC (parsePush c s1 b) := by
  obtain ⟨a1, a2, a3⟩ := LC_advance (c := c) b h
  refine ⟨?_, ?_, ?_⟩
  · exact UC_popOrphans (p := fun x => decide (x < b)) a1
  · intro j hj
    simp only [parsePush, List.mem_map] at hj
    obtain ⟨x, hx, rfl⟩ := hj
    exact JL_flagJob (a2 x hx)
  · intro ph hph
    simp only [parsePush, List.mem_map] at hph
    obtain ⟨x, hx, rfl⟩ := hph
    exact PL_flagPhase (a3 x hx)

theorem LC_parseMatch {c : Cfg} {s3 : State} (b : Nat) (h : LC s3) :
    LC (parseMatch c s3 b) ∧ (parseMatch c s3 b).pdone = s3.pdone := by
  obtain ⟨a1, a2, a3⟩ := h
  unfold parseMatch
  split
  · next j hj =>
    have hS : LC { s3 with retrQ := replaceFirst (Job.inqAt b) Job.good s3.retrQ } := by
      refine ⟨a1, ?_, a3⟩
      intro y hy
      rcases mem_replaceFirst' _ _ hy with hy | ⟨x, _, _, rfl⟩
      · exact a2 y hy
      · exact JL_good x
    obtain ⟨b1, b2, b3⟩ := LC_advance (c := c) j.endp hS
    exact ⟨⟨b1, b2, b3⟩, rfl⟩
  · split
    · next ph hph =>
      have hS : LC { s3 with busy := replaceFirst (Phase.inqAt b) Phase.good s3.busy } := by
        refine ⟨a1, a2, ?_⟩
        intro y hy
        rcases mem_replaceFirst' _ _ hy with hy | ⟨x, hx, _, rfl⟩
        · exact a3 y hy
        · exact PL_good (a3 x hx)
      obtain ⟨b1, b2, b3⟩ := LC_advance (c := c) ph.endp hS
      exact ⟨⟨b1, b2, b3⟩, rfl⟩
    · split
      · next u hu =>
        have hum := List.mem_of_find?_eq_some hu
        have hc : u.f.complete = true := (a1 u hum).2
        obtain ⟨b1, b2, b3⟩ := LC_advance (c := c) u.f.endp ⟨a1, a2, a3⟩
        rw [if_pos hc]
        exact ⟨⟨fun x hx => b1 x (List.mem_of_mem_erase hx), b2, b3⟩, rfl⟩
      · refine ⟨⟨a1, ?_, a3⟩, rfl⟩
        intro x hx
        rcases List.mem_cons.1 hx with e | hm
        · subst e; intro f hf; cases hf
        · exact a2 x hm

theorem LC_parseMore {c : Cfg} {s1 : State} (k : Option Nat) (h : LC s1) :
    LC (parseMore c s1 k) := by
  obtain ⟨b1, b2, b3⟩ := LC_advance (c := c) (offs c (k.getD 0 + 1)) h
  exact ⟨b1, b2, b3⟩

theorem LJ_parseFinish {s1 : State} (u : Nat) (h : LC s1) (hpp : s1.pphase = none) :
    LJ (parseFinish s1 u) := by
  obtain ⟨a1, a2, a3⟩ := h
  have hnil : (parseFinish s1 u).orphans = [] := by
    show popOrphans (fun _ => true) s1.orphans = []
    exact popOrphans_all_nil a1
  have hq : (parseFinish s1 u).retrQ = [] := rfl
  have hb : ∀ ph ∈ (parseFinish s1 u).busy, PC ph := by
    intro ph hph
    obtain ⟨x, hx, rfl⟩ := List.mem_map.1 hph
    exact PC_flagAll (a3 x hx)
  refine ⟨⟨?_, ?_, fun ph hph => PC_PL (hb ph hph)⟩, ?_, fun _ => ⟨hnil, hq, hb⟩⟩
  · intro x hx; rw [hnil] at hx; cases hx
  · intro j hj; rw [hq] at hj; cases hj
  · intro hh
    rw [show (parseFinish s1 u).pphase = s1.pphase from rfl, hpp] at hh; cases hh

theorem LJ_parseEnd {c : Cfg} {s s' : State} (h : LJ s) (hs : stepParseEnd c s = some s')
    (hf' : s'.failed = false) : LJ s' := by
  unfold stepParseEnd at hs
  split at hs
  · simp at hs
  · next k hk =>
    have hpd : s.pdone = false := h.pd (by simp [hk])
    have h0 : LC { s with pphase := none } := ⟨h.lc.oc, h.lc.atQ, h.lc.atB⟩
    have h1 : LC (detach { s with pphase := none } k) := LC_detach k h0
    have df := detach_flds { s with pphase := none } k
    have hp1 : (detach { s with pphase := none } k).pdone = false := by rw [df.2.2.2.1]; exact hpd
    have hpp1 : (detach { s with pphase := none } k).pphase = none := by rw [df.2.2.2.2.1]
    dsimp only at hs
    generalize detach { s with pphase := none } k = s1 at hs h1 hp1 hpp1
    generalize pres c s.porig = r at hs
    split at hs
    · simp only [Option.some.injEq] at hs; subst hs
      exact LJ_of_LC (LC_parseMore k h1) hp1
    · simp only [Option.some.injEq] at hs; subst hs
      cases r with
      | err u => simp [parseVerdict] at hf'
      | finish u ok =>
        cases ok with
        | false => simp [parseVerdict] at hf'
        | true => exact LJ_parseFinish u h1 hpp1
      | hdr b =>
        show LJ (parseMatch c (parsePush c s1 b) b)
        have h2 := LC_parsePush (c := c) b h1
        obtain ⟨h3, e3⟩ := LC_parseMatch (c := c) b h2
        exact LJ_of_LC h3 (by rw [e3]; exact hp1)

/-! ### `do_retrieve` tail -/

theorem LC_retrExit {s1 : State} (j : Job) (h1 : LC s1) : LC (retrExit s1 j) := by
  obtain ⟨a1, a2, a3⟩ := h1
  exact ⟨a1, a2, a3⟩

theorem LJ_retrExit {s1 : State} (j : Job) (h1 : LJ s1) : LJ (retrExit s1 j) :=
  LJ_mono h1 (fun _ h => h) (fun _ h => h) (fun _ h => Or.inl h) rfl rfl

theorem LC_retrMove {c : Cfg} {s1 : State} (j : Job) (newc : Nat) (h1 : LC s1) :
    LC (retrMove c s1 j newc) ∧ (retrMove c s1 j newc).pdone = s1.pdone := by
  unfold retrMove; split
  · obtain ⟨b1, b2, b3⟩ := LC_advance (c := c) newc h1
    exact ⟨⟨b1, b2, b3⟩, rfl⟩
  · exact ⟨h1, rfl⟩

theorem JL_retrMoreJob {j : Job} (newc : Nat) (h : JL j) : JL (retrMoreJob j newc) := by
  intro f hf hc
  unfold retrMoreJob at hf
  dsimp only at hf
  split at hf
  · exact h f hf hc
  · cases hu : j.ub with
    | none => simp [hu] at hf
    | some f0 =>
      simp only [hu, Option.map_some, Option.some.injEq] at hf
      subst hf
      exact h f0 hu hc

theorem LC_retrMore {s2 : State} {j : Job} (newc : Nat) (hj : JL j) (h2 : LC s2) :
    LC (retrMore s2 j newc) := by
  obtain ⟨a1, a2, a3⟩ := h2
  refine ⟨a1, ?_, a3⟩
  intro x hx
  rcases List.mem_cons.1 hx with e | hm
  · subst e; exact JL_retrMoreJob newc hj
  · exact a2 x hm

theorem LC_retrDone {c : Cfg} {s2 : State} {j : Job} (newc : Nat) (hj : JL j) (h2 : LC s2) :
    LC (retrDone c s2 j newc) ∧ (retrDone c s2 j newc).pdone = s2.pdone := by
  obtain ⟨a1, a2, a3⟩ := h2
  cases hmas : j.master with
  | true =>
    simp only [retrDone, hmas, if_true]
    refine ⟨⟨a1, a2, ?_⟩, trivial⟩
    intro ph hph
    rcases List.mem_cons.1 hph with e | hm
    · subst e; trivial
    · exact a3 ph hm
  | false =>
    simp only [retrDone, hmas, Bool.false_eq_true, if_false]
    refine ⟨⟨?_, a2, ?_⟩, trivial⟩
    · intro u hu
      rcases List.mem_append.1 hu with hu | hu
      · cases hub : j.ub with
        | none => simp [hub] at hu
        | some f =>
          simp only [hub, List.mem_singleton] at hu
          subst hu
          have hfc : f.complete = false := by
            simpa [Job.master, hub] using hmas
          exact ⟨hj f hub hfc, rfl⟩
      · exact a1 u hu
    · intro ph hph
      rcases List.mem_cons.1 hph with e | hm
      · subst e; trivial
      · exact a3 ph hm

theorem LJ_retrEnd {c : Cfg} {s s' : State} {j : Job} {k : Option Nat} (h : LJ s)
    (hs : stepRetrEnd c s j k = some s') : LJ s' := by
  unfold stepRetrEnd at hs; split at hs
  · next hg =>
    have hmem : Phase.retr j k ∈ s.busy := by simpa using hg
    have hjl : JL j := h.lc.atB _ hmem
    have h0 : LJ { s with busy := s.busy.erase (.retr j k) } :=
      LJ_mono h (fun _ h => h) (fun _ h => h)
        (fun _ hp => Or.inl (List.mem_of_mem_erase hp)) rfl rfl
    have h1 : LJ (detach { s with busy := s.busy.erase (.retr j k) } k) := LJ_detach k h0
    have hpd1 : (detach { s with busy := s.busy.erase (.retr j k) } k).pdone = s.pdone :=
      (detach_flds { s with busy := s.busy.erase (.retr j k) } k).2.2.2.1
    generalize detach { s with busy := s.busy.erase (.retr j k) } k = s1 at h1 hpd1 hs
    dsimp only at hs
    generalize retrNewc c j k = newc at hs
    by_cases hpd : s1.pdone = true
    · rw [if_pos hpd] at hs
      simp only [Option.some.injEq] at hs; subst hs
      exact LJ_retrExit j h1
    · have hpd' : s1.pdone = false := by simpa using hpd
      rw [if_neg hpd] at hs
      by_cases hab : j.redundant = true
      · rw [if_pos hab] at hs
        simp only [Option.some.injEq] at hs; subst hs
        exact LJ_of_LC (LC_retrExit j h1.lc) hpd'
      · rw [if_neg hab] at hs
        obtain ⟨h2, hp2⟩ := LC_retrMove (c := c) j newc h1.lc
        rw [hpd'] at hp2
        generalize retrMove c s1 j newc = s2 at h2 hp2 hs
        split at hs
        · split at hs
          · simp only [Option.some.injEq] at hs; subst hs
            exact LJ_of_LC (LC_retrExit _ h2) hp2
          · simp only [Option.some.injEq] at hs; subst hs
            exact LJ_of_LC (LC_retrMore newc hjl h2) hp2
        · simp only [Option.some.injEq] at hs; subst hs
          obtain ⟨h3, e3⟩ := LC_retrDone (c := c) newc hjl h2
          exact LJ_of_LC h3 (by rw [e3]; exact hp2)
  · simp at hs

/-! ### `do_scan` tail -/

theorem LC_scanNew {c : Cfg} {s1 : State} (x : Nat) (h1 : LC s1) :
    LC (scanNew c s1 x) ∧ (scanNew c s1 x).pdone = s1.pdone := by
  obtain ⟨a1, a2, a3⟩ := h1
  unfold scanNew; split
  · exact ⟨⟨a1, a2, a3⟩, rfl⟩
  · refine ⟨⟨a1, ?_, a3⟩, rfl⟩
    intro j hj
    rcases List.mem_cons.1 hj with e | hm
    · subst e
      intro f hf _
      simp only [Option.some.injEq] at hf
      subst hf; rfl
    · exact a2 j hm

theorem LC_scanRequeue {c : Cfg} {s2 : State} (x hi : Nat) (h : LC s2) :
    LC (scanRequeue c s2 x hi) ∧ (scanRequeue c s2 x hi).pdone = s2.pdone := by
  obtain ⟨a1, a2, a3⟩ := h
  unfold scanRequeue; split
  · exact ⟨⟨a1, a2, a3⟩, rfl⟩
  · exact ⟨⟨a1, a2, a3⟩, rfl⟩

theorem LJ_scanEnd {c : Cfg} {s s' : State} {st k : Nat} (h : LJ s)
    (hs : stepScanEnd c s st k = some s') : LJ s' := by
  unfold stepScanEnd at hs; split at hs
  · have h0 : LJ { s with busy := s.busy.erase (.scan st k) } :=
      LJ_mono h (fun _ h => h) (fun _ h => h)
        (fun _ hp => Or.inl (List.mem_of_mem_erase hp)) rfl rfl
    have h1 : LJ (detach { s with busy := s.busy.erase (.scan st k) } (some k)) :=
      LJ_detach _ h0
    generalize detach { s with busy := s.busy.erase (.scan st k) } (some k) = s1 at h1 hs
    dsimp only at hs
    split at hs
    · simp only [Option.some.injEq] at hs; subst hs
      exact LJ_mono h1 (fun _ h => h) (fun _ h => h) (fun _ h => Or.inl h) rfl rfl
    · next x hx =>
      split at hs
      · simp only [Option.some.injEq] at hs; subst hs
        exact LJ_mono h1 (fun _ h => h) (fun _ h => h) (fun _ h => Or.inl h) rfl rfl
      · next hpd =>
        have hpd' : s1.pdone = false := by simpa using hpd
        simp only [Option.some.injEq] at hs; subst hs
        obtain ⟨n1, e1⟩ := LC_scanNew (c := c) x h1.lc
        obtain ⟨n2, e2⟩ := LC_scanRequeue (c := c) x (offs c (k + 1)) n1
        exact LJ_of_LC n2 (by rw [e2, e1]; exact hpd')
  · simp at hs

/-! ### the other steps -/

theorem LJ_rTake {s s' : State} (h : LJ s) (hs : stepRTake s = some s') : LJ s' := by
  unfold stepRTake at hs; split at hs <;> simp at hs; subst hs
  exact LJ_mono h (fun _ h => h) (fun _ h => h) (fun _ h => Or.inl h) rfl rfl

theorem LJ_rQuit {s s' : State} (h : LJ s) (hs : stepRQuit s = some s') : LJ s' := by
  unfold stepRQuit at hs; split at hs <;> simp at hs; subst hs
  exact LJ_mono h (fun _ h => h) (fun _ h => h) (fun _ h => Or.inl h) rfl rfl

theorem LJ_rBlock {c : Cfg} {s s' : State} (h : LJ s) (hs : stepRBlock c s = some s') : LJ s' := by
  unfold stepRBlock at hs; split at hs
  · dsimp only at hs; split at hs <;> simp at hs <;> subst hs <;>
      exact LJ_mono h (fun _ h => h) (fun _ h => h) (fun _ h => Or.inl h) rfl rfl
  · simp at hs

theorem LJ_rEmpty {c : Cfg} {s s' : State} (h : LJ s) (hs : stepREmpty c s = some s') : LJ s' := by
  unfold stepREmpty at hs; split at hs <;> simp at hs; subst hs
  exact LJ_mono h (fun _ h => h) (fun _ h => h) (fun _ h => Or.inl h) rfl rfl

theorem LJ_rEof {s s' : State} (h : LJ s) (hs : stepREof s = some s') : LJ s' := by
  unfold stepREof at hs; split at hs <;> simp at hs; subst hs
  exact LJ_mono h (fun _ h => h) (fun _ h => h) (fun _ h => Or.inl h) rfl rfl

theorem LJ_wDone {s s' : State} (h : LJ s) (hs : stepWDone s = some s') : LJ s' := by
  unfold stepWDone at hs; split at hs <;> simp at hs; subst hs
  exact LJ_mono h (fun _ h => h) (fun _ h => h) (fun _ h => Or.inl h) rfl rfl

theorem LJ_reorder {c : Cfg} {s s' : State} {ob : OB} (h : LJ s)
    (hs : stepReorder c s ob = some s') : LJ s' := by
  unfold stepReorder at hs; split at hs
  · split at hs
    · simp only [Option.some.injEq] at hs; subst hs
      exact LJ_mono h (fun _ h => h) (fun _ h => h) (fun _ h => Or.inl h) rfl rfl
    · split at hs <;> (simp only [Option.some.injEq] at hs; subst hs) <;>
        exact LJ_mono h (fun _ h => h) (fun _ h => h) (fun _ h => Or.inl h) rfl rfl
  · simp at hs

theorem select_parse_pdone {c : Cfg} {s : State} (h : selectTask c s = some "parse") :
    s.pdone = false := by
  have := select_guard h
  simp [guardOf, dCanParse, view] at this
  exact this.1.1.1

theorem LJ_parseStart {c : Cfg} {s s' : State} (h : LJ s) (hs : stepParseStart c s = some s') :
    LJ s' := by
  unfold stepParseStart at hs; split at hs
  · next hg =>
    simp only [Bool.and_eq_true, beq_iff_eq] at hg
    have hd := select_parse_pdone hg.1.2
    simp only [Option.some.injEq] at hs; subst hs
    exact LJ_of_LC ⟨h.lc.oc, h.lc.atQ, h.lc.atB⟩ hd
  · simp at hs

theorem LJ_retrStart {c : Cfg} {s s' : State} {j : Job} (h : LJ s)
    (hs : stepRetrStart c s j = some s') : LJ s' := by
  unfold stepRetrStart at hs; split at hs
  · next hg =>
    simp only [Bool.and_eq_true, List.contains_iff_mem] at hg
    have hj : j ∈ s.retrQ := hg.1.2
    have hd : s.pdone = false := by
      cases hp : s.pdone with
      | false => rfl
      | true => have := (h.od hp).2.1; rw [this] at hj; cases hj
    simp only [Option.some.injEq] at hs; subst hs
    refine LJ_of_LC ⟨h.lc.oc, fun x hx => h.lc.atQ x (List.mem_of_mem_erase hx), ?_⟩ hd
    intro ph hph
    rcases List.mem_cons.1 hph with e | hm
    · subst e; exact h.lc.atQ j hj
    · exact h.lc.atB ph hm
  · simp at hs

theorem LJ_retrPost {s s' : State} {e : EJob} (h : LJ s) (hs : stepRetrPost s e = some s') :
    LJ s' := by
  unfold stepRetrPost at hs; split at hs
  · simp only [Option.some.injEq] at hs; subst hs
    exact LJ_mono h (fun _ h => h) (fun _ h => h)
      (fun _ hp => Or.inl (List.mem_of_mem_erase hp)) rfl rfl
  · simp at hs

theorem LJ_emitStart {c : Cfg} {s s' : State} {e : EJob} (h : LJ s)
    (hs : stepEmitStart c s e = some s') : LJ s' := by
  unfold stepEmitStart at hs; split at hs
  · simp only [Option.some.injEq] at hs; subst hs
    refine LJ_mono h (fun _ h => h) (fun _ h => h) ?_ rfl rfl
    intro ph hph
    rcases List.mem_cons.1 hph with e | hm
    · subst e; exact Or.inr trivial
    · exact Or.inl hm
  · simp at hs

theorem LJ_emitEnd {s s' : State} {e : EJob} (h : LJ s) (hs : stepEmitEnd s e = some s') :
    LJ s' := by
  unfold stepEmitEnd at hs; split at hs
  · dsimp only at hs
    split at hs <;> (simp only [Option.some.injEq] at hs; subst hs) <;>
      exact LJ_mono h (fun _ h => h) (fun _ h => h)
        (fun _ hp => Or.inl (List.mem_of_mem_erase hp)) rfl rfl
  · simp at hs

theorem LJ_scanStart {c : Cfg} {s s' : State} {sp : Nat} (h : LJ s)
    (hs : stepScanStart c s sp = some s') : LJ s' := by
  unfold stepScanStart at hs; split at hs
  · simp only [Option.some.injEq] at hs; subst hs
    refine LJ_mono h (fun _ h => h) (fun _ h => h) ?_ rfl rfl
    intro ph hph
    rcases List.mem_cons.1 hph with e | hm
    · subst e; exact Or.inr trivial
    · exact Or.inl hm
  · simp at hs

/-! ### all steps -/

theorem LJ_init (c : Cfg) : LJ (init c) := by
  refine ⟨⟨?_, ?_, ?_⟩, ?_, ?_⟩ <;> simp [init]

theorem step_nf {c : Cfg} {s s' : State} {l : Label} (hs : step c s l = some s') :
    s.failed = false := by
  unfold step at hs
  split at hs
  · simp at hs
  · next hf => simpa using hf

theorem LJ_step {c : Cfg} {s s' : State} {l : Label} (h : LJ s) (hs : step c s l = some s')
    (hf' : s'.failed = false) : LJ s' := by
  unfold step at hs
  split at hs
  · simp at hs
  · cases l with
    | rTake => exact LJ_rTake h hs
    | rQuit => exact LJ_rQuit h hs
    | rBlock => exact LJ_rBlock h hs
    | rEmpty => exact LJ_rEmpty h hs
    | rEof => exact LJ_rEof h hs
    | wDone => exact LJ_wDone h hs
    | reorder ob => exact LJ_reorder h hs
    | parseStart => exact LJ_parseStart h hs
    | parseEnd => exact LJ_parseEnd h hs hf'
    | retrStart j => exact LJ_retrStart h hs
    | retrEnd j k => exact LJ_retrEnd h hs
    | retrPost e => exact LJ_retrPost h hs
    | emitStart e => exact LJ_emitStart h hs
    | emitEnd e => exact LJ_emitEnd h hs
    | scanStart sp => exact LJ_scanStart h hs
    | scanEnd st k => exact LJ_scanEnd h hs

theorem LJ_reach {c : Cfg} {s : State} (h : Reach c s) (hf : s.failed = false) : LJ s := by
  induction h with
  | init => exact LJ_init c
  | step l _ hs ih => exact LJ_step (ih (step_nf hs)) hs hf

theorem LI_of_LJ {c : Cfg} {s : State} (h : LJ s) : LI c s := by
  obtain ⟨⟨a1, a2, a3⟩, a4, a5⟩ := h
  refine ⟨a1, a2, fun j k hm => a3 _ hm, a4, ?_⟩
  intro hh
  obtain ⟨b1, b2, b3⟩ := a5 hh
  exact ⟨b1, b2, fun j k hm => b3 _ hm⟩

theorem LJ_of_LI {c : Cfg} {s : State} (h : LI c s) : LJ s := by
  obtain ⟨a1, a2, a3, a4, a5⟩ := h
  refine ⟨⟨a1, a2, ?_⟩, a4, ?_⟩
  · intro ph hph
    cases ph with
    | retr j k => exact a3 j k hph
    | retr2 e => trivial
    | emit e => trivial
    | scan a b => trivial
  · intro hh
    obtain ⟨b1, b2, b3⟩ := a5 hh
    refine ⟨b1, b2, ?_⟩
    intro ph hph
    cases ph with
    | retr j k => exact b3 j k hph
    | retr2 e => trivial
    | emit e => trivial
    | scan a b => trivial

end Leak

open Leak

/-! ### the theorems -/

/-- the initial state satisfies the leak invariant -/
theorem li_init (c : Cfg) : LI c (init c) := LI_of_LJ (LJ_init c)

/-- `LI` is preserved by every transition that does not call `failf`
    (transitions that set `failed` are terminal) -/
theorem li_step {c : Cfg} {s s' : State} {l : Label} (h : LI c s) (hs : step c s l = some s')
    (hf' : s'.failed = false) : LI c s' :=
  LI_of_LJ (LJ_step (LJ_of_LI h) hs hf')

/-- the leak invariant holds in every reachable state in which `failf` has
    not been called -/
theorem li_reach {c : Cfg} {s : State} (h : Reach c s) (hf : s.failed = false) : LI c s :=
  LI_of_LJ (LJ_reach h hf)

/-- every unord_blk without a job is still in unord_q (the parser frees it
    when it pops it / at FINISH); once parsing is done none is left -/
theorem no_unord_leak {c : Cfg} {s : State} (h : Reach c s) (hf : s.failed = false) :
    (∀ u ∈ s.orphans, u.f.inq = true) ∧ (s.pdone = true → s.orphans = []) := by
  have hl := li_reach h hf
  exact ⟨fun u hu => (hl.oc u hu).1, fun hp => (hl.od hp).1⟩

theorem terminated_flds {c : Cfg} {s : State} (ht : terminated c s = true) :
    s.failed = false ∧ s.pdone = true := by
  simp only [terminated, Bool.and_eq_true, Bool.not_eq_true'] at ht
  have h2 := ht.1.2
  simp [dCanTerminate, view] at h2
  exact ⟨ht.1.1, h2.1.1.1.2⟩

/-- at clean termination no unord_blk and no retrieve job is alive -/
theorem no_unord_leak_terminated {c : Cfg} {s : State} (h : Reach c s)
    (ht : terminated c s = true) : s.orphans = [] ∧ s.retrQ = [] := by
  obtain ⟨hf, hp⟩ := terminated_flds ht
  have hl := li_reach h hf
  exact ⟨(hl.od hp).1, (hl.od hp).2.1⟩

/-- F2 is gone: no unord_blk that nobody will ever free -/
theorem leakedCount_zero {c : Cfg} {s : State} (h : Reach c s) (hf : s.failed = false) :
    leakedCount s = 0 := by
  have hl := li_reach h hf
  unfold leakedCount
  rw [List.countP_eq_zero]
  intro u hu
  simp [(hl.oc u hu).1]

end LbzVerif.Lemmas.SchedD
