/-
  Safety invariant, part 3: `do_parse` tail, and the assembled theorem
  `good_reach : Reach c s → Good c s`.
-/
import LbzVerif.Lemmas.SchedD.Safe2

namespace LbzVerif.Lemmas.SchedD
open LbzVerif.Model.SchedD LbzVerif.Gen

theorem mc_flagJob {p : Nat → Bool} {j : Job} (h : Job.mc (flagJob p j) = true) : Job.mc j = true := by
  unfold flagJob Job.mc at *
  cases hu : j.ub with
  | none => rfl
  | some f =>
    simp only [hu, Option.map_some] at h ⊢
    split at h
    · simp [UF.flagBad] at h
    · exact h

theorem jobOK_flagJob {c : Cfg} {g g' : Nat} {p : Nat → Bool} {j : Job} (h : jobOK c g j)
    (hm : Job.mc j = false) : jobOK c g' (flagJob p j) := by
  refine ⟨h.1, ?_, ?_, h.2.2.2.1, ?_⟩
  · intro hh; rw [mc_flagJob hh] at hm; cases hm
  · intro f hf hi
    unfold flagJob at hf
    cases hu : j.ub with
    | none => simp [hu] at hf
    | some f0 =>
      simp only [hu, Option.map_some, Option.some.injEq] at hf
      split at hf
      · subst hf; simp [UF.flagBad] at hi
      · subst hf; exact h.2.2.1 f0 hu hi
  · intro f hf
    unfold flagJob at hf
    cases hu : j.ub with
    | none => simp [hu] at hf
    | some f0 =>
      simp only [hu, Option.map_some, Option.some.injEq] at hf
      split at hf
      · subst hf; exact h.2.2.2.2 f0 hu
      · subst hf; exact h.2.2.2.2 f0 hu

theorem jobOK_flagJob' {c : Cfg} {g : Nat} {p : Nat → Bool} {j : Job} (h : jobOK c g j) :
    jobOK c g (flagJob p j) := by
  refine ⟨h.1, fun hh => h.2.1 (mc_flagJob hh), ?_, h.2.2.2.1, ?_⟩
  · intro f hf hi
    unfold flagJob at hf
    cases hu : j.ub with
    | none => simp [hu] at hf
    | some f0 =>
      simp only [hu, Option.map_some, Option.some.injEq] at hf
      split at hf
      · subst hf; simp [UF.flagBad] at hi
      · subst hf; exact h.2.2.1 f0 hu hi
  · intro f hf
    unfold flagJob at hf
    cases hu : j.ub with
    | none => simp [hu] at hf
    | some f0 =>
      simp only [hu, Option.map_some, Option.some.injEq] at hf
      split at hf
      · subst hf; exact h.2.2.2.2 f0 hu
      · subst hf; exact h.2.2.2.2 f0 hu

theorem mc_flagPhase {p : Nat → Bool} {ph : Phase} (h : Phase.mc (flagPhase p ph) = true) :
    Phase.mc ph = true := by
  cases ph with
  | retr j k => exact mc_flagJob (p := p) h
  | retr2 e => exact h
  | emit e => exact h
  | scan a b => exact h

theorem countP_flag_jobs (p : Nat → Bool) (l : List Job) :
    List.countP Job.mc (l.map (flagJob p)) ≤ List.countP Job.mc l := by
  rw [List.countP_map]
  exact List.countP_mono_left (fun x _ hx => mc_flagJob hx)

theorem countP_flag_phases (p : Nat → Bool) (l : List Phase) :
    List.countP Phase.mc (l.map (flagPhase p)) ≤ List.countP Phase.mc l := by
  rw [List.countP_map]
  exact List.countP_mono_left (fun x _ hx => mc_flagPhase hx)

theorem phaseOK_flag {c : Cfg} {g g' : Nat} {p : Nat → Bool} {ph : Phase} (h : phaseOK c g ph)
    (hm : Phase.mc ph = false) : phaseOK c g' (flagPhase p ph) := by
  cases ph with
  | retr j k => exact jobOK_flagJob h hm
  | retr2 e => exact h
  | emit e => exact h
  | scan a b => trivial

theorem phaseOK_flag' {c : Cfg} {g : Nat} {p : Nat → Bool} {ph : Phase} (h : phaseOK c g ph) :
    phaseOK c g (flagPhase p ph) := by
  cases ph with
  | retr j k => exact jobOK_flagJob' h
  | retr2 e => exact h
  | emit e => exact h
  | scan a b => trivial

theorem ubOK_popOrphans {c : Cfg} {s : State} {p : Nat → Bool} {os : List UB}
    (h : ∀ u ∈ os, ubOK c s u) : ∀ u ∈ popOrphans p os, ubOK c s u := by
  intro u hu
  simp only [popOrphans, List.mem_map, List.mem_filter] at hu
  obtain ⟨x, ⟨hx, _⟩, rfl⟩ := hu
  split
  · exact ⟨rfl, fun hi => by simp [UF.flagBad] at hi⟩
  · exact h x hx

theorem mcount_zero_jobs {s : State} (h : mcount s = 0) :
    (∀ j ∈ s.retrQ, Job.mc j = false) ∧ (∀ ph ∈ s.busy, Phase.mc ph = false) := by
  simp only [mcount, Nat.add_eq_zero_iff, List.countP_eq_zero] at h
  exact ⟨fun j hj => by simpa using h.1 j hj, fun ph hph => by simpa using h.2 ph hph⟩

/-- state just before the parser's verdict: parser phase cleared -/
structure PPre (c : Cfg) (s1 : State) : Prop where
  si : SI c s1
  pt : s1.ptok = false
  pp : s1.pphase = none
  m0 : mcount s1 = 0
  pd : s1.pdone = false
  nf : s1.failed = false

theorem PPre_advance {c : Cfg} {s1 : State} (p : Nat) (h : PPre c s1)
    (hp : ∀ b, pres c s1.gnext = .hdr b → p ≤ b) : PPre c (advance c s1 p) := by
  obtain ⟨h1, h2, h3, h4, h5, h7⟩ := h
  have hc : mcount (advance c s1 p) ≤ mcount s1 :=
    mcount_le_of (List.Sublist.countP_le List.filter_sublist) (Nat.le_refl _)
  exact ⟨SI_advance p h1 (fun _ => hp), h2, h3, by omega, h5, h7⟩

theorem PPre_push {c : Cfg} {s1 : State} {b : Nat} (h : PPre c s1) (hp : pres c s1.gnext = .hdr b) :
    PPre c (parsePush c s1 b) ∧ (parsePush c s1 b).gnext = (rres c b).e ∧
    headOffs c (parsePush c s1 b) ≤ b := by
  have hb := pres_hdr hp
  have he := rres_ge c b
  have hl := rres_le (c := c) hb.2
  obtain ⟨⟨a1, a2, a3, a4, a5, a6, a7, a8, a9, a10, a11, a12, a13⟩, h2, h3, h4, h5, h7⟩ :=
    PPre_advance b h (fun b' hb' => by rw [hp] at hb'; cases hb'; exact Nat.le_refl _)
  have hz := mcount_zero_jobs h4
  have hhb : headOffs c (advance c s1 b) ≤ b := a13 h5 b hp
  have hfield : (advance c s1 b).gnext = s1.gnext := rfl
  have hm0 : mcount (parsePush c s1 b) = 0 := by
    have h1 := countP_flag_jobs (fun x => decide (x < b)) (advance c s1 b).retrQ
    have h2' := countP_flag_phases (fun x => decide (x < b)) (advance c s1 b).busy
    simp only [mcount] at h4
    show List.countP Job.mc (List.map _ (advance c s1 b).retrQ)
      + List.countP Phase.mc (List.map _ (advance c s1 b).busy) = 0
    omega
  refine ⟨⟨⟨?_, hl, ?_, ?_, ?_, ?_, ?_, ?_, a9, a10, ?_, ?_, ?_⟩, h2, h3, hm0, h5, h7⟩, rfl, hhb⟩
  · -- main
    have hfut : future c (advance c s1 b) = seqFrom c (c.T + 1 - s1.gnext) s1.gnext := by
      simp [future, h5, hfield]
    have hfut' : future c (parsePush c s1 b)
        = seqFrom c (c.T + 1 - (rres c b).e) (rres c b).e := by
      have : (parsePush c s1 b).pdone = false := h5
      simp only [future, this, Bool.false_eq_true, if_false]
      show seqFrom c (c.T + 1 - (rres c b).e) (rres c b).e = _
      rfl
    have hstep : seqFrom c (c.T + 1 - s1.gnext) s1.gnext
        = orderOut c [(b, 0)] (seqFrom c (c.T + 1 - (rres c b).e) (rres c b).e) := by
      have hq : c.T + 1 - s1.gnext = (c.T - s1.gnext) + 1 := by omega
      rw [hq, seqFrom_hdr hp, seqFrom_fuel' c (rres c b).e (c.T - s1.gnext) hl (by omega)]
      simp only [orderOut]
    simp only [expect] at a1 ⊢
    rw [hfut'] 
    show seqRun c = ((advance c s1 b).written ++ (orderOut c ((advance c s1 b).orderQ ++ [(b, 0)]) _).1,
      (orderOut c ((advance c s1 b).orderQ ++ [(b, 0)]) _).2)
    rw [orderOut_append, ← hstep, ← hfut]
    exact a1
  · intro hh
    rcases hh with hh | hh
    · rw [show (parsePush c s1 b).ptok = (advance c s1 b).ptok from rfl,
        h2] at hh; cases hh
    · rw [show (parsePush c s1 b).pphase = (advance c s1 b).pphase from rfl,
        h3] at hh; cases hh
  · intro _; exact h3
  · omega
  · intro _; exact hm0
  · intro j hj
    simp only [parsePush, List.mem_map] at hj
    obtain ⟨x, hx, rfl⟩ := hj
    exact jobOK_flagJob (a7 x hx) (hz.1 x hx)
  · intro ph hph
    simp only [parsePush, List.mem_map] at hph
    obtain ⟨x, hx, rfl⟩ := hph
    exact phaseOK_flag (a8 x hx) (hz.2 x hx)
  · intro _
    exact ubOK_popOrphans (s := parsePush c s1 b) (p := fun x => decide (x < b))
      (fun u hu => a11 h5 u hu)
  · intro hh
    rw [show (parsePush c s1 b).pphase = (advance c s1 b).pphase from rfl,
        h3] at hh; cases hh
  · intro _ b' hb'
    have h1 := (pres_hdr hb').1
    show headOffs c (advance c s1 b) ≤ b'
    have : (parsePush c s1 b).gnext = (rres c b).e := rfl
    rw [this] at h1
    omega

theorem endp_le_job {c : Cfg} {g b : Nat} {j : Job} (h : jobOK c g j)
    (hq : Job.inqAt b j = true) : j.endp ≤ (rres c b).e := by
  unfold Job.inqAt at hq; unfold Job.endp
  cases hu : j.ub with
  | none => simp [hu] at hq
  | some f =>
    simp only [hu, Bool.and_eq_true, beq_iff_eq] at hq ⊢
    have := h.2.2.2.2 f hu
    rw [hq.2] at this; exact this


theorem jobOK_good {c : Cfg} {b : Nat} {j : Job} (h : jobOK c (rres c b).e j)
    (hq : Job.inqAt b j = true) : jobOK c (rres c b).e j.good := by
  unfold Job.inqAt at hq
  cases hu : j.ub with
  | none => simp [hu] at hq
  | some f =>
    simp only [hu, Bool.and_eq_true, beq_iff_eq] at hq
    refine ⟨h.1, ?_, ?_, h.2.2.2.1, ?_⟩
    · intro _; show (rres c j.base).e = _; rw [hq.2]
    · intro f' hf' hi
      simp only [Job.good, hu, Option.map_some, Option.some.injEq] at hf'
      subst hf'; simp [UF.flagGood] at hi
    · intro f' hf'
      simp only [Job.good, hu, Option.map_some, Option.some.injEq] at hf'
      subst hf'; exact h.2.2.2.2 f hu

theorem PPre_match {c : Cfg} {s3 : State} {b : Nat} (h : PPre c s3) (hg : s3.gnext = (rres c b).e)
    (hhb : headOffs c s3 ≤ b) :
    SI c (parseMatch c s3 b) ∧ (parseMatch c s3 b).failed = false := by
  obtain ⟨⟨a1, a2, a3, a4, a5, a6, a7, a8, a9, a10, a11, a12, a13⟩, h2, h3, h4, h5, h7⟩ := h
  have hle : ∀ p, p ≤ (rres c b).e → ∀ b', pres c s3.gnext = .hdr b' → p ≤ b' := by
    intro p hp b' hb'
    have := (pres_hdr hb').1
    rw [hg] at this; omega
  have hm := h4
  simp only [mcount] at hm
  unfold parseMatch
  split
  · -- the scanner-found block's job is waiting in retr_q
    next j hj =>
    have hjm := List.mem_of_find?_eq_some hj
    have hjq := List.find?_some hj
    have hcnt := countP_replaceFirst_le Job.mc (Job.inqAt b) Job.good s3.retrQ
    have hS : SI c { s3 with retrQ := replaceFirst (Job.inqAt b) Job.good s3.retrQ } := by
      refine ⟨a1, a2, a3, a4, ?_, ?_, ?_, a8, a9, a10, a11, a12, a13⟩
      · show List.countP Job.mc (replaceFirst _ _ s3.retrQ) + List.countP Phase.mc s3.busy ≤ 1
        omega
      · intro hh
        rcases hh with hh | hh
        · rw [show ({ s3 with retrQ := replaceFirst (Job.inqAt b) Job.good s3.retrQ } : State).ptok
            = s3.ptok from rfl, h2] at hh; cases hh
        · rw [show ({ s3 with retrQ := replaceFirst (Job.inqAt b) Job.good s3.retrQ } : State).pphase
            = s3.pphase from rfl, h3] at hh; cases hh
      · intro y hy
        rcases mem_replaceFirst _ _ hy with hy | ⟨x, hx, hq, rfl⟩
        · exact a7 y hy
        · have := a7 x hx
          show jobOK c s3.gnext x.good
          rw [hg] at this ⊢
          exact jobOK_good this hq
    have hend : j.endp ≤ (rres c b).e := by
      have := a7 j hjm; rw [hg] at this; exact endp_le_job this hjq
    exact ⟨SI_congr (SI_advance j.endp hS (fun _ => hle _ hend)) rfl rfl rfl rfl rfl rfl rfl rfl rfl rfl rfl rfl rfl, h7⟩
  · split
    · -- … is running
      next ph hph =>
      have hcnt := countP_replaceFirst_le Phase.mc (Phase.inqAt b) Phase.good s3.busy
      have hS : SI c { s3 with busy := replaceFirst (Phase.inqAt b) Phase.good s3.busy } := by
        refine ⟨a1, a2, a3, a4, ?_, ?_, a7, ?_, a9, a10, a11, a12, a13⟩
        · show List.countP Job.mc s3.retrQ + List.countP Phase.mc (replaceFirst _ _ s3.busy) ≤ 1
          omega
        · intro hh
          rcases hh with hh | hh
          · rw [show ({ s3 with busy := replaceFirst (Phase.inqAt b) Phase.good s3.busy } : State).ptok
              = s3.ptok from rfl, h2] at hh; cases hh
          · rw [show ({ s3 with busy := replaceFirst (Phase.inqAt b) Phase.good s3.busy } : State).pphase
              = s3.pphase from rfl, h3] at hh; cases hh
        · intro y hy
          rcases mem_replaceFirst _ _ hy with hy | ⟨x, hx, hq, rfl⟩
          · exact a8 y hy
          · have := a8 x hx
            cases x with
            | retr j k =>
              show jobOK c s3.gnext j.good
              rw [hg] at this ⊢
              exact jobOK_good this hq
            | retr2 e => exact this
            | emit e => exact this
            | scan a b => trivial
      have hend : ph.endp ≤ (rres c b).e := by
        have hpm := List.mem_of_find?_eq_some hph
        have hpq := List.find?_some hph
        have := a8 ph hpm
        cases ph with
        | retr j k => rw [hg] at this; exact endp_le_job this hpq
        | retr2 e => exact Nat.zero_le _
        | emit e => exact Nat.zero_le _
        | scan a b => exact Nat.zero_le _
      exact ⟨SI_congr (SI_advance ph.endp hS (fun _ => hle _ hend)) rfl rfl rfl rfl rfl rfl rfl rfl rfl rfl rfl rfl rfl, h7⟩
    · split
      · -- … has finished (or was dropped): the entry is an orphan
        next u hu =>
        have hum := List.mem_of_find?_eq_some hu
        have huq := List.find?_some hu
        simp only [Bool.and_eq_true, beq_iff_eq] at huq
        by_cases hc : u.f.complete = true
        · -- a block that really was retrieved to its end (a `discard()`ed
          -- entry lies behind head_offs ≤ b and cannot be at b)
          have hend : u.f.endp = (rres c b).e := by
            rcases (a11 h5 u hum).2 huq.1 with h | h
            · rw [h, huq.2]
            · rw [huq.2] at h; omega
          have hA := SI_advance u.f.endp (c := c) (s := s3)
            ⟨a1, a2, a3, a4, a5, a6, a7, a8, a9, a10, a11, a12, a13⟩ (fun _ => hle _ (by omega))
          have hcA : mcount (advance c s3 u.f.endp) ≤ mcount s3 :=
            mcount_le_of (List.Sublist.countP_le List.filter_sublist) (Nat.le_refl _)
          obtain ⟨b1, b2, b3, b4, b5, b6, b7, b8, b9, b10, b11, b12, b13⟩ := hA
          rw [if_pos hc]
          refine ⟨⟨b1, b2, ?_, ?_, b5, ?_, b7, b8, b9, b10, ?_, b12, b13⟩, h7⟩
          · intro _
            show u.f.endp = s3.gnext
            rw [hg, hend]
          · intro _; exact h3
          · intro _; show mcount (advance c s3 u.f.endp) = 0; omega
          · intro hd x hx; exact b11 hd x (List.mem_of_mem_erase hx)
        · exact absurd (a11 h5 u hum).1 hc
      · -- nobody found it: the parser creates the master job
        refine ⟨⟨a1, a2, a3, a4, ?_, ?_, ?_, a8, a9, a10, a11, a12, a13⟩, h7⟩
        · show List.countP Job.mc (_ :: s3.retrQ) + List.countP Phase.mc s3.busy ≤ 1
          rw [List.countP_cons]; split <;> omega
        · intro hh
          rcases hh with hh | hh
          · rw [show ({ s3 with retrQ := ({ curr := b, base := b, ub := none, corrupt := false } : Job)
              :: s3.retrQ } : State).ptok = s3.ptok from rfl, h2] at hh; cases hh
          · rw [show ({ s3 with retrQ := ({ curr := b, base := b, ub := none, corrupt := false } : Job)
              :: s3.retrQ } : State).pphase = s3.pphase from rfl, h3] at hh; cases hh
        · intro x hx
          rcases List.mem_cons.1 hx with e | hm'
          · subst e
            exact ⟨rres_ge c b, fun _ => hg.symm, (by intro f hf; cases hf), Nat.le_refl _,
              (by intro f hf; cases hf)⟩
          · exact a7 x hm'


theorem future_fail {c : Cfg} {s : State} {r : List (Nat × Nat) × Bool}
    (h : SI c s) (hfut : future c s = r) (hr : r.2 = false) :
    (seqRun c).2 = false ∧ s.written <+: (seqRun c).1 := by
  have a1 := h.main
  simp only [expect, hfut] at a1
  rw [a1]
  exact ⟨orderOut_fail c _ _ hr, List.prefix_append _ _⟩

theorem Good_of_SI {c : Cfg} {t : State} (h : SI c t) (hf : t.failed = false) : Good c t := by
  unfold Good; simp only [hf, Bool.false_eq_true, if_false]; exact h

theorem Good_of_fail {c : Cfg} {t : State} (hf : t.failed = true) (h : FailOK c t) : Good c t := by
  unfold Good; simp only [hf, if_true]; exact h

theorem parseMoreP_le {c : Cfg} {k : Option Nat} {r : PRes}
    (h : parseMoreP c k (parseTarget r) = true) : ∀ b, r = .hdr b → offs c (k.getD 0 + 1) ≤ b := by
  intro b hb
  subst hb
  unfold parseMoreP at h
  cases k with
  | none => cases h
  | some kk =>
    have h' : offs c (kk + 1) < b := of_decide_eq_true h
    simp only [Option.getD_some]
    omega

theorem Good_parseMore {c : Cfg} {s1 : State} (k : Option Nat) (hP : PPre c s1)
    (hpo1 : s1.porig = s1.gnext)
    (hp : ∀ b, pres c s1.gnext = .hdr b → offs c (k.getD 0 + 1) ≤ b) :
    Good c (parseMore c s1 k) := by
  obtain ⟨⟨b1, b2, b3, b4, b5, b6, b7, b8, b9, b10, b11, b12, b13⟩, p2, p3, p4, p5, p7⟩ :=
    PPre_advance (offs c (k.getD 0 + 1)) hP hp
  refine Good_of_SI (t := parseMore c s1 k) ?_ p7
  refine ⟨b1, b2, fun _ => hpo1, fun _ => p3, b5, fun _ => p4, b7, b8, b9, b10, b11, ?_, b13⟩
  intro hh
  rw [show (parseMore c s1 k).pphase = (advance c s1 (offs c (k.getD 0 + 1))).pphase from rfl, p3] at hh
  cases hh

theorem Good_parseVerdict {c : Cfg} {s1 : State} (hP : PPre c s1)
    (hpo1 : s1.porig = s1.gnext) : Good c (parseVerdict c s1 (pres c s1.gnext)) := by
  have hgle : s1.gnext ≤ c.T := hP.si.gle
  have hq : c.T + 1 - s1.gnext = (c.T - s1.gnext) + 1 := by omega
  cases hu : pres c s1.gnext with
  | err u =>
    have hfut : future c s1 = ([], false) := by
      simp only [future, hP.pd, Bool.false_eq_true, if_false]; rw [hq, seqFrom_err hu]
    exact Good_of_fail rfl (by have := future_fail (s := s1) hP.si hfut rfl; exact this)
  | finish u ok =>
    have hfut : future c s1 = ([], ok) := by
      simp only [future, hP.pd, Bool.false_eq_true, if_false]; rw [hq, seqFrom_finish hu]
    cases ok with
    | false =>
      exact Good_of_fail rfl (by have := future_fail (s := s1) hP.si hfut rfl; exact this)
    | true =>
      obtain ⟨⟨b1, b2, b3, b4, b5, b6, b7, b8, b9, b10, b11, b12, b13⟩, p2, p3, p4, p5, p7⟩ := hP
      show Good c (parseFinish s1 u)
      refine Good_of_SI (t := parseFinish s1 u) ?_ p7
      have hc0 : mcount (parseFinish s1 u) = 0 := by
        have := countP_flag_phases (fun _ => true) s1.busy
        simp only [mcount] at p4
        show List.countP Job.mc [] + List.countP Phase.mc (List.map _ s1.busy) = 0
        simp only [List.countP_nil]; omega
      refine ⟨?_, b2, fun _ => hpo1, fun _ => p3, by omega, fun _ => hc0, ?_, ?_, b9, b10, ?_, ?_, ?_⟩
      · simp only [expect, hfut] at b1
        simpa [expect, future, parseFinish] using b1
      · intro j hj; cases hj
      · intro ph hph
        simp only [parseFinish, List.mem_map] at hph
        obtain ⟨x, hx, rfl⟩ := hph
        exact phaseOK_flag' (b8 x hx)
      · intro hd; exact absurd (show (parseFinish s1 u).pdone = true from rfl) (by rw [hd]; simp)
      · intro hh; rw [show (parseFinish s1 u).pphase = s1.pphase from rfl, p3] at hh; cases hh
      · intro hd; exact absurd (show (parseFinish s1 u).pdone = true from rfl) (by rw [hd]; simp)
  | hdr b =>
    obtain ⟨q1, q2, q3⟩ := PPre_push hP hu
    obtain ⟨r1, r2⟩ := PPre_match q1 q2 q3
    exact Good_of_SI r1 r2

theorem Good_parseEnd {c : Cfg} {s s' : State} (h : SI c s) (hf : s.failed = false)
    (hs : stepParseEnd c s = some s') : Good c s' := by
  unfold stepParseEnd at hs
  split at hs
  · simp at hs
  · next k hk =>
    have hsome : s.pphase.isSome = true := by simp [hk]
    have hpo : s.porig = s.gnext := h.porig (Or.inr hsome)
    have hm0 : mcount s = 0 := h.mc0 (Or.inr hsome)
    have hpd : s.pdone = false := h.pd hsome
    have hpt : s.ptok = false := by
      cases hp : s.ptok with
      | false => rfl
      | true => have := h.excl hp; rw [hk] at this; cases this
    have hS0 : SI c { s with pphase := none } := by
      obtain ⟨a1, a2, a3, a4, a5, a6, a7, a8, a9, a10, a11, a12, a13⟩ := h
      refine ⟨a1, a2, ?_, fun _ => rfl, a5, ?_, a7, a8, a9, a10, a11, ?_, a13⟩
      · intro _; exact hpo
      · intro _; exact hm0
      · intro hh; cases hh
    have df := detach_fields { s with pphase := none } k
    have hP : PPre c (detach { s with pphase := none } k) := by
      refine ⟨SI_detach k hS0, ?_, ?_, ?_, ?_, ?_⟩
      · rw [df.1]; exact hpt
      · rw [df.2.1]
      · rw [mcount_detach]; exact hm0
      · rw [df.2.2.2.2.1]; exact hpd
      · rw [df.2.2.2.2.2.1]; exact hf
    have hpo1 : (detach { s with pphase := none } k).porig = (detach { s with pphase := none } k).gnext := by
      rw [df.2.2.1, df.2.2.2.1]; exact hpo
    have hg1 : (detach { s with pphase := none } k).gnext = s.gnext := df.2.2.2.1
    have key : pres c s.porig = pres c (detach { s with pphase := none } k).gnext := by
      rw [hg1, hpo]
    dsimp only at hs
    rw [key] at hs
    generalize detach { s with pphase := none } k = s1 at hs hP hpo1
    split at hs
    · next hmore =>
      simp only [Option.some.injEq] at hs; subst hs
      exact Good_parseMore k hP hpo1 (parseMoreP_le hmore)
    · simp only [Option.some.injEq] at hs; subst hs
      exact Good_parseVerdict hP hpo1

/-! ### all steps -/

theorem good_step {c : Cfg} {s s' : State} {l : Label} (h : Good c s) (hs : step c s l = some s') :
    Good c s' := by
  unfold step at hs
  split at hs
  · simp at hs
  · next hf =>
    have hf' : s.failed = false := by simpa using hf
    have hsi : SI c s := by simpa [Good, hf'] using h
    have fin : ∀ {t : State}, SI c t ∧ t.failed = s.failed → Good c t := by
      intro t ht; simp only [Good]; rw [ht.2, hf', if_neg (by simp)]; exact ht.1
    cases l with
    | rTake => exact fin (SI_rTake hsi hs)
    | rQuit => exact fin (SI_rQuit hsi hs)
    | rBlock => exact fin (SI_rBlock hsi hs)
    | rEmpty => exact fin (SI_rEmpty hsi hs)
    | rEof => exact fin (SI_rEof hsi hs)
    | wDone => exact fin (SI_wDone hsi hs)
    | reorder ob => exact Good_reorder hsi hf' hs
    | parseStart => exact fin (SI_parseStart hsi hs)
    | parseEnd => exact Good_parseEnd hsi hf' hs
    | retrStart j => exact fin (SI_retrStart hsi hs)
    | retrEnd j k => exact fin (SI_retrEnd hsi hs)
    | retrPost e => exact fin (SI_retrPost hsi hs)
    | emitStart e => exact fin (SI_emitStart hsi hs)
    | emitEnd e => exact fin (SI_emitEnd hsi hs)
    | scanStart sp => exact fin (SI_scanStart hsi hs)
    | scanEnd st k => exact fin (SI_scanEnd hsi hs)

theorem good_reach {c : Cfg} {s : State} (h : Reach c s) : Good c s := by
  induction h with
  | init => simp only [Good, init]; exact SI_init c
  | step l _ hs ih => exact good_step ih hs

end LbzVerif.Lemmas.SchedD
