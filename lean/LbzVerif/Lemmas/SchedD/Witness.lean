/-
  The runs of `Model.SchedD` that used to be machine-checked WITNESSES of the
  lifecycle gaps of overtaken speculative jobs (DESIGN 7.1 F2, F4, F5), found
  by `lbzdrv schedd-find`.  All three gaps are repaired in the C code (/repo
  commits 7623822 and b64cc56) and in the model; the witnesses no longer hold
  and are gone.  The same runs are replayed here by kernel evaluation as
  examples of the repaired behaviour (`f2_repaired`, `f4_repaired`,
  `f5_repaired`); the restored statements are proved for all reachable states
  in Lemmas/SchedD/Attach.lean, Leak.lean and UnordCap.lean.
-/
import LbzVerif.Model.SchedD

namespace LbzVerif.Lemmas.SchedD
open LbzVerif.Model.SchedD

/-- One block 1…11 (header at 0, end of stream at 11) cut into input blocks of
    2 units; the scanner reports a spurious candidate at 3 that decodes as a
    complete block up to 9.  n = 2, in_slots = 3, out_slots = 4 (= `-s` mode,
    2·n). -/
def cfgF5 : Cfg :=
  { n := 2, W := 2, T := 12, totalIn := 3, totalOut := 4, ultra := false,
    parseAt := fun p => if p = 0 then .hdr 1 else if p = 11 then .finish 12 true else .err p,
    retrieveFrom := fun b =>
      if b = 1 then ⟨true, 11, 1, true⟩ else if b = 3 then ⟨true, 9, 1, true⟩
      else ⟨false, b, 1, false⟩,
    cand := [3] }

def traceF5 : List Label :=
  [.rTake, .rBlock, .rTake, .rBlock, .rTake, .rBlock, .parseStart, .parseEnd,
   .retrStart ⟨1, 1, none, false⟩, .retrEnd ⟨1, 1, none, false⟩ (some 0),
   .retrStart ⟨2, 1, none, false⟩, .scanStart 2, .scanEnd 2 1,
   .retrStart ⟨3, 3, (some ⟨3, false, false, true⟩), false⟩, .retrEnd ⟨2, 1, none, false⟩ (some 1),
   .retrStart ⟨4, 1, none, false⟩, .retrEnd ⟨4, 1, none, false⟩ (some 2),
   .retrEnd ⟨3, 3, (some ⟨3, false, false, true⟩), false⟩ (some 1)]

/-- the former F5 run: the overtaken speculative job (it would continue at
    offset 4 < head_offs = 6) is now discarded: `retr_q` holds no job behind
    `head_offs`, the work unit is back, and its unord_blk has left unord_q
    with it. -/
theorem f5_repaired :
    (run cfgF5 (init cfgF5) traceF5).any
      (fun s => !staleAttach cfgF5 s && decide (headOffs cfgF5 s = 6) && s.retrQ.all (fun j => j.ub.isNone)
                && decide (unordSize s = 0)) = true := by
  decide +kernel

/-- the same block, with a spurious candidate (an immediate decode error) in
    each of four input blocks; n = 2, in_slots = 2, out_slots = 4, so the
    capacity of `unord_q` is 2 + 4 − 3 = 3. -/
def cfgF4 : Cfg :=
  { n := 2, W := 2, T := 12, totalIn := 2, totalOut := 4, ultra := false,
    parseAt := fun p => if p = 0 then .hdr 1 else if p = 11 then .finish 12 true else .err p,
    retrieveFrom := fun b => if b = 1 then ⟨true, 11, 1, true⟩ else ⟨false, b, 1, false⟩,
    cand := [3, 5, 7, 9] }

def traceF4 : List Label :=
  [.rTake, .rBlock, .rTake, .rBlock, .parseStart, .parseEnd,
   .retrStart ⟨1, 1, none, false⟩, .retrEnd ⟨1, 1, none, false⟩ (some 0), .rTake, .rBlock,
   .retrStart ⟨2, 1, none, false⟩, .scanStart 2, .scanEnd 2 1,
   .retrEnd ⟨2, 1, none, false⟩ (some 1), .rTake, .rBlock,
   .retrStart ⟨4, 1, none, false⟩, .scanStart 4, .scanEnd 4 2,
   .retrEnd ⟨4, 1, none, false⟩ (some 2), .rTake, .rBlock,
   .retrStart ⟨6, 1, none, false⟩, .scanStart 6, .scanEnd 6 3,
   .retrEnd ⟨6, 1, none, false⟩ (some 3),
   .retrStart ⟨8, 1, none, false⟩, .scanStart 8, .scanEnd 8 4]

/-- the former F4 run (three speculative jobs dropped by `advance()` before they
    ran, a fourth one just created): the dropped jobs' entries have left
    unord_q with them; one entry is queued, capacity 3. -/
theorem f4_repaired :
    (run cfgF4 (init cfgF4) traceF4).any
      (fun s => decide (unordSize s = 1) && decide (unordCapOf cfgF4 = 3)
                && decide (s.orphans = [])) = true := by
  decide +kernel

def traceF2 : List Label :=
  [.rTake, .rBlock, .rTake, .rBlock, .parseStart, .parseEnd,
   .retrStart ⟨1, 1, none, false⟩, .retrEnd ⟨1, 1, none, false⟩ (some 0), .rTake, .rBlock,
   .retrStart ⟨2, 1, none, false⟩, .scanStart 2, .scanEnd 2 1,
   .retrEnd ⟨2, 1, none, false⟩ (some 1), .rTake, .rBlock,
   .retrStart ⟨4, 1, none, false⟩, .retrEnd ⟨4, 1, none, false⟩ (some 2), .rTake, .rBlock,
   .retrStart ⟨6, 1, none, false⟩, .retrEnd ⟨6, 1, none, false⟩ (some 3), .rTake, .rBlock,
   .retrStart ⟨8, 1, none, false⟩, .retrEnd ⟨8, 1, none, false⟩ (some 4),
   .retrStart ⟨10, 1, none, false⟩, .retrEnd ⟨10, 1, none, false⟩ (some 5),
   .parseStart, .parseEnd, .rQuit, .rEof, .retrPost ⟨1, 0, 1, true, false⟩,
   .emitStart ⟨1, 0, 1, true, false⟩, .emitEnd ⟨1, 0, 1, true, false⟩,
   .reorder ⟨1, 0, .ok, false⟩, .wDone]

/-- the former F2 run (a speculative job dropped by `advance()` before it ever
    ran): it terminates cleanly with the right output and NO unord_blk left. -/
theorem f2_repaired :
    (run cfgF4 (init cfgF4) traceF2).any
      (fun s => terminated cfgF4 s && decide (s.orphans = []) && decide (s.orderQ = [])
                && decide ((s.written, true) = seqRun cfgF4)) = true := by
  decide +kernel

end LbzVerif.Lemmas.SchedD
