/-
  Soundness of the thread-level trace projection (ProjW.lean): every
  transition of the refined model `Model.SchedDW` from a reachable state that
  does not call `failf` projects onto a transition of `stepWP`, the relation
  the hook-trace replay `acceptTraceW` (driver command `schedd-acceptw`) checks
  line by line.  So a trace line refused by `stepWP` is refused by
  `Model.SchedDW.stepW` for every value of the data the trace does not show.
-/
import LbzVerif.Lemmas.SchedD.ProjW
import LbzVerif.Lemmas.SchedD.ProjSound2
import LbzVerif.Lemmas.SchedD.Wake

namespace LbzVerif.Lemmas.SchedD
open LbzVerif.Model.SchedD LbzVerif.Model.SchedDW LbzVerif.Gen

/-- `process->finished()` only reads data the trace line shows -/
theorem finishedP_proj (c : Cfg) (s : State) :
    finishedP c.n c.totalOut c.ultra (proj c s) = finished c s := rfl

/-- `sched_unlock()` projects onto `unlockWP` with `nt := select_task()` -/
theorem unlock_proj {c : Cfg} {w w' : WState} {k : Nat} (h : unlockW c w k = some w') :
    unlockWP c.n c.totalOut c.ultra (projW c w) (selectTask c w.base) k = some (projW c w') := by
  unfold unlockW at h
  unfold unlockWP
  have hsel : selectable c.n c.totalOut c.ultra (projW c w).p (selectTask c w.base) = true :=
    select_selectable c w.base
  have hfin : finishedP c.n c.totalOut c.ultra (projW c w).p = finished c w.base :=
    finishedP_proj c w.base
  rw [if_pos hsel, hfin]
  dsimp only at h
  split at h
  · rename_i hc
    rw [if_pos hc]
    show (signal w.ws k).map _ = _
    cases hsg : signal w.ws k with
    | none => rw [hsg] at h; cases h
    | some ws =>
      rw [hsg] at h
      simp only [Option.map_some, Option.some.injEq] at h
      subst h
      rfl
  · rename_i hc
    rw [if_neg hc]
    simp only [Option.some.injEq] at h
    subst h
    rfl

theorem unlock_base {c : Cfg} {w w' : WState} {k : Nat} (h : unlockW c w k = some w') :
    w'.base = w.base := by
  unfold unlockW at h
  dsimp only at h
  split at h
  · cases hsg : signal w.ws k with
    | none => rw [hsg] at h; cases h
    | some ws =>
      rw [hsg] at h
      simp only [Option.map_some, Option.some.injEq] at h
      subst h
      rfl
  · simp only [Option.some.injEq] at h
    subst h
    rfl

/-- the projected label of a refined transition -/
def ioWho : Label → String
  | .wDone => "writer"
  | _ => "reader"

def endPhase : Label → String
  | .parseEnd => "parse"
  | .retrEnd _ _ => "retrieve"
  | .retrPost _ => "retr2"
  | .emitEnd _ => "emit"
  | _ => "scan"

def plOf (c : Cfg) (w : WState) (l : WLabel) (w' : WState) : PL :=
  match l with
  | .io _ => .io
  | .ioS bl k => .ioS (ioWho bl) (proj c w'.base) w'.nextTask k
  | .acquire i => .acquire i
  | .runTask i _ k => .runTask i (proj c w'.base) w'.nextTask k
  | .relock i bl k =>
    .relock i (endPhase bl) (decide (retrFinished bl w.base w'.base)) (proj c w'.base) w'.nextTask k
  | .wait i => .wait i
  | .exit i => .exit i
  | .spurious i => .spurious i

theorem unlock_next {c : Cfg} {w w' : WState} {k : Nat} (h : unlockW c w k = some w') :
    w'.nextTask = selectTask c w.base := by
  unfold unlockW at h
  dsimp only at h
  split at h
  · cases hsg : signal w.ws k with
    | none => rw [hsg] at h; cases h
    | some ws =>
      rw [hsg] at h
      simp only [Option.map_some, Option.some.injEq] at h
      subst h
      rfl
  · simp only [Option.some.injEq] at h
    subst h
    rfl

/-! equations of `stepWP`, one per projected label -/

theorem stepWP_ioS (n totalOut : Nat) (ultra : Bool) (x : PW) (who q nt k) :
    stepWP n totalOut ultra x (.ioS who q nt k) =
      if (who == "reader" || who == "writer") && tailOk who x.p q && x.holder.isNone then
        unlockWP n totalOut ultra { x with p := q } nt k
      else none := rfl

theorem stepWP_acquire (n totalOut : Nat) (ultra : Bool) (x : PW) (i) :
    stepWP n totalOut ultra x (.acquire i) =
      if x.holder = none ∧ x.ws[i]? = some .ready then
        some { x with holder := some i, ws := x.ws.set i .inloop }
      else none := rfl

theorem stepWP_runTask (n totalOut : Nat) (ultra : Bool) (x : PW) (i q nt k) :
    stepWP n totalOut ultra x (.runTask i q nt k) =
      if x.holder = some i ∧ x.ws[i]? = some .inloop then
        match x.nextTask with
        | none => none
        | some t =>
          if t == "reorder" then
            if reorderOk x.p q && selectable n totalOut ultra q nt then
              some { x with p := q, nextTask := nt }
            else none
          else if headOk t x.p q then
            unlockWP n totalOut ultra { x with p := q, ws := x.ws.set i .running } nt k
          else none
      else none := rfl

theorem stepWP_relock (n totalOut : Nat) (ultra : Bool) (x : PW) (i phase fin q nt k) :
    stepWP n totalOut ultra x (.relock i phase fin q nt k) =
      if x.holder = none ∧ x.ws[i]? = some .running ∧
          (phase == "parse" || phase == "retrieve" || phase == "retr2" || phase == "emit"
            || phase == "scan") = true ∧ tailOk phase x.p q = true ∧
          (fin = true → phase = "retrieve") then
        if fin then unlockWP n totalOut ultra { x with p := q } nt k
        else if selectable n totalOut ultra q nt then
          some { x with p := q, nextTask := nt, holder := some i, ws := x.ws.set i .inloop }
        else none
      else none := rfl

theorem stepWP_wait (n totalOut : Nat) (ultra : Bool) (x : PW) (i) :
    stepWP n totalOut ultra x (.wait i) =
      if x.holder = some i ∧ x.ws[i]? = some .inloop ∧ x.nextTask = none
          ∧ finishedP n totalOut ultra x.p = false then
        some { x with holder := none, ws := x.ws.set i .waiting }
      else none := rfl

theorem stepWP_exit (n totalOut : Nat) (ultra : Bool) (x : PW) (i) :
    stepWP n totalOut ultra x (.exit i) =
      if x.holder = some i ∧ x.ws[i]? = some .inloop ∧ x.nextTask = none
          ∧ finishedP n totalOut ultra x.p = true then
        some { x with holder := none, ws := broadcast (x.ws.set i .exited) }
      else none := rfl

theorem stepWP_spurious (n totalOut : Nat) (ultra : Bool) (x : PW) (i) :
    stepWP n totalOut ultra x (.spurious i) =
      if x.ws[i]? = some .waiting then some { x with ws := x.ws.set i .ready } else none := rfl

/-- **projW_sound**: a transition of `Model.SchedDW` from a reachable state,
    not ending in `failf`, is a transition of the projected system `stepWP`
    (label `plOf`). -/
theorem projW_sound {c : Cfg} (hW : 0 < c.W) {w w' : WState} {l : WLabel} (h : ReachW c w)
    (hs : stepW c w l = some w') (hnf : w'.base.failed = false) :
    stepWP c.n c.totalOut c.ultra (projW c w) (plOf c w l w') = some (projW c w') := by
  have hB := reachW_base h
  unfold stepW at hs
  split at hs
  · cases hs
  cases l with
  | io bl =>
    dsimp only at hs
    split at hs
    · rename_i hio
      cases hb : step c w.base bl with
      | none => rw [hb] at hs; cases hs
      | some b =>
        rw [hb] at hs
        simp only [Option.map_some, Option.some.injEq] at hs
        subst hs
        have hp := proj_sound hW hB hb
        unfold projStepOk at hp
        dsimp only at hnf hp
        rw [hnf] at hp
        have hq : (proj c b == proj c w.base) = true := by
          cases bl <;> first | exact hp | cases hio
        have hq' : proj c b = proj c w.base := by simpa using hq
        show some (projW c w) = some _
        unfold projW
        dsimp only
        rw [hq']
    · cases hs
  | ioS bl k =>
    dsimp only at hs
    split at hs
    · rename_i hc
      cases hb : step c w.base bl with
      | none => rw [hb] at hs; cases hs
      | some b =>
        rw [hb] at hs
        simp only [Option.bind_some] at hs
        have hbase := unlock_base hs
        have hnext := unlock_next hs
        have hu := unlock_proj hs
        dsimp only at hbase hnext
        have hp := proj_sound hW hB hb
        unfold projStepOk at hp
        dsimp only at hp
        rw [hbase] at hnf
        rw [hnf] at hp
        have ht : tailOk (ioWho bl) (proj c w.base) (proj c b) = true := by
          cases bl <;> first | exact hp | (have h1 := hc.1; simp [lockedIO] at h1)
        have hw : (ioWho bl == "reader" || ioWho bl == "writer") = true := by
          cases bl <;> rfl
        show stepWP _ _ _ _ (PL.ioS (ioWho bl) (proj c w'.base) w'.nextTask k) = _
        rw [hbase, hnext, stepWP_ioS]
        have hh : (projW c w).holder.isNone = true := by
          show w.holder.isNone = true
          rw [hc.2]; rfl
        have hcond : ((ioWho bl == "reader" || ioWho bl == "writer") &&
            tailOk (ioWho bl) (projW c w).p (proj c b) && (projW c w).holder.isNone) = true := by
          rw [hw, hh]
          show (true && tailOk (ioWho bl) (proj c w.base) (proj c b) && true) = true
          rw [ht]; rfl
        rw [if_pos hcond]
        exact hu
    · cases hs
  | acquire i =>
    dsimp only at hs
    split at hs
    · rename_i hc
      simp only [Option.some.injEq] at hs
      subst hs
      show stepWP _ _ _ _ (PL.acquire i) = _
      rw [stepWP_acquire]
      have hc' : (projW c w).holder = none ∧ (projW c w).ws[i]? = some WPh.ready := hc
      rw [if_pos hc']
      rfl
    · cases hs
  | runTask i bl k =>
    dsimp only at hs
    split at hs
    · rename_i hc
      obtain ⟨hh, hi, hsome, htask⟩ := hc
      cases hb : step c w.base bl with
      | none => rw [hb] at hs; cases hs
      | some b =>
        rw [hb] at hs
        simp only [Option.bind_some] at hs
        have hp := proj_sound hW hB hb
        unfold projStepOk at hp
        dsimp only at hp
        show stepWP _ _ _ _ (PL.runTask i (proj c w'.base) w'.nextTask k) = _
        rw [stepWP_runTask]
        have hc' : (projW c w).holder = some i ∧ (projW c w).ws[i]? = some WPh.inloop :=
          ⟨hh, hi⟩
        rw [if_pos hc']
        show (match w.nextTask with
          | none => none
          | some t => _) = _
        split at hs
        · rename_i hre
          simp only [Option.some.injEq] at hs
          subst hs
          dsimp only at hnf ⊢
          rw [hnf] at hp
          rw [hre]
          dsimp only
          rw [hre] at htask
          have hro : reorderOk (proj c w.base) (proj c b) = true := by
            cases bl <;> first | exact hp | (simp [taskOf] at htask)
          have hsel := select_selectable c b
          have hcond : (reorderOk (projW c w).p (proj c b) &&
              selectable c.n c.totalOut c.ultra (proj c b) (selectTask c b)) = true := by
            show (reorderOk (proj c w.base) (proj c b) && _) = true
            rw [hro, hsel]; rfl
          rw [if_pos (by decide : ("reorder" == "reorder") = true), if_pos hcond]
          rfl
        · rename_i hre
          have hbase := unlock_base hs
          have hnext := unlock_next hs
          have hu := unlock_proj hs
          dsimp only at hbase hnext
          rw [hbase] at hnf
          rw [hnf] at hp
          rw [hbase, hnext]
          cases hnt : w.nextTask with
          | none => rw [hnt] at hsome; cases hsome
          | some t =>
            dsimp only
            rw [hnt] at htask hre
            have hne : (t == "reorder") = false := by
              cases hq : t == "reorder" with
              | false => rfl
              | true =>
                have : t = "reorder" := by simpa using hq
                exact absurd (by rw [this]) hre
            rw [hne]
            have hho : headOk t (proj c w.base) (proj c b) = true := by
              cases bl <;> cases htask <;> first | exact hp | exact absurd rfl hre
            have hho' : headOk t (projW c w).p (proj c b) = true := hho
            simp only [Bool.false_eq_true, if_false]
            rw [if_pos hho']
            exact hu
    · cases hs
  | relock i bl k =>
    dsimp only at hs
    split at hs
    · rename_i hc
      obtain ⟨hh, hi, hend⟩ := hc
      cases hb : step c w.base bl with
      | none => rw [hb] at hs; cases hs
      | some b =>
        rw [hb] at hs
        simp only [Option.bind_some] at hs
        have hp := proj_sound hW hB hb
        unfold projStepOk at hp
        dsimp only at hp
        have hph : (endPhase bl == "parse" || endPhase bl == "retrieve" || endPhase bl == "retr2"
            || endPhase bl == "emit" || endPhase bl == "scan") = true := by
          cases bl <;> first | rfl | cases hend
        have hfinph : ∀ b', decide (retrFinished bl w.base b') = true → endPhase bl = "retrieve" := by
          intro b' hd
          have := of_decide_eq_true hd
          have hr := this.1
          cases bl <;> first | rfl | cases hr
        show stepWP _ _ _ _ (PL.relock i (endPhase bl) (decide (retrFinished bl w.base w'.base))
          (proj c w'.base) w'.nextTask k) = _
        rw [stepWP_relock]
        split at hs
        · rename_i hfin
          have hbase := unlock_base hs
          have hnext := unlock_next hs
          have hu := unlock_proj hs
          dsimp only at hbase hnext
          rw [hbase] at hnf
          rw [hnf] at hp
          rw [hbase, hnext]
          have htl : tailOk (endPhase bl) (proj c w.base) (proj c b) = true := by
            cases bl <;> first | exact hp | cases hend
          have hc' : (projW c w).holder = none ∧ (projW c w).ws[i]? = some WPh.running ∧
              (endPhase bl == "parse" || endPhase bl == "retrieve" || endPhase bl == "retr2"
                || endPhase bl == "emit" || endPhase bl == "scan") = true ∧
              tailOk (endPhase bl) (projW c w).p (proj c b) = true ∧
              (decide (retrFinished bl w.base b) = true → endPhase bl = "retrieve") :=
            ⟨hh, hi, hph, htl, hfinph b⟩
          rw [if_pos hc', if_pos (decide_eq_true hfin)]
          exact hu
        · rename_i hfin
          simp only [Option.some.injEq] at hs
          subst hs
          dsimp only at hnf ⊢
          rw [hnf] at hp
          have htl : tailOk (endPhase bl) (proj c w.base) (proj c b) = true := by
            cases bl <;> first | exact hp | cases hend
          have hc' : (projW c w).holder = none ∧ (projW c w).ws[i]? = some WPh.running ∧
              (endPhase bl == "parse" || endPhase bl == "retrieve" || endPhase bl == "retr2"
                || endPhase bl == "emit" || endPhase bl == "scan") = true ∧
              tailOk (endPhase bl) (projW c w).p (proj c b) = true ∧
              (decide (retrFinished bl w.base b) = true → endPhase bl = "retrieve") :=
            ⟨hh, hi, hph, htl, hfinph b⟩
          rw [if_pos hc']
          have hnd : decide (retrFinished bl w.base b) = false := decide_eq_false hfin
          rw [hnd]
          simp only [Bool.false_eq_true, if_false]
          rw [if_pos (select_selectable c b)]
          rfl
    · cases hs
  | wait i =>
    dsimp only at hs
    split at hs
    · rename_i hc
      simp only [Option.some.injEq] at hs
      subst hs
      show stepWP _ _ _ _ (PL.wait i) = _
      rw [stepWP_wait]
      have hc' : (projW c w).holder = some i ∧ (projW c w).ws[i]? = some WPh.inloop ∧
          (projW c w).nextTask = none ∧
          finishedP c.n c.totalOut c.ultra (projW c w).p = false := hc
      rw [if_pos hc']
      rfl
    · cases hs
  | exit i =>
    dsimp only at hs
    split at hs
    · rename_i hc
      simp only [Option.some.injEq] at hs
      subst hs
      show stepWP _ _ _ _ (PL.exit i) = _
      rw [stepWP_exit]
      have hc' : (projW c w).holder = some i ∧ (projW c w).ws[i]? = some WPh.inloop ∧
          (projW c w).nextTask = none ∧
          finishedP c.n c.totalOut c.ultra (projW c w).p = true := hc
      rw [if_pos hc']
      rfl
    · cases hs
  | spurious i =>
    dsimp only at hs
    split at hs
    · rename_i hc
      simp only [Option.some.injEq] at hs
      subst hs
      show stepWP _ _ _ _ (PL.spurious i) = _
      rw [stepWP_spurious]
      have hc' : (projW c w).ws[i]? = some WPh.waiting := hc
      rw [if_pos hc']
      rfl
    · cases hs

end LbzVerif.Lemmas.SchedD
