/-
  The ownership invariant `HI` (see `Holder`), part 2: `do_parse` tail, the
  assembled `hi_reach`, and `terminated_order_empty`: a terminated run has an
  empty `order_q`.
-/
import LbzVerif.Lemmas.SchedD.Holder

namespace LbzVerif.Lemmas.SchedD
open LbzVerif.Model.SchedD LbzVerif.Gen

/-! ### list helpers -/

theorem replaceFirst_mem_find {α} (p : α → Bool) (g : α → α) {l : List α} {a : α}
    (hf : l.find? p = some a) : g a ∈ replaceFirst p g l := by
  induction l with
  | nil => simp at hf
  | cons x xs ih =>
    simp only [replaceFirst]
    simp only [List.find?_cons] at hf
    cases hp : p x with
    | true =>
      simp only [hp, Option.some.injEq] at hf
      subst hf
      simp only [if_true]
      exact List.mem_cons_self
    | false =>
      simp only [hp] at hf
      simp only [Bool.false_eq_true, if_false]
      exact List.mem_cons_of_mem _ (ih hf)

theorem replaceFirst_mem_keep {α} (p : α → Bool) (g : α → α) {l : List α} {x : α}
    (hx : x ∈ l) (hp : p x = false) : x ∈ replaceFirst p g l := by
  induction l with
  | nil => cases hx
  | cons y ys ih =>
    simp only [replaceFirst]
    rcases List.mem_cons.1 hx with e | hm
    · subst e
      simp only [hp, Bool.false_eq_true, if_false]
      exact List.mem_cons_self
    · split
      · exact List.mem_cons_of_mem _ hm
      · exact List.mem_cons_of_mem _ (ih hm)

theorem mem_popOrphans_inq {p : Nat → Bool} {os : List UB} {u : UB} (hu : u ∈ popOrphans p os)
    (hq : u.f.inq = true) : u ∈ os := by
  simp only [popOrphans, List.mem_map, List.mem_filter] at hu
  obtain ⟨x, ⟨hx, _⟩, rfl⟩ := hu
  split at hq
  · simp [UF.flagBad] at hq
  · next hn => rw [if_neg hn]; exact hx

theorem good_of_inqAt {b : Nat} {j : Job} (hq : Job.inqAt b j = true) :
    Job.mc j.good = true ∧ j.good.base = b ∧ j.good.curr = j.curr := by
  unfold Job.inqAt at hq
  cases hu : j.ub with
  | none => simp [hu] at hq
  | some f =>
    simp only [hu, Bool.and_eq_true, beq_iff_eq] at hq
    exact ⟨by simp [Job.mc, Job.good, hu, UF.flagGood], hq.2, rfl⟩

theorem EIn_flag {s : State} {p : Nat → Bool} {e : EJob} (he : EIn s e) (s' : State)
    (e5 : s'.emitQ = s.emitQ) (e6 : s'.busy = s.busy.map (flagPhase p)) : EIn s' e := by
  rcases he with he | he | he
  · exact Or.inl (by rw [e5]; exact he)
  · exact Or.inr (Or.inl (by rw [e6]; exact List.mem_map.2 ⟨_, he, rfl⟩))
  · exact Or.inr (Or.inr (by rw [e6]; exact List.mem_map.2 ⟨_, he, rfl⟩))

/-! ### parsePush -/

/-- the state between `push(order_q)` and the take-over / creation of the
    master job: every OLD entry is covered by an emit job or a buffer, and a
    complete entry of unord_q at exactly `b` has its emit job -/
structure PM (c : Cfg) (s3 : State) (b : Nat) : Prop where
  h0 : HI0 c s3
  cov : ∀ b' i', (b', i') ∈ s3.orderQ → (b', i') = (b, 0) ∨ Cov s3 b' i'
  orb : ∀ u ∈ s3.orphans, u.f.inq = true → u.base = b → Cov s3 b 0

theorem PM_parsePush {c : Cfg} {s1 : State} {b : Nat} (h : HI c s1) (hP : PPre c s1)
    (hu : pres c s1.gnext = .hdr b) : PM c (parsePush c s1 b) b := by
  have hb := pres_hdr hu
  have he := rres_ge c b
  have f2 : Fr c s1 (advance c s1 b) := Fr_advance b
  have hpd : s1.pdone = false := hP.pd
  have cov2 : ∀ {b' m}, Cov (advance c s1 b) b' m → Cov (parsePush c s1 b) b' m := by
    intro b' m hc
    exact Cov_mono (s := advance c s1 b) (s' := parsePush c s1 b)
      (fun e he => EIn_flag (s := advance c s1 b) (p := fun x => decide (x < b)) he
        (parsePush c s1 b) rfl rfl) (fun o ho => ho) hc
  have cov1 : ∀ {b' m}, Cov s1 b' m → Cov (parsePush c s1 b) b' m := fun hc => cov2 (f2.cov hc)
  have hmO := f2.mO hpd
  obtain ⟨⟨a1, a2, a3, a4, a5, a6, _⟩, b1⟩ := h
  refine ⟨⟨?_, ?_, ?_, ?_, ?_, ?_, ?_⟩, ?_, ?_⟩
  · intro o ho hst i hi hle
    have hi' : (o.base, i) ∈ s1.orderQ ++ [(b, 0)] := hi
    rcases List.mem_append.1 hi' with hi' | hi'
    · exact cov1 (a1 o ho hst i hi' hle)
    · simp only [List.mem_singleton, Prod.mk.injEq] at hi'
      exact cov1 (a2 hpd o ho hst (by omega))
  · intro _ o ho hst hg
    have hg' : (rres c b).e < o.base := hg
    exact cov1 (a2 hpd o ho hst (by omega))
  · show (s1.orderQ ++ [(b, 0)]).Pairwise _
    refine List.pairwise_append.2 ⟨a3, List.pairwise_singleton _ _, ?_⟩
    intro x hx y hy
    simp only [List.mem_singleton] at hy; subst hy
    have := a4 x.1 x.2 hx
    show x.1 < b
    omega
  · intro b' i' hi
    have hi' : (b', i') ∈ s1.orderQ ++ [(b, 0)] := hi
    show b' ≤ (rres c b).e
    rcases List.mem_append.1 hi' with hi' | hi'
    · have := a4 b' i' hi'; omega
    · simp only [List.mem_singleton, Prod.mk.injEq] at hi'; omega
  · intro b' i' hi
    have hi' : (b', i') ∈ s1.orderQ ++ [(b, 0)] := hi
    rcases List.mem_append.1 hi' with hi' | hi'
    · exact a5 b' i' hi'
    · simp only [List.mem_singleton, Prod.mk.injEq] at hi'
      obtain ⟨rfl, rfl⟩ := hi'
      have := rres_nb_pos c b'
      split <;> omega
  · intro _ u hu' hq hg
    have hg' : (rres c b).e < u.base := hg
    have hu2 : u ∈ (advance c s1 b).orphans :=
      mem_popOrphans_inq (p := fun x => decide (x < b)) (os := (advance c s1 b).orphans) hu' hq
    rcases hmO u hu2 with h | h2
    · exact cov1 (a6 hpd u h hq (by omega))
    · exact cov2 h2
  · intro hd
    have hd' : s1.pdone = true := hd
    rw [hpd] at hd'; cases hd'
  · intro b' i' hi
    have hi' : (b', i') ∈ s1.orderQ ++ [(b, 0)] := hi
    rcases List.mem_append.1 hi' with hi' | hi'
    · rcases b1 b' i' hi' with hm | hc
      · obtain ⟨j0, hj0, _, hmc⟩ := hm
        exact (no_mc_JIn hP.m0 hj0 hmc).elim
      · exact Or.inr (cov1 hc)
    · exact Or.inl (List.mem_singleton.1 hi')
  · intro u hu' hq hub
    have hu2 : u ∈ (advance c s1 b).orphans :=
      mem_popOrphans_inq (p := fun x => decide (x < b)) (os := (advance c s1 b).orphans) hu' hq
    rcases hmO u hu2 with h | h2
    · have := a6 hpd u h hq (by omega)
      rw [hub] at this
      exact cov1 this
    · rw [hub] at h2; exact cov2 h2

/-! ### parseMatch -/

theorem HI_of_PM {c : Cfg} {s3 s' : State} {b : Nat} (hm : PM c s3 b) (hP : PPre c s3)
    (f : Fr c s3 s') (hb : McJob s' b ∨ Cov s' b 0) : HI c s' := by
  refine ⟨HI0_frame hm.h0 f (by intro hd; rw [f.eP, hP.pd] at hd; cases hd), ?_⟩
  intro b' i' hi
  rw [f.eO] at hi
  rcases hm.cov b' i' hi with he | hc
  · cases he; exact hb
  · exact Or.inr (f.cov hc)

theorem Fr_wu (c : Cfg) (a s' : State)
    (e1 : s'.orderQ = a.orderQ) (e2 : s'.reordQ = a.reordQ) (e3 : s'.gnext = a.gnext)
    (e4 : s'.pdone = a.pdone) (e5 : s'.emitQ = a.emitQ) (e6 : s'.busy = a.busy)
    (e8 : ∀ u ∈ s'.orphans, u ∈ a.orphans) (e9 : s'.head = a.head) : Fr c a s' := by
  refine ⟨e1, e2, e3, e4, ?_, ?_, ?_⟩
  · intro e he; simpa [EIn, e5, e6] using he
  · show offs c a.head ≤ offs c s'.head; rw [e9]; exact Nat.le_refl _
  · intro _ u hu; exact Or.inl (e8 u hu)

theorem HI_parseMatch {c : Cfg} {s3 : State} {b : Nat} (hm : PM c s3 b) (hP : PPre c s3)
    (hA : AI c s3) (hhb : headOffs c s3 ≤ b) : HI c (parseMatch c s3 b) := by
  unfold parseMatch
  split
  · -- the scanner-found block's job is waiting in retr_q
    next j hj =>
    have hjm := List.mem_of_find?_eq_some hj
    have hjq := List.find?_some hj
    have hend := inqAt_endp hjq (hA.ecQ j hjm)
    obtain ⟨g1, g2, g3⟩ := good_of_inqAt hjq
    have fS : Fr c s3 { s3 with retrQ := replaceFirst (Job.inqAt b) Job.good s3.retrQ } :=
      Fr_same rfl rfl rfl rfl rfl rfl (fun _ he => he)
    have fA := Fr_advance (c := c)
      (s := { s3 with retrQ := replaceFirst (Job.inqAt b) Job.good s3.retrQ }) j.endp
    have hle := headOffs_advance_le c
      { s3 with retrQ := replaceFirst (Job.inqAt b) Job.good s3.retrQ } j.endp
    have hho : headOffs c { s3 with retrQ := replaceFirst (Job.inqAt b) Job.good s3.retrQ }
        = headOffs c s3 := rfl
    refine HI_of_PM hm hP ((fS.trans fA).trans
      (Fr_wu c _ _ rfl rfl rfl rfl rfl rfl (fun _ hu => hu) rfl)) (Or.inl ⟨j.good, Or.inl ?_, g2, g1⟩)
    show j.good ∈ (advance c { s3 with retrQ := replaceFirst (Job.inqAt b) Job.good s3.retrQ }
      j.endp).retrQ
    simp only [advance]
    refine List.mem_filter.2 ⟨replaceFirst_mem_find _ _ hj, ?_⟩
    have hle' : offs c (newHead c { s3 with retrQ := replaceFirst (Job.inqAt b) Job.good s3.retrQ }
        j.endp) ≤ max (headOffs c s3) j.endp := hle
    simp only [Bool.not_eq_true', decide_eq_false_iff_not, Nat.not_lt]
    rw [g3]
    omega
  · split
    · -- … is running
      next ph hph =>
      have hpm := List.mem_of_find?_eq_some hph
      have hpq := List.find?_some hph
      have fS : Fr c s3 { s3 with busy := replaceFirst (Phase.inqAt b) Phase.good s3.busy } := by
        refine Fr_same rfl rfl rfl rfl rfl rfl ?_
        intro e he
        rcases he with he | he | he
        · exact Or.inl he
        · exact Or.inr (Or.inl (replaceFirst_mem_keep _ _ he rfl))
        · exact Or.inr (Or.inr (replaceFirst_mem_keep _ _ he rfl))
      have fA := Fr_advance (c := c)
        (s := { s3 with busy := replaceFirst (Phase.inqAt b) Phase.good s3.busy }) ph.endp
      refine HI_of_PM hm hP ((fS.trans fA).trans
        (Fr_wu c _ _ rfl rfl rfl rfl rfl rfl (fun _ hu => hu) rfl)) (Or.inl ?_)
      cases ph with
      | retr j0 k0 =>
        obtain ⟨g1, g2, _⟩ := good_of_inqAt (j := j0) hpq
        refine ⟨j0.good, Or.inr ⟨k0, ?_⟩, g2, g1⟩
        exact replaceFirst_mem_find (Phase.inqAt b) Phase.good hph
      | retr2 e => simp [Phase.inqAt] at hpq
      | emit e => simp [Phase.inqAt] at hpq
      | scan a b => simp [Phase.inqAt] at hpq
    · split
      · -- … has finished: the entry is a complete orphan, its emit job exists
        next u hu =>
        have hum := List.mem_of_find?_eq_some hu
        have huq := List.find?_some hu
        simp only [Bool.and_eq_true, beq_iff_eq] at huq
        have hcov := hm.orb u hum huq.1 huq.2
        have fA := Fr_advance (c := c) (s := s3) u.f.endp
        by_cases hc : u.f.complete = true
        · rw [if_pos hc]
          have f := fA.trans (Fr_wu c (advance c s3 u.f.endp)
            { advance c s3 u.f.endp with
              orphans := (advance c s3 u.f.endp).orphans.erase u, ptok := true,
              porig := u.f.endp, wu := (advance c s3 u.f.endp).wu + 1,
              taint := (advance c s3 u.f.endp).taint || u.corrupt }
            rfl rfl rfl rfl rfl rfl (fun _ hu => List.mem_of_mem_erase hu) rfl)
          exact HI_of_PM hm hP f (Or.inr (f.cov hcov))
        · exact absurd (hP.si.orph hP.pd u hum).1 hc
      · -- nobody found it: the parser creates the master job
        refine HI_of_PM hm hP (Fr_same rfl rfl rfl rfl rfl rfl (fun _ he => he))
          (Or.inl ⟨{ curr := b, base := b, ub := none, corrupt := false },
            Or.inl List.mem_cons_self, rfl, rfl⟩)

/-! ### parseEnd -/

theorem HI_parseFinish {c : Cfg} {s1 : State} (u : Nat) (h : HI c s1) (hP : PPre c s1) :
    HI c (parseFinish s1 u) := by
  have cov : ∀ {b m}, Cov s1 b m → Cov (parseFinish s1 u) b m := by
    intro b m hc
    exact Cov_mono (s := s1) (s' := parseFinish s1 u)
      (fun e he => EIn_flag (s := s1) (p := fun _ => true) he (parseFinish s1 u) rfl rfl)
      (fun o ho => ho) hc
  obtain ⟨⟨a1, _, a3, a4, a5, _, _⟩, b1⟩ := h
  refine ⟨⟨?_, ?_, a3, a4, a5, ?_, fun _ => rfl⟩, ?_⟩
  · intro o ho hst i hi hle; exact cov (a1 o ho hst i hi hle)
  · intro hd; cases hd
  · intro hd; cases hd
  · intro b i hi
    rcases b1 b i hi with hm | hc
    · obtain ⟨j0, hj0, _, hmc⟩ := hm
      exact (no_mc_JIn hP.m0 hj0 hmc).elim
    · exact Or.inr (cov hc)

theorem HI_parseVerdict {c : Cfg} {s1 : State} (h : HI c s1) (hP : PPre c s1) (hA : AI c s1)
    (hf' : (parseVerdict c s1 (pres c s1.gnext)).failed = false) :
    HI c (parseVerdict c s1 (pres c s1.gnext)) := by
  cases hu : pres c s1.gnext with
  | err u => rw [hu] at hf'; cases hf'
  | finish u ok =>
    cases ok with
    | false => rw [hu] at hf'; cases hf'
    | true => exact HI_parseFinish u h hP
  | hdr b =>
    obtain ⟨p1, p2, _⟩ := AI_parsePush hA hP hu
    obtain ⟨q1, _, _⟩ := PPre_push hP hu
    exact HI_parseMatch (PM_parsePush h hP hu) q1 p1 p2

theorem HI_parseEnd {c : Cfg} {s s' : State} (h : HI c s) (hS : SI c s) (hA : AI c s)
    (hf : s.failed = false) (hs : stepParseEnd c s = some s') (hf' : s'.failed = false) :
    HI c s' := by
  unfold stepParseEnd at hs
  split at hs
  · simp at hs
  · next k hk =>
    obtain ⟨hP, hg1, hpo⟩ := PPre_of_parsing hS hf hk
    have hA0 : AI c { s with pphase := none } := by
      obtain ⟨a1, a2, a3, a4, a5, a6, a7, a8⟩ := hA
      exact ⟨a1, a2, (fun k hk => by cases hk), a4, a5, a6, a7, a8⟩
    have hA1 : AI c (detach { s with pphase := none } k) := AI_detach k hA0
    have h1 : HI c (detach { s with pphase := none } k) :=
      HI_detach k (HI_congr h rfl rfl rfl rfl rfl rfl rfl rfl rfl h.h0.pt)
    have key : pres c s.porig = pres c (detach { s with pphase := none } k).gnext := by
      rw [hg1, hpo]
    dsimp only at hs
    rw [key] at hs
    generalize detach { s with pphase := none } k = s1 at hs hP hA1 h1
    split at hs
    · simp only [Option.some.injEq] at hs; subst hs
      have fA := Fr_advance (c := c) (s := s1) (offs c (k.getD 0 + 1))
      refine HI_frame h1 (fA.trans (Fr_wu c _ _ rfl rfl rfl rfl rfl rfl (fun _ hu => hu) rfl))
        (fun _ => rfl) ?_
      intro b i _ hm
      obtain ⟨j0, hj0, _, hmc⟩ := hm
      exact (no_mc_JIn hP.m0 hj0 hmc).elim
    · simp only [Option.some.injEq] at hs; subst hs
      exact HI_parseVerdict h1 hP hA1 hf'

/-! ### all steps -/

theorem hi_step {c : Cfg} {s s' : State} {l : Label} (h : HI c s) (hS : SI c s) (hA : AI c s)
    (hs : step c s l = some s') (hf' : s'.failed = false) : HI c s' := by
  unfold step at hs
  split at hs
  · simp at hs
  · next hf =>
    have hf0 : s.failed = false := by simpa using hf
    cases l with
    | rTake => exact HI_rTake h hs
    | rQuit => exact HI_rQuit h hs
    | rBlock => exact HI_rBlock h hs
    | rEmpty => exact HI_rEmpty h hs
    | rEof => exact HI_rEof h hs
    | wDone => exact HI_wDone h hs
    | reorder ob => exact HI_reorder h hS hs hf'
    | parseStart => exact HI_parseStart h hs
    | parseEnd => exact HI_parseEnd h hS hA hf0 hs hf'
    | retrStart j => exact HI_retrStart h hs
    | retrEnd j k => exact HI_retrEnd h hS hA hs
    | retrPost e => exact HI_retrPost h hs
    | emitStart e => exact HI_emitStart h hs
    | emitEnd e => exact HI_emitEnd h hs
    | scanStart sp => exact HI_scanStart h hs
    | scanEnd st k => exact HI_scanEnd h hs

/-- the ownership invariant holds in every reachable state in which `failf`
    has not been called -/
theorem hi_reach {c : Cfg} {s : State} (h : Reach c s) (hf : s.failed = false) : HI c s := by
  induction h with
  | init => exact HI_init c
  | @step s s' l hr hs ih =>
    have hf0 : s.failed = false := by
      unfold step at hs; split at hs
      · simp at hs
      · next hf => simpa using hf
    have hS : SI c s := by
      have g := good_reach hr
      simpa [Good, hf0] using g
    exact hi_step (ih hf0) hS (ai_reach hr) hs hf

/-- every entry of `order_q` of a reachable non-failed state still has a
    producer: a master-capable retrieve job of that block, an emit job that
    will still produce a buffer with that or a later index, or such a buffer
    in `reord_q` -/
theorem order_entry_has_producer {c : Cfg} {s : State} (h : Reach c s) (hf : s.failed = false)
    {b i : Nat} (hi : (b, i) ∈ s.orderQ) :
    (∃ j, (j ∈ s.retrQ ∨ ∃ k, Phase.retr j k ∈ s.busy) ∧ j.base = b ∧ Job.mc j = true) ∨
    (∃ e, (e ∈ s.emitQ ∨ Phase.retr2 e ∈ s.busy ∨ Phase.emit e ∈ s.busy) ∧ e.base = b ∧
      i < e.idx + e.left) ∨
    (∃ o ∈ s.reordQ, o.base = b ∧ i ≤ o.idx) := by
  rcases (hi_reach h hf).h1 b i hi with hm | hc | hc
  · exact Or.inl hm
  · exact Or.inr (Or.inl hc)
  · exact Or.inr (Or.inr hc)

/-- **a terminated run has an empty `order_q`** -/
theorem terminated_order_empty {c : Cfg} {s : State} (h : Reach c s)
    (ht : terminated c s = true) : s.orderQ = [] := by
  obtain ⟨hf, _, _⟩ := terminated_facts ht
  obtain ⟨q1, q2, q3, _, q5, _⟩ := terminated_quiescent h ht
  cases hq : s.orderQ with
  | nil => rfl
  | cons x r =>
    have hx : (x.1, x.2) ∈ s.orderQ := by rw [hq]; exact List.mem_cons_self
    rcases order_entry_has_producer h hf hx with ⟨j, hj, _⟩ | ⟨e, he, _⟩ | ⟨o, ho, _⟩
    · rw [q1, q3] at hj
      rcases hj with hj | ⟨k, hk⟩
      · cases hj
      · cases hk
    · rw [q2, q3] at he
      rcases he with he | he | he <;> cases he
    · rw [q5] at ho; cases ho

end LbzVerif.Lemmas.SchedD
