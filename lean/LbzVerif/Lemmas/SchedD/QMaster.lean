/-
  A queued master stands exactly at the parser position, and a queued
  speculative job's recorded `end_pos` is its current position.
  (Needed for deadlock-freedom: a master waiting in retr_q for input waits at
  `parser_bs`, so `advance` has released every input block before it.)
-/
import LbzVerif.Lemmas.SchedD.Attach

namespace LbzVerif.Lemmas.SchedD
open LbzVerif.Model.SchedD LbzVerif.Gen

structure QM (s : State) : Prop where
  eq : ∀ j ∈ s.retrQ, ∀ f, j.ub = some f → f.inq = true → f.endp = j.curr
  mq : ∀ j ∈ s.retrQ, Job.mc j = true → j.curr = s.ppos

theorem QM_init (c : Cfg) : QM (init c) := ⟨by simp [init], by simp [init]⟩

theorem QM_congr {s s' : State} (h : QM s) (e1 : s'.retrQ = s.retrQ) (e2 : s'.ppos = s.ppos) :
    QM s' := ⟨by rw [e1]; exact h.eq, by rw [e1, e2]; exact h.mq⟩

theorem QM_detach {s : State} (k : Option Nat) (h : QM s) : QM (detach s k) := by
  unfold detach; split
  · exact h
  · split
    · exact QM_congr h rfl rfl
    · exact h

/-- after `advance p`, given that every queued master stands at `p` -/
theorem QM_advance {c : Cfg} {s : State} (p : Nat) (h : QM s)
    (hm : ∀ j ∈ s.retrQ, Job.mc j = true → j.curr = p) : QM (advance c s p) := by
  refine ⟨?_, ?_⟩
  · intro j hj; exact h.eq j (List.mem_filter.1 hj).1
  · intro j hj hmc; exact hm j (List.mem_filter.1 hj).1 hmc

theorem QM_advance' {c : Cfg} {s : State} (p : Nat)
    (heq : ∀ j ∈ s.retrQ, ∀ f, j.ub = some f → f.inq = true → f.endp = j.curr)
    (hm : ∀ j ∈ s.retrQ, Job.mc j = true → j.curr = p) : QM (advance c s p) := by
  refine ⟨?_, ?_⟩
  · intro j hj; exact heq j (List.mem_filter.1 hj).1
  · intro j hj hmc; exact hm j (List.mem_filter.1 hj).1 hmc

theorem no_mc_queue {s : State} (h : mcount s = 0) : ∀ j ∈ s.retrQ, Job.mc j = true → False := by
  intro j hj hmc
  have := (mcount_zero_jobs h).1 j hj
  rw [this] at hmc; cases hmc

theorem mc_master {j : Job} (h : Job.mc j = true) : j.master = true := by
  unfold Job.mc at h; unfold Job.master
  cases hu : j.ub with
  | none => rfl
  | some f => simp only [hu, Bool.and_eq_true] at h ⊢; exact h.1

theorem QM_flag {s : State} (p : Nat → Bool) (h : QM s) (h0 : ∀ j ∈ s.retrQ, Job.mc j = true → False) :
    QM { s with retrQ := s.retrQ.map (flagJob p) } := by
  refine ⟨?_, ?_⟩
  · intro j hj f hf hi
    obtain ⟨x, hx, rfl⟩ := List.mem_map.1 hj
    unfold flagJob at hf
    cases hu : x.ub with
    | none => simp [hu] at hf
    | some f0 =>
      simp only [hu, Option.map_some, Option.some.injEq] at hf
      split at hf
      · subst hf; simp [UF.flagBad] at hi
      · subst hf; exact h.eq x hx f0 hu hi
  · intro j hj hmc
    obtain ⟨x, hx, rfl⟩ := List.mem_map.1 hj
    exact (h0 x hx (mc_flagJob hmc)).elim


/-! ### steps -/

theorem QM_scanEnd {c : Cfg} {s s' : State} {st k : Nat} (h : QM s)
    (hs : stepScanEnd c s st k = some s') : QM s' := by
  unfold stepScanEnd at hs; split at hs
  · have h1 : QM (detach { s with busy := s.busy.erase (.scan st k) } (some k)) :=
      QM_detach _ (QM_congr h rfl rfl)
    generalize detach { s with busy := s.busy.erase (.scan st k) } (some k) = s1 at h1 hs
    dsimp only at hs
    split at hs
    · simp only [Option.some.injEq] at hs; subst hs; exact QM_congr h1 rfl rfl
    · next x hx =>
      split at hs
      · simp only [Option.some.injEq] at hs; subst hs; exact QM_congr h1 rfl rfl
      · simp only [Option.some.injEq] at hs; subst hs
        have hN : QM (scanNew c s1 x) := by
          unfold scanNew; split
          · exact QM_congr h1 rfl rfl
          · refine ⟨?_, ?_⟩
            · intro j hj f hf hi
              rcases List.mem_cons.1 hj with e | hm
              · subst e; simp at hf; subst hf; rfl
              · exact h1.eq j hm f hf hi
            · intro j hj hmc
              rcases List.mem_cons.1 hj with e | hm
              · subst e; simp [Job.mc] at hmc
              · exact h1.mq j hm hmc
        unfold scanRequeue; split
        · exact QM_congr hN rfl rfl
        · exact hN
  · simp at hs

theorem QM_retrStart {c : Cfg} {s s' : State} {j : Job} (h : QM s)
    (hs : stepRetrStart c s j = some s') : QM s' := by
  unfold stepRetrStart at hs; split at hs
  · simp only [Option.some.injEq] at hs; subst hs
    exact ⟨fun x hx => h.eq x (List.mem_of_mem_erase hx), fun x hx => h.mq x (List.mem_of_mem_erase hx)⟩
  · simp at hs

theorem QM_retrEnd {c : Cfg} {s s' : State} {j : Job} {k : Option Nat} (h : QM s) (hS : SI c s)
    (hs : stepRetrEnd c s j k = some s') : QM s' := by
  unfold stepRetrEnd at hs; split at hs
  · next hg =>
    have hmem : Phase.retr j k ∈ s.busy := by simpa using hg
    have hj : jobOK c s.gnext j := hS.busy _ hmem
    have hcnt : List.countP Phase.mc (s.busy.erase (.retr j k)) + (if Job.mc j then 1 else 0)
        = List.countP Phase.mc s.busy := countP_erase_add Phase.mc hmem
    have hm1 := hS.mc1
    have h1 : QM (detach { s with busy := s.busy.erase (.retr j k) } k) :=
      QM_detach _ (QM_congr h rfl rfl)
    have hmc1 : mcount (detach { s with busy := s.busy.erase (.retr j k) } k)
        + (if Job.mc j then 1 else 0) = mcount s := by
      rw [mcount_detach]
      show List.countP Job.mc s.retrQ + List.countP Phase.mc (s.busy.erase (.retr j k))
        + (if Job.mc j then 1 else 0) = List.countP Job.mc s.retrQ + List.countP Phase.mc s.busy
      omega
    generalize detach { s with busy := s.busy.erase (.retr j k) } k = s1 at h1 hmc1 hs
    dsimp only at hs
    generalize retrNewc c j k = newc at hs
    by_cases hpd : s1.pdone = true
    · rw [if_pos hpd] at hs
      simp only [Option.some.injEq] at hs; subst hs; exact QM_congr h1 rfl rfl
    · rw [if_neg hpd] at hs
      by_cases hab : j.redundant = true
      · rw [if_pos hab] at hs
        simp only [Option.some.injEq] at hs; subst hs; exact QM_congr h1 rfl rfl
      · rw [if_neg hab] at hs
        have hna' : j.redundant = false := by simpa using hab
        -- the state after the master's own `advance`
        have h2 : QM (retrMove c s1 j newc) ∧
            (j.master = true → (retrMove c s1 j newc).ppos = newc) := by
          unfold retrMove; split
          · next hmas =>
            have hmc := master_mc hmas hna'
            have hs1 : mcount s1 = 0 := by simp only [hmc, if_true] at hmc1; omega
            exact ⟨QM_congr (QM_advance newc h1 (fun x hx hm => (no_mc_queue hs1 x hx hm).elim)) rfl rfl,
              fun _ => rfl⟩
          · next hmas => exact ⟨h1, fun hm => absurd hm hmas⟩
        generalize retrMove c s1 j newc = s2 at h2 hs
        obtain ⟨h2, hpos⟩ := h2
        by_cases hfin : (!decide ((rres c j.base).e ≤ newc)) = true
        · rw [if_pos hfin] at hs
          by_cases hov : newc < headOffs c s2
          · rw [if_pos hov] at hs
            simp only [Option.some.injEq] at hs; subst hs; exact QM_congr h2 rfl rfl
          · rw [if_neg hov] at hs
            simp only [Option.some.injEq] at hs; subst hs
            refine ⟨?_, ?_⟩
            · intro x hx f hf hi
              rcases List.mem_cons.1 hx with e | hm
              · subst e
                unfold retrMoreJob at hf
                cases hu : j.ub with
                | none => simp [hu] at hf
                | some f0 =>
                  simp only [hu] at hf
                  split at hf
                  · next hmas =>
                    -- a master's entry is complete, hence not in unord_q
                    simp only [Option.some.injEq] at hf; subst hf
                    have hc : f0.complete = true := by
                      simpa [Job.master, hu] using hmas
                    have := hj.2.2.1 f0 hu hi
                    rw [this] at hc; cases hc
                  · simp only [Option.map_some, Option.some.injEq] at hf; subst hf; rfl
              · exact h2.eq x hm f hf hi
            · intro x hx hmc
              rcases List.mem_cons.1 hx with e | hm
              · subst e
                rw [mc_retrMoreJob] at hmc
                exact (hpos (mc_master hmc)).symm
              · exact h2.mq x hm hmc
        · rw [if_neg hfin] at hs
          simp only [Option.some.injEq] at hs; subst hs
          unfold retrDone
          split
          · exact QM_congr h2 rfl rfl
          · exact QM_congr h2 rfl rfl
  · simp at hs

theorem QM_parseMatch {c : Cfg} {s3 : State} {b : Nat} (h3 : QM s3) (hm0 : mcount s3 = 0)
    (hpp : s3.ppos = b) : QM (parseMatch c s3 b) := by
  have hno := no_mc_queue hm0
  unfold parseMatch
  split
  · next j hj =>
    have hjm := List.mem_of_find?_eq_some hj
    have hjq := List.find?_some hj
    have hend : j.endp = j.curr := by
      unfold Job.inqAt at hjq; unfold Job.endp
      cases hu : j.ub with
      | none => simp [hu] at hjq
      | some f =>
        simp only [hu, Bool.and_eq_true] at hjq ⊢
        exact h3.eq j hjm f hu hjq.1
    have heq : ∀ y ∈ replaceFirst (Job.inqAt b) Job.good s3.retrQ, ∀ f, y.ub = some f →
        f.inq = true → f.endp = y.curr := by
      intro y hy f hf hi
      rcases mem_replaceFirst _ _ hy with hy | ⟨x, hx, _, rfl⟩
      · exact h3.eq y hy f hf hi
      · cases hu : x.ub with
        | none => simp [Job.good, hu] at hf
        | some f0 =>
          simp only [Job.good, hu, Option.map_some, Option.some.injEq] at hf
          subst hf; simp [UF.flagGood] at hi
    refine QM_congr (QM_advance' (s := { s3 with retrQ := replaceFirst (Job.inqAt b) Job.good s3.retrQ })
      j.endp heq ?_) rfl rfl
    intro y hy hmc
    rcases mem_replaceFirst_find _ _ hj hy with hy | he
    · exact (hno y hy hmc).elim
    · subst he; show j.curr = j.endp; exact hend.symm
  · split
    · next ph hph =>
      refine QM_congr (QM_advance ph.endp (s := { s3 with busy := replaceFirst (Phase.inqAt b) Phase.good s3.busy })
        ⟨h3.eq, h3.mq⟩ ?_) rfl rfl
      intro y hy hmc; exact (hno y hy hmc).elim
    · split
      · next u hu =>
        have hA : QM (advance c s3 u.f.endp) :=
          QM_advance u.f.endp h3 (fun y hy hmc => (hno y hy hmc).elim)
        split
        · exact QM_congr hA rfl rfl
        · exact QM_congr hA rfl rfl
      · refine ⟨?_, ?_⟩
        · intro x hx f hf hi
          rcases List.mem_cons.1 hx with e | hm
          · subst e; cases hf
          · exact h3.eq x hm f hf hi
        · intro x hx hmc
          rcases List.mem_cons.1 hx with e | hm
          · subst e; exact hpp.symm
          · exact (hno x hm hmc).elim


theorem QM_parseEnd {c : Cfg} {s s' : State} (h : QM s) (hS : SI c s) (hf : s.failed = false)
    (hs : stepParseEnd c s = some s') : QM s' := by
  unfold stepParseEnd at hs
  split at hs
  · simp at hs
  · next k hk =>
    obtain ⟨hP, _, _⟩ := PPre_of_parsing hS hf hk
    have h1 : QM (detach { s with pphase := none } k) := QM_detach k (QM_congr h rfl rfl)
    dsimp only at hs
    generalize detach { s with pphase := none } k = s1 at hs hP h1
    have hno := no_mc_queue hP.m0
    split at hs
    · simp only [Option.some.injEq] at hs; subst hs
      exact QM_congr (QM_advance (offs c (k.getD 0 + 1)) h1 (fun y hy hm => (hno y hy hm).elim)) rfl rfl
    · simp only [Option.some.injEq] at hs; subst hs
      cases hu : pres c s.porig with
      | err u => exact QM_congr h1 rfl rfl
      | finish u ok =>
        cases ok with
        | false => exact QM_congr h1 rfl rfl
        | true =>
          show QM (parseFinish s1 u)
          refine ⟨?_, ?_⟩
          · intro j hj; cases hj
          · intro j hj; cases hj
      | hdr b =>
        show QM (parseMatch c (parsePush c s1 b) b)
        have hA : QM (advance c s1 b) := QM_advance b h1 (fun y hy hm => (hno y hy hm).elim)
        have hmA : mcount (advance c s1 b) = 0 := by
          have : mcount (advance c s1 b) ≤ mcount s1 :=
            mcount_le_of (List.Sublist.countP_le List.filter_sublist) (Nat.le_refl _)
          have := hP.m0; omega
        have hnoA := no_mc_queue hmA
        have hF := QM_flag (fun x => decide (x < b)) hA hnoA
        have hPush : QM (parsePush c s1 b) := QM_congr hF rfl rfl
        have hm3 : mcount (parsePush c s1 b) = 0 := by
          have h1' := countP_flag_jobs (fun x => decide (x < b)) (advance c s1 b).retrQ
          have h2' := countP_flag_phases (fun x => decide (x < b)) (advance c s1 b).busy
          simp only [mcount] at hmA
          show List.countP Job.mc (List.map _ (advance c s1 b).retrQ)
            + List.countP Phase.mc (List.map _ (advance c s1 b).busy) = 0
          omega
        exact QM_parseMatch hPush hm3 rfl

theorem qm_step {c : Cfg} {s s' : State} {l : Label} (h : QM s) (hS : SI c s)
    (hs : step c s l = some s') : QM s' := by
  unfold step at hs
  split at hs
  · simp at hs
  · next hf =>
    have hf' : s.failed = false := by simpa using hf
    cases l with
    | rTake => simp only [stepRTake] at hs; split at hs <;> simp at hs; subst hs; exact QM_congr h rfl rfl
    | rQuit => simp only [stepRQuit] at hs; split at hs <;> simp at hs; subst hs; exact QM_congr h rfl rfl
    | rBlock =>
      simp only [stepRBlock] at hs; split at hs
      · split at hs <;> simp only [Option.some.injEq] at hs <;> subst hs <;> exact QM_congr h rfl rfl
      · simp at hs
    | rEmpty => simp only [stepREmpty] at hs; split at hs <;> simp at hs; subst hs; exact QM_congr h rfl rfl
    | rEof => simp only [stepREof] at hs; split at hs <;> simp at hs; subst hs; exact QM_congr h rfl rfl
    | wDone => simp only [stepWDone] at hs; split at hs <;> simp at hs; subst hs; exact QM_congr h rfl rfl
    | reorder ob =>
      simp only [stepReorder] at hs; split at hs
      · split at hs
        · simp only [Option.some.injEq] at hs; subst hs; exact QM_congr h rfl rfl
        · split at hs <;> simp only [Option.some.injEq] at hs <;> subst hs <;> exact QM_congr h rfl rfl
      · simp at hs
    | parseStart =>
      simp only [stepParseStart] at hs; split at hs
      · simp only [Option.some.injEq] at hs; subst hs; exact QM_congr h rfl rfl
      · simp at hs
    | parseEnd => exact QM_parseEnd h hS hf' hs
    | retrStart j => exact QM_retrStart h hs
    | retrEnd j k => exact QM_retrEnd h hS hs
    | retrPost e =>
      simp only [stepRetrPost] at hs; split at hs
      · simp only [Option.some.injEq] at hs; subst hs; exact QM_congr h rfl rfl
      · simp at hs
    | emitStart e =>
      simp only [stepEmitStart] at hs; split at hs
      · simp only [Option.some.injEq] at hs; subst hs; exact QM_congr h rfl rfl
      · simp at hs
    | emitEnd e =>
      simp only [stepEmitEnd] at hs; split at hs
      · split at hs <;> simp only [Option.some.injEq] at hs <;> subst hs <;> exact QM_congr h rfl rfl
      · simp at hs
    | scanStart sp =>
      simp only [stepScanStart] at hs; split at hs
      · simp only [Option.some.injEq] at hs; subst hs; exact QM_congr h rfl rfl
      · simp at hs
    | scanEnd st k => exact QM_scanEnd h hs

theorem qm_reach {c : Cfg} {s : State} (h : Reach c s) : QM s := by
  induction h with
  | init => exact QM_init c
  | @step s s' l hr hs ih =>
    have hf : s.failed = false := by
      unfold step at hs; split at hs
      · simp at hs
      · next hf => simpa using hf
    have hS : SI c s := by
      have g := good_reach hr
      simpa [Good, hf] using g
    exact qm_step ih hS hs

end LbzVerif.Lemmas.SchedD
