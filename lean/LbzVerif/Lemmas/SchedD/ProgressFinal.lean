/-
  Deadlock-freedom of the expansion scheduler, second half: a reachable
  QUIESCENT state (no worker inside a task, writer idle, reader finished or
  blocked on `in_slots = 0`, nothing selectable) is the terminated state.
  With `stuck_quiescent` (Progress.lean): every reachable state that is not
  final has an enabled transition.
  Hypotheses: at least one worker, more output slots than the emit reserve
  (`EMIT_THRESH < total_out`; without it BFS finds stuck states), non-empty
  input blocks, at least one input slot.
-/
import LbzVerif.Lemmas.SchedD.Input
import LbzVerif.Lemmas.SchedD.Exact2
import LbzVerif.Lemmas.SchedD.Reserve
import LbzVerif.Lemmas.SchedD.Token
import LbzVerif.Lemmas.SchedD.QMaster
import LbzVerif.Lemmas.SchedD.ProgAux

namespace LbzVerif.Lemmas.SchedD
open LbzVerif.Model.SchedD LbzVerif.Gen

theorem canAttach_false {x tl : Nat} {e : Bool} (h : canAttach x tl e = false) (hx : x ≤ tl) :
    x = tl ∧ e = false := by
  unfold canAttach at h
  simp only [Bool.or_eq_false_iff, decide_eq_false_iff_not, Bool.and_eq_false_iff] at h
  have h1 : x = tl := by omega
  refine ⟨h1, ?_⟩
  rcases h.2 with h2 | h2
  · exact h2
  · exact absurd h1 h2

theorem posLe_same_base {b i j : Nat} (h : i ≤ j) : posLe (b, i) (b, j) = true := by
  simp only [posLe, posLt, Bool.not_eq_true', Bool.or_eq_false_iff, decide_eq_false_iff_not,
    Bool.and_eq_false_iff, beq_eq_false_iff_ne, ne_eq]
  exact ⟨by omega, Or.inr (by omega)⟩

/-- **a reachable quiescent state is the terminated state** -/
theorem quiescent_final {c : Cfg} (hW : 0 < c.W) (hn : 1 ≤ c.n) (ho : EMIT_THRESH < c.totalOut)
    (hti : 1 ≤ c.totalIn) {s : State} (h : Reach c s) (hf : s.failed = false)
    (hq : Quiescent c s) : terminated c s = true := by
  obtain ⟨hb, hpp, hoq, hrd, hsel⟩ := hq
  have hsel : selectTask c s = none := by
    rcases hsel with h' | h'
    · exact h'
    · omega
  obtain ⟨gR, gP, gE, gT, _⟩ := select_none hsel
  have ci := ci_reach h hf
  have li := li_reach h hf
  have ni := ni_reach hW h
  have ki := UCap.ki_reach hW hn ho h hf
  have t2 := ti2_reach hW hn h hf
  have qm := qm_reach h
  have hi := hi_reach h hf
  have hin := in_slots_conserved hW h
  have hbc : busyCount s = 0 := by simp [busyCount, hb, hpp]
  have heb : emitBusy s = 0 := by simp [emitBusy, hb]
  have hwu : s.wu + s.retrQ.length + s.emitQ.length = c.n := by have := ci.wuC; omega
  have hos : s.outSlots + s.reordQ.length = c.totalOut := by have := ci.osC; omega
  -- (A) the parser position cannot be stuck at `tail_offs` waiting for input
  have hA : s.pdone = false → s.ppos = tailOffs c s → s.eof = false → False := by
    intro hd hp he
    have hhr := no_input_wait hW h hd hp
    have hat : ∀ k, attachedTo s k = false := by intro k; simp [attachedTo, hpp, hb]
    have hfil : ((List.range s.head).filter (fun k => attachedTo s k)).length = 0 := by
      rw [List.length_eq_zero_iff, List.filter_eq_nil_iff]; intro k _; simp [hat k]
    rcases hrd with hd' | ⟨hi', _, hz⟩
    · have := ni.rdn.1 hd'; rw [this] at he; cases he
    · have : inputAlive s = 0 := by
        unfold inputAlive
        rw [hfil, hhr, hi']; simp
      omega
  -- (P) the parser could run
  have hP : s.ptok = true → s.pdone = false → 1 ≤ s.wu → False := by
    intro ht hd hw
    have hca : canAttach s.ppos (tailOffs c s) s.eof = false := by
      have := gP
      simp only [dCanParse, view, hd, ht, Bool.not_false, Bool.true_and, Bool.and_eq_false_iff,
        decide_eq_false_iff_not] at this
      rcases this with h' | h'
      · omega
      · exact h'
    obtain ⟨e1, e2⟩ := canAttach_false hca (ni.pt hd)
    exact hA hd e1 e2
  -- (M) a master waiting in retr_q could run, or waits at `tail_offs`
  have hM : ∀ j ∈ s.retrQ, Job.mc j = true → False := by
    intro j hj hmc
    have hd : s.pdone = false := by
      cases hpd : s.pdone with
      | false => rfl
      | true => have := (li.od hpd).2.1; rw [this] at hj; cases hj
    obtain ⟨m, hm, hle⟩ := minNat?_le (l := s.retrQ.map Job.curr) (List.mem_map.2 ⟨j, hj, rfl⟩)
    have hjt : j.curr ≤ tailOffs c s := ni.jt j (Or.inl hj)
    have hca : canAttach m (tailOffs c s) s.eof = false := by
      have hne : s.retrQ.isEmpty = false := by
        cases hr : s.retrQ with
        | nil => rw [hr] at hj; cases hj
        | cons _ _ => rfl
      have := gT
      simpa [dCanRetrieve, view, hne, hm] using this
    obtain ⟨e1, e2⟩ := canAttach_false hca (by omega)
    have hcp := qm.mq j hj hmc
    exact hA hd (by omega) e2
  -- a buffer at or before the head of order_q could be reordered
  have hRe : ∀ b i r, s.orderQ = (b, i) :: r → ∀ o ∈ s.reordQ, posLe o.key (b, i) = true → False := by
    intro b i r hoq' o hom hle
    obtain ⟨m, hm, hmle⟩ := minKey?_le (l := s.reordQ.map OB.key) (List.mem_map.2 ⟨o, hom, rfl⟩)
    have hne : s.reordQ.isEmpty = false := by
      cases hr : s.reordQ with
      | nil => rw [hr] at hom; cases hom
      | cons _ _ => rfl
    have := gR
    simp [dCanReorder, view, hne, hoq', hm, posLe_trans hmle hle] at this
  -- (H) order_q must be empty
  have hH : ∀ b i r, s.orderQ = (b, i) :: r → False := by
    intro b i r hoq'
    rcases order_head_has h hf hoq' with ⟨j, hj, _, hmc⟩ | ⟨o, hom, hk⟩ | ⟨e, he, heb', hei⟩
    · rcases hj with hj | ⟨k, hk⟩
      · exact hM j hj hmc
      · rw [hb] at hk; cases hk
    · exact hRe b i r hoq' o hom (by rw [hk]; exact posLe_refl _)
    · have hem : e ∈ s.emitQ := by
        rcases he with he | he | he
        · exact he
        · rw [hb] at he; cases he
        · rw [hb] at he; cases he
      obtain ⟨m, hm, hmle⟩ := minKey?_le (l := s.emitQ.map EJob.key) (List.mem_map.2 ⟨e, hem, rfl⟩)
      have hek : posLe e.key (b, i) = true := by
        show posLe (e.base, e.idx) (b, i) = true
        rw [heb']; exact posLe_same_base hei
      have hne : s.emitQ.isEmpty = false := by
        cases hr : s.emitQ with
        | nil => rw [hr] at hem; cases hem
        | cons _ _ => rfl
      have h0 : s.outSlots = 0 := by
        have := gE
        simp only [dCanEmit, view, hne, hoq', hm, posLe_trans hmle hek, Bool.not_false,
          Bool.true_and, List.isEmpty_cons, List.head?_cons, Bool.and_true,
          Bool.or_eq_false_iff, decide_eq_false_iff_not] at this
        omega
      obtain ⟨o, hom, hlt⟩ := not_all_ahead ho h hf hoq' hb h0 hoq
      exact hRe b i r hoq' o hom (posLe_of_not_posLt hlt)
  have hord : s.orderQ = [] := by
    cases hoq' : s.orderQ with
    | nil => rfl
    | cons x r => obtain ⟨b, i⟩ := x; exact (hH b i r hoq').elim
  -- (Z) parsing must be done
  have hpd : s.pdone = true := by
    cases hd : s.pdone with
    | true => rfl
    | false =>
      exfalso
      cases ht : s.ptok with
      | false =>
        rcases ki.tk ht with h' | ⟨j, hj, hmc⟩
        · rw [hpp] at h'; cases h'
        · rcases hj with hj | ⟨k, hk⟩
          · exact hM j hj hmc
          · rw [hb] at hk; cases hk
      | true =>
        rcases Nat.eq_zero_or_pos s.wu with h0 | h0
        · rcases t2.tu ht with h' | ⟨e, _, i, hmem⟩
          · omega
          · rw [hord] at hmem; cases hmem
        · exact hP ht hd h0
  have hre : s.reordQ = [] := by
    cases hr : s.reordQ with
    | nil => rfl
    | cons o t =>
      exfalso
      have := gR
      simp [dCanReorder, view, hr, hord, hpd] at this
  have hemq : s.emitQ = [] := by
    cases hr : s.emitQ with
    | nil => rfl
    | cons e t =>
      exfalso
      have hos' : s.outSlots = c.totalOut := by rw [hre] at hos; simpa using hos
      have := gE
      simp only [dCanEmit, view, hr, List.isEmpty_cons, Bool.not_false, Bool.true_and,
        Bool.or_eq_false_iff, decide_eq_false_iff_not] at this
      have h2 := this.1
      unfold EMIT_THRESH at ho h2
      omega
  have hrq : s.retrQ = [] := (li.od hpd).2.1
  have hptok : s.ptok = true := hi.h0.pt hpd
  have heof : s.eof = true := by
    rcases hrd with hd' | ⟨_, hc, _⟩
    · exact ni.rdn.1 hd'
    · have := ni.pc.1 hpd; rw [this] at hc; cases hc
  have hwn : s.wu = c.n := by rw [hrq, hemq] at hwu; simpa using hwu
  have hon : s.outSlots = c.totalOut := by rw [hre] at hos; simpa using hos
  simp [terminated, hf, dCanTerminate, view, heof, hpd, hptok, hwn, hon, hsel]

/-- **progress**: every reachable state in which `failf` has not been called
    and which is not terminated has an enabled transition. -/
theorem progress_reach {c : Cfg} (hW : 0 < c.W) (hn : 1 ≤ c.n) (ho : EMIT_THRESH < c.totalOut)
    (hti : 1 ≤ c.totalIn) {s : State} (h : Reach c s) (hnf : final c s = false) :
    enabled c s ≠ [] := by
  intro he
  have hf : s.failed = false := by
    simp only [final, Bool.or_eq_false_iff] at hnf; exact hnf.1
  have hq := stuck_quiescent hf he
  have ht := quiescent_final hW hn ho hti h hf hq
  simp only [final, Bool.or_eq_false_iff] at hnf
  rw [hnf.2] at ht; cases ht

end LbzVerif.Lemmas.SchedD
